package main

import (
	"errors"
	"fmt"
	"os"
	"path/filepath"
	"sort"
	"strings"

	"acra-vh/vh"
	"acra-vh/x08tx"

	keystoreV1 "github.com/cossacklabs/acra/keystore"
	"github.com/cossacklabs/acra/keystore/v2/keystore/api"
	"github.com/cossacklabs/acra/keystore/v2/keystore/asn1"
	fsV2 "github.com/cossacklabs/acra/keystore/v2/keystore/filesystem"
	"github.com/cossacklabs/acra/keystore/v2/keystore/filesystem/backend"
	backendAPI "github.com/cossacklabs/acra/keystore/v2/keystore/filesystem/backend/api"
)

// Domain c08tx (C08, recovery): whole HISTORIES of keystore v2 operations, each with a schedule of SEVERAL
// faults, with re-opens in between (after every crash, and at random), on the real in-memory back end and on
// the real DirectoryBackend in a temporary directory; multi-ring import, key pair rings; the directory's
// open protocol from every state of its bookkeeping files. Model: coq/Model/RunKeystoreTx.v.
func init() { register("c08tx", "Model.RunKeystoreTx", x08Run) }

// ---------- operations ----------

type x08ImpRing struct {
	rid  int
	cur  int
	keys []vh.KswKey
}

type x08Op struct {
	kind int // 0 = a kop of c08.go, 1 = import, 2 = list
	k    kop
	imp  []x08ImpRing
	dec  int // 0 abort, 1 skip, 2 overwrite
	data []byte
}

var x08DecNames = []string{"DAbort", "DSkip", "DOverwrite"}

func (o x08Op) Coq() string {
	switch o.kind {
	case 0:
		return "XK (" + o.k.Coq() + ")"
	case 1:
		var rs []string
		for _, r := range o.imp {
			rs = append(rs, fmt.Sprintf("(%d, %s)", r.rid, vh.KswCoqRing(r.cur, r.keys)))
		}
		return fmt.Sprintf("XImport [%s] %s", strings.Join(rs, "; "), x08DecNames[o.dec])
	}
	return "XList"
}

type x08Step struct {
	reopen bool
	o      x08Op
	faults map[int]int
	cut    int
}

func x08CoqFaults(f map[int]int) string {
	var idx []int
	for i := range f {
		idx = append(idx, i)
	}
	sort.Ints(idx)
	var parts []string
	for _, i := range idx {
		parts = append(parts, fmt.Sprintf("(%d%%nat, %s)", i, vh.KswKindNames[f[i]]))
	}
	return "[" + strings.Join(parts, "; ") + "]"
}

func (s x08Step) Coq() string {
	if s.reopen {
		return "TReopen"
	}
	return fmt.Sprintf("TOp (%s) %s", s.o.Coq(), x08CoqFaults(s.faults))
}

func x08CoqSteps(steps []x08Step) string {
	parts := make([]string, len(steps))
	for i, s := range steps {
		parts[i] = s.Coq()
	}
	return "[" + strings.Join(parts, "; ") + "]"
}

type x08Delegate struct{ dec int }

var errX08Exists = errors.New("imported key ring already exists (delegate)")

func (d x08Delegate) DecideKeyRingOverwrite(cur, new *asn1.KeyRing) (api.ImportDecision, error) {
	switch d.dec {
	case 1:
		return api.ImportSkip, nil
	case 2:
		return api.ImportOverwrite, nil
	}
	return api.ImportAbort, errX08Exists
}

// ---------- the store: in-memory, or a directory in a temporary place ----------

type x08Store struct {
	dir   bool
	root  string
	mem   *backend.InMemory
	inner backendAPI.Backend // what the current process has open
	clean *x08tx.Handle      // fault-free reader of the same storage
}

func x08NewStore(dir bool) (*x08Store, error) {
	s := &x08Store{dir: dir}
	if !dir {
		s.mem = backend.NewInMemory()
		s.inner = s.mem
		s.clean = x08tx.NewHandle(s.mem)
		return s, nil
	}
	tmp, err := os.MkdirTemp("", "acra-vh-x08tx")
	if err != nil {
		return nil, err
	}
	s.root = filepath.Join(tmp, "ks")
	if err := s.reopen(); err != nil {
		return nil, err
	}
	return s, nil
}

// reopen = what a new process does: the REAL CreateDirectoryBackend on the directory as it is.
func (s *x08Store) reopen() error {
	if !s.dir {
		return nil
	}
	if s.inner != nil {
		s.inner.Close()
	}
	b, err := backend.CreateDirectoryBackend(s.root)
	if err != nil {
		return err
	}
	s.inner = b
	if s.clean != nil {
		s.clean.B.Inner.Close()
	}
	c, err := backend.CreateDirectoryBackend(s.root)
	if err != nil {
		return err
	}
	s.clean = x08tx.NewHandle(c)
	return nil
}

func (s *x08Store) close() {
	if s.dir {
		if s.inner != nil {
			s.inner.Close()
		}
		if s.clean != nil {
			s.clean.B.Inner.Close()
		}
		os.RemoveAll(filepath.Dir(s.root))
	}
}

func (s *x08Store) abstract() ([]vh.KswFile, error) { return x08tx.Abstract(s.clean.B.Inner, s.clean) }

// ---------- one process ----------

type x08Proc struct {
	h       *x08tx.Handle
	slots   [3]api.MutableKeyRing
	slotRid [3]int
}

func x08NewProc(s *x08Store) *x08Proc {
	return &x08Proc{h: x08tx.NewHandle(s.inner), slotRid: [3]int{-1, -1, -1}}
}

// do runs one operation: (0 ok | 1 err, value)
func (p *x08Proc) do(o x08Op) (int, int) {
	fail := func(err error) (int, int) {
		if err != nil {
			return 1, 0
		}
		return 0, 0
	}
	switch o.kind {
	case 1:
		_, err := p.h.FS.ImportKeyRings(o.data, x08tx.Suite(), x08Delegate{o.dec})
		return fail(err)
	case 2:
		l, err := p.h.SK.ListKeys()
		if err != nil {
			return 1, 0
		}
		return 0, len(l)
	}
	k := o.k
	switch k.kind {
	case opOpen:
		r, err := p.h.FS.OpenKeyRingRW(x08tx.RingPath(k.rid))
		if err != nil {
			return 1, 0
		}
		p.slots[k.slot], p.slotRid[k.slot] = r, k.rid
		return 0, 0
	case opGen:
		if x08tx.IsPair(k.rid) {
			return fail(p.h.SK.SaveDataEncryptionKeys(x08tx.Client(k.rid), x08tx.PairOf(k.ord)))
		}
		return fail(p.h.SK.VerifImportClientIDSymmetricKey(x08tx.Client(k.rid), vh.KswKeyBytes(k.ord)))
	case opDestroyCur:
		if x08tx.IsPair(k.rid) {
			return fail(p.h.SK.DestroyClientIDEncryptionKeyPair(x08tx.Client(k.rid)))
		}
		return fail(p.h.SK.DestroyClientIDSymmetricKey(x08tx.Client(k.rid)))
	}
	r := p.slots[k.slot]
	if r == nil {
		return 1, 0
	}
	switch k.kind {
	case opAdd:
		s, err := r.AddKey(vh.KswKeyDescription(k.ord))
		if err != nil {
			return 1, 0
		}
		return 0, s
	case opSetCur:
		return x08Val(r.SetCurrent(k.seq), k.seq)
	case opSetState:
		return x08Val(r.SetState(k.seq, api.KeyState(k.st)), k.seq)
	case opDestroy:
		return x08Val(r.DestroyKey(k.seq), k.seq)
	}
	return 1, 0
}

func x08Val(err error, v int) (int, int) {
	if err != nil {
		return 1, 0
	}
	return 0, v
}

func (p *x08Proc) doFaulted(o x08Op, faults map[int]int, cut int) (res, val, calls int, crashed bool) {
	b := p.h.B
	b.Arm(faults)
	b.Cut = cut
	defer func() {
		calls = b.Calls
		b.Faults = nil
		if r := recover(); r != nil {
			if _, ok := r.(x08tx.Crash); !ok {
				panic(r)
			}
			crashed = true
		}
	}()
	res, val = p.do(o)
	return
}

// ---------- generation ----------

// x08MakeImport builds a real export container in a separate (fault-free) keystore.
func x08MakeImport(r *vh.Rng, ord *int) x08Op {
	src := x08tx.NewHandle(backend.NewInMemory())
	n := 1 + r.Intn(2)
	var paths []string
	used := map[int]bool{}
	for i := 0; i < n; i++ {
		rid := r.Pick(1, 2, 3, 101)
		if used[rid] {
			continue
		}
		used[rid] = true
		p := &x08Proc{h: src, slotRid: [3]int{-1, -1, -1}}
		nk := 1 + r.Intn(3)
		for j := 0; j < nk; j++ {
			*ord++
			p.do(x08Op{k: kop{kind: opGen, rid: rid, ord: *ord}})
		}
		if r.Intn(3) == 0 { // make an older key current / change a state
			p.do(x08Op{k: kop{kind: opOpen, slot: 0, rid: rid}})
			p.do(x08Op{k: kop{kind: opSetCur, slot: 0, seq: 1}})
			if r.Bool() {
				p.do(x08Op{k: kop{kind: opSetState, slot: 0, seq: nk, st: int(api.KeyActive)}})
			}
		}
		paths = append(paths, x08tx.RingPath(rid))
	}
	data, err := src.FS.ExportKeyRings(paths, x08tx.Suite(), keystoreV1.ExportPrivateKeys)
	if err != nil {
		panic(err)
	}
	files, err := x08tx.Abstract(src.B.Inner, src)
	if err != nil {
		panic(err)
	}
	o := x08Op{kind: 1, dec: r.Pick(0, 1, 2, 2), data: data}
	// the order in which ImportKeyRings goes through the container (the DER encoding may reorder the
	// rings): taken from a fault-free import into a scratch keystore
	scratch := x08tx.NewHandle(backend.NewInMemory())
	order, err := scratch.FS.ImportKeyRings(data, x08tx.Suite(), nil)
	if err != nil {
		panic(err)
	}
	for _, p := range order {
		for _, f := range files {
			if f.Kind == 0 && x08tx.RingPath(f.Rid) == filepath.ToSlash(p) {
				o.imp = append(o.imp, x08ImpRing{rid: f.Rid, cur: f.Cur, keys: f.Keys})
			}
		}
	}
	return o
}

func x08GenOp(r *vh.Rng, ord *int, nkeys int) x08Op {
	switch r.Intn(20) {
	case 0, 1, 2:
		return x08MakeImport(r, ord)
	case 3, 4:
		return x08Op{kind: 2}
	case 5, 6:
		*ord++
		return x08Op{k: kop{kind: opGen, rid: 101, ord: *ord}} // key pair ring
	case 7:
		return x08Op{k: kop{kind: opDestroyCur, rid: 101}}
	}
	return x08Op{k: genKop(r, ord, nkeys)}
}

func x08GenFaults(r *vh.Rng, rep *vh.Report) map[int]int {
	f := map[int]int{}
	n := 0
	switch x := r.Intn(20); {
	case x < 8:
		n = 0
	case x < 15:
		n = 1
	case x < 18:
		n = 2
	default:
		n = 3
	}
	base, consecutive := 1+r.Intn(8), n >= 2 && r.Bool()
	for i := 0; i < n; i++ {
		at := r.Intn(12)
		if r.Intn(3) == 0 {
			at = r.Intn(20)
		}
		if consecutive { // e.g. the Put fails and the Unlock (or the cleanup) fails as well
			at = base + i*(1+r.Intn(2))
		}
		kind := 1 + r.Intn(5)
		if i+1 < n && r.Intn(3) != 0 {
			kind = r.Pick(vh.KErr, vh.KErrTorn) // an error lets the operation go on to the next fault
		}
		f[at] = kind
	}
	rep.Count(fmt.Sprintf("faults-armed:%d", len(f)))
	for _, k := range f {
		rep.Count("fault:" + vh.KswKindNames[k])
	}
	return f
}

// ---------- the domain ----------

func x08Run(rep *vh.Report, r *vh.Rng, n int, thorough bool) {
	ord := 0
	for sc := 0; sc < n; sc++ {
		dir := sc%3 == 2
		x08History(rep, r, sc, dir, &ord)
	}
	x08Dir(rep, r, thorough)
}

type x08Snap struct {
	files []vh.KswFile
}

func x08History(rep *vh.Report, r *vh.Rng, sc int, dir bool, ord *int) {
	store, err := x08NewStore(dir)
	if err != nil {
		rep.Violate("x08-store-setup", err.Error(), "-")
		return
	}
	defer store.close()
	if dir {
		rep.Count("store:directory")
	} else {
		rep.Count("store:memory")
	}
	var steps []x08Step
	steps = append(steps, x08Step{o: x08Op{k: kop{kind: opOpen, slot: 0, rid: 1}}}, x08Step{o: x08Op{k: kop{kind: opOpen, slot: 1, rid: 1 + r.Intn(2)}}})
	nkeys := 0
	for i, hl := 0, 3+r.Intn(6); i < hl; i++ {
		if r.Intn(7) == 0 {
			steps = append(steps, x08Step{reopen: true})
			continue
		}
		o := x08GenOp(r, ord, nkeys)
		if o.kind == 0 && (o.k.kind == opAdd || o.k.kind == opGen) {
			nkeys++
		}
		steps = append(steps, x08Step{o: o, faults: x08GenFaults(r, rep), cut: r.Intn(4)})
	}
	rep.Count(fmt.Sprintf("hist-len:%d", len(steps)))

	p := x08NewProc(store)
	var obs [][]byte
	prev, err := store.abstract()
	if err != nil {
		rep.Violate("x08-storage-unreadable", err.Error(), "-")
		return
	}
	crashes := 0
	for i, s := range steps {
		replay := fmt.Sprintf("THist %s (first %d steps; store=%s)", x08CoqSteps(steps[:i+1]), i+1, map[bool]string{false: "memory", true: "directory"}[dir])
		if s.reopen {
			rep.Count("step:reopen")
			if dir && r.Bool() {
				// what a crash inside DirectoryBackend.Put leaves when it dies after MkdirAll and before the
				// file is created: directories without files (of an existing client and of a new one)
				os.MkdirAll(filepath.Join(store.root, "client", fmt.Sprintf("c%03d", 1+r.Intn(3))), 0700)
				os.MkdirAll(filepath.Join(store.root, "client", "c009", "left"), 0700)
				rep.Count("dir-leftover:empty-directories")
			}
			if err := store.reopen(); err != nil {
				rep.Violate("x08-reopen-fails", "re-opening the keystore directory fails: "+err.Error(), replay)
				return
			}
			p = x08NewProc(store)
			obs = append(obs, (&vh.KswEnc{}).N(9).Bytes())
			continue
		}
		rep.Count("step:" + []string{"kop", "import", "list"}[s.o.kind])
		var viewBefore []byte
		if k := s.o.k; s.o.kind == 0 && k.kind >= opAdd && k.kind <= opDestroy && p.slots[k.slot] != nil {
			cur, keys := vh.KswView(p.slots[k.slot])
			viewBefore = (&vh.KswEnc{}).Ring(cur, keys).Bytes()
		}
		res, val, calls, crashed := p.doFaulted(s.o, s.faults, s.cut)
		hit := 0
		for at := range s.faults {
			if at < calls {
				hit++
			}
		}
		rep.Count(fmt.Sprintf("faults-hit:%d", hit))
		post, err := store.abstract()
		if err != nil {
			rep.Violate("x08-storage-unreadable", "storage cannot be abstracted: "+err.Error(), replay)
			return
		}
		e := &vh.KswEnc{}
		if crashed {
			crashes++
			rep.Count("result:crash")
			e.N(2)
		} else {
			if res == 0 {
				rep.Count("result:ok")
				e.N(0).N(val)
			} else {
				rep.Count("result:err")
				e.N(1)
			}
			e.N(calls)
			k := s.o.k
			if s.o.kind == 0 && (k.kind == opOpen || (k.kind >= opAdd && k.kind <= opDestroy)) && p.slots[k.slot] != nil {
				cur, keys := vh.KswView(p.slots[k.slot])
				e.N(1).N(fsV2.VerifTxLogLen(p.slots[k.slot])).Ring(cur, keys)
			} else {
				e.N(0)
			}
		}
		obs = append(obs, append(e.Bytes(), vh.KswEncodeFiles(post)...))
		x08Oracle(rep, s, p, prev, post, crashed, res, viewBefore, replay)
		prev = post
		if crashed {
			// a new process; on the directory this is the real CreateDirectoryBackend
			if err := store.reopen(); err != nil {
				rep.Violate("x08-reopen-fails", "re-opening the keystore directory after the crash fails: "+err.Error(), replay)
				return
			}
			p = x08NewProc(store)
		}
	}
	rep.Count(fmt.Sprintf("crashes-in-history:%d", crashes))

	// ---- recovery probe: fresh process, listing, a write ----
	replay := fmt.Sprintf("THist %s", x08CoqSteps(steps))
	if err := store.reopen(); err != nil {
		rep.Violate("x08-reopen-fails", "re-opening the keystore directory fails: "+err.Error(), replay)
		return
	}
	fresh := x08NewProc(store)
	lk := &vh.KswEnc{}
	descs, lerr := fresh.h.SK.ListKeys()
	rep.OracleChecks++
	if lerr != nil {
		lk.N(1)
		rep.Violate("x08-listkeys-fails", "ListKeys fails after the history: "+lerr.Error(), replay)
	} else {
		type pr struct{ rid, cur int }
		var prs []pr
		for _, d := range descs {
			rid, _ := x08RidOfKeyID(d.KeyID)
			cur := -1
			if f := ringOf(prev, 0, rid); f != nil {
				cur = f.Cur
			}
			prs = append(prs, pr{rid, cur})
		}
		sort.Slice(prs, func(i, j int) bool { return prs[i].rid < prs[j].rid })
		lk.N(0).N(len(prs))
		for _, x := range prs {
			lk.N(x.rid).N(x.cur)
		}
	}
	*ord++
	follow := kop{kind: opGen, rid: r.Pick(1, 2, 101), ord: *ord}
	fres, _ := fresh.do(x08Op{k: follow})
	fo := &vh.KswEnc{}
	rep.OracleChecks++
	if fres == 0 {
		fo.N(0).N(0)
	} else {
		fo.N(1)
		rep.Violate("x08-write-blocked", fmt.Sprintf("a key generation on ring %d fails after the history (%s)", follow.rid, strings.Join(fresh.h.B.Trace, ",")), replay)
	}
	post2, err := store.abstract()
	if err != nil {
		rep.Violate("x08-storage-unreadable", "storage after the follow-up write cannot be abstracted: "+err.Error(), replay)
		return
	}
	if f := ringOf(post2, 0, follow.rid); fres == 0 {
		rep.OracleChecks++
		ok := false
		if f != nil && f.Valid {
			for _, k := range f.Keys {
				if k.Seq == f.Cur && k.Ord == follow.ord {
					ok = true
				}
			}
		}
		if !ok {
			rep.Violate("x08-new-key-unreadable", "the key generated after the history is not the current key of its ring", replay)
		}
		if t := ringOf(post2, 1, follow.rid); t != nil {
			rep.Violate("x08-temp-not-cleaned", "a '.keyring.new' of the ring is left after a successful write", replay)
		}
	}
	obs = append(obs, lk.Bytes(), fo.Bytes(), vh.KswEncodeFiles(post2))
	rep.Add(fmt.Sprintf("hist%d dir=%v steps=%d", sc, dir, len(steps)),
		fmt.Sprintf("THist %s (%s)", x08CoqSteps(steps), follow.Coq()), vh.Ok(obs...))
}

func x08RidOfKeyID(id string) (int, bool) {
	var n int
	id = filepath.ToSlash(id)
	if strings.HasSuffix(id, "/storage-sym") {
		_, err := fmt.Sscanf(id, "client/c%03d/storage-sym", &n)
		return n, err == nil
	}
	_, err := fmt.Sscanf(id, "client/c%03d/storage", &n)
	return 100 + n, err == nil
}

// x08Oracle: the property's own checks after EVERY step of the history (independent of the model).
func x08Oracle(rep *vh.Report, s x08Step, p *x08Proc, pre, post []vh.KswFile, crashed bool, res int, viewBefore []byte, replay string) {
	// every ring file verifies; seqnums strictly increase; current designates a key; keys decode
	for _, fl := range post {
		if fl.Kind != 0 {
			continue
		}
		rep.OracleChecks++
		if !fl.Valid {
			rep.Violate("x08-ring-unverifiable", fmt.Sprintf("%s does not verify after the step", fl.Name), replay)
			continue
		}
		curOK := fl.Cur == asn1.NoKey
		for i, k := range fl.Keys {
			if i > 0 && fl.Keys[i-1].Seq >= k.Seq {
				rep.Violate("x08-seqnums-not-increasing", fmt.Sprintf("%s: seqnums %v", fl.Name, fl.Keys), replay)
			}
			if k.Seq == fl.Cur {
				curOK = true
			}
			if k.Ord < 0 {
				rep.Violate("x08-key-corrupt", fmt.Sprintf("%s: key %d does not decode (for a key pair: halves do not match)", fl.Name, k.Seq), replay)
			}
		}
		if !curOK {
			rep.Violate("x08-current-dangling", fmt.Sprintf("%s: current %d is not a key of the ring", fl.Name, fl.Cur), replay)
		}
	}
	// what may this step write?
	target, wholeRing := -1, map[int]bool{}
	keyTouched := func(fl vh.KswFile, k vh.KswKey) bool { return false }
	switch s.o.kind {
	case 0:
		k := s.o.k
		switch k.kind {
		case opOpen, opGen:
			target = k.rid
		case opDestroyCur:
			target = k.rid
			keyTouched = func(fl vh.KswFile, kk vh.KswKey) bool { return fl.Rid == k.rid && kk.Seq == fl.Cur }
		default:
			target = p.slotRid[k.slot]
			if k.kind == opSetState || k.kind == opDestroy {
				keyTouched = func(fl vh.KswFile, kk vh.KswKey) bool { return fl.Rid == target && kk.Seq == k.seq }
			}
		}
	case 1:
		for _, ir := range s.o.imp {
			wholeRing[ir.rid] = true
		}
	}
	for _, fl := range pre {
		if fl.Kind != 0 || !fl.Valid {
			continue
		}
		after := ringOf(post, 0, fl.Rid)
		rep.OracleChecks++
		if after == nil || !after.Valid {
			rep.Violate("x08-ring-lost", fmt.Sprintf("%s was a readable key ring before the step and is not afterwards", fl.Name), replay)
			continue
		}
		if wholeRing[fl.Rid] {
			// an import: the ring is its old self or exactly the imported ring
			var want *x08ImpRing
			for i := range s.o.imp {
				if s.o.imp[i].rid == fl.Rid {
					want = &s.o.imp[i]
				}
			}
			same := sameRing(&fl, after)
			imported := want != nil && string((&vh.KswEnc{}).Ring(after.Cur, after.Keys).Bytes()) == string((&vh.KswEnc{}).Ring(want.cur, want.keys).Bytes())
			if !same && !(imported && s.o.dec == 2) {
				rep.Violate("x08-import-partial", fmt.Sprintf("%s is neither its old self nor the imported ring (decision %s)", fl.Name, x08DecNames[s.o.dec]), replay)
			}
			continue
		}
		if fl.Rid != target && !sameRing(&fl, after) {
			rep.Violate("x08-other-ring-changed", fmt.Sprintf("%s changed although the step does not write it", fl.Name), replay)
			continue
		}
		for _, k := range fl.Keys {
			if !readable(k) || keyTouched(fl, k) {
				continue
			}
			found := false
			for _, k2 := range after.Keys {
				if k2.Seq == k.Seq && readable(k2) && k2.Ord == k.Ord {
					found = true
				}
			}
			if !found {
				rep.Violate("x08-key-lost", fmt.Sprintf("%s: key %d (ordinal %d) was readable before the step and is not afterwards", fl.Name, k.Seq, k.Ord), replay)
			}
		}
	}
	// a ring that appears is empty or complete: for an import, empty or exactly the imported ring
	for _, fl := range post {
		if fl.Kind != 0 || !fl.Valid || ringOf(pre, 0, fl.Rid) != nil {
			continue
		}
		rep.OracleChecks++
		if s.o.kind == 1 && len(fl.Keys) > 0 {
			ok := false
			for _, ir := range s.o.imp {
				if ir.rid == fl.Rid && string((&vh.KswEnc{}).Ring(fl.Cur, fl.Keys).Bytes()) == string((&vh.KswEnc{}).Ring(ir.cur, ir.keys).Bytes()) {
					ok = true
				}
			}
			if !ok {
				rep.Violate("x08-import-partial", fmt.Sprintf("%s appeared holding something else than the imported ring", fl.Name), replay)
			}
		}
	}
	// txlog_rolled_back: after ANY return nothing is pending; after an error the object shows a stored state
	if k := s.o.k; !crashed && s.o.kind == 0 && k.kind >= opAdd && k.kind <= opDestroy && p.slots[k.slot] != nil {
		rep.OracleChecks++
		if n := fsV2.VerifTxLogLen(p.slots[k.slot]); n != 0 {
			rep.Violate("x08-txlog-not-rolled-back", fmt.Sprintf("%d pending transactions after the operation returned (result %d)", n, res), replay)
		}
		cur, keys := vh.KswView(p.slots[k.slot])
		view := string((&vh.KswEnc{}).Ring(cur, keys).Bytes())
		st := ringOf(post, 0, p.slotRid[k.slot])
		stored := st != nil && view == string((&vh.KswEnc{}).Ring(st.Cur, st.Keys).Bytes())
		if res == 0 && !stored {
			rep.Violate("x08-memory-differs-from-storage", "after a successful update the key ring object does not show the stored ring", replay)
		}
		if res != 0 && !stored && view != string(viewBefore) {
			rep.Violate("x08-memory-differs-from-storage", fmt.Sprintf("after a failed update the key ring object shows current=%d keys=%v: neither what it showed before nor the stored ring %+v (an unpersisted transaction)", cur, keys, st), replay)
		}
	}
	// an import that reports success has stored every ring of the container (overwrite), or every ring that did not exist (skip)
	if s.o.kind == 1 && !crashed && res == 0 {
		for _, ir := range s.o.imp {
			rep.OracleChecks++
			existed := ringOf(pre, 0, ir.rid) != nil
			if existed && s.o.dec != 2 {
				continue
			}
			st := ringOf(post, 0, ir.rid)
			if st == nil || !st.Valid || string((&vh.KswEnc{}).Ring(st.Cur, st.Keys).Bytes()) != string((&vh.KswEnc{}).Ring(ir.cur, ir.keys).Bytes()) {
				rep.Violate("x08-import-not-stored", fmt.Sprintf("ImportKeyRings reported success but ring %d is not the imported ring", ir.rid), replay)
			}
		}
	}
}

// ---------- the directory's open protocol ----------

func x08Dir(rep *vh.Report, r *vh.Rng, thorough bool) {
	tmp, err := os.MkdirTemp("", "acra-vh-x08dir")
	if err != nil {
		rep.Violate("x08-store-setup", err.Error(), "-")
		return
	}
	defer os.RemoveAll(tmp)
	id := 0
	run := func(m x08tx.DMeta, rw bool, cut int) {
		id++
		root := filepath.Join(tmp, fmt.Sprintf("d%d", id), "ks")
		os.MkdirAll(filepath.Dir(root), 0700)
		if err := m.Realize(root, cut); err != nil {
			rep.Violate("x08-store-setup", err.Error(), m.Coq())
			return
		}
		// a key ring written through a complete directory must stay reachable
		b, err := x08tx.OpenDir(root, rw)
		if b != nil {
			b.Close()
		}
		after := x08tx.ObserveDir(root)
		e := &vh.KswEnc{}
		if err == nil {
			e.N(0)
		} else {
			e.N(1)
		}
		m2 := &vh.KswEnc{}
		m2.N(map[bool]int{false: 0, true: 1}[after.Root]).N(after.Version).N(after.Tmps).N(map[bool]int{false: 0, true: 1}[after.Lock])
		rep.Count(fmt.Sprintf("dir-open:rw=%v version=%d", rw, m.Version))
		rep.Add(fmt.Sprintf("dir rw=%v %s cut=%d", rw, m.Coq(), cut), fmt.Sprintf("TDir %v %s", rw, m.Coq()), vh.Ok(e.Bytes(), m2.Bytes()))
		// oracle: every state an interrupted open can leave (no foreign version file) opens read-write,
		// and after that read-only as well, with a complete version file
		if m.Version != 3 && rw {
			rep.OracleChecks++
			replay := fmt.Sprintf("directory state %s (partial version file = first %d bytes of the version string), then CreateDirectoryBackend", m.Coq(), cut%len("Acra Keystore v2"))
			if err != nil {
				rep.Violate("x08-dir-open-fails", "a keystore directory left by an interrupted open cannot be opened any more: "+err.Error(), replay)
				return
			}
			if after.Version != 1 {
				rep.Violate("x08-dir-version-not-repaired", "after a successful read-write open the version file is not complete", replay)
			}
			b2, err2 := x08tx.OpenDir(root, false)
			if b2 != nil {
				b2.Close()
			}
			if err2 != nil {
				rep.Violate("x08-dir-open-fails", "read-only open fails after a successful read-write open: "+err2.Error(), replay)
			}
			if !x08IsKeyDir(root) {
				rep.Violate("x08-dir-open-fails", "CheckDirectoryVersion rejects the directory after a successful read-write open", replay)
			}
		}
	}
	for _, root := range []bool{false, true} {
		for v := 0; v <= 3; v++ {
			for tm := 0; tm <= 1; tm++ {
				for _, lock := range []bool{false, true} {
					if !root && (v != 0 || tm != 0 || lock) {
						continue
					}
					m := x08tx.DMeta{Root: root, Version: v, Tmps: tm, Lock: lock}
					cuts := []int{0}
					if v == 2 {
						cuts = []int{0, 1 + r.Intn(14), 15}
					}
					for _, cut := range cuts {
						run(m, true, cut)
						run(m, false, cut)
					}
				}
			}
		}
	}
}

func x08IsKeyDir(root string) bool { return backend.CheckDirectoryVersion(root) == nil }
