package main

// Domain c09res: column resolution of the searchable path. Whole statements (SELECT / UPDATE / DELETE with FROM
// lists, JOIN trees, derived tables, sub-selects) through the REAL PostgreSQL and MySQL HashQuery.OnQuery / OnBind.
// The op terms (Model.RunSearchResolve: RQuery, RBind) are printed from a structural translation of the REAL parsed
// tree before and after OnQuery (c09res_map.go). Oracles: (A) which comparisons must be rewritten by real SQL
// scoping, (B) nothing but comparisons changed, (C) result sets over plaintext / stored tables are the same.

import (
	"bytes"
	"fmt"
	"sort"
	"strings"

	"acra-vh/vh"

	"github.com/cossacklabs/acra/hmac"
)

// ---------- abstract statement (mirror of Model/SearchResolve.v) ----------

type c9rExpr struct {
	k    string // col lit par cast substr conv other
	q, c string
	v    []byte
	i    int
	e    *c9rExpr
	// generator only (never printed in the Coq term)
	sq, sc string // SQL spelling of qualifier / column
	cast   string // SQL cast rendering kind
}

type c9rItem struct{ q, c, as string }

type c9rCond struct {
	k     string // true cmp and or not paren exists in cmpsub
	op    string // Coq constructor of the operator
	opSQL string // the operator as written / parsed (evaluator)
	l, r  *c9rExpr
	a, b  *c9rCond
	s     *c9rSel
}

type c9rTref struct {
	k           string // base join derived
	name, alias string
	l, r        *c9rTref
	on          *c9rCond
	s           *c9rSel
	sname, sal  string // SQL spelling
}

type c9rSel struct {
	kind  string // select update delete
	items []c9rItem
	star  bool
	from  []*c9rTref
	w     *c9rCond
}

func c9rB(s string) string { return vh.H([]byte(s)) }

func (e *c9rExpr) coq() string {
	switch e.k {
	case "col":
		return fmt.Sprintf("(ECol %s %s)", c9rB(e.q), c9rB(e.c))
	case "lit":
		return fmt.Sprintf("(EVal (VLit %s))", vh.H(e.v))
	case "par":
		return fmt.Sprintf("(EVal (VPar %d))", e.i)
	case "cast":
		return "(ECast " + e.e.coq() + ")"
	case "substr":
		return "(ESubstr " + e.e.coq() + ")"
	case "conv":
		return "(EConv " + e.e.coq() + ")"
	}
	return fmt.Sprintf("(EOther %d%%N)", e.i)
}

func (c *c9rCond) coq() string {
	if c == nil {
		return "CTrue"
	}
	switch c.k {
	case "cmp":
		return fmt.Sprintf("(CCmp %s %s %s)", c.op, c.l.coq(), c.r.coq())
	case "and":
		return fmt.Sprintf("(CAnd %s %s)", c.a.coq(), c.b.coq())
	case "or":
		return fmt.Sprintf("(COr %s %s)", c.a.coq(), c.b.coq())
	case "not":
		return "(CNot " + c.a.coq() + ")"
	case "paren":
		return "(CParen " + c.a.coq() + ")"
	case "exists":
		return "(CExists " + c.s.coq() + ")"
	case "in":
		return fmt.Sprintf("(CIn %s %s)", c.l.coq(), c.s.coq())
	case "cmpsub":
		return fmt.Sprintf("(CCmpSub %s %s %s)", c.op, c.l.coq(), c.s.coq())
	}
	return "CTrue"
}

func (t *c9rTref) coq() string {
	switch t.k {
	case "base":
		return fmt.Sprintf("(TBase %s %s)", c9rB(t.name), c9rB(t.alias))
	case "join":
		return fmt.Sprintf("(TJoin %s %s %s)", t.l.coq(), t.r.coq(), t.on.coq())
	}
	return fmt.Sprintf("(TDerived %s %s)", t.s.coq(), c9rB(t.alias))
}

func (s *c9rSel) coq() string {
	var it []string
	for _, i := range s.items {
		it = append(it, fmt.Sprintf("mk_item %s %s %s", c9rB(i.q), c9rB(i.c), c9rB(i.as)))
	}
	f := "FNil"
	for i := len(s.from) - 1; i >= 0; i-- {
		f = fmt.Sprintf("(FCons %s %s)", s.from[i].coq(), f)
	}
	return fmt.Sprintf("(Sel [%s] %s %s)", strings.Join(it, "; "), f, s.w.coq())
}

// ---------- SQL rendering ----------

type c9rRender struct {
	my   bool
	npar int
}

func (rd *c9rRender) expr(e *c9rExpr) string {
	switch e.k {
	case "col":
		if e.sq != "" {
			return e.sq + "." + e.sc
		}
		return e.sc
	case "lit":
		return "'" + string(e.v) + "'"
	case "par":
		e.i = rd.npar
		rd.npar++
		if rd.my {
			return "?"
		}
		return fmt.Sprintf("$%d", e.i+1)
	case "cast":
		in := rd.expr(e.e)
		if rd.my {
			return "convert(" + in + ", char)"
		}
		return in + "::text"
	}
	panic("c9r: render of " + e.k)
}

func (rd *c9rRender) cond(c *c9rCond) string {
	switch c.k {
	case "cmp":
		return rd.expr(c.l) + " " + c.opSQL + " " + rd.expr(c.r)
	case "and", "or":
		s := rd.cond(c.a) + " " + c.k + " " + rd.cond(c.b)
		if !rd.my {
			return "(" + s + ")"
		}
		return s
	case "not":
		if !rd.my {
			return "(not " + rd.cond(c.a) + ")"
		}
		return "not " + rd.cond(c.a)
	case "paren":
		return "(" + rd.cond(c.a) + ")"
	case "exists":
		return "exists (" + rd.sel(c.s) + ")"
	case "in":
		return rd.expr(c.l) + " in (" + rd.sel(c.s) + ")"
	case "cmpsub":
		return rd.expr(c.l) + " " + c.opSQL + " (" + rd.sel(c.s) + ")"
	}
	panic("c9r: render cond " + c.k)
}

func (rd *c9rRender) tref(t *c9rTref) string {
	switch t.k {
	case "base":
		if t.sal != "" {
			return t.sname + " as " + t.sal
		}
		return t.sname
	case "join":
		return rd.tref(t.l) + " join " + rd.tref(t.r) + " on " + rd.cond(t.on)
	}
	return "(" + rd.sel(t.s) + ") as " + t.sal
}

func (rd *c9rRender) sel(s *c9rSel) string {
	var fr []string
	switch s.kind {
	case "update":
		q := "update " + rd.tref(s.from[0]) + " set zz = 'x'"
		if s.w != nil {
			q += " where " + rd.cond(s.w)
		}
		return q
	case "delete":
		q := "delete from " + rd.tref(s.from[0])
		if s.w != nil {
			q += " where " + rd.cond(s.w)
		}
		return q
	}
	var it []string
	if s.star {
		it = append(it, "*")
	}
	for _, i := range s.items {
		x := i.c
		if i.q != "" {
			x = i.q + "." + x
		}
		if i.as != "" {
			x += " as " + i.as
		}
		it = append(it, x)
	}
	for _, t := range s.from {
		fr = append(fr, rd.tref(t))
	}
	q := "select " + strings.Join(it, ", ") + " from " + strings.Join(fr, ", ")
	if s.w != nil {
		q += " where " + rd.cond(s.w)
	}
	return q
}

// ---------- scenario: config, data ----------

type c9rTable struct {
	name string
	cols []string
	enc  map[string]int  // column -> sid
	srch map[string]bool // searchable columns
	rows []map[string][]byte
	st   []map[string][]byte // stored
}

type c9rScenario struct {
	my     bool
	tabs   []*c9rTable
	yml    string
	cfg    string
	srchT  string
	key    []byte
	pool   [][]byte
	rep    *vh.Report
	r      *vh.Rng
	binds  [][]byte
	nextAl int
}

var c9rPool = []struct {
	name string
	cols []string
}{
	{"t1", []string{"id", "s", "p", "e"}},
	{"t2", []string{"id", "s", "q"}},
	{"t3", []string{"id", "s", "p"}},
	{"t4", []string{"id", "z", "s"}},
}

func (sc *c9rScenario) tab(name string) *c9rTable {
	for _, t := range sc.tabs {
		if t.name == name {
			return t
		}
	}
	return nil
}

func c9rNewScenario(rep *vh.Report, r *vh.Rng, my bool, key []byte) *c9rScenario {
	sc := &c9rScenario{my: my, rep: rep, r: r, key: append([]byte{}, key...)}
	sc.pool = [][]byte{[]byte("a"), []byte("b"), []byte("ab"), []byte("")}
	skip := r.Intn(len(c9rPool))
	sid := 1
	var yml strings.Builder
	yml.WriteString("schemas:\n")
	var cfg, srch []string
	for i, p := range c9rPool {
		if i == skip {
			continue
		}
		t := &c9rTable{name: p.name, cols: p.cols, enc: map[string]int{}, srch: map[string]bool{}}
		fmt.Fprintf(&yml, "  - table: %s\n    columns: [%s]\n", t.name, strings.Join(t.cols, ", "))
		var encs []string
		first := true
		for _, c := range t.cols[1:] {
			k := r.Intn(10)
			if k < 3 {
				continue // plain
			}
			if first {
				yml.WriteString("    encrypted:\n")
				first = false
			}
			t.enc[c] = sid
			fmt.Fprintf(&yml, "      - column: %s\n", c)
			if k >= 5 {
				t.srch[c] = true
				yml.WriteString("        searchable: true\n")
				srch = append(srch, fmt.Sprintf("%d%%N", sid))
				rep.Count("cfg:searchable")
			} else {
				rep.Count("cfg:encrypted-only")
			}
			encs = append(encs, fmt.Sprintf("(%s, %d%%N)", c9rB(c), sid))
			sid++
		}
		var cl []string
		for _, c := range t.cols {
			cl = append(cl, c9rB(c))
		}
		cfg = append(cfg, fmt.Sprintf("((%s, [%s]), [%s])", c9rB(t.name), strings.Join(cl, "; "), strings.Join(encs, "; ")))
		nrows := 1 + r.Intn(3)
		for j := 0; j < nrows; j++ {
			pl := map[string][]byte{}
			st := map[string][]byte{}
			for _, c := range t.cols {
				var v []byte
				if c == "id" {
					v = []byte(fmt.Sprint(j + 1))
				} else {
					v = sc.pool[r.Intn(len(sc.pool))]
				}
				pl[c] = v
				if t.srch[c] {
					st[c] = append(hmac.GenerateHMAC(append([]byte{}, sc.key...), v), r.Bytes(8)...)
				} else {
					st[c] = v
				}
			}
			t.rows = append(t.rows, pl)
			t.st = append(t.st, st)
		}
		sc.tabs = append(sc.tabs, t)
	}
	sc.yml = yml.String()
	sc.cfg = "[" + strings.Join(cfg, "; ") + "]"
	sc.srchT = "[" + strings.Join(srch, "; ") + "]"
	return sc
}

// ---------- static scopes (real SQL scoping) ----------

type c9rSrc struct{ tab, col string } // the base column an output column denotes; tab "" = none

type c9rBind struct {
	vis     string // name the entry is visible under
	tab     string // base table ("" for a derived table)
	derived bool
	cols    []string
	src     map[string]c9rSrc
	hasAl   bool
}

type c9rScope []*c9rBind

// resolve: innermost scope first. ok=false: unknown; amb: ambiguous
func c9rResolve(q, c string, scopes []c9rScope) (b *c9rBind, depth int, amb bool) {
	for d := len(scopes) - 1; d >= 0; d-- {
		var found []*c9rBind
		for _, x := range scopes[d] {
			if q != "" {
				if x.vis == q {
					found = append(found, x)
				}
			} else if _, ok := x.src[c]; ok {
				found = append(found, x)
			}
		}
		if len(found) > 1 {
			return nil, d, true
		}
		if len(found) == 1 {
			if _, ok := found[0].src[c]; !ok {
				return nil, d, false
			}
			return found[0], d, false
		}
	}
	return nil, -1, false
}

func (sc *c9rScenario) scopeOf(from []*c9rTref) c9rScope {
	var out c9rScope
	var walk func(t *c9rTref)
	walk = func(t *c9rTref) {
		switch t.k {
		case "base":
			b := &c9rBind{vis: t.name, tab: t.name, src: map[string]c9rSrc{}, hasAl: t.alias != ""}
			if t.alias != "" {
				b.vis = t.alias
			}
			if tb := sc.tab(t.name); tb != nil {
				b.cols = tb.cols
				for _, c := range tb.cols {
					b.src[c] = c9rSrc{t.name, c}
				}
			}
			out = append(out, b)
		case "join":
			walk(t.l)
			walk(t.r)
		case "derived":
			b := &c9rBind{vis: t.alias, derived: true, src: map[string]c9rSrc{}, hasAl: true}
			inner := sc.scopeOf(t.s.from)
			for _, it := range t.s.items {
				n := it.c
				if it.as != "" {
					n = it.as
				}
				b.cols = append(b.cols, n)
				s := c9rSrc{}
				if ib, _, amb := c9rResolve(it.q, it.c, []c9rScope{inner}); ib != nil && !amb {
					s = ib.src[it.c]
				}
				b.src[n] = s
			}
			out = append(out, b)
		}
	}
	for _, t := range from {
		walk(t)
	}
	return out
}

func (sc *c9rScenario) searchable(s c9rSrc) bool {
	if s.tab == "" {
		return false
	}
	t := sc.tab(s.tab)
	return t != nil && t.srch[s.col]
}

// ---------- generator ----------

func (sc *c9rScenario) ident(name string, allowCase bool) string {
	r := sc.r
	switch r.Intn(12) {
	case 0:
		sc.rep.Count("ident:quoted")
		if sc.my {
			return "`" + name + "`"
		}
		return `"` + name + `"`
	case 1:
		if allowCase {
			sc.rep.Count("ident:upper")
			return strings.ToUpper(name)
		}
	}
	return name
}

func (sc *c9rScenario) genBase(name, alias string) *c9rTref {
	t := &c9rTref{k: "base", name: name, alias: alias}
	t.sname = sc.ident(name, true)
	if alias != "" {
		t.sal = sc.ident(alias, true)
	}
	return t
}

func (sc *c9rScenario) freshAlias() string {
	sc.nextAl++
	return fmt.Sprintf("a%d", sc.nextAl)
}

// entries of a FROM clause with distinct visible names
func (sc *c9rScenario) genEntries(n int, allowDerived bool, depth int) []*c9rTref {
	r := sc.r
	used := map[string]bool{}
	var out []*c9rTref
	for len(out) < n {
		if allowDerived && r.Intn(5) == 0 {
			al := "d" + fmt.Sprint(len(out))
			if used[al] {
				continue
			}
			used[al] = true
			sc.rep.Count("from:derived")
			out = append(out, sc.genDerived(al, depth))
			continue
		}
		t := sc.tabs[r.Intn(len(sc.tabs))]
		al := ""
		k := r.Intn(10)
		switch {
		case used[t.name] || k < 4:
			al = sc.freshAlias()
			if used[t.name] {
				sc.rep.Count("from:same-table-twice")
			}
			sc.rep.Count("from:alias")
		case k == 4:
			// alias equal to another table's name
			o := sc.tabs[r.Intn(len(sc.tabs))]
			if o.name != t.name && !used[o.name] {
				al = o.name
				sc.rep.Count("from:alias-is-table-name")
			}
		}
		vis := t.name
		if al != "" {
			vis = al
		}
		if used[vis] {
			continue
		}
		used[vis] = true
		if al == "" {
			sc.rep.Count("from:no-alias")
		}
		out = append(out, sc.genBase(t.name, al))
	}
	return out
}

func (sc *c9rScenario) genDerived(alias string, depth int) *c9rTref {
	r := sc.r
	t := sc.tabs[r.Intn(len(sc.tabs))]
	inner := &c9rSel{kind: "select", from: []*c9rTref{sc.genBase(t.name, "")}}
	for i, c := range t.cols {
		if i == 0 || r.Intn(3) > 0 {
			it := c9rItem{c: c}
			if i > 0 && r.Intn(3) == 0 {
				it.as = c + c
			}
			inner.items = append(inner.items, it)
		}
	}
	if r.Intn(2) == 0 {
		sc.rep.Count("derived:where")
		inner.w = sc.genCond([]c9rScope{sc.scopeOf(inner.from)}, 1, depth+1)
	}
	return &c9rTref{k: "derived", alias: alias, sal: alias, s: inner}
}

func (sc *c9rScenario) genFrom(depth int) []*c9rTref {
	r := sc.r
	switch k := r.Intn(10); {
	case k < 3:
		sc.rep.Count("from:single")
		return sc.genEntries(1, depth == 0 && !sc.noDerived(), depth)
	case k < 6:
		sc.rep.Count("from:comma")
		return sc.genEntries(2+r.Intn(2), depth == 0, depth)
	default:
		sc.rep.Count("from:join")
		n := 2 + r.Intn(2)
		es := sc.genEntries(n, depth == 0 && r.Intn(3) == 0, depth)
		cur := es[0]
		for i := 1; i < n; i++ {
			j := &c9rTref{k: "join", l: cur, r: es[i]}
			j.on = sc.genOn([]c9rScope{sc.scopeOf([]*c9rTref{j})})
			cur = j
		}
		out := []*c9rTref{cur}
		if r.Intn(5) == 0 {
			// a table beside the join tree
			vis := map[string]bool{}
			for _, b := range sc.scopeOf(out) {
				vis[b.vis] = true
			}
			t := sc.tabs[r.Intn(len(sc.tabs))]
			al := sc.freshAlias()
			out = append(out, sc.genBase(t.name, al))
			sc.rep.Count("from:join+table")
		}
		return out
	}
}

func (sc *c9rScenario) noDerived() bool { return false }

func (sc *c9rScenario) genOn(scopes []c9rScope) *c9rCond {
	r := sc.r
	c := sc.genColCol(scopes)
	if c == nil || r.Intn(3) == 0 {
		c2 := sc.genCmp(scopes)
		if c == nil {
			return c2
		}
		sc.rep.Count("on:and")
		return &c9rCond{k: "and", a: c, b: c2}
	}
	return c
}

// a column reference the resolver attributes to binding b of scope depth d
func (sc *c9rScenario) genColRef(scopes []c9rScope, b *c9rBind, d int, col string) *c9rExpr {
	r := sc.r
	e := &c9rExpr{k: "col", c: col}
	e.sc = sc.ident(col, true)
	if r.Intn(3) == 0 {
		if rb, rd, amb := c9rResolve("", col, scopes); rb == b && rd == d && !amb {
			sc.rep.Count("col:unqualified")
			return e
		}
	}
	e.q = b.vis
	if rb, rd, amb := c9rResolve(e.q, col, scopes); rb != b || rd != d || amb {
		return nil
	}
	// qualified by the table name although the entry has an alias is not valid SQL: only vis
	e.sq = sc.ident(b.vis, true)
	if b.hasAl {
		sc.rep.Count("col:alias-qualified")
	} else {
		sc.rep.Count("col:table-qualified")
	}
	return e
}

func (sc *c9rScenario) pickCol(scopes []c9rScope) (*c9rBind, int, string) {
	r := sc.r
	d := len(scopes) - 1
	if d > 0 && r.Intn(5) == 0 {
		d = r.Intn(d)
		sc.rep.Count("col:outer-reference")
	}
	s := scopes[d]
	b := s[r.Intn(len(s))]
	// prefer searchable columns
	var cands []string
	for _, c := range b.cols {
		if c != "id" {
			cands = append(cands, c)
			if sc.searchable(b.src[c]) {
				cands = append(cands, c, c)
			}
		}
	}
	if len(cands) == 0 || r.Intn(12) == 0 {
		return b, d, b.cols[0]
	}
	return b, d, cands[r.Intn(len(cands))]
}

func (sc *c9rScenario) genValue() *c9rExpr {
	r := sc.r
	var e *c9rExpr
	if r.Intn(3) == 0 {
		sc.rep.Count("val:placeholder")
		e = &c9rExpr{k: "par"}
	} else {
		sc.rep.Count("val:literal")
		e = &c9rExpr{k: "lit", v: sc.pool[r.Intn(len(sc.pool))]}
	}
	if r.Intn(8) == 0 {
		sc.rep.Count("val:cast")
		e = &c9rExpr{k: "cast", e: e}
	}
	return e
}

func (sc *c9rScenario) genOp() (string, string) {
	r := sc.r
	k := r.Intn(20)
	switch {
	case k < 11:
		return "OpEq", "="
	case k < 14:
		return "OpNe", "<>"
	case k < 16:
		return "OpNe", "!="
	case k == 16 && sc.my:
		sc.rep.Count("op:<=>")
		return "OpNse", "<=>"
	case k == 17:
		sc.rep.Count("op:like")
		return "OpLike", "like"
	case k == 18:
		sc.rep.Count("op:<")
		return "OpOther", "<"
	}
	return "OpEq", "="
}

func (sc *c9rScenario) genCmp(scopes []c9rScope) *c9rCond {
	r := sc.r
	for {
		b, d, col := sc.pickCol(scopes)
		ce := sc.genColRef(scopes, b, d, col)
		if ce == nil {
			continue
		}
		c := &c9rCond{k: "cmp"}
		c.op, c.opSQL = sc.genOp()
		v := sc.genValue()
		if r.Intn(25) == 0 {
			sc.rep.Count("col:cast")
			ce = &c9rExpr{k: "cast", e: ce}
		}
		if r.Intn(8) == 0 {
			sc.rep.Count("cmp:value-on-left")
			c.l, c.r = v, ce
		} else {
			c.l, c.r = ce, v
		}
		sc.rep.Count("cmp:col-value")
		return c
	}
}

func (sc *c9rScenario) genColCol(scopes []c9rScope) *c9rCond {
	r := sc.r
	s := scopes[len(scopes)-1]
	if len(s) < 2 {
		return nil
	}
	for try := 0; try < 6; try++ {
		i := r.Intn(len(s))
		j := r.Intn(len(s))
		if i == j {
			continue
		}
		var common []string
		for _, c := range s[i].cols {
			if _, ok := s[j].src[c]; ok {
				common = append(common, c)
			}
		}
		if len(common) == 0 {
			continue
		}
		col := common[r.Intn(len(common))]
		l := sc.genColRef(scopes, s[i], len(scopes)-1, col)
		rr := sc.genColRef(scopes, s[j], len(scopes)-1, col)
		if l == nil || rr == nil {
			continue
		}
		c := &c9rCond{k: "cmp", op: "OpEq", opSQL: "=", l: l, r: rr}
		if r.Intn(8) == 0 {
			c.op, c.opSQL = "OpNe", "<>"
		}
		sc.rep.Count("cmp:col-col")
		return c
	}
	return nil
}

func (sc *c9rScenario) genSub(scopes []c9rScope, depth int) *c9rSel {
	r := sc.r
	t := sc.tabs[r.Intn(len(sc.tabs))]
	al := ""
	if r.Intn(3) == 0 {
		al = sc.freshAlias()
	}
	s := &c9rSel{kind: "select", from: []*c9rTref{sc.genBase(t.name, al)}, items: []c9rItem{{c: "id"}}}
	if r.Intn(6) > 0 {
		inner := append(append([]c9rScope{}, scopes...), sc.scopeOf(s.from))
		s.w = sc.genCond(inner, 1, depth+1)
	}
	return s
}

func (sc *c9rScenario) wrapMy(c *c9rCond) *c9rCond {
	if sc.my && (c.k == "and" || c.k == "or" || c.k == "not") {
		return &c9rCond{k: "paren", a: c}
	}
	return c
}

func (sc *c9rScenario) genCond(scopes []c9rScope, size int, depth int) *c9rCond {
	r := sc.r
	if size <= 0 {
		k := r.Intn(20)
		switch {
		case k < 3 && depth < 2:
			idb, idd, _ := sc.pickCol(scopes)
			switch k {
			case 0:
				sc.rep.Count("sub:exists")
				return &c9rCond{k: "exists", s: sc.genSub(scopes, depth)}
			case 1:
				if l := sc.genColRef(scopes, idb, idd, "id"); l != nil {
					sc.rep.Count("sub:in")
					return &c9rCond{k: "in", l: l, s: sc.genSub(scopes, depth)}
				}
			case 2:
				if l := sc.genColRef(scopes, idb, idd, "id"); l != nil {
					sc.rep.Count("sub:scalar")
					return &c9rCond{k: "cmpsub", op: "OpEq", opSQL: "=", l: l, s: sc.genSub(scopes, depth)}
				}
			}
		case k < 5:
			if c := sc.genColCol(scopes); c != nil {
				return c
			}
		}
		c := sc.genCmp(scopes)
		if sc.my && r.Intn(10) == 0 {
			sc.rep.Count("cond:paren")
			return &c9rCond{k: "paren", a: c}
		}
		return c
	}
	switch r.Intn(5) {
	case 0:
		sc.rep.Count("cond:not")
		a := sc.genCond(scopes, size-1, depth)
		if sc.my && a.k != "paren" {
			a = &c9rCond{k: "paren", a: a}
		}
		return &c9rCond{k: "not", a: a}
	case 1, 2:
		sc.rep.Count("cond:or")
		return &c9rCond{k: "or", a: sc.wrapMy(sc.genCond(scopes, size-1, depth)), b: sc.wrapMy(sc.genCond(scopes, size-1-r.Intn(size), depth))}
	default:
		sc.rep.Count("cond:and")
		return &c9rCond{k: "and", a: sc.wrapMy(sc.genCond(scopes, size-1, depth)), b: sc.wrapMy(sc.genCond(scopes, size-1-r.Intn(size), depth))}
	}
}

func (sc *c9rScenario) genStmt() *c9rSel {
	r := sc.r
	sc.nextAl = 0
	k := r.Intn(10)
	if k < 2 {
		t := sc.tabs[r.Intn(len(sc.tabs))]
		s := &c9rSel{kind: "update", from: []*c9rTref{sc.genBase(t.name, "")}}
		if k == 1 {
			s.kind = "delete"
		}
		sc.rep.Count("stmt:" + s.kind)
		if r.Intn(8) > 0 {
			s.w = sc.genCond([]c9rScope{sc.scopeOf(s.from)}, r.Intn(3), 0)
		}
		return s
	}
	sc.rep.Count("stmt:select")
	s := &c9rSel{kind: "select", from: sc.genFrom(0)}
	scope := sc.scopeOf(s.from)
	if r.Intn(3) == 0 {
		s.star = true
		sc.rep.Count("items:star")
	}
	if !s.star || r.Intn(2) == 0 {
		b := scope[r.Intn(len(scope))]
		it := c9rItem{q: b.vis, c: b.cols[r.Intn(len(b.cols))]}
		if r.Intn(3) == 0 {
			it.as = "o1"
		}
		s.items = append(s.items, it)
	}
	if r.Intn(8) > 0 {
		s.w = sc.genCond([]c9rScope{scope}, r.Intn(4), 0)
	} else {
		sc.rep.Count("stmt:no-where")
	}
	return s
}

// ---------- the alias-shadowing family ----------

// c9rShadowVariants: position of the shadowed table (3) x comma list / JOIN (2) x extra clause (2) x literal / placeholder (2)
const c9rShadowVariants = 24

func (sc *c9rScenario) shadowCol(q, col string) *c9rExpr {
	return &c9rExpr{k: "col", q: q, c: col, sq: sc.ident(q, true), sc: sc.ident(col, true)}
}

func (sc *c9rScenario) shadowCmp(q, col string, par bool) *c9rCond {
	c := &c9rCond{k: "cmp", l: sc.shadowCol(q, col)}
	c.op, c.opSQL = "OpEq", "="
	if sc.r.Intn(5) == 0 {
		c.op, c.opSQL = "OpNe", "<>"
	}
	if par {
		c.r = &c9rExpr{k: "par"}
	} else {
		c.r = &c9rExpr{k: "lit", v: sc.pool[sc.r.Intn(len(sc.pool))]}
	}
	return c
}

// genShadow: a statement in which table B is given an alias spelled like the real name of ANOTHER table A of the
// configuration, and the compared column is qualified by that alias (so it is B's column). A is listed under an alias of
// its own BEFORE B (v%3 = 0), AFTER B (1), or not at all (2); the entries form a comma list or a JOIN tree; the
// qualifier is used in WHERE and (JOIN) in ON. A and B are chosen to differ in the searchable setting of the column
// whenever the configuration has such a pair.
func (sc *c9rScenario) genShadow(v int) *c9rSel {
	r := sc.r
	sc.nextAl = 0
	pos, join, extra, par := v%3, (v/3)%2 == 1, (v/6)%2 == 1, (v/12)%2 == 1
	type pick struct {
		a, b *c9rTable
		col  string
	}
	var differ, same []pick
	for _, a := range sc.tabs {
		for _, b := range sc.tabs {
			if a == b {
				continue
			}
			for _, c := range b.cols[1:] {
				has := false
				for _, ac := range a.cols {
					has = has || ac == c
				}
				if !has {
					continue
				}
				if a.srch[c] != b.srch[c] {
					differ = append(differ, pick{a, b, c})
				} else {
					same = append(same, pick{a, b, c})
				}
			}
		}
	}
	var p pick
	switch {
	case len(differ) > 0 && (len(same) == 0 || r.Intn(6) > 0):
		p = differ[r.Intn(len(differ))]
		sc.rep.Count("shadow:settings-differ")
		if p.b.srch[p.col] {
			sc.rep.Count("shadow:aliased-table-searchable")
		} else {
			sc.rep.Count("shadow:shadowed-table-searchable")
		}
	case len(same) > 0:
		p = same[r.Intn(len(same))]
		sc.rep.Count("shadow:settings-equal")
	default:
		return sc.genStmt()
	}
	sc.rep.Count(fmt.Sprintf("shadow:pos%d join=%v extra=%v par=%v", pos, join, extra, par))
	q := p.a.name // the alias of B, spelled like the real name of A
	eb := sc.genBase(p.b.name, q)
	var ents []*c9rTref
	aAl := ""
	switch pos {
	case 0:
		aAl = sc.freshAlias()
		ents = []*c9rTref{sc.genBase(p.a.name, aAl), eb}
	case 1:
		aAl = sc.freshAlias()
		ents = []*c9rTref{eb, sc.genBase(p.a.name, aAl)}
	default:
		ents = []*c9rTref{eb}
	}
	if pos == 2 || (extra && !join) {
		// one more table under a fresh alias, in front or behind
		o := sc.tabs[r.Intn(len(sc.tabs))]
		eo := sc.genBase(o.name, sc.freshAlias())
		if r.Intn(2) == 0 {
			ents = append([]*c9rTref{eo}, ents...)
		} else {
			ents = append(ents, eo)
		}
	}
	s := &c9rSel{kind: "select"}
	if join {
		cur := ents[0]
		for i := 1; i < len(ents); i++ {
			j := &c9rTref{k: "join", l: cur, r: ents[i]}
			lv, rv := ents[i-1].alias, ents[i].alias
			on := &c9rCond{k: "cmp", op: "OpEq", opSQL: "=", l: sc.shadowCol(lv, "id"), r: sc.shadowCol(rv, "id")}
			if extra && (lv == q || rv == q) {
				sc.rep.Count("shadow:qualifier-in-on")
				on = &c9rCond{k: "and", a: on, b: sc.shadowCmp(q, p.col, par && r.Intn(2) == 0)}
			}
			j.on = on
			cur = j
		}
		s.from = []*c9rTref{cur}
	} else {
		s.from = ents
	}
	s.items = []c9rItem{{q: q, c: "id"}}
	w := sc.shadowCmp(q, p.col, par)
	if aAl != "" && r.Intn(3) == 0 {
		// the shadowed table's own column beside it
		sc.rep.Count("shadow:both-tables-compared")
		w2 := sc.shadowCmp(aAl, p.col, false)
		if r.Intn(2) == 0 {
			w = &c9rCond{k: "and", a: w, b: w2}
		} else {
			w = &c9rCond{k: "or", a: w, b: w2}
		}
	}
	s.w = w
	return s
}

// ---------- evaluator (three-valued, real SQL scoping) ----------

type c9rRow struct {
	key  string
	vals map[string][]byte
}

type c9rFrame struct {
	binds c9rScope
	rows  []c9rRow
}

type c9rEval struct {
	sc     *c9rScenario
	stored bool
	binds  [][]byte
	err    error
}

const (
	c9rF = 0
	c9rT = 1
	c9rU = 2
)

func (ev *c9rEval) fail(f string, a ...interface{}) {
	if ev.err == nil {
		ev.err = fmt.Errorf(f, a...)
	}
}

func (ev *c9rEval) leafRows(t *c9rTref, env []c9rFrame) []c9rRow {
	switch t.k {
	case "base":
		tb := ev.sc.tab(t.name)
		var out []c9rRow
		if tb == nil {
			ev.fail("unknown table")
			return nil
		}
		src := tb.rows
		if ev.stored {
			src = tb.st
		}
		for i, rw := range src {
			out = append(out, c9rRow{key: fmt.Sprintf("%s#%d", t.name, i), vals: rw})
		}
		return out
	case "derived":
		inner := ev.sel(t.s, nil) // a derived table does not see the outer row
		var out []c9rRow
		for _, tup := range inner {
			vals := map[string][]byte{}
			for _, it := range t.s.items {
				n := it.c
				if it.as != "" {
					n = it.as
				}
				v, null := ev.expr(&c9rExpr{k: "col", q: it.q, c: it.c}, []c9rFrame{tup})
				if null {
					ev.fail("null item")
				}
				vals[n] = v
			}
			out = append(out, c9rRow{key: "(" + c9rKey(tup) + ")", vals: vals})
		}
		return out
	}
	panic("c9r: leafRows")
}

func c9rKey(f c9rFrame) string {
	var k []string
	for _, r := range f.rows {
		k = append(k, r.key)
	}
	return strings.Join(k, ",")
}

// rows of one FROM entry (join trees filtered by their ON conditions), each as a frame part
func (ev *c9rEval) trefRows(t *c9rTref, env []c9rFrame) []c9rFrame {
	if t.k != "join" {
		b := ev.sc.scopeOf([]*c9rTref{t})
		var out []c9rFrame
		for _, rw := range ev.leafRows(t, env) {
			out = append(out, c9rFrame{binds: b, rows: []c9rRow{rw}})
		}
		return out
	}
	var out []c9rFrame
	for _, l := range ev.trefRows(t.l, env) {
		for _, r := range ev.trefRows(t.r, env) {
			f := c9rFrame{binds: append(append(c9rScope{}, l.binds...), r.binds...), rows: append(append([]c9rRow{}, l.rows...), r.rows...)}
			if t.on == nil || ev.cond(t.on, append(append([]c9rFrame{}, env...), f)) == c9rT {
				out = append(out, f)
			}
		}
	}
	return out
}

func (ev *c9rEval) sel(s *c9rSel, env []c9rFrame) []c9rFrame {
	cur := []c9rFrame{{}}
	for _, t := range s.from {
		var next []c9rFrame
		part := ev.trefRows(t, env)
		for _, c := range cur {
			for _, p := range part {
				next = append(next, c9rFrame{binds: append(append(c9rScope{}, c.binds...), p.binds...), rows: append(append([]c9rRow{}, c.rows...), p.rows...)})
			}
		}
		cur = next
		if len(cur) > 4000 {
			ev.fail("too many rows")
			return nil
		}
	}
	var out []c9rFrame
	for _, f := range cur {
		if s.w == nil || ev.cond(s.w, append(append([]c9rFrame{}, env...), f)) == c9rT {
			out = append(out, f)
		}
	}
	return out
}

func (ev *c9rEval) expr(e *c9rExpr, env []c9rFrame) (v []byte, null bool) {
	switch e.k {
	case "col":
		scopes := make([]c9rScope, len(env))
		for i, f := range env {
			scopes[i] = f.binds
		}
		b, d, amb := c9rResolve(e.q, e.c, scopes)
		if amb {
			ev.fail("ambiguous column %s", e.c)
			return nil, true
		}
		if b == nil {
			ev.fail("unknown column %s.%s", e.q, e.c)
			return nil, true
		}
		for i, x := range env[d].binds {
			if x == b {
				return env[d].rows[i].vals[e.c], false
			}
		}
		panic("c9r: binding not in frame")
	case "lit":
		return e.v, false
	case "par":
		if e.i >= len(ev.binds) {
			ev.fail("placeholder out of range")
			return nil, true
		}
		return ev.binds[e.i], false
	case "cast", "conv":
		return ev.expr(e.e, env)
	case "substr":
		v, n := ev.expr(e.e, env)
		if len(v) > 33 {
			v = v[:33]
		}
		return v, n
	}
	ev.fail("expression outside the evaluator")
	return nil, true
}

func c9rCmpVals(op string, a, b []byte) int {
	res := false
	switch op {
	case "=", "<=>", "like", "~~":
		res = bytes.Equal(a, b)
	case "<>", "!=":
		res = !bytes.Equal(a, b)
	case "<":
		res = bytes.Compare(a, b) < 0
	default:
		return -1
	}
	if res {
		return c9rT
	}
	return c9rF
}

func (ev *c9rEval) cond(c *c9rCond, env []c9rFrame) int {
	switch c.k {
	case "cmp":
		a, n1 := ev.expr(c.l, env)
		b, n2 := ev.expr(c.r, env)
		if n1 || n2 {
			return c9rU
		}
		x := c9rCmpVals(c.opSQL, a, b)
		if x < 0 {
			ev.fail("operator %s", c.opSQL)
			return c9rU
		}
		return x
	case "and":
		a, b := ev.cond(c.a, env), ev.cond(c.b, env)
		if a == c9rF || b == c9rF {
			return c9rF
		}
		if a == c9rU || b == c9rU {
			return c9rU
		}
		return c9rT
	case "or":
		a, b := ev.cond(c.a, env), ev.cond(c.b, env)
		if a == c9rT || b == c9rT {
			return c9rT
		}
		if a == c9rU || b == c9rU {
			return c9rU
		}
		return c9rF
	case "not":
		switch ev.cond(c.a, env) {
		case c9rT:
			return c9rF
		case c9rF:
			return c9rT
		}
		return c9rU
	case "paren":
		return ev.cond(c.a, env)
	case "exists":
		if len(ev.sel(c.s, env)) > 0 {
			return c9rT
		}
		return c9rF
	case "in", "cmpsub":
		a, n := ev.expr(c.l, env)
		rows := ev.sel(c.s, env)
		if len(c.s.items) != 1 {
			ev.fail("sub-select items")
			return c9rU
		}
		it := c.s.items[0]
		var vals [][]byte
		for _, f := range rows {
			v, _ := ev.expr(&c9rExpr{k: "col", q: it.q, c: it.c}, append(append([]c9rFrame{}, env...), f))
			vals = append(vals, v)
		}
		if n {
			return c9rU
		}
		if c.k == "in" {
			for _, v := range vals {
				if bytes.Equal(a, v) {
					return c9rT
				}
			}
			return c9rF
		}
		if len(vals) == 0 {
			return c9rU
		}
		if len(vals) > 1 {
			ev.fail("scalar sub-select returns more than one row")
			return c9rU
		}
		x := c9rCmpVals(c.opSQL, a, vals[0])
		if x < 0 {
			ev.fail("operator %s", c.opSQL)
			return c9rU
		}
		return x
	}
	panic("c9r: eval cond " + c.k)
}

func (ev *c9rEval) result(s *c9rSel) []string {
	var out []string
	for _, f := range ev.sel(s, nil) {
		out = append(out, c9rKey(f))
	}
	sort.Strings(out)
	return out
}
