package main

// C05, family "clauses" (run at the end of the domains c05pat and c05): the CLAUSE-BY-CLAUSE comparison order of
// the statement handlers of the pattern matcher (acra-censor/common/matching_logic.go handleSelectStatement /
// handleUpdateStatement / handleDeleteStatement / handleInsertStatement / handleUnionStatement).
//
// A statement kind is written down as a TABLE OF CLAUSES in statement order (one clause per field of the AST node:
// comments, table, SET list, FROM, WHERE, GROUP BY, HAVING, ORDER BY, LIMIT, lock, partitions, columns, rows,
// ON DUPLICATE KEY, RETURNING ...).  Each clause has a base text, alternative texts (each one makes a DIFFERENT
// statement; an optional clause can also be absent) and the placeholder forms it can take in a pattern, each with
// the texts the placeholder stands for (inst), does not stand for (non), and stands for only in the reading of
// the code (loose: a difference behind an inner %%WHERE%%).
//
// From a table the family derives, for both SQL dialects and for two base statements (full: every optional clause
// present; bare: only the mandatory clauses and the WHERE clause),
//
//	patterns    the base statement itself; the base with ONE clause in a placeholder form (every placeholder kind:
//	            %%WHERE%%, %%VALUE%%, %%SUBQUERY%%, %%LIST_OF_VALUES%%, %%COLUMN%%, `*`); the base with %%WHERE%% AND
//	            one other clause in a placeholder form; the whole-statement placeholder (%%SELECT%% ...);
//	statements  the base statement with exactly ONE clause changed (each clause in turn: another text, the clause
//	            removed, the clause added).
//
// Expectation (the generator's own, from the table): the statement is an instance of the pattern in the DOCUMENTED
// sense iff the changed clause is in a placeholder form in the pattern and the new text is one the placeholder
// stands for.  The one documented exception is the known finding where-placeholder-absorbs-tail, whose class is
// listed PER CLAUSE: c5cClause.tail marks exactly the clauses the unchanged handlers do not reach once %%WHERE%%
// has decided the WHERE comparison (SELECT: GROUP BY, HAVING, ORDER BY, LIMIT, lock; UPDATE / DELETE: ORDER BY,
// LIMIT).  RETURNING is compared BEFORE the WHERE clause by the code and is therefore not in the class.
//
// Domain c05pat: every (pattern, statement) pair goes through the REAL common.ParsePatterns +
// common.CheckPatternsMatching and is replayed on match_impl together with the model's instance_of /
// instance_of_loose (which must agree with the table).  Domain c05: the same pairs go through the REAL AcraCensor
// built from YAML, once as `allow patterns: [p]` + `denyall` (admitted iff instance) and once as
// `deny patterns: [p]` (denied iff instance); the chain evaluations are replayed on the chain model (OpCensorP).

import (
	"fmt"
	"os"
	"strings"

	"acra-vh/vh"

	acracensor "github.com/cossacklabs/acra/acra-censor"
	"github.com/cossacklabs/acra/acra-censor/common"
	"github.com/cossacklabs/acra/sqlparser"
	"github.com/cossacklabs/acra/sqlparser/dialect/mysql"
	"github.com/cossacklabs/acra/sqlparser/dialect/postgresql"
)

const (
	c5cBoth = 0
	c5cMy   = 1
	c5cPg   = 2
)

// c5cPh: one placeholder form of a clause
type c5cPh struct {
	kind  string   // %%WHERE%%, %%VALUE%%, %%SUBQUERY%%, %%LIST_OF_VALUES%%, %%COLUMN%%, *, %%SELECT%%
	text  string   // the clause as the pattern writes it
	inst  []string // texts of the clause the placeholder stands for (besides the base text)
	non   []string // texts it does not stand for
	loose []string // texts that are no instance as documented but are one in the reading of the code (inner %%WHERE%% tail)
}

// c5cClause: one clause of a statement kind
type c5cClause struct {
	name string
	base string   // text in the base statement
	opt  bool     // the clause can be absent
	keep bool     // optional, but present in the bare base statement too (WHERE)
	tail bool     // the unchanged handler does not reach this clause once %%WHERE%% decided the WHERE comparison
	dial int      // c5cBoth / c5cMy / c5cPg: the clause exists in this dialect only
	alts []string // other texts: each makes a different statement
	phs  []c5cPh
}

type c5cTable struct {
	name    string
	whole   string // whole-statement placeholder of the kind
	dial    int
	clauses []c5cClause
}

func c5cWhere(id, kind string) string {
	return "where id = " + id + " and kind in (" + kind + ")"
}

// the WHERE clause of the UPDATE / DELETE / SELECT tables: %%WHERE%%, %%VALUE%%, %%LIST_OF_VALUES%%
func c5cWhereClause() c5cClause {
	return c5cClause{name: "where", base: c5cWhere("17", "1, 2"), opt: true, keep: true,
		alts: []string{c5cWhere("17", "1, 2") + " or 1 = 1", "where id = 17"},
		phs: []c5cPh{
			{kind: "%%WHERE%%", text: "%%WHERE%%", inst: []string{"", "where id = 18", "where 1 = 1", c5cWhere("17", "1, 2") + " or 1 = 1", "where id in (select sid from revoked)"}},
			{kind: "%%VALUE%%", text: c5cWhere("%%VALUE%%", "1, 2"),
				inst: []string{c5cWhere("18", "1, 2"), c5cWhere("'x'", "1, 2"), c5cWhere("null", "1, 2"), c5cWhere("lower('A')", "1, 2")},
				non:  []string{c5cWhere("(select 1)", "1, 2"), c5cWhere("uid", "1, 2"), c5cWhere("17 + 1", "1, 2"), c5cWhere("17", "1, 3"), ""}},
			{kind: "%%LIST_OF_VALUES%%", text: c5cWhere("17", "1, %%LIST_OF_VALUES%%"),
				inst: []string{c5cWhere("17", "1, 5"), c5cWhere("17", "1, 2, 3, 4"), c5cWhere("17", "1, 'x', null")},
				non:  []string{c5cWhere("17", "1"), c5cWhere("17", "2, 2"), c5cWhere("17", "1, (select 2)"), c5cWhere("17", "1, zz"), c5cWhere("18", "1, 2")}},
		}}
}

func c5cReturning(col string) c5cClause {
	sub := "returning (select password from users limit 1)"
	return c5cClause{name: "returning", base: "returning " + col, opt: true,
		alts: []string{"returning *", "returning " + col + ", kind", sub, "returning kind"},
		phs: []c5cPh{
			// a pattern list that is a single `*` stands for any list ("all columns are allowed"), also for none
			{kind: "*", text: "returning *", inst: []string{"", "returning kind", "returning " + col + ", kind", sub}},
			{kind: "%%COLUMN%%", text: "returning %%COLUMN%%", inst: []string{"returning kind", "returning *", "returning lower(" + col + ")", sub},
				non: []string{"", "returning " + col + ", kind", "returning " + col + " + 1", "returning t." + col}},
		}}
}

func c5cComments() c5cClause {
	return c5cClause{name: "comments", base: "/* app */", opt: true, alts: []string{"/* other */"}}
}

var c5cTables = []c5cTable{
	{name: "select", whole: "%%SELECT%%", clauses: []c5cClause{
		{name: "verb", base: "select"},
		c5cComments(),
		{name: "cache", base: "sql_no_cache", opt: true, alts: []string{"sql_cache"}},
		{name: "distinct", base: "distinct", opt: true},
		{name: "hints", base: "straight_join", opt: true},
		{name: "list", base: "a, b", alts: []string{"a", "a, c", "a, b, c", "b, a"},
			phs: []c5cPh{
				{kind: "*", text: "*", inst: []string{"a", "a, c", "a, b, c", "(select password from users limit 1)"}},
				{kind: "%%COLUMN%%", text: "a, %%COLUMN%%", inst: []string{"a, c", "a, lower(b)", "a, 5", "a, *"}, non: []string{"a", "c, b", "a, b, c", "a, b + 1", "a, b as c"}},
			}},
		{name: "from", base: "from sessions", alts: []string{"from users", "from sessions as s", "from sessions, users", "from sessions join users on sessions.uid = users.id"}},
		{name: "where", base: "where id = 17 and owner in (select uid from admins) and kind in (1, 2)", opt: true, keep: true,
			alts: []string{"where id = 17 and owner in (select uid from admins) and kind in (1, 2) or 1 = 1", "where id = 17"},
			phs: []c5cPh{
				{kind: "%%WHERE%%", text: "%%WHERE%%", inst: []string{"", "where id = 18", "where 1 = 1", "where id = 17"}},
				{kind: "%%VALUE%%", text: "where id = %%VALUE%% and owner in (select uid from admins) and kind in (1, 2)",
					inst: []string{"where id = 18 and owner in (select uid from admins) and kind in (1, 2)", "where id = null and owner in (select uid from admins) and kind in (1, 2)"},
					non:  []string{"where id = (select 1) and owner in (select uid from admins) and kind in (1, 2)", "where id = uid and owner in (select uid from admins) and kind in (1, 2)", ""}},
				{kind: "%%SUBQUERY%%", text: "where id = 17 and owner in (%%SUBQUERY%%) and kind in (1, 2)",
					inst: []string{"where id = 17 and owner in (select name from users where 1 = 1) and kind in (1, 2)", "where id = 17 and owner in (select 1 union select 2) and kind in (1, 2)"},
					non:  []string{"where id = 17 and owner in (1, 2) and kind in (1, 2)", "where id = 17 and owner = 5 and kind in (1, 2)", "where id = 18 and owner in (select uid from admins) and kind in (1, 2)"}},
				{kind: "%%LIST_OF_VALUES%%", text: "where id = 17 and owner in (select uid from admins) and kind in (1, %%LIST_OF_VALUES%%)",
					inst: []string{"where id = 17 and owner in (select uid from admins) and kind in (1, 5)", "where id = 17 and owner in (select uid from admins) and kind in (1, 2, 3, 4)"},
					non:  []string{"where id = 17 and owner in (select uid from admins) and kind in (1)", "where id = 17 and owner in (select uid from admins) and kind in (2, 2)", "where id = 17 and owner in (select uid from admins) and kind in (1, (select 2))"}},
			}},
		{name: "group-by", base: "group by a", opt: true, tail: true, alts: []string{"group by b", "group by a, b"},
			phs: []c5cPh{{kind: "%%COLUMN%%", text: "group by %%COLUMN%%", inst: []string{"group by b"}, non: []string{"group by a, b", ""}}}},
		{name: "having", base: "having count(*) > 1", opt: true, tail: true, alts: []string{"having count(*) > 2", "having count(*) < 1"},
			phs: []c5cPh{{kind: "%%VALUE%%", text: "having count(*) > %%VALUE%%", inst: []string{"having count(*) > 2"}, non: []string{"having count(*) < 1", ""}}}},
		{name: "order-by", base: "order by a desc", opt: true, tail: true, alts: []string{"order by a", "order by b desc", "order by a desc, b"},
			phs: []c5cPh{{kind: "%%COLUMN%%", text: "order by %%COLUMN%% desc", inst: []string{"order by b desc"}, non: []string{"order by a", "order by a desc, b", ""}}}},
		{name: "limit", base: "limit 5", opt: true, tail: true, alts: []string{"limit 6", "limit 5 offset 2"},
			phs: []c5cPh{{kind: "%%VALUE%%", text: "limit %%VALUE%%", inst: []string{"limit 6"}, non: []string{"limit 5 offset 2", ""}}}},
		{name: "lock", base: "for update", opt: true, tail: true, alts: []string{"lock in share mode"}},
	}},
	{name: "update", whole: "%%UPDATE%%", clauses: []c5cClause{
		{name: "verb", base: "update"},
		c5cComments(),
		{name: "table", base: "accounts", alts: []string{"users", "accounts as a", "accounts, users"}},
		{name: "set", base: "set balance = 10", alts: []string{"set balance = 11", "set note = 10", "set balance = 10, note = 'x'"},
			phs: []c5cPh{
				{kind: "%%VALUE%%", text: "set balance = %%VALUE%%", inst: []string{"set balance = 11", "set balance = 'x'", "set balance = now()", "set balance = null"},
					non: []string{"set note = 10", "set balance = balance + 1", "set balance = (select 1)", "set balance = 10, note = 'x'"}},
				{kind: "%%COLUMN%%", text: "set %%COLUMN%% = 10", inst: []string{"set note = 10"}, non: []string{"set balance = 11", "set balance = 10, note = 'x'"}},
			}},
		{name: "from", base: "from audit", opt: true, dial: c5cPg, alts: []string{"from users", "from audit, users"}},
		c5cWhereClause(),
		{name: "order-by", base: "order by id", opt: true, tail: true, alts: []string{"order by id desc", "order by balance"},
			phs: []c5cPh{{kind: "%%COLUMN%%", text: "order by %%COLUMN%%", inst: []string{"order by balance"}, non: []string{"order by id desc", ""}}}},
		{name: "limit", base: "limit 1", opt: true, tail: true, alts: []string{"limit 2"},
			phs: []c5cPh{{kind: "%%VALUE%%", text: "limit %%VALUE%%", inst: []string{"limit 2"}, non: []string{""}}}},
		func() c5cClause { c := c5cReturning("id"); c.dial = c5cPg; return c }(),
	}},
	{name: "delete", whole: "%%DELETE%%", clauses: []c5cClause{
		{name: "verb", base: "delete"},
		c5cComments(),
		// with the alias in front, PARTITION is the clause of the DELETE node (Delete.Partitions); directly behind the
		// table name the grammar makes it part of the table expression (AliasedTableExpr.Partitions): alternative "from sessions"
		{name: "table", base: "from sessions as s", alts: []string{"from users as s", "from sessions as t", "from sessions"}},
		{name: "partitions", base: "partition (p0)", opt: true, alts: []string{"partition (p1)", "partition (p0, p1)"}},
		c5cWhereClause(),
		{name: "order-by", base: "order by id", opt: true, tail: true, alts: []string{"order by id desc", "order by token"},
			phs: []c5cPh{{kind: "%%COLUMN%%", text: "order by %%COLUMN%%", inst: []string{"order by token"}, non: []string{"order by id desc", ""}}}},
		{name: "limit", base: "limit 3", opt: true, tail: true, alts: []string{"limit 4"},
			phs: []c5cPh{{kind: "%%VALUE%%", text: "limit %%VALUE%%", inst: []string{"limit 4"}, non: []string{""}}}},
		c5cReturning("token"),
	}},
	{name: "delete-multi", whole: "%%DELETE%%", clauses: []c5cClause{
		{name: "verb", base: "delete"},
		{name: "targets", base: "s", alts: []string{"u", "s, u"}},
		{name: "table", base: "from sessions as s join users as u on s.uid = u.id", alts: []string{"from sessions as s join admins as u on s.uid = u.id", "from sessions as s left join users as u on s.uid = u.id"}},
		{name: "where", base: "where u.id = 3", opt: true, keep: true, alts: []string{"where u.id = 4"},
			phs: []c5cPh{
				{kind: "%%WHERE%%", text: "%%WHERE%%", inst: []string{"", "where u.id = 4", "where 1 = 1"}},
				{kind: "%%VALUE%%", text: "where u.id = %%VALUE%%", inst: []string{"where u.id = 4"}, non: []string{"where u.id = s.uid", "where s.id = 3", ""}},
			}},
	}},
	{name: "insert", whole: "%%INSERT%%", clauses: []c5cClause{
		{name: "action", base: "insert", alts: []string{"replace"}},
		c5cComments(),
		{name: "ignore", base: "ignore", opt: true},
		{name: "table", base: "into log", alts: []string{"into audit", "into db1.log"}},
		{name: "partitions", base: "partition (p0)", opt: true, alts: []string{"partition (p1)"}},
		{name: "columns", base: "(m, n)", opt: true, alts: []string{"(m, k)", "(n, m)", "(m, n, k)"},
			phs: []c5cPh{{kind: "%%COLUMN%%", text: "(m, %%COLUMN%%)", inst: []string{"(m, k)"}, non: []string{"(k, n)", "(m, n, k)", "(m)", ""}}}},
		{name: "rows", base: "values (1, 'x')", alts: []string{"values (2, 'x')", "values (1, 'x'), (2, 'y')", "values (1, 'x', 3)", "select 1, 'x'", "default values"},
			phs: []c5cPh{
				{kind: "%%VALUE%%", text: "values (%%VALUE%%, 'x')", inst: []string{"values (2, 'x')", "values (null, 'x')", "values (now(), 'x')"},
					non: []string{"values ((select 1), 'x')", "values (1, 'y')", "values (m, 'x')", "values (1, 'x'), (2, 'y')"}},
				{kind: "%%LIST_OF_VALUES%%", text: "values (1, %%LIST_OF_VALUES%%)", inst: []string{"values (1, 'y')", "values (1, 'x', 3)"},
					non: []string{"values (1)", "values (2, 'x')", "values (1, (select p from secrets))", "values (1, 'x'), (1, 'x')"}},
			}},
		{name: "on-duplicate", base: "on duplicate key update n = 1", opt: true,
			alts: []string{"on duplicate key update n = 2", "on duplicate key update m = 1", "on duplicate key update n = 1, m = 2"},
			phs: []c5cPh{{kind: "%%VALUE%%", text: "on duplicate key update n = %%VALUE%%", inst: []string{"on duplicate key update n = 2"}, non: []string{"on duplicate key update m = 1", "on duplicate key update n = (select 1)", ""}}}},
		c5cReturning("id"),
	}},
	// INSERT ... SELECT: a %%WHERE%% inside the row source ends the comparison of the inner SELECT only; the clauses
	// of the INSERT that follow the row source (ON DUPLICATE KEY, RETURNING) are still compared
	{name: "insert-select", whole: "%%INSERT%%", clauses: []c5cClause{
		{name: "action", base: "insert"},
		{name: "table", base: "into log", alts: []string{"into audit"}},
		{name: "columns", base: "(m, n)", opt: true, alts: []string{"(m, k)"}},
		{name: "rows", base: "select a, b from src where id = 1", alts: []string{"select a, b from src where id = 2", "select a, c from src where id = 1", "select a, b from src where id = 1 limit 3", "values (1, 2)"},
			phs: []c5cPh{
				{kind: "%%SELECT%%", text: "%%SELECT%%", inst: []string{"select a, c from src where id = 1", "select password from users"}, non: []string{"values (1, 2)", "select a, b from src union select a, b from src2"}},
				{kind: "%%WHERE%%", text: "select a, b from src %%WHERE%%", inst: []string{"select a, b from src where id = 2", "select a, b from src"},
					non: []string{"select a, c from src where id = 1", "select a, b from src2 where id = 1", "values (1, 2)"}, loose: []string{"select a, b from src where id = 2 limit 3", "select a, b from src where id = 1 order by a"}},
			}},
		{name: "on-duplicate", base: "on duplicate key update n = 1", opt: true, alts: []string{"on duplicate key update n = 2"}},
		c5cReturning("id"),
	}},
	// UNION: a %%WHERE%% inside an arm ends the comparison of that arm only
	{name: "union", whole: "%%UNION%%", clauses: []c5cClause{
		{name: "left", base: "select a from t1 where x = 1", alts: []string{"select b from t1 where x = 1", "select a from t1 where x = 2"},
			phs: []c5cPh{{kind: "%%WHERE%%", text: "select a from t1 %%WHERE%%", inst: []string{"select a from t1 where x = 2", "select a from t1"}, non: []string{"select b from t1 where x = 1", "select a from t3 where x = 1"}}}},
		{name: "type", base: "union", alts: []string{"union all"}},
		{name: "right", base: "select a from t2 where y = 2", alts: []string{"select a from t3 where y = 2", "select a from t2 where y = 3"},
			phs: []c5cPh{
				{kind: "%%WHERE%%", text: "select a from t2 %%WHERE%%", inst: []string{"select a from t2 where y = 3", "select a from t2"}, non: []string{"select a from t3 where y = 2"}},
				{kind: "%%SELECT%%", text: "%%SELECT%%", inst: []string{"select password from users"}},
			}},
		{name: "order-by", base: "order by a", opt: true, alts: []string{"order by a desc"}},
		{name: "limit", base: "limit 3", opt: true, alts: []string{"limit 4"},
			phs: []c5cPh{{kind: "%%VALUE%%", text: "limit %%VALUE%%", inst: []string{"limit 4"}, non: []string{""}}}},
		{name: "lock", base: "for update", opt: true, alts: []string{"lock in share mode"}},
	}},
}

// ---------- enumeration ----------

// c5cPair: one (pattern, statement) pair of the family with the expectation of the table
type c5cPair struct {
	table, variant string
	pg             bool
	pattern, stmt  string
	patKind        string // literal / the placeholder kinds of the pattern
	clause         string // the clause in which the statement differs from the base ("" = the base statement)
	how            string // changed / removed / added / inst / non / loose / base / other-kind
	doc, loose     bool   // instance as documented / in the reading of the code
	core           bool   // literal or %%WHERE%%-only pattern against a removed / added clause (replayed on the chain model)
}

// c5cInst: a table restricted to one dialect and one base variant
type c5cInst struct {
	t       *c5cTable
	pg      bool
	bare    bool
	clauses []c5cClause // with base "" for the clauses the bare variant leaves out
}

// c5cInstances: every table in both dialects and both base variants.  Quick tier (r != nil): a table without
// dialect-only clauses has its full variant in one dialect and its bare variant in the other (which is which is
// drawn from r); a table with dialect-only clauses keeps all four.
func c5cInstances(r *vh.Rng) []*c5cInst {
	var out []*c5cInst
	for ti := range c5cTables {
		t := &c5cTables[ti]
		dialectOnly := false
		for _, c := range t.clauses {
			if c.dial != c5cBoth {
				dialectOnly = true
			}
		}
		fullPg := false
		if r != nil && !dialectOnly && t.dial == c5cBoth {
			fullPg = r.Bool()
		}
		for _, pg := range []bool{false, true} {
			if (pg && t.dial == c5cMy) || (!pg && t.dial == c5cPg) {
				continue
			}
			for _, bare := range []bool{false, true} {
				if r != nil && !dialectOnly && t.dial == c5cBoth && (pg == fullPg) == bare {
					continue
				}
				in := &c5cInst{t: t, pg: pg, bare: bare}
				for _, c := range t.clauses {
					if (pg && c.dial == c5cMy) || (!pg && c.dial == c5cPg) {
						continue
					}
					if bare && c.opt && !c.keep {
						c.alts = append([]string{c.base}, c.alts...) // the clause is ADDED
						c.base = ""
						c.phs = nil
					}
					in.clauses = append(in.clauses, c)
				}
				out = append(out, in)
			}
		}
	}
	return out
}

func (in *c5cInst) variant() string {
	if in.bare {
		return "bare"
	}
	return "full"
}

// render: the statement / pattern with the given clause texts replaced (index -> text)
func (in *c5cInst) render(repl map[int]string) string {
	var parts []string
	for i, c := range in.clauses {
		t := c.base
		if r, ok := repl[i]; ok {
			t = r
		}
		if t != "" {
			parts = append(parts, t)
		}
	}
	return strings.Join(parts, " ")
}

// c5cChange: one text of one clause that differs from the base
type c5cChange struct {
	clause int
	text   string
	how    string
}

// changes: every clause in turn: its alternative texts and, for an optional clause that is present, its removal
func (in *c5cInst) changes() []c5cChange {
	var out []c5cChange
	for i, c := range in.clauses {
		for j, a := range c.alts {
			how := "changed"
			if c.base == "" && j == 0 {
				how = "added"
			} else if c.base == "" {
				how = "added-other"
			}
			out = append(out, c5cChange{i, a, how})
		}
		if c.opt && c.base != "" {
			out = append(out, c5cChange{i, "", "removed"})
		}
	}
	return out
}

type c5cPat struct {
	repl  map[int]string // clause -> placeholder form
	phs   map[int]*c5cPh
	kinds string
	where bool // the WHERE clause of the statement itself is %%WHERE%%
	core  bool
}

// patterns of an instance: literal, one placeholder form, %%WHERE%% + one other placeholder form
func (in *c5cInst) patterns(thorough bool) []*c5cPat {
	out := []*c5cPat{{repl: map[int]string{}, phs: map[int]*c5cPh{}, kinds: "literal", core: true}}
	whereAt, wherePh := -1, (*c5cPh)(nil)
	for i := range in.clauses {
		c := &in.clauses[i]
		for j := range c.phs {
			ph := &c.phs[j]
			isWhere := c.name == "where" && ph.kind == "%%WHERE%%"
			if isWhere {
				whereAt, wherePh = i, ph
			}
			out = append(out, &c5cPat{repl: map[int]string{i: ph.text}, phs: map[int]*c5cPh{i: ph}, kinds: c.name + ":" + ph.kind, where: isWhere, core: isWhere})
		}
	}
	if whereAt >= 0 {
		for i := range in.clauses {
			c := &in.clauses[i]
			if i == whereAt {
				continue
			}
			for j := range c.phs {
				ph := &c.phs[j]
				if c.tail && !thorough {
					continue // a placeholder inside a clause the %%WHERE%% early exit skips anyway: thorough tier
				}
				out = append(out, &c5cPat{repl: map[int]string{whereAt: wherePh.text, i: ph.text}, phs: map[int]*c5cPh{whereAt: wherePh, i: ph},
					kinds: "where:%%WHERE%%+" + c.name + ":" + ph.kind, where: true})
			}
		}
	}
	return out
}

func c5cHas(xs []string, x string) bool {
	for _, y := range xs {
		if x == y {
			return true
		}
	}
	return false
}

// c5cEnumerate calls f for every pair of the family.  Quick tier: the literal and the %%WHERE%% pattern meet every
// change of every clause; the other patterns meet every text listed for their own placeholder and, per other
// clause, one change drawn from r.  Thorough tier: every pattern meets every change.
func c5cEnumerate(r *vh.Rng, thorough bool, f func(p *c5cPair)) {
	var rq *vh.Rng
	if !thorough {
		rq = r
	}
	insts := c5cInstances(rq)
	all := insts
	if !thorough {
		all = c5cInstances(nil)
	}
	// quick tier: a few of the listed texts / of the other clauses, drawn from r
	some := func(xs []string, n int) []string {
		if thorough || len(xs) <= n {
			return xs
		}
		var out []string
		for _, i := range c5perm(r, len(xs))[:n] {
			out = append(out, xs[i])
		}
		return out
	}
	for _, in := range insts {
		base := in.render(nil)
		changes := in.changes()
		byClause := map[int][]c5cChange{}
		for _, ch := range changes {
			byClause[ch.clause] = append(byClause[ch.clause], ch)
		}
		for _, p := range in.patterns(thorough) {
			ptext := in.render(p.repl)
			emit := func(stmt, clause, how string, doc, loose bool, core bool) {
				f(&c5cPair{table: in.t.name, variant: in.variant(), pg: in.pg, pattern: ptext, stmt: stmt, patKind: p.kinds, clause: clause, how: how,
					doc: doc, loose: loose, core: core})
			}
			emit(base, "", "base", true, true, p.core)
			// changes of the clauses that are written literally in the pattern
			// quick tier, patterns other than the literal and the %%WHERE%% pattern: of the clauses written literally,
			// three drawn from r; with %%WHERE%% in the pattern every clause the handler must still reach and one of
			// those it skips
			skip := map[int]bool{}
			if !thorough && !p.core {
				var lit, tails []int
				for i := range in.clauses {
					if _, ok := p.phs[i]; !ok && len(byClause[i]) > 0 {
						if p.where && in.clauses[i].tail {
							tails = append(tails, i)
						} else {
							lit = append(lit, i)
						}
					}
				}
				drop := func(xs []int, keep int) {
					if len(xs) > keep {
						for _, j := range c5perm(r, len(xs))[keep:] {
							skip[xs[j]] = true
						}
					}
				}
				if p.where {
					drop(tails, 1)
				} else {
					drop(lit, 3)
				}
			}
			nOwn := 2
			if len(p.phs) > 1 {
				nOwn = 1
			}
			for i := range in.clauses {
				c := &in.clauses[i]
				if skip[i] {
					continue
				}
				if ph, ok := p.phs[i]; ok {
					// the clause is in a placeholder form: the texts listed for the placeholder
					if !thorough && !p.core {
						ph = &c5cPh{kind: ph.kind, text: ph.text, inst: some(ph.inst, nOwn), non: some(ph.non, nOwn), loose: ph.loose}
					}
					for _, t := range ph.inst {
						emit(in.render(map[int]string{i: t}), c.name, "inst", true, true, false)
					}
					for _, t := range ph.non {
						emit(in.render(map[int]string{i: t}), c.name, "non", false, p.where && c.tail, false)
					}
					for _, t := range ph.loose {
						emit(in.render(map[int]string{i: t}), c.name, "loose", false, true, false)
					}
					// and the clause's other texts, when the table says what they are
					for _, ch := range byClause[i] {
						if !thorough && !p.core {
							break
						}
						if c5cHas(ph.inst, ch.text) || c5cHas(ph.non, ch.text) || c5cHas(ph.loose, ch.text) {
							continue
						}
						if ph.kind == "%%WHERE%%" && c.name == "where" || ph.kind == "*" {
							emit(in.render(map[int]string{i: ch.text}), c.name, "inst", true, true, false)
						}
					}
					continue
				}
				chs := byClause[i]
				if len(chs) == 0 {
					continue
				}
				if !thorough && !p.core {
					chs = []c5cChange{chs[r.Intn(len(chs))]}
				}
				for _, ch := range chs {
					// not an instance; matched all the same iff %%WHERE%% decided the WHERE comparison of THIS statement
					// and the clause is one of those the handler then skips (the per-clause list of the known finding)
					emit(in.render(map[int]string{i: ch.text}), c.name, ch.how, false, p.where && c.tail, p.core && (ch.how == "removed" || ch.how == "added"))
				}
			}
		}
		// the whole-statement placeholder: every statement of the kind
		if !in.bare || !thorough {
			f(&c5cPair{table: in.t.name, variant: in.variant(), pg: in.pg, pattern: in.t.whole, stmt: base, patKind: "whole", how: "base", doc: true, loose: true, core: true})
			for _, ch := range changes {
				if !thorough && r.Intn(6) != 0 {
					continue
				}
				f(&c5cPair{table: in.t.name, variant: in.variant(), pg: in.pg, pattern: in.t.whole, stmt: in.render(map[int]string{ch.clause: ch.text}), patKind: "whole",
					clause: in.clauses[ch.clause].name, how: ch.how, doc: true, loose: true})
			}
			// and no statement of another kind
			for _, other := range all {
				if other.pg == in.pg && !other.bare && other.t.whole != in.t.whole {
					f(&c5cPair{table: in.t.name, variant: in.variant(), pg: in.pg, pattern: in.t.whole, stmt: other.render(nil), patKind: "whole", how: "other-kind"})
				}
			}
		}
	}
}

func c5cSetDialect(pg bool) {
	if pg {
		sqlparser.SetDefaultDialect(postgresql.NewPostgreSQLDialect())
	} else {
		sqlparser.SetDefaultDialect(mysql.NewMySQLDialect())
	}
}

func c5cDialectName(pg bool) string {
	if pg {
		return "postgresql"
	}
	return "mysql"
}

func (p *c5cPair) where() string {
	return fmt.Sprintf("%s/%s/%s pattern-kind=%s clause=%s/%s", p.table, p.variant, c5cDialectName(p.pg), p.patKind, p.clause, p.how)
}

// c5cKnownClass: the class a match of a non-instance falls into: the known finding, per clause, or a violation
func (p *c5cPair) missClass(violation string) string {
	if p.loose {
		return "where-placeholder-absorbs-tail"
	}
	return violation
}

// ---------- domain c05pat: the matcher itself, replayed with instance_of / instance_of_loose ----------

func (e *c5pRun) clauseFamily(thorough bool) {
	type parsed struct {
		st sqlparser.Statement
		ok bool
	}
	pats := map[string]parsed{}
	stmts := map[string]parsed{}
	done := map[string]bool{}
	e.batchMore = 5
	defer func() { e.batchMore = 0 }()
	c5cEnumerate(e.r, thorough, func(p *c5cPair) {
		c5cSetDialect(p.pg)
		key := c5cDialectName(p.pg) + "\x00" + p.pattern + "\x00" + p.stmt
		if done[key] {
			return
		}
		done[key] = true
		pk := c5cDialectName(p.pg) + "\x00" + p.pattern
		pt, ok := pats[pk]
		if !ok {
			st := e.parsePattern(p.pattern)
			pt = parsed{st, st != nil}
			pats[pk] = pt
			if st == nil {
				e.rep.Count("clauses:pattern-rejected")
				e.rep.Count("clauses:pattern-rejected:" + p.table + "/" + c5cDialectName(p.pg) + "/" + p.patKind)
			}
		}
		if !pt.ok {
			return
		}
		sk := c5cDialectName(p.pg) + "\x00" + p.stmt
		sp, ok := stmts[sk]
		if !ok {
			st, err := e.parser.Parse(p.stmt)
			sp = parsed{st, err == nil}
			stmts[sk] = sp
			if err != nil {
				e.rep.Count("clauses:statement-rejected")
				if p.how == "base" {
					e.rep.Count("clauses:BASE-statement-rejected:" + p.table + "/" + p.variant + "/" + c5cDialectName(p.pg))
				}
			}
		}
		if !sp.ok {
			return
		}
		e.rep.Count("clauses:pairs")
		e.rep.Count("clauses:" + p.table + "/" + c5cDialectName(p.pg))
		e.rep.Count("clauses:how:" + p.how)
		if p.clause != "" {
			e.rep.Count("clauses:clause:" + p.table + "." + p.clause)
		}
		for _, k := range strings.Split(p.patKind, "+") {
			if i := strings.Index(k, ":"); i >= 0 {
				k = k[i+1:]
			}
			e.rep.Count("clauses:pattern:" + k)
		}
		res, pan := e.match("clauses "+p.where()+" pattern="+p.pattern+" q="+p.stmt, sp.st, pt.st, false, p.doc, p.loose)
		e.rep.OracleChecks++
		replay := "dialect: " + c5cDialectName(p.pg) + "\npattern: " + p.pattern + "\nstatement: " + p.stmt
		switch {
		case pan:
			e.rep.Violate("pattern-panic", "the matcher panicked: pattern "+p.pattern+" statement "+p.stmt, replay)
		case res && !p.doc:
			cls := p.missClass("pattern-overmatch")
			if cls == "pattern-overmatch" {
				e.rep.Violate(cls, fmt.Sprintf("pattern %q matches %q, which differs from it in the %s clause (%s) outside the placeholder positions [%s]", p.pattern, p.stmt, p.clause, p.how, p.where()), replay)
			} else {
				e.rep.Count("clauses:known:" + p.table + "." + p.clause)
				e.rep.Violate(cls, fmt.Sprintf("pattern %q matches %q, which differs from the pattern in the %s clause, a clause AFTER the WHERE clause", p.pattern, p.stmt, p.clause), replay)
			}
		case !res && p.doc:
			e.rep.Violate("generalisation-missed", fmt.Sprintf("pattern %q does not match its instance %q (%s clause: %s) [%s]", p.pattern, p.stmt, p.clause, p.how, p.where()), replay)
		}
	})
	e.flush()
	sqlparser.SetDefaultDialect(mysql.NewMySQLDialect())
}

// ---------- domain c05: the same pairs through the real AcraCensor ----------

func (e *c5run) clauseFamily(thorough bool) {
	type cfg struct {
		allow, deny   *acracensor.AcraCensor
		yAllow, yDeny string
		ok            bool
	}
	cfgs := map[string]*cfg{}
	done := map[string]bool{}
	c5cEnumerate(e.r, thorough, func(p *c5cPair) {
		c5cSetDialect(p.pg)
		key := c5cDialectName(p.pg) + "\x00" + p.pattern + "\x00" + p.stmt
		if done[key] {
			return
		}
		done[key] = true
		ck := c5cDialectName(p.pg) + "\x00" + p.pattern
		c, ok := cfgs[ck]
		if !ok {
			c = &cfg{}
			cfgs[ck] = c
			c.yAllow = c5yaml(false, []c5handler{{kind: "allow", patterns: []string{p.pattern}}, {kind: "denyall"}})
			c.yDeny = c5yaml(false, []c5handler{{kind: "deny", patterns: []string{p.pattern}}})
			var err1, err2 error
			c.allow, err1 = c5load(c.yAllow)
			c.deny, err2 = c5load(c.yDeny)
			c.ok = err1 == nil && err2 == nil
			if !c.ok {
				e.rep.Count("clauses:config-rejected")
			}
		}
		if !c.ok {
			return
		}
		if _, err := c5parser.Parse(p.stmt); err != nil {
			e.rep.Count("clauses:statement-rejected")
			return
		}
		e.rep.Count("clauses:pairs")
		e.rep.Count("clauses:how:" + p.how)
		// the oracle judges every pair; the chain model replays, quick tier: the %%WHERE%% pattern against every removed /
		// added clause; thorough tier: every pair of the literal pattern and of the patterns that hold a %%WHERE%%
		replayOnModel := p.core && p.patKind != "literal"
		if thorough {
			replayOnModel = p.patKind == "literal" || p.patKind == "whole" || strings.Contains(p.patKind, "%%WHERE%%")
		}
		replayA := "dialect: " + c5cDialectName(p.pg) + "\nconfig:\n" + c.yAllow + "statement: " + p.stmt
		replayD := "dialect: " + c5cDialectName(p.pg) + "\nconfig:\n" + c.yDeny + "statement: " + p.stmt
		va := e.clauseVerdict(c.allow, "allow+denyall", p, replayOnModel, replayA)
		vd := e.clauseVerdict(c.deny, "deny", p, replayOnModel, replayD)
		e.rep.OracleChecks += 2
		// allow patterns + denyall: admitted iff instance
		switch {
		case va == 0 && !p.doc:
			cls := p.missClass("allow-pattern-admits-non-instance")
			if cls == "allow-pattern-admits-non-instance" {
				e.rep.Violate(cls, fmt.Sprintf("statement %q is admitted by [allow patterns: %q; denyall] although it differs from the pattern in the %s clause (%s), which no placeholder of the pattern covers [%s]",
					p.stmt, p.pattern, p.clause, p.how, p.where()), replayA)
			} else {
				e.rep.Count("clauses:known:" + p.table + "." + p.clause)
				e.rep.Violate(cls, fmt.Sprintf("[allow patterns: %q; denyall] admits %q, which differs from the pattern in the %s clause, a clause AFTER the WHERE clause", p.pattern, p.stmt, p.clause), replayA)
			}
		case va != 0 && p.doc:
			e.rep.Violate("allow-pattern-rejects-instance", fmt.Sprintf("statement %q is rejected (verdict %d) by [allow patterns: %q; denyall] although it is an instance of the pattern [%s]", p.stmt, va, p.pattern, p.where()), replayA)
		}
		// deny patterns: denied iff instance
		switch {
		case vd != 0 && vd != 3:
			e.rep.Violate("deny-pattern-verdict", fmt.Sprintf("verdict %d for %q under [deny patterns: %q]", vd, p.stmt, p.pattern), replayD)
		case vd == 3 && !p.doc:
			cls := p.missClass("deny-pattern-overmatch")
			if cls == "deny-pattern-overmatch" {
				e.rep.Violate(cls, fmt.Sprintf("statement %q is denied by [deny patterns: %q] although it differs from the pattern in the %s clause (%s) [%s]", p.stmt, p.pattern, p.clause, p.how, p.where()), replayD)
			} else {
				e.rep.Violate(cls, fmt.Sprintf("[deny patterns: %q] denies %q, which differs from the pattern in the %s clause, a clause AFTER the WHERE clause", p.pattern, p.stmt, p.clause), replayD)
			}
		case vd == 0 && p.doc:
			e.rep.Violate("deny-pattern-missed", fmt.Sprintf("statement %q passes [deny patterns: %q] although it is an instance of the pattern [%s]", p.stmt, p.pattern, p.where()), replayD)
		}
	})
	sqlparser.SetDefaultDialect(mysql.NewMySQLDialect())
}

// clauseVerdict: the verdict of the real AcraCensor; recorded for the chain model when replay is set
func (e *c5run) clauseVerdict(c *acracensor.AcraCensor, label string, p *c5cPair, replayOnModel bool, replay string) byte {
	if replayOnModel {
		e.rep.Count("clauses:replayed-on-chain-model")
		return e.ask("clauses "+label+" "+p.where()+" pattern="+p.pattern, c, p.stmt)
	}
	code := byte(0xfe)
	vh.Guard(func() vh.Outcome { code = verdictCode(c.HandleQuery(p.stmt)); return vh.Ok() })
	if code == 0xfe {
		e.rep.Violate("censor-panic", "HandleQuery panicked", replay)
	}
	return code
}

// ---------- debugging aid: `acra-vh c05clausesdump` prints the family with what the real code says ----------

func init() {
	generators["c05clausesdump"] = func() {
		parser := sqlparser.New(sqlparser.ModeStrict)
		n := 0
		c5cEnumerate(vh.NewRng(1), os.Getenv("VERIF_TIER") != "quick", func(p *c5cPair) {
			c5cSetDialect(p.pg)
			n++
			ps, perr := common.ParsePatterns([]string{p.pattern}, parser)
			st, serr := parser.Parse(p.stmt)
			res := "-"
			if perr == nil && serr == nil {
				res = fmt.Sprint(common.CheckPatternsMatching(ps, st))
			}
			flag := ""
			if res != "-" && (res == "true") != p.loose {
				flag = "  <<< UNEXPECTED"
			}
			fmt.Printf("%s doc=%v loose=%v match=%s perr=%v serr=%v%s\n   P: %s\n   S: %s\n", p.where(), p.doc, p.loose, res, perr != nil, serr != nil, flag, p.pattern, p.stmt)
		})
		fmt.Println("pairs:", n)
		sqlparser.SetDefaultDialect(mysql.NewMySQLDialect())
	}
}
