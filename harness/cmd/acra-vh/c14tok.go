package main

import (
	"bytes"
	"encoding/binary"
	"encoding/hex"
	"fmt"
	"hash/fnv"
	"runtime"
	"strings"
	"time"

	"acra-vh/vh"

	"github.com/cossacklabs/acra/sqlparser"
	"github.com/cossacklabs/acra/sqlparser/dependency/bytes2"
	"github.com/cossacklabs/acra/sqlparser/dependency/sqltypes"
)

// c14tok: the hand-written SQL tokenizer (sqlparser/token.go) against the checked model
// coq/Model/SqlTokenizer.v. Every op is one tokenizer and a script of calls on it; the record of each call
// (token type, bytes, Position, lastChar, bufPos, posVarIndex, flags, nested tokenizer cursor) is replayed
// byte-exactly on the model. Independently of the model the domain evaluates C14's own oracle on the
// implementation: no panic, no hang, every token-returning Scan strictly lowers the remaining-input measure,
// at most n+1 calls for n bytes, token bytes bounded by the bytes consumed, stack use independent of the input,
// string literals decode back to the encoded value, comments and blanks never swallow part of a literal.
func init() { register("c14tok", "Model.RunSqlTokenizer", runC14Tok) }

const (
	x14tScan = iota
	x14tFeofOn
	x14tFeofOff
	x14tMultiOn
	x14tMultiOff
	x14tError
	x14tReset
)

type x14tRecord struct {
	tok  int
	val  []byte
	st   sqlparser.VerifX14Cursor
	sub  *sqlparser.VerifX14Cursor
	step int
}

func x14tBE(w int, v int) []byte {
	b := make([]byte, 8)
	binary.BigEndian.PutUint64(b, uint64(v))
	return b[8-w:]
}

func x14tFlag(b bool) byte {
	if b {
		return 1
	}
	return 0
}

// mirror of Model.RunSqlTokenizer.observe
func (rc *x14tRecord) bytes() []byte {
	var out []byte
	out = append(out, x14tBE(2, rc.tok)...)
	out = append(out, x14tBE(2, rc.st.Position)...)
	out = append(out, x14tBE(2, int(rc.st.LastChar))...)
	out = append(out, x14tBE(2, rc.st.BufPos)...)
	out = append(out, byte(rc.st.PosVarIndex))
	fl := x14tFlag(rc.st.ForceEOF) + 2*x14tFlag(rc.st.Multi)
	if rc.sub != nil {
		fl += 4
	}
	out = append(out, fl)
	if rc.sub != nil {
		out = append(out, x14tBE(2, rc.sub.Position)...)
		out = append(out, x14tBE(2, int(rc.sub.LastChar))...)
		out = append(out, x14tBE(2, rc.sub.BufPos)...)
		out = append(out, x14tBE(2, rc.sub.BufSize)...)
	}
	out = append(out, rc.val...)
	return append(x14tBE(2, len(out)), out...)
}

// the record stream of an op, cut into chunks (short literals are much faster to read in Coq)
func x14tStream(stream []byte) vh.Outcome {
	var vals [][]byte
	for i := 0; i < len(stream); i += 32 {
		e := i + 32
		if e > len(stream) {
			e = len(stream)
		}
		vals = append(vals, stream[i:e])
	}
	return vh.Ok(vals...)
}

// remaining-input measure of Proofs/SqlTokenizer.v (mu): size + 1 - max(Position, 1), plus 1 + the same for
// the nested tokenizer of a version comment
func x14tRem(c sqlparser.VerifX14Cursor) int {
	p := c.Position
	if p < 1 {
		p = 1
	}
	return c.BufSize + 1 - p
}
func (rc *x14tRecord) mu() int {
	m := x14tRem(rc.st)
	if rc.sub != nil {
		m += 1 + x14tRem(*rc.sub)
	}
	return m
}

func x14tSnapshot(tkn *sqlparser.Tokenizer, step, tok int, val []byte) x14tRecord {
	rc := x14tRecord{tok: tok, val: append([]byte{}, val...), st: sqlparser.VerifX14State(tkn), step: step}
	if rc.st.Special != nil {
		s := sqlparser.VerifX14State(rc.st.Special)
		rc.sub = &s
	}
	return rc
}

var x14tDialectList = x14tDialects()

type x14tResult struct {
	recs  []x14tRecord
	kind  string // ok | panic | hang
	msg   string
	stack uint64
}

// x14tExec runs the script on a real Tokenizer under recover() and a timeout. script == nil: Scan until 0 (at most
// len(sql)+2 calls), then once more (Model.RunSqlTokenizer.run_stream).
func x14tExec(d, dd int, sql []byte, script []int, timeout time.Duration, measureStack bool) x14tResult {
	ch := make(chan x14tResult, 1)
	go func() {
		var res x14tResult
		defer func() {
			if rec := recover(); rec != nil {
				res.kind, res.msg = "panic", fmt.Sprint(rec)
			}
			ch <- res
		}()
		sqlparser.SetDefaultDialect(x14tDialectList[dd].D)
		tkn := sqlparser.NewStringTokenizerWithDialect(x14tDialectList[d].D, string(sql))
		first := x14tSnapshot(tkn, -1, 0, nil)
		res.recs = append(res.recs, first)
		if script == nil {
			for i := 0; i < len(sql)+2; i++ {
				tok, val := tkn.Scan()
				if !measureStack {
					res.recs = append(res.recs, x14tSnapshot(tkn, x14tScan, tok, val))
				}
				if tok == 0 {
					tok, val = tkn.Scan()
					if !measureStack {
						res.recs = append(res.recs, x14tSnapshot(tkn, x14tScan, tok, val))
					}
					break
				}
			}
		} else {
			for _, st := range script {
				tok, val := 0, []byte(nil)
				switch st {
				case x14tScan:
					tok, val = tkn.Scan()
				case x14tFeofOn:
					tkn.ForceEOF = true
				case x14tFeofOff:
					tkn.ForceEOF = false
				case x14tMultiOn:
					sqlparser.VerifX14SetMulti(tkn, true)
				case x14tMultiOff:
					sqlparser.VerifX14SetMulti(tkn, false)
				case x14tError:
					tkn.Error("syntax error")
				case x14tReset:
					sqlparser.VerifX14Reset(tkn)
				}
				res.recs = append(res.recs, x14tSnapshot(tkn, st, tok, val))
			}
		}
		if measureStack {
			var ms runtime.MemStats
			runtime.ReadMemStats(&ms)
			res.stack = ms.StackInuse
		}
		res.kind = "ok"
	}()
	select {
	case r := <-ch:
		sqlparser.SetDefaultDialect(x14tDialectList[0].D)
		return r
	case <-time.After(timeout):
		return x14tResult{kind: "hang", msg: "no result after " + timeout.String()}
	}
}

// chunked Coq literal of a byte string (a long hex literal is slow to read)
func x14tChunks(b []byte) string {
	var parts []string
	for i := 0; i < len(b); i += 40 {
		e := i + 40
		if e > len(b) {
			e = len(b)
		}
		parts = append(parts, vh.H(b[i:e]))
	}
	return "[" + strings.Join(parts, "; ") + "]"
}

type x14tCtx struct {
	deferPlain func(d, dd int, sql []byte, origin string)
	rep        *vh.Report
	r          *vh.Rng
	hung       bool
	maxLen     int
}

func (c *x14tCtx) replayText(d, dd int, sql []byte, script []int) string {
	return fmt.Sprintf("dialect=%s default=%s script=%v sql(hex)=%s sql=%q", x14tDialectList[d].Name, x14tDialectList[dd].Name, script,
		hex.EncodeToString(sql), string(sql))
}

// oracle on one executed script (implementation only)
func (c *x14tCtx) oracle(d, dd int, sql []byte, script []int, res x14tResult, origin string) {
	rp := c.replayText(d, dd, sql, script)
	c.rep.OracleChecks++
	switch res.kind {
	case "panic":
		c.rep.Violate("tokenizer-panic", "Tokenizer panicked ("+origin+"): "+res.msg, rp)
		return
	case "hang":
		c.hung = true
		c.rep.Violate("tokenizer-hang", "Tokenizer did not return ("+origin+"): "+res.msg, rp)
		return
	}
	n := len(sql)
	scans, total := 0, 0
	sawZero := false
	for i := 1; i < len(res.recs); i++ {
		prev, cur := res.recs[i-1], res.recs[i]
		if cur.st.Position < 0 || cur.st.Position > n+1 || cur.st.BufPos < 0 || cur.st.BufPos > n || cur.st.Position < prev.st.Position {
			c.rep.Violate("tokenizer-cursor", fmt.Sprintf("cursor out of range or moving backwards at call %d: Position %d -> %d, bufPos %d, n=%d (%s)", i, prev.st.Position, cur.st.Position, cur.st.BufPos, n, origin), rp)
			return
		}
		if cur.step != x14tScan {
			continue
		}
		scans++
		total += len(cur.val)
		if cur.tok == 0 {
			sawZero = true
			continue
		}
		drop := prev.mu() - cur.mu()
		if drop <= 0 {
			c.rep.Violate("tokenizer-no-progress", fmt.Sprintf("call %d returned token %d %q without consuming input: measure %d -> %d (%s)", i, cur.tok, cur.val, prev.mu(), cur.mu(), origin), rp)
			return
		}
		isPosVar := cur.tok == sqlparser.VALUE_ARG && bytes.Equal(cur.val, []byte(fmt.Sprintf(":v%d", cur.st.PosVarIndex)))
		if subPosVar := cur.sub != nil && cur.tok == sqlparser.VALUE_ARG && bytes.Equal(cur.val, []byte(fmt.Sprintf(":v%d", cur.sub.PosVarIndex))); subPosVar {
			isPosVar = true
		}
		if len(cur.val) > drop && !isPosVar {
			c.rep.Violate("tokenizer-amplification", fmt.Sprintf("call %d returned %d bytes for %d consumed (%s)", i, len(cur.val), drop, origin), rp)
			return
		}
	}
	if script == nil {
		if !sawZero || scans-2 > n {
			c.rep.Violate("tokenizer-too-many-calls", fmt.Sprintf("%d token-returning calls of Scan on %d bytes, end reached: %v (%s)", scans-2, n, sawZero, origin), rp)
			return
		}
	}
	if total > 22*(n+2) {
		c.rep.Violate("tokenizer-amplification", fmt.Sprintf("%d token bytes for %d input bytes (%s)", total, n, origin), rp)
	}
}

func (c *x14tCtx) outcome(res x14tResult) vh.Outcome {
	switch res.kind {
	case "panic":
		return vh.Outcome{Kind: "panic", Msg: res.msg}
	case "hang":
		return vh.Outcome{Kind: "err", Msg: res.msg}
	}
	var stream []byte
	for _, rc := range res.recs[1:] {
		stream = append(stream, rc.bytes()...)
	}
	return x14tStream(stream)
}

func x14tScriptCoq(script []int) string {
	parts := make([]string, len(script))
	for i, s := range script {
		parts[i] = fmt.Sprint(s)
	}
	return "[" + strings.Join(parts, "; ") + "]"
}

// one tokenizer + script: executed, judged, recorded for the model
func (c *x14tCtx) op(d, dd int, sql []byte, script []int, origin string) {
	if c.hung {
		return
	}
	if script == nil {
		if c.deferPlain != nil {
			c.deferPlain(d, dd, sql, origin)
		} else {
			c.batch(d, dd, [][]byte{sql}, origin)
		}
		return
	}
	res := x14tExec(d, dd, sql, script, 2*time.Second, false)
	c.oracle(d, dd, sql, script, res, origin)
	c.rep.Count("origin:" + origin)
	c.rep.Count("dialect:" + x14tDialectList[d].Name)
	for _, rc := range res.recs {
		if rc.step == x14tScan {
			c.rep.Count(fmt.Sprintf("tok:%s", x14tTokName(rc.tok)))
		}
		if rc.sub != nil {
			c.rep.Count("state:nested-tokenizer")
		}
	}
	if len(sql) > c.maxLen {
		c.maxLen = len(sql)
	}
	c.rep.Add(origin+" "+x14tDialectList[d].Name+" "+fmt.Sprintf("%q", x14tClip(sql, 160)),
		fmt.Sprintf("Tok %d %d %s %s", d, dd, x14tChunks(sql), x14tScriptCoq(script)), c.outcome(res))
}

func x14tClip(b []byte, n int) string {
	if len(b) > n {
		return string(b[:n]) + "…"
	}
	return string(b)
}

func x14tTokName(tok int) string {
	switch tok {
	case 0:
		return "EOF"
	case sqlparser.LEX_ERROR:
		return "LEX_ERROR"
	case sqlparser.ID:
		return "ID"
	case sqlparser.SINGLE_QUOTE_STRING, sqlparser.DOUBLE_QUOTE_STRING, sqlparser.BACK_QUOTE_STRING, sqlparser.PG_ESCAPE_STRING:
		return "STRING"
	case sqlparser.INTEGRAL, sqlparser.FLOAT, sqlparser.HEXNUM, sqlparser.HEX, sqlparser.BIT_LITERAL:
		return "NUMBER"
	case sqlparser.VALUE_ARG, sqlparser.LIST_ARG, sqlparser.DOLLAR_SIGN:
		return "BINDVAR"
	case sqlparser.COMMENT:
		return "COMMENT"
	}
	if tok < 256 {
		return "CHAR"
	}
	return "KEYWORD/OP"
}

// script: as many Scans as the stream has tokens (learned from a dry run) plus two, with parser-side calls
// mixed in; nil = the plain stream form
func (c *x14tCtx) script(d, dd int, sql []byte, plain bool) []int {
	if plain {
		return nil
	}
	r := c.r
	dry := x14tExec(d, dd, sql, nil, 2*time.Second, false)
	if dry.kind == "hang" {
		c.hung = true
		return nil
	}
	nscan := len(dry.recs) + 1
	if dry.kind != "ok" || nscan > 90 {
		nscan = 90
	}
	var s []int
	if r.Intn(3) == 0 {
		s = append(s, x14tMultiOn)
	}
	for i := 0; i < nscan; i++ {
		s = append(s, x14tScan)
		if r.Intn(8) == 0 {
			s = append(s, []int{x14tFeofOn, x14tFeofOff, x14tMultiOn, x14tMultiOff, x14tError, x14tReset, x14tError}[r.Intn(7)])
		}
	}
	return s
}

// fullScript: as many Scans as the input can need (n+2), for inputs whose whole stream matters
func x14tFullScript(sql []byte) []int {
	s := make([]int, len(sql)+2)
	return s
}

// ---------- generators ----------

var x14tLexemes = []string{
	"select", "SELECT", "from", "where", "Dual", "dual", "tbl", "_binary", "@@global.`x`", "@@a.'b'.\"c\"", "@v", "x1_y", "a.b",
	"0", "00", "1", "12345", "0x1F", "0X", "0x", "1.5", ".5", "1.", "1e10", "1E+5", "1e-", "1e", "0e", "12ab", "0xZZ", "1.2.3",
	"'str'", "'it''s'", "'a\\'b'", "'a\\\\'", "'\\x41'", "'\\X41\\x'", "'a\\x41'", "'\\n\\t\\0\\Z\\%\\_'", "''", "''''", "\"dq\"", "\"d\"\"q\"", "\"a\\\"b\"",
	"`bq`", "`b``q`", "``", "` `", "x'4142'", "X'414'", "x'zz'", "x''", "b'0101'", "B'2'", "b''", "e'esc\\n'", "E'it''s'", "E''",
	":a", ":a1.b", "::lst", ":", "::", ":1", "?", "??", "$1", "$12", "$", "$a", "$1a", "$0x1",
	"/* c */", "/**/", "/***/", "/* ' */", "/* \" ` */", "/*", "/* x", "/* x *", "-- c\n", "--c", "-- 'q'\n", "# c\n", "#", "// c\n", "//",
	"/*! select */", "/*!50708 select 1 */", "/*!*/", "/*!1*/", "/*!12*/", "/*!123*/", "/*!1234*/", "/*!12345*/", "/*!123456*/", "select /*!12345*/ 1", "/*!123456 a*/", "/*!12345  ,  */", "/*! /* x */", "/*!", "/*!5", "/*! 'a' ? ? */", "/*!  */",
	"=", ",", ";", "(", ")", "+", "*", "%", "^", "~", "&", "&&", "|", "||", ".", "/", "-", "->", "->>", "<", "<>", "<<", "<=", "<=>", ">", ">=", ">>", "!", "!=",
	"\\", "\\\\", "{", "}", "[", "]", "\x00", "\x01", "\x7f", "\x80", "\xff", "é", "日本", "\xc3", "\xe2\x82", "\xf0\x9f\x98\x80", "\xed\xa0\x80",
	" ", "\n", "\r", "\t", "\v", "\f",
}

var x14tSpecialBodies = []string{
	"", " ", "1", "12", "123", "1234", "12345", "123456", "1234567", "1234567 x", "12345select", "1 ", "50708select", "\xd9\xa1\xd9\xa2 select", "\xd9\xa1\xd9\xa2\xd9\xa3\xd9\xa4\xd9\xa5\xd9\xa6",
	"\xe2\x80\x83 a \xe2\x80\x83", "\xc2\xa0a\xc2\xa0", "\xc2\x85 b \xc2\x85", "a\xc2", "a \xe2\x80", "a \xff", "\xff a", "\x80", " a \x80 ", "\xe3\x80\x80x\xe3\x80\x80",
	"a\xe2\x80\x83\x83", "\xf0\x9f\x98\x80", "7\xf0\x9f\x98\x80 b", " a\t\n\v\f\r ", "\xef\xbc\x91 x", "9\xe0\xa5\xa6 z", " ? ? ", "'x", "`", "/*! a", "*", "* /", "/ *",
	"1 \xe1\x9a\x80", "\xe1\x9a\x80", "\xe2\x80\xa8\xe2\x80\xa9x\xe2\x80\xaf\xe2\x81\x9f", "a \xed\xa0\x80", "a \xf4\x90\x80\x80", "a \xc0\x80", "a \xe0\x80\x80", "a\xf0\x80\x80\x80",
}

func (c *x14tCtx) lexeme() string {
	r := c.r
	switch r.Intn(10) {
	case 0: // random string literal with escapes
		q := []string{"'", "\"", "`"}[r.Intn(3)]
		var sb strings.Builder
		sb.WriteString(q)
		for i := r.Intn(8); i > 0; i-- {
			switch r.Intn(8) {
			case 0:
				sb.WriteString("\\")
				sb.WriteByte(byte(r.Intn(256)))
			case 1:
				sb.WriteString(q + q)
			case 2:
				sb.WriteString([]string{"/*", "*/", "--", "#", " ", "\n"}[r.Intn(6)])
			default:
				sb.WriteByte("abcxyzXN019 _%"[r.Intn(14)])
			}
		}
		if r.Intn(6) != 0 {
			sb.WriteString(q)
		}
		return sb.String()
	case 1: // number
		return []string{"", "0x", "0", ".", "1e"}[r.Intn(5)] + strings.Repeat(string("0123456789abcdefx.e+-"[r.Intn(21)]), 1+r.Intn(4))
	case 2: // identifier
		var sb strings.Builder
		for i := 1 + r.Intn(6); i > 0; i-- {
			sb.WriteByte("abexXBE_@z09.$"[r.Intn(14)])
		}
		return sb.String()
	case 3:
		return "/*!" + x14tSpecialBodies[r.Intn(len(x14tSpecialBodies))] + "*/"
	}
	return x14tLexemes[r.Intn(len(x14tLexemes))]
}

func (c *x14tCtx) soup(k int) []byte {
	var sb strings.Builder
	for i := 0; i < k; i++ {
		sb.WriteString(c.lexeme())
		if c.r.Intn(3) != 0 {
			sb.WriteString([]string{" ", " ", "\n", "\t", "  ", ""}[c.r.Intn(6)])
		}
	}
	return []byte(sb.String())
}

// a statement-shaped text with literals of every kind
func (c *x14tCtx) statement() []byte {
	r := c.r
	lit := func() string {
		switch r.Intn(9) {
		case 0:
			return fmt.Sprint(r.Intn(100000))
		case 1:
			return fmt.Sprintf("%d.%de%d", r.Intn(100), r.Intn(100), r.Intn(30))
		case 2:
			return "0x" + hex.EncodeToString(r.Bytes(1+r.Intn(4)))
		case 3:
			return "x'" + hex.EncodeToString(r.Bytes(r.Intn(4))) + "'"
		case 4:
			buf := &bytes2.Buffer{}
			sqltypes.MakeTrusted(sqltypes.VarBinary, r.Bytes(r.Intn(10))).EncodeSQL(buf)
			return string(buf.Bytes())
		case 5:
			return []string{"?", ":v1", "$1", "$2", ":name", "::ids"}[r.Intn(6)]
		case 6:
			return "'" + strings.Repeat("ab ", r.Intn(4)) + "''" + "'"
		case 7:
			return "b'" + strings.Repeat("10", r.Intn(4)) + "'"
		}
		return []string{"null", "true", "false", "current_timestamp", "e'a\\nb'"}[r.Intn(5)]
	}
	id := func() string {
		return []string{"a", "b", "t", "`tbl`", "\"Col\"", "db.t", "t.a", "`a``b`", "@@sql_mode", "Dual", "x_1"}[r.Intn(11)]
	}
	cm := func() string {
		if r.Intn(4) != 0 {
			return " "
		}
		return []string{" /* c */ ", " -- c\n", " # c\n", " /*! straight_join */ ", "\n", " /*!40101 sql_no_cache */ "}[r.Intn(6)]
	}
	switch r.Intn(4) {
	case 0:
		return []byte("select" + cm() + id() + ", " + lit() + " from " + id() + cm() + "where " + id() + " = " + lit() + " and " + id() + " <=> " + lit() + " or " + id() + "->>" + lit() + cm() + "limit " + lit())
	case 1:
		return []byte("insert into " + id() + "(" + id() + ", " + id() + ") values (" + lit() + ", " + lit() + ")," + cm() + "(" + lit() + "," + lit() + ");" + cm() + "select " + lit())
	case 2:
		return []byte("update " + id() + " set " + id() + "=" + lit() + "," + id() + " = " + id() + "+" + lit() + cm() + "where " + id() + " in (" + lit() + "," + lit() + ") && " + id() + "!=" + lit() + " || " + id() + ">>" + lit())
	}
	return []byte("delete from " + id() + cm() + "where " + id() + " like " + lit() + " escape " + lit() + " and not " + id() + " between " + lit() + " and " + lit())
}

var x14tMutDict = [][]byte{[]byte("'"), []byte("\""), []byte("`"), []byte("/*"), []byte("*/"), []byte("/*!"), []byte("--"), []byte("#"), []byte("\\"), []byte("0x"), []byte("x'"), []byte("b'"), []byte("E'"), []byte("$"), []byte(":"), []byte("::"), []byte("@@"), []byte("?"), []byte("\x00"), []byte(";"), []byte("\n"), []byte("\xff"), []byte("\xc2\xa0")}

// prefix classes: one representative text per tokenizer state a byte can arrive in
var x14tPrefixClasses = []string{
	"", " ", "a", "@", "@@a", "x", "b", "e", "1", "0", "0x", "0x1", "1.", "1e", "1e+", ".", ".5", ":", "::", ":a", "$", "$1", "?",
	"'", "'a", "'a\\", "''", "\"", "\"a\"", "`", "`a`", "`a", "x'", "x'4", "b'1", "e'", "e'\\",
	"/", "/*", "/* a", "/* *", "/*!", "/*!1", "/*! a", "/*! a *", "/*!*/", "/*! ? */", "--", "-- a", "#", "//", "-", "->", "<", "<=", ">", "!", "&", "|", ";", "\x00", "a\x00",
}

// batch: texts, each scanned to its end by its own tokenizer; one TokBatch op per 96 texts (a text on
// which the implementation panics or hangs becomes an op of its own)
func (c *x14tCtx) batch(d, dd int, inputs [][]byte, origin string) {
	for len(inputs) > 0 && !c.hung {
		k := 96
		if k > len(inputs) {
			k = len(inputs)
		}
		group := inputs[:k]
		inputs = inputs[k:]
		var stream []byte
		var terms, labels []string
		for _, in := range group {
			if c.hung {
				break // a hung Scan keeps its goroutine spinning: report and stop
			}
			res := x14tExec(d, dd, in, nil, 2*time.Second, false)
			c.oracle(d, dd, in, nil, res, origin)
			c.rep.Count("origin:" + origin)
			c.rep.Count("dialect:" + x14tDialectList[d].Name)
			if len(in) > c.maxLen {
				c.maxLen = len(in)
			}
			if res.kind != "ok" {
				// Tok with len+2 Scans: the model must panic as well
				script := x14tFullScript(in)
				c.rep.Add(origin+" "+x14tDialectList[d].Name+" "+fmt.Sprintf("%q", in), fmt.Sprintf("Tok %d %d %s %s", d, dd, x14tChunks(in), x14tScriptCoq(script)), c.outcome(res))
				continue
			}
			var recs []byte
			for _, rc := range res.recs[1:] {
				c.rep.Count(fmt.Sprintf("tok:%s", x14tTokName(rc.tok)))
				if rc.sub != nil {
					c.rep.Count("state:nested-tokenizer")
				}
				recs = append(recs, rc.bytes()...)
			}
			// Model.RunSqlTokenizer.run_batch: record count and 32-bit digest (folded FNV-1a) of the record stream
			h := fnv.New64a()
			h.Write(recs)
			sum := h.Sum64()
			stream = append(stream, byte(len(res.recs)-1))
			stream = append(stream, x14tBE(4, int(uint32(sum>>32)^uint32(sum)))...)
			terms = append(terms, x14tChunks(in))
			labels = append(labels, fmt.Sprintf("%q", x14tClip(in, 60)))
		}
		if len(terms) > 0 {
			c.rep.Add(origin+" "+x14tDialectList[d].Name+" batch "+x14tClip([]byte(strings.Join(labels, " ")), 300),
				fmt.Sprintf("TokBatch %d %d [%s]", d, dd, strings.Join(terms, "; ")), x14tStream(stream))
		}
	}
}

func x14tEncode(v []byte) []byte {
	buf := &bytes2.Buffer{}
	sqltypes.MakeTrusted(sqltypes.VarBinary, v).EncodeSQL(buf)
	return append([]byte{}, buf.Bytes()...)
}

// lexical oracle (implementation only): string literal round trip, comments/blanks never cross a literal
func (c *x14tCtx) lexicalOracle(k int) {
	r := c.r
	for i := 0; i < k && !c.hung; i++ {
		d := r.Intn(3)
		v := r.Bytes(r.Intn(12))
		for j := range v {
			if r.Intn(3) == 0 {
				v[j] = []byte{0, '\'', '"', '\\', '\n', '\r', '\t', 26, 8, 'x', 'X', '/', '*', '-', '#', ' ', '`'}[r.Intn(17)]
			}
		}
		enc := x14tEncode(v)
		lead := []string{"", " ", "\n\t ", "/* ' */", "/* \" */ ", "-- '\n", "# \"'`\n", "/*'*/ /*\"*/\n", "// '\n"}[r.Intn(9)]
		trail := []string{"", " ", " /* ' */", "-- '", ", 'z'", ";", "#'"}[r.Intn(7)]
		sql := append(append([]byte(lead), enc...), trail...)
		res := x14tExec(d, 0, sql, nil, 2*time.Second, false)
		c.rep.OracleChecks++
		c.rep.Count("lexical:roundtrip")
		rp := c.replayText(d, 0, sql, nil) + " value(hex)=" + hex.EncodeToString(v)
		if res.kind != "ok" {
			if res.kind == "hang" {
				c.hung = true
			}
			c.rep.Violate("tokenizer-"+res.kind, "Tokenizer "+res.kind+" in the literal round trip: "+res.msg, rp)
			continue
		}
		// expected stream: the comments of lead, the literal, then whatever trail gives; the literal must be there intact
		var toks []x14tRecord
		for _, rc := range res.recs[1:] {
			if rc.tok != sqlparser.COMMENT {
				toks = append(toks, rc)
			}
		}
		if len(toks) == 0 || toks[0].tok != sqlparser.SINGLE_QUOTE_STRING || !bytes.Equal(toks[0].val, v) {
			got := "none"
			if len(toks) > 0 {
				got = fmt.Sprintf("%d %q", toks[0].tok, toks[0].val)
			}
			c.rep.Violate("tokenizer-literal-roundtrip", "encoded literal is not tokenized back to its value after blanks/comments: got "+got, rp)
		}
		// a literal whose body holds comment openers is ONE token
		body := []string{"/* x */", "-- x", "# x", "/*", "*/ '' /*", "a/*!b*/c", " \n\t"}[r.Intn(7)]
		q := []string{"'", "\"", "`"}[r.Intn(3)]
		sql2 := []byte(q + body + q + " 7")
		res2 := x14tExec(d, 0, sql2, nil, 2*time.Second, false)
		c.rep.OracleChecks++
		c.rep.Count("lexical:comment-in-literal")
		if res2.kind == "ok" {
			isLit := (q == "'") || (q == "\"") || (q == "`" && d != 2)
			if isLit {
				if len(res2.recs) < 3 || res2.recs[2].tok != sqlparser.INTEGRAL || len(res2.recs[1].val) < len(body)-2 || res2.recs[1].tok == sqlparser.COMMENT {
					c.rep.Violate("tokenizer-comment-crosses-literal", "a quoted text holding comment markers is not one token followed by the next token", c.replayText(d, 0, sql2, nil))
				}
			}
		} else {
			if res2.kind == "hang" {
				c.hung = true
			}
			c.rep.Violate("tokenizer-"+res2.kind, "Tokenizer "+res2.kind+": "+res2.msg, c.replayText(d, 0, sql2, nil))
		}
	}
}

// parser entry points on version comments with 0..7 digits and no SQL text (implementation only)
func (c *x14tCtx) parserEntryOracle() {
	for k := 0; k <= 7 && !c.hung; k++ {
		for _, tail := range []string{"", " ", "x"} {
			sql := "select /*!" + "1234567"[:k] + tail + "*/ 1"
			for d := 0; d < 3; d++ {
				kind, msg := timed(func() error {
					if d == 0 {
						if _, err := sqlparser.ParseStrictDDL(sql); err != nil {
							return err
						}
					}
					_, err := sqlparser.ParseWithDialect(x14tDialectList[d].D, sql)
					return err
				}, 2*time.Second)
				c.rep.OracleChecks++
				c.rep.Count("oracle:parser-entry:" + kind)
				if kind == "panic" || kind == "hang" {
					if kind == "hang" {
						c.hung = true
					}
					c.rep.Violate("tokenizer-"+kind, "ParseStrictDDL/ParseWithDialect "+kind+": "+msg, fmt.Sprintf("dialect=%s sql=%q", x14tDialectList[d].Name, sql))
				}
			}
		}
	}
}

// stack oracle: k version comments must not cost k stack frames
func (c *x14tCtx) stackOracle(k int) {
	if c.hung {
		return
	}
	sql := []byte(strings.Repeat("/*! */", k) + "1")
	var ms runtime.MemStats
	runtime.GC()
	runtime.ReadMemStats(&ms)
	before := ms.StackInuse
	t0 := time.Now()
	res := x14tExec(0, 0, sql, nil, 60*time.Second, true)
	c.rep.OracleChecks++
	c.rep.Count("oracle:stack")
	rp := fmt.Sprintf("dialect=MYSQL sql = %d x \"/*! */\" + \"1\" (%d bytes)", k, len(sql))
	switch res.kind {
	case "ok":
		grown := int64(res.stack) - int64(before)
		if grown > 8<<20 {
			c.rep.Violate("tokenizer-stack", fmt.Sprintf("goroutine stacks grew by %d bytes while tokenizing %d bytes (%d version comments): stack use is linear in the input (%.0f bytes per input byte; the Go runtime aborts the process at 1 GB)", grown, len(sql), k, float64(grown)/float64(len(sql))), rp)
		}
		if dt := time.Since(t0); dt > 20*time.Second {
			c.rep.Violate("tokenizer-hang", fmt.Sprintf("%d bytes took %s", len(sql), dt), rp)
		}
	case "hang":
		c.hung = true
		c.rep.Violate("tokenizer-hang", res.msg, rp)
	default:
		c.rep.Violate("tokenizer-panic", res.msg, rp)
	}
}

func runC14Tok(rep *vh.Report, r *vh.Rng, n int, thorough bool) {
	c := &x14tCtx{rep: rep, r: r}
	corpus := c13Corpus()
	rep.Count(fmt.Sprintf("corpus-inputs:%d", len(corpus)))
	if len(corpus) < 100 {
		rep.Violate("corpus-missing", "could not read the parser's test corpus", repoRoot()+"/sqlparser/parse_test.go")
	}
	dialects := func() (int, int) {
		d := r.Intn(3)
		if r.Intn(4) == 0 {
			return d, r.Intn(3)
		}
		return d, d
	}

	// ---- 1. boundary tables (always) ----
	// 1a. every lexeme alone and cut at every point, every dialect (unterminated strings/comments/identifiers)
	for d := 0; d < 3; d++ {
		seen := map[string]bool{}
		var ins [][]byte
		for _, lx := range x14tLexemes {
			for cut := 1; cut <= len(lx); cut++ {
				if !thorough && cut < len(lx) && (d+cut+len(lx))%3 != int(rep.Seed%3) {
					continue // quick: a third of the interior cut points per dialect, rotating with the seed
				}
				if s := lx[:cut]; !seen[s] {
					seen[s] = true
					ins = append(ins, []byte(s))
				}
			}
		}
		c.batch(d, d, ins, "cut")
	}
	// 1b. every byte 0x00-0xff after every prefix class
	{
		ins := [3][][]byte{}
		for pi, pre := range x14tPrefixClasses {
			for b := 0; b < 256; b++ {
				if !thorough && (pi*7+b)%32 != int(rep.Seed%32) && !strings.ContainsRune("'\"`\\/*!-:@$.;0xe \x00", rune(b)) {
					continue // quick: the structural bytes always, the rest one in thirty-two rotating with the seed
				}
				d := (pi + b) % 3
				in := append([]byte(pre), byte(b))
				if b%2 == 1 {
					in = append(in, " a"...)
				}
				ins[d] = append(ins[d], in)
			}
		}
		for d := 0; d < 3; d++ {
			c.batch(d, d, ins[d], "byte-after-prefix")
		}
	}
	// 1c. version comment bodies (UTF-8 digits and spaces, invalid UTF-8) under every default dialect
	{
		ins := [3][][]byte{}
		for bi, body := range x14tSpecialBodies {
			for dd := 0; dd < 3; dd++ {
				if !thorough && (bi+dd)%3 != int(rep.Seed%3) {
					continue
				}
				ins[dd] = append(ins[dd], []byte("a /*!"+body+"*/ b"), []byte("/*!"+body))
			}
		}
		for dd := 0; dd < 3; dd++ {
			c.batch(dd, dd, ins[dd], "version-comment")
		}
	}
	// 1d. huge runs
	for _, unit := range []string{"7", "a", " ", "'", "''", "\\\\", "/*! */", "?", "`", "(", "0x", "1e", ".", "::", "-", "@", "\xff", "/*", "x'"} {
		k := 600
		if thorough {
			k = 2000
		}
		reps := k / len(unit)
		for _, in := range [][]byte{[]byte(strings.Repeat(unit, reps)), []byte("'" + strings.Repeat(unit, reps/2)), []byte(strings.Repeat(unit, reps/2) + "'")} {
			d := r.Intn(3)
			c.op(d, d, in, nil, "huge-run")
		}
	}

	// ---- 2. random scenarios (the ones without parser-side calls are collected into TokBatch ops) ----
	type x14tKey struct {
		d, dd  int
		origin string
	}
	pending := map[x14tKey][][]byte{}
	var pendingOrder []x14tKey
	c.deferPlain = func(d, dd int, sql []byte, origin string) {
		k := x14tKey{d, dd, origin}
		if _, ok := pending[k]; !ok {
			pendingOrder = append(pendingOrder, k)
		}
		pending[k] = append(pending[k], sql)
	}
	defer func() { c.deferPlain = nil }()
	for i := 0; i < n && !c.hung; i++ {
		d, dd := dialects()
		switch k := r.Intn(10); {
		case k < 3 && len(corpus) > 0: // parser corpus
			in := []byte(corpus[r.Intn(len(corpus))])
			c.op(d, dd, in, c.script(d, dd, in, r.Intn(3) != 0), "corpus")
		case k < 5:
			in := c.statement()
			c.op(d, dd, in, c.script(d, dd, in, r.Intn(3) != 0), "statement")
		case k < 7:
			in := c.soup(2 + r.Intn(8))
			c.op(d, dd, in, c.script(d, dd, in, r.Intn(2) != 0), "soup")
		case k < 9: // mutated valid text
			var in []byte
			if r.Bool() && len(corpus) > 0 {
				in = []byte(corpus[r.Intn(len(corpus))])
			} else {
				in = c.statement()
			}
			in = mutate(r, in, x14tMutDict)
			c.op(d, dd, in, c.script(d, dd, in, r.Intn(2) != 0), "mutated")
		default: // random bytes
			in := r.Bytes(1 + r.Intn(24))
			c.op(d, dd, in, c.script(d, dd, in, true), "random-bytes")
		}
	}

	c.deferPlain = nil
	for _, k := range pendingOrder {
		c.batch(k.d, k.dd, pending[k], k.origin)
	}

	// ---- 3. implementation-only oracles ----
	c.lexicalOracle(n/2 + 50)
	c.parserEntryOracle()
	if thorough {
		c.stackOracle(1500000)
	} else {
		c.stackOracle(150000)
	}
	rep.Count(fmt.Sprintf("max-input-bytes:%d", c.maxLen))
}
