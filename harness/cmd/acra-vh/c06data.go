package main

// C06 data domain (extension x06list) — rotation / destruction interleaved with DATA and key listings.
// Random histories of generate / rotate / destroy run on the REAL keystore v1 (in-memory Storage, no
// cache) and the REAL keystore v2 (in-memory backend), interleaved with REAL protect operations
// (RegistryHandler.EncryptWithHandler for AcraStruct / AcraBlock with the keystore itself as key
// source; hmac.GenerateHMAC with GetHMACSecretKey for the blind index), REAL reveal operations
// (RegistryHandler.DecryptWithHandler with the keystore's "all keys" getters) of every value protected
// so far, blind-index searches (HashData.IsEqual) and the listings ListKeys / ListRotatedKeys.
// Whole histories are replayed on Model/KeyDataExt.v; the oracle here is independent of that model:
// a value is revealed iff the key version it was protected under still exists.

import (
	"context"
	"encoding/binary"
	"encoding/hex"
	"fmt"
	"sort"
	"strings"

	"acra-vh/vh"

	"github.com/cossacklabs/acra/crypto"
	"github.com/cossacklabs/acra/decryptor/base"
	"github.com/cossacklabs/acra/hmac"
	"github.com/cossacklabs/acra/keystore"
	keystoreV2 "github.com/cossacklabs/acra/keystore/v2/keystore"
)

func init() { register("c06data", "Model.RunKeyData", runC06Data) }

type c6dValue struct {
	s     c6slot
	label int // key version it was protected under
	plain []byte
	bytes []byte
}

type c6dRun struct {
	rep      *vh.Report
	r        *vh.Rng
	drv      c6driver
	v2       bool
	spec     c6spec
	ords     map[string]int // secret key bytes -> label
	pubOrds  map[string]int // public key bytes -> label
	km       []string       // Coq rows of the key material table
	nOrd     int
	clock    uint64
	vals     []c6dValue
	gone     map[c6slot]map[int]bool
	hist     []string
	coqOps   []string
	raw      [][]byte
	violated map[string]bool
	desc     string
	slots    []c6slot
}

func (h *c6dRun) name() string {
	if h.v2 {
		return "v2"
	}
	return "v1"
}

func (h *c6dRun) violate(class, what string) {
	if h.violated[class] {
		return
	}
	h.violated[class] = true
	h.rep.Violate(class, what, h.desc+": "+strings.Join(h.hist, " ; "))
}

func c6dNums(l []uint64) []byte {
	b := []byte{}
	for _, v := range l {
		var x [8]byte
		binary.LittleEndian.PutUint64(x[:], v)
		b = append(b, x[:]...)
	}
	return b
}

// rec records one step: Coq term, raw result (tag byte + payload), history line.
func (h *c6dRun) rec(coq, human string, tag int, payload []byte, shown string, msg string) {
	b := []byte{byte(tag)}
	if tag == c6Ok {
		b = append(b, payload...)
	}
	h.coqOps = append(h.coqOps, coq)
	h.raw = append(h.raw, b)
	res := []string{"ok", "err", "PANIC"}[tag]
	if tag == c6Ok && shown != "" {
		res += " " + shown
	}
	if tag != c6Ok && msg != "" {
		res += " (" + msg + ")"
	}
	h.hist = append(h.hist, human+" -> "+res)
	h.rep.Count("c06data-op:" + strings.SplitN(human, " ", 2)[0])
	if tag == c6Panic {
		h.violate("panic-"+strings.SplitN(human, " ", 2)[0], "call panicked: "+human+": "+msg)
	}
}

func (h *c6dRun) recLabels(coq, human string, tag int, labels []int, msg string) {
	n := make([]uint64, len(labels))
	for i, l := range labels {
		n[i] = uint64(l)
	}
	shown := ""
	if labels != nil {
		shown = "[" + c6ints(labels) + "]"
	}
	h.rec(coq, human, tag, c6dNums(n), shown, msg)
}

func (h *c6dRun) ordOf(key []byte) int {
	if o, ok := h.ords[hex.EncodeToString(key)]; ok {
		return o
	}
	return 255
}

func c6dPub(k c6keystore, s c6slot) ([]byte, error) {
	switch s.kind {
	case kStoragePair:
		p, err := k.GetClientIDEncryptionPublicKey(s.id())
		if err != nil {
			return nil, err
		}
		return p.Value, nil
	case kPoisonPair:
		p, err := k.GetPoisonKeyPair()
		if err != nil {
			return nil, err
		}
		return p.Public.Value, nil
	}
	return nil, fmt.Errorf("no public key")
}

// ---------- keystore operations (same oracle as c06.go, exact comparison: no cache here) ----------

func (h *c6dRun) doGen(s c6slot) {
	tag, msg := guardErr(func() error { return c6Gen(h.drv.ks(), s) })
	h.nOrd++
	ord := h.nOrd
	if tag == c6Ok {
		key, err := c6Cur(h.drv.probe(), s)
		hx := hex.EncodeToString(key)
		if err != nil || len(key) == 0 {
			h.violate("generated-key-unreadable", fmt.Sprintf("%s: key of %v not readable right after generation: %v", h.name(), s, err))
		} else if _, dup := h.ords[hx]; dup {
			h.violate("generated-key-not-current", fmt.Sprintf("%s: after generating a key for %v the current key is still key %d", h.name(), s, h.ords[hx]))
		} else {
			h.ords[hx] = ord
			var pub []byte
			if s.kind == kStoragePair || s.kind == kPoisonPair {
				pub, err = c6dPub(h.drv.probe(), s)
				if err != nil {
					h.violate("generated-public-key-unreadable", fmt.Sprintf("%s: public key of %v not readable right after generation: %v", h.name(), s, err))
				} else {
					h.pubOrds[hex.EncodeToString(pub)] = ord
				}
			}
			h.km = append(h.km, fmt.Sprintf("(%d%%N, (%s, %s))", ord, vh.H(key), vh.H(pub)))
		}
	}
	t1, t2, ok1 := h.drv.genStamps(s)
	if !ok1 || t1 <= h.clock {
		if ok1 {
			h.violate("clock-not-increasing", "wall clock did not increase between two rotations (harness precondition)")
		}
		t1 = h.clock + 1
	}
	if t2 <= t1 {
		t2 = t1 + 1
	}
	h.clock = t2
	h.rec(fmt.Sprintf("DK (Gen %s %d %d %d)", s.coq(), ord, t1, t2), fmt.Sprintf("gen %v =key%d", s, ord), tag, nil, "", msg)
	if tag == c6Ok {
		h.spec.at(s).gen(ord)
	}
	h.rep.OracleChecks++
	c6vPairOracle(h, s) // x06v1
}

func (h *c6dRun) checkRead(op string, s c6slot, got []int) {
	h.rep.OracleChecks++
	e := h.spec.at(s)
	var want []int
	if op == "cur" || op == "curpub" {
		if e.cur != 0 {
			want = []int{e.cur}
		}
	} else {
		want = e.all(false)
	}
	if !c6eq(got, want) {
		if !h.v2 && op == "all" && e.cur == 0 && len(e.rot) > 0 && len(got) == 0 {
			h.violate("v1-all-keys-fail-without-current",
				fmt.Sprintf("v1: after the current key of %v was destroyed the surviving rotated keys [%s] are no longer offered (read of all keys fails)", s, c6ints(want)))
		} else {
			h.violate(h.name()+"-"+op+"-mismatch",
				fmt.Sprintf("%s: %s %v returned keys [%s], specification says [%s]", h.name(), op, s, c6ints(got), c6ints(want)))
		}
	}
}

func (h *c6dRun) doCur(s c6slot) {
	var key []byte
	tag, msg := guardErr(func() (err error) { key, err = c6Cur(h.drv.ks(), s); return })
	var got []int
	if tag == c6Ok {
		got = []int{h.ordOf(key)}
	}
	h.recLabels("DK (Cur "+s.coq()+")", fmt.Sprintf("cur %v", s), tag, got, msg)
	if tag != c6Panic {
		h.checkRead("cur", s, got)
	}
}

func (h *c6dRun) doCurPub(s c6slot) {
	var key []byte
	tag, msg := guardErr(func() (err error) { key, err = c6dPub(h.drv.ks(), s); return })
	var got []int
	if tag == c6Ok {
		o, ok := h.pubOrds[hex.EncodeToString(key)]
		if !ok {
			o = 255
		}
		got = []int{o}
	}
	h.recLabels("DCurPub "+s.coq(), fmt.Sprintf("curpub %v", s), tag, got, msg)
	if tag != c6Panic {
		h.checkRead("curpub", s, got)
	}
}

func (h *c6dRun) doAll(s c6slot) {
	var ks [][]byte
	tag, msg := guardErr(func() (err error) { ks, err = c6All(h.drv.ks(), s); return })
	var got []int
	if tag == c6Ok {
		got = []int{}
		for _, k := range ks {
			got = append(got, h.ordOf(k))
		}
	}
	h.recLabels("DK (All "+s.coq()+")", fmt.Sprintf("all %v", s), tag, got, msg)
	if tag != c6Panic {
		h.checkRead("all", s, got)
	}
}

func (h *c6dRun) destroyed(s c6slot, o int) {
	if o == 0 {
		return
	}
	if h.gone[s] == nil {
		h.gone[s] = map[int]bool{}
	}
	h.gone[s][o] = true
}

func (h *c6dRun) doDestroyCur(s c6slot) {
	tag, msg := guardErr(func() error { return c6DestroyCur(h.drv.ks(), s) })
	h.rec("DK (DestroyCur "+s.coq()+")", fmt.Sprintf("destroycur %v", s), tag, nil, "", msg)
	h.rep.OracleChecks++
	e := h.spec.at(s)
	if tag == c6Ok || h.v2 {
		h.destroyed(s, e.cur)
		e.cur = 0
	}
	c6vPairOracle(h, s) // x06v1
}

func (h *c6dRun) doDestroyRot(s c6slot, i int) {
	tag, msg := guardErr(func() error { return c6DestroyRot(h.drv.ks(), s, i) })
	h.rec(fmt.Sprintf("DK (DestroyRot %s (%d)%%Z)", s.coq(), i), fmt.Sprintf("destroyrot %v %d", s, i), tag, nil, "", msg)
	h.rep.OracleChecks++
	e := h.spec.at(s)
	valid := i >= 2 && i <= len(e.rot)+1
	if valid != (tag == c6Ok) && tag != c6Panic {
		h.violate(h.name()+"-destroyrot-status", fmt.Sprintf("%s: destroying rotated key %d of %v (rotated keys listed: %d) returned %v", h.name(), i, s, len(e.rot), []string{"ok", "an error"}[tag]))
	}
	h.destroyed(s, e.destroyRot(i))
	c6vPairOracle(h, s) // x06v1
}

func (h *c6dRun) doReopen() {
	tag, msg := guardErr(func() error { return h.drv.reopen() })
	h.rec("DK Reopen", "reopen", tag, nil, "", msg)
}

// ---------- listings ----------

// c6dIDs: the KeyIDs under which the listings report the files / ring of a slot (private part, public part).
func (h *c6dRun) ids(s c6slot) (string, string) {
	id := h.drv.rotatedID(s)
	if !h.v2 && (s.kind == kStoragePair || s.kind == kPoisonPair) {
		return id, id + ".pub"
	}
	return id, ""
}

func (h *c6dRun) wantPurpose(s c6slot, pub bool) string {
	if h.v2 {
		return []string{keystoreV2.PurposeStorageClient, keystoreV2.PurposeStorageClientSym, keystoreV2.PurposeSearchHMAC,
			keystoreV2.PurposePoisonRecord, keystoreV2.PurposePoisonSym, keystoreV2.PurposeAuditLog}[s.kind]
	}
	if s.kind == kStoragePair && pub {
		return string(keystore.PurposeStorageClientPublicKey)
	}
	return string([]keystore.KeyPurpose{keystore.PurposeStorageClientPrivateKey, keystore.PurposeStorageClientSymmetricKey, keystore.PurposeSearchHMAC,
		keystore.PurposePoisonRecordKeyPair, keystore.PurposePoisonRecordSymmetricKey, keystore.PurposeAuditLog}[s.kind])
}

// rows filters a listing by the slot's key ids and checks purpose / client id / state of every row.
func (h *c6dRun) rows(what string, s c6slot, ds []keystore.KeyDescription, state keystore.KeyState) (nums []uint64, shown []string, perPart [2][]keystore.KeyDescription) {
	priv, pub := h.ids(s)
	for _, d := range ds {
		part := -1
		if d.KeyID == priv {
			part = 0
		} else if pub != "" && d.KeyID == pub {
			part = 1
		}
		if part < 0 {
			continue
		}
		st := uint64(0)
		switch d.State {
		case keystore.StateCurrent:
			st = 1
		case keystore.StateRotated:
			st = 2
		}
		t := uint64(0)
		if !h.v2 && d.CreationTime != nil {
			t = uint64(d.CreationTime.UnixNano())
		}
		nums = append(nums, uint64(part), uint64(d.Index), st, t)
		shown = append(shown, fmt.Sprintf("%s#%d/%s", []string{"", "pub"}[part], d.Index, d.State))
		perPart[part] = append(perPart[part], d)
		h.rep.OracleChecks++
		if d.State != state {
			h.violate(h.name()+"-"+what+"-state", fmt.Sprintf("%s: %s reports key %q of %v with state %q, expected %q", h.name(), what, d.KeyID, s, d.State, state))
		}
		if string(d.Purpose) != h.wantPurpose(s, part == 1) {
			h.violate(h.name()+"-"+what+"-purpose", fmt.Sprintf("%s: %s reports key %q of %v with purpose %q, expected %q", h.name(), what, d.KeyID, s, d.Purpose, h.wantPurpose(s, part == 1)))
		}
		if d.ClientID != string(s.id()) {
			h.violate(h.name()+"-"+what+"-clientid", fmt.Sprintf("%s: %s reports key %q of %v with client id %q, expected %q", h.name(), what, d.KeyID, s, d.ClientID, string(s.id())))
		}
	}
	return
}

func (h *c6dRun) doListCur(s c6slot) {
	var ds []keystore.KeyDescription
	tag, msg := guardErr(func() (err error) { ds, err = h.drv.ks().ListKeys(); return })
	var nums []uint64
	var shown []string
	var per [2][]keystore.KeyDescription
	if tag == c6Ok {
		nums, shown, per = h.rows("ListKeys", s, ds, keystore.StateCurrent)
	}
	h.rec("DListCur "+s.coq(), fmt.Sprintf("listkeys %v", s), tag, c6dNums(nums), "["+strings.Join(shown, " ")+"]", msg)
	if tag != c6Ok {
		if tag == c6Err {
			h.violate(h.name()+"-listkeys-fails", fmt.Sprintf("%s: ListKeys failed: %s", h.name(), msg))
		}
		return
	}
	// the listing shows exactly the existing current keys, each with index 1
	h.rep.OracleChecks++
	e := h.spec.at(s)
	wantRows := 0
	if e.cur != 0 {
		wantRows = 1
	}
	_, pubID := h.ids(s)
	for part := 0; part < 2; part++ {
		if part == 1 && pubID == "" {
			continue
		}
		if len(per[part]) != wantRows {
			h.violate(h.name()+"-listkeys-rows", fmt.Sprintf("%s: ListKeys shows %d current key(s) for %v (part %d), the slot has %d", h.name(), len(per[part]), s, part, wantRows))
		}
		for _, d := range per[part] {
			if d.Index != 1 {
				h.violate(h.name()+"-listkeys-index", fmt.Sprintf("%s: ListKeys shows the current key of %v with index %d", h.name(), s, d.Index))
			}
		}
	}
	// the whole listing: one row per existing current key of every slot of this history, no other
	var want, got []string
	for _, sl := range h.slots {
		if h.spec.at(sl).cur != 0 {
			a, b := h.ids(sl)
			want = append(want, a)
			if b != "" {
				want = append(want, b)
			}
		}
	}
	for _, d := range ds {
		got = append(got, d.KeyID)
	}
	sort.Strings(want)
	sortedGot := append([]string{}, got...)
	sort.Strings(sortedGot)
	if strings.Join(want, ",") != strings.Join(sortedGot, ",") {
		h.violate(h.name()+"-listkeys-set", fmt.Sprintf("%s: ListKeys shows keys {%s}, existing current keys are {%s}", h.name(), strings.Join(sortedGot, ","), strings.Join(want, ",")))
	}
}

func (h *c6dRun) doListRot(s c6slot) {
	var ds []keystore.KeyDescription
	tag, msg := guardErr(func() (err error) { ds, err = h.drv.ks().ListRotatedKeys(); return })
	var nums []uint64
	var shown []string
	var per [2][]keystore.KeyDescription
	if tag == c6Ok {
		nums, shown, per = h.rows("ListRotatedKeys", s, ds, keystore.StateRotated)
	}
	h.rec("DListRot "+s.coq(), fmt.Sprintf("listrotated %v", s), tag, c6dNums(nums), "["+strings.Join(shown, " ")+"]", msg)
	if tag != c6Ok {
		if tag == c6Err {
			h.violate(h.name()+"-listrotated-fails", fmt.Sprintf("%s: ListRotatedKeys failed: %s", h.name(), msg))
		}
		return
	}
	h.rep.OracleChecks++
	n := len(h.spec.at(s).rot)
	_, pubID := h.ids(s)
	for part := 0; part < 2; part++ {
		if part == 1 && pubID == "" {
			continue
		}
		if len(per[part]) != n {
			h.violate(h.name()+"-listrot-mismatch", fmt.Sprintf("%s: ListRotatedKeys shows %d rotated key(s) for %v (part %d), the slot has %d", h.name(), len(per[part]), s, part, n))
		}
		for i, d := range per[part] {
			if d.Index != i+2 {
				h.violate(h.name()+"-listrot-mismatch", fmt.Sprintf("%s: ListRotatedKeys shows the %d-th rotated key of %v with index %d", h.name(), i+1, s, d.Index))
			}
			if d.CreationTime == nil {
				h.violate(h.name()+"-listrot-time", fmt.Sprintf("%s: ListRotatedKeys shows rotated key %d of %v without creation time", h.name(), d.Index, s))
			} else if i > 0 && per[part][i-1].CreationTime != nil && d.CreationTime.Before(*per[part][i-1].CreationTime) {
				h.violate(h.name()+"-listrot-order", fmt.Sprintf("%s: rotated keys of %v are not listed in chronological order", h.name(), s))
			}
		}
	}
}

// ---------- data ----------

func c6dCtx(id []byte) context.Context {
	return base.SetAccessContextToContext(context.Background(), base.NewAccessContext(base.WithClientID(id)))
}

func c6dEnvelope(kind int) byte {
	if kind == kStoragePair {
		return crypto.AcraStructEnvelopeID
	}
	return crypto.AcraBlockEnvelopeID
}

func (h *c6dRun) doProtect(s c6slot, data []byte) {
	ks := h.drv.ks()
	var out []byte
	t := vh.StartTape(h.r)
	o := vh.Guard(func() vh.Outcome {
		if s.kind == kHmac {
			key, err := ks.GetHMACSecretKey(s.id())
			if err != nil {
				return vh.ErrO(err)
			}
			return vh.Ok(hmac.GenerateHMAC(key, data))
		}
		rh := crypto.NewRegistryHandler(ks)
		return one(rh.EncryptWithHandler(handlerByID(c6dEnvelope(s.kind)), s.id(), append([]byte{}, data...)))
	})
	vh.StopTape()
	tag, msg := c6Ok, ""
	switch o.Kind {
	case "ok":
		out = o.Vals[0]
	case "err":
		tag, msg = c6Err, o.Msg
	default:
		tag, msg = c6Panic, o.Msg
	}
	e := h.spec.at(s)
	shown := ""
	if tag == c6Ok {
		shown = fmt.Sprintf("value%d (%d bytes, under key%d)", len(h.vals), len(out), e.cur)
	}
	h.rec(fmt.Sprintf("DProtect %s %s %s", s.coq(), vh.HL(t.Chunks), vh.H(data)), fmt.Sprintf("protect %v %s", s, hex.EncodeToString(data)), tag, out, shown, msg)
	h.rep.OracleChecks++
	if (tag == c6Ok) != (e.cur != 0) && tag != c6Panic {
		h.violate(h.name()+"-protect-status", fmt.Sprintf("%s: protecting a value for %v (current key: %d) returned %v", h.name(), s, e.cur, []string{"ok", "an error"}[tag]))
	}
	if tag == c6Ok {
		h.vals = append(h.vals, c6dValue{s: s, label: e.cur, plain: append([]byte{}, data...), bytes: out})
	}
}

// doReveal decrypts value n through the real decrypt handler with the keystore as key source.
// Oracle (independent of the model): revealed iff the key version it was protected under still exists.
func (h *c6dRun) doReveal(n int) {
	v := h.vals[n]
	s := v.s
	ks := h.drv.ks()
	o := vh.Guard(func() vh.Outcome {
		rh := crypto.NewRegistryHandler(ks)
		return one(rh.DecryptWithHandler(handlerByID(c6dEnvelope(s.kind)), append([]byte{}, v.bytes...),
			&base.DataProcessorContext{Keystore: ks, Context: c6dCtx(s.id())}))
	})
	tag, msg := c6Ok, ""
	var out []byte
	switch o.Kind {
	case "ok":
		out = o.Vals[0]
	case "err":
		tag, msg = c6Err, o.Msg
	default:
		tag, msg = c6Panic, o.Msg
	}
	h.rec(fmt.Sprintf("DReveal %s %d", s.coq(), n), fmt.Sprintf("reveal value%d(%v key%d)", n, s, v.label), tag, out, "", msg)
	if tag == c6Panic {
		return
	}
	h.rep.OracleChecks++
	e := h.spec.at(s)
	exists := c6has(e.all(false), v.label)
	revealed := tag == c6Ok && string(out) == string(v.plain)
	if tag == c6Ok && !revealed {
		h.violate(h.name()+"-reveal-wrong-value", fmt.Sprintf("%s: value %d of %v was revealed as other bytes than were protected", h.name(), n, s))
		return
	}
	switch {
	case exists && !revealed:
		if !h.v2 && e.cur == 0 {
			h.violate("v1-all-keys-fail-without-current",
				fmt.Sprintf("v1: after the current key of %v was destroyed, value %d protected under the surviving rotated key %d is no longer revealed (read of all keys fails)", s, n, v.label))
		} else {
			h.violate(h.name()+"-data-lost", fmt.Sprintf("%s: value %d of %v was protected under key %d which still exists (keys [%s]) but is not revealed", h.name(), n, s, v.label, c6ints(e.all(false))))
		}
	case !exists && revealed:
		h.violate(h.name()+"-data-survives-destruction", fmt.Sprintf("%s: value %d of %v was protected under key %d which was destroyed (keys left [%s]) but is still revealed", h.name(), n, s, v.label, c6ints(e.all(false))))
	}
	if !exists && !h.gone[s][v.label] {
		h.violate(h.name()+"-key-vanished", fmt.Sprintf("%s: key %d of %v was never destroyed but is not among the keys of the slot", h.name(), v.label, s))
	}
}

// doSearch: is the stored blind index n found by a query for data now?  The code hashes the query with
// the CURRENT HMAC key only: found iff same data and the index was written under the current key.
func (h *c6dRun) doSearch(n int, data []byte) {
	v := h.vals[n]
	s := v.s
	ks := h.drv.ks()
	o := vh.Guard(func() vh.Outcome {
		hs := hmac.ExtractHash(v.bytes)
		if hs == nil {
			return vh.ErrO(fmt.Errorf("no hash"))
		}
		if hs.IsEqual(data, s.id(), ks) {
			return vh.Ok([]byte{1})
		}
		return vh.Ok([]byte{0})
	})
	tag, msg := c6Ok, ""
	var out []byte
	switch o.Kind {
	case "ok":
		out = o.Vals[0]
	case "err":
		tag, msg = c6Err, o.Msg
	default:
		tag, msg = c6Panic, o.Msg
	}
	h.rec(fmt.Sprintf("DSearch %s %d %s", s.coq(), n, vh.H(data)), fmt.Sprintf("search index%d(%v key%d) for %s", n, s, v.label, hex.EncodeToString(data)), tag, out, fmt.Sprint(out), msg)
	if tag != c6Ok {
		return
	}
	h.rep.OracleChecks++
	e := h.spec.at(s)
	want := string(data) == string(v.plain) && e.cur == v.label
	if (out[0] == 1) != want {
		h.violate(h.name()+"-search-mismatch", fmt.Sprintf("%s: blind index %d of %v (written under HMAC key %d, current HMAC key %d, same data: %v) found=%v", h.name(), n, s, v.label, e.cur, string(data) == string(v.plain), out[0] == 1))
	}
	if string(data) == string(v.plain) && e.cur != v.label && e.cur != 0 {
		h.rep.Count("c06data:old-blind-index-not-found-after-hmac-rotation")
	}
}

func (h *c6dRun) revealAll() {
	for n, v := range h.vals {
		if v.s.kind == kHmac {
			h.doSearch(n, v.plain)
		} else {
			h.doReveal(n)
		}
	}
}

func (h *c6dRun) emit(label string) {
	km := "[" + strings.Join(h.km, "; ") + "]"
	var term string
	if h.v2 {
		term = "(V2Data " + km + " [" + strings.Join(h.coqOps, "; ") + "])"
	} else {
		term = fmt.Sprintf("(V1Data (%d)%%Z %s [%s])", keystore.WithoutCache, km, strings.Join(h.coqOps, "; "))
	}
	h.rep.Add(label+" :: "+strings.Join(h.hist, " ; "), term, vh.Ok(h.raw...))
}

func c6dNew(rep *vh.Report, r *vh.Rng, v2 bool) *c6dRun {
	h := &c6dRun{rep: rep, r: r, v2: v2, spec: c6spec{}, ords: map[string]int{}, pubOrds: map[string]int{},
		gone: map[c6slot]map[int]bool{}, violated: map[string]bool{}}
	var err error
	if v2 {
		h.desc = "keystore v2"
		h.drv, err = newC6v2(r)
	} else {
		h.desc = "keystore v1 without cache"
		h.drv, err = newC6v1(r, keystore.WithoutCache)
	}
	if err != nil {
		rep.Violate("harness-setup", "cannot construct keystore: "+err.Error(), "")
		return nil
	}
	h.desc += c6DescDir(h.drv, rep)
	return h
}

func (h *c6dRun) plain() []byte {
	n := 1 + h.r.Intn(24)
	return h.r.Bytes(n)
}

// c6dDestroyFamily: for each data kind and store: N+1 versions, one value protected under EVERY version,
// destroy the version listed with index i (or the current one, i = 1), reveal everything.
func c6dDestroyFamily(rep *vh.Report, r *vh.Rng, thorough bool) {
	maxN := 3
	if thorough {
		maxN = 5
	}
	sc := 0
	for _, v2 := range []bool{false, true} {
		for _, kind := range []int{kStoragePair, kStorageSym, kHmac} {
			for n := 1; n <= maxN; n++ {
				for i := 1; i <= n+1; i++ {
					if !thorough && (sc+int(r.Intn(2)))%2 == 0 && n == maxN {
						// quick tier: half of the largest size
						sc++
						continue
					}
					h := c6dNew(rep, r, v2)
					if h == nil {
						continue
					}
					s := c6slot{kind, 1 + r.Intn(len(c6Clients)-1)}
					h.slots = []c6slot{s}
					rep.Count("c06data-family:destroy-each-index")
					rep.Count("c06data-kind:" + c6KindCoq[kind])
					for g := 0; g <= n; g++ {
						h.doGen(s)
						h.doProtect(s, h.plain())
					}
					h.doListCur(s)
					h.doListRot(s)
					h.revealAll()
					if i == 1 {
						h.doDestroyCur(s)
					} else {
						h.doDestroyRot(s, i)
					}
					h.revealAll()
					h.doListCur(s)
					h.doListRot(s)
					h.doGen(s)
					h.doProtect(s, h.plain())
					h.revealAll()
					h.emit(fmt.Sprintf("fam%d %s %v versions=%d destroy=%d", sc, h.name(), s, n+1, i))
					sc++
				}
			}
		}
	}
}

func runC06Data(rep *vh.Report, r *vh.Rng, n int, thorough bool) {
	c6dDestroyFamily(rep, r, thorough)
	for sc := 0; sc < n; sc++ {
		v2 := sc%2 == 1
		h := c6dNew(rep, r, v2)
		if h == nil {
			continue
		}
		nk := 1 + r.Intn(3)
		for i := 0; i < nk; i++ {
			k := []int{kStoragePair, kStorageSym, kHmac, kStoragePair, kStorageSym, kPoisonPair, kPoisonSym, kAudit}[r.Intn(8)]
			if i == 0 {
				k = []int{kStoragePair, kStorageSym, kHmac, kStoragePair, kStorageSym}[r.Intn(5)]
			}
			o := 0
			if k <= kHmac {
				o = 1 + r.Intn(len(c6Clients)-1)
			}
			sl := c6slot{k, o}
			dup := false
			for _, x := range h.slots {
				dup = dup || x == sl
			}
			if !dup {
				h.slots = append(h.slots, sl)
			}
		}
		focus := h.slots[0]
		steps := 10 + r.Intn(16)
		if thorough {
			steps = 10 + r.Intn(30)
		}
		rep.Count("c06data-store:" + h.name())
		for st := 0; st < steps && h.nOrd < 200; st++ {
			s := focus
			if r.Intn(4) == 0 {
				s = c6pickSlot(r, h.slots)
			}
			rep.Count("c06data-kind:" + c6KindCoq[s.kind])
			data := s.kind <= kHmac
			switch x := r.Intn(100); {
			case x < 22:
				h.doGen(s)
			case x < 44:
				if data {
					h.doProtect(s, h.plain())
				} else {
					h.doCur(s)
				}
			case x < 54:
				if len(h.vals) > 0 {
					n := r.Intn(len(h.vals))
					if h.vals[n].s.kind == kHmac {
						d := h.vals[n].plain
						if r.Intn(4) == 0 {
							d = h.plain()
						}
						h.doSearch(n, d)
					} else {
						h.doReveal(n)
					}
				} else {
					h.doCur(s)
				}
			case x < 60:
				h.revealAll()
			case x < 66:
				if c6HasAll(s.kind) {
					h.doAll(s)
				} else {
					h.doCur(s)
				}
			case x < 70:
				if s.kind == kStoragePair || s.kind == kPoisonPair {
					h.doCurPub(s)
				} else {
					h.doCur(s)
				}
			case x < 76:
				h.doListCur(s)
			case x < 82:
				h.doListRot(s)
			case x < 87:
				if c6HasDestroy(s.kind) {
					h.doDestroyCur(s)
				} else {
					h.doListCur(s)
				}
			case x < 97:
				if !c6HasDestroy(s.kind) {
					h.doListRot(s)
					break
				}
				nrot := len(h.spec.at(s).rot)
				i := 2 + r.Intn(nrot+1)
				switch r.Intn(10) {
				case 0:
					i = nrot + 2 + r.Intn(3)
				case 1:
					i = r.Intn(2)
				case 2:
					i = -1 - r.Intn(3)
				}
				rep.Count(fmt.Sprintf("c06data-destroyrot-index:%s", map[bool]string{true: "listed", false: "not-listed"}[i >= 2 && i <= nrot+1]))
				h.doDestroyRot(s, i)
			default:
				h.doReopen()
			}
		}
		// closing: every value protected so far, and the listings of every slot
		h.revealAll()
		for _, s := range h.slots {
			h.doListCur(s)
			h.doListRot(s)
		}
		h.emit(fmt.Sprintf("sc%d %s", sc, h.name()))
	}
}
