package main

// Domain c01chain (property C01): the COMPLETE transparent write chain and read chain, exactly as
// decryptor/postgresql/proxy.go and decryptor/mysql/proxy.go build them (harness/x11rig obtains the proxies from the
// real factories; the hooks export_verif_s55.go hand out the ChainDataEncryptor the factory gave to the query
// encryptor), for every column flavour x every input form:
//
//	flavours : acrastruct / acrablock column, reencrypting_to_acrablocks on / off; searchable (either envelope);
//	           masked (either envelope, window left / right) - in schemas with and without the optional stages
//	           (tokenization, search, masking) so that every composition of the factory's lists is driven
//	forms    : plaintext; plaintext with tag bytes; plaintext that looks like <hash><...>; value ALREADY protected for
//	           this client (raw AcraStruct, raw AcraBlock, serialized container of each); value protected for ANOTHER
//	           client; empty
//
// write through the chain, (rotate keys,) reveal through the chain as the owner.  Oracle (independent of the model):
// the owner gets the original plaintext - for an already protected input: the plaintext inside that envelope -
// byte-identical and marked decrypted; a protected value is not wrapped a second time; writing the stored value
// again stores the same value.

import (
	"bytes"
	"context"
	"encoding/hex"
	"fmt"
	"strings"

	"acra-vh/vh"
	"acra-vh/x11rig"

	"github.com/cossacklabs/acra/crypto"
	"github.com/cossacklabs/acra/decryptor/base"
	"github.com/cossacklabs/acra/decryptor/mysql"
	"github.com/cossacklabs/acra/decryptor/postgresql"
	encryptor "github.com/cossacklabs/acra/encryptor/base"
	"github.com/cossacklabs/acra/encryptor/base/config"
)

func init() { register("c01chain", "Model.RunFullChain", runC01Chain) }

const (
	c01chainOwner = "owner"
	c01chainOther = "other"
)

// one column flavour
type c01chainFl struct {
	name          string
	envAB, reenc  bool
	search, mask  bool
	pattern, side string
	plen          int
}

var c01chainFlavours = []c01chainFl{
	{name: "as"},
	{name: "as-reenc", reenc: true},
	{name: "ab", envAB: true},
	{name: "ab-reenc", envAB: true, reenc: true},
	{name: "search-as", search: true, reenc: true},
	{name: "search-ab", search: true, envAB: true, reenc: true},
	{name: "mask-as-left", mask: true, side: "left", reenc: true},
	{name: "mask-as-right", mask: true, side: "right", reenc: true},
	{name: "mask-ab-left", mask: true, envAB: true, side: "left", reenc: true},
	{name: "mask-ab-right", mask: true, envAB: true, side: "right", reenc: true},
}

var c01chainForms = []string{"plain", "tags", "hashlike", "raw-as", "raw-ab", "cont-as", "cont-ab", "other", "empty"}

var c01chainPatterns = []string{"xxxx", "***", "*", "%%%", "masked", `""""`, "0"}

func (f *c01chainFl) kind() string {
	switch {
	case f.search:
		return "search"
	case f.mask:
		return "mask"
	}
	return "plain"
}

func (f *c01chainFl) coq() string {
	ms := coqSetting("", 0, "", 0)
	if f.mask {
		ms = coqSetting(f.pattern, f.plen, f.side, 0)
	}
	return fmt.Sprintf("(mk_fs %s %s %s %s)", coqBool(f.envAB), coqBool(f.reenc), coqBool(f.search), ms)
}

func (f *c01chainFl) yaml(col string) string {
	var sb strings.Builder
	sb.WriteString("      - column: " + col + "\n        client_id: " + c01chainOwner + "\n")
	if f.envAB {
		sb.WriteString("        crypto_envelope: acrablock\n")
	} else {
		sb.WriteString("        crypto_envelope: acrastruct\n")
	}
	switch {
	case f.search:
		sb.WriteString("        searchable: true\n")
	case f.mask:
		sb.WriteString("        masking: " + c11oldYAMLString(f.pattern) + "\n")
		sb.WriteString(fmt.Sprintf("        plaintext_length: %d\n        plaintext_side: %s\n", f.plen, f.side))
	default:
		sb.WriteString("        reencrypting_to_acrablocks: " + coqBool(f.reenc) + "\n")
	}
	return sb.String()
}

// which optional stages the factory installs
type c01chainSchema struct{ tok, search, mask bool }

func (s c01chainSchema) coq() string {
	return fmt.Sprintf("(mk_sch %s %s %s)", coqBool(s.tok), coqBool(s.search), coqBool(s.mask))
}

// c01chainYAML: table t with the column under test and one more column per optional stage
func c01chainYAML(f *c01chainFl, s c01chainSchema) string {
	var sb strings.Builder
	sb.WriteString("schemas:\n  - table: t\n    columns:\n      - id\n      - v\n      - xs\n      - xm\n      - xt\n    encrypted:\n")
	sb.WriteString(f.yaml("v"))
	if s.search && !f.search {
		x := c01chainFl{search: true, envAB: !f.envAB}
		sb.WriteString(x.yaml("xs"))
	}
	if s.mask && !f.mask {
		x := c01chainFl{mask: true, envAB: !f.envAB, pattern: "zz", plen: 3, side: "right"}
		sb.WriteString(x.yaml("xm"))
	}
	if s.tok {
		sb.WriteString("      - column: xt\n        client_id: " + c01chainOwner + "\n        token_type: bytes\n")
	}
	return sb.String()
}

func c01chainTypes(es []encryptor.DataEncryptor) string {
	var t []string
	for _, e := range es {
		t = append(t, fmt.Sprintf("%T", e))
	}
	return strings.Join(t, ";")
}

func (s c01chainSchema) wantWrite() string {
	var t []string
	if s.tok {
		t = append(t, "*pseudonymization.TokenEncryptor")
	}
	t = append(t, "crypto.EncryptHandler")
	if s.search {
		t = append(t, "*hmac.SearchableDataEncryptor")
	}
	if s.mask {
		t = append(t, "*masking.DataEncryptor")
	}
	t = append(t, "crypto.ReEncryptHandler")
	return strings.Join(t, ";")
}

// the subscribers between the database's decoder and encoder, in the order the model composes them
func (s c01chainSchema) wantCore() string {
	var t []string
	if s.tok {
		t = append(t, "TokenProcessor")
	}
	if s.search {
		t = append(t, "HMAC processor")
	}
	t = append(t, "OldContainerDetectorWrapper")
	if s.search {
		t = append(t, "HMAC processor (verify)")
	}
	return strings.Join(t, ";")
}

// c01chainCore cuts the subscribers strictly between the decoder and the encoder of the database protocol.
func c01chainCore(subs []base.DecryptionSubscriber, first, last string) []base.DecryptionSubscriber {
	lo, hi := -1, -1
	for i, s := range subs {
		if s.ID() == first && lo < 0 {
			lo = i
		}
		if s.ID() == last {
			hi = i
		}
	}
	if lo < 0 || hi < 0 || hi < lo {
		return nil
	}
	var out []base.DecryptionSubscriber
	for _, s := range subs[lo+1 : hi] {
		// the MySQL query encryptor is subscribed once more in front of the encoder (it only records settings)
		if s.ID() == "QueryDataEncryptor" {
			continue
		}
		out = append(out, s)
	}
	return out
}

func c01chainTagged(r *vh.Rng) ([]byte, string) {
	n := 1 + r.Intn(120)
	b := r.Bytes(n)
	switch r.Intn(7) {
	case 0:
		return bytes.Repeat([]byte{'%'}, 1+r.Intn(20)), "percents"
	case 1:
		return bytes.Repeat([]byte{'"'}, 1+r.Intn(20)), "quotes"
	case 2: // container header without a container
		h := append([]byte("%%%"), n8(13+r.Intn(40))...)
		h = append(h, []byte{crypto.AcraStructEnvelopeID, crypto.AcraBlockEnvelopeID}[r.Intn(2)])
		return append(h, b...), "container-header"
	case 3:
		return append(append(r.Bytes(r.Intn(6)), []byte(`""""""""`)...), b...), "as-tag"
	case 4:
		return append(append(r.Bytes(r.Intn(6)), []byte(`""""`)...), b...), "ab-tag"
	case 5:
		return append(b, '%', '%', '%'), "tag-at-end"
	}
	for i := 0; i+8 <= len(b); i += 1 + r.Intn(24) {
		if r.Bool() {
			copy(b[i:], `%%%`)
		} else {
			copy(b[i:], `""""`)
		}
	}
	return b, "tags-in-random"
}

func c01chainPlain(r *vh.Rng) []byte {
	n := 1 + r.Intn(200)
	if r.Intn(3) == 0 {
		n = boundaryLens[1+r.Intn(len(boundaryLens)-1)]
	}
	switch r.Intn(4) {
	case 0:
		return []byte(strings.Repeat("text value ж ", n/12+1))[:n]
	case 1:
		return make([]byte, n)
	}
	return r.Bytes(n)
}

type c01chainRun struct {
	rep *vh.Report
	r   *vh.Rng
}

// write: ChainDataEncryptor.EncryptWithClientID of the chain the factory built
func (u *c01chainRun) write(label string, chain encryptor.DataEncryptor, s c01chainSchema, f *c01chainFl, setting config.ColumnEncryptionSetting, owner *vh.KeySet, in []byte) vh.Outcome {
	t := vh.StartTape(u.r)
	d := append([]byte{}, in...)
	o := vh.Guard(func() vh.Outcome { return one(chain.EncryptWithClientID([]byte(c01chainOwner), d, setting)) })
	vh.StopTape()
	u.rep.Add(label, fmt.Sprintf("ChainWrite %s %s %s %s %s", s.coq(), f.coq(), owner.Coq(), vh.HL(t.Chunks), c01chainH(in)), o)
	return o
}

// core: the subscribers between decoder and encoder, notified as ColumnDecryptionObserver.OnColumnDecryption does
func (u *c01chainRun) core(label string, subs []base.DecryptionSubscriber, ctx context.Context, s c01chainSchema, f *c01chainFl, owner *vh.KeySet, col []byte) vh.Outcome {
	d := append([]byte{}, col...)
	o := vh.Guard(func() vh.Outcome {
		c, data := ctx, d
		var err error
		for _, sub := range subs {
			c, data, err = sub.OnColumn(c, data)
			if err != nil {
				return vh.ErrO(err)
			}
		}
		fl := []byte{0}
		if base.IsDecryptedFromContext(c) {
			fl[0] = 1
		}
		return vh.Ok(append([]byte{}, data...), fl)
	})
	u.rep.Add(label, fmt.Sprintf("ChainCore %s (Some %s) %s %s", s.coq(), f.coq(), owner.Coq(), c01chainH(col)), o)
	return o
}

func (u *c01chainRun) pg(label string, p *x11rig.Proxy, s c01chainSchema, f *c01chainFl, setting config.ColumnEncryptionSetting, owner *vh.KeySet, binaryFmt bool, data []byte) vh.Outcome {
	d := append([]byte{}, data...)
	o := vh.Guard(func() vh.Outcome { return one(p.Column(1, d, binaryFmt, setting)) })
	u.rep.Add(label, fmt.Sprintf("ChainPg %s (Some %s) %s %s %s", s.coq(), f.coq(), owner.Coq(), coqBool(binaryFmt), c01chainH(data)), o)
	return o
}

// c01chainH: Coq term of a byte string in chunks of 40 bytes (a number literal parses in time quadratic in its length)
func c01chainH(b []byte) string {
	if len(b) <= 48 {
		return vh.H(b)
	}
	var parts []string
	for len(b) > 0 {
		k := 40
		if len(b) < k {
			k = len(b)
		}
		parts = append(parts, "0x1"+hex.EncodeToString(b[:k]))
		b = b[k:]
	}
	return "(hbs [" + strings.Join(parts, "; ") + "])"
}

func c01chainShort(o vh.Outcome) string {
	s := o.String()
	if len(s) > 300 {
		s = s[:300] + "…"
	}
	return s
}

func runC01Chain(rep *vh.Report, r *vh.Rng, n int, thorough bool) {
	u := &c01chainRun{rep, r}
	app := &EnvOps{rep: vh.NewReport("scratch", 0), r: r} // application-side creation of envelopes (ops of C01's own domains)
	combos := len(c01chainFlavours) * len(c01chainForms)
	offset := r.Intn(combos)
	// after the n scenarios of the flavour x form table: plaintexts that begin like a serialized container
	// (c01Lookalike: id x declared length x tail), every column flavour in turn
	nLook := n/9 + 10
	lookOff := r.Intn(c01LookalikeCombos)
	for sc := 0; sc < n+nLook; sc++ {
		k := (sc + offset) % combos
		f := c01chainFlavours[k%len(c01chainFlavours)] // copy
		form := c01chainForms[(k/len(c01chainFlavours))%len(c01chainForms)]
		if sc >= n {
			form = "lookalike"
			f = c01chainFlavours[(sc-n+offset)%len(c01chainFlavours)]
		}
		owner := vh.NewKeySet(r, 1+r.Intn(2), 1+r.Intn(2), true)
		other := vh.NewKeySet(r, 1, 1, true)
		keys := vh.NewMemKeystore()
		keys.Clients[c01chainOwner], keys.Clients[c01chainOther] = owner, other
		// ---- the original plaintext and the form in which it reaches the chain
		var x []byte
		class := form
		switch form {
		case "tags":
			x, class = c01chainTagged(r)
		case "hashlike": // function id of hmac.GenerateHMAC first, at least a hash long
			x = append([]byte{0x7f}, r.Bytes(32+r.Intn(60))...)
			if r.Bool() {
				x = append(x[:33:33], c01chainPlain(r)...)
			}
		case "empty":
			x = nil
		case "lookalike":
			var real []byte
			if c := app.EncHandler("", c01LookIDs[r.Intn(len(c01LookIDs))], owner, c01chainPlain(r)); c.Kind == "ok" {
				real = c.Vals[0]
			}
			x, class = c01Lookalike(r, real, lookOff+5*(sc-n))
			if c01IsProtectedValue(x) { // by accident a well-formed envelope: not this family
				x, class = c01chainPlain(r), "plain"
			}
		default:
			x = c01chainPlain(r)
			if r.Intn(3) == 0 {
				x, _ = c01chainTagged(r)
			}
		}
		in := x
		who := owner
		kindOf := form
		if form == "other" {
			who = other
			kindOf = []string{"raw-as", "raw-ab", "cont-as", "cont-ab"}[r.Intn(4)]
			class = "other-" + kindOf
		}
		var c vh.Outcome
		switch kindOf {
		case "raw-as":
			c = app.AsCreate("", x, who.Pub(0), nil)
		case "raw-ab":
			c = app.AbCreate("", x, who.Syms[0], nil)
		case "cont-as":
			c = app.EncHandler("", crypto.AcraStructEnvelopeID, who, x)
		case "cont-ab":
			c = app.EncHandler("", crypto.AcraBlockEnvelopeID, who, x)
		default:
			c = vh.Ok(x)
		}
		if c.Kind != "ok" {
			rep.Violate("harness-error", "application-side envelope creation failed: "+c.String(), form)
			continue
		}
		in = c.Vals[0]
		protected := kindOf != form || strings.HasPrefix(form, "raw-") || strings.HasPrefix(form, "cont-")
		if f.mask {
			f.pattern = c01chainPatterns[r.Intn(len(c01chainPatterns))]
			f.plen = r.Pick(0, 1, 2, 33, 40, len(in)/2, len(in)-1, len(in), len(in)+1, r.Intn(len(in)+2))
			if form == "hashlike" && r.Intn(4) != 0 { // the clear window holds at least what hmac.ExtractHash takes for an index
				f.plen = r.Pick(20, 21, 22, 32, 33, 34, 33+r.Intn(len(in)-33), len(in)-1)
			}
			if f.plen < 0 {
				f.plen = 0
			}
		}
		schema := c01chainSchema{tok: r.Intn(3) == 0, search: f.search || r.Bool(), mask: f.mask || r.Bool()}
		rep.Count("flavour:" + f.name)
		rep.Count("form:" + class)
		rep.Count("schema:" + schema.coq())
		yaml := c01chainYAML(&f, schema)
		head := fmt.Sprintf("scenario %d (seed %d) flavour=%s form=%s\nencryptor config:\n%s", sc, rep.Seed, f.name, class, yaml)
		rig, err := x11rig.New(keys, []byte(yaml), nil)
		if err != nil {
			rep.Violate("harness-error", "rig: "+err.Error(), head)
			continue
		}
		setting := rig.Schema.GetTableSchema("t").GetColumnEncryptionSettings("v")
		if setting == nil {
			rep.Violate("harness-error", "no setting for column v", head)
			continue
		}
		// ---- the chains of the factory-built proxy (PostgreSQL or MySQL; they must be the same lists)
		useMy := r.Intn(3) == 0
		var p *x11rig.Proxy
		var chains []encryptor.DataEncryptor
		var coreSubs []base.DecryptionSubscriber
		if useMy {
			p, err = rig.OpenMy([]byte(c01chainOwner))
			if err == nil {
				chains = mysql.VerifS55WriteChain(p.P)
				coreSubs = c01chainCore(p.MySubscribers(), "DataDecoderProcessor", "DataEncoderProcessor")
			}
			rep.Count("db:mysql")
		} else {
			p, err = rig.OpenPg([]byte(c01chainOwner))
			if err == nil {
				chains = postgresql.VerifS55WriteChain(p.P)
				coreSubs = c01chainCore(p.PgSubscribers(), "PgSQLDataDecoderProcessor", "PgSQLDataEncoderProcessor")
			}
			rep.Count("db:postgresql")
		}
		if err != nil {
			rep.Violate("harness-error", "proxyFactory.New: "+err.Error(), head)
			continue
		}
		rep.OracleChecks++
		var chain *encryptor.ChainDataEncryptor
		if len(chains) == 1 {
			chain, _ = chains[0].(*encryptor.ChainDataEncryptor)
		}
		if chain == nil || c01chainTypes(chain.VerifS55Encryptors()) != schema.wantWrite() || strings.Join(x11rig.IDs(coreSubs), ";") != schema.wantCore() {
			got := "<none>"
			if chain != nil {
				got = c01chainTypes(chain.VerifS55Encryptors())
			}
			all := p.PgSubscribers
			if useMy {
				all = p.MySubscribers
			}
			rep.Violate("chain-shape", fmt.Sprintf("write chain [%s] (want [%s]) / subscribers %v (want core [%s]) differ from the modelled composition", got, schema.wantWrite(), x11rig.IDs(all()), schema.wantCore()), head)
			p.Close()
			continue
		}
		lab := fmt.Sprintf("sc%d %s %s len=%d", sc, f.name, class, len(in))
		replay := func(stored []byte, extra string) string {
			return head + fmt.Sprintf("original plaintext x=%s\nvalue written   in=%s\nstored            =%s\n%s", hex.EncodeToString(x), hex.EncodeToString(in), hex.EncodeToString(stored), extra)
		}
		// ---- write
		w := u.write(lab+" write", chain, schema, &f, setting, owner, in)
		rep.OracleChecks++
		if w.Kind == "panic" {
			rep.Violate("chain-protect-panic", "the write chain panicked: "+w.Msg, replay(nil, ""))
			p.Close()
			continue
		}
		if w.Kind == "err" {
			// an empty value cannot be protected; a value protected for somebody else may be refused
			if form != "empty" && form != "other" {
				rep.Violate("chain-protect-error", "the write chain refused the value: "+w.Msg, replay(nil, ""))
			}
			rep.Count("write:refused")
			p.Close()
			continue
		}
		stored := w.Vals[0]
		// what the owner must get back, and whether it must be marked decrypted
		want, wantDec := x, true
		// a masked column with 0 < plaintext_length < len(value) cuts the value into window and hidden part
		cut := f.mask && 0 < f.plen && f.plen < len(in)
		judged := true
		switch {
		case form == "other" && f.mask:
			judged = false // the reader is not the owner of that envelope: he gets the masked view (property C11)
		case form == "other":
			want, wantDec = in, false
		}
		if len(want) == 0 {
			wantDec = false
		}
		// a plaintext (whatever its first bytes look like) is not stored in clear: only a masked column keeps a clear window
		if !protected && !f.mask && len(in) >= 16 && len(bytes.Trim(in, string(in[:1]))) != 0 {
			rep.OracleChecks++
			if bytes.Contains(stored, in) {
				rep.Violate("chain-plaintext-stored-in-clear", "the write chain stored a plaintext that is not a protected value unencrypted", replay(stored, ""))
			}
		}
		// a protected value is not wrapped a second time: it is stored as it is, behind its index in a searchable column
		if protected && !cut {
			rep.OracleChecks++
			reenc := f.envAB && f.reenc && f.kind() == "plain" && strings.HasSuffix(kindOf, "-as")
			switch {
			case reenc: // AcraStruct re-encrypted into an AcraBlock: checked by the reveal below
			case f.search:
				if len(stored) != len(in)+33 || !bytes.Equal(stored[33:], in) {
					rep.Violate("chain-double-wrap", "searchable column: a protected value was not stored as <index><same envelope>", replay(stored, ""))
				}
			default:
				if !bytes.Equal(stored, in) {
					rep.Violate("chain-double-wrap", "a protected value was not passed through unchanged", replay(stored, ""))
				}
			}
		}
		// writing the stored value again stores the same value
		if f.kind() != "mask" && form != "other" {
			again := u.write(lab+" write stored value again", chain, schema, &f, setting, owner, stored)
			rep.OracleChecks++
			if again.Kind != "ok" || !bytes.Equal(again.Vals[0], stored) {
				class := "chain-reprotect"
				if f.search {
					class = "searchable-stored-value-rewrapped"
				}
				rep.Violate(class, "writing the stored value again did not store the same value: "+c01chainShort(again), replay(stored, ""))
			}
		}
		// keys may rotate between write and read
		if r.Bool() {
			rotate(r, owner)
			rep.Count("rotated")
		}
		// ---- reveal as the owner: subscribers between decoder and encoder
		judge := func(how string, got []byte, dec, haveDec bool, o vh.Outcome) {
			if !judged {
				return
			}
			rep.OracleChecks++
			if protected && cut {
				// the envelope was cut by the masking encryptor: at least the bytes written must come back
				if o.Kind != "ok" || !(bytes.Equal(got, x) || bytes.Equal(got, in)) {
					rep.Violate("masked-column-cuts-protected-value", fmt.Sprintf("%s: masked column, value that already is a protected value, 0 < plaintext_length < len(value): the owner got neither the plaintext nor the bytes written: %s", how, c01chainShort(o)), replay(stored, ""))
				}
				return
			}
			if (o.Kind != "ok" || !bytes.Equal(got, want)) && f.mask && f.side == "left" && schema.search && f.plen >= 21 && f.plen < len(in) && in[0] == 0x7f {
				rep.Violate("masked-window-taken-for-index", fmt.Sprintf("%s: masked column with a clear left window of >= 21 bytes (33 minus the 12-byte container header) that starts with 0x7f, in a schema that has a searchable column: the owner got the value as stored instead of the original: %s", how, c01chainShort(o)), replay(stored, ""))
				return
			}
			if o.Kind != "ok" || !bytes.Equal(got, want) {
				rep.Violate("chain-roundtrip", fmt.Sprintf("%s: the owner did not get the original back (want %d bytes %s): %s", how, len(want), hx(want), c01chainShort(o)), replay(stored, ""))
				return
			}
			if haveDec && dec != wantDec {
				rep.Violate("chain-not-marked", fmt.Sprintf("%s: value delivered with decrypted mark %v, want %v", how, dec, wantDec), replay(stored, ""))
			}
		}
		o := u.core(lab+" core subscribers", coreSubs, p.ColumnCtx(setting), schema, &f, owner, stored)
		if o.Kind == "ok" {
			judge("column subscribers", o.Vals[0], o.Vals[1][0] == 1, true, o)
		} else {
			judge("column subscribers", nil, false, false, o)
		}
		// ---- reveal through PgProxy.onColumnDecryption (text format: bytea hex; binary format: the bytes)
		if !useMy {
			if r.Intn(3) != 0 {
				txt := c11oldHex(stored)
				o := u.pg(lab+" onColumnDecryption text", p, schema, &f, setting, owner, false, txt)
				// the delivered text is bytea hex when the value was revealed, the text as stored otherwise
				if o.Kind == "ok" && bytes.HasPrefix(o.Vals[0], []byte(`\x`)) {
					raw, herr := hex.DecodeString(string(o.Vals[0][2:]))
					if herr != nil {
						raw = o.Vals[0]
					}
					judge("onColumnDecryption (text)", raw, false, false, o)
				} else if o.Kind == "ok" {
					judge("onColumnDecryption (text)", o.Vals[0], false, false, o)
				} else {
					judge("onColumnDecryption (text)", nil, false, false, o)
				}
				if judged && !(protected && cut) && o.Kind == "ok" && !wantDec && len(want) > 0 && !bytes.Equal(o.Vals[0], txt) {
					rep.Violate("chain-roundtrip", "onColumnDecryption (text): a value that was not revealed was not delivered as stored: "+c01chainShort(o), replay(stored, ""))
				}
			} else {
				o := u.pg(lab+" onColumnDecryption binary", p, schema, &f, setting, owner, true, stored)
				if o.Kind == "ok" {
					judge("onColumnDecryption (binary)", o.Vals[0], false, false, o)
				} else {
					judge("onColumnDecryption (binary)", nil, false, false, o)
				}
			}
		}
		p.Close()
	}
}
