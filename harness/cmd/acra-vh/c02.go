package main

import (
	"bytes"
	"context"
	"encoding/hex"
	"fmt"

	"acra-vh/vh"

	"github.com/cossacklabs/acra/cmd/acra-translator/common"
	"github.com/cossacklabs/acra/crypto"
	"github.com/cossacklabs/acra/decryptor/base"
	"github.com/cossacklabs/acra/encryptor/base/config"
)

func init() { register("c02", "Model.RunEnvelope", runC02) }

// X2 runs envelope entry points of the real code over ONE keystore holding SEVERAL clients, under an
// explicit acting identity. The model op carries the keyset the acting identity resolves to.
type X2 struct {
	rep   *vh.Report
	r     *vh.Rng
	store *vh.MemKeystore
}

func (e *X2) ks(id string) *vh.KeySet { return e.store.Clients[id] }

func ctxFor(id string) context.Context {
	return base.SetAccessContextToContext(context.Background(), base.NewAccessContext(base.WithClientID([]byte(id))))
}

func (e *X2) tape(f func() vh.Outcome) (vh.Outcome, [][]byte) {
	t := vh.StartTape(e.r)
	defer vh.StopTape()
	o := vh.Guard(f)
	return o, t.Chunks
}

// protect for `owner` through entry point `entry` (0 EncryptWithHandler, 1 EncryptWithClientID, 2 translator)
func (e *X2) Protect(label string, entry int, id byte, owner string, data []byte) vh.Outcome {
	rh := crypto.NewRegistryHandler(e.store)
	d := append([]byte{}, data...)
	o, tape := e.tape(func() vh.Outcome {
		switch entry {
		case 0:
			return one(rh.EncryptWithHandler(handlerByID(id), []byte(owner), d))
		case 1:
			env := config.CryptoEnvelopeTypeAcraStruct
			if id == crypto.AcraBlockEnvelopeID {
				env = config.CryptoEnvelopeTypeAcraBlock
			}
			return one(rh.EncryptWithClientID([]byte(owner), d, envSetting{env: env}))
		}
		svc := e.translator()
		if id == crypto.AcraStructEnvelopeID {
			return one(svc.Encrypt(context.Background(), d, []byte(owner), nil))
		}
		return one(svc.EncryptSym(context.Background(), d, []byte(owner), nil))
	})
	e.rep.Add(label, fmt.Sprintf("EncHandler %s %s %s %s", vh.H([]byte{id}), e.ks(owner).Coq(), vh.HL(tape), vh.H(data)), o)
	return o
}

func (e *X2) translator() *common.TranslatorService {
	svc, err := common.NewTranslatorService(&common.TranslatorData{Keystorage: e.store})
	if err != nil {
		panic(err)
	}
	return svc
}

func (e *X2) ProtectSearchable(label string, id byte, owner string, data []byte) vh.Outcome {
	svc := e.translator()
	d := append([]byte{}, data...)
	o, tape := e.tape(func() vh.Outcome {
		var resp common.SearchableResponse
		var err error
		if id == crypto.AcraStructEnvelopeID {
			resp, err = svc.EncryptSearchable(context.Background(), d, []byte(owner), nil)
		} else {
			resp, err = svc.EncryptSymSearchable(context.Background(), d, []byte(owner), nil)
		}
		if err != nil {
			return vh.ErrO(err)
		}
		return vh.Ok(resp.EncryptedData, resp.Hash)
	})
	e.rep.Add(label, fmt.Sprintf("TrEncSearch %s %s %s %s", vh.H([]byte{id}), e.ks(owner).Coq(), vh.HL(tape), vh.H(data)), o)
	return o
}

func (e *X2) DecHandler(label string, id byte, actor string, data []byte) vh.Outcome {
	rh := crypto.NewRegistryHandler(e.store)
	o := vh.Guard(func() vh.Outcome {
		return one(rh.DecryptWithHandler(handlerByID(id), append([]byte{}, data...), &base.DataProcessorContext{Keystore: e.store, Context: ctxFor(actor)}))
	})
	e.rep.Add(label, fmt.Sprintf("DecHandler %s %s %s", vh.H([]byte{id}), e.ks(actor).Coq(), vh.H(data)), o)
	return o
}

func (e *X2) TrDecrypt(label string, id byte, actor string, data []byte) vh.Outcome {
	svc := e.translator()
	o := vh.Guard(func() vh.Outcome {
		if id == crypto.AcraStructEnvelopeID {
			return one(svc.Decrypt(context.Background(), append([]byte{}, data...), []byte(actor), nil))
		}
		return one(svc.DecryptSym(context.Background(), append([]byte{}, data...), []byte(actor), nil))
	})
	e.rep.Add(label, fmt.Sprintf("DecHandler %s %s %s", vh.H([]byte{id}), e.ks(actor).Coq(), vh.H(data)), o)
	return o
}

func (e *X2) TrDecSearch(label string, id byte, actor string, data, hash []byte) vh.Outcome {
	svc := e.translator()
	o := vh.Guard(func() vh.Outcome {
		var h []byte
		if hash != nil {
			h = append([]byte{}, hash...)
		}
		if id == crypto.AcraStructEnvelopeID {
			return one(svc.DecryptSearchable(context.Background(), append([]byte{}, data...), h, []byte(actor), nil))
		}
		return one(svc.DecryptSymSearchable(context.Background(), append([]byte{}, data...), h, []byte(actor), nil))
	})
	e.rep.Add(label, fmt.Sprintf("TrDecSearch %s %s %s %s", vh.H([]byte{id}), e.ks(actor).Coq(), vh.H(data), vh.HOpt(hash)), o)
	return o
}

func (e *X2) Process(label string, actor string, data []byte) vh.Outcome {
	rh := crypto.NewRegistryHandler(e.store)
	o := vh.Guard(func() vh.Outcome {
		return one(rh.Process(append([]byte{}, data...), &base.DataProcessorContext{Keystore: e.store, Context: ctxFor(actor)}))
	})
	e.rep.Add(label, fmt.Sprintf("Process %s %s", e.ks(actor).Coq(), vh.H(data)), o)
	return o
}

func (e *X2) OnColumn(label string, actor string, data []byte) vh.Outcome {
	det := crypto.NewEnvelopeDetector()
	det.AddCallback(crypto.NewDecryptHandler(e.store, crypto.NewRegistryHandler(e.store)))
	o := vh.Guard(func() vh.Outcome {
		ctx, out, err := det.OnColumn(ctxFor(actor), append([]byte{}, data...))
		if err != nil {
			return vh.ErrO(err)
		}
		f := byte(0)
		if base.IsDecryptedFromContext(ctx) {
			f = 1
		}
		return vh.Ok(out, []byte{f})
	})
	e.rep.Add(label, fmt.Sprintf("OnColumn %s %s", e.ks(actor).Coq(), vh.H(data)), o)
	return o
}

// client id pairs the property names: prefixes/suffixes of each other and of the keystore name suffixes
var idPairs = [][2]string{
	{"client", "clientb"}, {"clientb", "client"}, {"a", "a_storage"}, {"a_storage", "a"}, {"a", "a_storage_sym"},
	{"a_storage_sym", "a"}, {"a", "b"}, {"b", "a"}, {"client", "b"}, {"b", "clientb"}, {"a_sym", "a"}, {"client", "Client"},
}

func sharesKey(a, b *vh.KeySet) bool {
	for _, x := range a.Syms {
		for _, y := range b.Syms {
			if bytes.Equal(x, y) {
				return true
			}
		}
	}
	for _, x := range a.Seeds {
		for _, y := range b.Seeds {
			if bytes.Equal(x, y) {
				return true
			}
		}
	}
	return false
}

// runC02: protect for A through every entry point, ask for the value under identity B through every reveal
// entry point, for generated key histories of both sides.
// Oracle (independent of the model): under B the answer is an error, or (column path) the column unchanged;
// an Ok result whose bytes equal / contain A's plaintext is a `cross-client-reveal`.
func runC02(rep *vh.Report, r *vh.Rng, n int, thorough bool) {
	var pool [][]byte
	for sc := 0; sc < n; sc++ {
		pair := idPairs[r.Intn(len(idPairs))]
		if r.Intn(5) == 0 {
			a := fmt.Sprintf("c%x", r.Bytes(1+r.Intn(6)))
			pair = [2]string{a, a + string("_x"[r.Intn(2)]) + fmt.Sprintf("%x", r.Bytes(r.Intn(3)))}
			if r.Bool() {
				pair[0], pair[1] = pair[1], pair[0]
			}
		}
		A, B := pair[0], pair[1]
		rep.Count("pair:" + A + "/" + B)
		store := vh.NewMemKeystore()
		maxHist := 3
		if thorough {
			maxHist = 6
		}
		ksA := vh.NewKeySet(r, 1+r.Intn(maxHist), 1+r.Intn(maxHist), true)
		ksB := vh.NewKeySet(r, r.Intn(maxHist+1), r.Intn(maxHist+1), r.Intn(4) != 0) // B may lack some key kinds entirely
		store.Clients[A], store.Clients[B] = ksA, ksB
		rep.Count(fmt.Sprintf("histA:%d/%d", len(ksA.Seeds), len(ksA.Syms)))
		rep.Count(fmt.Sprintf("histB:%d/%d", len(ksB.Seeds), len(ksB.Syms)))
		e := &X2{rep, r, store}
		x, class := genPlain(r, pool, thorough)
		if len(x) == 0 {
			x = []byte{byte(sc)}
		}
		rep.Count("plain:" + class)
		id := byte(crypto.AcraStructEnvelopeID)
		if r.Bool() {
			id = crypto.AcraBlockEnvelopeID
		}
		lab := fmt.Sprintf("sc%d A=%s B=%s %s id=%02x len=%d", sc, A, B, class, id, len(x))
		entry := r.Intn(4)
		rep.Count(fmt.Sprintf("protect-entry:%d", entry))
		var v, hash []byte
		if entry == 3 {
			p := e.ProtectSearchable(lab+" A:EncryptSearchable", id, A, x)
			if p.Kind != "ok" {
				continue
			}
			v, hash = p.Vals[0], p.Vals[1]
		} else {
			p := e.Protect(lab+fmt.Sprintf(" A:protect%d", entry), entry, id, A, x)
			if p.Kind != "ok" {
				continue
			}
			v = p.Vals[0]
		}
		if bytes.Equal(v, x) {
			rep.Count("passthrough") // x already was somebody's protected value: nothing was protected for A
			continue
		}
		pool = append(pool, v)
		if len(pool) > 40 {
			pool = pool[1:]
		}
		// key history moves on, on either side, between write and read
		if r.Bool() {
			rotate(r, ksA)
		}
		if r.Bool() {
			c02Rotate(r, ksB)
		}
		// control: B is given A's key at a random position of its history => the value MUST be revealed
		// (shows the oracle is live and that the reduction's "shared key" disjunct is real)
		control := r.Intn(6) == 0
		if control {
			rep.Count("control:shared-key")
			if id == crypto.AcraBlockEnvelopeID {
				// the key A protected with was Syms[0] at protect time; after rotation it moved down: share all of A's
				pos := r.Intn(len(ksB.Syms) + 1)
				ksB.Syms = append(append(append([][]byte{}, ksB.Syms[:pos]...), ksA.Syms...), ksB.Syms[pos:]...)
			} else {
				pos := r.Intn(len(ksB.Seeds) + 1)
				ksB.Seeds = append(append(append([][]byte{}, ksB.Seeds[:pos]...), ksA.Seeds...), ksB.Seeds[pos:]...)
			}
		}
		shared := sharesKey(ksA, ksB)
		verdict := func(what string, o vh.Outcome) {
			rep.OracleChecks++
			if o.Kind == "panic" {
				rep.Violate("reveal-panic", what+" under the other identity panicked: "+o.Msg, lab+" v="+hex.EncodeToString(v))
				return
			}
			if shared {
				// searchable decryption also verifies the hash under B's OWN HMAC key, which B does not share with A:
				// an error is the correct answer there, so the control only applies to the plain entry points
				if what != "translator.DecryptSearchable" && (o.Kind != "ok" || !bytes.Equal(o.Vals[0], x)) {
					rep.Violate("control-not-revealed", what+": identity holding the owner's key did not get the value (oracle control)", lab)
				}
				return
			}
			if o.Kind == "ok" {
				cls := "cross-client-result"
				if bytes.Equal(o.Vals[0], x) || (len(x) >= 4 && bytes.Contains(o.Vals[0], x)) {
					cls = "cross-client-reveal"
				}
				rep.Violate(cls, what+" under identity "+B+" answered Ok for a value protected for "+A+": "+hx(o.Vals[0]),
					lab+" x="+hex.EncodeToString(x)+" v="+hex.EncodeToString(v))
			}
		}
		verdict("DecryptWithHandler", e.DecHandler(lab+" B:DecryptWithHandler", id, B, v))
		verdict("Process", e.Process(lab+" B:Process", B, v))
		verdict("translator.Decrypt", e.TrDecrypt(lab+" B:translator.Decrypt", id, B, v))
		if hash != nil {
			if r.Bool() {
				verdict("translator.DecryptSearchable", e.TrDecSearch(lab+" B:DecryptSearchable(hash arg)", id, B, v, hash))
			} else {
				verdict("translator.DecryptSearchable", e.TrDecSearch(lab+" B:DecryptSearchable(joined)", id, B, append(append([]byte{}, hash...), v...), nil))
			}
		}
		// wrong-handler request under B (translator Decrypt on a symmetric container and vice versa)
		if sc%3 == 0 {
			other := byte(crypto.AcraStructEnvelopeID)
			if id == other {
				other = crypto.AcraBlockEnvelopeID
			}
			o := e.DecHandler(lab+" B:DecryptWithHandler(other handler)", other, B, v)
			rep.OracleChecks++
			if o.Kind == "ok" && bytes.Equal(o.Vals[0], x) && !shared {
				rep.Violate("cross-client-reveal", "other-handler request under "+B+" revealed the value", lab)
			}
		}
		// transparent column processing under B
		pre, suf := genAffix(r), genAffix(r)
		col := append(append(append([]byte{}, pre...), v...), suf...)
		oc := e.OnColumn(lab+fmt.Sprintf(" B:OnColumn pre=%s suf=%s", hx(pre), hx(suf)), B, col)
		rep.OracleChecks++
		switch {
		case oc.Kind == "panic":
			rep.Violate("reveal-panic", "OnColumn under the other identity panicked: "+oc.Msg, lab+" col="+hex.EncodeToString(col))
		case shared:
			if oc.Kind != "ok" || !bytes.Contains(oc.Vals[0], x) {
				rep.Violate("control-not-revealed", "OnColumn: identity holding the owner's key did not get the value (oracle control)", lab)
			}
		case oc.Kind != "ok" || !bytes.Equal(oc.Vals[0], col) || oc.Vals[1][0] != 0:
			cls := "cross-client-column-changed"
			if oc.Kind == "ok" && len(x) >= 4 && bytes.Contains(oc.Vals[0], x) && !bytes.Contains(col, x) {
				cls = "cross-client-reveal"
			}
			rep.Violate(cls, "OnColumn under identity "+B+" did not hand the stored column back unchanged: "+oc.String()[:min(200, len(oc.String()))],
				lab+" x="+hex.EncodeToString(x)+" col="+hex.EncodeToString(col))
		}
		// the owner still reads it (the scenario is not vacuous)
		own := e.DecHandler(lab+" A:DecryptWithHandler", id, A, v)
		rep.OracleChecks++
		if own.Kind != "ok" || !bytes.Equal(own.Vals[0], x) {
			rep.Violate("owner-cannot-read", "owner did not get the value back: "+own.String()[:min(200, len(own.String()))], lab)
		}
		// library level with B's raw key lists
		if sc%2 == 0 {
			e0 := &EnvOps{rep, r}
			ctx := r.Bytes(r.Intn(6))
			if id == crypto.AcraBlockEnvelopeID {
				b := e0.AbCreate(lab+" A:CreateAcraBlock", x, ksA.Syms[0], ctx)
				if b.Kind == "ok" && len(ksB.Syms) > 0 {
					verdict("AcraBlock.Decrypt", e0.AbDecrypt(lab+" B:AcraBlock.Decrypt", b.Vals[0], ksB.Syms, ctx))
				}
			} else {
				c := e0.AsCreate(lab+" A:CreateAcrastruct", x, ksA.Pub(0), ctx)
				if c.Kind == "ok" && len(ksB.Seeds) > 0 {
					var privs [][]byte
					for i := range ksB.Seeds {
						privs = append(privs, ksB.Priv(i))
					}
					verdict("DecryptRotatedAcrastruct", e0.AsDecrypt(lab+" B:DecryptRotatedAcrastruct", c.Vals[0], privs, ctx))
				}
			}
		}
	}
}

// c02Rotate: rotate() for a key set that may lack symmetric keys entirely (ksB): rotate's "newer key with the same
// 2-byte key id as the key in use" case indexes Syms[0] and crashed the harness for such a key set (seed 2).
// Same draws as rotate; the colliding-key case adds nothing when there is no key in use.
func c02Rotate(r *vh.Rng, ks *vh.KeySet) {
	if len(ks.Syms) > 0 {
		rotate(r, ks)
		return
	}
	if r.Bool() {
		ks.Seeds = append([][]byte{r.Bytes(32)}, ks.Seeds...)
	}
	if r.Intn(4) < 2 {
		ks.Syms = append([][]byte{r.Bytes(32)}, ks.Syms...)
	}
}
