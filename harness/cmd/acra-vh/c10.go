package main

// C10: tokens are format-preserving, reversible for the owner, and consistent.
// The REAL pseudonymization tokenizer runs over the memory and BoltDB stores, with and without the
// encrypting wrapper, through the typed API, TranslatorService.Tokenize/Detokenize and DataTokenizer.
// Besides the random histories, every token type x store kind gets the maintenance families
// "tokenize -> acra-tokens disable -> tokenize again -> enable -> tokenize -> detokenize" and
// "tokenize -> remove -> tokenize twice -> detokenize" (c10MaintenanceFamilies), and e-mail values of
// every length around the generator's thresholds are tokenized with every TLD index forced through the
// tape (c10EmailSweep, c10email.go - also home of the e-mail shape oracle).
// A scenario (history on an empty store) is one case replayed on Model.RunTokens; the oracles below
// judge the implementation on their own (shape, reversibility, foreign client, consistency - also
// under chosen interleavings of concurrent calls -, two values one token).

import (
	"bytes"
	"encoding/binary"
	"encoding/hex"
	"fmt"
	"math/big"
	"os"
	"path/filepath"
	"strings"

	"acra-vh/vh"

	trcommon "github.com/cossacklabs/acra/cmd/acra-translator/common"
	"github.com/cossacklabs/acra/encryptor/base/config"
	"github.com/cossacklabs/acra/pseudonymization"
	"github.com/cossacklabs/acra/pseudonymization/common"
	"github.com/cossacklabs/acra/pseudonymization/storage"
	bolt "go.etcd.io/bbolt"
)

func init() { register("c10", "Model.RunTokens", runC10) }

const (
	tInt32 = iota
	tInt64
	tStr
	tBytes
	tEmail
)

var (
	ttCoq = []string{"TInt32", "TInt64", "TStr", "TBytes", "TEmail"}
	ttGo  = []common.TokenType{common.TokenType_Int32, common.TokenType_Int64, common.TokenType_String, common.TokenType_Bytes, common.TokenType_Email}
	ttCfg = []string{"int32", "int64", "str", "bytes", "email"}
)

type tctx struct{ cl, ac []byte }

func (c tctx) tc() common.TokenContext {
	return common.TokenContext{ClientID: c.cl, AdditionalContext: c.ac}
}
func (c tctx) coq() string { return fmt.Sprintf("(mkc %s %s)", vh.H(c.cl), vh.H(c.ac)) }
func (c tctx) key() string { return hex.EncodeToString(c.cl) + "/" + hex.EncodeToString(c.ac) }
func (c tctx) String() string {
	return fmt.Sprintf("client=%q zone=%q", c.cl, c.ac)
}

// typed value <-> encodeToBytes representation
func toGo(ty int, enc []byte) interface{} {
	switch ty {
	case tInt32:
		return int32(binary.LittleEndian.Uint32(enc))
	case tInt64:
		return int64(binary.LittleEndian.Uint64(enc))
	case tStr:
		return string(enc)
	case tEmail:
		return common.Email(enc)
	}
	return append([]byte{}, enc...)
}
func fromGo(ty int, v interface{}) ([]byte, bool) {
	switch ty {
	case tInt32:
		x, ok := v.(int32)
		b := make([]byte, 4)
		binary.LittleEndian.PutUint32(b, uint32(x))
		return b, ok
	case tInt64:
		x, ok := v.(int64)
		b := make([]byte, 8)
		binary.LittleEndian.PutUint64(b, uint64(x))
		return b, ok
	case tStr:
		x, ok := v.(string)
		return []byte(x), ok
	case tEmail:
		x, ok := v.(common.Email)
		return []byte(x), ok
	}
	x, ok := v.([]byte)
	return append([]byte{}, x...), ok
}
func i32(x int32) []byte { b := make([]byte, 4); binary.LittleEndian.PutUint32(b, uint32(x)); return b }
func i64(x int64) []byte { b := make([]byte, 8); binary.LittleEndian.PutUint64(b, uint64(x)); return b }

// shapeProblem is the format-preservation oracle ("" = fine).
func shapeProblem(ty int, v, tok []byte) string {
	charset := pseudonymization.VerifCharset()
	inCharset := func(b []byte) bool {
		for _, c := range b {
			if !strings.ContainsRune(charset, rune(c)) || c >= 0x80 {
				return false
			}
		}
		return true
	}
	switch ty {
	case tInt32:
		if len(tok) != 4 {
			return "int32 token is not an int32"
		}
	case tInt64:
		if len(tok) != 8 {
			return "int64 token is not an int64"
		}
	case tBytes:
		if len(tok) != len(v) {
			return fmt.Sprintf("bytes token length %d != value length %d", len(tok), len(v))
		}
	case tStr:
		if len(tok) != len(v) || !inCharset(tok) {
			return fmt.Sprintf("string token %q does not have the length/alphabet for a %d byte value", tok, len(v))
		}
	case tEmail:
		return c10EmailShapeProblem(v, tok) // c10email.go: the full "e-mail shaped" statement
	}
	return ""
}

// ---------- one scenario ----------

type tokIssued struct {
	ty     int
	c      tctx
	v, tok []byte
	chunks [][]byte
}

type tokEnv struct {
	rep     *vh.Report
	r       *vh.Rng
	cfg     string
	st      *vh.TokStore
	tk      common.Pseudoanonymizer
	dt      *pseudonymization.DataTokenizer
	svc     *trcommon.TranslatorService
	ops     []string
	outs    [][]byte
	desc    []string
	issued  map[string][]byte // ctx|ty|token -> value
	// consistency oracle: ctx|ty|value -> the oracle's own shadow of the value->token ("h.") record
	// (token handed out, stored length, disabled flag); see c10Cons / consistRule
	consist map[string]*c10Cons
	hist    []tokIssued
	// maintenance seen so far (weakens the reversibility / two-values oracles, see below)
	disabledSince bool           // some record may be disabled right now
	issuedAt      map[string]int // ctx|ty|token -> position in the history where it was FIRST issued (markIssued)
	removedAt     int            // position of the last maintenance pass that removed records (-1: none)
	dtForced      [][]byte       // draws forced on the next DataTokenizer.Tokenize call (c10EmailSweep)
}

// c10Cons is what the consistency oracle remembers about one (context, type, value): the token that the
// last successful consistent tokenization returned, and - kept by the oracle itself from the maintenance
// passes it issued, never read back from the store - the length of the stored value->token record and
// whether a maintenance pass disabled it.
//
// THE RULE (class "inconsistent-token"): within one client context and token type, every successful
// consistent tokenization of a value must return the token of the previous successful consistent
// tokenization of that value - across any number of enable/disable maintenance passes and no matter
// whether the record is disabled at that moment (while disabled an error is acceptable, a different
// token is not) - unless a maintenance pass in between applied TokenRemove to the value->token record
// of that value; then the claim starts again with the next token handed out.
// This is C10_consistent_same_token (every event list with enable/disable maintenance, premise
// no_remove) together with C10_consistency_needs_no_removal_refuted (removal does change the token).
type c10Cons struct {
	tok      []byte
	hlen     int // data length of the h-record as VisitMetadata reports it without the encrypting wrapper
	disabled bool
}

// removedSince: was the token (ctx|ty|token key) issued before the last removing maintenance pass?
func (e *tokEnv) removedSince(tokKey string) bool {
	at, ok := e.issuedAt[tokKey]
	return e.removedAt >= 0 && (!ok || at <= e.removedAt)
}

// typed <-> column text form of a token (decimal for the integer types)
func c10Text(ty int, typed []byte) []byte {
	switch ty {
	case tInt32:
		return []byte(fmt.Sprint(int32(binary.LittleEndian.Uint32(typed))))
	case tInt64:
		return []byte(fmt.Sprint(int64(binary.LittleEndian.Uint64(typed))))
	}
	return typed
}
func c10Typed(ty int, text []byte) []byte {
	if ty == tInt32 || ty == tInt64 {
		z, ok := parseDecimal(text)
		if !ok {
			return text
		}
		if ty == tInt32 {
			return i32(int32(z.Int64()))
		}
		return i64(z.Int64())
	}
	return text
}

// markIssued remembers when a token was FIRST handed out (typed and column-text bookkeeping share the
// stored records). A consistent call that reads an old token back does not refresh the position: its
// token record may have been removed by an earlier partial maintenance pass, about which the
// reversibility oracle makes no claim.
func (e *tokEnv) markIssued(c tctx, ty int, typed []byte) {
	for _, k := range []string{ikey(c, ty, typed), "dt|" + ikey(c, ty, c10Text(ty, typed))} {
		if _, ok := e.issuedAt[k]; !ok {
			e.issuedAt[k] = len(e.desc)
		}
	}
}

// consistRule applies THE RULE to a successful consistent tokenization.
func (e *tokEnv) consistRule(key string, tok []byte, hlen int, desc string) {
	e.rep.OracleChecks++
	if old, ok := e.consist[key]; ok {
		if !bytes.Equal(old.tok, tok) {
			state := "enabled"
			if old.disabled {
				state = "DISABLED by maintenance"
			}
			e.violate("inconsistent-token", fmt.Sprintf("%s: consistent tokenization returned %x, but the value already has the token %x in this context (its value->token record was never removed; it is %s now)", desc, tok, old.tok, state))
		}
		if old.disabled {
			e.rep.Count("oracle:consistent-ok-while-disabled")
		}
		old.tok = tok // the disabled flag of the existing record is not changed by a tokenization
		return
	}
	e.consist[key] = &c10Cons{tok: tok, hlen: hlen}
}

// consistVisit replays a maintenance pass on the oracle's shadow of the h-records.
func (e *tokEnv) consistVisit(lens []int, all bool, aEn, aDis common.TokenAction) {
	for k, ent := range e.consist {
		hit := all
		for _, l := range lens {
			hit = hit || l == ent.hlen
		}
		if !hit {
			continue
		}
		act := aEn
		if ent.disabled {
			act = aDis
		}
		switch act {
		case common.TokenEnable:
			ent.disabled = false
		case common.TokenDisable:
			ent.disabled = true
		case common.TokenRemove:
			delete(e.consist, k)
		}
	}
}

func encOutcome(o vh.Outcome) []byte {
	switch o.Kind {
	case "ok":
		return append([]byte{0}, o.Vals[0]...)
	case "err":
		return []byte{1}
	}
	return []byte{2}
}

func (e *tokEnv) replay() string {
	return fmt.Sprintf("store=%s seed=%d history:\n    %s", e.cfg, e.rep.Seed, strings.Join(e.desc, "\n    "))
}
func (e *tokEnv) violate(class, what string) {
	e.rep.Violate(class, what, e.replay())
}
func (e *tokEnv) record(op string, desc string, outs ...vh.Outcome) {
	e.ops = append(e.ops, op)
	s := desc + " =>"
	for _, o := range outs {
		e.outs = append(e.outs, encOutcome(o))
		s += " " + o.String()
		if o.Kind == "panic" {
			e.rep.OracleChecks++
			e.violate("panic", "tokenizer panicked: "+desc+": "+o.Msg)
		}
	}
	e.desc = append(e.desc, s)
}

func ikey(c tctx, ty int, b []byte) string { return c.key() + "|" + ttCoq[ty] + "|" + hex.EncodeToString(b) }

func modeCoq(consistent bool) string {
	if consistent {
		return "Consistent"
	}
	return "Random"
}

// typed call of the real tokenizer
func typedTokenize(tk common.Pseudoanonymizer, consistent bool, ty int, c tctx, v []byte) vh.Outcome {
	var res interface{}
	var err error
	if consistent {
		res, err = tk.AnonymizeConsistently(toGo(ty, v), c.tc(), ttGo[ty])
	} else {
		res, err = tk.Anonymize(toGo(ty, v), c.tc(), ttGo[ty])
	}
	if err != nil {
		return vh.ErrO(err)
	}
	b, ok := fromGo(ty, res)
	if !ok {
		return vh.Outcome{Kind: "panic", Msg: fmt.Sprintf("result %T is not of the requested type", res)}
	}
	return vh.Ok(b)
}

// judge evaluates the per-token oracles for a successful tokenization (not reversibility).
func (e *tokEnv) judge(consistent bool, ty int, c tctx, v, tok []byte, chunks [][]byte, desc string) {
	e.rep.OracleChecks++
	if p := shapeProblem(ty, v, tok); p != "" {
		e.violate("token-shape", fmt.Sprintf("%s: %s; crypto/rand draws of the call: %x", desc, p, chunks))
	}
	e.rep.OracleChecks++
	if old, ok := e.issued[ikey(c, ty, tok)]; ok && !bytes.Equal(old, v) && !e.removedSince(ikey(c, ty, tok)) {
		e.violate("two-values-one-token", fmt.Sprintf("%s: token %x was already issued for value %x in the same context", desc, tok, old))
	}
	e.issued[ikey(c, ty, tok)] = v
	e.markIssued(c, ty, tok)
	if consistent {
		e.consistRule(ikey(c, ty, v), tok, len(tok), desc)
	}
	e.hist = append(e.hist, tokIssued{ty, c, v, tok, chunks})
}

func (e *tokEnv) tok(consistent bool, ty int, c tctx, v []byte, forced [][]byte, via int) vh.Outcome {
	tape := vh.StartScriptTape(e.r, forced)
	var o vh.Outcome
	switch {
	case via == 1 && consistent && len(c.ac) == 0:
		e.rep.Count("via:translator")
		o = vh.Guard(func() vh.Outcome {
			res, err := e.svc.Tokenize(clientCtx(), toGo(ty, v), ttGo[ty], c.cl, nil)
			if err != nil {
				return vh.ErrO(err)
			}
			b, ok := fromGo(ty, res)
			if !ok {
				return vh.Outcome{Kind: "panic", Msg: "wrong result type"}
			}
			return vh.Ok(b)
		})
	default:
		e.rep.Count("via:typed")
		o = vh.Guard(func() vh.Outcome { return typedTokenize(e.tk, consistent, ty, c, v) })
	}
	vh.StopTape()
	desc := fmt.Sprintf("tokenize %s %s %s value=%x tape=%d chunks", modeCoq(consistent), ttCfg[ty], c, v, len(tape.Chunks))
	e.record(fmt.Sprintf("Tok %s %s %s %s %s", modeCoq(consistent), ttCoq[ty], c.coq(), vh.H(v), vh.HL(tape.Chunks)), desc, o)
	if o.Kind == "ok" {
		e.judge(consistent, ty, c, v, o.Vals[0], tape.Chunks, desc)
	}
	return o
}

func (e *tokEnv) detok(ty int, c tctx, tok []byte, via int) vh.Outcome {
	var o vh.Outcome
	if via == 1 && len(c.ac) == 0 {
		o = vh.Guard(func() vh.Outcome {
			res, err := e.svc.Detokenize(clientCtx(), toGo(ty, tok), ttGo[ty], c.cl, nil)
			if err != nil {
				return vh.ErrO(err)
			}
			b, _ := fromGo(ty, res)
			return vh.Ok(b)
		})
	} else {
		o = vh.Guard(func() vh.Outcome {
			res, err := e.tk.Deanonymize(toGo(ty, tok), c.tc(), ttGo[ty])
			if err != nil {
				return vh.ErrO(err)
			}
			b, _ := fromGo(ty, res)
			return vh.Ok(b)
		})
	}
	e.record(fmt.Sprintf("Detok %s %s %s", ttCoq[ty], c.coq(), vh.H(tok)), fmt.Sprintf("detokenize %s %s token=%x", ttCfg[ty], c, tok), o)
	return o
}

// owner must get the original back (weakened after maintenance: disabled => value or token; removed => no claim)
func (e *tokEnv) checkOwner(ty int, c tctx, v, tok []byte, via int) {
	o := e.detok(ty, c, tok, via)
	if e.removedSince(ikey(c, ty, tok)) {
		return
	}
	e.rep.OracleChecks++
	good := o.Kind == "ok" && (bytes.Equal(o.Vals[0], v) || (e.disabledSince && bytes.Equal(o.Vals[0], tok)))
	if !good {
		e.violate("not-reversible", fmt.Sprintf("owner %s detokenizes %s token %x of value %x and gets %s", c, ttCfg[ty], tok, v, o))
	}
}

// another client / an unknown token must get the token itself
func (e *tokEnv) checkStranger(class string, ty int, c tctx, tok []byte, via int) {
	if _, ok := e.issuedAt[ikey(c, ty, tok)]; ok {
		return // by chance a token of that context as well (handed out by the typed API or at the text boundary)
	}
	o := e.detok(ty, c, tok, via)
	e.rep.OracleChecks++
	if !(o.Kind == "ok" && bytes.Equal(o.Vals[0], tok)) {
		e.violate(class, fmt.Sprintf("%s detokenizes %s token %x that was never issued in this context and gets %s", c, ttCfg[ty], tok, o))
	}
}

// ---------- DataTokenizer (text at the SQL boundary) ----------

func dtSetting(ty int, consistent bool) config.ColumnEncryptionSetting {
	c := consistent
	return &config.BasicColumnEncryptionSetting{Name: "col", TokenType: ttCfg[ty], ConsistentTokenization: &c}
}

// what Go's strconv.ParseInt(s,10,·) accepts, evaluated with unbounded integers (own oracle)
func parseDecimal(s []byte) (*big.Int, bool) {
	if len(s) == 0 {
		return nil, false
	}
	d := s
	if s[0] == '+' || s[0] == '-' {
		d = s[1:]
	}
	if len(d) == 0 {
		return nil, false
	}
	for _, c := range d {
		if c < '0' || c > '9' {
			return nil, false
		}
	}
	z, ok := new(big.Int).SetString(string(s), 10)
	return z, ok
}

func (e *tokEnv) dtTok(consistent bool, ty int, c tctx, text []byte) {
	tape := vh.StartScriptTape(e.r, e.dtForced)
	e.dtForced = nil
	o := vh.Guard(func() vh.Outcome {
		b, err := e.dt.Tokenize(text, c.tc(), dtSetting(ty, consistent))
		if err != nil {
			return vh.ErrO(err)
		}
		return vh.Ok(b)
	})
	vh.StopTape()
	desc := fmt.Sprintf("DataTokenizer.Tokenize %s %s %s text=%q", modeCoq(consistent), ttCfg[ty], c, text)
	e.record(fmt.Sprintf("DtTok %s %s %s %s %s", modeCoq(consistent), ttCoq[ty], c.coq(), vh.H(text), vh.HL(tape.Chunks)), desc, o)
	isInt := ty == tInt32 || ty == tInt64
	var want []byte = text
	if isInt {
		bits := uint(31)
		if ty == tInt64 {
			bits = 63
		}
		z, ok := parseDecimal(text)
		lim := new(big.Int).Lsh(big.NewInt(1), bits)
		inRange := ok && z.Cmp(lim) < 0 && z.Cmp(new(big.Int).Neg(lim)) >= 0
		e.rep.OracleChecks++
		if !inRange {
			if o.Kind == "ok" {
				e.violate("int-out-of-range-accepted", fmt.Sprintf("%s: %q is not a valid %s but was tokenized to %q", desc, text, ttCfg[ty], o.Vals[0]))
			}
			return
		}
		want = []byte(z.String())
	}
	if o.Kind != "ok" {
		return
	}
	tok := o.Vals[0]
	e.rep.OracleChecks++
	if isInt {
		z, ok := parseDecimal(tok)
		bits := uint(31)
		if ty == tInt64 {
			bits = 63
		}
		lim := new(big.Int).Lsh(big.NewInt(1), bits)
		if !ok || z.Cmp(lim) >= 0 || z.Cmp(new(big.Int).Neg(lim)) < 0 {
			e.violate("token-shape", fmt.Sprintf("%s: token %q is not a %s", desc, tok, ttCfg[ty]))
		}
	} else if p := shapeProblem(ty, text, tok); p != "" {
		e.violate("token-shape", fmt.Sprintf("%s: %s; crypto/rand draws of the call: %x", desc, p, tape.Chunks))
	}
	// text-level bookkeeping uses the canonical text
	e.rep.OracleChecks++
	k := "dt|" + ikey(c, ty, tok)
	if old, ok := e.issued[k]; ok && !bytes.Equal(old, want) && !e.removedSince(k) {
		e.violate("two-values-one-token", fmt.Sprintf("%s: column values %q and %q share the token %q", desc, old, want, tok))
	}
	e.issued[k] = want
	e.markIssued(c, ty, c10Typed(ty, tok))
	if consistent {
		hlen := len(tok) // the h-record holds the typed token: 4/8 bytes for the integer types
		if ty == tInt32 {
			hlen = 4
		} else if ty == tInt64 {
			hlen = 8
		}
		e.consistRule("dt|"+ikey(c, ty, want), tok, hlen, desc)
	}
	// owner reads the column back
	d := e.dtDetok(ty, c, tok)
	if !e.removedSince(k) {
		e.rep.OracleChecks++
		good := d.Kind == "ok" && (bytes.Equal(d.Vals[0], want) || (e.disabledSince && bytes.Equal(d.Vals[0], tok)))
		if !good {
			e.violate("not-reversible", fmt.Sprintf("%s: column value %q -> token %q -> detokenized %s", desc, text, tok, d))
		}
	}
}

func (e *tokEnv) dtDetok(ty int, c tctx, text []byte) vh.Outcome {
	o := vh.Guard(func() vh.Outcome {
		b, err := e.dt.Detokenize(text, c.tc(), dtSetting(ty, true))
		if err != nil {
			return vh.ErrO(err)
		}
		return vh.Ok(b)
	})
	e.record(fmt.Sprintf("DtDetok %s %s %s", ttCoq[ty], c.coq(), vh.H(text)), fmt.Sprintf("DataTokenizer.Detokenize %s %s text=%q", ttCfg[ty], c, text), o)
	return o
}

// ---------- concurrency ----------

type ccall struct {
	consistent bool
	ty         int
	c          tctx
	v          []byte
}

func natList(xs []int) string {
	p := make([]string, len(xs))
	for i, x := range xs {
		p[i] = fmt.Sprintf("%d%%nat", x)
	}
	return "[" + strings.Join(p, "; ") + "]"
}

func (e *tokEnv) conc(calls []ccall, sched []int) {
	fs := make([]func() vh.Outcome, len(calls))
	coq := make([]string, len(calls))
	ds := make([]string, len(calls))
	for i, cl := range calls {
		cl := cl
		tk, _ := pseudonymization.NewPseudoanonymizer(e.st.For(i))
		fs[i] = func() vh.Outcome { return typedTokenize(tk, cl.consistent, cl.ty, cl.c, cl.v) }
		coq[i] = fmt.Sprintf("mkcall %s %s %s %s", modeCoq(cl.consistent), ttCoq[cl.ty], cl.c.coq(), vh.H(cl.v))
		ds[i] = fmt.Sprintf("P%d=%s %s %s value=%x", i, modeCoq(cl.consistent), ttCfg[cl.ty], cl.c, cl.v)
	}
	tape := vh.StartScriptTape(e.r, nil)
	outs, hang := e.st.RunConcurrent(fs, sched)
	vh.StopTape()
	desc := fmt.Sprintf("concurrent [%s] schedule=%v", strings.Join(ds, "; "), sched)
	if hang != "" {
		e.rep.OracleChecks++
		e.violate("hang", desc+": "+hang)
		return
	}
	e.record(fmt.Sprintf("Conc [%s] %s %s", strings.Join(coq, "; "), natList(sched), vh.HL(tape.Chunks)), desc, outs...)
	for i, o := range outs {
		if o.Kind == "ok" {
			e.judge(calls[i].consistent, calls[i].ty, calls[i].c, calls[i].v, o.Vals[0], nil, fmt.Sprintf("%s (result of P%d)", desc, i))
		}
	}
	for i, o := range outs {
		if o.Kind == "ok" {
			e.checkOwner(calls[i].ty, calls[i].c, calls[i].v, o.Vals[0], 0)
		}
	}
}

// ---------- maintenance + dump ----------

var actCoq = map[common.TokenAction]string{common.TokenContinue: "AContinue", common.TokenEnable: "AEnable", common.TokenDisable: "ADisable", common.TokenRemove: "ARemove"}

func (e *tokEnv) visit(lens []int, all bool, aEn, aDis common.TokenAction) {
	err := e.st.Inner.VisitMetadata(func(n int, md common.TokenMetadata) (common.TokenAction, error) {
		hit := all
		for _, l := range lens {
			hit = hit || l == n
		}
		if !hit {
			return common.TokenContinue, nil
		}
		if md.Disabled {
			return aDis, nil
		}
		return aEn, nil
	})
	b := "false"
	if all {
		b = "true"
	}
	e.ops = append(e.ops, fmt.Sprintf("Visit %s %s %s %s", natList(lens), b, actCoq[aEn], actCoq[aDis]))
	e.desc = append(e.desc, fmt.Sprintf("maintenance lens=%v all=%v enabled->%s disabled->%s err=%v", lens, all, actCoq[aEn], actCoq[aDis], err))
	e.consistVisit(lens, all, aEn, aDis)
	if aEn == common.TokenDisable {
		e.disabledSince = true
	} else if all && (aDis == common.TokenEnable || aDis == common.TokenRemove) {
		e.disabledSince = false // every disabled record was enabled or removed, no enabled one was disabled
	}
	if aEn == common.TokenRemove || aDis == common.TokenRemove {
		e.removedAt = len(e.desc)
	}
}

func (e *tokEnv) dump() {
	last := map[string]int{}
	for i, rec := range e.st.Log {
		last[string(common.AggregateTokenContextToBytes(rec.Ctx))+"|"+string(rec.ID)] = i
	}
	var outs []vh.Outcome
	for i, rec := range e.st.Log {
		agg := common.AggregateTokenContextToBytes(rec.Ctx)
		if last[string(agg)+"|"+string(rec.ID)] != i {
			continue
		}
		md, err := e.st.Inner.Stat(rec.ID, rec.Ctx)
		if err != nil {
			continue
		}
		flag := byte(0)
		if md.Disabled {
			flag = 1
		}
		b := append(append(append(append([]byte{}, agg...), rec.ID...), flag), rec.Data...)
		outs = append(outs, vh.Outcome{Kind: "ok", Vals: [][]byte{b}})
	}
	e.ops = append(e.ops, "Dump")
	for _, o := range outs {
		e.outs = append(e.outs, o.Vals[0]) // dump entries are raw (no status byte)
	}
	e.desc = append(e.desc, fmt.Sprintf("dump => %d entries", len(outs)))
}

func (e *tokEnv) finish(label string) {
	e.dump()
	if os.Getenv("VERIF_DEBUG_SC") != "" && strings.HasPrefix(label, os.Getenv("VERIF_DEBUG_SC")+" ") {
		fmt.Fprintln(os.Stderr, label+"\n"+e.replay())
	}
	encB := "false"
	if strings.HasSuffix(e.cfg, "+enc") {
		encB = "true"
	}
	e.rep.Add(label, "(Scenario "+encB+" ["+strings.Join(e.ops, ";\n     ")+"])", vh.Outcome{Kind: "ok", Vals: e.outs, Msg: ""})
}

// ---------- stores ----------

type storeFactory struct {
	db  *bolt.DB
	dir string
}

var storeCfgs = []string{"memory", "memory+enc", "boltdb", "boltdb+enc"}

func (f *storeFactory) open(cfg string, clients [][]byte, r *vh.Rng) common.TokenStorage {
	var st common.TokenStorage
	if strings.HasPrefix(cfg, "memory") {
		st, _ = storage.NewMemoryTokenStorage()
	} else {
		if f.db == nil {
			os.MkdirAll(f.dir, 0o755)
			path := filepath.Join(f.dir, "tokens.bolt")
			os.Remove(path)
			db, err := bolt.Open(path, 0o600, &bolt.Options{NoSync: true})
			if err != nil {
				panic(err)
			}
			f.db = db
		}
		f.db.Update(func(tx *bolt.Tx) error {
			if tx.Bucket([]byte("tokens")) != nil {
				return tx.DeleteBucket([]byte("tokens"))
			}
			return nil
		})
		st = storage.NewBoltDBTokenStorage(f.db)
	}
	if strings.HasSuffix(cfg, "+enc") {
		ks := vh.NewMemKeystore()
		for _, c := range clients {
			ks.Clients[string(c)] = vh.NewKeySet(r, 0, 1+r.Intn(2), false)
		}
		enc, err := storage.NewSCellEncryptor(ks)
		if err != nil {
			panic(err)
		}
		st = storage.WrapStorageWithEncryption(st, enc)
	}
	return st
}

func (f *storeFactory) close() {
	if f.db != nil {
		f.db.Close()
		os.Remove(filepath.Join(f.dir, "tokens.bolt"))
	}
}

func newTokEnv(rep *vh.Report, r *vh.Rng, f *storeFactory, cfg string, ctxs []tctx) *tokEnv {
	var clients [][]byte
	for _, c := range ctxs {
		clients = append(clients, c.cl)
	}
	e := &tokEnv{rep: rep, r: r, cfg: cfg, issued: map[string][]byte{}, consist: map[string]*c10Cons{}, issuedAt: map[string]int{}, removedAt: -1}
	e.st = vh.NewTokStore(f.open(cfg, clients, r), r)
	e.tk, _ = pseudonymization.NewPseudoanonymizer(e.st.For(-1))
	e.dt, _ = pseudonymization.NewDataTokenizer(e.tk)
	svc, err := trcommon.NewTranslatorService(&trcommon.TranslatorData{Tokenizer: e.tk, Keystorage: vh.NewMemKeystore()})
	if err != nil {
		panic(err)
	}
	e.svc = svc
	rep.Count("store:" + cfg)
	return e
}

// ---------- generators ----------

var (
	i32Table  = []int32{0, 1, -1, 2147483647, -2147483648, 2147483646, 42, -1000}
	i64Table  = []int64{0, 1, -1, 9223372036854775807, -9223372036854775808, 2147483648, 4294967297, -2147483649, 255}
	strLens   = []int{0, 1, 1, 2, 3, 5, 6, 7, 8, 16, 40}
	byteLens  = []int{0, 1, 2, 4, 16, 33, 100}
	emailTab  = []string{"", "a", "ab", "abc", "a@b.", "a@b.c", "a@b.cc", "ab@c.de", "a@b.cdef", "user@example.com", "m@i.ni", "vassily.poupkine@bigco.has.long.address.net", "no-at-sign-here", "@@@@@@@@"}
	intTexts  = []string{"0", "1", "-1", "+5", "-0", "007", "2147483647", "-2147483648", "2147483648", "-2147483649", "4294967297", "4294967296", "9223372036854775807", "-9223372036854775808", "9223372036854775808", "-9223372036854775809", "18446744073709551617", "123456789012345678901234567890", "", "-", "+", "12a", " 1", "1 ", "1_000", "0x10", "1e3", "--1", "٣"}
	tokCharset = pseudonymization.VerifCharset()
)

func genTokValue(r *vh.Rng, ty int, big bool) []byte {
	switch ty {
	case tInt32:
		if r.Intn(3) > 0 {
			return i32(i32Table[r.Intn(len(i32Table))])
		}
		return r.Bytes(4)
	case tInt64:
		if r.Intn(3) > 0 {
			return i64(i64Table[r.Intn(len(i64Table))])
		}
		return r.Bytes(8)
	case tStr:
		n := strLens[r.Intn(len(strLens))]
		if big && r.Intn(6) == 0 {
			n = 300
		}
		switch r.Intn(3) {
		case 0:
			return r.Bytes(n) // Go strings hold arbitrary bytes
		case 1:
			return []byte(string(bytes.Repeat([]byte("жλ\x00'"), n/6+1))[:n])
		}
		b := make([]byte, n)
		for i := range b {
			b[i] = tokCharset[r.Intn(len(tokCharset))]
		}
		return b
	case tBytes:
		n := byteLens[r.Intn(len(byteLens))]
		if big && r.Intn(6) == 0 {
			n = 1000
		}
		return r.Bytes(n)
	}
	if r.Intn(4) == 0 {
		return r.Bytes(r.Intn(12))
	}
	return []byte(emailTab[r.Intn(len(emailTab))])
}

func genCtxs(r *vh.Rng) []tctx {
	names := []string{"alice", "bob", "client", "", "c\x00d", "alicezonez"}
	a := []byte(names[r.Intn(len(names))])
	var b []byte
	for {
		b = []byte(names[r.Intn(len(names))])
		if !bytes.Equal(a, b) {
			break
		}
	}
	cs := []tctx{{cl: a}, {cl: b}}
	switch r.Intn(3) {
	case 0: // same client, additional ("zone") context
		cs = append(cs, tctx{cl: a, ac: []byte("z")})
	case 1: // boundary-ambiguous pair: "client"+"alice" vs "zone"+...
		cs = append(cs, tctx{cl: b, ac: append([]byte("client"), a...)})
	}
	return cs
}

func randSchedule(r *vh.Rng, k int) []int {
	n := r.Intn(4*k + 3)
	s := make([]int, n)
	for i := range s {
		s[i] = r.Intn(k)
		if r.Intn(25) == 0 {
			s[i] = k + r.Intn(2) // unknown process id: no-op
		}
	}
	return s
}

// all interleavings of counts[i] steps of process i
func allSchedules(counts []int) [][]int {
	var out [][]int
	var rec func(cur []int, left []int)
	rec = func(cur []int, left []int) {
		done := true
		for i, l := range left {
			if l > 0 {
				done = false
				left[i]--
				rec(append(cur, i), left)
				left[i]++
			}
		}
		if done {
			out = append(out, append([]int{}, cur...))
		}
	}
	rec(nil, append([]int{}, counts...))
	return out
}

// ---------- maintenance families (tokenize / acra-tokens disable|enable|remove / tokenize again) ----------

// c10FamValue: a value of the type whose tokenization succeeds on every store kind (the encrypting
// wrapper cannot store an empty original), boundary lengths included.
func c10FamValue(r *vh.Rng, ty int) []byte {
	for {
		if v := genTokValue(r, ty, false); len(v) > 0 {
			return v
		}
	}
}

// c10FamTok: one consistent tokenization of v through the chosen entry point (0 typed API,
// 1 TranslatorService, 2 DataTokenizer on the column text); returns the typed token on success.
func (e *tokEnv) c10FamTok(ty int, c tctx, v []byte, via int) ([]byte, bool) {
	if via == 2 {
		n := len(e.outs)
		e.dtTok(true, ty, c, c10Text(ty, v))
		if o := e.outs[n]; len(o) > 0 && o[0] == 0 {
			return c10Typed(ty, o[1:]), true
		}
		return nil, false
	}
	o := e.tok(true, ty, c, v, nil, via)
	if o.Kind != "ok" {
		return nil, false
	}
	return o.Vals[0], true
}

// the three acra-tokens subcommands as VisitMetadata callbacks (no date limits)
func (e *tokEnv) c10Disable(lens []int) { // acra-tokens disable
	e.visit(lens, lens == nil, common.TokenDisable, common.TokenContinue)
}
func (e *tokEnv) c10Enable() { // acra-tokens enable
	e.visit(nil, true, common.TokenContinue, common.TokenEnable)
}

// c10DisableFamily: tokenize consistently -> disable -> tokenize again (k times) -> enable -> tokenize
// -> detokenize. Judged by THE RULE (consistRule) on every successful call and by the strict
// reversibility oracle at the end (nothing is disabled any more, nothing was removed).
func c10DisableFamily(rep *vh.Report, r *vh.Rng, f *storeFactory, cfg string, ty int, round int) {
	ctxs := genCtxs(r)
	e := newTokEnv(rep, r, f, cfg, ctxs)
	c := ctxs[0]
	if len(ctxs) > 2 && r.Intn(4) == 0 {
		c = ctxs[2] // zone context
	}
	via := r.Intn(3)
	rep.Count(fmt.Sprintf("family-disable:via%d", via))
	v, w := c10FamValue(r, ty), c10FamValue(r, ty)
	label := fmt.Sprintf("family disable #%d store=%s type=%s", round, cfg, ttCfg[ty])

	t1, ok := e.c10FamTok(ty, c, v, via)
	if !ok {
		rep.Count("family-disable:first-tokenize-failed")
		e.finish(label)
		return
	}
	if r.Bool() {
		e.c10FamTok(ty, c, v, via) // ordinary repeat
	}
	withW := !bytes.Equal(v, w) && r.Bool()
	if withW {
		e.c10FamTok(ty, c, w, via)
	}
	// disable: everything (what "acra-tokens disable" does) or, where the callback sees plaintext
	// lengths, only records as long as the value->token record of v
	var lens []int
	if !strings.HasSuffix(cfg, "+enc") && r.Intn(3) == 0 {
		lens = []int{len(t1)}
		rep.Count("family-disable:scope-h-record-length")
	} else {
		rep.Count("family-disable:scope-all")
	}
	e.c10Disable(lens)
	k := 1 + r.Intn(2)
	rep.Count(fmt.Sprintf("family-disable:tokenize-while-disabled-x%d", k))
	for i := 0; i < k; i++ {
		e.c10FamTok(ty, c, v, via)
	}
	if r.Bool() { // the same value in another client context is not affected
		e.c10FamTok(ty, ctxs[1], v, 0) // typed API
	}
	e.checkOwner(ty, c, v, t1, via%2) // disabled: value or the token itself
	if r.Intn(3) == 0 {
		e.c10Disable(nil) // disabling twice changes nothing
	}
	e.c10Enable()
	e.c10FamTok(ty, c, v, via)
	if withW {
		e.c10FamTok(ty, c, w, via)
	}
	e.checkOwner(ty, c, v, t1, via%2) // strict again: the original
	e.finish(label)
}

// c10RemoveFamily: tokenize consistently -> remove (all / only disabled ones after a disable) ->
// tokenize again (a new token is allowed exactly now) -> tokenize again (must repeat the new token)
// -> detokenize new and old token.
func c10RemoveFamily(rep *vh.Report, r *vh.Rng, f *storeFactory, cfg string, ty int, round int) {
	ctxs := genCtxs(r)
	e := newTokEnv(rep, r, f, cfg, ctxs)
	c := ctxs[0]
	if len(ctxs) > 2 && r.Intn(4) == 0 {
		c = ctxs[2]
	}
	via := r.Intn(3)
	rep.Count(fmt.Sprintf("family-remove:via%d", via))
	v := c10FamValue(r, ty)
	label := fmt.Sprintf("family remove #%d store=%s type=%s", round, cfg, ttCfg[ty])

	t1, ok := e.c10FamTok(ty, c, v, via)
	if !ok {
		rep.Count("family-remove:first-tokenize-failed")
		e.finish(label)
		return
	}
	switch r.Intn(3) {
	case 0: // acra-tokens remove --all
		rep.Count("family-remove:all")
		e.visit(nil, true, common.TokenRemove, common.TokenRemove)
	case 1: // acra-tokens disable; (tokenize: refused); acra-tokens remove --only-disabled
		rep.Count("family-remove:disable-then-only-disabled")
		e.c10Disable(nil)
		if r.Bool() {
			e.c10FamTok(ty, c, v, via)
		}
		e.visit(nil, true, common.TokenContinue, common.TokenRemove)
	default: // remove --only-disabled with nothing disabled removes nothing: the token must stay
		rep.Count("family-remove:only-disabled-noop-then-all")
		e.visit(nil, true, common.TokenContinue, common.TokenRemove)
		e.c10FamTok(ty, c, v, via)
		e.visit(nil, true, common.TokenRemove, common.TokenRemove)
	}
	t2, ok2 := e.c10FamTok(ty, c, v, via)
	e.c10FamTok(ty, c, v, via)
	if ok2 {
		e.checkOwner(ty, c, v, t2, via%2)
		if !bytes.Equal(t1, t2) { // the removed token is an unknown token now: it comes back as it is
			o := e.detok(ty, c, t1, via%2)
			rep.OracleChecks++
			if !(o.Kind == "ok" && bytes.Equal(o.Vals[0], t1)) {
				e.violate("removed-token-resolves", fmt.Sprintf("%s detokenizes the removed %s token %x (of value %x) and gets %s", c, ttCfg[ty], t1, v, o))
			}
		}
	}
	e.finish(label)
}

func c10MaintenanceFamilies(rep *vh.Report, r *vh.Rng, f *storeFactory, thorough bool) {
	rounds := 1
	if thorough {
		rounds = 6
	}
	for round := 0; round < rounds; round++ {
		for _, cfg := range storeCfgs {
			for ty := range ttCfg {
				c10DisableFamily(rep, r, f, cfg, ty, round)
				c10RemoveFamily(rep, r, f, cfg, ty, round)
			}
		}
	}
}

func runC10(rep *vh.Report, r *vh.Rng, n int, thorough bool) {
	dir := "."
	for i, a := range os.Args {
		if a == "-out" && i+1 < len(os.Args) {
			dir = os.Args[i+1]
		}
	}
	f := &storeFactory{dir: filepath.Join(dir, "tmp")}
	defer f.close()

	for sc := 0; sc < n; sc++ {
		cfg := storeCfgs[sc%len(storeCfgs)]
		ctxs := genCtxs(r)
		e := newTokEnv(rep, r, f, cfg, ctxs)
		ty := r.Intn(5)
		rep.Count("type:" + ttCfg[ty])
		pool := [][]byte{genTokValue(r, ty, thorough), genTokValue(r, ty, thorough), genTokValue(r, ty, thorough)}
		nops := 3 + r.Intn(5)
		for k := 0; k < nops; k++ {
			c := ctxs[r.Intn(len(ctxs))]
			if r.Intn(3) > 0 {
				c = ctxs[0]
			}
			v := pool[r.Intn(len(pool))]
			via := r.Intn(2)
			switch x := r.Intn(20); {
			case x < 7: // tokenize, then the owner and a stranger read it
				rep.Count("step:tokenize")
				consistent := r.Intn(3) > 0
				var forced [][]byte
				if len(e.hist) > 0 && r.Intn(4) == 0 { // replay earlier draws: collision on the token key
					h := e.hist[r.Intn(len(e.hist))]
					reps := 1
					if r.Intn(4) == 0 {
						reps = pseudonymization.VerifDataGenerationLoopLimit()
					}
					for i := 0; i < reps && len(h.chunks) > 0; i++ {
						forced = append(forced, h.chunks...)
					}
					c = h.c
					if r.Intn(3) > 0 { // same value again in random mode: same draws, same token
						v, consistent = h.v, false
					}
					rep.Count(fmt.Sprintf("tape:forced-collision-x%d", reps))
				} else if (ty == tStr || ty == tEmail) && r.Intn(8) == 0 { // rejection sampling branch of Int31n
					forced = [][]byte{{0x7f, 0xff, 0xff, 0xff, 0, 0, 0, 0}}
					rep.Count("tape:forced-rejection")
				}
				o := e.tok(consistent, ty, c, v, forced, via)
				if o.Kind == "ok" {
					e.checkOwner(ty, c, v, o.Vals[0], via)
					for _, oc := range ctxs {
						if oc.key() != c.key() && r.Intn(2) == 0 {
							e.checkStranger("foreign-detok", ty, oc, o.Vals[0], via)
						}
					}
				}
			case x < 9: // unknown token
				rep.Count("step:unknown-token")
				e.checkStranger("unknown-detok", ty, c, genTokValue(r, ty, false), via)
			case x < 11 && len(e.hist) > 0: // old token again, by its owner
				rep.Count("step:re-detokenize")
				h := e.hist[r.Intn(len(e.hist))]
				e.checkOwner(h.ty, h.c, h.v, h.tok, via)
			case x < 14: // text boundary
				rep.Count("step:datatokenizer")
				text := v
				if ty == tInt32 || ty == tInt64 {
					if r.Intn(4) == 0 {
						text = []byte(new(big.Int).SetInt64(int64(r.U64())).String())
					} else {
						text = []byte(intTexts[r.Intn(len(intTexts))])
					}
				}
				e.dtTok(r.Intn(3) > 0, ty, c, text)
			case x < 18: // concurrent calls on overlapping values
				rep.Count("step:concurrent")
				k := 2 + r.Intn(2)
				calls := make([]ccall, k)
				for i := range calls {
					calls[i] = ccall{r.Intn(5) > 0, ty, c, v}
					if r.Intn(4) == 0 {
						calls[i].v = pool[r.Intn(len(pool))]
					}
					if r.Intn(8) == 0 {
						calls[i].c = ctxs[r.Intn(len(ctxs))]
					}
				}
				e.conc(calls, randSchedule(r, k))
			default: // maintenance
				rep.Count("step:maintenance")
				acts := []common.TokenAction{common.TokenContinue, common.TokenEnable, common.TokenDisable, common.TokenRemove}
				aEn, aDis := acts[r.Intn(4)], acts[r.Intn(4)]
				var lens []int
				all := true
				if !strings.HasSuffix(cfg, "+enc") && r.Bool() { // the callback sees stored lengths: plaintext only without the wrapper
					all = false
					lens = []int{len(v), len(v) + 4, 4, 8, 6}[:1+r.Intn(5)]
				}
				e.visit(lens, all, aEn, aDis)
			}
		}
		e.finish(fmt.Sprintf("sc%d store=%s type=%s %d ops", sc, cfg, ttCfg[ty], len(e.ops)))
	}

	// every token type x store kind: maintenance in the middle of a consistent history
	c10MaintenanceFamilies(rep, vh.NewRng(r.U64()), f, thorough)

	// exhaustive interleavings
	exhaustive := func(name string, mk func(r *vh.Rng) ([]ccall, *ccall), counts []int, limit int) {
		scheds := allSchedules(counts)
		if limit > 0 && len(scheds) > limit { // quick tier: a deterministic sample
			step := len(scheds) / limit
			var s2 [][]int
			for i := 0; i < len(scheds) && len(s2) < limit; i += step {
				s2 = append(s2, scheds[i])
			}
			scheds = s2
		}
		sub := vh.NewRng(r.U64())
		calls, pre := mk(sub)
		for i, s := range scheds {
			cfg := storeCfgs[i%len(storeCfgs)]
			var ctxs []tctx
			for _, c := range calls {
				ctxs = append(ctxs, c.c)
			}
			e := newTokEnv(rep, r, f, cfg, ctxs)
			rep.Count("exhaustive:" + name)
			if pre != nil {
				e.tok(pre.consistent, pre.ty, pre.c, pre.v, nil, 0)
			}
			e.conc(calls, s)
			e.finish(fmt.Sprintf("interleaving %s #%d store=%s schedule=%v", name, i, cfg, s))
		}
	}
	alice := tctx{cl: []byte("alice")}
	same := func(k int, ty int) func(r *vh.Rng) ([]ccall, *ccall) {
		return func(r *vh.Rng) ([]ccall, *ccall) {
			v := genTokValue(r, ty, false)
			if ty == tStr {
				v = []byte("secret value")
			}
			cs := make([]ccall, k)
			for i := range cs {
				cs[i] = ccall{true, ty, alice, v}
			}
			return cs, nil
		}
	}
	lim := 16
	if thorough {
		lim = 0
	}
	exhaustive("2-same-str", same(2, tStr), []int{4, 4}, lim)
	exhaustive("2-same-int32", same(2, tInt32), []int{4, 4}, lim)
	exhaustive("2-mixed", func(r *vh.Rng) ([]ccall, *ccall) {
		return []ccall{{true, tEmail, alice, []byte("user@example.com")}, {false, tEmail, alice, []byte("user@example.com")}}, &ccall{true, tEmail, alice, []byte("other@example.org")}
	}, []int{4, 2}, lim)
	exhaustive("2-existing", func(r *vh.Rng) ([]ccall, *ccall) {
		v := []byte{1, 2, 3}
		return []ccall{{true, tBytes, alice, v}, {true, tBytes, alice, v}}, &ccall{true, tBytes, alice, v}
	}, []int{2, 2}, lim)
	exhaustive("3-same-str", same(3, tStr), []int{3, 3, 3}, lim)

	// e-mail tokens: every length around the code's thresholds x every TLD index (forced draw)
	c10EmailSweep(rep, vh.NewRng(r.U64()), f, thorough)
}
