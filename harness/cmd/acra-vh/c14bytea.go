package main

// Domain c14bytea (property C14): the PostgreSQL bytea ESCAPE-format decoder utils.DecodeOctal / utils.DecodeEscaped and
// every consumer entry that hands it client- or database-supplied bytes (encryptor/postgresql PgQueryDBDataCoder.Decode
// of an SQL string literal, decryptor/postgresql pgBoundValue.GetData of a text Bind parameter,
// PgSQLDataDecoderProcessor.OnColumn and types.ByteaDataTypeEncoder.Decode of a text DataRow value).
// DecodeOctal walks []rune(string(data)): its index arithmetic is in RUNES while its input is BYTES, so the malformed
// stream is built systematically from (valid 2-/3-/4-byte UTF-8 characters, U+FFFD, overlong / surrogate / out-of-range /
// truncated / stray-continuation sequences) x (position: before / between / after escapes, repeated) x (tail: complete
// escapes and every truncation of `\ooo` and `\\`, escapes cut by a multi-byte character).  Every outcome ok/err/panic
// is recorded for the replay on the checked rune-level model (Model/RunByteaRunes.v); the property's own oracle is
// "no panic" on the implementation, independent of the model.

import (
	"context"
	"encoding/hex"
	"fmt"

	"acra-vh/vh"

	"github.com/cossacklabs/acra/decryptor/base"
	"github.com/cossacklabs/acra/decryptor/base/type_awareness"
	"github.com/cossacklabs/acra/decryptor/postgresql"
	encryptor "github.com/cossacklabs/acra/encryptor/base"
	"github.com/cossacklabs/acra/encryptor/base/config"
	encpg "github.com/cossacklabs/acra/encryptor/postgresql"
	"github.com/cossacklabs/acra/utils"
	pg_query "github.com/cossacklabs/pg_query_go/v5"
	"github.com/jackc/pgx/v5/pgtype"
)

func init() { register("c14bytea", "Model.RunByteaRunes", runC14Bytea) }

type c14byteaSeq struct {
	name string
	b    []byte
}

// valid multi-byte characters: first / last / typical code point of every encoded width (+ a C1 control, + U+FFFD itself)
var c14byteaValid = []c14byteaSeq{
	{"2:U+00E9", []byte("é")}, {"2:U+0080(control)", []byte("\u0080")}, {"2:U+00A0", []byte(" ")}, {"2:U+07FF", []byte("߿")},
	{"3:U+0800", []byte("ࠀ")}, {"3:U+20AC", []byte("€")}, {"3:U+FFFD", []byte("�")}, {"3:U+FFFF", []byte("￿")},
	{"4:U+10000", []byte("\U00010000")}, {"4:U+1F600", []byte("\U0001F600")}, {"4:U+10FFFF", []byte("\U0010FFFF")},
}

// invalid sequences: each invalid byte is ONE rune U+FFFD in []rune(string)
var c14byteaInvalid = []c14byteaSeq{
	{"overlong2", []byte{0xC0, 0x80}}, {"overlong2-C1", []byte{0xC1, 0xBF}}, {"overlong3", []byte{0xE0, 0x80, 0x80}}, {"overlong4", []byte{0xF0, 0x80, 0x80, 0x80}},
	{"surrogate-lo", []byte{0xED, 0xA0, 0x80}}, {"surrogate-hi", []byte{0xED, 0xBF, 0xBF}}, {"above-10FFFF", []byte{0xF4, 0x90, 0x80, 0x80}}, {"F5", []byte{0xF5, 0x80, 0x80, 0x80}},
	{"stray-cont", []byte{0x80}}, {"FF", []byte{0xFF}}, {"cut2", []byte{0xC3}}, {"cut3", []byte{0xE2, 0x82}}, {"cut4", []byte{0xF0, 0x9F, 0x98}},
	{"bad-cont3", []byte{0xE2, 0x28, 0xA1}}, {"bad-cont4", []byte{0xF0, 0x9F, 0x28, 0x80}},
}

// tails: complete escapes, every truncation of `\ooo` and `\\`, a non-octal digit, an escape cut by a multi-byte character
// ("@" is replaced by the sequence under test)
var c14byteaTails = []string{
	``, `\`, `\1`, `\12`, `\123`, `\\`, `\\\`, `\\\1`, `\\\12`, `\377\`, `\377\7`, `\377\77`, `\8`, `\18`, `\128`, `\400`, `\777`,
	`\@`, `\1@`, `\12@`, `\@12`, `\1@2`, `\123@`, `\\@`, `\\@\`, `\\@\1`, `\\@\12`,
}

// layouts: where the sequence stands relative to complete escapes ("@" = the sequence, "$" = the tail)
var c14byteaLayouts = []string{
	`@$`, `a@$`, `@a$`, `@@$`, `@@@$`, `\101@$`, `@\101$`, `\\@$`, `@\\$`, `\101@\102@$`, `@\101@\\@$`, `$@`, `$@@@@`,
}

func c14byteaBuild(layout, tail string, seq []byte) []byte {
	var out []byte
	var put func(s string, inTail bool)
	put = func(s string, inTail bool) {
		for i := 0; i < len(s); i++ {
			switch {
			case s[i] == '@':
				out = append(out, seq...)
			case s[i] == '$' && !inTail:
				put(tail, true)
			default:
				out = append(out, s[i])
			}
		}
	}
	put(layout, false)
	return out
}

type c14bytea struct {
	rep      *vh.Report
	seen     map[string]bool
	set      *config.BasicColumnEncryptionSetting
	thorough bool
	nCons    int
}

func (c *c14bytea) noPanic(decoder string, o vh.Outcome, lab string, in []byte) {
	c.rep.OracleChecks++
	switch o.Kind {
	case "panic":
		c.rep.Violate("panic:"+decoder, "C14: "+decoder+" panicked on a malformed bytea escape value: "+o.Msg, fmt.Sprintf("%s input=%s (%q)", lab, hex.EncodeToString(in), in))
	case "ok":
		// output bounded by the input: every rune re-encodes to at most 3 bytes per input byte (U+FFFD for an invalid byte)
		for _, v := range o.Vals {
			c.rep.OracleChecks++
			if len(v) > 3*len(in)+4 {
				c.rep.Violate("amplification:"+decoder, fmt.Sprintf("C14: %s returned %d bytes for %d input bytes", decoder, len(v), len(in)), fmt.Sprintf("%s input=%s", lab, hex.EncodeToString(in)))
			}
		}
	}
}

func (c *c14bytea) rec(lab, ctor, decoder string, in []byte, f func(d []byte) vh.Outcome) {
	d := append([]byte{}, in...)
	o := vh.Guard(func() vh.Outcome { return f(d) })
	c.rep.Add(lab+" "+decoder, "("+ctor+" "+vh.H(in)+")", o)
	c.noPanic(decoder, o, lab, in)
}

// all runs utils.DecodeEscaped (the entry every consumer uses) on one value, utils.DecodeOctal directly on every third
// value (every value in the thorough tier) and, when consumers is set, the consumer entries (quick tier: one of the
// four in rotation; thorough: all four)
func (c *c14bytea) all(lab string, in []byte, consumers bool) {
	if c.seen[string(in)] {
		c.rep.Count("dup-skipped")
		return
	}
	c.seen[string(in)] = true
	k := len(c.seen)
	c.rec(lab, "BrDecEsc", "utils.DecodeEscaped", in, func(d []byte) vh.Outcome {
		o, err := utils.DecodeEscaped(d)
		if err != nil {
			return vh.ErrO(err)
		}
		return vh.Ok(o)
	})
	if c.thorough || k%3 == 0 {
		c.rec(lab, "BrDecOct", "utils.DecodeOctal", in, func(d []byte) vh.Outcome {
			o, err := utils.DecodeOctal(d)
			if err != nil {
				return vh.ErrO(err)
			}
			return vh.Ok(o)
		})
	}
	if !consumers {
		return
	}
	c.nCons++
	pick := func(i int) bool { return c.thorough || c.nCons%4 == i }
	if pick(0) {
		c.rec(lab, "BrCoder", "PgQueryDBDataCoder.Decode", in, func(d []byte) vh.Outcome {
			ac := &pg_query.A_Const{Val: &pg_query.A_Const_Sval{Sval: &pg_query.String{Sval: string(d)}}}
			o, err := (&encpg.PgQueryDBDataCoder{}).Decode(ac, c.set)
			if err != nil {
				return vh.ErrO(err)
			}
			return vh.Ok(o)
		})
	}
	if pick(1) {
		c.rec(lab, "BrBind", "pgBoundValue.GetData(text)", in, func(d []byte) vh.Outcome {
			o, err := postgresql.NewPgBoundValue(d, base.TextFormat).GetData(c.set)
			if err != nil {
				return vh.ErrO(err)
			}
			return vh.Ok(o)
		})
	}
	if pick(2) {
		c.rec(lab, "BrRow", "PgSQLDataDecoderProcessor.OnColumn(text)", in, func(d []byte) vh.Outcome {
			dec, _ := postgresql.NewPgSQLDataDecoderProcessor()
			ac := base.NewAccessContext(base.WithClientID([]byte("client")))
			ac.SetColumnInfo(base.NewColumnInfo(0, "", false, len(d), 0, 0))
			ctx := base.SetAccessContextToContext(context.Background(), ac)
			ctx = encryptor.NewContextWithEncryptionSetting(ctx, c.set)
			_, o, err := dec.OnColumn(ctx, d)
			if err != nil {
				return vh.ErrO(err)
			}
			return vh.Ok(o)
		})
	}
	if pick(3) {
		c.rec(lab, "BrRowBytea", "ByteaDataTypeEncoder.Decode(text)", in, func(d []byte) vh.Outcome {
			e := type_awareness.GetPostgreSQLDataTypeIDEncoders()[pgtype.ByteaOID]
			if e == nil {
				return vh.Outcome{Kind: "err", Msg: "no bytea encoder registered"}
			}
			format := postgresql.NewDataTypeFormat(base.NewColumnInfo(0, "", false, len(d), 0, 0), c.set)
			_, o, err := e.Decode(context.Background(), d, format)
			if err != nil {
				return vh.ErrO(err)
			}
			return vh.Ok(o)
		})
	}
}

// c14byteaCore = number of leading entries of c14byteaTails that are the plain truncations (no embedded character)
const c14byteaCore = 9

func runC14Bytea(rep *vh.Report, r *vh.Rng, n int, thorough bool) {
	c := &c14bytea{rep: rep, seen: map[string]bool{}, set: &config.BasicColumnEncryptionSetting{Name: "c"}, thorough: thorough}
	nl := len(c14byteaLayouts)
	// 1. valid characters x EVERY tail directly after the character (layout 0, with the consumers); the plain truncations
	//    additionally in two more layouts in rotation (quick) / every tail in every layout (thorough)
	for si, s := range c14byteaValid {
		for ti, tail := range c14byteaTails {
			for li, layout := range c14byteaLayouts {
				if !thorough && li != 0 && !(ti < c14byteaCore && (li == 1+(si+ti)%(nl-1) || li == 1+(si+ti+5)%(nl-1))) {
					continue
				}
				rep.Count("table:valid:" + s.name[:1] + "-byte")
				rep.Count("table:tail:" + tail)
				rep.Count("table:layout:" + layout)
				in := c14byteaBuild(layout, tail, s.b)
				c.all(fmt.Sprintf("valid %s layout %q tail %q", s.name, layout, tail), in, li == 0)
			}
		}
	}
	// 2. invalid sequences (one rune U+FFFD per invalid byte: rune count == byte count) x the plain truncations directly
	//    after the sequence and in one more layout in rotation (quick) / every tail in every layout (thorough)
	for si, s := range c14byteaInvalid {
		for ti, tail := range c14byteaTails {
			for li, layout := range c14byteaLayouts {
				if !thorough && !(ti < c14byteaCore && (li == 0 || li == 1+(si+ti)%(nl-1))) {
					continue
				}
				rep.Count("table:invalid:" + s.name)
				rep.Count("table:layout:" + layout)
				in := c14byteaBuild(layout, tail, s.b)
				c.all(fmt.Sprintf("invalid %s layout %q tail %q", s.name, layout, tail), in, li == 0)
			}
		}
	}
	// 3. mixed valid + invalid neighbours (a valid character next to an invalid byte shifts rune and byte counts apart)
	for i, v := range c14byteaValid {
		w := c14byteaInvalid[i%len(c14byteaInvalid)]
		for _, tail := range []string{`\`, `\1`, `\12`, `\123`, `\\`, `\\\`} {
			rep.Count("table:mixed")
			c.all(fmt.Sprintf("mixed %s+%s tail %q", v.name, w.name, tail), append(append(append([]byte{}, v.b...), w.b...), tail...), false)
			c.all(fmt.Sprintf("mixed %s+%s tail %q", w.name, v.name, tail), append(append(append([]byte{}, w.b...), v.b...), tail...), false)
		}
	}
	// 4. random compositions from the same alphabet (n of them)
	pieces := [][]byte{[]byte(`\`), []byte(`\\`), []byte(`\101`), []byte(`\1`), []byte(`\12`), []byte("a"), []byte("7"), []byte(`\x`), {0x1f}, {0x7f}}
	for i := 0; i < n; i++ {
		var in []byte
		k := 1 + r.Intn(7)
		for j := 0; j < k; j++ {
			switch r.Intn(4) {
			case 0:
				in = append(in, c14byteaValid[r.Intn(len(c14byteaValid))].b...)
			case 1:
				in = append(in, c14byteaInvalid[r.Intn(len(c14byteaInvalid))].b...)
			default:
				in = append(in, pieces[r.Intn(len(pieces))]...)
			}
		}
		if r.Intn(3) == 0 && len(in) > 0 {
			in = in[:len(in)-1-r.Intn(min(len(in), 3))]
		}
		rep.Count("random-composition")
		c.all(fmt.Sprintf("random #%d", i), in, r.Intn(4) == 0)
	}
}
