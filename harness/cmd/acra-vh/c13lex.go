package main

// Domain c13lex (property C13, extension C13_lex): token ADJACENCY.
//
// The theorems of Properties/C13_lex.v say: when every piece the Format methods print is locally lexable and every
// neighbouring pair passes the adjacency table (adj_ok), the tokenizer reads String(t) back as exactly the printed
// tokens, and the separator discipline holds for every well-formed statement.  This domain aims the REAL String()
// and the REAL Tokenizer at adjacency:
//   1. every ordered pair of lexeme classes, glued and spaced, through the real Tokenizer alone (LLex);
//   2. statements with hostile identifiers (keywords, special characters, quotes, "@@", dual, x/b/e) in every identifier
//      position of both dialects, literals ending in backslash / quote, every number shape next to ')' ',' '::' and
//      operators, prefix-operator chains, operators that are prefixes of other operators (LAdj);
//   3. the same trees after a hostile edit the grammar cannot produce (literal texts, names) (LAdj, adj_ok mostly false).
// Own oracle (implementation only): Parse(String(t)) is structurally t for every tree of family 2.

import (
	"fmt"
	"strings"

	"github.com/cossacklabs/acra/sqlparser"
	"acra-vh/vh"
)

func init() { register("c13lex", "Model.RunSqlLex", runC13lex) }

type c13lex struct {
	*c13s
	batch, batchLabel []string
}

// lexeme classes (class name, representatives)
var c13lexClasses = []struct {
	name string
	reps []string
}{
	{"kw", []string{"select", "and", "div", "_binary", "Not", "dual", "DUAL"}},
	{"id", []string{"a", "x1", "_u", "@v", "x", "X", "b", "e", "E", "Z9"}},
	{"sysvar", []string{"@@a", "@@g.v", "@@"}},
	{"bq", []string{"`a b`", "`x``y`", "``", "`select`"}},
	{"dq", []string{"\"a b\"", "\"q\"\"q\"", "\"\"", "\"a\\\"", "\"a\\\\\""}},
	{"str", []string{"'a'", "'it''s'", "'a\\\\'", "'\\''", "''", "'a\\'", "'\\\\'"}},
	{"hexval", []string{"X'AB'", "x'ab'", "x''", "x'A'"}},
	{"bitval", []string{"B'01'", "b'1'", "b''"}},
	{"pgesc", []string{"E'a\\n'", "e'x'"}},
	{"int", []string{"1", "007", "0"}},
	{"float", []string{"1.5", ".5", "1.", "1e3", "1e+3", "1E-3", "1e", "1.e", "1e+"}},
	{"hexnum", []string{"0xAB", "0x", "0X1f"}},
	{"qm", []string{"?"}},
	{"bind", []string{":v1", ":name", ":a.b", ":"}},
	{"cast", []string{"::int", "::a.b", "::"}},
	{"dollar", []string{"$1", "$", "$12"}},
	{"cmp", []string{"=", "<", ">", "<=", ">=", "!=", "<>", "<=>"}},
	{"bitop", []string{"|", "&", "<<", ">>", "^", "~", "&&", "||"}},
	{"arith", []string{"+", "-", "*", "/", "%", "!"}},
	{"punct", []string{"(", ")", ",", "."}},
}

// hostile identifier names
var c13lexNames = []string{
	"select", "from", "key", "status", "Select", "a b", "a.b", "a`b", "a\"b", "1a", "a-b", " a", "a ", "@@x", "@@x.y", "@x", "x'y",
	"DUAL", "dual", "Dual", "x", "X", "b", "B", "e", "E", "_x", "é", "a\\b", "a1", "9", "a'", "a(", "a,b", "-", "*", "a::b", "$1", "?",
	"and", "div", "binary", "_binary", "interval", "values", "null", "true", "a\nb", "#", "--", "/*", "a/*b", "x''", "`", "\"",
}

func (c *c13lex) q(name string) string {
	if c.pg {
		return "\"" + strings.ReplaceAll(name, "\"", "\"\"") + "\""
	}
	return "`" + strings.ReplaceAll(name, "`", "``") + "`"
}

var c13lexStrs = []string{"a", "", "it's", "a\\", "\\", "\\'", "'", "''", "a\\\\", "\\x41", "\\X", "x\\x", "a\"b", "\x00\n\r\x1a\t\b", "%_", "a'b\\", "--", "/*", "é", "?", ":v1"}

func (c *c13lex) strLit(v string) string {
	var sb strings.Builder
	sb.WriteByte('\'')
	for i := 0; i < len(v); i++ {
		switch v[i] {
		case '\'':
			sb.WriteString("''")
		case '\\':
			sb.WriteString("\\\\")
		case 0:
			sb.WriteString("\\0")
		case '\n':
			sb.WriteString("\\n")
		default:
			sb.WriteByte(v[i])
		}
	}
	sb.WriteByte('\'')
	return sb.String()
}

var c13lexNums = []string{"1", "0", "007", "1.5", ".5", "1.", "1e3", "1e+3", "1E-3", "1.5e10", "0x1F", "0XaB", "x'0A'", "X'ab'", "b'01'", "B'1'", "9223372036854775808", "1e", "1.e5"}
var c13lexBin = []string{"+", "-", "*", "/", "%", "&", "|", "^", "<<", ">>", "div", "=", "<", ">", "<=", ">=", "!=", "<>", "<=>", "and", "or", "like", "in"}
var c13lexUn = []string{"-", "+", "~", "!", "binary ", "- -", "-+", "+-", "~-", "!-", "- ~", "! !", "- - -", "-(-", "not "}

func (c *c13lex) pickS(xs []string) string { return xs[c.r.Intn(len(xs))] }

func (c *c13lex) operand() string {
	switch c.r.Intn(9) {
	case 0:
		return c.q(c.pickS(c13lexNames))
	case 1:
		return c.q(c.pickS(c13lexNames)) + "." + c.q(c.pickS(c13lexNames))
	case 2:
		return c.strLit(c.pickS(c13lexStrs))
	case 3, 4:
		return c.pickS(c13lexNums)
	case 5:
		if c.pg {
			return c.pickS([]string{"$1", "$2", "1::int", "'a'::text::varchar", "1.5::numeric", "?::int", "E'a\\\\'", "e'\\''"})
		}
		return c.pickS([]string{"?", "\"dq\"", "\"d\\\\\"", "\"\"", "_binary 'x'", "interval 1 day"})
	case 6:
		return "(" + c.pickS(c13lexNums) + ")"
	case 7:
		return "f(" + c.pickS(c13lexNums) + ", " + c.strLit(c.pickS(c13lexStrs)) + ")"
	default:
		return "?"
	}
}

func (c *c13lex) expr(d int) string {
	if d <= 0 {
		return c.operand()
	}
	switch c.r.Intn(6) {
	case 0:
		return c.pickS(c13lexUn) + c.expr(d-1)
	case 1, 2:
		op := c.pickS(c13lexBin)
		if op == "in" {
			return c.expr(d-1) + " in (" + c.expr(d-1) + ", " + c.operand() + ")"
		}
		return c.expr(d-1) + " " + op + " " + c.expr(d-1)
	case 3:
		return "(" + c.expr(d-1) + ")"
	case 4:
		return "case when " + c.expr(d-1) + " then " + c.operand() + " else " + c.operand() + " end"
	default:
		return c.operand()
	}
}

// one statement text aimed at adjacency
func (c *c13lex) stmtText() string {
	n := func() string { return c.q(c.pickS(c13lexNames)) }
	e := func() string {
		s := c.expr(1 + c.r.Intn(2))
		// balance parentheses opened by the "-(-" prefix
		if o, cl := strings.Count(s, "("), strings.Count(s, ")"); o > cl {
			s += strings.Repeat(")", o-cl)
		}
		return s
	}
	switch c.r.Intn(8) {
	case 0:
		return fmt.Sprintf("select %s, %s.%s as %s, %s from %s.%s as %s where %s", e(), n(), n(), n(), e(), n(), n(), n(), e())
	case 1:
		return fmt.Sprintf("select %s from %s join %s on %s.%s = %s.%s order by %s desc limit %s", e(), n(), n(), n(), n(), n(), n(), e(), c.pickS([]string{"1", "?", "10 offset 2"}))
	case 2:
		return fmt.Sprintf("insert into %s (%s, %s) values (%s, %s), (%s, %s)", n(), n(), n(), e(), e(), c.operand(), c.operand())
	case 3:
		return fmt.Sprintf("update %s set %s = %s, %s.%s = %s where %s", n(), n(), e(), n(), n(), e(), e())
	case 4:
		return fmt.Sprintf("delete from %s where %s and %s in (%s, %s)", n(), e(), n(), c.operand(), c.operand())
	case 5:
		return fmt.Sprintf("select %s(%s), %s.%s(%s) from %s", c.pickS([]string{"f", "count", "if", "left", "mod", "x", "b", "e"}), e(), n(), c.pickS([]string{"f", "g1"}), c.operand(), n())
	case 6:
		return fmt.Sprintf("select %s from %s where %s between %s and %s and %s like %s escape %s", e(), n(), c.operand(), c.operand(), c.operand(), c.operand(), c.strLit(c.pickS(c13lexStrs)), c.strLit("!"))
	default:
		return fmt.Sprintf("select %s from (select %s as %s from %s) as %s", e(), e(), n(), n(), n())
	}
}

// spaced: the statement with a space around every parenthesis and comma outside quotes, so that what the tokenizer
// makes of the SOURCE does not depend on adjacency; the adjacency of the printed text is then the printer's alone
func c13lexSpaced(s string) string {
	var sb strings.Builder
	for i := 0; i < len(s); i++ {
		ch := s[i]
		switch ch {
		case '\'', '"', '`':
			j := i + 1
			for j < len(s) {
				if s[j] == '\\' && ch != '`' && j+1 < len(s) {
					j += 2
					continue
				}
				if s[j] == ch {
					if j+1 < len(s) && s[j+1] == ch {
						j += 2
						continue
					}
					break
				}
				j++
			}
			if j >= len(s) {
				j = len(s) - 1
			}
			sb.WriteString(s[i : j+1])
			i = j
		case '(', ')', ',':
			sb.WriteByte(' ')
			sb.WriteByte(ch)
			sb.WriteByte(' ')
		default:
			sb.WriteByte(ch)
		}
	}
	return sb.String()
}

// hostile values per literal type (trees the grammar cannot build)
var c13lexHostile = map[sqlparser.ValType][]string{
	sqlparser.IntVal:   {"-5", "5x", "", "1.5", "1e3", " 1", "1 ", "0x1", "--1", "1/*"},
	sqlparser.FloatVal: {"-1.5", "1e", "1.", ".5", "1e+", "5x", "1.5.5", "", ".", "1e5e5", "1.e5", "e5"},
	sqlparser.HexNum:   {"0x", "0xZ", "0x1g", "1x0", "0X1F"},
	sqlparser.HexVal:   {"ABC", "G1", "", "a'b", "ab"},
	sqlparser.BitVal:   {"012", "", "1'0", "10"},
	sqlparser.StrVal:   {"a'b", "\\", "a\\", "\\x41", "'", ""},
	sqlparser.ValArg:   {":x", ":v9", ":v1", "?", ":1", "::a", ":a b", ":"},
}

// mutate: one hostile edit of a literal text or of a name; returns what was done
func (c *c13lex) mutate(t sqlparser.Statement) string {
	var vals []*sqlparser.SQLVal
	var cols []*sqlparser.ColName
	sqlparser.Walk(func(n sqlparser.SQLNode) (bool, error) {
		if isNilNode(n) {
			return false, nil
		}
		switch v := n.(type) {
		case *sqlparser.SQLVal:
			vals = append(vals, v)
		case *sqlparser.ColName:
			cols = append(cols, v)
		}
		return true, nil
	}, t)
	if len(vals) > 0 && (len(cols) == 0 || c.r.Intn(3) != 0) {
		v := vals[c.r.Intn(len(vals))]
		if h, ok := c13lexHostile[v.Type]; ok {
			v.Val = []byte(c.pickS(h))
			return "lit:" + fmt.Sprint(int(v.Type))
		}
		return ""
	}
	if len(cols) > 0 {
		col := cols[c.r.Intn(len(cols))]
		switch c.r.Intn(3) {
		case 0:
			col.Name = sqlparser.NewColIdent(c.pickS(c13lexNames))
			return "name:col"
		case 1:
			col.Qualifier = sqlparser.TableName{Name: sqlparser.NewTableIdent(c.pickS([]string{"@@a", "@@x.y", "@@", "t", "a b"}))}
			return "name:qualifier"
		default:
			col.Qualifier = sqlparser.TableName{Name: sqlparser.NewTableIdent(c.pickS(c13lexNames)), Qualifier: sqlparser.NewTableIdent(c.pickS(c13lexNames))}
			return "name:qualifier2"
		}
	}
	return ""
}

// c13lexSysq: an unquoted system variable name used as a qualifier ("@@a".b): formatID prints it bare
func (c *c13lex) sysq(t sqlparser.Statement) bool {
	bare := func(s string) bool {
		if len(s) < 2 || s[:2] != "@@" {
			return false
		}
		var sb strings.Builder
		buf := sqlparser.NewTrackedBuffer(nil)
		sqlparser.NewTableIdent(s).Format(buf)
		sb.WriteString(buf.String())
		return sb.String() == s
	}
	found := false
	sqlparser.Walk(func(n sqlparser.SQLNode) (bool, error) {
		if isNilNode(n) {
			return false, nil
		}
		switch v := n.(type) {
		case *sqlparser.ColName:
			if bare(v.Qualifier.Name.RawValue()) || bare(v.Qualifier.Qualifier.RawValue()) {
				found = true
			}
		case sqlparser.TableName:
			if bare(v.Qualifier.RawValue()) {
				found = true
			}
		case *sqlparser.StarExpr:
			if bare(v.TableName.Name.RawValue()) || bare(v.TableName.Qualifier.RawValue()) {
				found = true
			}
		case *sqlparser.FuncExpr:
			if bare(v.Qualifier.RawValue()) {
				found = true
			}
		}
		return !found, nil
	}, t)
	return found
}

// dqName: some identifier of the tree contains a double quote
func (c *c13lex) dqName(t sqlparser.Statement) bool {
	found := false
	sqlparser.Walk(func(n sqlparser.SQLNode) (bool, error) {
		if isNilNode(n) {
			return false, nil
		}
		switch v := n.(type) {
		case sqlparser.ColIdent:
			found = found || strings.Contains(v.String(), "\"")
		case sqlparser.TableIdent:
			found = found || strings.Contains(v.RawValue(), "\"")
		}
		return !found, nil
	}, t)
	return found
}

// opAdj: one tree: String, Tokenizer, Parse on the real code; replayed on the model with the adjacency verdicts
func (c *c13lex) opAdj(t1 sqlparser.Statement, origin string, parsedClean bool) bool {
	term, _, ok, why := c13sExport(c.pg, t1)
	if !ok {
		c.rep.Count("adj:outside:" + why)
		return false
	}
	printed, pan := c13String(t1)
	if pan != "" {
		c.rep.Count("adj:string-panic")
		return false
	}
	ts := "None"
	if toks, ok, why := c.c13sTokens(printed); ok {
		ts = "(Some " + c13sTokList(toks) + ")"
	} else if why != "lex-error" {
		c.rep.Count("adj:token-outside:" + why)
		return false
	} else {
		c.rep.Count("adj:relex-error:" + origin)
	}
	same := false
	t2, err, pan := c.parse(printed)
	if pan == "" && err == nil && t2 != nil {
		same, _ = astEqual(t1, t2)
	}
	must := parsedClean && same && c.valArgsStableS(t1, printed)
	c.rep.Count(fmt.Sprintf("adj:%s:%s:same=%v:must=%v", origin, c.dname(), same, must))
	c.add(fmt.Sprintf("adj %s %s %s", c.dname(), origin, clip(printed, 200)),
		fmt.Sprintf("(LAdj %s %s %s %s %s %s)", c13sBool(c.pg), term, ts, c13sChunks([]byte(printed)), c13sBool(same), c13sBool(must)))
	return true
}

// own oracle: Parse(String(t)) = t on the implementation; the known class of this extension first
func (c *c13lex) oracleLex(s string, t1 sqlparser.Statement, origin string) bool {
	before := len(c.rep.Violations)
	if c.sysq(t1) {
		c.rep.OracleChecks++
		s2, _ := c13String(t1)
		t2, err, _ := c.parse(s2)
		if err == nil && t2 != nil {
			if eq, _ := astEqual(t1, t2); !eq {
				c.rep.Violate("lex-sysvar-qualifier", "an unquoted system-variable name used as a qualifier is re-read as one identifier with the following name",
					fmt.Sprintf("dialect: %s (%s)\ns : %s\ns2: %s", c.dname(), origin, s, s2))
				return false
			}
		}
		return true
	}
	if c.pg && c.dqName(t1) {
		// the known finding of the c13 domain: a PostgreSQL identifier containing a double quote is printed raw
		c.rep.OracleChecks++
		s2, _ := c13String(t1)
		t2, err, _ := c.parse(s2)
		eq := false
		if err == nil && t2 != nil {
			eq, _ = astEqual(t1, t2)
		}
		if !eq {
			c.rep.Violate("roundtrip-reparse-error-ColName", "PostgreSQL: an identifier containing a double quote is printed without doubling it",
				fmt.Sprintf("dialect: %s (%s)\ns : %s\ns2: %s", c.dname(), origin, s, s2))
			return false
		}
		return true
	}
	c.oracle(s, t1, origin)
	return len(c.rep.Violations) == before
}

// tokKey: the token stream of a text on the real tokenizer, bind-variable numbering removed
func (c *c13lex) tokKey(text string) (string, bool) {
	toks, ok := c.scanAll(text)
	if !ok {
		return "", false
	}
	var sb strings.Builder
	for _, t := range toks {
		v := string(t.val)
		if t.typ == sqlparser.VALUE_ARG && strings.HasPrefix(v, ":v") {
			v = ":v"
		}
		fmt.Fprintf(&sb, "%d:%q ", t.typ, v)
	}
	return sb.String(), true
}

func (c *c13lex) opLexPair(x, y, sep string) {
	text := x + sep + y
	// own oracle (implementation only): a space between two complete lexemes keeps them apart
	if sep == " " {
		kx, okx := c.tokKey(x)
		ky, oky := c.tokKey(y)
		if okx && oky && kx != "" && ky != "" {
			c.rep.OracleChecks++
			if k, ok := c.tokKey(text); !ok || k != kx+ky {
				c.rep.Violate("lex-space-composition", "two lexemes separated by a space are not tokenized as the one followed by the other",
					fmt.Sprintf("dialect: %s\ntext: %q\ntokens(x): %s\ntokens(y): %s\ntokens(text): %s (ok=%v)", c.dname(), text, kx, ky, k, ok))
			}
		}
	}
	res := "None"
	if toks, ok, _ := c.c13sTokens(text); ok {
		res = "(Some " + c13sTokList(toks) + ")"
		c.rep.Count("pair:ok")
	} else {
		if _, lexok := c.scanAll(text); lexok {
			c.rep.Count("pair:outside-token")
			return
		}
		c.rep.Count("pair:error")
	}
	c.batch = append(c.batch, fmt.Sprintf("(%s, %s)", c13sChunks([]byte(text)), res))
	c.batchLabel = append(c.batchLabel, fmt.Sprintf("%q", text))
	if len(c.batch) >= 25 {
		c.flushPairs()
	}
}

func (c *c13lex) flushPairs() {
	if len(c.batch) == 0 {
		return
	}
	c.add(clip(fmt.Sprintf("pairs %s %s", c.dname(), strings.Join(c.batchLabel, " ")), 600),
		fmt.Sprintf("(LLex %s [%s])", c13sBool(c.pg), strings.Join(c.batch, "; ")))
	c.batch, c.batchLabel = nil, nil
}

// fixed statements: the adjacency corners named by the property text and the finding of this extension
var c13lexBoundary = []string{
	"select -1, - 1, - -1, -(-1), ~-1, !-1, - ~1, -+1, +-1, - - -a, -a, - -a, !a, ! !a, -1.5, - -1.5, -.5, -0x10, - x'0A', -?, - 'a' from t",
	"select 1 - -2, 1 - - 2, 1 -(-2), a - -b, a < -1, a <= -1, a <> -1, a <=> -1, a << -1, a >> -1, a / -1, a * -1, a & -1, a | -1 from t",
	"select f(1), f(-1), f(a.b), f(t.*), count(*), a.b, d.t.c, t.*, d.t.* from d.t",
	"select 'a\\\\', 'it''s', '\\\\', '''', 'a\\\\' 'b', ('a\\\\'), f('a\\\\', '\\''), 'x' from t where a in ('a\\\\', '\\'') and b = 'a\\\\'",
	"select 1, 1.5, .5, 1., 1e3, 1e+3, 1E-3, 0x1F, x'0A', b'01', (1), (1.), (.5), (1e3), f(1, 1., .5, 1e3, 0x1F) from t",
	"select `x`, `X`, `b`, `e`, `E`, `x`.`b`, `e`.`x` from `b`.`x` as `e`",
	"select `@@a`, `@@a.b`, `@x`, @@global.x, @v from t",
	"select a from t where a = ? and b in (?, ?) and c between ? and ? limit ?",
	// the finding of this extension (known_findings.json lex-sysvar-qualifier)
	"select `@@a`.b from t",
	"select t.a from `@@d`.t",
}
var c13lexBoundaryPg = []string{
	"select 1::int, 'a'::text, 1.5::numeric::text, ?::int, $1::int, (1)::int, -1::int, a::int from t",
	"select $1, $2, $10 from t where a = $1 and b in ($2, $3)",
	"select \"x\", \"X\", \"a\"\"b\", \"select\".\"from\", E'a\\\\', e'\\'' , E'a\\n' 'b' from \"b\".\"x\" as \"e\"",
}

func runC13lex(rep *vh.Report, r *vh.Rng, n int, thorough bool) {
	r = vh.NewRng(r.U64())
	c := &c13lex{c13s: &c13s{c13: &c13{rep: rep, r: r}, pieces: map[bool]*c13sPool{}}}

	// ---- 1. every ordered pair of lexeme classes through the real tokenizer (quick: a seed-chosen share) ----
	type rep2 struct{ cls, s string }
	var all []rep2
	for _, k := range c13lexClasses {
		for _, s := range k.reps {
			all = append(all, rep2{k.name, s})
		}
	}
	pairs := 0
	for _, pg := range []bool{false, true} {
		c.use(pg)
		for _, x := range all {
			for _, y := range all {
				for _, sep := range []string{"", " "} {
					if !thorough && r.Intn(40) != 0 {
						continue
					}
					rep.Count("pair-class:" + x.cls + "+" + y.cls)
					c.opLexPair(x.s, y.s, sep)
					pairs++
				}
			}
		}
		c.flushPairs()
	}
	// every ordered pair of CLASSES at least once, glued (first representatives)
	for _, pg := range []bool{false, true} {
		c.use(pg)
		for i, kx := range c13lexClasses {
			for j, ky := range c13lexClasses {
				if thorough || (i+j+int(r.U64()%5))%5 == 0 {
					c.opLexPair(kx.reps[0], ky.reps[0], "")
				}
			}
		}
		c.flushPairs()
	}

	// ---- 2. boundary statements ----
	for _, pg := range []bool{false, true} {
		c.use(pg)
		bs := append([]string{}, c13lexBoundary...)
		if pg {
			bs = append(bs, c13lexBoundaryPg...)
		}
		for _, s0 := range bs {
			bs = append(bs, c13lexSpaced(s0))
		}
		for _, s := range bs {
			if pg {
				s = strings.ReplaceAll(s, "`", "\"")
			}
			t1, err, pan := c.parse(s)
			if pan != "" {
				rep.OracleChecks++
				rep.Violate("panic", "Parse panicked: "+pan, c.dname()+": "+s)
				continue
			}
			if err != nil || t1 == nil {
				rep.Count("boundary:rejected:" + c.dname())
				continue
			}
			clean := c.oracleLex(s, t1, "boundary")
			c.opAdj(t1, "boundary", clean)
		}
	}

	// ---- 2b. operator trees CONSTRUCTED on a parsed template (independent of the tokenizer's reading of the operator):
	// every comparison / binary / prefix operator between every operand kind ----
	cmpOps := []string{sqlparser.EqualStr, sqlparser.LessThanStr, sqlparser.GreaterThanStr, sqlparser.LessEqualStr, sqlparser.GreaterEqualStr,
		sqlparser.NotEqualStr, sqlparser.NullSafeEqualStr, sqlparser.LikeStr, sqlparser.NotLikeStr, sqlparser.RegexpStr, sqlparser.NotRegexpStr}
	binOps := []string{sqlparser.BitAndStr, sqlparser.BitOrStr, sqlparser.BitXorStr, sqlparser.PlusStr, sqlparser.MinusStr, sqlparser.MultStr,
		sqlparser.DivStr, sqlparser.IntDivStr, sqlparser.ModStr, sqlparser.ShiftLeftStr, sqlparser.ShiftRightStr}
	unOps := []string{sqlparser.UPlusStr, sqlparser.UMinusStr, sqlparser.TildaStr, sqlparser.BangStr}
	operands := []string{"a", "1", "-1", "'s'", "(1)", "-a", "~1", "1.5", "x'0A'", "?"}
	for _, pg := range []bool{false, true} {
		c.use(pg)
		for oi, l := range operands {
			for oj, rr := range operands {
				plain := oi == 0 && oj == 0
				if !thorough && !plain && r.Intn(8) != 0 {
					continue
				}
				tmpl := fmt.Sprintf("select %s = %s, %s + %s, -%s from t", l, rr, l, rr, rr)
				k0 := r.Intn(len(cmpOps))
				for k := 0; k < len(cmpOps); k++ {
					if !thorough && !plain && k != k0 && k != (k0+5)%len(cmpOps) {
						continue
					}
					t1, err, pan := c.parse(tmpl)
					if err != nil || pan != "" || t1 == nil {
						rep.Count("ops:template-rejected")
						break
					}
					co, bo, uo := cmpOps[k%len(cmpOps)], binOps[k%len(binOps)], unOps[k%len(unOps)]
					sqlparser.Walk(func(n sqlparser.SQLNode) (bool, error) {
						if isNilNode(n) {
							return false, nil
						}
						switch v := n.(type) {
						case *sqlparser.ComparisonExpr:
							v.Operator = co
						case *sqlparser.BinaryExpr:
							v.Operator = bo
						case *sqlparser.UnaryExpr:
							if v.Operator == sqlparser.UMinusStr {
								if _, lit := v.Expr.(*sqlparser.SQLVal); !lit || (uo != sqlparser.UMinusStr && uo != sqlparser.UPlusStr) {
									v.Operator = uo
								}
							}
						}
						return true, nil
					}, t1)
					rep.Count("ops:" + co + ":" + bo + ":" + uo)
					src := fmt.Sprintf("template %q with operators %s %s %s", tmpl, co, bo, uo)
					clean := c.oracleLex(src, t1, "operators")
					c.opAdj(t1, "operators", clean)
				}
			}
		}
	}

	// ---- 3. generated adjacency statements, then the same trees with one hostile edit ----
	acc, tries := 0, 0
	for acc < n && tries < 20*n {
		tries++
		pg := r.Intn(3) == 0
		c.use(pg)
		s := c.stmtText()
		if r.Intn(2) == 0 {
			s = c13lexSpaced(s)
			rep.Count("gen:spaced")
		}
		t1, err, pan := c.parse(s)
		if pan != "" {
			rep.OracleChecks++
			rep.Violate("panic", "Parse panicked: "+pan, c.dname()+": "+s)
			continue
		}
		if err != nil || t1 == nil {
			rep.Count("gen:rejected:" + c.dname())
			continue
		}
		rep.Count("gen:accepted:" + c.dname())
		clean := c.oracleLex(s, t1, "generated")
		if !c.opAdj(t1, "generated", clean) {
			continue
		}
		acc++
		if r.Intn(2) == 0 {
			if what := c.mutate(t1); what != "" {
				rep.Count("edit:" + what)
				c.opAdj(t1, "edited", false)
			}
		}
	}
	rep.Count(fmt.Sprintf("pairs:%d", pairs))
	c.use(false)
}
