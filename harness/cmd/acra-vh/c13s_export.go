package main

// C13_statements: real sqlparser trees -> terms of coq/Model/SqlStmt.v (stmt / sel / texpr / expr ...), and the
// real Tokenizer's output -> model tokens.  ok=false: the tree (or token) is outside the modelled fragment, `why`
// names the node; reasons starting with "partial:" are trees the grammar can build that the model leaves out on
// purpose (listed in the report).

import (
	"bytes"
	"fmt"
	"reflect"
	"strings"

	"acra-vh/vh"

	"github.com/cossacklabs/acra/sqlparser"
)

type c13sExp struct {
	pg   bool
	lits []*sqlparser.SQLVal // SQLVal nodes in print order (filled while exporting)
}

type c13sOut struct{ why string }

func (o c13sOut) Error() string { return o.why }

func c13sFailf(format string, a ...interface{}) { panic(c13sOut{fmt.Sprintf(format, a...)}) }

// export: term of type stmt
func c13sExport(pg bool, st sqlparser.Statement) (term string, lits []*sqlparser.SQLVal, ok bool, why string) {
	x := &c13sExp{pg: pg}
	defer func() {
		if r := recover(); r != nil {
			if o, isOut := r.(c13sOut); isOut {
				term, ok, why = "", false, o.why
				return
			}
			panic(r)
		}
	}()
	return x.stmt(st), x.lits, true, ""
}

func c13sH(b []byte) string { return "0x1" + fmt.Sprintf("%x", b) }

func (x *c13sExp) id(val string, quote byte) string {
	if val == "" {
		if quote != 0 {
			c13sFailf("ident:empty-quoted")
		}
		return "I0"
	}
	switch quote {
	case 0:
		return "(I " + c13sH([]byte(val)) + ")"
	case '"':
		return "(Iq " + c13sH([]byte(val)) + ")"
	case '\'':
		return "(Is " + c13sH([]byte(val)) + ")"
	}
	c13sFailf("ident:quote-%c", quote)
	return ""
}

func (x *c13sExp) colIdent(c sqlparser.ColIdent) string {
	v := reflect.ValueOf(c)
	if v.FieldByName("unquote").Bool() {
		c13sFailf("ColIdent:unquote")
	}
	return x.id(c.String(), byte(v.FieldByName("quote").Uint()))
}

func (x *c13sExp) tableIdent(t sqlparser.TableIdent) string {
	return x.id(t.RawValue(), byte(reflect.ValueOf(t).FieldByName("quote").Uint()))
}

// sql_id / table_id positions: the model has no single-quoted names there
func (x *c13sExp) noSq(term string) string {
	if strings.HasPrefix(term, "(Is ") {
		c13sFailf("partial:single-quoted-name")
	}
	return term
}

func (x *c13sExp) tableName(t sqlparser.TableName) (q, n string) {
	if t.Name.IsEmpty() {
		c13sFailf("TableName:empty")
	}
	return x.noSq(x.tableIdent(t.Qualifier)), x.noSq(x.tableIdent(t.Name))
}

func (x *c13sExp) qualList(t sqlparser.TableName) string {
	var q []string
	if t.Name.IsEmpty() {
		if !t.Qualifier.IsEmpty() {
			c13sFailf("TableName:qualifier-without-name")
		}
		return "[]"
	}
	if !t.Qualifier.IsEmpty() {
		q = append(q, x.noSq(x.tableIdent(t.Qualifier)))
	}
	q = append(q, x.noSq(x.tableIdent(t.Name)))
	return coqList(q)
}

func (x *c13sExp) col(n *sqlparser.ColName) string {
	if n == nil {
		c13sFailf("ColName:nil")
	}
	return x.qualList(n.Qualifier) + " " + x.noSq(x.colIdent(n.Name))
}

var c13sCmpOps = map[string]string{
	"=": "CEq", "<": "CLt", ">": "CGt", "<=": "CLe", ">=": "CGe", "!=": "CNe", "<=>": "CNse", "in": "CIn", "not in": "CNotIn",
	"like": "CLike", "not like": "CNotLike", "ilike": "CILike", "not ilike": "CNotILike", "regexp": "CRegexp", "not regexp": "CNotRegexp",
}
var c13sJoins = map[string]string{
	sqlparser.JoinStr: "JJoin", sqlparser.StraightJoinStr: "JStraight", sqlparser.LeftJoinStr: "JLeft", sqlparser.RightJoinStr: "JRight",
	sqlparser.NaturalJoinStr: "JNatural", sqlparser.NaturalLeftJoinStr: "JNaturalLeft", sqlparser.NaturalRightJoinStr: "JNaturalRight",
}
var c13sDirs = map[string]string{
	sqlparser.AscScr: "DAsc", sqlparser.DescScr: "DDesc", sqlparser.AscNullsFirstScr: "DAscNF", sqlparser.AscNullsLastScr: "DAscNL",
	sqlparser.DescNullsFirstScr: "DDescNF", sqlparser.DescNullsLastScr: "DDescNL",
}
var c13sUnions = map[string]string{sqlparser.UnionStr: "UUnion", sqlparser.UnionAllStr: "UAll", sqlparser.UnionDistinctStr: "UDistinct"}
var c13sLocks = map[string]string{"": "LkNone", sqlparser.ForUpdateStr: "LkForUpdate", sqlparser.ShareModeStr: "LkShare"}

func c13sStartsParen(s sqlparser.SelectStatement) bool {
	switch n := s.(type) {
	case *sqlparser.ParenSelect:
		return true
	case *sqlparser.Union:
		return c13sStartsParen(n.Left)
	}
	return false
}

func (x *c13sExp) subq(s *sqlparser.Subquery) string {
	if s == nil || isNilNode(s.Select) {
		c13sFailf("Subquery:nil")
	}
	if c13sStartsParen(s.Select) {
		c13sFailf("partial:subquery-starting-with-parenthesis")
	}
	return x.sel(s.Select)
}

// val: operand of a value-level construct.  DEFAULT there is accepted by the LALR parser depending on the token that
// follows it (reduce/reduce conflict of `expression: DEFAULT default_opt` with `value: DEFAULT`); the model keeps
// DEFAULT to expression positions.
func (x *c13sExp) val(e sqlparser.Expr) string {
	if _, isDefault := e.(*sqlparser.Default); isDefault {
		c13sFailf("partial:default-as-value-operand")
	}
	return x.expr(e)
}

func (x *c13sExp) expr(e sqlparser.Expr) string {
	if isNilNode(e) {
		c13sFailf("Expr:nil")
	}
	switch n := e.(type) {
	case *sqlparser.AndExpr:
		l := x.expr(n.Left)
		return "(EAnd " + l + " " + x.expr(n.Right) + ")"
	case *sqlparser.OrExpr:
		l := x.expr(n.Left)
		return "(EOr " + l + " " + x.expr(n.Right) + ")"
	case *sqlparser.NotExpr:
		return "(ENot " + x.expr(n.Expr) + ")"
	case *sqlparser.ParenExpr:
		return "(EParen " + x.expr(n.Expr) + ")"
	case *sqlparser.ComparisonExpr:
		op, ok := c13sCmpOps[n.Operator]
		if !ok {
			c13sFailf("ComparisonExpr:%s", n.Operator)
		}
		l := x.val(n.Left)
		var r string
		switch n.Right.(type) {
		case sqlparser.ValTuple, *sqlparser.Subquery:
			r = x.expr(n.Right)
		default:
			r = x.val(n.Right)
		}
		if n.Escape == nil {
			return "(ECmp " + op + " " + l + " " + r + ")"
		}
		return "(ECmpEsc " + op + " " + l + " " + r + " " + x.val(n.Escape) + ")"
	case *sqlparser.RangeCond:
		neg := "false"
		switch n.Operator {
		case sqlparser.BetweenStr:
		case sqlparser.NotBetweenStr:
			neg = "true"
		default:
			c13sFailf("RangeCond:%s", n.Operator)
		}
		l := x.val(n.Left)
		a := x.val(n.From)
		return "(ERange " + neg + " " + l + " " + a + " " + x.val(n.To) + ")"
	case *sqlparser.IsExpr:
		op, ok := c13IsOps[n.Operator]
		if !ok {
			c13sFailf("IsExpr:%s", n.Operator)
		}
		return "(EIs " + op + " " + x.expr(n.Expr) + ")"
	case *sqlparser.ExistsExpr:
		return "(EExists " + x.subq(n.Subquery) + ")"
	case *sqlparser.BinaryExpr:
		op, ok := c13BinOps[n.Operator]
		if !ok {
			c13sFailf("BinaryExpr:%s", n.Operator)
		}
		l := x.val(n.Left)
		return "(EBin " + op + " " + l + " " + x.val(n.Right) + ")"
	case *sqlparser.UnaryExpr:
		op, ok := c13UnOps[n.Operator]
		if !ok {
			c13sFailf("UnaryExpr:%s", n.Operator)
		}
		return "(EUn " + op + " " + x.val(n.Expr) + ")"
	case *sqlparser.CollateExpr:
		return "(ECollate " + x.val(n.Expr) + " (hb " + c13sH([]byte(n.Charset)) + "))"
	case *sqlparser.SQLVal:
		if n.Type < sqlparser.StrVal || n.Type > sqlparser.PgPlaceholder {
			c13sFailf("SQLVal:unknown")
		}
		var casts []string
		if len(n.CastType) != 0 {
			parts := bytes.Split(n.CastType, []byte("::"))
			if len(parts[0]) != 0 {
				c13sFailf("SQLVal:cast-shape")
			}
			for _, p := range parts[1:] {
				casts = append(casts, "hb "+c13sH(append([]byte("::"), p...)))
			}
		}
		x.lits = append(x.lits, n)
		return fmt.Sprintf("(ELit %d (hb %s) %s)", int(n.Type), c13sH(n.Val), coqList(casts))
	case *sqlparser.NullVal:
		return "ENull"
	case sqlparser.BoolVal:
		if bool(n) {
			return "(EBool true)"
		}
		return "(EBool false)"
	case *sqlparser.Default:
		if n.ColName != "" {
			c13sFailf("partial:Default-with-column")
		}
		return "EDefault"
	case *sqlparser.ColName:
		return "(ECol " + x.col(n) + ")"
	case sqlparser.ValTuple:
		return "(ETuple " + x.exprs(sqlparser.Exprs(n)) + ")"
	case *sqlparser.Subquery:
		return "(ESubq " + x.subq(n) + ")"
	case *sqlparser.FuncExpr:
		nv := reflect.ValueOf(n.Name)
		if nv.FieldByName("quote").Uint() != 0 || nv.FieldByName("unquote").Bool() {
			c13sFailf("FuncExpr:quoted-name")
		}
		q := x.noSq(x.tableIdent(n.Qualifier))
		if q != "I0" && (n.Distinct || !plainIdent(n.Name.String())) {
			c13sFailf("partial:qualified-function-keyword-or-distinct")
		}
		d := "false"
		if n.Distinct {
			d = "true"
		}
		return fmt.Sprintf("(EFunc %s (hb %s) %s %s)", q, c13sH([]byte(n.Name.String())), d, x.selExprs(n.Exprs))
	case *sqlparser.CaseExpr:
		xo := "NoE"
		if n.Expr != nil {
			xo = "(SomeE " + x.expr(n.Expr) + ")"
		}
		ws := "WNil"
		var parts []string
		for _, w := range n.Whens {
			if w == nil {
				c13sFailf("When:nil")
			}
			c := x.expr(w.Cond)
			parts = append(parts, "(WCons "+c+" "+x.expr(w.Val)+" ")
		}
		el := "NoE"
		if n.Else != nil {
			el = "(SomeE " + x.expr(n.Else) + ")"
		}
		return "(ECase " + xo + " " + strings.Join(parts, "") + ws + strings.Repeat(")", len(parts)) + " " + el + ")"
	case *sqlparser.ConvertExpr:
		xe := x.expr(n.Expr)
		if n.Type == nil {
			c13sFailf("ConvertType:nil")
		}
		if n.Type.Charset != "" {
			c13sFailf("partial:ConvertType-charset")
		}
		ol := func(v *sqlparser.SQLVal) string {
			if v == nil {
				return "None"
			}
			if v.Type != sqlparser.IntVal || len(v.CastType) != 0 {
				c13sFailf("ConvertType:length-not-int")
			}
			return "(Some (hb " + c13sH(v.Val) + "))"
		}
		return fmt.Sprintf("(EConvert %s (CT (hb %s) %s %s))", xe, c13sH([]byte(n.Type.Type)), ol(n.Type.Length), ol(n.Type.Scale))
	case *sqlparser.ConvertUsingExpr:
		return "(EConvertUsing " + x.expr(n.Expr) + " (hb " + c13sH([]byte(n.Type)) + "))"
	case *sqlparser.IntervalExpr:
		return "(EInterval " + x.val(n.Expr) + " (hb " + c13sH([]byte(n.Unit)) + "))"
	case *sqlparser.ValuesFuncExpr:
		return "(EValuesFunc " + x.col(n.Name) + ")"
	}
	c13sFailf("%s", goType(e))
	return ""
}

func (x *c13sExp) exprs(es sqlparser.Exprs) string {
	parts := make([]string, len(es))
	for i, e := range es {
		parts[i] = "(XCons " + x.expr(e) + " "
	}
	return "(" + strings.Join(parts, "") + "XNil" + strings.Repeat(")", len(es)) + ")"
}

func (x *c13sExp) oexpr(e sqlparser.Expr) string {
	if isNilNode(e) {
		return "NoE"
	}
	return "(SomeE " + x.expr(e) + ")"
}

func (x *c13sExp) where(w *sqlparser.Where, typ string) string {
	if w == nil || isNilNode(w.Expr) {
		return "NoE"
	}
	if w.Type != typ {
		c13sFailf("Where:type-%s", w.Type)
	}
	return "(SomeE " + x.expr(w.Expr) + ")"
}

func (x *c13sExp) selExprs(es sqlparser.SelectExprs) string {
	parts := make([]string, len(es))
	for i, se := range es {
		var t string
		switch n := se.(type) {
		case *sqlparser.StarExpr:
			t = "(SStar " + x.qualList(n.TableName) + ")"
		case *sqlparser.AliasedExpr:
			e := x.expr(n.Expr)
			t = "(SAliased " + e + " " + x.colIdent(n.As) + ")"
		default:
			c13sFailf("%s", goType(se))
		}
		parts[i] = "(SCons " + t + " "
	}
	return "(" + strings.Join(parts, "") + "SNil" + strings.Repeat(")", len(es)) + ")"
}

func (x *c13sExp) orders(ob sqlparser.OrderBy) string {
	parts := make([]string, len(ob))
	for i, o := range ob {
		if o == nil {
			c13sFailf("Order:nil")
		}
		d, ok := c13sDirs[o.Direction]
		if !ok {
			c13sFailf("Order:direction-%s", o.Direction)
		}
		parts[i] = "(OCons " + x.expr(o.Expr) + " " + d + " "
	}
	return "(" + strings.Join(parts, "") + "ONil" + strings.Repeat(")", len(ob)) + ")"
}

func (x *c13sExp) limit(l *sqlparser.Limit) string {
	if l == nil {
		return "LNone"
	}
	switch l.Type {
	case sqlparser.LimitTypeLimitOnly:
		if l.Offset != nil {
			c13sFailf("Limit:offset-in-limit-only")
		}
		return "(LOnly " + x.expr(l.Rowcount) + ")"
	case sqlparser.LimitTypeLimitAndOffset:
		c := x.expr(l.Rowcount)
		return "(LOffset " + c + " " + x.expr(l.Offset) + ")"
	case sqlparser.LimitTypeCommaSeparated:
		o := x.expr(l.Offset)
		return "(LComma " + o + " " + x.expr(l.Rowcount) + ")"
	case sqlparser.LimitTypeLimitAll:
		return "LAll"
	case sqlparser.LimitTypeLimitAllAndOffset:
		return "(LAllOffset " + x.expr(l.Offset) + ")"
	}
	c13sFailf("Limit:type-%d", l.Type)
	return ""
}

func (x *c13sExp) lock(s string) string {
	l, ok := c13sLocks[s]
	if !ok {
		c13sFailf("Lock:%s", s)
	}
	return l
}

func (x *c13sExp) sel(s sqlparser.SelectStatement) string {
	if isNilNode(s) {
		c13sFailf("SelectStatement:nil")
	}
	switch n := s.(type) {
	case *sqlparser.Select:
		if len(n.Comments) != 0 {
			c13sFailf("partial:comments")
		}
		if n.Cache != "" || n.Hints != "" {
			c13sFailf("partial:select-cache-or-hint")
		}
		d := "false"
		switch n.Distinct {
		case "":
		case sqlparser.DistinctStr:
			d = "true"
		default:
			c13sFailf("Select:distinct-%s", n.Distinct)
		}
		xs := x.selExprs(n.SelectExprs)
		from := x.texprs(n.From)
		wh := x.where(n.Where, sqlparser.WhereStr)
		gb := x.exprs(sqlparser.Exprs(n.GroupBy))
		hv := x.where(n.Having, sqlparser.HavingStr)
		ob := x.orders(n.OrderBy)
		lm := x.limit(n.Limit)
		return fmt.Sprintf("(Select %s %s %s %s %s %s %s %s %s)", d, xs, from, wh, gb, hv, ob, lm, x.lock(n.Lock))
	case *sqlparser.Union:
		ty, ok := c13sUnions[n.Type]
		if !ok {
			c13sFailf("Union:type-%s", n.Type)
		}
		l := x.sel(n.Left)
		r := x.sel(n.Right)
		ob := x.orders(n.OrderBy)
		lm := x.limit(n.Limit)
		return fmt.Sprintf("(Union %s %s %s %s %s %s)", ty, l, r, ob, lm, x.lock(n.Lock))
	case *sqlparser.ParenSelect:
		return "(ParenSel " + x.sel(n.Select) + ")"
	}
	c13sFailf("%s", goType(s))
	return ""
}

func (x *c13sExp) texpr(t sqlparser.TableExpr) string {
	if isNilNode(t) {
		c13sFailf("TableExpr:nil")
	}
	switch n := t.(type) {
	case *sqlparser.AliasedTableExpr:
		if n.Partitions != nil {
			c13sFailf("partial:table-partitions")
		}
		if n.Hints != nil {
			c13sFailf("partial:index-hints")
		}
		switch e := n.Expr.(type) {
		case sqlparser.TableName:
			q, nm := x.tableName(e)
			return "(TTable " + q + " " + nm + " " + x.tableIdent(n.As) + ")"
		case *sqlparser.Subquery:
			s := x.subq(e)
			return "(TSubq " + s + " " + x.tableIdent(n.As) + ")"
		}
		c13sFailf("AliasedTableExpr:%s", goType(n.Expr))
	case *sqlparser.ParenTableExpr:
		return "(TParen " + x.texprs(n.Exprs) + ")"
	case *sqlparser.JoinTableExpr:
		k, ok := c13sJoins[n.Join]
		if !ok {
			c13sFailf("Join:%s", n.Join)
		}
		l := x.texpr(n.LeftExpr)
		r := x.texpr(n.RightExpr)
		c := "JNone"
		switch {
		case n.Condition.On != nil && n.Condition.Using != nil:
			c13sFailf("JoinCondition:on-and-using")
		case n.Condition.On != nil:
			c = "(JOn " + x.expr(n.Condition.On) + ")"
		case n.Condition.Using != nil:
			var cols []string
			for _, ci := range n.Condition.Using {
				cols = append(cols, x.noSq(x.colIdent(ci)))
			}
			c = "(JUsing " + coqList(cols) + ")"
		}
		return "(TJoin " + l + " " + k + " " + r + " " + c + ")"
	}
	c13sFailf("%s", goType(t))
	return ""
}

func (x *c13sExp) texprs(ts sqlparser.TableExprs) string {
	parts := make([]string, len(ts))
	for i, t := range ts {
		parts[i] = "(TCons " + x.texpr(t) + " "
	}
	return "(" + strings.Join(parts, "") + "TNil" + strings.Repeat(")", len(ts)) + ")"
}

func (x *c13sExp) updates(us sqlparser.UpdateExprs) string {
	parts := make([]string, len(us))
	for i, u := range us {
		if u == nil {
			c13sFailf("UpdateExpr:nil")
		}
		c := x.col(u.Name)
		parts[i] = "(UCons " + c + " " + x.expr(u.Expr) + " "
	}
	return "(" + strings.Join(parts, "") + "UNil" + strings.Repeat(")", len(us)) + ")"
}

func (x *c13sExp) noComments(c sqlparser.Comments) {
	if len(c) != 0 {
		c13sFailf("partial:comments")
	}
}

func (x *c13sExp) stmt(st sqlparser.Statement) string {
	if isNilNode(st) {
		c13sFailf("Statement:nil")
	}
	b := func(v bool) string {
		if v {
			return "true"
		}
		return "false"
	}
	switch n := st.(type) {
	case *sqlparser.Select, *sqlparser.Union, *sqlparser.ParenSelect:
		return "(SSelect " + x.sel(st.(sqlparser.SelectStatement)) + ")"
	case *sqlparser.Insert:
		x.noComments(n.Comments)
		if n.Partitions != nil {
			c13sFailf("partial:insert-partitions")
		}
		var repl bool
		switch n.Action {
		case sqlparser.InsertStr:
		case sqlparser.ReplaceStr:
			repl = true
		default:
			c13sFailf("Insert:action-%s", n.Action)
		}
		var ign bool
		switch n.Ignore {
		case "":
		case sqlparser.IgnoreStr:
			ign = true
		default:
			c13sFailf("Insert:ignore-%s", n.Ignore)
		}
		q, nm := x.tableName(n.Table)
		if n.Default {
			return fmt.Sprintf("(SInsertDefault %s %s %s %s)", b(repl), b(ign), q, nm)
		}
		var cols []string
		for _, c := range n.Columns {
			cols = append(cols, x.colIdent(c))
		}
		if n.Columns != nil && len(n.Columns) == 0 {
			c13sFailf("Insert:empty-column-list")
		}
		var rows string
		switch r := n.Rows.(type) {
		case sqlparser.Values:
			parts := make([]string, len(r))
			for i, tup := range r {
				parts[i] = "(RCons " + x.exprs(sqlparser.Exprs(tup)) + " "
			}
			rows = "(IValues (" + strings.Join(parts, "") + "RNil" + strings.Repeat(")", len(r)) + "))"
		case sqlparser.SelectStatement:
			if c13sStartsParen(r) {
				c13sFailf("partial:insert-select-starting-with-parenthesis")
			}
			rows = "(ISelect " + x.sel(r) + ")"
		default:
			c13sFailf("Insert:rows-%s", goType(n.Rows))
		}
		dup := x.updates(sqlparser.UpdateExprs(n.OnDup))
		ret := x.selExprs(sqlparser.SelectExprs(n.Returning))
		return fmt.Sprintf("(SInsert %s %s %s %s %s %s %s %s)", b(repl), b(ign), q, nm, coqList(cols), rows, dup, ret)
	case *sqlparser.Update:
		x.noComments(n.Comments)
		ts := x.texprs(n.TableExprs)
		set := x.updates(n.Exprs)
		from := x.texprs(n.From)
		wh := x.where(n.Where, sqlparser.WhereStr)
		ob := x.orders(n.OrderBy)
		lm := x.limit(n.Limit)
		return fmt.Sprintf("(SUpdate %s %s %s %s %s %s %s)", ts, set, from, wh, ob, lm, x.selExprs(sqlparser.SelectExprs(n.Returning)))
	case *sqlparser.Delete:
		x.noComments(n.Comments)
		if n.Partitions != nil {
			c13sFailf("partial:delete-partitions")
		}
		if n.Targets == nil {
			ts := x.texprs(n.TableExprs)
			wh := x.where(n.Where, sqlparser.WhereStr)
			ob := x.orders(n.OrderBy)
			lm := x.limit(n.Limit)
			return fmt.Sprintf("(SDelete %s %s %s %s %s)", ts, wh, ob, lm, x.selExprs(sqlparser.SelectExprs(n.Returning)))
		}
		if n.OrderBy != nil || n.Limit != nil {
			c13sFailf("Delete:multi-with-order-or-limit")
		}
		tg := x.texprs(n.Targets)
		if n.TableExprs == nil {
			c13sFailf("Delete:targets-without-tables")
		}
		ts := x.texprs(n.TableExprs)
		wh := x.where(n.Where, sqlparser.WhereStr)
		return fmt.Sprintf("(SDeleteMulti %s %s %s %s)", tg, ts, wh, x.selExprs(sqlparser.SelectExprs(n.Returning)))
	}
	c13sFailf("%s", goType(st))
	return ""
}

// ---------------------------------------------------------------------------------------------
// Go tokenizer -> model tokens
// ---------------------------------------------------------------------------------------------

var c13sPunct = map[int]string{
	'=': "PEq", '<': "PLt", '>': "PGt", sqlparser.LE: "PLe", sqlparser.GE: "PGe", sqlparser.NE: "PNe",
	sqlparser.NULL_SAFE_EQUAL: "PNse", '|': "PBitOr", '&': "PBitAnd", sqlparser.SHIFT_LEFT: "PShl", sqlparser.SHIFT_RIGHT: "PShr",
	'+': "PPlus", '-': "PMinus", '*': "PStar", '/': "PSlash", '%': "PPercent", '^': "PCaret", '~': "PTilde", '!': "PBang",
	'(': "PLParen", ')': "PRParen", ',': "PComma", '.': "PDot",
}

// c13sTokens: model tokens of text; ok=false when some token is outside the model (why names it).
func (c *c13) c13sTokens(text string) (terms []string, ok bool, why string) {
	toks, ok := c.scanAll(text)
	if !ok {
		return nil, false, "lex-error"
	}
	for _, t := range toks {
		if p, ok := c13sPunct[t.typ]; ok {
			terms = append(terms, "TP "+p)
			continue
		}
		if l, ok := c13LitTok[t.typ]; ok {
			terms = append(terms, fmt.Sprintf("TLit %d (hb %s)", l, c13sH(t.val)))
			continue
		}
		if w, ok := c13sWordOfTok[t.typ]; ok {
			terms = append(terms, "TW "+w)
			continue
		}
		switch t.typ {
		case sqlparser.ID:
			terms = append(terms, "TId (hb "+c13sH(t.val)+")")
		case sqlparser.DOUBLE_QUOTE_STRING:
			terms = append(terms, "TDq (hb "+c13sH(t.val)+")")
		case sqlparser.LIST_ARG:
			terms = append(terms, "TCast (hb "+c13sH(t.val)+")")
		default:
			if len(t.val) > 0 && t.typ > 255 && t.typ != sqlparser.COMMENT && t.typ != sqlparser.BACK_QUOTE_STRING &&
				t.typ != sqlparser.JSON_EXTRACT_OP && t.typ != sqlparser.JSON_UNQUOTE_EXTRACT_OP {
				if _, isKw := sqlparser.VerifKeywords()[string(t.val)]; isKw {
					terms = append(terms, "TKw (hb "+c13sH(t.val)+")")
					continue
				}
			}
			return nil, false, fmt.Sprintf("token:%d", t.typ)
		}
	}
	return terms, true, ""
}

func c13sTokList(terms []string) string { return "[" + strings.Join(terms, "; ") + "]" }

// c13sChunks: text as a Coq `list bytes` of short literals (long N literals are slow to read)
func c13sChunks(b []byte) string {
	var parts []string
	for i := 0; i < len(b); i += 40 {
		j := i + 40
		if j > len(b) {
			j = len(b)
		}
		parts = append(parts, vh.H(b[i:j]))
	}
	return "[" + strings.Join(parts, "; ") + "]"
}

func c13sQuoteOf(v interface{}) uint64 { return reflect.ValueOf(v).FieldByName("quote").Uint() }
