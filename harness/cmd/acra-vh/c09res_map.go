package main

// c09res: translation of the REAL trees (pg_query / sqlparser) to the abstract statement, the driver and the oracles.

import (
	"bytes"
	"encoding/hex"
	"fmt"
	"strconv"
	"strings"

	"acra-vh/vh"

	pg_query "github.com/cossacklabs/pg_query_go/v5"

	"github.com/cossacklabs/acra/crypto"
	"github.com/cossacklabs/acra/decryptor/base"
	mysqlproxy "github.com/cossacklabs/acra/decryptor/mysql"
	mysqlbase "github.com/cossacklabs/acra/decryptor/mysql/base"
	pgproxy "github.com/cossacklabs/acra/decryptor/postgresql"
	"github.com/cossacklabs/acra/encryptor/base/config"
	myenc "github.com/cossacklabs/acra/encryptor/mysql"
	"github.com/cossacklabs/acra/encryptor/postgresql"
	"github.com/cossacklabs/acra/hmac"
	myhash "github.com/cossacklabs/acra/hmac/decryptor/mysql"
	pghash "github.com/cossacklabs/acra/hmac/decryptor/postgresql"
	"github.com/cossacklabs/acra/sqlparser"
	mysqldialect "github.com/cossacklabs/acra/sqlparser/dialect/mysql"
)

func init() { register("c09res", "Model.RunSearchResolve", c9rRun) }

var c9rOther = &c9rExpr{k: "other"}

// ---------- PostgreSQL ----------

func c9rPgOp(s string) string {
	switch s {
	case "=":
		return "OpEq"
	case "<>":
		return "OpNe"
	case "~~", "~~*":
		return "OpLike"
	case "!~~", "!~~*":
		return "OpNLike"
	}
	return "OpOther"
}

func c9rPgExpr(n *pg_query.Node) *c9rExpr {
	switch {
	case n == nil:
		return c9rOther
	case n.GetColumnRef() != nil:
		var parts []string
		for _, f := range n.GetColumnRef().GetFields() {
			if f.GetString_() == nil {
				return c9rOther
			}
			parts = append(parts, f.GetString_().GetSval())
		}
		switch len(parts) {
		case 1:
			return &c9rExpr{k: "col", c: parts[0]}
		case 2:
			return &c9rExpr{k: "col", q: parts[0], c: parts[1]}
		}
		return c9rOther
	case n.GetAConst() != nil:
		ac := n.GetAConst()
		if ac.GetSval() != nil {
			v := []byte(ac.GetSval().GetSval())
			if bytes.HasPrefix(v, []byte(`\x`)) {
				d, err := vh.PgDecodeLiteral(v)
				if err != nil {
					return c9rOther
				}
				v = d
			}
			return &c9rExpr{k: "lit", v: v}
		}
		if ac.GetIval() != nil {
			return &c9rExpr{k: "lit", v: []byte(fmt.Sprint(ac.GetIval().GetIval()))}
		}
		return c9rOther
	case n.GetParamRef() != nil:
		return &c9rExpr{k: "par", i: int(n.GetParamRef().GetNumber()) - 1}
	case n.GetTypeCast() != nil:
		return &c9rExpr{k: "cast", e: c9rPgExpr(n.GetTypeCast().GetArg())}
	case n.GetFuncCall() != nil:
		fc := n.GetFuncCall()
		if len(fc.GetFuncname()) == 1 && fc.GetFuncname()[0].GetString_().GetSval() == "substr" && len(fc.GetArgs()) == 3 {
			a1, a2 := fc.GetArgs()[1].GetAConst(), fc.GetArgs()[2].GetAConst()
			if a1 != nil && a2 != nil && a1.GetIval() != nil && a2.GetIval() != nil && a1.GetIval().GetIval() == 1 && a2.GetIval().GetIval() == 33 {
				return &c9rExpr{k: "substr", e: c9rPgExpr(fc.GetArgs()[0])}
			}
		}
	}
	return c9rOther
}

func c9rPgCond(n *pg_query.Node) *c9rCond {
	switch {
	case n == nil:
		return nil
	case n.GetBoolExpr() != nil:
		be := n.GetBoolExpr()
		switch be.GetBoolop() {
		case pg_query.BoolExprType_NOT_EXPR:
			return &c9rCond{k: "not", a: c9rPgCond(be.GetArgs()[0])}
		case pg_query.BoolExprType_AND_EXPR, pg_query.BoolExprType_OR_EXPR:
			k := "and"
			if be.GetBoolop() == pg_query.BoolExprType_OR_EXPR {
				k = "or"
			}
			cur := c9rPgCond(be.GetArgs()[0])
			for _, a := range be.GetArgs()[1:] {
				cur = &c9rCond{k: k, a: cur, b: c9rPgCond(a)}
			}
			return cur
		}
	case n.GetAExpr() != nil:
		ae := n.GetAExpr()
		op := ""
		if len(ae.GetName()) == 1 {
			op = ae.GetName()[0].GetString_().GetSval()
		}
		if sl := ae.GetRexpr().GetSubLink(); sl != nil && sl.GetSubLinkType() == pg_query.SubLinkType_EXPR_SUBLINK {
			return &c9rCond{k: "cmpsub", op: c9rPgOp(op), opSQL: op, l: c9rPgExpr(ae.GetLexpr()), s: c9rPgSel(sl.GetSubselect().GetSelectStmt())}
		}
		return &c9rCond{k: "cmp", op: c9rPgOp(op), opSQL: op, l: c9rPgExpr(ae.GetLexpr()), r: c9rPgExpr(ae.GetRexpr())}
	case n.GetSubLink() != nil:
		sl := n.GetSubLink()
		switch sl.GetSubLinkType() {
		case pg_query.SubLinkType_EXISTS_SUBLINK:
			return &c9rCond{k: "exists", s: c9rPgSel(sl.GetSubselect().GetSelectStmt())}
		case pg_query.SubLinkType_ANY_SUBLINK:
			if len(sl.GetOperName()) == 0 {
				return &c9rCond{k: "in", l: c9rPgExpr(sl.GetTestexpr()), s: c9rPgSel(sl.GetSubselect().GetSelectStmt())}
			}
		}
	}
	// anything else: a comparison of unknown operands
	return &c9rCond{k: "cmp", op: "OpOther", opSQL: "?", l: c9rOther, r: c9rOther}
}

func c9rPgRangeVar(rv *pg_query.RangeVar) *c9rTref {
	return &c9rTref{k: "base", name: rv.GetRelname(), alias: rv.GetAlias().GetAliasname()}
}

func c9rPgTref(n *pg_query.Node) *c9rTref {
	switch {
	case n.GetRangeVar() != nil:
		return c9rPgRangeVar(n.GetRangeVar())
	case n.GetJoinExpr() != nil:
		j := n.GetJoinExpr()
		return &c9rTref{k: "join", l: c9rPgTref(j.GetLarg()), r: c9rPgTref(j.GetRarg()), on: c9rPgCond(j.GetQuals())}
	case n.GetRangeSubselect() != nil:
		rs := n.GetRangeSubselect()
		return &c9rTref{k: "derived", alias: rs.GetAlias().GetAliasname(), s: c9rPgSel(rs.GetSubquery().GetSelectStmt())}
	}
	panic("c9r: PG FROM entry outside the mapping")
}

func c9rPgSel(st *pg_query.SelectStmt) *c9rSel {
	if st == nil {
		panic("c9r: not a SelectStmt")
	}
	s := &c9rSel{kind: "select"}
	for _, t := range st.GetTargetList() {
		rt := t.GetResTarget()
		if rt == nil {
			continue
		}
		e := c9rPgExpr(rt.GetVal())
		if e.k == "col" {
			s.items = append(s.items, c9rItem{q: e.q, c: e.c, as: rt.GetName()})
		}
	}
	for _, f := range st.GetFromClause() {
		s.from = append(s.from, c9rPgTref(f))
	}
	s.w = c9rPgCond(st.GetWhereClause())
	return s
}

func c9rPgStmt(res *pg_query.ParseResult) *c9rSel {
	st := res.Stmts[0].Stmt
	switch {
	case st.GetSelectStmt() != nil:
		return c9rPgSel(st.GetSelectStmt())
	case st.GetUpdateStmt() != nil:
		u := st.GetUpdateStmt()
		return &c9rSel{kind: "update", from: []*c9rTref{c9rPgRangeVar(u.GetRelation())}, w: c9rPgCond(u.GetWhereClause())}
	case st.GetDeleteStmt() != nil:
		u := st.GetDeleteStmt()
		return &c9rSel{kind: "delete", from: []*c9rTref{c9rPgRangeVar(u.GetRelation())}, w: c9rPgCond(u.GetWhereClause())}
	}
	panic("c9r: PG statement outside the mapping")
}

// ---------- MySQL ----------

func c9rMyOp(s string) string {
	switch s {
	case sqlparser.EqualStr:
		return "OpEq"
	case sqlparser.NotEqualStr, "<>":
		return "OpNe"
	case sqlparser.NullSafeEqualStr:
		return "OpNse"
	case sqlparser.LikeStr, sqlparser.ILikeStr:
		return "OpLike"
	case sqlparser.NotLikeStr, sqlparser.NotILikeStr:
		return "OpNLike"
	}
	return "OpOther"
}

func c9rMyCol(c *sqlparser.ColName) *c9rExpr {
	return &c9rExpr{k: "col", q: c.Qualifier.Name.ValueForConfig(), c: c.Name.ValueForConfig()}
}

func c9rIs(e sqlparser.Expr, want string) bool {
	v, ok := e.(*sqlparser.SQLVal)
	return ok && v.Type == sqlparser.IntVal && string(v.Val) == want
}

func c9rMyExpr(e sqlparser.Expr) *c9rExpr {
	switch x := e.(type) {
	case *sqlparser.ColName:
		return c9rMyCol(x)
	case *sqlparser.SQLVal:
		switch x.Type {
		case sqlparser.StrVal, sqlparser.IntVal, sqlparser.PgEscapeString:
			return &c9rExpr{k: "lit", v: append([]byte{}, x.Val...)}
		case sqlparser.HexNum:
			d, err := hex.DecodeString(strings.TrimPrefix(strings.ToLower(string(x.Val)), "0x"))
			if err != nil {
				return c9rOther
			}
			return &c9rExpr{k: "lit", v: d}
		case sqlparser.HexVal:
			d, err := hex.DecodeString(string(x.Val))
			if err != nil {
				return c9rOther
			}
			return &c9rExpr{k: "lit", v: d}
		case sqlparser.ValArg:
			n, err := strconv.Atoi(strings.TrimPrefix(string(x.Val), ":v"))
			if err != nil {
				return c9rOther
			}
			return &c9rExpr{k: "par", i: n - 1}
		}
		return c9rOther
	case *sqlparser.SubstrExpr:
		if x.Name != nil && c9rIs(x.From, "1") && c9rIs(x.To, "33") {
			return &c9rExpr{k: "substr", e: c9rMyCol(x.Name)}
		}
		return c9rOther
	case *sqlparser.ConvertExpr:
		if _, ok := x.Expr.(*sqlparser.SubstrExpr); ok && x.Type != nil && x.Type.Type == "binary" {
			return &c9rExpr{k: "conv", e: c9rMyExpr(x.Expr)}
		}
		return &c9rExpr{k: "cast", e: c9rMyExpr(x.Expr)}
	case *sqlparser.ParenExpr:
		return &c9rExpr{k: "cast", e: c9rMyExpr(x.Expr)}
	case *sqlparser.UnaryExpr:
		return &c9rExpr{k: "cast", e: c9rMyExpr(x.Expr)}
	}
	return c9rOther
}

func c9rMySub(s *sqlparser.Subquery) *c9rSel {
	sel, ok := s.Select.(*sqlparser.Select)
	if !ok {
		panic("c9r: sub-select outside the mapping")
	}
	return c9rMySel(sel)
}

func c9rMyCond(e sqlparser.Expr) *c9rCond {
	switch x := e.(type) {
	case nil:
		return nil
	case *sqlparser.AndExpr:
		return &c9rCond{k: "and", a: c9rMyCond(x.Left), b: c9rMyCond(x.Right)}
	case *sqlparser.OrExpr:
		return &c9rCond{k: "or", a: c9rMyCond(x.Left), b: c9rMyCond(x.Right)}
	case *sqlparser.NotExpr:
		return &c9rCond{k: "not", a: c9rMyCond(x.Expr)}
	case *sqlparser.ParenExpr:
		return &c9rCond{k: "paren", a: c9rMyCond(x.Expr)}
	case *sqlparser.ExistsExpr:
		return &c9rCond{k: "exists", s: c9rMySub(x.Subquery)}
	case *sqlparser.ComparisonExpr:
		if sq, ok := x.Right.(*sqlparser.Subquery); ok {
			if x.Operator == sqlparser.InStr {
				return &c9rCond{k: "in", l: c9rMyExpr(x.Left), s: c9rMySub(sq)}
			}
			return &c9rCond{k: "cmpsub", op: c9rMyOp(x.Operator), opSQL: x.Operator, l: c9rMyExpr(x.Left), s: c9rMySub(sq)}
		}
		return &c9rCond{k: "cmp", op: c9rMyOp(x.Operator), opSQL: x.Operator, l: c9rMyExpr(x.Left), r: c9rMyExpr(x.Right)}
	}
	return &c9rCond{k: "cmp", op: "OpOther", opSQL: "?", l: c9rOther, r: c9rOther}
}

func c9rMyTref(t sqlparser.TableExpr) *c9rTref {
	switch x := t.(type) {
	case *sqlparser.AliasedTableExpr:
		switch y := x.Expr.(type) {
		case sqlparser.TableName:
			return &c9rTref{k: "base", name: y.Name.ValueForConfig(), alias: x.As.ValueForConfig()}
		case *sqlparser.Subquery:
			return &c9rTref{k: "derived", alias: x.As.ValueForConfig(), s: c9rMySub(y)}
		}
	case *sqlparser.JoinTableExpr:
		return &c9rTref{k: "join", l: c9rMyTref(x.LeftExpr), r: c9rMyTref(x.RightExpr), on: c9rMyCond(x.Condition.On)}
	}
	panic(fmt.Sprintf("c9r: MySQL FROM entry outside the mapping: %T", t))
}

func c9rMyFrom(te sqlparser.TableExprs) []*c9rTref {
	var out []*c9rTref
	for _, t := range te {
		out = append(out, c9rMyTref(t))
	}
	return out
}

func c9rMyWhere(w *sqlparser.Where) *c9rCond {
	if w == nil {
		return nil
	}
	return c9rMyCond(w.Expr)
}

func c9rMySel(st *sqlparser.Select) *c9rSel {
	s := &c9rSel{kind: "select"}
	for _, se := range st.SelectExprs {
		if ae, ok := se.(*sqlparser.AliasedExpr); ok {
			if cn, ok := ae.Expr.(*sqlparser.ColName); ok {
				c := c9rMyCol(cn)
				s.items = append(s.items, c9rItem{q: c.q, c: c.c, as: ae.As.ValueForConfig()})
			}
		}
	}
	s.from = c9rMyFrom(st.From)
	s.w = c9rMyWhere(st.Where)
	return s
}

func c9rMyStmt(st sqlparser.Statement) *c9rSel {
	switch x := st.(type) {
	case *sqlparser.Select:
		return c9rMySel(x)
	case *sqlparser.Update:
		return &c9rSel{kind: "update", from: c9rMyFrom(x.TableExprs), w: c9rMyWhere(x.Where)}
	case *sqlparser.Delete:
		return &c9rSel{kind: "delete", from: c9rMyFrom(x.TableExprs), w: c9rMyWhere(x.Where)}
	}
	panic(fmt.Sprintf("c9r: MySQL statement outside the mapping: %T", st))
}

// ---------- parallel walk of generator tree / rewritten tree ----------

type c9rSite struct {
	g, w   *c9rCond
	scopes []c9rScope
	inSub  bool
}

type c9rWalk struct {
	sc      *c9rScenario
	sites   []c9rSite
	changed []string
}

func (wk *c9rWalk) diff(f string, a ...interface{}) { wk.changed = append(wk.changed, fmt.Sprintf(f, a...)) }

func (wk *c9rWalk) sel(g, w *c9rSel, outer []c9rScope, inSub bool) {
	if len(g.items) != len(w.items) || len(g.from) != len(w.from) {
		wk.diff("items / FROM length")
		return
	}
	for i := range g.items {
		if g.items[i] != w.items[i] {
			wk.diff("select item %d", i)
		}
	}
	for i := range g.from {
		wk.tref(g.from[i], w.from[i], outer, inSub)
	}
	wk.cond(g.w, w.w, append(append([]c9rScope{}, outer...), wk.sc.scopeOf(g.from)), inSub)
}

func (wk *c9rWalk) tref(g, w *c9rTref, outer []c9rScope, inSub bool) {
	if g.k != w.k || g.name != w.name || g.alias != w.alias {
		wk.diff("FROM entry %s/%s", g.coq(), w.coq())
		return
	}
	switch g.k {
	case "join":
		wk.tref(g.l, w.l, outer, inSub)
		wk.tref(g.r, w.r, outer, inSub)
		wk.cond(g.on, w.on, append(append([]c9rScope{}, outer...), wk.sc.scopeOf([]*c9rTref{g})), inSub)
	case "derived":
		wk.sel(g.s, w.s, nil, true)
	}
}

func (wk *c9rWalk) cond(g, w *c9rCond, scopes []c9rScope, inSub bool) {
	if (g == nil) != (w == nil) {
		wk.diff("condition presence")
		return
	}
	if g == nil {
		return
	}
	if g.k != w.k {
		wk.diff("condition node %s/%s", g.k, w.k)
		return
	}
	switch g.k {
	case "cmp":
		wk.sites = append(wk.sites, c9rSite{g, w, scopes, inSub})
	case "and", "or":
		wk.cond(g.a, w.a, scopes, inSub)
		wk.cond(g.b, w.b, scopes, inSub)
	case "not", "paren":
		wk.cond(g.a, w.a, scopes, inSub)
	case "exists":
		wk.sel(g.s, w.s, scopes, true)
	case "in", "cmpsub":
		if g.l.coq() != w.l.coq() || g.op != w.op {
			wk.diff("left side of a sub-select comparison")
		}
		wk.sel(g.s, w.s, scopes, true)
	}
}

func c9rUncast(e *c9rExpr) (*c9rExpr, bool) {
	if e.k == "cast" {
		return e.e, true
	}
	return e, false
}

func c9rValueish(e *c9rExpr, my bool) bool {
	if e.k == "lit" || e.k == "par" {
		return true
	}
	if e.k == "cast" && !my {
		return e.e.k == "lit" || e.e.k == "par"
	}
	return false
}

type c9rVerdict struct {
	must, did bool
	class     string // class of an (A) disagreement
	reason    string // why a comparison on a searchable column is outside the supported forms
	bdiff     string
}

func (sc *c9rScenario) judge(top *c9rSel, st c9rSite) c9rVerdict {
	g, w := st.g, st.w
	var v c9rVerdict
	srchOf := func(e *c9rExpr) (bool, *c9rBind) {
		if e.k != "col" {
			return false, nil
		}
		b, _, amb := c9rResolve(e.q, e.c, st.scopes)
		if b == nil || amb {
			panic(fmt.Sprintf("c9r: generator produced an unresolvable column %s.%s", e.q, e.c))
		}
		return sc.searchable(b.src[e.c]), b
	}
	lS, _ := srchOf(g.l)
	rS, _ := srchOf(g.r)
	eqOp := g.op == "OpEq" || g.op == "OpNe" || (sc.my && g.op == "OpNse")
	v.must = lS && ((c9rValueish(g.r, sc.my) && eqOp) || rS)
	v.did = w.l.k == "substr" || w.l.k == "conv"
	// (B)
	if !v.did {
		if g.coq() != w.coq() {
			v.bdiff = "comparison changed without the searchable rewrite: " + g.coq() + " => " + w.coq()
		}
	} else {
		wl := w.l
		if wl.k == "conv" {
			wl = wl.e
		}
		wantOp := g.op
		switch g.op {
		case "OpNse", "OpLike":
			wantOp = "OpEq"
		case "OpNLike":
			wantOp = "OpNe"
		}
		ok := wl.k == "substr" && wl.e.coq() == g.l.coq() && g.l.k == "col" && w.op == wantOp
		if ok {
			gr, gc := c9rUncast(g.r)
			wr, wc := c9rUncast(w.r)
			switch {
			case gr.k == "col" && !gc:
				ok = w.r.k == "substr" && w.r.e.coq() == g.r.coq()
			case gr.k == "lit":
				ok = gc == wc && wr.k == "lit" && bytes.Equal(wr.v, hmac.GenerateHMAC(append([]byte{}, sc.key...), gr.v))
			default:
				ok = g.r.coq() == w.r.coq()
			}
		}
		if !ok {
			v.bdiff = "rewritten comparison is not the searchable form of the original: " + g.coq() + " => " + w.coq()
		}
	}
	// the column operand
	col, casted := c9rUncast(g.l)
	onLeft := true
	if col.k != "col" {
		col, casted = c9rUncast(g.r)
		onLeft = false
	}
	if col.k != "col" {
		return v
	}
	cS, cb := srchOf(col)
	if cS && !v.must {
		switch {
		case !onLeft:
			v.reason = "literal-on-left"
		case casted:
			v.reason = "cast-on-column"
		case g.r.k == "col":
			v.reason = "searchable-vs-plain-column"
		case !c9rValueish(g.r, sc.my):
			v.reason = "cast-on-value"
		default:
			v.reason = "unsupported-operator"
		}
	} else if !cS && g.r.k == "col" && rS {
		v.reason = "searchable-vs-plain-column"
	}
	if v.must == v.did {
		return v
	}
	hasDerived := false
	var chk func(t *c9rTref)
	chk = func(t *c9rTref) {
		switch t.k {
		case "derived":
			hasDerived = true
		case "join":
			chk(t.l)
			chk(t.r)
		}
	}
	for _, t := range top.from {
		chk(t)
	}
	// pg-alias-shadows-table-name is exactly: PostgreSQL, the qualifier is the hidden real name of an aliased entry of the
	// TOP-LEVEL list that stands BEFORE the entry visible under that name (findTableName stops at the first entry whose
	// name or alias is the qualifier). Any other disagreement around an alias equal to a table name is not that finding.
	shadow, aliasIsTable := false, false
	if col.q != "" {
		for _, b := range sc.scopeOf(top.from) {
			if b.vis == col.q {
				break
			}
			if !b.derived && b.tab == col.q && b.hasAl {
				shadow = true
			}
		}
		if cb != nil && cb.hasAl && !cb.derived && cb.tab != col.q && sc.tab(col.q) != nil {
			aliasIsTable = true
		}
	}
	switch {
	case st.inSub:
		v.class = "subselect-outer-scope"
	case col.q == "" && top.from[0].k == "join":
		v.class = "join-unqualified-column"
	case col.q == "" && hasDerived:
		v.class = "derived-unqualified"
	case cb != nil && cb.derived:
		v.class = "derived-qualified-column"
	case !sc.my && shadow:
		v.class = "pg-alias-shadows-table-name"
	case aliasIsTable:
		v.class = "alias-equals-other-table-name"
	case !onLeft:
		v.class = "literal-on-left"
	default:
		v.class = "resolution-mismatch"
	}
	return v
}

// ---------- driver ----------

func c9rRun(rep *vh.Report, r *vh.Rng, n int, thorough bool) {
	defer sqlparser.SetDefaultDialect(mysqldialect.NewMySQLDialect())
	sqlparser.SetDefaultDialect(mysqldialect.NewMySQLDialect())
	for scn := 0; scn < n; scn++ {
		ks := vh.NewKeySet(r, 1, 1, true)
		store := storeFor(ks)
		rh := crypto.NewRegistryHandler(store)
		my := scn%2 == 1
		sc := c9rNewScenario(rep, r, my, ks.Hmac)
		use := config.UsePostgreSQL
		if my {
			use = config.UseMySQL
		}
		schema, err := config.MapTableSchemaStoreFromConfig([]byte(sc.yml), use)
		if err != nil {
			panic("c9r: config: " + err.Error() + "\n" + sc.yml)
		}
		nq := 4 + r.Intn(5)
		if thorough {
			nq += 8
		}
		for q := 0; q < nq; q++ {
			c9rStatement(rep, r, sc, scn, q, schema, store, rh, -1)
		}
		// the alias-shadowing family: two variants per scenario, all 24 per dialect every 12 scenarios of it
		for j := 0; j < 2; j++ {
			c9rStatement(rep, r, sc, scn, nq+j, schema, store, rh, ((scn/2)*2+j)%c9rShadowVariants)
		}
	}
}

func c9rStatement(rep *vh.Report, r *vh.Rng, sc *c9rScenario, scn, q int, schema config.TableSchemaStore, store *vh.MemKeystore, rh crypto.RegistryHandler, shadowVariant int) {
	var gen *c9rSel
	if shadowVariant >= 0 {
		gen = sc.genShadow(shadowVariant)
	} else {
		gen = sc.genStmt()
	}
	rd := &c9rRender{my: sc.my}
	sql := rd.sel(gen)
	dial, dn := "RPG", "pg"
	if sc.my {
		dial, dn = "RMY", "my"
	}
	rep.Count("dialect:" + dn)
	binds := make([][]byte, rd.npar)
	for i := range binds {
		binds[i] = sc.pool[r.Intn(len(sc.pool))]
	}
	lab := fmt.Sprintf("sc%d q%d %s %s", scn, q, dn, sql)
	if len(lab) > 300 {
		lab = lab[:300]
	}
	ctx := sessionCtx(clientID)
	var orig, rew *c9rSel
	var rewSQL string
	var newBinds [][]byte
	var bindO vh.Outcome
	bindRan := false
	var parser *sqlparser.Parser
	// the original, parsed on its own
	if sc.my {
		parser = sqlparser.New(sqlparser.ModeDefault)
		st, err := parser.Parse(sql)
		if err != nil {
			panic("c9r: generated MySQL statement does not parse: " + sql + ": " + err.Error())
		}
		orig = c9rMyStmt(st)
	} else {
		res, err := pg_query.Parse(sql)
		if err != nil {
			panic("c9r: generated PG statement does not parse: " + sql + ": " + err.Error())
		}
		orig = c9rPgStmt(res)
	}
	if orig.coq() != gen.coq() {
		panic("c9r: translation of the parsed statement differs from the generator tree\n" + sql + "\n" + gen.coq() + "\n" + orig.coq())
	}
	bindCall := func(run func(vals []base.BoundValue) ([]base.BoundValue, error)) {
		vals := make([]base.BoundValue, len(binds))
		for i, b := range binds {
			if sc.my {
				vals[i] = mysqlproxy.NewMysqlCopyTextBoundValue(append([]byte{}, b...), base.BinaryFormat, mysqlbase.TypeVarString)
			} else {
				vals[i] = pgproxy.NewPgBoundValue(append([]byte{}, b...), base.BinaryFormat)
			}
		}
		bindRan = true
		bindO = vh.Guard(func() vh.Outcome {
			nv, err := run(vals)
			if err != nil {
				return vh.ErrO(err)
			}
			var idx []byte
			newBinds = nil
			for i, v := range nv {
				d, err := v.GetData(nil)
				if err != nil {
					return vh.ErrO(err)
				}
				newBinds = append(newBinds, append([]byte{}, d...))
				if i < len(binds) && !bytes.Equal(d, binds[i]) {
					idx = append(idx, byte(i))
				}
			}
			if idx == nil {
				idx = []byte{}
			}
			return vh.Ok(idx)
		})
	}
	o := vh.Guard(func() vh.Outcome {
		if sc.my {
			hq := myhash.NewHashQuery(store, schema, rh)
			obj, _, err := hq.OnQuery(ctx, myenc.NewOnQueryObjectFromQuery(sql, parser))
			if err != nil {
				return vh.ErrO(err)
			}
			st, err := obj.Statement()
			if err != nil {
				return vh.ErrO(err)
			}
			rew = c9rMyStmt(st)
			rewSQL = obj.Query()
			if len(binds) > 0 {
				bindCall(func(vals []base.BoundValue) ([]base.BoundValue, error) {
					nv, _, err := hq.OnBind(ctx, st, vals)
					return nv, err
				})
			}
			return vh.Ok([]byte{1})
		}
		hq := pghash.NewHashQuery(store, schema, rh)
		obj, _, err := hq.OnQuery(ctx, postgresql.NewOnQueryObjectFromQuery(sql))
		if err != nil {
			return vh.ErrO(err)
		}
		st, err := obj.Statement()
		if err != nil {
			return vh.ErrO(err)
		}
		rew = c9rPgStmt(st)
		rewSQL, _ = pg_query.Deparse(st)
		if len(binds) > 0 {
			bindCall(func(vals []base.BoundValue) ([]base.BoundValue, error) {
				nv, _, err := hq.OnBind(ctx, st, vals)
				return nv, err
			})
		}
		return vh.Ok([]byte{1})
	})
	replay := sql + "\n" + sc.yml + "rewritten: " + rewSQL
	expT := gen.coq()
	if rew != nil {
		expT = rew.coq()
	}
	rep.Add(lab, fmt.Sprintf("RQuery %s %s %s %s (%s) (%s)", dial, sc.cfg, sc.srchT, vh.H(sc.key), orig.coq(), expT), o)
	rep.OracleChecks++
	if o.Kind != "ok" || rew == nil {
		rep.Violate("rewrite-failed", "OnQuery failed: "+o.String(), replay)
		return
	}
	if bindRan {
		rep.Add(lab+" bind", fmt.Sprintf("RBind %s %s %s (%s) %d", dial, sc.cfg, sc.srchT, rew.coq(), len(binds)), bindO)
		rep.OracleChecks++
		if bindO.Kind != "ok" {
			rep.Violate("bind-failed", "OnBind failed: "+bindO.String(), replay)
		}
	}
	// (A) + (B)
	wk := &c9rWalk{sc: sc}
	wk.sel(gen, rew, nil, false)
	firstClass, firstReason := "", ""
	for _, st := range wk.sites {
		v := sc.judge(gen, st)
		rep.OracleChecks += 2
		if v.bdiff != "" {
			wk.changed = append(wk.changed, v.bdiff)
		}
		if v.must {
			rep.Count("A:must-rewrite")
		} else {
			rep.Count("A:must-not-rewrite")
		}
		if v.must != v.did {
			if firstClass == "" {
				firstClass = v.class
			}
			rep.Violate(v.class, fmt.Sprintf("comparison %s: by SQL scoping must be rewritten = %v, the code rewrote it = %v (became %s)", st.g.coq(), v.must, v.did, st.w.coq()), replay)
		}
		if v.reason != "" && firstReason == "" {
			firstReason = v.reason
		}
		if v.reason != "" {
			rep.Count("unsupported:" + v.reason)
		}
	}
	rep.OracleChecks++
	if len(wk.changed) > 0 {
		rep.Violate("statement-changed", strings.Join(wk.changed, "; "), replay)
		return
	}
	// (C)
	if bindRan && bindO.Kind != "ok" {
		return
	}
	e1 := &c9rEval{sc: sc, binds: binds}
	want := e1.result(gen)
	nb := newBinds
	if !bindRan {
		nb = binds
	}
	e2 := &c9rEval{sc: sc, stored: true, binds: nb}
	got := e2.result(rew)
	if e1.err != nil || e2.err != nil {
		rep.Count("C:skipped")
		if (e1.err == nil) != (e2.err == nil) {
			rep.Count("C:skipped-one-sided")
		}
		return
	}
	rep.OracleChecks++
	rep.Count("C:checked")
	if len(want) > 0 {
		rep.Count("C:non-empty-result")
	}
	if strings.Join(want, ";") != strings.Join(got, ";") {
		class := firstClass
		if class == "" {
			class = firstReason
		}
		switch class {
		case "unsupported-operator", "searchable-vs-plain-column":
			// LIKE / < on a searchable column, searchable = plain column: cannot be answered on ciphertext by design
			rep.Count("C:unsupported-by-design:" + class)
			return
		case "cast-on-value":
			class = "cast-around-value-mysql" // known finding of C09_conditions
		case "":
			if strings.Contains(replay, "::") && strings.Contains(replay, "$") {
				class = "cast-around-placeholder" // known finding of C09_conditions: OnBind sees only a bare ParamRef
			} else {
				class = "result-set-statement"
			}
		}
		rep.Violate(class, fmt.Sprintf("rows selected by the rewritten statement over the stored tables %v, rows selected by the original over the plaintexts %v", got, want),
			replay+"\nbinds: "+c09xHexList(binds)+"\nbinds after OnBind: "+c09xHexList(nb)+"\ntables: "+sc.dump())
	}
}

func (sc *c9rScenario) dump() string {
	var s []string
	for _, t := range sc.tabs {
		for i, rw := range t.rows {
			var c []string
			for _, k := range t.cols {
				c = append(c, fmt.Sprintf("%s=%q", k, rw[k]))
			}
			s = append(s, fmt.Sprintf("%s#%d(%s)", t.name, i, strings.Join(c, ",")))
		}
	}
	return strings.Join(s, " ")
}
