package main

// C16 — literal values from statements never appear in logs nor in the redacted form of a statement.
//
// Implementation side: the REAL sqlparser (Parse, HandleRawSQLQuery in both parser modes, the redaction walk) and
// the REAL firewall (acracensor.LoadConfiguration + HandleQuery) with a logrus hook capturing every entry at
// every level.  Statements are generated from templates with marker literals at every literal position in
// every spelling, in both dialects.
// Model side (Model.RunSqlRedact): the parse tree, converted by reflection to the generic labelled tree of
// Gen/SqlSchema.v, is normalised by the Coq model; expected = the tree the real walk leaves behind.
// Oracle (independent of the model): marker search in the redacted text and in every captured log entry,
// the redacted text parses again to the same node structure, unparsed statements never reach a log entry.

import (
	"bytes"
	"encoding/hex"
	"fmt"
	"os"
	"path/filepath"
	"reflect"
	"sort"
	"strings"
	"sync"
	"time"
	"unsafe"

	"acra-vh/vh"

	acracensor "github.com/cossacklabs/acra/acra-censor"
	"github.com/cossacklabs/acra/sqlparser"
	"github.com/cossacklabs/acra/sqlparser/dependency/sqltypes"
	"github.com/cossacklabs/acra/sqlparser/dialect/mysql"
	"github.com/cossacklabs/acra/sqlparser/dialect/postgresql"
	"github.com/sirupsen/logrus"
)

func init() { register("c16", "Model.RunSqlRedact", runC16) }

// ---------- generic tree (mirror of Model/SqlRedact.v) ----------

type gTree struct {
	Ty   int
	Attr int // 0 none, 1 val, 2 op, 3 list
	Vt   int
	Val  []byte
	Ok   bool
	IsIn bool
	Kids []gKid
	Name string
}
type gKid struct {
	F int
	T *gTree
}

var sqlNodeType = reflect.TypeOf((*sqlparser.SQLNode)(nil)).Elem()

func addressable(v reflect.Value) reflect.Value {
	if v.CanAddr() {
		return v
	}
	nv := reflect.New(v.Type()).Elem()
	nv.Set(v)
	return nv
}

func fieldValue(st reflect.Value, name string) (reflect.Value, bool) {
	f := st.FieldByName(name)
	if !f.IsValid() {
		return f, false
	}
	if !f.CanInterface() {
		f = reflect.NewAt(f.Type(), unsafe.Pointer(f.UnsafeAddr())).Elem()
	}
	return f, true
}

// fieldOrder: walked fields in call order (first occurrence), then the others
func fieldOrder(t *sType) []int {
	seen := map[int]bool{}
	var o []int
	for _, w := range t.Walk {
		if !seen[w] {
			seen[w] = true
			o = append(o, w)
		}
	}
	for i := range t.Fields {
		if !seen[i] {
			o = append(o, i)
		}
	}
	return o
}

// conv converts a value holding an SQLNode into the generic tree; nil for nil / non-node values.
func conv(sc *sqlSchema, v reflect.Value) *gTree {
	for v.Kind() == reflect.Interface {
		if v.IsNil() {
			return nil
		}
		v = v.Elem()
	}
	if v.Kind() == reflect.Ptr {
		if v.IsNil() {
			return nil
		}
		v = v.Elem()
	}
	st := sc.ByName[v.Type().Name()]
	if st == nil {
		return nil
	}
	g := &gTree{Ty: st.ID, Name: st.Name}
	switch st.Name {
	case "SQLVal":
		n := v.Addr().Interface().(*sqlparser.SQLVal)
		g.Attr, g.Vt, g.Val, g.Ok = 1, int(n.Type), append([]byte{}, n.Val...), true
		switch n.Type {
		case sqlparser.IntVal:
			_, err := sqltypes.NewValue(sqltypes.Int64, n.Val)
			g.Ok = err == nil
		case sqlparser.FloatVal:
			_, err := sqltypes.NewValue(sqltypes.Float64, n.Val)
			g.Ok = err == nil
		}
	case "ComparisonExpr":
		op := v.FieldByName("Operator").String()
		g.Attr, g.IsIn = 2, op == sqlparser.InStr || op == sqlparser.NotInStr
	case "ListArg":
		g.Attr, g.Val = 3, append([]byte{}, v.Bytes()...)
	}
	switch {
	case st.Kind == "slice" && v.Kind() == reflect.Slice:
		for i := 0; i < v.Len(); i++ {
			if k := conv(sc, v.Index(i)); k != nil {
				g.Kids = append(g.Kids, gKid{0, k})
			}
		}
	case st.Kind == "struct" && v.Kind() == reflect.Struct:
		v = addressable(v)
		for _, fi := range fieldOrder(st) {
			f := st.Fields[fi]
			fv, ok := fieldValue(v, f.Name)
			if !ok {
				continue
			}
			if f.Slice && fv.Kind() == reflect.Slice {
				for i := 0; i < fv.Len(); i++ {
					if k := conv(sc, fv.Index(i)); k != nil {
						g.Kids = append(g.Kids, gKid{fi, k})
					}
				}
				continue
			}
			if k := conv(sc, fv); k != nil {
				g.Kids = append(g.Kids, gKid{fi, k})
			}
		}
	}
	return g
}

func (g *gTree) coq(sb *strings.Builder) {
	fmt.Fprintf(sb, "(Node %d ", g.Ty)
	switch g.Attr {
	case 0:
		sb.WriteString("ANone ")
	case 1:
		fmt.Fprintf(sb, "(AVal %d %s %v) ", g.Vt, vh.H(g.Val), g.Ok)
	case 2:
		fmt.Fprintf(sb, "(AOp %v) ", g.IsIn)
	case 3:
		fmt.Fprintf(sb, "(AList %s) ", vh.H(g.Val))
	}
	for _, k := range g.Kids {
		fmt.Fprintf(sb, "(FCons %d ", k.F)
		k.T.coq(sb)
		sb.WriteString(" ")
	}
	sb.WriteString("FNil")
	for range g.Kids {
		sb.WriteString(")")
	}
	sb.WriteString(")")
}

// ser: canonical bytes of a tree (mirror of RunSqlRedact.ser)
func (g *gTree) ser(b *bytes.Buffer) {
	b.WriteByte(byte(g.Ty >> 8))
	b.WriteByte(byte(g.Ty))
	switch g.Attr {
	case 0:
		b.WriteByte(0)
	case 1:
		b.WriteByte(1)
		b.WriteByte(byte(g.Vt))
		b.WriteByte(byte(len(g.Val) >> 8))
		b.WriteByte(byte(len(g.Val)))
		b.Write(g.Val)
	case 2:
		b.WriteByte(2)
		if g.IsIn {
			b.WriteByte(1)
		} else {
			b.WriteByte(0)
		}
	case 3:
		b.WriteByte(3)
		b.WriteByte(byte(len(g.Val) >> 8))
		b.WriteByte(byte(len(g.Val)))
		b.Write(g.Val)
	}
	for _, k := range g.Kids {
		b.WriteByte(1)
		b.WriteByte(byte(k.F))
		k.T.ser(b)
	}
	b.WriteByte(0)
}

// serIn: wire form of an input tree (ser + the ok flag of an SQLVal), parsed by RunSqlRedact.deser
func (g *gTree) serIn(b *bytes.Buffer) {
	b.WriteByte(byte(g.Ty >> 8))
	b.WriteByte(byte(g.Ty))
	switch g.Attr {
	case 0:
		b.WriteByte(0)
	case 1:
		b.WriteByte(1)
		b.WriteByte(byte(g.Vt))
		if g.Ok {
			b.WriteByte(1)
		} else {
			b.WriteByte(0)
		}
		b.WriteByte(byte(len(g.Val) >> 8))
		b.WriteByte(byte(len(g.Val)))
		b.Write(g.Val)
	case 2:
		b.WriteByte(2)
		if g.IsIn {
			b.WriteByte(1)
		} else {
			b.WriteByte(0)
		}
	case 3:
		b.WriteByte(3)
		b.WriteByte(byte(len(g.Val) >> 8))
		b.WriteByte(byte(len(g.Val)))
		b.Write(g.Val)
	}
	for _, k := range g.Kids {
		b.WriteByte(1)
		b.WriteByte(byte(k.F))
		k.T.serIn(b)
	}
	b.WriteByte(0)
}

// hChunks: a byte string as a Coq list of short hb literals
func hChunks(b []byte) string {
	var parts []string
	for i := 0; i < len(b); i += 24 {
		e := i + 24
		if e > len(b) {
			e = len(b)
		}
		parts = append(parts, vh.H(b[i:e]))
	}
	return "[" + strings.Join(parts, "; ") + "]"
}

func (g *gTree) size() int {
	n := 1
	for _, k := range g.Kids {
		n += k.T.size()
	}
	return n
}

// skeleton: node structure with literal leaves and all-literal IN lists abstracted (shape oracle)
func (g *gTree) skeleton(sc *sqlSchema, sb *strings.Builder) {
	if g.Name == "SQLVal" {
		sb.WriteString("V")
		for _, k := range g.Kids {
			sb.WriteString("(")
			k.T.skeleton(sc, sb)
			sb.WriteString(")")
		}
		return
	}
	if g.Name == "ListArg" {
		sb.WriteString("L")
		return
	}
	if g.Name == "ValTuple" {
		all := len(g.Kids) > 0
		for _, k := range g.Kids {
			if k.T.Name != "SQLVal" || len(k.T.Kids) > 0 {
				all = false
			}
		}
		if all {
			sb.WriteString("L")
			return
		}
	}
	sb.WriteString(g.Name)
	for _, k := range g.Kids {
		fmt.Fprintf(sb, "(%d:", k.F)
		k.T.skeleton(sc, sb)
		sb.WriteString(")")
	}
}

// ---------- log capture ----------

type capHook struct {
	mu      sync.Mutex
	entries []string
}

func (h *capHook) Levels() []logrus.Level { return logrus.AllLevels }
func (h *capHook) Fire(e *logrus.Entry) error {
	var sb strings.Builder
	sb.WriteString(e.Level.String() + "|" + e.Message)
	keys := make([]string, 0, len(e.Data))
	for k := range e.Data {
		keys = append(keys, k)
	}
	sort.Strings(keys)
	for _, k := range keys {
		fmt.Fprintf(&sb, "|%s=%v", k, e.Data[k])
	}
	h.mu.Lock()
	h.entries = append(h.entries, sb.String())
	h.mu.Unlock()
	return nil
}
func (h *capHook) take() []string {
	h.mu.Lock()
	defer h.mu.Unlock()
	e := h.entries
	h.entries = nil
	return e
}

// ---------- marker literals ----------

type marker struct {
	kind   string
	text   string   // SQL spelling
	needle []string // what must not survive (lower-cased search)
}

const letters = "abcdefghijkmnpqrstuvwxyzABCDEFGHJKLMNPQRSTUVWXYZ23456789"

func randWord(r *vh.Rng, n int) string {
	b := make([]byte, n)
	for i := range b {
		b[i] = letters[r.Intn(len(letters))]
	}
	return string(b)
}
func randDigits(r *vh.Rng, n int) string {
	b := make([]byte, n)
	for i := range b {
		b[i] = byte('1' + r.Intn(9))
	}
	return string(b)
}

var stringKinds = []string{"sq", "sq-escaped-quote", "sq-backslash", "sq-long", "pg-escape", "dq", "hex-x", "hex-0x", "bit", "sq-cast"}
var numberKinds = []string{"int", "int-big", "int-leading-zero", "decimal", "exponent", "exponent-huge", "negative", "negative-decimal"}

// genMarker: a fresh high-entropy literal in the given spelling
func genMarker(r *vh.Rng, kind string) marker {
	w := "Mk" + randWord(r, 10)
	d := "7" + randDigits(r, 6)
	switch kind {
	case "sq":
		return marker{kind, "'" + w + "'", []string{w}}
	case "sq-escaped-quote":
		w2 := randWord(r, 8)
		return marker{kind, "'" + w + "''" + w2 + "'", []string{w, w2}}
	case "sq-backslash":
		w2 := randWord(r, 8)
		return marker{kind, "'" + w + "\\n" + w2 + "'", []string{w, w2}}
	case "sq-long":
		long := w + strings.Repeat(randWord(r, 10), 30)
		return marker{kind, "'" + long + "'", []string{w}}
	case "pg-escape":
		w2 := randWord(r, 8)
		return marker{kind, "E'" + w + "\\t" + w2 + "'", []string{w, w2}}
	case "dq":
		return marker{kind, "\"" + w + "\"", []string{w}}
	case "hex-x":
		h := hex.EncodeToString([]byte(w))
		return marker{kind, "X'" + h + "'", []string{h}}
	case "hex-0x":
		h := hex.EncodeToString([]byte(w))
		return marker{kind, "0x" + h, []string{h}}
	case "bit":
		var sb strings.Builder
		for i := 0; i < 40; i++ {
			sb.WriteByte(byte('0' + r.Intn(2)))
		}
		return marker{kind, "b'" + sb.String() + "'", []string{sb.String()}}
	case "sq-cast":
		return marker{kind, "'" + w + "'::text", []string{w}}
	case "int":
		return marker{kind, d, []string{d}}
	case "int-big":
		big := d + randDigits(r, 20)
		return marker{kind, big, []string{d}}
	case "int-leading-zero":
		return marker{kind, "089" + d, []string{d}}
	case "decimal":
		d2 := randDigits(r, 5)
		return marker{kind, d + "." + d2, []string{d, d2}}
	case "exponent":
		return marker{kind, d + "e3", []string{d}}
	case "exponent-huge":
		return marker{kind, d + "e999", []string{d}}
	case "negative":
		return marker{kind, "-" + d, []string{d}}
	case "negative-decimal":
		d2 := randDigits(r, 5)
		return marker{kind, "-" + d + "." + d2, []string{d, d2}}
	}
	panic(kind)
}

// templates: $S = any literal, $N = numeric literal (LIMIT/OFFSET and the like); position names in the label
var c16Templates = []struct{ pos, sql string }{
	{"select-list", "select $S, $S as c2 from t1"},
	{"where-eq", "select a from t1 where b = $S and c <> $S"},
	{"where-cmp-num", "select a from t1 where b > $N or c <= $N"},
	{"in-list", "select a from t1 where b in ($S, $S, $S)"},
	{"in-list-mixed", "select a from t1 where b in ($S, c, $S)"},
	{"not-in-list", "delete from t1 where b not in ($S, $S)"},
	{"between", "select a from t1 where b between $S and $S"},
	{"like", "select a from t1 where b like $S"},
	{"func-args", "select concat(a, $S, $S), lower($S) from t1"},
	{"values-rows", "insert into t1 (a, b, c) values ($S, $S, $S), ($S, $S, $S)"},
	{"values-dup", "insert into t1 (a, b) values ($S, $N) on duplicate key update b = $S"},
	{"insert-select", "insert into t1 (a, b) select c, $S from t2 where d = $S"},
	{"insert-returning", "insert into t1 (a) values ($S) returning $S"},
	{"set-clauses", "update t1 set a = $S, b = $S where c = $S"},
	{"update-limit", "update t1 set a = $S where c = $S order by c limit $N"},
	{"update-returning", "update t1 set a = $S where c = $S returning a, $S"},
	{"limit", "select a from t1 limit $N"},
	{"limit-offset", "select a from t1 where b = $S limit $N offset $N"},
	{"limit-comma", "select a from t1 limit $N, $N"},
	{"having", "select a, count(*) from t1 group by a having count(*) > $N and max(b) = $S"},
	{"order-by", "select a from t1 order by field(a, $S, $S)"},
	{"sub-select", "select a from t1 where b = (select c from t2 where d = $S) and e = $S"},
	{"sub-select-from", "select x.a from (select a, $S as z from t2 where d = $S) as x where x.a = $S"},
	{"exists", "select a from t1 where exists (select 1 from t2 where d = $S)"},
	{"union", "select a from t1 where b = $S union select c from t2 where d = $S"},
	{"union-all-limit", "select a from t1 where b = $S union all select c from t2 where d = $S order by 1 limit $N"},
	{"union-paren", "(select a from t1 where b = $S) union (select c from t2 where d = $S) limit $N"},
	{"join-on", "select t1.a from t1 join t2 on t1.a = t2.a and t2.b = $S where t1.c = $S"},
	{"case-when", "select case when a = $S then $S else $S end from t1"},
	{"arith", "select a + $N, b * $N from t1 where c - $N > $N"},
	{"unary", "select a from t1 where b = -$N or c = +$N"},
	{"is-not", "select a from t1 where not (b = $S) and c is not null and d = $S"},
	{"delete-where", "delete from t1 where a = $S and b < $N"},
	{"delete-limit", "delete from t1 where a = $S order by a limit $N"},
	{"delete-returning", "delete from t1 where a = $S returning $S"},
	{"multi-delete", "delete t1 from t1, t2 where t1.a = t2.a and t2.b = $S"},
	{"set-stmt", "set autocommit = $N"},
	{"set-var", "set @a = $S"},
	{"cast", "select cast($S as char), convert($S, char(10)) from t1"},
	{"pg-cast-expr", "select (a || $S)::text from t1 where b = $S::text"},
	{"interval", "select a from t1 where d > now() - interval $N day"},
	{"nested-func", "select coalesce(nullif(a, $S), substr($S, $N, $N)) from t1"},
	{"tuple-eq", "select a from t1 where (a, b) = ($S, $S)"},
	{"in-subselect", "select a from t1 where b in (select c from t2 where d like $S)"},
	{"replace", "replace into t1 (a, b) values ($S, $S)"},
	{"select-nofrom", "select $S"},
	{"select-dedup", "select a from t1 where b = $S and c = $S and d = $N"},
	{"comment-margin", "/* lead */ select a from t1 where b = $S /* trail */"},
	{"prepare", "prepare st1 from 'select a from t1 where b = ?'"},
	{"execute", "execute st1 ($S, $S)"},
	{"create-default", "create table t9 (a int default $N, b varchar(20) default $S)"},
	{"create-partial", "create table t9 (a int default $S garbage garbage)"},
	{"alter-partial", "alter table t9 add column b varchar(10) default $S comment $S"},
	{"show-where", "show tables where a = $S"},
	{"explain", "explain select a from t1 where b = $S"},
	{"match", "select a from t1 where match(a) against ($S)"},
	{"bindvar-existing", "select a from t1 where b = :replaced1 and c = $S and d in (::replaced2, $S)"},
	// literal kept in a plain string field of the tree (known finding: outside the SQLNode tree)
	{"text-field:group-concat-separator", "select group_concat(a separator $Q) from t1"},
	{"text-field:show-like", "show tables like $Q"},
	{"text-field:enum-values", "create table t9 (a enum($Q, $Q))"},
	// not parseable on purpose
	{"unparsed:garbage", "select a from where b = $S garbage ((("},
	{"unparsed:truncated", "insert into t1 (a, b) values ($S, $S"},
	{"unparsed:unknown-stmt", "vacuum analyze verbose t1 where a = $S"},
	{"unparsed:unterminated", "select a from t1 where b = 'Mkunterminated$W"},
}

type c16GenStmt struct {
	pos     string
	sql     string
	markers []marker
	dialect string
	// comparison family: the atoms the statement was assembled from and its frame (for shrinking a failing input)
	pieces []c16CmpPiece
	frame  int
}

// c16Expand replaces the $S / $N / $Q / $W slots of a template by fresh marker literals
func c16Expand(r *vh.Rng, rep *vh.Report, s string, dialect string, forceKind string) (string, []marker) {
	var markers []marker
	var sb strings.Builder
	for i := 0; i < len(s); i++ {
		if s[i] == '$' && i+1 < len(s) {
			var kind string
			switch s[i+1] {
			case 'S':
				if forceKind == "plain" {
					kind = "sq"
				} else if forceKind != "" {
					kind = forceKind
				} else if r.Intn(3) == 0 {
					kind = numberKinds[r.Intn(len(numberKinds))]
				} else {
					kind = stringKinds[r.Intn(len(stringKinds))]
				}
				if kind == "dq" && dialect == "pg" {
					kind = "sq" // "x" is an identifier in PostgreSQL
				}
			case 'N':
				kind = numberKinds[r.Intn(len(numberKinds))]
				if forceKind != "" && strings.Contains("int int-big int-leading-zero decimal exponent exponent-huge negative negative-decimal", forceKind) {
					kind = forceKind
				}
				if forceKind == "plain" {
					kind = "int"
				}
			case 'Q':
				kind = "sq"
			case 'W':
				w := randWord(r, 10)
				markers = append(markers, marker{"raw", w, []string{w}})
				sb.WriteString(w)
				i++
				continue
			default:
				sb.WriteByte(s[i])
				continue
			}
			m := genMarker(r, kind)
			if rep != nil {
				rep.Count("spelling:" + kind)
			}
			markers = append(markers, m)
			sb.WriteString(m.text)
			i++
			continue
		}
		sb.WriteByte(s[i])
	}
	return sb.String(), markers
}

func genStatement(r *vh.Rng, rep *vh.Report, ti int, dialect string, forceKind string) c16GenStmt {
	t := c16Templates[ti]
	g := c16GenStmt{pos: t.pos, dialect: dialect}
	g.sql, g.markers = c16Expand(r, rep, t.sql, dialect, forceKind)
	if r.Intn(6) == 0 {
		g.sql += ";"
	}
	return g
}

func findMarker(hay string, ms []marker) string {
	l := strings.ToLower(hay)
	for _, m := range ms {
		for _, n := range m.needle {
			if strings.Contains(l, strings.ToLower(n)) {
				return m.kind + ":" + n
			}
		}
	}
	return ""
}

func setDialect(d string) {
	if d == "pg" {
		sqlparser.SetDefaultDialect(postgresql.NewPostgreSQLDialect())
	} else {
		sqlparser.SetDefaultDialect(mysql.NewMySQLDialect())
	}
}

// ---------- censor configurations ----------

type c16CensorCfg struct {
	yaml    string
	label   string
	dir     string
	capture string
	unpars  string
}

func genCensorCfg(r *vh.Rng, dir string, i int) c16CensorCfg {
	c := c16CensorCfg{dir: dir}
	var sb strings.Builder
	sb.WriteString("version: 0.85.0\n")
	ign := r.Bool()
	fmt.Fprintf(&sb, "ignore_parse_error: %v\n", ign)
	c.label = fmt.Sprintf("ignore=%v", ign)
	if r.Intn(3) == 0 {
		c.unpars = filepath.Join(dir, fmt.Sprintf("unparsed_%d.log", i))
		fmt.Fprintf(&sb, "parse_errors_log: %s\n", c.unpars)
		c.label += " unparsed-log"
	}
	sb.WriteString("handlers:\n")
	n := r.Intn(4)
	for h := 0; h < n; h++ {
		switch r.Intn(7) {
		case 0:
			sb.WriteString("  - handler: allowall\n")
			c.label += " allowall"
		case 1:
			sb.WriteString("  - handler: denyall\n")
			c.label += " denyall"
		case 2:
			sb.WriteString("  - handler: deny\n    tables:\n      - t2\n      - t9\n")
			c.label += " deny[tables]"
		case 3:
			sb.WriteString("  - handler: deny\n    patterns:\n      - \"%%INSERT%%\"\n      - \"SELECT a FROM t1 WHERE b = %%VALUE%%\"\n")
			c.label += " deny[patterns]"
		case 4:
			sb.WriteString("  - handler: allow\n    tables:\n      - t1\n")
			c.label += " allow[tables]"
		case 5:
			sb.WriteString("  - handler: query_ignore\n    queries:\n      - select 1\n")
			c.label += " query_ignore"
		case 6:
			if c.capture == "" {
				c.capture = filepath.Join(dir, fmt.Sprintf("capture_%d.log", i))
				fmt.Fprintf(&sb, "  - handler: query_capture\n    filepath: %s\n", c.capture)
				c.label += " query_capture"
			}
		}
	}
	c.yaml = sb.String()
	return c
}

var logLevels = []logrus.Level{logrus.TraceLevel, logrus.DebugLevel, logrus.InfoLevel, logrus.WarnLevel, logrus.ErrorLevel}

// ---------- the domain ----------

func runC16(rep *vh.Report, r *vh.Rng, n int, thorough bool) {
	sc := loadSQLSchema()
	// violations are handed to the report at the end, the smallest failing input first (the family's statements
	// are long; the first one is what ./check prints)
	type c16Viol struct{ class, what, replay string }
	var viols []c16Viol
	violate := func(class, what, replay string) { viols = append(viols, c16Viol{class, what, replay}) }
	defer func() {
		sort.SliceStable(viols, func(i, j int) bool {
			return len(viols[i].what)+len(viols[i].replay) < len(viols[j].what)+len(viols[j].replay)
		})
		for _, v := range viols {
			rep.Violate(v.class, v.what, v.replay)
		}
	}()
	hook := &capHook{}
	logrus.AddHook(hook)
	tmp, err := os.MkdirTemp("", "c16")
	if err != nil {
		panic(err)
	}
	defer os.RemoveAll(tmp)

	type job struct {
		ti      int
		dialect string
		kind    string
		pre     *c16GenStmt // a statement of the comparison family, generated up front
	}
	var jobs []job
	// systematic part: every template x dialect once, the comparison family (every comparison form x operand
	// position x operand form, c16cmp.go), every spelling x dialect on rotating templates
	for ti := range c16Templates {
		for _, d := range []string{"mysql", "pg"} {
			jobs = append(jobs, job{ti, d, "", nil})
		}
	}
	cmpStmts := c16CmpStatements(r, rep, thorough)
	k := 0
	for _, kind := range append(append([]string{}, stringKinds...), numberKinds...) {
		for _, d := range []string{"mysql", "pg"} {
			reps := 2
			if thorough {
				reps = len(c16Templates)
			}
			for j := 0; j < reps; j++ {
				jobs = append(jobs, job{k % len(c16Templates), d, kind, nil})
				k += 7
			}
		}
	}
	// the family's statements are larger than the templates': interleave them so that the case shards replayed
	// in parallel on the model have about the same size
	{
		var mixed []job
		ci := 0
		for i, jb := range jobs {
			mixed = append(mixed, jb)
			for ci < len(cmpStmts) && ci*len(jobs) < (i+1)*len(cmpStmts) {
				mixed = append(mixed, job{0, cmpStmts[ci].dialect, "", &cmpStmts[ci]})
				ci++
			}
		}
		for ; ci < len(cmpStmts); ci++ {
			mixed = append(mixed, job{0, cmpStmts[ci].dialect, "", &cmpStmts[ci]})
		}
		jobs = mixed
	}
	systematic := len(jobs)
	for len(jobs) < n {
		d := "mysql"
		if r.Bool() {
			d = "pg"
		}
		if r.Bool() {
			if g, ok := c16CmpRandom(r, rep, d); ok {
				jobs = append(jobs, job{0, d, "", &g})
				continue
			}
		}
		jobs = append(jobs, job{r.Intn(len(c16Templates)), d, "", nil})
	}
	if !thorough && len(jobs) > n && n > 0 {
		// keep the systematic prefix (templates x dialects, comparison family), sample the rest
		if n > systematic {
			jobs = jobs[:n]
		}
	}

	censorEvery := 3
	for ji, jb := range jobs {
		var g c16GenStmt
		if jb.pre != nil {
			g = *jb.pre
			rep.Count("position:comparison-family")
		} else {
			g = genStatement(r, rep, jb.ti, jb.dialect, jb.kind)
			rep.Count("position:" + g.pos)
		}
		setDialect(g.dialect)
		rep.Count("dialect:" + g.dialect)
		lab := fmt.Sprintf("#%d %s %s", ji, g.dialect, g.pos)
		replay := fmt.Sprintf("dialect=%s sql=%q", g.dialect, g.sql)
		known := ""
		if strings.HasPrefix(g.pos, "text-field:") {
			known = "literal-in-text-field"
		}
		vclass := func(c string) string {
			if known != "" {
				return known
			}
			return c
		}
		// acra's grammar only takes a column name as first argument of SUBSTR/SUBSTRING: a MySQL double-quoted
		// string there is parsed as a quoted identifier (known finding, the parser's business)
		if g.dialect == "mysql" && strings.Contains(strings.ToLower(g.sql), "substr(\"") {
			known = "dq-string-in-substr-parsed-as-column"
		}

		// --- HandleRawSQLQuery in both parser modes, at a random log level, every entry captured ---
		logrus.SetLevel(logLevels[r.Intn(len(logLevels))])
		hook.take()
		var redStrict string
		var parsedStrict bool
		for _, mode := range []sqlparser.Mode{sqlparser.ModeStrict, sqlparser.ModeDefault} {
			p := sqlparser.New(mode)
			var red string
			var st sqlparser.Statement
			var herr error
			o := vh.Guard(func() vh.Outcome {
				_, red, st, herr = p.HandleRawSQLQuery(g.sql)
				return vh.Ok()
			})
			rep.OracleChecks++
			if o.Kind == "panic" {
				violate("redact-panic", "HandleRawSQLQuery panicked: "+o.Msg, replay)
				continue
			}
			if mode == sqlparser.ModeStrict {
				redStrict, parsedStrict = red, herr == nil
			}
			_, notParsed := st.(sqlparser.NotParsedStatement)
			if herr != nil || notParsed {
				rep.Count("parse:unparsed:" + string(mode))
			} else {
				rep.Count("parse:ok:" + string(mode))
			}
			rep.OracleChecks++
			if hit := findMarker(red, g.markers); hit != "" {
				cl := "literal-in-redacted-text"
				if herr != nil || notParsed {
					cl = "unparsed-statement-as-redacted-text"
				}
				if ssql, sred, shit, ok := c16CmpShrink(g, mode); ok {
					// the same failure on one atom of the combination: a smaller failing input
					violate(vclass(cl), fmt.Sprintf("mode=%s: redacted text %q still contains the literal %s", mode, sred, shit),
						fmt.Sprintf("dialect=%s sql=%q   (shrunk from: %s)", g.dialect, ssql, g.sql))
				} else {
					violate(vclass(cl), fmt.Sprintf("mode=%s: redacted text %q still contains the literal %s", mode, red, hit), replay)
				}
			}
		}
		for _, e := range hook.take() {
			rep.OracleChecks++
			if hit := findMarker(e, g.markers); hit != "" {
				violate(vclass("literal-in-parser-log"), fmt.Sprintf("log entry %q contains the literal %s", e, hit), replay)
			}
		}
		logrus.SetLevel(logrus.TraceLevel)

		// --- the walk itself: real tree before / after, replayed on the model ---
		if parsedStrict {
			stripped, _ := sqlparser.SplitMarginComments(g.sql)
			stripped = strings.TrimSuffix(stripped, ";")
			stmt, perr := sqlparser.New(sqlparser.ModeStrict).Parse(stripped)
			if perr == nil && stmt != nil {
				before := conv(sc, reflect.ValueOf(stmt))
				var after *gTree
				var printed string
				o := vh.Guard(func() vh.Outcome {
					sqlparser.VerifRedactInPlace(stmt)
					after = conv(sc, reflect.ValueOf(stmt))
					printed = sqlparser.String(stmt)
					var b bytes.Buffer
					after.ser(&b)
					return vh.Ok(b.Bytes())
				})
				var sb strings.Builder
				if ji%16 == 0 {
					// a few cases as Coq terms (readable in the evidence), the rest in wire form (fast to elaborate)
					sb.WriteString("(Norm ")
					before.coq(&sb)
					sb.WriteString(")")
				} else {
					var wb bytes.Buffer
					before.serIn(&wb)
					sb.WriteString("(NormC " + hChunks(wb.Bytes()) + " ")
					if o.Kind == "ok" {
						sb.WriteString(hChunks(o.Vals[0]) + ")")
						o = vh.Ok([]byte{1})
					} else {
						sb.WriteString("[])")
					}
				}
				rep.Add(lab+" walk "+fmt.Sprintf("%q", g.sql), sb.String(), o)
				rep.Count(fmt.Sprintf("tree-size:%d", bucket(before.size())))
				rep.OracleChecks++
				if o.Kind == "ok" && printed != redStrict {
					violate("hook-differs", fmt.Sprintf("the hooked walk prints %q, HandleRawSQLQuery returned %q", printed, redStrict), replay)
				}
				// shape: the redacted text parses and has the node structure of the statement
				if _, ddl := stmt.(*sqlparser.DDL); ddl {
					// the grammar has no bind variables in column definitions: a redacted DDL is for reading only
					rep.Count("shape-skip:ddl")
				} else if o.Kind == "ok" && known == "" {
					rep.OracleChecks++
					re, rerr := sqlparser.New(sqlparser.ModeStrict).Parse(redStrict)
					orig, oerr := sqlparser.New(sqlparser.ModeStrict).Parse(sqlparser.String(mustParse(stripped)))
					if oerr != nil {
						rep.Count("shape-skip:print-does-not-reparse")
					} else if rerr != nil {
						violate("redacted-does-not-parse", fmt.Sprintf("redacted text %q does not parse: %v", redStrict, rerr), replay)
					} else {
						var a, b strings.Builder
						conv(sc, reflect.ValueOf(orig)).skeleton(sc, &a)
						conv(sc, reflect.ValueOf(re)).skeleton(sc, &b)
						if a.String() != b.String() {
							violate("shape-changed", fmt.Sprintf("redacted text %q has another node structure:\n  %s\n  %s", redStrict, a.String(), b.String()), replay)
						}
					}
				}
			}
		}

		// --- the real firewall ---
		if ji%censorEvery == 0 || !parsedStrict {
			cfg := genCensorCfg(r, tmp, ji)
			rep.Count("censor-cfg:" + cfg.label)
			censor := acracensor.NewAcraCensor()
			if err := censor.LoadConfiguration([]byte(cfg.yaml)); err != nil {
				violate("harness-censor-config", "config rejected: "+err.Error(), cfg.yaml)
				continue
			}
			logrus.SetLevel(logLevels[r.Intn(len(logLevels))])
			hook.take()
			o := vh.Guard(func() vh.Outcome {
				if err := censor.HandleQuery(g.sql); err != nil {
					return vh.ErrO(err)
				}
				return vh.Ok()
			})
			entries := hook.take()
			logrus.SetLevel(logrus.TraceLevel)
			rep.OracleChecks++
			if o.Kind == "panic" {
				violate("censor-panic", "HandleQuery panicked: "+o.Msg, replay+" cfg="+cfg.label)
			}
			rep.Count("censor:" + o.Kind)
			for _, e := range entries {
				rep.OracleChecks++
				if hit := findMarker(e, g.markers); hit != "" {
					cl := "literal-in-censor-log"
					if !parsedStrict {
						cl = "unparsed-statement-in-censor-log"
					}
					violate(vclass(cl), fmt.Sprintf("censor log entry %q contains the literal %s", e, hit), replay+" cfg="+cfg.label)
				}
			}
			// release: the writers flush to their files; only those files may carry an unparsed statement
			o2 := vh.Guard(func() vh.Outcome { censor.ReleaseAll(); return vh.Ok() })
			_ = o2
			if cfg.capture != "" || cfg.unpars != "" {
				time.Sleep(15 * time.Millisecond)
			}
			for _, e := range hook.take() {
				rep.OracleChecks++
				if hit := findMarker(e, g.markers); hit != "" {
					violate(vclass("literal-in-censor-log"), fmt.Sprintf("censor log entry (release) %q contains the literal %s", e, hit), replay)
				}
			}
			if cfg.capture != "" {
				rep.OracleChecks++
				if data, err := os.ReadFile(cfg.capture); err == nil {
					if hit := findMarker(string(data), g.markers); hit != "" {
						violate(vclass("literal-in-capture-file"), fmt.Sprintf("query_capture file holds the literal %s: %q", hit, string(data)), replay)
					}
				}
			}
		}
	}
	setDialect("mysql")
}

func mustParse(sql string) sqlparser.Statement {
	st, err := sqlparser.New(sqlparser.ModeStrict).Parse(sql)
	if err != nil {
		return sqlparser.EmptyStatement{}
	}
	return st
}
