package main

// C05, domain c05prep: the REAL PostgreSQL proxy of acra, in-process (censorrig.PgPrepRig), driven
// through the EXTENDED query protocol (Parse / Bind / Describe / Execute / Close / Sync / Flush,
// unnamed and named statements and portals, mixed with simple queries) by a scripted client, with a
// scripted RECORDING fake back end, against Model/PgPrepared.v.
//
// The class of scenario: a statement NAME is re-used by Parse messages with different censor
// verdicts - accepted then rejected, rejected then accepted, rejected twice, accepted twice,
// different names interleaved, a Bind to a name whose only Parse was rejected, Describe of a name
// whose last Parse was rejected, Execute of a portal bound before the rejected Parse, Close + re-Parse -
// followed by Bind/Execute, pipelined before one Sync and answered message by message.
//
// Statement identifiers are seq*8+class as in c05q: `SELECT n<class> FROM q<class> WHERE id = <seq>`;
// class 0: table without settings; 1..5: int32 column, response_on_fail: default_value (40+class);
// 6..7: int32 column, response_on_fail: error.  A "bad" row carries `xyz`: the value the client
// receives shows which statement's settings the proxy applied.
//
// Own oracle.  The back end keeps ITS OWN registries from the packets it receives (statement name ->
// statement, portal -> statement, executions not yet completed); it never sees a rejected Parse.
//  (1) the back end receives exactly the client's packets that were not rejected, byte for byte, and
//      never a statement of a denied class;
//  (2) a rejected Parse / Query is answered with ErrorResponse + ReadyForQuery;
//  (3) after every client packet Acra's prepared-statement registry and portal registry agree with the
//      back end's: a name holds the last ACCEPTED Parse of that name (hooks export_verif_s43.go);
//  (4) every Bind: the statement handed to the OnBind observers is the back end's statement of that name;
//  (5) every Execute: the statement of the queued pending query packet is the back end's statement of that portal;
//  (6) every bad row is handled with the settings of the statement the back end is executing;
//  (7) at the end pendingQueryPackets = executions sent to the back end and not yet completed.

import (
	"bytes"
	"fmt"
	"sort"
	"strings"
	"time"

	"acra-vh/censorrig"
	"acra-vh/vh"
)

func init() { register("c05prep", "Model.RunPgPrepared", runC05prep) }

const (
	c5prepStmtNames   = 4 // "", s1, s2, s3
	c5prepPortalNames = 3 // "", p1, p2
	c5prepShapes      = 12
)

func c5prepStmtName(i int) string {
	if i == 0 {
		return ""
	}
	return fmt.Sprintf("s%d", i)
}

func c5prepPortalName(i int) string {
	if i == 0 {
		return ""
	}
	return fmt.Sprintf("p%d", i)
}

// c5prepParseID recovers the statement identifier from a statement text (raw or deparsed); -1 = not one of ours.
func c5prepParseID(sql string) int {
	var a, b, c int
	if _, err := fmt.Sscanf(strings.TrimSpace(sql), "SELECT n%d FROM q%d WHERE id = %d", &a, &b, &c); err == nil && a == b {
		return c*8 + a
	}
	return -1
}

type c5prepEvent struct {
	kind   byte // client: 'Q' 'P' 'B' 'E' 'd' (Describe) 'c' (Close) 'S' 'H'; back end: 'D' 'C' 'Z' 'O'
	id     int  // Q, P: statement identifier
	nm     int  // P, B, d/c of a statement: statement name index
	portal int  // B, E, d/c of a portal: portal name index
	onStmt bool // d, c: target is a statement (else a portal)
	bad    bool // D
	typ    byte // O: message type sent by the back end
	// generator's expectation for the unchanged tree (used to interleave the answers only)
	fwd  bool
	dies bool
	prod int
}

func (e c5prepEvent) String() string {
	switch e.kind {
	case 'Q':
		return fmt.Sprintf("Q(%d)", e.id)
	case 'P':
		return fmt.Sprintf("Parse(%q,%d)", c5prepStmtName(e.nm), e.id)
	case 'B':
		return fmt.Sprintf("Bind(%q<-%q)", c5prepPortalName(e.portal), c5prepStmtName(e.nm))
	case 'E':
		return fmt.Sprintf("Execute(%q)", c5prepPortalName(e.portal))
	case 'd', 'c':
		w := "Describe"
		if e.kind == 'c' {
			w = "Close"
		}
		if e.onStmt {
			return fmt.Sprintf("%s(S %q)", w, c5prepStmtName(e.nm))
		}
		return fmt.Sprintf("%s(P %q)", w, c5prepPortalName(e.portal))
	case 'S':
		return "Sync"
	case 'H':
		return "Flush"
	case 'D':
		return fmt.Sprintf("db:DataRow(bad=%v)", e.bad)
	case 'C':
		return "db:CommandComplete"
	case 'Z':
		return "db:ReadyForQuery"
	}
	return fmt.Sprintf("db:%c", e.typ)
}

// c5prepGen writes the client half of a script and tracks what the unchanged tree is expected to hold.
type c5prepGen struct {
	r         *vh.Rng
	rep       *vh.Report
	denied    map[int]bool
	okCls     []int
	denyCls   []int
	seq       int
	evs       []c5prepEvent
	accSt     map[int]int          // statement name -> last accepted statement
	stPortals map[int]map[int]bool // statement name -> portals bound to the registered object
	cur       map[int]int          // portal -> statement (Acra's portal registry)
	dbPortal  map[int]int          // portal -> statement (back end)
	dead      bool
}

func (g *c5prepGen) newID(rejected bool) int {
	g.seq++
	cls := g.okCls[g.r.Intn(len(g.okCls))]
	if rejected {
		cls = g.denyCls[g.r.Intn(len(g.denyCls))]
	}
	return g.seq*8 + cls
}

func (g *c5prepGen) add(e c5prepEvent) {
	if g.dead {
		return
	}
	g.evs = append(g.evs, e)
}

func (g *c5prepGen) query(rejected bool) {
	id := g.newID(rejected)
	g.rep.Count(fmt.Sprintf("gen:query-rejected:%v", rejected))
	g.add(c5prepEvent{kind: 'Q', id: id, fwd: !rejected, prod: id})
}

func (g *c5prepGen) parse(nm int, rejected bool) {
	id := g.newID(rejected)
	_, had := g.accSt[nm]
	g.rep.Count(fmt.Sprintf("gen:parse-rejected:%v-name-known:%v-unnamed:%v", rejected, had, nm == 0))
	g.add(c5prepEvent{kind: 'P', nm: nm, id: id, fwd: !rejected})
	if rejected || g.dead {
		return
	}
	for p := range g.stPortals[nm] {
		delete(g.cur, p)
	}
	g.stPortals[nm] = map[int]bool{}
	g.accSt[nm] = id
}

func (g *c5prepGen) bind(p, nm int) {
	id, ok := g.accSt[nm]
	g.rep.Count(fmt.Sprintf("gen:bind-name-registered:%v", ok))
	g.add(c5prepEvent{kind: 'B', portal: p, nm: nm, fwd: ok, dies: !ok})
	if g.dead {
		return
	}
	if !ok {
		g.dead = true
		return
	}
	g.stPortals[nm][p] = true
	g.cur[p] = id
	g.dbPortal[p] = id
}

func (g *c5prepGen) exec(p int) {
	_, ok := g.cur[p]
	g.rep.Count(fmt.Sprintf("gen:execute-portal-registered:%v", ok))
	g.add(c5prepEvent{kind: 'E', portal: p, fwd: ok, dies: !ok, prod: g.dbPortal[p]})
	if !ok {
		g.dead = true
	}
}

func (g *c5prepGen) bindExec(nm int) {
	p := g.r.Intn(c5prepPortalNames)
	if g.r.Intn(2) == 0 {
		p = 0
	}
	g.bind(p, nm)
	if g.r.Intn(4) == 0 {
		g.add(c5prepEvent{kind: 'd', portal: p, fwd: true})
	}
	g.exec(p)
}

func (g *c5prepGen) sync()  { g.add(c5prepEvent{kind: 'S', fwd: true}) }
func (g *c5prepGen) flush() { g.add(c5prepEvent{kind: 'H', fwd: true}) }
func (g *c5prepGen) describeStmt(nm int) {
	g.add(c5prepEvent{kind: 'd', onStmt: true, nm: nm, fwd: true})
}
func (g *c5prepGen) closeStmt(nm int) { g.add(c5prepEvent{kind: 'c', onStmt: true, nm: nm, fwd: true}) }

func (g *c5prepGen) maybeSync() {
	if g.r.Intn(2) == 0 {
		g.sync()
	}
}

// name: the unnamed statement half of the time (the one every driver re-uses)
func (g *c5prepGen) name() int {
	if g.r.Intn(2) == 0 {
		return 0
	}
	return 1 + g.r.Intn(c5prepStmtNames-1)
}

func (g *c5prepGen) otherName(nm int) int {
	o := g.r.Intn(c5prepStmtNames - 1)
	if o >= nm {
		o++
	}
	return o
}

func (g *c5prepGen) shape(k int) {
	nm := g.name()
	g.rep.Count(fmt.Sprintf("shape:%d", k))
	switch k {
	case 0: // accepted, then rejected, then Bind/Execute on the name
		g.parse(nm, false)
		if g.r.Intn(2) == 0 {
			g.bindExec(nm)
			g.maybeSync()
		}
		g.parse(nm, true)
		g.bindExec(nm)
		g.sync()
	case 1: // rejected, then accepted
		g.parse(nm, true)
		g.maybeSync()
		g.parse(nm, false)
		g.bindExec(nm)
		g.sync()
	case 2: // accepted, rejected twice
		g.parse(nm, false)
		g.bindExec(nm)
		g.maybeSync()
		g.parse(nm, true)
		g.parse(nm, true)
		g.bindExec(nm)
		g.sync()
	case 3: // two names interleaved, each accepted and then rejected
		n2 := g.otherName(nm)
		g.parse(nm, false)
		g.parse(n2, false)
		g.parse(nm, true)
		if g.r.Intn(2) == 0 {
			g.parse(n2, true)
		}
		g.bind(1, nm)
		g.bind(2, n2)
		g.exec(2)
		g.exec(1)
		g.sync()
	case 4: // Bind to a name whose only Parse was rejected (another name is registered)
		n2 := g.otherName(nm)
		if g.r.Intn(2) == 0 {
			g.parse(n2, false)
			g.bindExec(n2)
			g.maybeSync()
		}
		g.parse(nm, true)
		g.bind(g.r.Intn(c5prepPortalNames), nm)
	case 5: // Describe of a name whose last Parse was rejected
		g.parse(nm, false)
		g.parse(nm, true)
		g.describeStmt(nm)
		g.maybeSync()
		g.bindExec(nm)
		g.sync()
	case 6: // the name is re-used by two ACCEPTED statements before the first one is answered
		g.parse(nm, false)
		g.bindExec(nm)
		g.parse(nm, false)
		g.bindExec(nm)
		g.sync()
	case 7: // portal bound before the rejected Parse, executed after it
		p := g.r.Intn(c5prepPortalNames)
		g.parse(nm, false)
		g.bind(p, nm)
		g.parse(nm, true)
		g.exec(p)
		g.maybeSync()
		g.bindExec(nm)
		g.sync()
	case 8: // simple queries in between
		g.query(false)
		g.parse(nm, false)
		g.query(true)
		g.bindExec(nm)
		g.sync()
		g.parse(nm, true)
		g.query(false)
		g.bindExec(nm)
		g.sync()
	case 9: // Close, rejected re-Parse, accepted re-Parse
		g.parse(nm, false)
		g.bindExec(nm)
		g.sync()
		g.closeStmt(nm)
		g.parse(nm, true)
		g.parse(nm, false)
		g.bindExec(nm)
		g.sync()
	case 10: // rejected under one name, Bind/Execute of another, accepted name
		n2 := g.otherName(nm)
		g.parse(nm, false)
		g.parse(n2, true)
		g.bindExec(nm)
		g.flush()
		g.parse(n2, false)
		g.bindExec(n2)
		g.bindExec(nm)
		g.sync()
	default: // one portal re-bound across a rejected Parse
		n2 := g.otherName(nm)
		g.parse(nm, false)
		g.parse(n2, false)
		g.bind(0, nm)
		g.exec(0)
		g.parse(n2, true)
		g.bind(0, n2)
		g.exec(0)
		g.parse(nm, true)
		g.bind(0, nm)
		g.exec(0)
		g.sync()
	}
}

func (g *c5prepGen) tail(n int) {
	for i := 0; i < n && !g.dead; i++ {
		switch g.r.Intn(10) {
		case 0, 1:
			g.parse(g.name(), true)
		case 2, 3:
			g.parse(g.name(), false)
		case 4, 5, 6:
			// Bind/Execute on a registered name
			var names []int
			for nm := range g.accSt {
				names = append(names, nm)
			}
			if len(names) == 0 {
				g.parse(g.name(), false)
				continue
			}
			sort.Ints(names)
			g.bindExec(names[g.r.Intn(len(names))])
		case 7:
			g.sync()
		case 8:
			g.query(g.r.Intn(2) == 0)
		default:
			// Execute of a portal that is still registered
			var ps []int
			for p := range g.cur {
				ps = append(ps, p)
			}
			if len(ps) == 0 {
				g.flush()
				continue
			}
			sort.Ints(ps)
			g.exec(ps[g.r.Intn(len(ps))])
		}
	}
	if !g.dead {
		g.sync()
	}
}

// c5prepInterleave merges the client script with the answers of an in-order back end.
// mode 0: the back end answers as soon as it can; 1: only once a Sync (or simple query) has arrived
// or the client is done (pipelined); 2: random.
func c5prepInterleave(r *vh.Rng, cl []c5prepEvent, mode int) []c5prepEvent {
	var out []c5prepEvent
	var dbq []c5prepEvent
	rows := -1
	window := false
	ci := 0
	closesBatch := func(q []c5prepEvent) bool {
		for _, m := range q {
			if m.kind == 'S' || m.kind == 'Q' || m.kind == 'z' {
				return true
			}
		}
		return false
	}
	for steps := 0; (ci < len(cl) || len(dbq) > 0) && steps < 400; steps++ {
		canC := ci < len(cl) && !window
		canB := len(dbq) > 0
		if canB && mode == 1 && ci < len(cl) && !closesBatch(dbq) && !window {
			canB = false
		}
		takeClient := canC
		if canC && canB {
			switch mode {
			case 0:
				takeClient = r.Intn(8) == 0
			case 1:
				takeClient = r.Intn(4) != 0
			default:
				takeClient = r.Intn(2) == 0
			}
		}
		if !canC && !canB {
			break
		}
		if takeClient {
			e := cl[ci]
			ci++
			out = append(out, e)
			if e.fwd {
				dbq = append(dbq, e)
			}
			if e.dies {
				ci = len(cl)
			}
			continue
		}
		head := dbq[0]
		pop := func() { dbq = dbq[1:] }
		switch head.kind {
		case 'P':
			out = append(out, c5prepEvent{kind: 'O', typ: '1'})
			pop()
		case 'B':
			out = append(out, c5prepEvent{kind: 'O', typ: '2'})
			pop()
		case 'd':
			out = append(out, c5prepEvent{kind: 'O', typ: 'n'})
			pop()
		case 'c':
			out = append(out, c5prepEvent{kind: 'O', typ: '3'})
			pop()
		case 'H':
			pop()
		case 'S', 'z':
			out = append(out, c5prepEvent{kind: 'Z'})
			pop()
			if window {
				out = append(out, c5prepEvent{kind: 'O', typ: 'N'})
				window = false
			}
		case 'E', 'Q':
			if rows < 0 {
				rows = r.Intn(3)
			}
			if rows > 0 {
				rows--
				bad := r.Intn(3) != 0
				if bad && head.prod&7 >= 6 {
					// an encoding error makes the proxy skip up to ReadyForQuery: one must be on its way
					if head.kind == 'Q' || closesBatch(dbq[1:]) {
						window = true
					} else {
						bad = false
					}
				}
				out = append(out, c5prepEvent{kind: 'D', bad: bad})
			} else {
				out = append(out, c5prepEvent{kind: 'C'})
				rows = -1
				if head.kind == 'Q' {
					dbq[0] = c5prepEvent{kind: 'z'}
				} else {
					pop()
				}
			}
		default:
			pop()
		}
	}
	if r.Intn(2) == 0 {
		out = append(out, c5prepEvent{kind: 'O', typ: 'N'})
	}
	return out
}

func runC05prep(rep *vh.Report, r *vh.Rng, n int, thorough bool) {
	enc := c5qEncryptorYAML()
	for sc := 0; sc < n; sc++ {
		// ---- censor configuration: at least one denied and one admitted class ----
		denied := map[int]bool{}
		for c := 0; c < 8; c++ {
			if r.Intn(3) == 0 {
				denied[c] = true
			}
		}
		if len(denied) == 0 {
			denied[1+r.Intn(7)] = true
		}
		if len(denied) == 8 {
			delete(denied, r.Intn(8))
		}
		var okCls, denyCls []int
		var dTables, aTables, dPatterns []string
		for c := 0; c < 8; c++ {
			if denied[c] {
				denyCls = append(denyCls, c)
				dTables = append(dTables, fmt.Sprintf("q%d", c))
				dPatterns = append(dPatterns, fmt.Sprintf("SELECT n%d FROM q%d WHERE id = %%%%VALUE%%%%", c, c))
			} else {
				okCls = append(okCls, c)
				aTables = append(aTables, fmt.Sprintf("q%d", c))
			}
		}
		var hs []c5handler
		mode := r.Intn(3)
		switch mode {
		case 0:
			hs = []c5handler{{kind: "deny", tables: dTables}}
		case 1:
			hs = []c5handler{{kind: "allow", tables: aTables}, {kind: "denyall"}}
		default:
			hs = []c5handler{{kind: "deny", patterns: dPatterns}}
		}
		rep.Count(fmt.Sprintf("censor-mode:%d", mode))
		cy := c5yaml(false, hs)

		g := &c5prepGen{r: r, rep: rep, denied: denied, okCls: okCls, denyCls: denyCls,
			accSt: map[int]int{}, stPortals: map[int]map[int]bool{}, cur: map[int]int{}, dbPortal: map[int]int{}}
		if r.Intn(3) == 0 { // the session did something before
			g.tail(1 + r.Intn(3))
		}
		g.shape(sc % c5prepShapes)
		if !g.dead {
			if thorough {
				g.tail(r.Intn(12))
			} else {
				g.tail(r.Intn(5))
			}
		}
		imode := (sc / c5prepShapes) % 3
		rep.Count(fmt.Sprintf("answers:%s", []string{"eager", "pipelined", "random"}[imode]))
		evs := c5prepInterleave(r, g.evs, imode)
		runC05prepSession(rep, sc, cy, enc, denied, evs)
	}
}

func c5prepCString(s string) []byte { return append([]byte(s), 0) }

func c5prepMessage(e c5prepEvent) censorrig.PgMsg {
	switch e.kind {
	case 'Q':
		return pgQ(c5qSQL(e.id))
	case 'P':
		p := c5prepCString(c5prepStmtName(e.nm))
		p = append(p, c5prepCString(c5qSQL(e.id))...)
		return censorrig.PgMsg{Type: 'P', Payload: append(p, 0, 0)}
	case 'B':
		p := c5prepCString(c5prepPortalName(e.portal))
		p = append(p, c5prepCString(c5prepStmtName(e.nm))...)
		return censorrig.PgMsg{Type: 'B', Payload: append(p, 0, 0, 0, 0, 0, 0)}
	case 'E':
		return censorrig.PgMsg{Type: 'E', Payload: append(c5prepCString(c5prepPortalName(e.portal)), 0, 0, 0, 0)}
	case 'd', 'c':
		t := byte('D')
		if e.kind == 'c' {
			t = 'C'
		}
		if e.onStmt {
			return censorrig.PgMsg{Type: t, Payload: append([]byte{'S'}, c5prepCString(c5prepStmtName(e.nm))...)}
		}
		return censorrig.PgMsg{Type: t, Payload: append([]byte{'P'}, c5prepCString(c5prepPortalName(e.portal))...)}
	case 'S':
		return censorrig.PgMsg{Type: 'S'}
	}
	return censorrig.PgMsg{Type: 'H'}
}

func c5prepSplit0(p []byte) (string, []byte) {
	i := bytes.IndexByte(p, 0)
	if i < 0 {
		return string(p), nil
	}
	return string(p[:i]), p[i+1:]
}

func c5prepIDCode(id int) []byte {
	if id < 0 {
		return []byte{0xff}
	}
	return c5n8(id)
}

func runC05prepSession(rep *vh.Report, sc int, cy string, enc []byte, denied map[int]bool, evs []c5prepEvent) {
	var script []string
	for _, e := range evs {
		script = append(script, e.String())
	}
	replay := "censor:\n" + cy + "statement <id> = `SELECT n<id%8> FROM q<id%8> WHERE id = <id/8>`\nscript: " + strings.Join(script, " ")
	rig, err := censorrig.NewPgPrepRig([]byte(cy), enc)
	if err != nil {
		rep.Count("rig-config-rejected")
		return
	}
	defer rig.Close()
	if err := rig.Startup(); err != nil {
		rep.Violate("rig-startup", "start-up exchange failed: "+err.Error(), replay)
		return
	}
	var terms []string
	var outs [][]byte
	// one violation per class and session (a wrong registry entry shows at every later step)
	reported := map[string]bool{}
	violate := func(class, what string) {
		if reported[class] {
			return
		}
		reported[class] = true
		rep.Violate(class, what, replay)
	}
	// the recording back end
	dbStmts := map[string]int{}
	dbPortals := map[string]int{}
	var outstanding []int
	bindsSeen := 0
	cliSeen := rig.CliStarted()
	hang := func(what string) {
		rep.OracleChecks++
		violate("hang", "the proxy did not produce the expected message: "+what)
	}
	recvCli := func() (censorrig.PgMsg, bool) {
		m, err := censorrig.Recv(rig.ToCli, c5qWait)
		if err != nil {
			return m, false
		}
		cliSeen++
		return m, true
	}
	// (3) Acra's registries against the back end's
	registries := func(after string) {
		rep.OracleChecks++
		st := rig.Proxy.VerifS43Statements()
		for name, text := range st {
			want, ok := dbStmts[name]
			if got := c5prepParseID(text); !ok || got != want {
				w := "no statement of that name (it never saw one)"
				if ok {
					w = fmt.Sprintf("%q", c5qSQL(want))
				}
				violate("registry-wrong-statement", fmt.Sprintf("after %s Acra's registry holds %q under the name %q, the database holds %s", after, text, name, w))
			}
		}
		for name, want := range dbStmts {
			if _, ok := st[name]; !ok {
				violate("registry-wrong-statement", fmt.Sprintf("after %s Acra's registry has no statement %q, the database holds %q", after, name, c5qSQL(want)))
			}
		}
		for portal, text := range rig.Proxy.VerifS43Cursors() {
			want, ok := dbPortals[portal]
			if got := c5prepParseID(text); !ok || got != want {
				violate("portal-wrong-statement", fmt.Sprintf("after %s Acra's portal %q is bound to %q, the database's to statement %d (known=%v)", after, portal, text, want, ok))
			}
		}
	}
	dead := false
events:
	for i, e := range evs {
		switch e.kind {
		case 'Q', 'P', 'B', 'E', 'd', 'c', 'S', 'H':
			msg := c5prepMessage(e)
			if err := rig.ClientSend(msg); err != nil {
				hang("client write: " + err.Error())
				return
			}
			verdict := "" // forwarded | censored | error
			select {
			case m, ok := <-rig.ToDB:
				if !ok {
					hang("back end connection closed")
					return
				}
				verdict = "forwarded"
				// (1) byte for byte, never a denied class
				rep.OracleChecks++
				if m.Type != msg.Type || !bytes.Equal(m.Payload, msg.Payload) {
					violate("forwarded-other", fmt.Sprintf("back end received %c %q for the client's %c %q", m.Type, m.Payload, msg.Type, msg.Payload))
				}
				switch m.Type {
				case 'Q':
					id := c5prepParseID(string(bytes.TrimRight(m.Payload, "\x00")))
					if id >= 0 && denied[id&7] {
						violate("forwarded-rejected", fmt.Sprintf("back end received the rejected statement %q", c5qSQL(id)))
					}
					outstanding = append(outstanding, id)
				case 'P':
					name, rest := c5prepSplit0(m.Payload)
					sql, _ := c5prepSplit0(rest)
					id := c5prepParseID(sql)
					if id >= 0 && denied[id&7] {
						violate("forwarded-rejected", fmt.Sprintf("back end received the rejected statement %q", c5qSQL(id)))
					}
					dbStmts[name] = id
				case 'B':
					portal, rest := c5prepSplit0(m.Payload)
					name, _ := c5prepSplit0(rest)
					if id, ok := dbStmts[name]; ok {
						dbPortals[portal] = id
					} else {
						rep.Count("db:bind-unknown-statement")
					}
				case 'E':
					portal, _ := c5prepSplit0(m.Payload)
					if id, ok := dbPortals[portal]; ok {
						outstanding = append(outstanding, id)
					} else {
						rep.Count("db:execute-unknown-portal")
						outstanding = append(outstanding, -1)
					}
				}
			case m, ok := <-rig.ToCli:
				cliSeen++
				m2, ok2 := recvCli()
				rep.OracleChecks++
				if !ok || !ok2 || m.Type != 'E' || m2.Type != 'Z' {
					violate("reject-reply", fmt.Sprintf("rejected statement answered with %c %c instead of ErrorResponse ReadyForQuery", m.Type, m2.Type))
					return
				}
				verdict = "censored"
				// (2) only statements can be rejected, and only those of a denied class
				if (e.kind != 'Q' && e.kind != 'P') || !denied[e.id&7] {
					violate("reject-reply", "error answer for "+e.String()+", which no rule rejects")
				}
			case perr := <-rig.ErrCh:
				verdict = "error"
				rep.Count("session-error:" + e.String()[:strings.IndexByte(e.String(), '(')])
				_ = perr
			case <-time.After(c5qWait):
				hang("neither forward nor error for " + e.String())
				return
			}
			rep.Count(fmt.Sprintf("client:%c:%s", e.kind, verdict))
			censored := verdict == "censored"
			switch e.kind {
			case 'Q':
				terms = append(terms, fmt.Sprintf("CQ %d %s", e.id, cb(censored)))
			case 'P':
				terms = append(terms, fmt.Sprintf("CP %d %d %s", e.nm, e.id, cb(censored)))
			case 'B':
				terms = append(terms, fmt.Sprintf("CB %d %d", e.portal, e.nm))
			case 'E':
				terms = append(terms, fmt.Sprintf("CE %d", e.portal))
			default:
				terms = append(terms, "CO")
			}
			switch verdict {
			case "censored":
				if e.kind != 'Q' && e.kind != 'P' {
					outs = append(outs, []byte{0xfe})
				} else {
					outs = append(outs, []byte{2})
				}
			case "error":
				outs = append(outs, []byte{0x0c})
				dead = true
			default:
				switch e.kind {
				case 'Q':
					outs = append(outs, append([]byte{1}, c5n8(e.id)...))
				case 'P':
					outs = append(outs, append([]byte{8, byte(e.nm)}, c5n8(e.id)...))
				case 'B':
					// (4) the statement handed to the OnBind observers
					binds := rig.Observer.Binds()
					seen := -1
					rep.OracleChecks++
					if len(binds) != bindsSeen+1 {
						violate("bind-not-observed", fmt.Sprintf("%s: %d OnBind calls instead of 1", e, len(binds)-bindsSeen))
					} else {
						seen = c5prepParseID(binds[len(binds)-1])
						want, ok := dbStmts[c5prepStmtName(e.nm)]
						if !ok || seen != want {
							violate("bind-wrong-statement", fmt.Sprintf("%s (event %d): the OnBind observers were handed %q, the database binds statement %d %q (known=%v)", e, i, binds[len(binds)-1], want, c5qSQL(want), ok))
						}
					}
					bindsSeen = len(binds)
					outs = append(outs, append([]byte{9, byte(e.portal), byte(e.nm)}, c5prepIDCode(seen)...))
				case 'E':
					// (5) the statement of the queued pending query packet
					pend := rig.Proxy.VerifS43Pending()
					queued := -1
					rep.OracleChecks++
					if len(pend) == 0 {
						violate("execute-not-queued", e.String()+": no pending query packet")
					} else {
						queued = c5prepParseID(pend[len(pend)-1])
						want := outstanding[len(outstanding)-1]
						if queued != want {
							violate("execute-wrong-statement", fmt.Sprintf("%s (event %d): queued with %q, the database executes statement %d %q", e, i, pend[len(pend)-1], want, c5qSQL(want)))
						}
					}
					outs = append(outs, append([]byte{0x0a, byte(e.portal)}, c5prepIDCode(queued)...))
				default:
					outs = append(outs, []byte{0x0b})
				}
			}
			registries(e.String())
			if dead {
				break events
			}
		default:
			var msg censorrig.PgMsg
			switch e.kind {
			case 'D':
				if e.bad {
					msg = pgRow("xyz")
				} else {
					msg = pgRow("7")
				}
				terms = append(terms, "DR "+cb(e.bad))
			case 'C':
				msg = censorrig.PgMsg{Type: 'C', Payload: []byte("SELECT 1\x00")}
				terms = append(terms, "DC")
			case 'Z':
				msg = censorrig.PgMsg{Type: 'Z', Payload: []byte{'I'}}
				terms = append(terms, "DZ")
			default:
				if e.typ == 'N' {
					msg = pgNotice()
				} else {
					msg = censorrig.PgMsg{Type: e.typ}
				}
				terms = append(terms, "DO")
			}
			if err := rig.BackendSendSync(msg); err != nil {
				hang(fmt.Sprintf("back-end message %s (event %d) not consumed: %v", e, i, err))
				return
			}
			var got []censorrig.PgMsg
			for rig.CliStarted() > cliSeen {
				m, ok := recvCli()
				if !ok {
					hang("client message started but not completed")
					return
				}
				got = append(got, m)
			}
			head := -1
			if len(outstanding) > 0 {
				head = outstanding[0]
			}
			switch {
			case len(got) == 0:
				outs = append(outs, []byte{6})
			case e.kind == 'D' && got[0].Type == 'D':
				val := string(got[0].Payload[6:])
				code := byte(0xee)
				if e.bad {
					switch {
					case val == "xyz":
						code = 0
					case len(val) == 2 && val[0] == '4':
						code = val[1] - '0'
					default:
						code = 0xfd
					}
					// (6) settings of the statement the back end is executing
					rep.OracleChecks++
					if head < 0 {
						rep.Count("row-without-statement")
					} else if code != byte(head&7) {
						violate("row-wrong-settings", fmt.Sprintf("row of %q (event %d) came back as %q: handled with the settings of class %d", c5qSQL(head), i, val, code))
					}
				} else if val != "7" {
					violate("row-changed", "decodable value 7 came back as "+val)
				}
				outs = append(outs, []byte{3, code})
			case e.kind == 'D' && got[0].Type == 'E':
				code := byte(0xfd)
				txt := string(got[0].Payload)
				for c := 0; c < 8; c++ {
					if strings.Contains(txt, fmt.Sprintf("\"n%d\"", c)) {
						code = byte(c)
					}
				}
				rep.OracleChecks++
				if !e.bad || head < 0 || head&7 < 6 || int(code) != head&7 {
					violate("row-wrong-settings", fmt.Sprintf("row (bad=%v, event %d) of statement %d answered with %q", e.bad, i, head, txt))
				}
				if len(got) != 2 || got[1].Type != 'Z' {
					violate("reject-reply", "encoding error not followed by ReadyForQuery")
				}
				outs = append(outs, []byte{4, code})
			default:
				rep.OracleChecks++
				if got[0].Type != msg.Type || !bytes.Equal(got[0].Payload, msg.Payload) || len(got) != 1 {
					violate("passthrough-changed", fmt.Sprintf("back-end message %c reached the client as %c", msg.Type, got[0].Type))
				}
				outs = append(outs, []byte{5})
			}
			if e.kind == 'C' && len(outstanding) > 0 {
				outstanding = outstanding[1:]
			}
		}
	}
	// (1) nothing else is waiting on the back end's connection
	rep.OracleChecks++
	select {
	case m, ok := <-rig.ToDB:
		if ok {
			violate("forwarded-extra", fmt.Sprintf("back end received an unexpected packet %c %q", m.Type, m.Payload))
		}
	default:
	}
	// (7) pending queue = executions sent and not completed
	pend := rig.Proxy.VerifS43Pending()
	var want []string
	for _, id := range outstanding {
		want = append(want, c5qSQL(id))
	}
	rep.OracleChecks++
	if fmt.Sprint(pend) != fmt.Sprint(want) {
		violate("pending-misaligned", fmt.Sprintf("pendingQueryPackets = %q, executions the back end still has to answer = %q", pend, want))
	}
	last := []byte{7}
	for _, p := range pend {
		last = append(last, c5prepIDCode(c5prepParseID(p))...)
	}
	outs = append(outs, last)
	// final registries, by name
	regs := []byte{0x0e}
	st := rig.Proxy.VerifS43Statements()
	for nm := 0; nm < c5prepStmtNames; nm++ {
		if text, ok := st[c5prepStmtName(nm)]; ok {
			regs = append(regs, 1)
			regs = append(regs, c5prepIDCode(c5prepParseID(text))...)
		} else {
			regs = append(regs, 0)
		}
	}
	outs = append(outs, regs)
	curs := []byte{0x0f}
	cu := rig.Proxy.VerifS43Cursors()
	for p := 0; p < c5prepPortalNames; p++ {
		if text, ok := cu[c5prepPortalName(p)]; ok {
			curs = append(curs, 1)
			curs = append(curs, c5prepIDCode(c5prepParseID(text))...)
		} else {
			curs = append(curs, 0)
		}
	}
	outs = append(outs, curs)
	rep.Count(fmt.Sprintf("events:%d", len(evs)/10*10))
	var xs []string
	for _, t := range terms {
		xs = append(xs, "("+t+")")
	}
	rep.Add(fmt.Sprintf("sc%d %s", sc, strings.Join(script, " ")), "(OpSession ["+strings.Join(xs, "; ")+"])", vh.Ok(outs...))
}
