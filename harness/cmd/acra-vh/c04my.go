package main

// C04, MySQL path: the SQL proxy stores only protected forms and restores originals on read.
// Every scenario = one generated encryptor config + one fake MySQL database + up to three sessions through
// the REAL in-process MySQL proxy (harness/myrig: decryptor/mysql.NewProxyFactory(...).New, both proxy
// goroutines, scripted client, recording back end with its own MySQL literal reader).
// Write path exercised: encryptor/mysql QueryDataEncryptor.OnQuery (COM_QUERY and COM_STMT_PREPARE text,
// parsed by acra's sqlparser, literals through DBDataCoder) and OnBind (COM_STMT_EXECUTE parameters,
// decryptor/mysql/packet.go GetBindParameters/SetParameters, prepared_statements.go bound values).
// Read path: QueryResponseHandler -> processTextDataRow / processBinaryDataRow with the subscribers of
// decryptor/mysql/proxy.go.
// Oracle classes as in c04: plaintext-to-db, uncovered-changed, read-back, non-owner-plaintext
// (+ forwarded-statement-invalid, result-error, session-dropped, proxy-panic, harness-error).
// The modelled sessions are replayed on the SAME model ops as the PostgreSQL domain (Sess / Read of
// Model/RunProxy.v); MySQL specifics of the replay:
//   * INSERT .. ON DUPLICATE KEY UPDATE on an existing key is the abstract statement
//     Update tbl <assignments> (Some (id, k)) (encryptUpdateExpressions runs on insert.OnDup), on a fresh
//     key it is Insert (its ON DUPLICATE values are checked by the oracle only);
//   * a statement MySQL rejects (VALUES tuple shorter / longer than the column list, error 1136) has no
//     effect on the database: it is replayed as Other, its database-bound bytes are checked by the oracle.

import (
	"bytes"
	"context"
	"encoding/hex"
	"fmt"
	"os"
	"strconv"
	"strings"
	"unicode/utf8"

	"acra-vh/myrig"
	"acra-vh/vh"

	encmysql "github.com/cossacklabs/acra/encryptor/mysql"
	"github.com/cossacklabs/acra/sqlparser"
)

func init() { register("c04my", "Model.RunProxy", runC04my) }

type c04myScenario struct {
	id      int
	tables  []*c04Table
	yaml    string
	ks      *vh.MemKeystore
	ref     map[string]map[int]map[string]*c04Cell // table -> id -> column -> what the application wrote
	nextID  int
	exotic  bool       // oracle-only scenario (NULL parameters, explicit NULL literals)
	cells   []*c04Cell // every cell ever written (overwritten ones stay expected by earlier SELECTs)
	history []string   // scripts of the earlier sessions of the scenario (part of every replay)
}

func (sc *c04myScenario) ids(table string) []int {
	var out []int
	for id := 1; id <= sc.nextID; id++ {
		if _, ok := sc.ref[table][id]; ok {
			out = append(out, id)
		}
	}
	return out
}

func (sc *c04myScenario) table(name string) *c04Table {
	for _, t := range sc.tables {
		if t.name == name {
			return t
		}
	}
	return nil
}

// column kinds of the MySQL domain: id (INT), plain (VARCHAR), ab / as (BLOB protected by one envelope)
func c04myGenTables(r *vh.Rng, rep *vh.Report) []*c04Table {
	t := &c04Table{name: "t" + fmt.Sprint(r.Intn(3)), configured: true}
	t.cols = append(t.cols, c04Col{name: "id", kind: "id", oid: vh.OidInt4})
	n := 2 + r.Intn(3)
	hasProt := false
	for i := 0; i < n; i++ {
		c := c04Col{name: fmt.Sprintf("c%d", i), oid: vh.OidBytea}
		switch k := r.Intn(10); {
		case k < 3:
			c.kind, c.oid = "plain", vh.OidText
		case k < 7:
			c.kind = "ab"
		default:
			c.kind = "as"
		}
		if i == n-1 && !hasProt && !c.protected() {
			c.kind, c.oid = "ab", vh.OidBytea
		}
		if c.protected() {
			hasProt = true
			if r.Intn(4) == 0 {
				c.clientID = connOwnerB
			}
		}
		rep.Count("col:" + c.kind)
		if c.clientID != "" {
			rep.Count("col:client_id-override")
		}
		t.cols = append(t.cols, c)
	}
	u := &c04Table{name: "u" + fmt.Sprint(r.Intn(3))}
	u.cols = append(u.cols, c04Col{name: "id", kind: "id", oid: vh.OidInt4})
	u.cols = append(u.cols, c04Col{name: "v", kind: "plain", oid: vh.OidText})
	u.cols = append(u.cols, c04Col{name: "w", kind: "plain", oid: vh.OidBytea})
	return []*c04Table{t, u}
}

// c04myGenValue: c04GenValue plus the bytes MySQL string syntax treats specially.
func c04myGenValue(r *vh.Rng, rep *vh.Report, text bool) (val, marker []byte) {
	val, marker = c04GenValue(r, rep, text)
	switch r.Intn(8) {
	case 0:
		if text {
			val = append(val, []byte(` "q" `)...)
		} else {
			val = append([]byte{0x00, '"', '\'', '\\', '\n', '\r', 0x1a, '\t', 0x08}[r.Intn(9):][:1], val...)
		}
		rep.Count("value:mysql-special-byte")
	case 1:
		if !text { // first byte below 0x10: can be written 0x<odd number of digits>
			val = append([]byte{byte(1 + r.Intn(15))}, val...)
			rep.Count("value:leading-zero-nibble")
		}
	case 2:
		if !text {
			val = append(val, 0x00, '\\', 0xff, '\'', 0x1a)
			rep.Count("value:mysql-special-tail")
		}
	}
	return
}

// c04myEscape: v as the body of a MySQL quoted string delimited by q.
// style 0: quote doubled, only the bytes that must be escaped are; style 1: backslash escapes wherever MySQL has one.
func c04myEscape(v []byte, q byte, style int) string {
	var sb strings.Builder
	for _, b := range v {
		switch {
		case b == q:
			if style == 0 {
				sb.WriteByte(q)
				sb.WriteByte(q)
			} else {
				sb.WriteByte('\\')
				sb.WriteByte(q)
			}
		case b == '\\':
			sb.WriteString(`\\`)
		case b == 0:
			sb.WriteString(`\0`)
		case b == '\n':
			sb.WriteString(`\n`)
		case b == '\r':
			sb.WriteString(`\r`)
		case b == 0x1a:
			sb.WriteString(`\Z`)
		case style == 1 && (b == '\'' || b == '"'):
			sb.WriteByte('\\')
			sb.WriteByte(b)
		case style == 1 && b == '\t':
			sb.WriteString(`\t`)
		case style == 1 && b == 0x08:
			sb.WriteString(`\b`)
		default:
			sb.WriteByte(b)
		}
	}
	return sb.String()
}

func c04myQuoted(r *vh.Rng, rep *vh.Report, v []byte) string {
	q := byte('\'')
	name := "single"
	if r.Intn(3) == 0 {
		q, name = '"', "double"
	}
	style := r.Intn(2)
	rep.Count(fmt.Sprintf("literal:%s-quoted/style%d", name, style))
	return string(q) + c04myEscape(v, q, style) + string(q)
}

func c04myBits(v []byte) string {
	var sb strings.Builder
	for _, b := range v {
		fmt.Fprintf(&sb, "%08b", b)
	}
	return sb.String()
}

// c04myLiteral renders v as a MySQL literal for a column of type oid.
func c04myLiteral(r *vh.Rng, rep *vh.Report, v []byte, oid uint32) string {
	switch oid {
	case vh.OidInt4:
		return string(v)
	case vh.OidText:
		return c04myQuoted(r, rep, v)
	}
	hx := hex.EncodeToString(v)
	if r.Bool() {
		hx = strings.ToUpper(hx)
	}
	var s string
	switch k := r.Intn(10); {
	case k < 3 || len(v) == 0 && k >= 6:
		s = c04myQuoted(r, rep, v)
	case k < 6:
		x := "X"
		if r.Bool() {
			x = "x"
		}
		rep.Count("literal:hex-" + x + "-quoted")
		s = x + "'" + hx + "'"
	case k < 9:
		if v[0] < 0x10 && r.Bool() {
			rep.Count("literal:hex-0x-odd")
			s = "0x" + hx[1:]
		} else {
			rep.Count("literal:hex-0x")
			s = "0x" + hx
		}
	default:
		rep.Count("literal:bit-b")
		s = "b'" + c04myBits(v) + "'"
	}
	switch r.Intn(8) {
	case 0:
		rep.Count("literal:_binary-introducer")
		s = "_binary " + s
	case 1:
		rep.Count("literal:parenthesised")
		s = "(" + s + ")"
	}
	return s
}

// c04myParam renders v as a bound parameter of COM_STMT_EXECUTE.
func c04myParam(r *vh.Rng, rep *vh.Report, v []byte, oid uint32) myrig.Param {
	var p myrig.Param
	switch oid {
	case vh.OidInt4:
		p = myrig.Param{Type: []byte{myrig.TypeLong, myrig.TypeLongLong, myrig.TypeVarString, myrig.TypeLong}[r.Intn(4)], Data: v}
		if len(v) < 3 && r.Intn(4) == 0 {
			p.Type = myrig.TypeTiny
		}
	case vh.OidText:
		p = myrig.Param{Type: []byte{myrig.TypeVarString, myrig.TypeString, 0x0f}[r.Intn(3)], Data: v}
	default:
		p = myrig.Param{Type: []byte{myrig.TypeBlob, myrig.TypeVarString, myrig.TypeString, 0xfb, 0xfa, myrig.TypeBlob}[r.Intn(6)], Data: v}
	}
	if p.Data == nil {
		p.Data = []byte{}
	}
	rep.Count(fmt.Sprintf("param:type-0x%02x", p.Type))
	return p
}

// encodings of a marker that must not reach a MySQL database for a protected column
func c04myContainsMarker(hay, m []byte) (bool, string) {
	if found, form := containsMarker(hay, m); found {
		return true, form
	}
	if len(m) < 8 {
		return false, ""
	}
	for _, q := range []byte{'\'', '"'} {
		for style := 0; style < 2; style++ {
			if bytes.Contains(hay, []byte(c04myEscape(m, q, style))) {
				return true, "mysql-escaped"
			}
		}
	}
	if bytes.Contains(hay, []byte(c04myBits(m))) {
		return true, "bits"
	}
	return false, ""
}

type c04myStmt struct {
	sql      string
	prepared bool
	params   []myrig.Param
	kind     string // insert | update | select | other
	table    *c04Table
	// value positions in statement order: VALUES tuples row major, then ON DUPLICATE KEY UPDATE assignments; or SET
	wIDs       []int
	wCols      []string
	wVals      [][]byte // nil for a VALUES(col) reference / NULL
	wMarks     [][]byte
	wRole      []string // val | dup | dupref | set | extra (beyond the column list) | null
	wRef       []int    // dupref: index of the referenced VALUES position
	wNull      []bool   // a NULL parameter
	wCells     []*c04Cell
	nRows      int
	rowLen     int
	colList    []c04Col // columns of the VALUES tuples
	cols       bool     // explicit column list
	conflict   bool     // the inserted key exists: ON DUPLICATE KEY UPDATE applies
	invalid    string   // "" | short | long : MySQL rejects the statement (1136)
	nLit       int
	onDupParam bool // a parameter inside ON DUPLICATE KEY UPDATE
	fnParams   bool // a value position with two parameters (IFNULL(?, ?)) precedes
	// result shape
	items   []string
	rowIDs  []int
	expect  [][]*c04Cell
	whereID int
	coq     string // abstract form (filled when the statement is generated; "" = not modelled)
	note    string
}

func (st *c04myStmt) leakClass() string { return "plaintext-to-db" }

// KNOWN FINDING (known_findings.json, class "mysql-leading-backslash-x"): sqlparser writes a string literal whose
// value starts with backslash-x back WITHOUT escaping that backslash (sqltypes.encodeBytesSQL keeps a leading "\x"
// verbatim: PostgreSQL hex strings) and its tokenizer keeps a leading "\x" of the text verbatim; MySQL reads "\x"
// as "x".  A statement of a configured table that is re-serialised (one of its literals was protected) therefore
// changes such a value of an UNCOVERED column on its way to the database.  Generated deterministically
// (c04myBackslashXScenario, and every 24th literal-coding case); those scenarios are oracle-only.
const c04myClassBackslashX = "mysql-leading-backslash-x"

func c04myBackslashXScenario(scn int) bool { return scn%20 == 7 }

func c04myUncoveredClass(val []byte) string {
	if bytes.HasPrefix(val, []byte(`\x`)) {
		return c04myClassBackslashX
	}
	return "uncovered-changed"
}

// genBackslashX: INSERT INTO t (id, <plain text column>, <protected column>) VALUES (k, '\\xampp..', X'..')
func (sc *c04myScenario) genBackslashX(r *vh.Rng, rep *vh.Report, t *c04Table) *c04myStmt {
	st := &c04myStmt{table: t, kind: "insert", cols: true}
	var plain, prot *c04Col
	for i := range t.cols {
		if t.cols[i].kind == "plain" && plain == nil {
			plain = &t.cols[i]
		}
		if t.cols[i].protected() && prot == nil {
			prot = &t.cols[i]
		}
	}
	sc.nextID++
	id := sc.nextID
	pv := []byte(`\xampp\` + string(alnum[r.Intn(len(alnum))]) + "data")
	sv, sm := c04GenValue(r, rep, false)
	add := func(c *c04Col, v, m []byte) {
		st.wIDs, st.wCols, st.wVals, st.wMarks = append(st.wIDs, id), append(st.wCols, c.name), append(st.wVals, v), append(st.wMarks, m)
		st.wRole, st.wRef, st.wNull = append(st.wRole, "val"), append(st.wRef, -1), append(st.wNull, false)
	}
	add(&t.cols[0], []byte(fmt.Sprint(id)), nil)
	add(plain, pv, nil)
	add(prot, sv, sm)
	st.colList = []c04Col{t.cols[0], *plain, *prot}
	st.nRows, st.rowLen = 1, 3
	st.sql = fmt.Sprintf("INSERT INTO %s (id, %s, %s) VALUES (%d, '%s', X'%s')", t.name, plain.name, prot.name, id, c04myEscape(pv, '\'', 0), hex.EncodeToString(sv))
	rep.Count("stmt:insert-leading-backslash-x(known finding shape)")
	return st
}

var c04myOthers = []string{"BEGIN", "COMMIT", "SET NAMES utf8mb4", "SET autocommit = 1"}

// c04myValue produces one value position: generates the value, renders it (literal / parameter) into sb.
func (sc *c04myScenario) c04myValue(r *vh.Rng, rep *vh.Report, st *c04myStmt, sb *strings.Builder, id int, c c04Col, role string, asParam bool) (v []byte) {
	var m []byte
	switch {
	case c.kind == "id":
		v = []byte(fmt.Sprint(id))
	case r.Intn(12) == 0 && c.oid == vh.OidBytea:
		v = []byte{}
		rep.Count("value:empty")
	default:
		v, m = c04myGenValue(r, rep, c.oid == vh.OidText)
	}
	st.wIDs, st.wCols, st.wVals, st.wMarks = append(st.wIDs, id), append(st.wCols, c.name), append(st.wVals, v), append(st.wMarks, m)
	st.wRole, st.wRef, st.wNull = append(st.wRole, role), append(st.wRef, -1), append(st.wNull, false)
	if asParam {
		if sc.exotic && c.kind != "id" && r.Intn(6) == 0 {
			// a NULL parameter (oracle-only scenarios): typed NULL or MYSQL_TYPE_NULL
			p := myrig.Param{Type: myrig.TypeNull}
			if r.Bool() {
				p.Type = myrig.TypeVarString
				rep.Count("param:NULL-typed")
			} else {
				rep.Count("param:NULL-type-null")
			}
			st.params = append(st.params, p)
			n := len(st.wVals) - 1
			st.wVals[n], st.wMarks[n], st.wNull[n] = nil, nil, true
			sb.WriteString("?")
			return nil
		}
		st.params = append(st.params, c04myParam(r, rep, v, c.oid))
		sb.WriteString("?")
		return v
	}
	if c.kind != "id" {
		st.nLit++
	}
	sb.WriteString(c04myLiteral(r, rep, v, c.oid))
	return v
}

func c04myColName(r *vh.Rng, rep *vh.Report, name string) string {
	if r.Intn(6) == 0 {
		rep.Count("ident:backquoted")
		return "`" + name + "`"
	}
	return name
}

func (sc *c04myScenario) genWrite(r *vh.Rng, rep *vh.Report, t *c04Table, forcePrepared int) *c04myStmt {
	st := &c04myStmt{table: t}
	st.prepared = r.Intn(3) == 0
	if forcePrepared >= 0 {
		st.prepared = forcePrepared == 1
	}
	allParams := r.Intn(3) == 0
	idParam := r.Bool()
	useParam := func(c c04Col) bool {
		if !st.prepared {
			return false
		}
		if c.kind == "id" {
			return idParam
		}
		return allParams || r.Intn(4) != 0
	}
	var sb strings.Builder
	if len(sc.ref[t.name]) > 0 && r.Intn(3) == 0 {
		// UPDATE t SET c = v, .. WHERE id = k
		st.kind = "update"
		ids := sc.ids(t.name)
		id := ids[r.Intn(len(ids))]
		st.whereID = id
		alias := ""
		sb.WriteString("UPDATE " + t.name)
		if r.Intn(8) == 0 {
			alias = "x"
			sb.WriteString(" AS x")
			rep.Count("stmt:update-alias")
		}
		sb.WriteString(" SET ")
		var chosen []c04Col
		for _, c := range t.cols[1:] {
			if r.Intn(2) == 0 && !(len(chosen) == 0 && c.name == t.cols[len(t.cols)-1].name) {
				continue
			}
			chosen = append(chosen, c)
		}
		var sets []string
		for i, c := range chosen {
			if i > 0 {
				sb.WriteString(", ")
			}
			name := c04myColName(r, rep, c.name)
			switch {
			case alias != "":
				name = alias + "." + name
			case r.Intn(6) == 0:
				name = t.name + "." + name
				rep.Count("stmt:update-qualified-column")
			}
			sb.WriteString(name + " = ")
			v := sc.c04myValue(r, rep, st, &sb, id, c, "set", useParam(c))
			if v != nil {
				sets = append(sets, "("+coqBytes(c.name)+", "+vh.H(v)+")")
			}
		}
		if st.prepared && (idParam || len(st.params) == 0) {
			st.params = append(st.params, c04myParam(r, rep, []byte(fmt.Sprint(id)), vh.OidInt4))
			sb.WriteString(" WHERE id = ?")
			rep.Count("stmt:update-where-parameter")
		} else {
			sb.WriteString(fmt.Sprintf(" WHERE id = %d", id))
		}
		st.coq = fmt.Sprintf("(Update %s [%s] (Some (%s, %s)) [])", coqBytes(t.name), strings.Join(sets, "; "), coqBytes("id"), coqBytes(fmt.Sprint(id)))
		rep.Count("stmt:update")
		st.sql = sb.String()
		return st
	}
	// INSERT
	st.kind = "insert"
	cols := t.cols
	coqCols := "None"
	sb.WriteString("INSERT INTO " + t.name)
	shape := r.Intn(12)
	switch {
	case shape < 6: // explicit column list, random subset/order
		var sel []c04Col
		sel = append(sel, t.cols[0])
		for _, c := range t.cols[1:] {
			if r.Intn(5) != 0 {
				sel = append(sel, c)
			}
		}
		if r.Bool() {
			for i, j := 0, len(sel)-1; i < j; i, j = i+1, j-1 {
				sel[i], sel[j] = sel[j], sel[i]
			}
		}
		cols = sel
		var names, cn []string
		for _, c := range cols {
			names = append(names, c04myColName(r, rep, c.name))
			cn = append(cn, coqBytes(c.name))
		}
		sb.WriteString(" (" + strings.Join(names, ", ") + ")")
		coqCols = "(Some [" + strings.Join(cn, "; ") + "])"
		st.cols = true
		rep.Count("stmt:insert-collist")
	default:
		rep.Count("stmt:insert-schema-order")
	}
	st.colList = cols
	// tuple length: exact, or (MySQL rejects these, the proxy has forwarded them before) shorter / longer
	tupleCols := cols
	extra := 0
	switch k := r.Intn(14); {
	case k == 0 && len(cols) > 2:
		tupleCols = cols[:2+r.Intn(len(cols)-2)]
		st.invalid = "short"
		rep.Count("stmt:insert-short-tuple(rejected by MySQL)")
	case k == 1:
		extra = 1
		st.invalid = "long"
		rep.Count("stmt:insert-long-tuple(rejected by MySQL)")
	}
	nrows := 1
	onDup := st.invalid == "" && r.Intn(4) == 0
	if !onDup && r.Intn(4) == 0 {
		nrows = 2 + r.Intn(2)
		rep.Count("stmt:insert-multirow")
	}
	ids := sc.ids(t.name)
	sb.WriteString(" VALUES ")
	var rowsCoq []string
	var newIDs []int
	fnID := st.prepared && idParam && cols[0].kind == "id" && r.Intn(3) == 0
	for i := 0; i < nrows; i++ {
		id := 0
		if onDup && len(ids) > 0 && r.Bool() {
			id = ids[r.Intn(len(ids))]
			st.conflict = true
		} else {
			sc.nextID++
			id = sc.nextID
		}
		newIDs = append(newIDs, id)
		if i > 0 {
			sb.WriteString(", ")
		}
		sb.WriteString("(")
		var vals []string
		for j, c := range tupleCols {
			if j > 0 {
				sb.WriteString(", ")
			}
			if fnID && j == 0 && i == 0 {
				// one value position holding TWO parameters: IFNULL(?, ?) evaluates to the id
				st.wIDs, st.wCols, st.wVals, st.wMarks = append(st.wIDs, id), append(st.wCols, c.name), append(st.wVals, []byte(fmt.Sprint(id))), append(st.wMarks, nil)
				st.wRole, st.wRef, st.wNull = append(st.wRole, "val"), append(st.wRef, -1), append(st.wNull, false)
				st.params = append(st.params, c04myParam(r, rep, []byte(fmt.Sprint(id)), vh.OidInt4), c04myParam(r, rep, []byte("0"), vh.OidInt4))
				sb.WriteString("IFNULL(?, ?)")
				st.fnParams = true
				rep.Count("stmt:insert-two-parameters-in-one-value(IFNULL)")
				vals = append(vals, vh.H([]byte(fmt.Sprint(id))))
				continue
			}
			v := sc.c04myValue(r, rep, st, &sb, id, c, "val", useParam(c))
			vals = append(vals, vh.H(v))
		}
		for e := 0; e < extra; e++ {
			sb.WriteString(", ")
			v := sc.c04myValue(r, rep, st, &sb, id, c04Col{name: "", kind: "plain", oid: vh.OidBytea}, "extra", useParam(c04Col{}))
			_ = v
		}
		sb.WriteString(")")
		rowsCoq = append(rowsCoq, "["+strings.Join(vals, "; ")+"]")
	}
	st.nRows, st.rowLen = nrows, len(tupleCols)+extra
	nRowVals := len(st.wVals)
	var dupSets []string
	if onDup {
		rep.Count("stmt:insert-on-duplicate-key-update")
		if st.conflict {
			rep.Count("stmt:insert-on-duplicate-key-update/conflict")
		}
		sb.WriteString(" ON DUPLICATE KEY UPDATE ")
		id := newIDs[0]
		first := true
		for _, c := range t.cols[1:] {
			if r.Intn(2) == 0 && !(first && c.name == t.cols[len(t.cols)-1].name) {
				continue
			}
			if !first {
				sb.WriteString(", ")
			}
			first = false
			sb.WriteString(c04myColName(r, rep, c.name) + " = ")
			// VALUES(col) when the column is in the tuple
			refIdx := -1
			for j, tc := range tupleCols {
				if tc.name == c.name {
					refIdx = j
				}
			}
			if refIdx >= 0 && st.wVals[refIdx] != nil && r.Intn(3) == 0 {
				sb.WriteString("VALUES(" + c.name + ")")
				st.wIDs, st.wCols, st.wVals, st.wMarks = append(st.wIDs, id), append(st.wCols, c.name), append(st.wVals, nil), append(st.wMarks, nil)
				st.wRole, st.wRef, st.wNull = append(st.wRole, "dupref"), append(st.wRef, refIdx), append(st.wNull, false)
				rep.Count("stmt:on-duplicate-values-ref")
				dupSets = append(dupSets, "("+coqBytes(c.name)+", "+vh.H(st.wVals[refIdx])+")")
				continue
			}
			np := len(st.params)
			v := sc.c04myValue(r, rep, st, &sb, id, c, "dup", useParam(c))
			if len(st.params) > np {
				st.onDupParam = true
				rep.Count("stmt:on-duplicate-parameter")
			}
			if v != nil {
				dupSets = append(dupSets, "("+coqBytes(c.name)+", "+vh.H(v)+")")
			}
		}
	}
	_ = nRowVals
	switch {
	case st.invalid != "":
		st.coq = "(Other " + coqBytes("rejected: "+st.invalid) + ")"
	case st.conflict:
		st.coq = fmt.Sprintf("(Update %s [%s] (Some (%s, %s)) [])", coqBytes(t.name), strings.Join(dupSets, "; "), coqBytes("id"), coqBytes(fmt.Sprint(newIDs[0])))
	default:
		st.coq = fmt.Sprintf("(Insert %s %s [%s] [])", coqBytes(t.name), coqCols, strings.Join(rowsCoq, "; "))
	}
	st.sql = sb.String()
	return st
}

func (sc *c04myScenario) genSelect(r *vh.Rng, rep *vh.Report, t *c04Table) *c04myStmt {
	st := &c04myStmt{table: t, kind: "select", prepared: r.Intn(3) == 0}
	list, items := genItems(r, rep, t)
	st.items = items
	st.sql = "SELECT " + list + " FROM " + t.name
	whr := "None"
	ids := sc.ids(t.name)
	if len(ids) > 0 && r.Bool() {
		id := ids[r.Intn(len(ids))]
		if st.prepared && r.Bool() {
			st.sql += " WHERE id = ?"
			st.params = append(st.params, c04myParam(r, rep, []byte(fmt.Sprint(id)), vh.OidInt4))
			rep.Count("select:where-parameter")
		} else {
			st.sql += fmt.Sprintf(" WHERE id = %d", id)
		}
		st.rowIDs = []int{id}
		whr = fmt.Sprintf("(Some (%s, %s))", coqBytes("id"), coqBytes(fmt.Sprint(id)))
		rep.Count("select:where-id")
	} else {
		st.rowIDs = ids
	}
	if st.prepared {
		rep.Count("result-rows:binary")
	} else {
		rep.Count("result-rows:text")
	}
	st.coq = fmt.Sprintf("(Select %s %s %s)", coqItems(items), coqBytes(t.name), whr)
	rep.Count("stmt:select")
	return st
}

func (sc *c04myScenario) coqConfig() string {
	p := &c04Scenario{tables: sc.tables}
	return p.coqConfig()
}
func (sc *c04myScenario) coqDBSchema() string {
	p := &c04Scenario{tables: sc.tables}
	return p.coqDBSchema()
}
func (sc *c04myScenario) coqKeys() string {
	p := &c04Scenario{ks: sc.ks}
	return p.coqKeys()
}

// ---------- literal coding correspondence (model op MyLit) ----------

// c04myInnerVal: the SQLVal of a value expression (inside _binary / parentheses).
func c04myInnerVal(e sqlparser.Expr) *sqlparser.SQLVal {
	switch v := e.(type) {
	case *sqlparser.SQLVal:
		return v
	case *sqlparser.UnaryExpr:
		return c04myInnerVal(v.Expr)
	case *sqlparser.ParenExpr:
		return c04myInnerVal(v.Expr)
	}
	return nil
}

// c04myCoderCases runs the REAL literal path on one literal at a time: acra's tokenizer/parser on a client
// spelling, encryptor/mysql.UpdateExpressionValue with the real DBDataCoder and an update function returning
// chosen bytes, sqlparser.String of the literal; the fake back end's own lexer reads the result.
func c04myCoderCases(rep *vh.Report, r *vh.Rng, n int) {
	parser := sqlparser.New(sqlparser.ModeStrict)
	for i := 0; i < n; i++ {
		oid := uint32(vh.OidBytea)
		if r.Intn(4) == 0 {
			oid = vh.OidText
		}
		plain, _ := c04myGenValue(r, rep, oid == vh.OidText)
		if r.Intn(10) == 0 {
			plain = []byte{}
		}
		lit := c04myLiteral(r, rep, plain, oid)
		if r.Intn(8) == 0 {
			lit = strconv.Itoa(r.Intn(100000)) // IntVal
			plain = []byte(lit)
		}
		var repl []byte
		switch r.Intn(6) {
		case 0:
			repl = append([]byte{}, plain...) // the update function leaves the data alone
			rep.Count("coder:replacement-unchanged")
		case 1:
			repl = []byte("valid utf8 " + string(alnum[r.Intn(len(alnum))]) + " it's \\ \"q\"")
			rep.Count("coder:replacement-utf8")
		case 2:
			repl = []byte(strconv.Itoa(r.Intn(1 << 30)))
			rep.Count("coder:replacement-digits")
		default:
			repl = append([]byte{0x25, 0x25, 0x25}, r.Bytes(8+r.Intn(40))...)
			rep.Count("coder:replacement-binary")
		}
		known := i%24 == 5
		if known { // a string literal replaced by valid UTF-8 that starts with backslash-x
			lit = "'some text'"
			repl = []byte(`\xampp\` + string(alnum[r.Intn(len(alnum))]) + " utf8")
			rep.Count("coder:replacement-leading-backslash-x(known finding shape)")
		}
		stmt, err := parser.Parse("INSERT INTO t (c) VALUES (" + lit + ")")
		if err != nil {
			rep.Violate("harness-error", "acra's sqlparser rejects the generated literal: "+err.Error(), lit)
			continue
		}
		ins, ok := stmt.(*sqlparser.Insert)
		var expr sqlparser.Expr
		if ok {
			if rows, ok2 := ins.Rows.(sqlparser.Values); ok2 && len(rows) == 1 && len(rows[0]) == 1 {
				expr = rows[0][0]
			}
		}
		val := c04myInnerVal(expr)
		if val == nil {
			rep.Violate("harness-error", "no literal in the parsed statement", lit)
			continue
		}
		k, v := int(val.Type), append([]byte{}, val.Val...)
		_, atoiErr := strconv.Atoi(string(repl))
		op := fmt.Sprintf("(MyLit %d %s %s %v %v)", k, vh.H(v), vh.H(repl), utf8.Valid(repl), atoiErr == nil)
		out := vh.Guard(func() vh.Outcome {
			err := encmysql.UpdateExpressionValue(context.Background(), expr, &encmysql.DBDataCoder{}, nil,
				func(_ context.Context, data []byte) ([]byte, error) { return repl, nil })
			if err != nil && err != encmysql.ErrUpdateLeaveDataUnchanged {
				return vh.ErrO(err)
			}
			text := sqlparser.String(val)
			read := []byte{0}
			if st, perr := myrig.ParseSQL("INSERT INTO t (c) VALUES (" + text + ")"); perr == nil && len(st.Rows) == 1 && len(st.Rows[0]) == 1 && st.Rows[0][0].Kind == "lit" {
				read = append([]byte{1}, st.Rows[0][0].Bytes...)
			}
			// oracle: unless the data was left alone, the server reads exactly the replacement bytes
			rep.OracleChecks++
			if err == nil && !bytes.Equal(read[1:], repl) && !(k == 1 && atoiErr == nil) {
				rep.Violate(c04myUncoveredClass(repl), fmt.Sprintf("the literal %s rewritten with %x is read by the server as %x (text %s)", lit, repl, read[1:], text), lit)
			}
			return vh.Ok([]byte(text), read)
		})
		rep.Add(fmt.Sprintf("MySQL literal %s (SQLVal type %d) replaced by %x", lit, k, repl), op, out)
	}
}

// ---------- the domain ----------

var c04myThorough bool

// quick tier: every session goes through the oracle, the first ones are also replayed on the model (a replayed
// session costs 1-2 s of vm_compute; one shard keeps ./check C04 within its budget next to the PostgreSQL domain)
const c04myQuickReplays = c04myCoderN + 12

// literal coding cases (cheap: no crypto in the replay)
const c04myCoderN = 96

func runC04my(rep *vh.Report, r *vh.Rng, n int, thorough bool) {
	c04myThorough = thorough
	debug := os.Getenv("VERIF_C04_DEBUG") != ""
	sessions, hung := 0, 0
	c04myCoderCases(rep, r, c04myCoderN)
	for scn := 0; scn < n; scn++ {
		sc := &c04myScenario{id: scn, ref: map[string]map[int]map[string]*c04Cell{}}
		sc.exotic = scn%5 == 4
		sc.tables = c04myGenTables(r, rep)
		bsx := c04myBackslashXScenario(scn)
		if bsx { // needs an uncovered text column next to a protected one in the configured table
			sc.tables[0].cols[1].kind, sc.tables[0].cols[1].oid, sc.tables[0].cols[1].clientID = "plain", vh.OidText, ""
			last := &sc.tables[0].cols[len(sc.tables[0].cols)-1]
			if !last.protected() {
				last.kind, last.oid = "ab", vh.OidBytea
			}
		}
		sc.yaml = genYAML(sc.tables)
		sc.ks = vh.NewMemKeystore()
		for _, id := range []string{connWriter, connOwnerB, connOther} {
			sc.ks.Clients[id] = vh.NewKeySet(r, 1, 1, true)
		}
		db := myrig.NewFakeDB()
		for _, t := range sc.tables {
			mt := &myrig.Table{Name: t.name}
			for _, c := range t.cols {
				k := myrig.KBlob
				switch c.oid {
				case vh.OidInt4:
					k = myrig.KInt
				case vh.OidText:
					k = myrig.KText
				}
				mt.Cols = append(mt.Cols, myrig.Col{Name: c.name, Kind: k})
			}
			db.Tables[t.name] = mt
			sc.ref[t.name] = map[int]map[string]*c04Cell{}
		}
		modelled := !sc.exotic && !bsx
		switch {
		case bsx:
			rep.Count("scenario:oracle-only(known finding shape)")
		case modelled:
			rep.Count("scenario:modelled")
		default:
			rep.Count("scenario:oracle-only(NULL parameters)")
		}
		rig, err := myrig.New(sc.ks, []byte(sc.yaml), db)
		if err != nil {
			rep.Violate("harness-error", "rig: "+err.Error(), sc.yaml)
			continue
		}
		depEOF := scn%3 == 1
		if depEOF {
			rep.Count("session:CLIENT_DEPRECATE_EOF")
		}
		replayHead := fmt.Sprintf("scenario %d (seed %d, MySQL, deprecate_eof=%v)\nencryptor config:\n%s", scn, rep.Seed, depEOF, sc.yaml)

		// ---- session 1: the writer; writes and reads interleaved in ONE session ----
		nst := 4 + r.Intn(5)
		if thorough {
			nst += r.Intn(8)
		}
		var plan []func() *c04myStmt
		for i := 0; i < nst; i++ {
			t := sc.tables[0]
			if r.Intn(4) == 0 && i > 0 {
				t = sc.tables[1]
			}
			if i == 1 {
				// structured opening: one text-protocol and one prepared write on the configured table in every scenario
				plan = append(plan, func() *c04myStmt { return sc.genWrite(r, rep, sc.tables[0], scn%2) })
				if bsx {
					plan = append(plan, func() *c04myStmt { return sc.genBackslashX(r, rep, sc.tables[0]) })
				}
			}
			switch k := r.Intn(10); {
			case k < 5 || i == 0:
				tt := t
				plan = append(plan, func() *c04myStmt { return sc.genWrite(r, rep, tt, -1) })
			case k < 9:
				tt := t
				plan = append(plan, func() *c04myStmt { return sc.genSelect(r, rep, tt) })
			default:
				plan = append(plan, func() *c04myStmt {
					s := c04myOthers[r.Intn(len(c04myOthers))]
					rep.Count("stmt:other")
					return &c04myStmt{kind: "other", sql: s, coq: "(Other " + coqBytes(s) + ")"}
				})
			}
		}
		sessions++
		if !sc.runSession(rep, r, rig, connWriter, plan, replayHead, modelled, true, depEOF, debug, &hung) {
			continue
		}
		// ---- session 2: a client without the keys reads everything ----
		reader := connOther
		if r.Bool() {
			reader = connNoKeys
		}
		rep.Count("reader:" + reader)
		var rplan []func() *c04myStmt
		for i := 0; i < 2+r.Intn(2); i++ {
			t := sc.tables[0]
			if i == 1 {
				t = sc.tables[1]
			}
			tt := t
			rplan = append(rplan, func() *c04myStmt { return sc.genSelect(r, rep, tt) })
		}
		sessions++
		sc.runSession(rep, r, rig, reader, rplan, replayHead, modelled, false, depEOF, debug, &hung)
		// ---- session 3: the per-column owner ----
		hasB := false
		for _, c := range sc.tables[0].cols {
			if c.clientID == connOwnerB {
				hasB = true
			}
		}
		if hasB {
			var bplan []func() *c04myStmt
			for i := 0; i < 2; i++ {
				bplan = append(bplan, func() *c04myStmt { return sc.genSelect(r, rep, sc.tables[0]) })
			}
			sessions++
			rep.Count("reader:" + connOwnerB)
			sc.runSession(rep, r, rig, connOwnerB, bplan, replayHead, modelled, false, !depEOF, debug, &hung)
		}
	}
	rep.Distribution["sessions"] = sessions
	rep.Distribution["sessions-hung"] = hung
}

func c04myParamList(ps []myrig.Param) string {
	var p []string
	for _, x := range ps {
		if x.Data == nil {
			p = append(p, fmt.Sprintf("0x%02x:NULL", x.Type))
		} else {
			p = append(p, fmt.Sprintf("0x%02x:%s", x.Type, hex.EncodeToString(x.Data)))
		}
	}
	return "[" + strings.Join(p, ",") + "]"
}

// runSession drives one proxied connection; returns false when the scenario cannot go on.
func (sc *c04myScenario) runSession(rep *vh.Report, r *vh.Rng, rig *myrig.Rig, conn string, plan []func() *c04myStmt,
	head string, modelled, fromEmpty, depEOF, debug bool, hung *int) bool {
	tape := vh.StartTape(r)
	defer vh.StopTape()
	s, err := rig.Open([]byte(conn), tape, depEOF)
	if err != nil {
		rep.Violate("harness-error", "open: "+err.Error(), head)
		return false
	}
	var script []string
	script = append(script, fmt.Sprintf("-- session as %s", conn))
	var stmts []*c04myStmt
	var results []*myrig.Result
	alive := true
	for _, mk := range plan {
		st := mk()
		if st.prepared {
			script = append(script, fmt.Sprintf("%s   -- COM_STMT_PREPARE + COM_STMT_EXECUTE, params(type:hex)=%s", st.sql, c04myParamList(st.params)))
			rep.Count("protocol:prepared")
		} else {
			script = append(script, st.sql)
			rep.Count("protocol:text")
		}
		var res *myrig.Result
		if st.prepared {
			res = s.Prepared(st.sql, st.params)
		} else {
			res = s.Query(st.sql)
		}
		stmts = append(stmts, st)
		results = append(results, res)
		if debug {
			fmt.Fprintf(os.Stderr, "[%s] %s\n   -> err=%q closed=%v rows=%d\n", conn, st.sql, res.Err, res.Closed, len(res.Rows))
		}
		if res.Closed {
			alive = false
			break
		}
		// the reference state follows what the application wrote (only if the database accepted it)
		if res.Err == "" {
			for i := range st.wVals {
				var val, mark []byte
				switch st.wRole[i] {
				case "val":
					if st.conflict {
						continue // the key exists: the VALUES tuple is not stored
					}
					val, mark = st.wVals[i], st.wMarks[i]
				case "set":
					val, mark = st.wVals[i], st.wMarks[i]
				case "dup":
					if !st.conflict {
						continue
					}
					val, mark = st.wVals[i], st.wMarks[i]
				case "dupref":
					if !st.conflict {
						continue
					}
					val, mark = st.wVals[st.wRef[i]], st.wMarks[st.wRef[i]]
				default:
					continue
				}
				row := sc.ref[st.table.name][st.wIDs[i]]
				if row == nil {
					row = map[string]*c04Cell{}
					sc.ref[st.table.name][st.wIDs[i]] = row
				}
				if st.wNull[i] {
					delete(row, st.wCols[i]) // NULL
					continue
				}
				cell := &c04Cell{val: val, marker: mark, writer: conn}
				row[st.wCols[i]] = cell
				sc.cells = append(sc.cells, cell)
			}
		}
		if st.items != nil {
			for _, id := range st.rowIDs {
				var row []*c04Cell
				for _, it := range expandItems(st.table, st.items) {
					row = append(row, sc.ref[st.table.name][id][it])
				}
				st.expect = append(st.expect, row)
			}
		}
	}
	dbBound, clientBound, fwd, beErr := s.Close()
	replay := head + "\n" + strings.Join(append(append([]string{}, sc.history...), script...), "\n")
	sc.history = append(sc.history, script...)
	if s.Panic != "" {
		rep.OracleChecks++
		rep.Violate("proxy-panic", "the proxy panicked: "+s.Panic+" on "+stmts[len(stmts)-1].sql, replay)
		return false
	}
	if s.Hung {
		*hung++
		rep.Violate("harness-error", "session hung (rig timeout) on "+stmts[len(stmts)-1].sql, replay)
		return false
	}
	if beErr != nil {
		rep.Violate("harness-error", "fake back end: "+beErr.Error(), replay)
		return false
	}

	// ---------- oracle on the implementation ----------
	// (1) plaintext-to-db: no marker written to a protected column occurs in any database-bound byte
	leakedMarks := map[string]bool{}
	for _, st := range stmts {
		for i, m := range st.wMarks {
			c := st.table.col(st.wCols[i])
			if m == nil || c == nil || !st.table.configured || !c.protected() {
				continue
			}
			rep.OracleChecks++
			if found, form := c04myContainsMarker(dbBound, m); found {
				leakedMarks[string(m)] = true
				rep.Violate(st.leakClass(), fmt.Sprintf("value written to protected column %s.%s reached the database in the clear (%s form of the marker %q) by: %s",
					st.table.name, c.name, form, m, st.sql), replay)
			}
		}
	}
	if alive && len(fwd) != len(stmts) {
		rep.Violate("harness-error", fmt.Sprintf("%d statements sent, %d reached the back end", len(stmts), len(fwd)), replay)
		return false
	}
	for _, cell := range sc.cells { // already reported as stored in the clear: later reads are consequences
		if cell.marker != nil && leakedMarks[string(cell.marker)] {
			cell.leaked = true
		}
	}
	var obsFwd, obsRet [][]byte // observations for the model replay
	var tapes []string
	for si, st := range stmts {
		if si >= len(fwd) {
			break
		}
		f := fwd[si]
		res := results[si]
		stTapes := []string{}
		rejected := f.Err != ""
		malformed := strings.HasPrefix(f.Err, "malformed COM_STMT_EXECUTE")
		if rejected && !res.Closed && (st.invalid == "" || malformed) {
			// the fake database rejected what the proxy forwarded
			rep.OracleChecks++
			rep.Violate("forwarded-statement-invalid", "the forwarded statement was rejected by the database: "+f.Err+"\n forwarded: "+f.SQL, replay)
			modelled = false
		}
		if !rejected && st.invalid != "" {
			rep.Violate("harness-error", "a "+st.invalid+" VALUES tuple was accepted by the fake database: "+f.SQL, replay)
		}
		if st.kind == "insert" || st.kind == "update" {
			if len(f.Values) != len(st.wVals) {
				if !malformed && (!rejected || st.invalid != "") {
					rep.Violate("harness-error", fmt.Sprintf("statement has %d values, back end decoded %d: %s", len(st.wVals), len(f.Values), f.SQL), replay)
				}
				tapes = append(tapes, "[]")
				continue
			}
			for i, fv := range f.Values {
				if st.wRole[i] == "dupref" {
					if !fv.Ref {
						rep.OracleChecks++
						rep.Violate("uncovered-changed", fmt.Sprintf("VALUES(%s) in ON DUPLICATE KEY UPDATE was replaced on the way to the database: %s", st.wCols[i], f.SQL), replay)
					}
					if st.conflict && st.invalid == "" {
						// model: Update with the protected form of the referenced tuple value
						ref := f.Values[st.wRef[i]]
						c := st.table.col(st.wCols[i])
						obsFwd = append(obsFwd, obsCell(ref.Stored))
						tp := "[]"
						if st.table.configured && c.protected() && len(st.wVals[st.wRef[i]]) > 0 && !bytes.Equal(ref.Stored, st.wVals[st.wRef[i]]) {
							if ch := tapeFor(tape.Chunks, res.Tape0, res.Tape1, ref.Stored, c.env()); ch != nil {
								tp = vh.HL(ch)
							}
						}
						stTapes = append(stTapes, tp)
					}
					continue
				}
				c := st.table.col(st.wCols[i])
				rep.OracleChecks++
				if st.wNull[i] {
					if fv.Stored != nil {
						rep.Violate("uncovered-changed", fmt.Sprintf("NULL parameter for %s.%s arrived as %x: %s", st.table.name, st.wCols[i], fv.Stored, f.SQL), replay)
					}
					continue
				}
				// which value positions the model's statement has
				inModel := st.invalid == "" && ((st.kind == "update") || (st.conflict && st.wRole[i] == "dup") || (!st.conflict && st.wRole[i] == "val"))
				if inModel {
					obsFwd = append(obsFwd, obsCell(fv.Stored))
					stTapes = append(stTapes, "[]")
				}
				prot := c != nil && st.table.configured && c.protected()
				if !prot {
					// (2) uncovered-changed: values the configuration does not cover arrive byte-identical
					if !bytes.Equal(fv.Stored, st.wVals[i]) || fv.Stored == nil {
						rep.Violate(c04myUncoveredClass(st.wVals[i]), fmt.Sprintf("value for uncovered column %s.%s changed on the way to the database: sent %x stored %x (spelling %s): %s",
							st.table.name, st.wCols[i], st.wVals[i], fv.Stored, fv.Spelling, f.SQL), replay)
					}
					continue
				}
				if found, form := c04myContainsMarker(fv.Stored, st.wMarks[i]); st.wMarks[i] != nil && found {
					rep.Violate(st.leakClass(), fmt.Sprintf("stored value of protected column %s.%s contains the marker (%s, spelling %s): %s", st.table.name, c.name, form, fv.Spelling, f.SQL), replay)
				}
				if inModel && len(st.wVals[i]) > 0 && !bytes.Equal(fv.Stored, st.wVals[i]) {
					tp := tapeFor(tape.Chunks, res.Tape0, res.Tape1, fv.Stored, c.env())
					if tp == nil {
						rep.Violate("harness-error", "no tape chunks found for a stored container: "+f.SQL, replay)
						tp = [][]byte{}
					}
					stTapes[len(stTapes)-1] = vh.HL(tp)
				}
			}
		} else if st.kind == "other" || st.kind == "select" {
			// (2) statements the configuration does not cover reach the database identical
			rep.OracleChecks++
			if f.SQL != st.sql {
				rep.Violate("uncovered-changed", fmt.Sprintf("statement changed on the way to the database:\n sent      %s\n forwarded %s", st.sql, f.SQL), replay)
			}
		}
		tapes = append(tapes, "["+strings.Join(stTapes, "; ")+"]")
		// results
		if st.items == nil {
			if res.Err != "" && st.invalid == "" {
				rep.OracleChecks++
				rep.Violate("result-error", "the client received an error: "+res.Err+" for "+st.sql, replay)
				modelled = false
			}
			continue
		}
		items := expandItems(st.table, st.items)
		if res.Err != "" {
			rep.OracleChecks++
			rep.Violate("result-error", "the client received an error instead of rows: "+res.Err+" for "+st.sql, replay)
			modelled = false
			continue
		}
		if len(res.Rows) != len(st.rowIDs) || (len(res.Rows) > 0 && len(res.Fields) != len(items)) {
			rep.Violate("harness-error", fmt.Sprintf("expected %d rows x %d columns, client got %d x %d: %s", len(st.rowIDs), len(items), len(res.Rows), len(res.Fields), st.sql), replay)
			modelled = false
			continue
		}
		for ri, row := range res.Rows {
			id := st.rowIDs[ri]
			for ci, got := range row {
				c := st.table.col(items[ci])
				obsRet = append(obsRet, obsCell(got))
				rep.OracleChecks++
				want := st.expect[ri][ci]
				if want == nil { // never written: NULL
					if got != nil {
						rep.Violate("uncovered-changed", fmt.Sprintf("NULL cell of %s.%s came back as %x", st.table.name, c.name, got), replay)
					}
					continue
				}
				prot := st.table.configured && c.protected()
				switch {
				case want.leaked:
				case !prot:
					if !bytes.Equal(got, want.val) || got == nil {
						rep.Violate(c04myUncoveredClass(want.val), fmt.Sprintf("uncovered column %s.%s row %d came back changed: written %x received %x", st.table.name, c.name, id, want.val, got), replay)
					}
				case c.owner(want.writer) == conn:
					// (3) read-back: the owner gets the original
					if !bytes.Equal(got, want.val) || got == nil {
						rep.Violate("read-back", fmt.Sprintf("owner %s read %s.%s row %d: written %x received %x (by %s, %s rows)", conn, st.table.name, c.name, id, want.val, got, st.sql,
							map[bool]string{false: "text", true: "binary"}[res.Binary]), replay)
					}
				default:
					// (3') a client without the keys never receives the original
					if found, form := c04myContainsMarker(got, want.marker); want.marker != nil && found {
						rep.Violate("non-owner-plaintext", fmt.Sprintf("client %s (not the owner %s) received the plaintext of %s.%s (%s)", conn, c.owner(want.writer), st.table.name, c.name, form), replay)
					}
				}
			}
		}
	}
	// a client without the keys: nothing client-bound contains a marker of a column it does not own
	for tname, rows := range sc.ref {
		t := sc.table(tname)
		for _, row := range rows {
			for cname, cell := range row {
				c := t.col(cname)
				if !t.configured || !c.protected() || cell.marker == nil || cell.leaked || c.owner(cell.writer) == conn || cell.writer == conn {
					continue
				}
				rep.OracleChecks++
				if found, form := c04myContainsMarker(clientBound, cell.marker); found {
					rep.Violate("non-owner-plaintext", fmt.Sprintf("bytes sent to client %s contain the plaintext of %s.%s (%s)", conn, tname, cname, form), replay)
				}
			}
		}
	}
	if !alive {
		last := stmts[len(stmts)-1]
		rep.OracleChecks++
		refusedWrite := (last.kind == "insert" || last.kind == "update") && conn == connNoKeys
		if !refusedWrite {
			rep.Violate("session-dropped", "the proxy closed the session ("+s.ProxyErr+") on: "+last.sql, replay)
		}
		return false
	}

	// ---------- observations for the model (same ops as the PostgreSQL domain) ----------
	if modelled && (c04myThorough || len(rep.Cases) < c04myQuickReplays) {
		var coqStmts []string
		for i, st := range stmts {
			coqStmts = append(coqStmts, "("+st.coq+", "+tapes[i]+")")
		}
		if fromEmpty {
			op := fmt.Sprintf("(Sess %s %s %s %s [%s])", sc.coqConfig(), sc.coqDBSchema(), sc.coqKeys(), coqBytes(conn), strings.Join(coqStmts, ";\n    "))
			rep.Add(fmt.Sprintf("scenario %d MySQL session as %s: %s", sc.id, conn, strings.Join(script, " ;; ")), op, vh.Ok(append(obsFwd, obsRet...)...))
		} else {
			k := 0
			for si, st := range stmts {
				f := fwd[si]
				if st.kind != "select" || results[si].Err != "" {
					continue
				}
				items := expandItems(st.table, st.items)
				var rows []string
				for ri := 0; ri*len(items) < len(f.Returned); ri++ {
					var cells []string
					for ci := range items {
						cells = append(cells, vh.HOpt(f.Returned[ri*len(items)+ci]))
					}
					rows = append(rows, "["+strings.Join(cells, "; ")+"]")
				}
				nobs := len(f.Returned)
				op := fmt.Sprintf("(Read %s %s %s %s [%s])", sc.coqConfig(), sc.coqKeys(), coqBytes(conn), st.coq, strings.Join(rows, "; "))
				rep.Add(fmt.Sprintf("scenario %d MySQL read as %s: %s", sc.id, conn, st.sql), op, vh.Ok(obsRet[k:k+nobs]...))
				k += nobs
			}
		}
	}
	return true
}
