package main

// C04 (column resolution), domain c04col: generated statements (aliases, quoted / case variants, qualified names,
// stars, joins, sub-selects, missing column lists, short / long tuples, unknown tables / columns, placeholders,
// wrapped values) are parsed by the REAL sqlparser, analysed by the REAL encryptor/mysql code (c04col_run.go) and
//
//   - the observations are replayed on Model/ColumnResolve.v (ops OpWrite / OpBind / OpRead of Model/RunColumnResolve.v)
//     together with the SPECIFICATION of Model/ColumnResolveSpec.v evaluated on the same tree, which must equal
//     what the generator knows (it knows the table and column of every value and select item it writes);
//   - the property's own oracle compares the observation with the generator's ground truth:
//     every value of a configured column protected with that column's setting, nothing else touched; every result
//     column that is a configured column gets that column's setting at its position, the others none.

import (
	"encoding/hex"
	"errors"
	"fmt"
	"sort"
	"strconv"
	"strings"

	encbase "github.com/cossacklabs/acra/encryptor/base"
	encmysql "github.com/cossacklabs/acra/encryptor/mysql"

	"acra-vh/vh"
)

func init() { register("c04col", "Model.RunColumnResolve", runC04col) }

// ---------- the database the generator has in mind ----------

type c4cDBTab struct {
	name   string   // as the config / the database spells it
	cols   []string // the real columns, in order
	cfg    bool     // has a schema entry
	listed bool     // the entry has `columns`
	enc    map[string]int
}

type c4cWorld struct {
	pg, cs bool
	tabs   []*c4cDBTab
	env    *c4cEnv
}

var c4cTabNames = []string{"users", "orders", "t1", "docs", "audit", "MixedT", "x"}
var c4cColNames = []string{"id", "email", "data", "note", "c1", "c2", "token", "k"}

func c4cNewWorld(r *vh.Rng, rep *vh.Report, sc int) *c4cWorld {
	w := &c4cWorld{}
	switch sc % 5 {
	case 3:
		w.pg = true
	case 4:
		w.cs = true
	}
	nt := 3 + r.Intn(2)
	perm := c4cPerm(r, len(c4cTabNames))
	var cfg []c4cTable
	for i := 0; i < nt; i++ {
		t := &c4cDBTab{name: c4cTabNames[perm[i]], enc: map[string]int{}}
		nc := 2 + r.Intn(4)
		cp := c4cPerm(r, len(c4cColNames))
		t.cols = append(t.cols, "id")
		for _, j := range cp {
			if len(t.cols) >= nc {
				break
			}
			if c4cColNames[j] != "id" {
				t.cols = append(t.cols, c4cColNames[j])
			}
		}
		t.cfg = i < 2 || r.Intn(3) > 0
		if i == nt-1 {
			t.cfg = false // always one table without config
		}
		if t.cfg {
			t.listed = r.Intn(6) > 0
			ct := c4cTable{name: t.name}
			if t.listed {
				ct.cols = append([]string{}, t.cols...)
			}
			for _, c := range t.cols[1:] {
				if r.Intn(2) == 0 || len(ct.enc) == 0 {
					t.enc[c] = 100*len(cfg) + len(ct.enc)
					ct.enc = append(ct.enc, c)
				}
			}
			cfg = append(cfg, ct)
		}
		w.tabs = append(w.tabs, t)
	}
	// now and then: an earlier entry with the same table name (the later one replaces it)
	if sc%7 == 6 {
		for _, t := range w.tabs {
			if t.cfg {
				dup := c4cTable{name: t.name, cols: []string{"zz"}, enc: []string{"id"}}
				cfg = append([]c4cTable{dup}, cfg...)
				for _, u := range w.tabs {
					for c := range u.enc {
						u.enc[c] += 100
					}
				}
				rep.Count("config:duplicate-table-entry")
				break
			}
		}
	}
	env, err := c4cNewEnv(cfg, w.pg, w.cs)
	if err != nil {
		panic(err)
	}
	w.env = env
	switch {
	case w.pg:
		rep.Count("dialect:postgresql")
	case w.cs:
		rep.Count("dialect:mysql-case-sensitive")
	default:
		rep.Count("dialect:mysql")
	}
	return w
}

func c4cPerm(r *vh.Rng, n int) []int {
	p := make([]int, n)
	for i := range p {
		p[i] = i
	}
	for i := n - 1; i > 0; i-- {
		j := r.Intn(i + 1)
		p[i], p[j] = p[j], p[i]
	}
	return p
}

// ---------- spelling of names ----------

func c4cLower(s string) string { return strings.ToLower(s) }

func c4cVaryCase(r *vh.Rng, s string) string {
	switch r.Intn(3) {
	case 0:
		return strings.ToUpper(s)
	case 1:
		return strings.ToUpper(s[:1]) + s[1:]
	}
	return s
}

// tableRef spells a table name (or alias) so that the database means `name`; returns the SQL text
func (w *c4cWorld) spellTable(r *vh.Rng, rep *vh.Report, name string) string {
	switch {
	case w.pg:
		if name != c4cLower(name) || r.Intn(4) == 0 {
			rep.Count("name:pg-quoted-table")
			return "\"" + name + "\""
		}
		if r.Intn(3) == 0 {
			rep.Count("name:case-variant-table")
			return c4cVaryCase(r, name)
		}
		return name
	case w.cs:
		if r.Intn(4) == 0 {
			return "`" + name + "`"
		}
		return name
	default:
		s := name
		if r.Intn(3) == 0 {
			rep.Count("name:case-variant-table")
			s = c4cVaryCase(r, name)
		}
		if r.Intn(4) == 0 {
			rep.Count("name:backquoted-table")
			s = "`" + s + "`"
		}
		return s
	}
}

// canonTable: what the proxy's config lookup makes of a table name as written (the generator's own reading of
// the documented rule: MySQL folds unless case_sensitive_table_identifiers, PostgreSQL folds unquoted names)
func (w *c4cWorld) canonTable(written string) string {
	switch {
	case w.pg:
		if strings.HasPrefix(written, "\"") {
			return strings.Trim(written, "\"")
		}
		return c4cLower(written)
	case w.cs:
		return strings.Trim(written, "`")
	}
	return c4cLower(strings.Trim(written, "`"))
}

func (w *c4cWorld) spellCol(r *vh.Rng, rep *vh.Report, name string) string {
	if w.pg {
		if r.Intn(5) == 0 {
			rep.Count("name:pg-quoted-column")
			return "\"" + name + "\""
		}
		if r.Intn(3) == 0 {
			rep.Count("name:case-variant-column")
			return c4cVaryCase(r, name)
		}
		return name
	}
	s := name
	if r.Intn(3) == 0 {
		rep.Count("name:case-variant-column")
		s = c4cVaryCase(r, name)
	}
	if r.Intn(5) == 0 {
		rep.Count("name:backquoted-column")
		s = "`" + s + "`"
	}
	return s
}

func (w *c4cWorld) canonCol(written string) string {
	if w.pg && strings.HasPrefix(written, "\"") {
		return strings.Trim(written, "\"")
	}
	return c4cLower(strings.Trim(written, "`"))
}

// cfgTable: the configured table the proxy must take a written table name for (nil: none)
func (w *c4cWorld) cfgTable(written string) *c4cDBTab {
	c := w.canonTable(written)
	for _, t := range w.tabs {
		if t.cfg && t.name == c {
			return t
		}
	}
	return nil
}

// sidOf: setting of column `written` of configured table t (-1 none)
func (w *c4cWorld) sidOf(t *c4cDBTab, writtenCol string) int {
	if t == nil {
		return -1
	}
	if s, ok := t.enc[w.canonCol(writtenCol)]; ok {
		return s
	}
	return -1
}

func (t *c4cDBTab) knows(col string) bool {
	if !t.cfg {
		return false
	}
	if _, ok := t.enc[col]; ok {
		return true
	}
	if t.listed {
		for _, c := range t.cols {
			if c == col {
				return true
			}
		}
	}
	return false
}

// ---------- values ----------

type c4cValue struct {
	sql     string
	content string // Val of the SQLVal node ("" for none)
	direct  bool   // a direct value (literal / placeholder under the supported wrappers)
	ph      int    // placeholder number (1-based), 0: literal
	float   bool
}

type c4cGen struct {
	w    *c4cWorld
	r    *vh.Rng
	rep  *vh.Report
	n    int // literal counter
	nph  int // placeholder counter
	phOK bool
	vals []*c4cWant
}

// what the generator expects for one value
type c4cWant struct {
	v     *c4cValue
	sid   int    // setting of the column it is written to (-1: none / not configured)
	known string // known-finding class this position falls under ("" none)
}

func (g *c4cGen) literal() *c4cValue {
	g.n++
	k := g.n
	r := g.r
	v := &c4cValue{direct: true}
	switch kind := r.Intn(14); {
	case kind < 6:
		v.content = fmt.Sprintf("s%03d", k)
		v.sql = "'" + v.content + "'"
		g.rep.Count("value:string")
	case kind < 8:
		v.content = strconv.Itoa(7000 + k)
		v.sql = v.content
		g.rep.Count("value:int")
	case kind < 10:
		v.content = hex.EncodeToString([]byte(fmt.Sprintf("h%03d", k)))
		if g.w.pg {
			v.content = fmt.Sprintf("p%03d", k)
			v.sql = "'" + v.content + "'"
			break
		}
		v.sql = "x'" + v.content + "'"
		g.rep.Count("value:hex-string")
	case kind < 11:
		if g.w.pg {
			v.content = fmt.Sprintf("q%03d", k)
			v.sql = "'" + v.content + "'"
			break
		}
		v.content = "0x" + hex.EncodeToString([]byte(fmt.Sprintf("n%03d", k)))
		v.sql = v.content
		g.rep.Count("value:hex-number")
	case kind < 12:
		if g.w.pg {
			v.content = fmt.Sprintf("r%03d", k)
			v.sql = "'" + v.content + "'"
			break
		}
		v.content = fmt.Sprintf("1%015b", k)
		v.sql = "b'" + v.content + "'"
		g.rep.Count("value:bit")
	case kind < 13:
		v.content = fmt.Sprintf("%d.5", 7000+k)
		v.sql = v.content
		v.float = true
		g.rep.Count("value:float")
	default:
		v.content = ""
		v.sql = "''"
		v.direct = false // nothing to protect
		g.rep.Count("value:empty-string")
	}
	return v
}

func (g *c4cGen) placeholder() *c4cValue {
	g.nph++
	v := &c4cValue{direct: true, ph: g.nph}
	if g.w.pg {
		v.sql = fmt.Sprintf("$%d", g.nph)
		v.content = v.sql
	} else {
		v.sql = "?"
		v.content = fmt.Sprintf(":v%d", g.nph)
	}
	g.rep.Count("value:placeholder")
	return v
}

// value: a value expression for a value position
func (g *c4cGen) value() *c4cValue {
	r := g.r
	var v *c4cValue
	if r.Intn(32) == 0 {
		g.rep.Count("value:null")
		return &c4cValue{sql: "null"}
	}
	if g.phOK && r.Intn(3) == 0 {
		v = g.placeholder()
	} else {
		v = g.literal()
	}
	switch w := r.Intn(16); {
	case w < 9:
	case w == 9:
		v.sql = "(" + v.sql + ")"
		g.rep.Count("wrap:parens")
	case w == 10 && !g.w.pg:
		v.sql = "_binary " + v.sql
		g.rep.Count("wrap:_binary")
	case w == 11 && !g.w.pg:
		v.sql = "((_binary " + v.sql + "))"
		g.rep.Count("wrap:parens-_binary")
	case w == 12 && !g.w.pg:
		v.sql = "_binary (" + v.sql + ")"
		v.direct = false
		g.rep.Count("wrap:_binary-over-parens(not direct)")
	case w == 13:
		v.sql = "upper(" + v.sql + ")"
		v.direct = false
		g.rep.Count("wrap:function(not direct)")
	case w == 14:
		v.sql = "concat(" + v.sql + ", 'z')"
		v.direct = false
		g.rep.Count("wrap:function(not direct)")
	}
	return v
}

// want records the expectation for a value written to column col (as written) of the table the proxy must take
// tabWritten for ("" = no table)
func (g *c4cGen) want(v *c4cValue, t *c4cDBTab, colWritten string) {
	if v.content == "" {
		return
	}
	x := &c4cWant{v: v, sid: -1}
	if v.direct && t != nil {
		x.sid = g.w.sidOf(t, colWritten)
	}
	if x.sid >= 0 && v.float {
		x.known = "float-literal-not-protected"
	}
	g.vals = append(g.vals, x)
}

// ---------- write statements ----------

type c4cStmt struct {
	kind  string
	sql   string
	vals  []*c4cWant
	nph   int
	known string // a statement-level known-finding class
}

func (g *c4cGen) pickTab(cfgBias bool) *c4cDBTab {
	for i := 0; i < 8; i++ {
		t := g.w.tabs[g.r.Intn(len(g.w.tabs))]
		if !cfgBias || t.cfg || g.r.Intn(4) == 0 {
			return t
		}
	}
	return g.w.tabs[0]
}

func (g *c4cGen) insertStmt(forceSelect bool) *c4cStmt {
	r, w := g.r, g.w
	t := g.pickTab(true)
	written := w.spellTable(r, g.rep, t.name)
	ct := w.cfgTable(written)
	var sb strings.Builder
	verb := "insert into "
	if !w.pg && r.Intn(8) == 0 {
		verb = "replace into "
		g.rep.Count("insert:replace")
	}
	sb.WriteString(verb + written)
	// column list
	var cols []string // as written
	colMode := r.Intn(4)
	if colMode > 0 {
		p := c4cPerm(r, len(t.cols))
		n := 1 + r.Intn(len(t.cols))
		for _, i := range p[:n] {
			cols = append(cols, w.spellCol(r, g.rep, t.cols[i]))
		}
		if r.Intn(10) == 0 {
			cols = append(cols, "nosuch")
			g.rep.Count("insert:unknown-column")
		}
		sb.WriteString(" (" + strings.Join(cols, ", ") + ")")
		g.rep.Count("insert:column-list")
	} else {
		// the order of the schema's `columns`, when the config lists them
		if ct != nil && ct.listed {
			cols = append(cols, ct.cols...)
		}
		g.rep.Count("insert:no-column-list")
	}
	st := &c4cStmt{kind: "insert"}
	if forceSelect {
		// INSERT .. SELECT with literal select items
		var items []string
		n := len(cols)
		if n == 0 {
			n = len(t.cols)
		}
		for j := 0; j < n; j++ {
			v := g.literal()
			items = append(items, v.sql)
			if j < len(cols) {
				g.want(v, ct, cols[j])
				if len(g.vals) > 0 {
					if x := g.vals[len(g.vals)-1]; x.v == v && x.sid >= 0 {
						x.known = "insert-select-literal-not-protected"
					}
				}
			}
		}
		sb.WriteString(" select " + strings.Join(items, ", "))
		if !w.pg {
			sb.WriteString(" from dual")
		}
		g.rep.Count("insert:select")
		st.sql, st.vals, st.nph = sb.String(), g.vals, g.nph
		return st
	}
	nrows := 1 + r.Intn(3)
	width := len(cols)
	if width == 0 {
		width = len(t.cols)
	}
	sb.WriteString(" values ")
	for i := 0; i < nrows; i++ {
		n := width
		switch r.Intn(10) {
		case 0:
			if n > 1 {
				n--
				g.rep.Count("insert:short-tuple")
			}
		case 1:
			n++
			g.rep.Count("insert:long-tuple")
		}
		var vs []string
		for j := 0; j < n; j++ {
			v := g.value()
			vs = append(vs, v.sql)
			if j < len(cols) {
				g.want(v, ct, cols[j])
			} else {
				g.want(v, nil, "")
			}
		}
		if i > 0 {
			sb.WriteString(", ")
		}
		sb.WriteString("(" + strings.Join(vs, ", ") + ")")
	}
	if nrows > 1 {
		g.rep.Count("insert:multi-row")
	}
	if !w.pg && r.Intn(4) == 0 {
		sb.WriteString(" on duplicate key update ")
		n := 1 + r.Intn(2)
		for k := 0; k < n; k++ {
			c := w.spellCol(r, g.rep, t.cols[r.Intn(len(t.cols))])
			v := g.value()
			target := c
			tt := ct
			switch r.Intn(5) {
			case 0:
				target = w.spellTable(r, g.rep, t.name) + "." + c
				tt = w.cfgTable(strings.SplitN(target, ".", 2)[0])
				if tt != ct {
					tt = nil // a qualifier that is not the table of the INSERT
				}
				g.rep.Count("ondup:qualified")
			case 1:
				target = "other." + c
				tt = nil
				g.rep.Count("ondup:foreign-qualifier")
			}
			if k > 0 {
				sb.WriteString(", ")
			}
			sb.WriteString(target + " = " + v.sql)
			g.want(v, tt, c)
		}
		g.rep.Count("insert:on-duplicate-key-update")
	}
	st.sql, st.vals, st.nph = sb.String(), g.vals, g.nph
	return st
}

// a table in a FROM / UPDATE list
type c4cInst struct {
	t       *c4cDBTab
	written string // table name as written
	alias   string // as written ("" none)
	ct      *c4cDBTab
	derived *c4cSelect
}

// visible: canonical name the instance is visible under
func (w *c4cWorld) visible(i *c4cInst) string {
	if i.alias != "" {
		return w.canonTable(i.alias)
	}
	return w.canonTable(i.written)
}

func (g *c4cGen) inst(t *c4cDBTab, aliasP int) *c4cInst {
	w := g.w
	i := &c4cInst{t: t, written: w.spellTable(g.r, g.rep, t.name)}
	i.ct = w.cfgTable(i.written)
	if g.r.Intn(aliasP) == 0 {
		i.alias = []string{"a", "b", "x", "T9", "al"}[g.r.Intn(5)]
		if w.pg && i.alias == "T9" && g.r.Bool() {
			i.alias = "\"T9\""
		}
		g.rep.Count("table:alias")
	}
	return i
}

func (i *c4cInst) sql() string {
	s := i.written
	if i.derived != nil {
		s = "(" + i.derived.sql + ")"
	}
	if i.alias != "" {
		s += " as " + i.alias
	}
	return s
}

// distinct instances with distinct visible names
func (g *c4cGen) insts(n int, aliasP int) []*c4cInst {
	var out []*c4cInst
	seen := map[string]bool{}
	for tries := 0; len(out) < n && tries < 40; tries++ {
		i := g.inst(g.pickTab(len(out) == 0), aliasP)
		v := g.w.visible(i)
		if seen[v] {
			continue
		}
		seen[v] = true
		out = append(out, i)
	}
	return out
}

// qualifier text for an instance (its alias or table name, case varied where the dialect folds)
func (g *c4cGen) qualifier(i *c4cInst) string {
	q := i.written
	if i.alias != "" {
		q = i.alias
	}
	if strings.ContainsAny(q, "`\"") {
		return q
	}
	if !g.w.cs && g.r.Intn(3) == 0 {
		g.rep.Count("name:case-variant-qualifier")
		return c4cVaryCase(g.r, q)
	}
	return q
}

func (g *c4cGen) updateStmt() *c4cStmt {
	r, w := g.r, g.w
	st := &c4cStmt{kind: "update"}
	multi := r.Intn(3) == 0
	var tabs []*c4cInst
	var sb strings.Builder
	if multi {
		tabs = g.insts(2+r.Intn(2), 3)
	} else {
		tabs = g.insts(1, 4)
	}
	sb.WriteString("update ")
	pgFrom := ""
	switch {
	case len(tabs) == 1:
		sb.WriteString(tabs[0].sql())
	case w.pg:
		sb.WriteString(tabs[0].sql())
		var fs []string
		for _, t := range tabs[1:] {
			fs = append(fs, t.sql())
		}
		pgFrom = " from " + strings.Join(fs, ", ")
		g.rep.Count("update:pg-from")
	case r.Bool():
		var fs []string
		for _, t := range tabs {
			fs = append(fs, t.sql())
		}
		sb.WriteString(strings.Join(fs, ", "))
		g.rep.Count("update:multi-table-comma")
	default:
		s := tabs[0].sql()
		for _, t := range tabs[1:] {
			s += " join " + t.sql() + " on 1 = 1"
		}
		sb.WriteString(s)
		g.rep.Count("update:multi-table-join")
	}
	sb.WriteString(" set ")
	n := 1 + r.Intn(3)
	for k := 0; k < n; k++ {
		// the table whose column is set
		ti := tabs[0]
		if len(tabs) > 1 && !w.pg && r.Intn(2) == 0 {
			ti = tabs[1+r.Intn(len(tabs)-1)]
		}
		col := ti.t.cols[r.Intn(len(ti.t.cols))]
		cw := w.spellCol(r, g.rep, col)
		v := g.value()
		target := cw
		var tt *c4cDBTab
		qualify := r.Intn(3) == 0 && !w.pg
		if len(tabs) > 1 && !w.pg {
			// an unqualified name must be unambiguous for the database: only if no other table has the column
			amb := false
			for _, o := range tabs {
				if o != ti {
					for _, c := range o.t.cols {
						if c == col {
							amb = true
						}
					}
				}
			}
			if amb {
				qualify = true
			}
		}
		// the column is a column of ti: that is what the database will assign to
		tt = ti.ct
		if qualify {
			target = g.qualifier(ti) + "." + cw
			g.rep.Count("update:qualified-target")
		} else if ti != tabs[0] {
			g.rep.Count("update:unqualified-target-of-later-table")
		}
		if k > 0 {
			sb.WriteString(", ")
		}
		sb.WriteString(target + " = " + v.sql)
		g.want(v, tt, cw)
	}
	sb.WriteString(pgFrom)
	if r.Bool() {
		sb.WriteString(" where " + g.qualifier(tabs[0]) + ".id = 5")
	}
	st.sql, st.vals, st.nph = sb.String(), g.vals, g.nph
	return st
}

// ---------- read statements ----------

// one result column as the generator knows it
type c4cCol struct {
	name     string    // name it is visible under (canonical)
	t        *c4cDBTab // the configured table it is a column of (nil: none)
	col      string    // canonical column name
	specNone bool      // the SPEC cannot resolve it (reference through a derived table with an unknown number of columns)
}

type c4cSelect struct {
	sql       string
	cols      []c4cCol
	unknown   bool   // the proxy cannot know the number of result columns (star over a table without column list)
	class     string // known deviation class of the implementation ("" none)
	star      bool   // has a star item
	innerRisk bool   // has an unqualified column that "first table without alias" does not find
}

func (c c4cCol) sid() int {
	if c.t == nil {
		return -1
	}
	if s, ok := c.t.enc[c.col]; ok {
		return s
	}
	return -1
}

func c4cSetClass(s *c4cSelect, c string) {
	if s.class == "" {
		s.class = c
	}
}

// allCols: result columns of `inst.*`
func (g *c4cGen) allCols(s *c4cSelect, i *c4cInst) []c4cCol {
	if i.derived != nil {
		if i.derived.unknown {
			s.unknown = true
		}
		return i.derived.cols
	}
	var out []c4cCol
	if i.ct == nil || !i.ct.listed {
		s.unknown = true
	}
	for _, c := range i.t.cols {
		out = append(out, c4cCol{name: c, t: i.ct, col: c})
	}
	return out
}

func (g *c4cGen) selectStmt(depth int) *c4cSelect {
	r, w := g.r, g.w
	s := &c4cSelect{}
	// FROM
	shape := r.Intn(10)
	var tabs []*c4cInst
	var from string
	isJoin := false
	switch {
	case shape < 4:
		tabs = g.insts(1, 3)
		from = tabs[0].sql()
		g.rep.Count("from:single")
	case shape < 6:
		tabs = g.insts(2+r.Intn(2), 3)
		var fs []string
		for _, t := range tabs {
			fs = append(fs, t.sql())
		}
		from = strings.Join(fs, ", ")
		g.rep.Count("from:comma-list")
	case shape < 9 || depth == 0:
		tabs = g.insts(2+r.Intn(2), 3)
		from = tabs[0].sql()
		for k, t := range tabs[1:] {
			j := []string{" join ", " left join ", " inner join "}[r.Intn(3)]
			from += j + t.sql() + fmt.Sprintf(" on %s.id = %s.id", g.qualifier(tabs[k]), g.qualifier(t))
		}
		isJoin = true
		g.rep.Count("from:join")
	default:
		// a derived table: its columns must have distinct names (the database rejects duplicates)
		var sub *c4cSelect
		for try := 0; try < 8; try++ {
			sub = g.selectStmt(depth - 1)
			seen := map[string]bool{}
			ok := true
			for _, c := range sub.cols {
				if c.name != "" && seen[c.name] {
					ok = false
				}
				seen[c.name] = true
			}
			if ok {
				break
			}
			sub = nil
		}
		if sub == nil {
			tabs = g.insts(1, 3)
			from = tabs[0].sql()
			g.rep.Count("from:single")
			break
		}
		d := &c4cInst{derived: sub, alias: []string{"s", "sub", "D"}[r.Intn(3)]}
		tabs = []*c4cInst{d}
		if r.Intn(3) == 0 {
			tabs = append(tabs, g.insts(1, 3)...)
		}
		var fs []string
		for _, t := range tabs {
			fs = append(fs, t.sql())
		}
		from = strings.Join(fs, ", ")
		g.rep.Count("from:derived-table")
	}
	// columns an instance offers to references, by canonical name
	offers := func(i *c4cInst, col string) (c4cCol, bool) {
		if i.derived != nil {
			for _, c := range i.derived.cols {
				if c.name == col {
					return c, true
				}
			}
			return c4cCol{}, false
		}
		for _, c := range i.t.cols {
			if c == col {
				return c4cCol{name: col, t: i.ct, col: col}, true
			}
		}
		return c4cCol{}, false
	}
	n := 1 + r.Intn(4)
	var items []string
	for k := 0; k < n; k++ {
		switch kind := r.Intn(12); {
		case kind < 7:
			// a column reference
			ti := tabs[r.Intn(len(tabs))]
			var names []string
			if ti.derived != nil {
				for _, c := range ti.derived.cols {
					if c.name != "" {
						names = append(names, c.name)
					}
				}
			} else {
				names = ti.t.cols
			}
			if len(names) == 0 {
				items = append(items, "1")
				s.cols = append(s.cols, c4cCol{})
				continue
			}
			col := names[r.Intn(len(names))]
			cw := w.spellCol(r, g.rep, col)
			if w.canonCol(cw) != col {
				cw = col // a derived column whose name does not survive folding
			}
			// unqualified only if the database finds it unambiguous
			amb := false
			for _, o := range tabs {
				if o != ti {
					if _, ok := offers(o, col); ok {
						amb = true
					}
				}
			}
			qualified := amb || r.Intn(2) == 0
			out, _ := offers(ti, col)
			if ti.derived != nil && ti.derived.unknown {
				out.specNone = true
			}
			text := cw
			if qualified {
				text = g.qualifier(ti) + "." + cw
				g.rep.Count("item:qualified-column")
			} else {
				g.rep.Count("item:unqualified-column")
				if out.t != nil {
					if isJoin && (ti != tabs[0] || ti.alias != "") {
						c4cSetClass(s, "read-join-unqualified-column")
					}
					for _, o := range tabs {
						if o.derived != nil {
							c4cSetClass(s, "read-derived-table") // unqualified name next to / into a derived table
						}
					}
					if len(tabs) != 1 || tabs[0].alias != "" || isJoin {
						s.innerRisk = true // as the select list of a derived table: table found by "first table without alias"
					}
				}
			}
			out.name = col
			if r.Intn(4) == 0 {
				al := []string{"r1", "r2", "Res"}[r.Intn(3)]
				text += " as " + al
				out.name = w.canonCol(al)
				g.rep.Count("item:aliased")
			}
			items = append(items, text)
			s.cols = append(s.cols, out)
		case kind < 9:
			// star
			if r.Bool() || len(tabs) == 1 && r.Bool() {
				items = append(items, "*")
				for _, ti := range tabs {
					s.cols = append(s.cols, g.allCols(s, ti)...)
				}
				g.rep.Count("item:star")
			} else {
				ti := tabs[r.Intn(len(tabs))]
				items = append(items, g.qualifier(ti)+".*")
				s.cols = append(s.cols, g.allCols(s, ti)...)
				g.rep.Count("item:qualified-star")
			}
			s.star = true
			for _, ti := range tabs {
				if ti.derived != nil {
					c4cSetClass(s, "read-derived-table") // star over a derived table
				}
			}
		case kind < 10 && depth > 0:
			// scalar sub-select
			t := g.pickTab(true)
			i := g.inst(t, 1000)
			col := t.cols[r.Intn(len(t.cols))]
			items = append(items, fmt.Sprintf("(select %s from %s limit 1)", w.spellCol(r, g.rep, col), i.sql()))
			c := c4cCol{name: "", t: i.ct, col: col}
			if i.ct == nil || !i.ct.knows(col) {
				c.t = nil
			}
			s.cols = append(s.cols, c)
			g.rep.Count("item:scalar-subselect")
		default:
			items = append(items, []string{"1", "'lit'", "count(*)", "upper('q')"}[r.Intn(4)])
			s.cols = append(s.cols, c4cCol{})
			g.rep.Count("item:expression")
		}
	}
	s.sql = "select " + strings.Join(items, ", ") + " from " + from
	if r.Intn(3) == 0 {
		s.sql += " where " + g.qualifier(tabs[0]) + ".id > 1"
	}
	for _, ti := range tabs {
		if ti.derived != nil && (ti.derived.star || ti.derived.innerRisk) {
			c4cSetClass(s, "read-derived-table") // a derived table defined with a star / an unqualified column of an aliased or joined table
		}
		if ti.derived != nil && ti.derived.class != "" {
			c4cSetClass(s, ti.derived.class)
		}
	}
	return s
}

// ---------- running one statement ----------

func c4cEncLits(ls []c4cLit) []byte {
	var b []byte
	for _, l := range ls {
		b = append(b, byte(len(l.path)))
		for _, i := range l.path {
			b = append(b, byte(i))
		}
		b = append(b, byte(l.sid>>8), byte(l.sid))
	}
	return b
}

func c4cEncBinds(bs []c4cBind) []byte {
	var b []byte
	for _, x := range bs {
		u := uint64(int64(x.idx))
		for s := 56; s >= 0; s -= 8 {
			b = append(b, byte(u>>uint(s)))
		}
		b = append(b, byte(x.sid>>8), byte(x.sid))
	}
	return b
}

func c4cPathLess(a, b []int) bool {
	for i := 0; i < len(a) && i < len(b); i++ {
		if a[i] != b[i] {
			return a[i] < b[i]
		}
	}
	return len(a) < len(b)
}

type c4cRun struct {
	rep *vh.Report
	r   *vh.Rng
}

func (e *c4cRun) opTerm(op string, w *c4cWorld, tree *c5pNode, extra string) string {
	return fmt.Sprintf("(%s %s %s%s)", op, w.env.coq(), tree.H(), extra)
}

// writeCase: OnQuery of the encrypting instance + oracle + spec expectations
func (e *c4cRun) writeCase(sc int, w *c4cWorld, st *c4cStmt) {
	rep := e.rep
	o, err := w.env.write(st.sql)
	if err != nil {
		rep.Count("parse-error:" + st.kind)
		return
	}
	label := fmt.Sprintf("sc%d write %s", sc, st.sql)
	// where the generator's values are in the tree
	w.env.use()
	stmt, _ := w.env.parser.Parse(st.sql)
	nodes := c4cValNodes(stmt)
	byContent := map[string]*c4cValNode{}
	for _, n := range nodes {
		byContent[string(n.val)] = n
	}
	var specLits []c4cLit
	var specPhs []c4cBind
	obsByPath := map[string]int{}
	for _, l := range o.lits {
		obsByPath[fmt.Sprint(l.path)] = l.sid
	}
	obsBind := map[int]int{}
	for _, b := range o.binds {
		obsBind[b.idx] = b.sid
	}
	wantedPath := map[string]bool{}
	for _, x := range st.vals {
		n := byContent[x.v.content]
		if n == nil {
			rep.Violate("harness-error", "generated value not found in the tree: "+x.v.content, st.sql)
			return
		}
		rep.OracleChecks++
		if x.v.ph > 0 {
			if x.sid >= 0 {
				specPhs = append(specPhs, c4cBind{x.v.ph - 1, x.sid})
			}
			got, ok := obsBind[x.v.ph-1]
			if !o.panicked && (x.sid >= 0) != ok || (ok && got != x.sid) {
				rep.Violate(c4cClass(x.known, st.known, "placeholder-setting-wrong"),
					fmt.Sprintf("placeholder %s: registered setting %v/%v, the column's setting is %d", x.v.content, got, ok, x.sid), st.sql+" | "+w.env.coq())
			}
			continue
		}
		if x.sid >= 0 {
			specLits = append(specLits, c4cLit{n.path, x.sid})
			wantedPath[fmt.Sprint(n.path)] = true
		}
		got, ok := obsByPath[fmt.Sprint(n.path)]
		switch {
		case o.panicked:
		case x.sid >= 0 && !ok:
			rep.Violate(c4cClass(x.known, st.known, "value-not-protected"),
				fmt.Sprintf("literal %s is written to a configured column (setting %d) and was not handed to the encryptor", x.v.sql, x.sid), st.sql+" | "+w.env.coq())
		case x.sid >= 0 && got != x.sid:
			rep.Violate(c4cClass(x.known, st.known, "value-protected-with-wrong-setting"),
				fmt.Sprintf("literal %s: encrypted with setting %d, its column has setting %d", x.v.sql, got, x.sid), st.sql+" | "+w.env.coq())
		case x.sid < 0 && ok:
			rep.Violate(c4cClass(x.known, st.known, "uncovered-value-touched"),
				fmt.Sprintf("literal %s does not belong to a configured column and was encrypted with setting %d", x.v.sql, got), st.sql+" | "+w.env.coq())
		}
	}
	rep.OracleChecks++
	if o.panicked {
		rep.Violate("panic", "OnQuery panicked", st.sql+" | "+w.env.coq())
	} else {
		if o.other != "" {
			rep.Violate("uncovered-value-touched", o.other, st.sql+" | "+w.env.coq())
		}
		for _, l := range o.lits {
			if !wantedPath[fmt.Sprint(l.path)] {
				found := false
				for _, x := range st.vals {
					if n := byContent[x.v.content]; n != nil && fmt.Sprint(n.path) == fmt.Sprint(l.path) {
						found = true
					}
				}
				if !found {
					rep.Violate("uncovered-value-touched", fmt.Sprintf("a literal outside the value positions (path %v) was encrypted", l.path), st.sql+" | "+w.env.coq())
				}
			}
		}
	}
	sort.Slice(specLits, func(i, j int) bool { return c4cPathLess(specLits[i].path, specLits[j].path) })
	sort.Slice(specPhs, func(i, j int) bool { return specPhs[i].idx < specPhs[j].idx })
	var out vh.Outcome
	switch {
	case o.panicked:
		out = vh.Outcome{Kind: "panic"}
	default:
		out = vh.Ok([]byte{0}, c4cEncLits(o.lits), c4cEncBinds(o.binds), []byte{1}, c4cEncLits(specLits), c4cEncBinds(c4cDedupBinds(specPhs)))
	}
	rep.Add(label, e.opTerm("OpWrite", w, o.tree, ""), out)
	rep.Count("stmt:" + st.kind)
}

func c4cDedupBinds(bs []c4cBind) []c4cBind {
	var out []c4cBind
	for _, b := range bs {
		if len(out) > 0 && out[len(out)-1].idx == b.idx {
			continue
		}
		out = append(out, b)
	}
	return out
}

func c4cClass(valueKnown, stmtKnown, dflt string) string {
	if valueKnown != "" {
		return valueKnown
	}
	if stmtKnown != "" {
		return stmtKnown
	}
	return dflt
}

// bindCase: OnBind with n values
func (e *c4cRun) bindCase(sc int, w *c4cWorld, st *c4cStmt, n int) {
	rep := e.rep
	o, err := w.env.bindRun(st.sql, n)
	if err != nil {
		return
	}
	label := fmt.Sprintf("sc%d bind(%d) %s", sc, n, st.sql)
	var specPhs []c4cBind
	for _, x := range st.vals {
		if x.v.ph > 0 && x.sid >= 0 {
			specPhs = append(specPhs, c4cBind{x.v.ph - 1, x.sid})
		}
	}
	sort.Slice(specPhs, func(i, j int) bool { return specPhs[i].idx < specPhs[j].idx })
	specPhs = c4cDedupBinds(specPhs)
	rep.OracleChecks++
	status := []byte{0}
	switch {
	case o.panicked:
		rep.Violate("panic", "OnBind panicked", st.sql+" | "+w.env.coq())
	case o.err != nil:
		code := byte(0)
		var ne *strconv.NumError
		switch {
		case errors.Is(o.err, encbase.ErrInvalidPlaceholder):
			code = 21
		case errors.Is(o.err, encmysql.ErrInconsistentPlaceholder):
			code = 22
		case errors.As(o.err, &ne):
			code = 20
		}
		status = []byte{1, code}
		if n >= st.nph {
			rep.Violate("bind-error", "OnBind failed although every placeholder is bound: "+o.err.Error(), st.sql+" | "+w.env.coq())
		}
	default:
		got := map[int]int{}
		for _, b := range o.sel {
			got[b.idx] = b.sid
		}
		for _, x := range st.vals {
			if x.v.ph == 0 {
				continue
			}
			rep.OracleChecks++
			s, ok := got[x.v.ph-1]
			switch {
			case x.sid >= 0 && !ok:
				rep.Violate(c4cClass(x.known, st.known, "parameter-not-protected"),
					fmt.Sprintf("parameter %d is the value of a configured column (setting %d) and was not encrypted", x.v.ph, x.sid), st.sql+" | "+w.env.coq())
			case x.sid >= 0 && s != x.sid:
				rep.Violate(c4cClass(x.known, st.known, "parameter-protected-with-wrong-setting"),
					fmt.Sprintf("parameter %d: encrypted with setting %d, its column has setting %d", x.v.ph, s, x.sid), st.sql+" | "+w.env.coq())
			case x.sid < 0 && ok:
				rep.Violate(c4cClass(x.known, st.known, "uncovered-parameter-touched"),
					fmt.Sprintf("parameter %d does not belong to a configured column and was encrypted with setting %d", x.v.ph, s), st.sql+" | "+w.env.coq())
			}
		}
	}
	var out vh.Outcome
	if o.panicked {
		out = vh.Outcome{Kind: "panic"}
	} else {
		out = vh.Ok(status, c4cEncBinds(o.sel), []byte{1}, c4cEncBinds(specPhs))
	}
	rep.Add(label, e.opTerm("OpBind", w, o.tree, fmt.Sprintf(" %d%%nat", n)), out)
	rep.Count("stmt:bind-" + st.kind)
}

func c4cEncStr(s string) []byte { return append([]byte{byte(len(s))}, s...) }

// readCase: the settings-only instance
func (e *c4cRun) readCase(sc int, w *c4cWorld, kind, sql string, s *c4cSelect) {
	rep := e.rep
	o, err := w.env.read(sql)
	if err != nil {
		rep.Count("parse-error:" + kind)
		return
	}
	label := fmt.Sprintf("sc%d read %s", sc, sql)
	// spec as the generator knows it
	var spec []byte
	if s.unknown {
		spec = []byte{0xff}
	} else {
		for _, c := range s.cols {
			if sid := c.sid(); sid >= 0 && !c.specNone {
				spec = append(spec, 1, byte(sid>>8), byte(sid))
				spec = append(spec, c4cEncStr(c.t.name)...)
				spec = append(spec, c4cEncStr(c.col)...)
			} else {
				spec = append(spec, 0)
			}
		}
	}
	// oracle: the setting at every position is the setting of the column the database returns there
	rep.OracleChecks++
	switch {
	case o.panicked:
		rep.Violate("panic", "OnQuery (settings) panicked", sql+" | "+w.env.coq())
	default:
		bad := ""
		for i, c := range s.cols {
			want := c.sid()
			got := -1
			if i < len(o.items) {
				got = o.items[i].sid
			}
			if got != want {
				bad = fmt.Sprintf("result column %d is %s: setting %d expected, got %d", i, c4cColDesc(c), want, got)
				break
			}
		}
		if bad == "" {
			for i := len(s.cols); i < len(o.items); i++ {
				if o.items[i].sid >= 0 {
					bad = fmt.Sprintf("a setting (%d) for result column %d, the statement returns %d columns", o.items[i].sid, i, len(s.cols))
					break
				}
			}
		}
		if bad != "" {
			cls := s.class
			if cls == "" && s.unknown {
				cls = "read-star-unknown-column-count"
			}
			if cls == "" {
				cls = "result-column-setting-wrong"
			}
			rep.Violate(cls, bad, sql+" | "+w.env.coq())
		}
	}
	var out vh.Outcome
	switch {
	case o.panicked:
		out = vh.Outcome{Kind: "panic"}
	case o.err != nil:
		out = vh.Ok([]byte{1}, nil, []byte{1}, spec)
	case o.isNil:
		out = vh.Ok([]byte{2}, nil, []byte{1}, spec)
	default:
		var b []byte
		for _, it := range o.items {
			if it.sid < 0 {
				b = append(b, 0)
				continue
			}
			b = append(b, 1, byte(it.sid>>8), byte(it.sid))
			b = append(b, c4cEncStr(it.table)...)
			b = append(b, c4cEncStr(it.column)...)
			b = append(b, c4cEncStr(it.alias)...)
		}
		out = vh.Ok([]byte{0}, b, []byte{1}, spec)
	}
	rep.Add(label, e.opTerm("OpRead", w, o.tree, ""), out)
	rep.Count("stmt:" + kind)
}

func c4cColDesc(c c4cCol) string {
	if c.t == nil {
		return "not a configured column"
	}
	return c.t.name + "." + c.col
}

// returning: INSERT / DELETE (MySQL dialect: MariaDB) or UPDATE (PostgreSQL dialect) with RETURNING
func (g *c4cGen) returningStmt() (string, string, *c4cSelect) {
	r, w := g.r, g.w
	t := g.pickTab(true)
	i := g.inst(t, 1000)
	s := &c4cSelect{}
	var items []string
	if r.Intn(3) == 0 {
		items = []string{"*"}
		s.cols = g.allCols(s, i)
		g.rep.Count("returning:star")
	} else {
		n := 1 + r.Intn(3)
		for k := 0; k < n; k++ {
			col := t.cols[r.Intn(len(t.cols))]
			cw := w.spellCol(r, g.rep, col)
			c := c4cCol{name: col, t: i.ct, col: col}
			text := cw
			if r.Intn(3) == 0 {
				text = g.qualifier(i) + "." + cw
			} else if i.ct == nil || !i.ct.knows(col) {
				c.t = nil
			}
			items = append(items, text)
			s.cols = append(s.cols, c)
		}
		g.rep.Count("returning:columns")
	}
	ret := " returning " + strings.Join(items, ", ")
	kind := r.Intn(3)
	if w.pg && kind == 2 {
		return "returning-update", "update " + i.sql() + " set " + t.cols[len(t.cols)-1] + " = 'v'" + ret, s
	}
	if kind == 0 {
		return "returning-delete", "delete from " + i.sql() + " where id = 1" + ret, s
	}
	if i.ct == nil {
		// the INSERT is not analysed at all
		for k := range s.cols {
			s.cols[k].t = nil
		}
	}
	return "returning-insert", "insert into " + i.sql() + " (" + t.cols[0] + ") values (1)" + ret, s
}

// forced: a fixed set of statement shapes over the first configured table with a column list (T, encrypted column E,
// plain column P) and another table U of every scenario, so that every run (every seed, quick tier) exercises
// upper-case aliases and qualifiers, schema-ordered VALUES, upper-case column lists, wrapped placeholders, stars
// and qualified stars with aliases, join stars and qualified names under a join
func (e *c4cRun) forced(sc int, w *c4cWorld) {
	var T, U *c4cDBTab
	for _, t := range w.tabs {
		if T == nil && t.cfg && t.listed && len(t.enc) > 0 && t.name == c4cLower(t.name) {
			T = t
		} else if U == nil && t.name == c4cLower(t.name) {
			U = t
		}
	}
	if T == nil || U == nil {
		return
	}
	var E, P string
	for _, c := range T.cols[1:] {
		if _, ok := T.enc[c]; ok && E == "" {
			E = c
		} else if !ok && P == "" {
			P = c
		}
	}
	if P == "" {
		P = "id"
	}
	up := strings.ToUpper
	q := func(s string) string { // a name the dialect folds, written in upper case
		if w.cs {
			return s
		}
		return up(s)
	}
	al, AL := "al", "AL"
	if w.cs {
		AL = "al"
	}
	ph := func(k int) (string, string) {
		if w.pg {
			return fmt.Sprintf("$%d", k), fmt.Sprintf("$%d", k)
		}
		return "?", fmt.Sprintf(":v%d", k)
	}
	lit := func(c string) *c4cValue { return &c4cValue{sql: "'" + c + "'", content: c, direct: true} }
	mkph := func(k int, wrap string) *c4cValue {
		sql, content := ph(k)
		return &c4cValue{sql: fmt.Sprintf(wrap, sql), content: content, direct: true, ph: k}
	}
	sid := func(t *c4cDBTab, c string) int {
		if t == nil || !t.cfg {
			return -1
		}
		if s, ok := t.enc[c]; ok {
			return s
		}
		return -1
	}
	want := func(v *c4cValue, t *c4cDBTab, c string) *c4cWant { return &c4cWant{v: v, sid: sid(t, c)} }
	// --- writes ---
	{ // alias and qualifier in different case, second target unqualified
		v1, v2 := lit("f001"), mkph(1, "(%s)")
		st := &c4cStmt{kind: "update", nph: 1, vals: []*c4cWant{want(v1, T, E), want(v2, T, P)}}
		st.sql = fmt.Sprintf("update %s as %s set %s.%s = %s, %s = %s", q(T.name), AL, al, E, v1.sql, P, v2.sql)
		if w.pg {
			st.sql = fmt.Sprintf("update %s as %s set %s = %s, %s = %s", q(T.name), AL, E, v1.sql, P, v2.sql)
		}
		e.writeCase(sc, w, st)
		e.bindCase(sc, w, st, 1)
		e.rep.Count("forced:update-alias-case")
	}
	if !w.pg { // multiple-table UPDATE: qualified target of the second table, unqualified target of the later table
		v1, v2 := lit("f002"), mkph(1, "%s")
		st := &c4cStmt{kind: "update", nph: 1, vals: []*c4cWant{want(v1, T, E), want(v2, T, E)}}
		st.sql = fmt.Sprintf("update %s as u9 join %s on 1 = 1 set %s.%s = %s, %s = %s", U.name, T.name, q(T.name), E, v1.sql, E, v2.sql)
		amb := false
		for _, c := range U.cols {
			if c == E {
				amb = true
			}
		}
		if !amb {
			e.writeCase(sc, w, st)
			e.bindCase(sc, w, st, 1)
			e.rep.Count("forced:update-join-later-table")
		}
	}
	{ // VALUES in the order of the schema's columns, two rows, the second one short; column list in upper case with placeholders
		st := &c4cStmt{kind: "insert"}
		var rows []string
		k := 0
		for i := 0; i < 2; i++ {
			var vs []string
			n := len(T.cols) - i
			for j := 0; j < n; j++ {
				k++
				v := lit(fmt.Sprintf("g%03d", k))
				vs = append(vs, v.sql)
				st.vals = append(st.vals, want(v, T, T.cols[j]))
			}
			rows = append(rows, "("+strings.Join(vs, ", ")+")")
		}
		st.sql = fmt.Sprintf("insert into %s values %s", q(T.name), strings.Join(rows, ", "))
		e.writeCase(sc, w, st)
		e.rep.Count("forced:insert-schema-order")
		v1, v2 := mkph(1, "%s"), mkph(2, "(%s)")
		if !w.pg {
			v2 = mkph(2, "_binary %s")
		}
		st2 := &c4cStmt{kind: "insert", nph: 2, vals: []*c4cWant{want(v1, T, P), want(v2, T, E)}}
		st2.sql = fmt.Sprintf("insert into %s (%s, %s) values (%s, %s)", T.name, q(P), q(E), v1.sql, v2.sql)
		e.writeCase(sc, w, st2)
		e.bindCase(sc, w, st2, 2)
		e.rep.Count("forced:insert-column-list-case")
	}
	// --- reads ---
	col := func(t *c4cDBTab, c string) c4cCol {
		if t.cfg {
			return c4cCol{name: c, t: t, col: c}
		}
		return c4cCol{name: c}
	}
	all := func(s *c4cSelect, t *c4cDBTab) {
		if !t.cfg || !t.listed {
			s.unknown = true
		}
		for _, c := range t.cols {
			s.cols = append(s.cols, col(t, c))
		}
	}
	{ // alias in different case: qualified column, qualified star, star
		s := &c4cSelect{}
		s.cols = append(s.cols, col(T, E))
		all(s, T)
		all(s, T)
		s.sql = fmt.Sprintf("select %s.%s, %s.*, * from %s as %s", al, q(E), al, q(T.name), AL)
		e.readCase(sc, w, "select", s.sql, s)
		e.rep.Count("forced:select-alias-case")
	}
	{ // table name as qualifier in different case, unqualified column, no alias
		s := &c4cSelect{}
		s.cols = append(s.cols, col(T, E), col(T, E), col(T, P))
		s.sql = fmt.Sprintf("select %s.%s, %s, %s from %s", q(T.name), E, q(E), P, T.name)
		e.readCase(sc, w, "select", s.sql, s)
		e.rep.Count("forced:select-qualifier-case")
	}
	{ // join: star, qualified star of the second table, qualified columns
		s := &c4cSelect{}
		all(s, T)
		all(s, U)
		all(s, U)
		s.cols = append(s.cols, col(T, E))
		s.sql = fmt.Sprintf("select *, %s.*, %s.%s from %s join %s as %s on 1 = 1", al, q(T.name), E, T.name, U.name, AL)
		e.readCase(sc, w, "select", s.sql, s)
		e.rep.Count("forced:select-join-star")
	}
	{ // comma list: star over both, qualified star of the aliased second table
		s := &c4cSelect{}
		all(s, T)
		all(s, U)
		all(s, U)
		s.sql = fmt.Sprintf("select *, %s.* from %s, %s as %s", al, T.name, U.name, AL)
		e.readCase(sc, w, "select", s.sql, s)
		e.rep.Count("forced:select-comma-star")
	}
}

func runC04col(rep *vh.Report, r *vh.Rng, n int, thorough bool) {
	e := &c4cRun{rep: rep, r: r}
	defer c4cRestoreDialect()
	for sc := 0; sc < n; sc++ {
		w := c4cNewWorld(r, rep, sc)
		e.forced(sc, w)
		per := 3
		if thorough {
			per = 5
		}
		for k := 0; k < per; k++ {
			// write, text protocol (literals and placeholders mixed)
			g := &c4cGen{w: w, r: r, rep: rep, phOK: r.Intn(3) == 0}
			var st *c4cStmt
			switch {
			case sc%10 == 9 && k == 0:
				st = g.insertStmt(true)
			case r.Intn(5) < 3:
				st = g.insertStmt(false)
			default:
				st = g.updateStmt()
			}
			e.writeCase(sc, w, st)
			if st.nph > 0 {
				e.bindCase(sc, w, st, st.nph)
			}
			// write, prepared: placeholders
			g = &c4cGen{w: w, r: r, rep: rep, phOK: true}
			if r.Bool() {
				st = g.insertStmt(false)
			} else {
				st = g.updateStmt()
			}
			if st.nph > 0 {
				nb := st.nph
				if r.Intn(8) == 0 {
					nb = r.Intn(st.nph)
					rep.Count("bind:fewer-values-than-placeholders")
				} else if r.Intn(8) == 0 {
					nb += 2
				}
				e.bindCase(sc, w, st, nb)
				e.writeCase(sc, w, st)
			}
			// read
			g = &c4cGen{w: w, r: r, rep: rep}
			s := g.selectStmt(2)
			e.readCase(sc, w, "select", s.sql, s)
			if k == 0 {
				g = &c4cGen{w: w, r: r, rep: rep}
				kind, sql, s := g.returningStmt()
				e.readCase(sc, w, kind, sql, s)
			}
		}
	}
}
