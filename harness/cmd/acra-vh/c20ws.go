package main

// C20, blank-value and whitespace-edit families of domain c20 (used by runC20 in c20.go).
//
//  honest side: field maps whose LAST serialized field (the formatters sort the names) has an empty /
//    single-blank / whitespace-only / trailing-whitespace value, with names sorting before and after the fields
//    the acra formatters add themselves (unixTime, version, …): c20WsTableScenario (a boundary-table scenario per
//    format, always run) and c20WsSprinkle (one such field added to an entry of the random scenarios);
//  tamper side: whitespace-only edits (insertions and removals) at every structural position of a written line:
//    start of the line, right before " integrity=", between the fields / inside the entry, right after the
//    integrity value, at the end of the line (JSON: around the structural tokens and inside a string value):
//    c20WsEdits.  An edit of the authenticated bytes must be rejected no later than the next protected entry; an
//    edit of the unauthenticated suffix is recorded for the model only.

import (
	"fmt"
	"sort"
	"strings"
	"time"
	"unicode"
	"unicode/utf8"

	"acra-vh/vh"

	"github.com/cossacklabs/acra/logging"
	"github.com/sirupsen/logrus"
)

// names sorting after / before every field the formatters add (product, timestamp, unixTime, version, …)
var c20WsNamesAfter = []string{"zone", "username", "user", "unixTimf", "unixtime", "zz", "~", "x"}
var c20WsNamesBefore = []string{"a", "client_id", "Zone", "unixTimd", "0", "UnixTime"}
var c20WsValues = []string{"", " ", "  ", "\t", " \t ", " ", " 　", "x ", "x  ", "x\t", " x", "a b ", "\n", "x\n", "x ", "\v", " = "}
var c20WsBlanks = []string{" ", "\t", "  ", " ", " \t", "\v", "　", "\u0085", "   "}

func c20WsValueClass(v string) string {
	switch {
	case v == "":
		return "empty"
	case v == " ":
		return "single-blank"
	case strings.TrimSpace(v) == "":
		return "whitespace-only"
	case strings.TrimRightFunc(v, unicode.IsSpace) != v:
		return "trailing-whitespace"
	}
	return "leading-or-inner-whitespace"
}

// c20WsTableScenario: one honest history that walks through the value table; the blank value sits in the field
// that is serialized last (name after the formatter's own), in a field before them, or in both.
func c20WsTableScenario(r *vh.Rng, rep *vh.Report, format string, sc, round int) []c20Event {
	base := time.Date(2026, 1, 2, 3, 4, 5, 0, time.UTC).Add(time.Duration(sc) * time.Minute)
	var evs []c20Event
	off := r.Intn(len(c20WsNamesAfter))
	for i, v := range c20WsValues {
		ev := c20Event{kind: evEntry, t: base.Add(time.Duration(i) * 1371 * time.Millisecond), fields: logrus.Fields{}, level: logrus.InfoLevel}
		ev.msg = c20Msg(r, false)
		after := c20WsNamesAfter[(i+off+round)%len(c20WsNamesAfter)]
		before := c20WsNamesBefore[(i+off)%len(c20WsNamesBefore)]
		switch i % 5 {
		case 0, 1, 3:
			ev.fields[after] = v
			rep.Count("ws-field:last-after-own:" + c20WsValueClass(v))
		case 2:
			ev.fields[before] = v
			rep.Count("ws-field:before-own:" + c20WsValueClass(v))
		case 4:
			ev.fields[after] = v
			ev.fields[before] = c20WsValues[(i+3)%len(c20WsValues)]
			ev.fields[c20WsNamesAfter[(i+off+round+1)%len(c20WsNamesAfter)]] = "v"
			rep.Count("ws-field:both:" + c20WsValueClass(v))
		}
		switch i % 7 {
		case 3:
			ev.msg += " " // the message itself ends in a blank
		case 5:
			ev.msg = ""
		}
		evs = append(evs, ev)
		rep.Count("event:entry")
		if round > 0 && i == len(c20WsValues)/2 {
			evs = append(evs, c20Event{kind: evReset})
			rep.Count("event:reset")
		}
	}
	if round == 0 {
		evs = append(evs, c20Event{kind: evFinalize})
	}
	return evs
}

// c20WsSprinkle adds, in about half of the random scenarios, one blank-valued field to one entry.
func c20WsSprinkle(rw *vh.Rng, rep *vh.Report, format string, evs []c20Event) {
	if rw.Intn(2) == 0 {
		return
	}
	var idx []int
	for i := range evs {
		if evs[i].kind == evEntry {
			idx = append(idx, i)
		}
	}
	if len(idx) == 0 {
		return
	}
	ev := &evs[idx[rw.Intn(len(idx))]]
	name := c20WsNamesAfter[rw.Intn(len(c20WsNamesAfter))]
	where := "last-after-own"
	if rw.Intn(4) == 0 {
		name = c20WsNamesBefore[rw.Intn(len(c20WsNamesBefore))]
		where = "before-own"
	}
	v := c20WsValues[rw.Intn(len(c20WsValues))]
	ev.fields[name] = v
	rep.Count("ws-field:" + where + ":" + c20WsValueClass(v))
}

func c20WsEndsBlank(s string) bool {
	if s == "" {
		return false
	}
	c, _ := utf8.DecodeLastRuneInString(s)
	return unicode.IsSpace(c)
}

// c20WsPickLines: the lines that get the whitespace edits (all in thorough): the first, a random one and the
// lines whose authenticated bytes end in a blank (at most two, three in a table scenario).
func c20WsPickLines(rw *vh.Rng, format string, phys []string, table, thorough bool) []int {
	if len(phys) == 0 {
		return nil
	}
	set := map[int]bool{}
	if thorough {
		for i := range phys {
			set[i] = true
		}
	} else {
		set[0] = true
		set[rw.Intn(len(phys))] = true
		var blank []int
		for i, l := range phys {
			if format != logging.JSONFormatString && c20WsEndsBlank(c20Authenticated(format, l)) {
				blank = append(blank, i)
			}
		}
		capN := 2
		if table {
			capN = 3
		}
		for k := 0; k < capN && len(blank) > 0; k++ {
			j := rw.Intn(len(blank))
			set[blank[j]] = true
			blank = append(blank[:j], blank[j+1:]...)
		}
	}
	out := make([]int, 0, len(set))
	for i := range set {
		out = append(out, i)
	}
	sort.Ints(out)
	return out
}

type c20WsEdit struct {
	pos  string // structural position
	what string
	line string
	must bool // the authenticated bytes changed: rejection required
}

func c20WsBlank(rw *vh.Rng) string {
	if rw.Intn(2) == 0 {
		return " "
	}
	return c20WsBlanks[rw.Intn(len(c20WsBlanks))]
}

// c20WsEdits: whitespace-only edits of one written line, one (thorough: every blank of the table) per position.
func c20WsEdits(rw *vh.Rng, format, line string, thorough bool) []c20WsEdit {
	if format == logging.JSONFormatString {
		return c20WsEditsJSON(rw, line, thorough)
	}
	body, tag, isNew, ok := c20SplitChunk([]byte(line + "\n"))
	if !ok {
		return nil
	}
	b := string(body)
	sfx := ""
	if isNew {
		sfx = logging.SpaceDelimiter + logging.NewAuditLogChainSuffix
	}
	mk := func(nb string) string { return nb + logging.DataSplitToken + tag + sfx }
	blanks := []string{c20WsBlank(rw)}
	if thorough {
		blanks = c20WsBlanks
	}
	var out []c20WsEdit
	add := func(pos, what, l string, must bool) {
		if l != line && !strings.ContainsAny(l, "\n\r") {
			out = append(out, c20WsEdit{pos, what, l, must})
		}
	}
	// positions of blanks inside the authenticated bytes (between fields, inside the message …)
	var sp []int
	for i := 0; i < len(b); i++ {
		if b[i] == ' ' {
			sp = append(sp, i)
		}
	}
	for _, w := range blanks {
		add("start", fmt.Sprintf("%q inserted at the start of the line", w), mk(w+b), true)
		add("before-integrity", fmt.Sprintf("%q inserted before %q", w, logging.DataSplitToken), mk(b+w), true)
		if len(sp) > 0 {
			p := sp[rw.Intn(len(sp))]
			add("between-fields", fmt.Sprintf("%q inserted at byte %d", w, p), mk(b[:p]+w+b[p:]), true)
		}
		add("after-integrity", fmt.Sprintf("%q inserted after the integrity value", w), b+logging.DataSplitToken+tag+w+sfx, false)
		add("end", fmt.Sprintf("%q appended to the line", w), line+w, false)
		add("after-token", fmt.Sprintf("%q inserted after %q", w, logging.DataSplitToken), b+logging.DataSplitToken+w+tag+sfx, false)
	}
	// removals
	if c20WsEndsBlank(b) {
		_, n := utf8.DecodeLastRuneInString(b)
		add("before-integrity", "the blank before "+fmt.Sprintf("%q", logging.DataSplitToken)+" removed", mk(b[:len(b)-n]), true)
		add("before-integrity", "every blank before "+fmt.Sprintf("%q", logging.DataSplitToken)+" removed", mk(strings.TrimRightFunc(b, unicode.IsSpace)), true)
	}
	if len(sp) > 0 {
		p := sp[rw.Intn(len(sp))]
		add("between-fields", fmt.Sprintf("the blank at byte %d removed", p), mk(b[:p]+b[p+1:]), true)
	}
	if strings.TrimLeftFunc(b, unicode.IsSpace) != b {
		add("start", "the blanks at the start of the line removed", mk(strings.TrimLeftFunc(b, unicode.IsSpace)), true)
	}
	// drop duplicates (an edit can coincide with another one when the body ends in the inserted blank)
	seen := map[string]bool{}
	var uniq []c20WsEdit
	for _, e := range out {
		if !seen[e.line] {
			seen[e.line] = true
			uniq = append(uniq, e)
		}
	}
	return uniq
}

// JSON: blanks around the structural tokens do not change the decoded entry (recorded for the model only); a blank
// inside a string changes the field map and must be rejected.
func c20WsEditsJSON(rw *vh.Rng, line string, thorough bool) []c20WsEdit {
	var structural, openq []int // byte offsets AFTER '{' ',' ':' / before '}' ; offsets right after an opening quote
	inStr, esc := false, false
	for i := 0; i < len(line); i++ {
		c := line[i]
		switch {
		case inStr && esc:
			esc = false
		case inStr && c == '\\':
			esc = true
		case inStr && c == '"':
			inStr = false
		case inStr:
		case c == '"':
			inStr = true
			openq = append(openq, i+1)
		case c == '{' || c == ',' || c == ':':
			structural = append(structural, i+1)
		case c == '}':
			structural = append(structural, i)
		}
	}
	var out []c20WsEdit
	auth := c20Authenticated(logging.JSONFormatString, line)
	add := func(pos, what, l string) {
		if l == line {
			return
		}
		out = append(out, c20WsEdit{pos, what, l, c20Authenticated(logging.JSONFormatString, l) != auth})
	}
	w := []string{" ", "\t", "  "}[rw.Intn(3)]
	add("start", fmt.Sprintf("%q inserted at the start of the line", w), w+line)
	add("end", fmt.Sprintf("%q appended to the line", w), line+w)
	k := 2
	if thorough {
		k = len(structural)
	}
	for j := 0; j < k && len(structural) > 0; j++ {
		p := structural[rw.Intn(len(structural))]
		if thorough {
			p = structural[j]
		}
		add("between-fields", fmt.Sprintf("%q inserted at byte %d (outside the strings)", w, p), line[:p]+w+line[p:])
	}
	k = 2
	if thorough {
		k = len(openq)
	}
	for j := 0; j < k && len(openq) > 0; j++ {
		p := openq[rw.Intn(len(openq))]
		if thorough {
			p = openq[j]
		}
		add("in-string", fmt.Sprintf("a blank inserted at byte %d (inside a string)", p), line[:p]+" "+line[p:])
	}
	return out
}
