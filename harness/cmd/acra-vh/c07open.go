package main

// Domain c07open (property C07, "any byte change to a stored key ring is detected when it is read"):
// the stored bytes are changed at EVERY point at which the key store reads them, not only before a
// fresh open.  Real code under test: keystore v2 (two KeyStore objects over one in-memory back end,
// several KeyRing handles kept open) behind a back end that records every call and applies the
// adversary's change at the moment of a chosen Get, and behind a signature.Algorithm that records
// every Sign / Verify call with the exact bytes (no hook needed: the algorithm is an interface the
// caller supplies).  A history (scripted shapes for every kind of update + random ones) is run once
// untouched; then it is re-run, identically up to that point, once per (Get index, byte position
// class of the file that Get returns): payload fields (content type, version, time stamp, ring
// purpose, key seqnum / state / validity / format / key bytes, current seqnum), signature bytes,
// algorithm OID, every level of container framing, truncation, extension, a whole-leaf substitute
// and the file of another ring.  Oracle, on the implementation alone: the operation that read the
// changed bytes fails, every later read of that ring through ANY handle fails, every snapshot a
// handle shows is byte-identical to content the key store itself stored earlier, nothing is written
// to the ring after the change and all writes equal those of the untouched run, a fresh key store does
// not load the ring; and every Get of a ring file is followed by Verify calls over exactly the bytes
// returned.  The histories (baseline + a sample of the changed runs) are replayed event by event
// (Get / Verify / Sign / Put with the exact bytes) on Model/RingStore.v.
// v1 analogue (c07oV1): a key file changed / swapped underneath an OPEN key store whose cache is
// warm, cold or disabled, replayed on the v1 model extended with an adversary write (K1Poke).

import (
	"bytes"
	encasn1 "encoding/asn1"
	"fmt"
	"sort"
	"strings"

	"acra-vh/vh"
	"acra-vh/vhiso"
	"acra-vh/vhks"

	"github.com/cossacklabs/acra/keystore"
	"github.com/cossacklabs/acra/keystore/filesystem"
	apiV2 "github.com/cossacklabs/acra/keystore/v2/keystore/api"
	"github.com/cossacklabs/acra/keystore/v2/keystore/asn1"
	cryptoV2 "github.com/cossacklabs/acra/keystore/v2/keystore/crypto"
	fsV2 "github.com/cossacklabs/acra/keystore/v2/keystore/filesystem"
	"github.com/cossacklabs/acra/keystore/v2/keystore/filesystem/backend"
	backendAPI "github.com/cossacklabs/acra/keystore/v2/keystore/filesystem/backend/api"
	"github.com/cossacklabs/acra/keystore/v2/keystore/signature"
	"github.com/cossacklabs/themis/gothemis/core"
)

func init() { register("c07open", "Model.RunRingStore", runC07Open) }

func runC07Open(rep *vh.Report, r *vh.Rng, n int, thorough bool) {
	shapes := []string{"addkey", "setcurrent", "setstate", "destroy", "import"}
	// v2 and v1 scenarios alternate so that the (large) v2 cases spread over the replay shards
	nv1 := 1 + n/20
	for i, u := range shapes {
		c07oScenario(rep, r, c07oShape(r, u, shapes[(i+1)%len(shapes)]), "shape:"+u, thorough)
		if i < nv1 {
			c07oV1(rep, r, thorough)
		}
	}
	for i := 0; i < 1+n/12; i++ {
		c07oScenario(rep, r, c07oRandomHistory(r), "random", thorough)
		if len(shapes)+i < nv1 {
			c07oV1(rep, r, thorough)
		}
	}
	c07oTidy(rep)
}

// the report keeps a few violations per class, the most telling classes first
func c07oTidy(rep *vh.Report) {
	prio := []string{"v2-open-tamper-accepted", "v2-open-tamper-resigned", "v2-open-tamper-loads-as-genuine",
		"v2-open-handle-shows-unsigned-content", "v2-open-tamper-write-differs", "v1-open-tamper-served", "v1-open-tamper-written-back"}
	rank := func(c string) int {
		for i, p := range prio {
			if p == c {
				return i
			}
		}
		return len(prio)
	}
	per := map[string]int{}
	var kept []vh.Violation
	for _, v := range rep.Violations {
		per[v.Class]++
		if per[v.Class] <= 8 {
			kept = append(kept, v)
		}
	}
	for c, k := range per {
		if k > 8 {
			rep.Count(fmt.Sprintf("violations-not-listed:%s", c))
			rep.Distribution["violations-not-listed:"+c] = k - 8
		}
	}
	sort.SliceStable(kept, func(i, j int) bool {
		pi, pj := strings.Contains(kept[i].What, "did not fail: panic"), strings.Contains(kept[j].What, "did not fail: panic")
		if rank(kept[i].Class) != rank(kept[j].Class) {
			return rank(kept[i].Class) < rank(kept[j].Class)
		}
		return !pi && pj
	})
	rep.Violations = kept
}

// ---------- recording seams ----------

type c07oEv struct {
	kind     string // get | put | rename | remove | check | sign
	path, to string
	data     []byte // get: bytes returned, put: bytes stored, check / sign: the data argument
	notExist bool
	failed   bool
	ctx, sig []byte
	ok       bool
}

type c07oLog struct{ evs []c07oEv }

func c07oCp(b []byte) []byte { return append([]byte{}, b...) }

type c07oFired struct {
	path          string
	before, after []byte
	atEvent       int
}

// back end: records, and lets the adversary act at the armAt-th Get (counted over the whole history)
type c07oBackend struct {
	backendAPI.Backend
	log   *c07oLog
	gets  int
	armAt int
	arm   func(path string, cur []byte) []byte
	fired *c07oFired
}

func (b *c07oBackend) Get(path string) ([]byte, error) {
	if b.arm != nil && b.gets == b.armAt {
		if cur, err := b.Backend.Get(path); err == nil {
			if nw := b.arm(path, c07oCp(cur)); nw != nil && !bytes.Equal(nw, cur) {
				b.Backend.Remove(path)
				b.Backend.Put(path, c07oCp(nw))
				b.fired = &c07oFired{path, c07oCp(cur), c07oCp(nw), len(b.log.evs)}
			}
		}
		b.arm = nil
	}
	b.gets++
	d, err := b.Backend.Get(path)
	b.log.evs = append(b.log.evs, c07oEv{kind: "get", path: path, data: c07oCp(d), notExist: err == backendAPI.ErrNotExist, failed: err != nil})
	return c07oCp(d), err
}
func (b *c07oBackend) Put(path string, data []byte) error {
	err := b.Backend.Put(path, c07oCp(data))
	b.log.evs = append(b.log.evs, c07oEv{kind: "put", path: path, data: c07oCp(data), failed: err != nil})
	return err
}
func (b *c07oBackend) Remove(path string) error {
	err := b.Backend.Remove(path)
	b.log.evs = append(b.log.evs, c07oEv{kind: "remove", path: path, failed: err != nil})
	return err
}
func (b *c07oBackend) Rename(o, n string) error {
	err := b.Backend.Rename(o, n)
	b.log.evs = append(b.log.evs, c07oEv{kind: "rename", path: o, to: n, failed: err != nil})
	return err
}
func (b *c07oBackend) RenameNX(o, n string) error {
	err := b.Backend.RenameNX(o, n)
	b.log.evs = append(b.log.evs, c07oEv{kind: "renamenx", path: o, to: n, failed: err != nil})
	return err
}

// signature algorithm: records the exact arguments of every call
type c07oAlg struct {
	inner signature.Algorithm
	log   *c07oLog
}

func (a *c07oAlg) AlgorithmOID() encasn1.ObjectIdentifier { return a.inner.AlgorithmOID() }
func (a *c07oAlg) Sign(data, context []byte) []byte {
	s := a.inner.Sign(data, context)
	a.log.evs = append(a.log.evs, c07oEv{kind: "sign", data: c07oCp(data), ctx: c07oCp(context), sig: c07oCp(s)})
	return s
}
func (a *c07oAlg) Verify(sig, data, context []byte) bool {
	ok := a.inner.Verify(sig, data, context)
	a.log.evs = append(a.log.evs, c07oEv{kind: "check", data: c07oCp(data), ctx: c07oCp(context), sig: c07oCp(sig), ok: ok})
	return ok
}

type c07oDelegate struct{ d apiV2.ImportDecision }

func (x c07oDelegate) DecideKeyRingOverwrite(cur, nw *asn1.KeyRing) (apiV2.ImportDecision, error) {
	if x.d == apiV2.ImportAbort {
		return x.d, fsV2.ErrKeyRingExists
	}
	return x.d, nil
}

// ---------- histories ----------

const (
	c07oP = "client/alpha/storage-sym"
	c07oQ = "ring-q"
)

// handle slots: store 0 holds slots 0, 3 (two handles of ONE store on P) and 4 (ring Q); store 1 holds
// slot 1 (read-write) and slot 2 (read-only).
var c07oSlotStore = []int{0, 1, 1, 0, 0}

type c07oStep struct {
	kind     string // openrw openro export observe addkey setcurrent setstate destroy import
	h        int    // handle slot; export / import: store index
	path     string
	seq      int
	state    int
	desc     int // addkey: 0 symmetric, 1 key pair, 2 public key only, 3 validity inverted, 4 no data
	keyA     []byte
	bundle   int
	decision int // 0 overwrite 1 skip 2 abort
}

func (s c07oStep) String() string {
	switch s.kind {
	case "openrw", "openro":
		return fmt.Sprintf("h%d:=%s(%q)", s.h, s.kind, s.path)
	case "export":
		return fmt.Sprintf("store%d.export(%q)", s.h, s.path)
	case "observe":
		return fmt.Sprintf("h%d.observe", s.h)
	case "addkey":
		return fmt.Sprintf("h%d.AddKey(desc%d)", s.h, s.desc)
	case "setcurrent":
		return fmt.Sprintf("h%d.SetCurrent(%d)", s.h, s.seq)
	case "setstate":
		return fmt.Sprintf("h%d.SetState(%d,%d)", s.h, s.seq, s.state)
	case "destroy":
		return fmt.Sprintf("h%d.DestroyKey(%d)", s.h, s.seq)
	case "import":
		return fmt.Sprintf("store%d.import(bundle%d of %q,decision%d)", s.h, s.bundle, s.path, s.decision)
	}
	return s.kind
}

func c07oUpdate(r *vh.Rng, kind string, h int) c07oStep {
	switch kind {
	case "addkey":
		return c07oStep{kind: "addkey", h: h, desc: r.Intn(2), keyA: r.Bytes(32)}
	case "setcurrent":
		return c07oStep{kind: "setcurrent", h: h, seq: 1 + r.Intn(2)}
	case "setstate":
		return c07oStep{kind: "setstate", h: h, seq: 1 + r.Intn(2), state: 2}
	case "destroy":
		return c07oStep{kind: "destroy", h: h, seq: 1 + r.Intn(2)}
	}
	return c07oStep{kind: "import", h: c07oSlotStore[h], path: c07oP, bundle: 0, decision: 0}
}

// scripted shape: open, fill, open the other handles, then the update kind u through every handle
func c07oShape(r *vh.Rng, u, u2 string) []c07oStep {
	st := []c07oStep{
		{kind: "openrw", h: 0, path: c07oP},
		{kind: "addkey", h: 0, desc: 0, keyA: r.Bytes(32)},
		{kind: "addkey", h: 0, desc: 1, keyA: r.Bytes(32)},
		{kind: "setcurrent", h: 0, seq: 1},
		{kind: "openrw", h: 1, path: c07oP},
		{kind: "openrw", h: 3, path: c07oP},
		{kind: "openro", h: 2, path: c07oP},
		{kind: "openrw", h: 4, path: c07oQ},
		{kind: "addkey", h: 4, desc: 0, keyA: r.Bytes(32)},
		c07oUpdate(r, u, 0),
		c07oUpdate(r, u2, 1),
		c07oUpdate(r, u, 3),
		{kind: "observe", h: 0}, {kind: "observe", h: 1}, {kind: "observe", h: 2}, {kind: "observe", h: 3},
		{kind: "export", h: 1, path: c07oP},
		{kind: "import", h: 0, path: c07oP, bundle: 0, decision: 0},
		c07oUpdate(r, u, 1),
		c07oUpdate(r, u2, 0),
		{kind: "observe", h: 0}, {kind: "observe", h: 1},
	}
	return st
}

func c07oRandomHistory(r *vh.Rng) []c07oStep {
	st := []c07oStep{
		{kind: "openrw", h: 0, path: c07oP},
		{kind: "addkey", h: 0, desc: r.Intn(2), keyA: r.Bytes(32)},
		{kind: "openrw", h: 4, path: c07oQ},
		{kind: "addkey", h: 4, desc: 0, keyA: r.Bytes(32)},
	}
	rw := []int{0, 1, 3, 4}
	for i := 0; i < 12+r.Intn(8); i++ {
		h := rw[r.Intn(4)]
		path := c07oP
		if h == 4 {
			path = c07oQ
		}
		switch r.Intn(14) {
		case 0:
			st = append(st, c07oStep{kind: "openrw", h: h, path: path})
		case 1:
			st = append(st, c07oStep{kind: "openro", h: 2, path: []string{c07oP, c07oQ, "missing"}[r.Intn(3)]})
		case 2:
			st = append(st, c07oStep{kind: "export", h: r.Intn(2), path: []string{c07oP, c07oQ}[r.Intn(2)]})
		case 3:
			st = append(st, c07oStep{kind: "observe", h: r.Intn(5)})
		case 4, 5, 6:
			st = append(st, c07oStep{kind: "addkey", h: h, desc: []int{0, 1, 0, 1, 2, 3, 4}[r.Intn(7)], keyA: r.Bytes(32)})
		case 7, 8:
			st = append(st, c07oStep{kind: "setcurrent", h: h, seq: 1 + r.Intn(4)})
		case 9, 10:
			st = append(st, c07oStep{kind: "setstate", h: h, seq: 1 + r.Intn(3), state: []int{2, 2, 3, 4, 5, 6, 1}[r.Intn(7)]})
		case 11:
			st = append(st, c07oStep{kind: "destroy", h: h, seq: 1 + r.Intn(3)})
		default:
			b := r.Intn(3)
			p := c07oP
			if b == 2 {
				p = c07oQ
			}
			st = append(st, c07oStep{kind: "import", h: r.Intn(2), path: p, bundle: b, decision: []int{0, 0, 0, 1, 2}[r.Intn(5)]})
		}
	}
	st = append(st, c07oStep{kind: "observe", h: 0}, c07oStep{kind: "observe", h: 1}, c07oStep{kind: "observe", h: 3})
	return st
}

// ---------- donor bundles for import ----------

type c07oBundle struct {
	path string
	data []byte
	keys [][3]int // seqnum, state, number of data items
	cur  int
}

type c07oEnv struct {
	encKey, sigKey []byte
	xsuite         *cryptoV2.KeyStoreSuite // export / import transport suite (not recorded)
	bundles        []c07oBundle
}

func c07oRingView(d *asn1.KeyRing) ([][3]int, int) {
	var ks [][3]int
	for _, k := range d.Keys {
		ks = append(ks, [3]int{k.Seqnum, int(k.State), len(k.Data)})
	}
	return ks, d.Current
}

func c07oNewEnv(r *vh.Rng) *c07oEnv {
	env := &c07oEnv{encKey: r.Bytes(32), sigKey: r.Bytes(32)}
	env.xsuite, _ = cryptoV2.NewSCellSuite(r.Bytes(32), r.Bytes(32))
	dsuite, _ := cryptoV2.NewSCellSuite(r.Bytes(32), r.Bytes(32))
	mk := func(donor apiV2.MutableKeyStore, path string, nkeys int, destroyFirst bool, cur int) {
		ring, err := donor.OpenKeyRingRW(path)
		if err != nil {
			return
		}
		for i := 0; i < nkeys; i++ {
			ring.AddKey(apiV2.KeyDescription{Data: []apiV2.KeyData{{Format: apiV2.ThemisSymmetricKeyFormat, SymmetricKey: r.Bytes(32)}}})
		}
		if destroyFirst {
			ring.DestroyKey(1)
		}
		if cur > 0 {
			ring.SetCurrent(cur)
		}
		data, err := donor.ExportKeyRings([]string{path}, env.xsuite, keystore.ExportPrivateKeys)
		if err != nil {
			return
		}
		ks, c := c07oRingView(fsV2.VerifRingData(ring))
		env.bundles = append(env.bundles, c07oBundle{path, data, ks, c})
	}
	vh.StartTape(r)
	defer vh.StopTape()
	// two donors hold a ring of the same path with different content (the second has a destroyed key
	// without data, which import refuses)
	d1, _ := fsV2.CustomKeyStore(backend.NewInMemory(), dsuite)
	d2, _ := fsV2.CustomKeyStore(backend.NewInMemory(), dsuite)
	mk(d1, c07oP, 2, false, 2)
	mk(d2, c07oP, 2, true, 2)
	mk(d2, c07oQ, 1, false, 1)
	d1.Close()
	d2.Close()
	return env
}

// ---------- one run of a history ----------

type c07oStepRes struct {
	kind           string // ok err panic
	vals           [][]byte
	msg            string
	e0, e1, g0, g1 int
	draws          [][]byte // crypto/rand chunks this step drew
	snap           []byte // observe: DER of the snapshot the handle holds
}

type c07oRun struct {
	log     *c07oLog
	be      *c07oBackend
	mem     *backend.InMemory
	res     []c07oStepRes
	handles [5]apiV2.KeyRing
}

func c07oZ8(n int) []byte { return vhks.U64(n) }

func c07oDesc(s c07oStep) apiV2.KeyDescription {
	d := apiV2.KeyDescription{}
	switch s.desc {
	case 0:
		d.Data = []apiV2.KeyData{{Format: apiV2.ThemisSymmetricKeyFormat, SymmetricKey: c07oCp(s.keyA)}}
	case 1:
		priv, pub := core.KeyPair(s.keyA)
		d.Data = []apiV2.KeyData{{Format: apiV2.ThemisKeyPairFormat, PublicKey: pub, PrivateKey: priv}}
	case 2:
		_, pub := core.KeyPair(s.keyA)
		d.Data = []apiV2.KeyData{{Format: apiV2.ThemisKeyPairFormat, PublicKey: pub}}
	case 3:
		d.Data = []apiV2.KeyData{{Format: apiV2.ThemisSymmetricKeyFormat, SymmetricKey: c07oCp(s.keyA)}}
		d.ValidSince = d.ValidSince.AddDate(2000, 0, 0)
	}
	return d
}

// script: the random draws of each step of the untouched run (a changed run replays them step by
// step, so that a step that fails early does not shift the draws of the following steps)
func c07oRunHistory(r *vh.Rng, env *c07oEnv, steps []c07oStep, script [][][]byte, armAt int, arm func(string, []byte) []byte) *c07oRun {
	run := &c07oRun{log: &c07oLog{}, mem: backend.NewInMemory()}
	run.be = &c07oBackend{Backend: run.mem, log: run.log, armAt: armAt, arm: arm}
	var stores [2]apiV2.MutableKeyStore
	for i := range stores {
		suite, _ := cryptoV2.NewSCellSuite(env.encKey, env.sigKey)
		suite.SignatureAlgorithms = []signature.Algorithm{&c07oAlg{inner: suite.SignatureAlgorithms[0], log: run.log}}
		stores[i], _ = fsV2.CustomKeyStore(run.be, suite)
	}
	tape := vhiso.StartScriptTape(r, nil)
	defer vh.StopTape()
	for si, s := range steps {
		s := s
		res := c07oStepRes{e0: len(run.log.evs), g0: run.be.gets}
		tape.Script = nil
		if script != nil {
			tape.Script = append([][]byte{}, script[si]...)
		}
		c0 := len(tape.Chunks)
		var vals [][]byte
		var snap []byte
		o := vh.Guard(func() vh.Outcome {
			var err error
			store := stores[0]
			if s.kind == "export" || s.kind == "import" {
				store = stores[s.h]
			} else {
				store = stores[c07oSlotStore[s.h]]
			}
			needHandle := func() (apiV2.KeyRing, error) {
				if run.handles[s.h] == nil {
					return nil, fmt.Errorf("no handle")
				}
				return run.handles[s.h], nil
			}
			switch s.kind {
			case "openrw":
				var h apiV2.MutableKeyRing
				h, err = store.OpenKeyRingRW(s.path)
				if err == nil {
					run.handles[s.h] = h
				}
			case "openro":
				var h apiV2.KeyRing
				h, err = store.OpenKeyRing(s.path)
				if err == nil {
					run.handles[s.h] = h
				}
			case "export":
				_, err = store.ExportKeyRings([]string{s.path}, env.xsuite, keystore.ExportPrivateKeys)
			case "import":
				_, err = store.ImportKeyRings(env.bundles[s.bundle].data, env.xsuite, c07oDelegate{[]apiV2.ImportDecision{apiV2.ImportOverwrite, apiV2.ImportSkip, apiV2.ImportAbort}[s.decision]})
			case "observe":
				var h apiV2.KeyRing
				if h, err = needHandle(); err == nil {
					d := fsV2.VerifRingData(h)
					if d == nil {
						return vh.Outcome{Kind: "panic", Msg: "handle holds no data"}
					}
					ks, cur := c07oRingView(d)
					vals = append(vals, c07oZ8(cur))
					for _, k := range ks {
						vals = append(vals, c07oZ8(k[0]), []byte{byte(k[1])}, []byte{byte(k[2])})
					}
					snap, _ = encasn1.Marshal(*d)
				}
			default:
				var h apiV2.KeyRing
				if h, err = needHandle(); err != nil {
					break
				}
				m := h.(apiV2.MutableKeyRing)
				switch s.kind {
				case "addkey":
					var q int
					q, err = m.AddKey(c07oDesc(s))
					vals = append(vals, c07oZ8(q))
				case "setcurrent":
					err = m.SetCurrent(s.seq)
				case "setstate":
					err = m.SetState(s.seq, apiV2.KeyState(s.state))
				case "destroy":
					err = m.DestroyKey(s.seq)
				}
			}
			if err != nil {
				return vh.ErrO(err)
			}
			return vh.Ok(vals...)
		})
		res.kind, res.vals, res.msg, res.snap = o.Kind, o.Vals, o.Msg, snap
		res.e1, res.g1 = len(run.log.evs), run.be.gets
		res.draws = append([][]byte{}, tape.Chunks[c0:]...)
		run.res = append(run.res, res)
	}
	return run
}

// ---------- DER positions of a stored key ring file, by class ----------

type c07oPos struct {
	class string
	off   int
	leaf  [2]int // content span of the leaf the offset lies in (for whole-leaf substitutes), else {0,0}
}

func c07oDerWalk(data []byte, base int, path []int, out *[]c07oPos) bool {
	off := 0
	idx := 0
	for off < len(data) {
		if off+2 > len(data) {
			return false
		}
		tag := data[off]
		l := int(data[off+1])
		hdr := 2
		if l&0x80 != 0 {
			nb := l & 0x7f
			if nb == 0 || nb > 3 || off+2+nb > len(data) {
				return false
			}
			l = 0
			for i := 0; i < nb; i++ {
				l = l<<8 | int(data[off+2+i])
			}
			hdr = 2 + nb
		}
		if off+hdr+l > len(data) {
			return false
		}
		p := append(append([]int{}, path...), idx)
		frame, leaf := c07oDerClass(p)
		for i := 0; i < hdr; i++ {
			*out = append(*out, c07oPos{class: frame, off: base + off + i})
		}
		if tag&0x20 != 0 {
			if !c07oDerWalk(data[off+hdr:off+hdr+l], base+off+hdr, p, out) {
				return false
			}
		} else {
			for i := 0; i < l; i++ {
				*out = append(*out, c07oPos{class: leaf, off: base + off + hdr + i, leaf: [2]int{base + off + hdr, base + off + hdr + l}})
			}
		}
		off += hdr + l
		idx++
	}
	return true
}

// class of the header bytes and of the content bytes of the DER node at the given path
// (container = [payload [contentType version lastModified ring[purpose keys[key[seqnum state since
// until data{keydata[format pub/priv/sym]}]] current]] signatures{[oid signature]}])
func c07oDerClass(p []int) (frame, leaf string) {
	switch {
	case len(p) == 1:
		return "frame-container", "frame-container"
	case p[1] == 1:
		switch len(p) {
		case 2, 3:
			return "frame-signatures", "frame-signatures"
		}
		if p[3] == 0 {
			return "frame-signatures", "sig-oid"
		}
		return "frame-signatures", "sig-bytes"
	case len(p) == 2:
		return "frame-payload", "frame-payload"
	case len(p) == 3:
		return "frame-payload", []string{"payload-contenttype", "payload-version", "payload-lastmodified", "frame-ring"}[p[2]%4]
	case len(p) == 4:
		return "frame-ring", []string{"ring-purpose", "frame-keys", "ring-current"}[p[3]%3]
	case len(p) == 5:
		return "frame-keys", "frame-keys"
	case len(p) == 6:
		return "frame-key", []string{"key-seqnum", "key-state", "key-validity", "key-validity", "frame-keydata"}[p[5]%5]
	case len(p) == 7:
		return "frame-keydata", "frame-keydata"
	}
	if p[len(p)-1] == 0 {
		return "frame-keydata", "keydata-format"
	}
	return "frame-keydata", "keydata-bytes"
}

type c07oTamper struct {
	class string
	what  string
	f     func(cur []byte) []byte
}

// one change per class for the file content that the chosen Get returns in the untouched run
func c07oTampers(r *vh.Rng, base []byte, otherRing func() []byte, thorough bool) []c07oTamper {
	var pos []c07oPos
	if !c07oDerWalk(base, 0, nil, &pos) {
		return nil
	}
	by := map[string][]c07oPos{}
	for _, p := range pos {
		by[p.class] = append(by[p.class], p)
	}
	classes := make([]string, 0, len(by))
	for c := range by {
		classes = append(classes, c)
	}
	sort.Strings(classes)
	var out []c07oTamper
	flip := func(class string, p c07oPos, bit uint) {
		out = append(out, c07oTamper{class, fmt.Sprintf("byte %d (%s) ^= 0x%02x", p.off, class, 1<<bit), func(cur []byte) []byte {
			if p.off >= len(cur) {
				return nil
			}
			d := c07oCp(cur)
			d[p.off] ^= 1 << bit
			return d
		}})
	}
	for _, c := range classes {
		ps := by[c]
		k := 1
		if thorough {
			k = 3
		}
		for i := 0; i < k; i++ {
			flip(c, ps[r.Intn(len(ps))], uint(r.Intn(8)))
		}
		// lowest bit of the last byte of a leaf: the smallest change of an integer / enumerated value
		if strings.HasPrefix(c, "key-") || strings.HasPrefix(c, "ring-") || strings.HasPrefix(c, "payload-") {
			flip(c, ps[len(ps)-1], 0)
		}
	}
	// whole leaf of key bytes replaced by other bytes of the same length (e.g. a substituted public key)
	if ps := by["keydata-bytes"]; len(ps) > 0 {
		p := ps[r.Intn(len(ps))]
		sub := r.Bytes(p.leaf[1] - p.leaf[0])
		out = append(out, c07oTamper{"keydata-substitute", fmt.Sprintf("bytes %d..%d (key data) replaced", p.leaf[0], p.leaf[1]), func(cur []byte) []byte {
			if p.leaf[1] > len(cur) {
				return nil
			}
			d := c07oCp(cur)
			copy(d[p.leaf[0]:p.leaf[1]], sub)
			return d
		}})
	}
	out = append(out,
		c07oTamper{"truncate", "last byte dropped", func(cur []byte) []byte { return c07oCp(cur[:len(cur)-1]) }},
		c07oTamper{"extend", "one byte appended", func(cur []byte) []byte { return append(c07oCp(cur), 0) }},
		c07oTamper{"other-ring-file", "file of the other ring stored in its place", func(cur []byte) []byte { return otherRing() }},
	)
	return out
}

// ---------- scenario: baseline + changed runs, oracle, model terms ----------

func c07oParsePayload(payload []byte) (*asn1.KeyRing, bool) {
	var vp asn1.VerifiedPayload
	rest, err := encasn1.Unmarshal(payload, &vp)
	if err != nil || len(rest) != 0 || vp.ContentType != asn1.TypeKeyRing || vp.Version != asn1.KeyRingVersion2 {
		return nil, false
	}
	ring, err := asn1.UnmarshalKeyRing(vp.Data.FullBytes)
	if err != nil {
		return nil, false
	}
	return ring, true
}

func c07oRingDER(file []byte) []byte {
	cont, err := asn1.UnmarshalVerifiedContainer(file)
	if err != nil {
		return nil
	}
	return cont.Payload.Data.FullBytes
}

func c07oHist(steps []c07oStep) string {
	parts := make([]string, len(steps))
	for i, s := range steps {
		parts[i] = fmt.Sprintf("%d:%s", i, s)
	}
	return strings.Join(parts, "; ")
}

func c07oRingOf(file string) string {
	suffix := fsV2.VerifKeyringSuffix()
	file = strings.TrimSuffix(file, fsV2.VerifNewSuffix)
	return strings.TrimSuffix(file, suffix)
}

type c07oPut struct {
	ring string
	der  []byte
	ev   int
}

func c07oPuts(run *c07oRun) []c07oPut {
	var out []c07oPut
	for i, e := range run.log.evs {
		if e.kind == "put" {
			out = append(out, c07oPut{c07oRingOf(e.path), c07oRingDER(e.data), i})
		}
	}
	return out
}

// oracle over one run; fired == nil for the untouched run
func c07oOracle(rep *vh.Report, env *c07oEnv, steps []c07oStep, run, baseRun *c07oRun, tam *c07oTamper, label string) {
	suffix := fsV2.VerifKeyringSuffix()
	fired := run.be.fired
	replay := func(extra string) string {
		s := "keys enc=" + fmt.Sprintf("%x", env.encKey) + " sig=" + fmt.Sprintf("%x", env.sigKey) + "; history: " + c07oHist(steps)
		if fired != nil {
			s += fmt.Sprintf("; at the Get #%d of the history (file %s) the stored file was changed: %s; before=%x after=%x", run.be.armAt, fired.path, tam.what, fired.before, fired.after)
		}
		return s + "; " + extra
	}
	// (1) every Get of a ring file is followed by Verify calls over exactly the bytes returned
	evs := run.log.evs
	for i, e := range evs {
		if e.kind != "get" || e.failed || !strings.HasSuffix(e.path, suffix) {
			continue
		}
		rep.OracleChecks++
		cont, err := asn1.UnmarshalVerifiedContainer(e.data)
		if err != nil {
			continue
		}
		known := 0
		for _, sg := range cont.Signatures {
			if sg.Algorithm.Equal(asn1.Sha256OID) {
				known++
			}
		}
		if known == 0 {
			continue
		}
		ctx := fsV2.VerifSignatureContext(strings.TrimSuffix(e.path, suffix))
		if i+1 >= len(evs) || evs[i+1].kind != "check" || !bytes.Equal(evs[i+1].data, cont.Payload.RawContent) || !bytes.Equal(evs[i+1].ctx, ctx) {
			next := "nothing"
			if i+1 < len(evs) {
				next = evs[i+1].kind
			}
			rep.Violate("v2-read-not-verified", fmt.Sprintf("[%s] Get(%s) returned %d bytes of a signed key ring and the next action of the key store is %s, not a signature check of exactly these bytes", label, e.path, len(e.data), next), replay(fmt.Sprintf("event %d", i)))
			break
		}
	}
	// genuine content per ring: what the key store itself stored (before the change)
	genuine := map[string][][]byte{}
	puts := c07oPuts(run)
	firedRing := ""
	if fired != nil {
		firedRing = c07oRingOf(fired.path)
	}
	pi := 0
	failingStep := -1
	for si, s := range steps {
		res := run.res[si]
		for pi < len(puts) && puts[pi].ev < res.e1 {
			p := puts[pi]
			pi++
			if fired != nil && p.ev >= fired.atEvent && p.ring == firedRing {
				rep.OracleChecks++
				rep.Violate("v2-open-tamper-resigned", fmt.Sprintf("[%s] step %d %s wrote key ring %q after its stored file had been changed: content derived from unverified bytes was signed by the key store", label, si, s, p.ring), replay(fmt.Sprintf("Put event %d", p.ev)))
				continue
			}
			genuine[p.ring] = append(genuine[p.ring], p.der)
		}
		if fired == nil {
			continue
		}
		readsFired := false
		for _, e := range evs[res.e0:res.e1] {
			if e.kind == "get" && e.path == fired.path && bytes.Equal(e.data, fired.after) {
				readsFired = true
			}
		}
		if readsFired {
			rep.OracleChecks++
			rep.Count("tampered-read:" + s.kind)
			if failingStep < 0 {
				failingStep = si
			}
			if res.kind != "err" {
				rep.Violate("v2-open-tamper-accepted", fmt.Sprintf("[%s] step %d %s read the changed file of key ring %q (%s) and did not fail: %s", label, si, s, firedRing, tam.what, res.kind), replay(fmt.Sprintf("result of step %d: %s %s", si, res.kind, res.msg)))
			}
		}
	}
	// (2) snapshots shown by handles are content the key store stored itself
	seen := map[string][][]byte{}
	pi = 0
	for si, s := range steps {
		res := run.res[si]
		for pi < len(puts) && puts[pi].ev < res.e1 {
			if !(fired != nil && puts[pi].ev >= fired.atEvent && puts[pi].ring == firedRing) {
				seen[puts[pi].ring] = append(seen[puts[pi].ring], puts[pi].der)
			}
			pi++
		}
		if s.kind != "observe" || res.kind != "ok" {
			if s.kind == "observe" && res.kind == "panic" {
				rep.Violate("v2-open-handle-broken", fmt.Sprintf("[%s] step %d %s: %s", label, si, s, res.msg), replay(""))
			}
			continue
		}
		rep.OracleChecks++
		ok := false
		for _, ring := range []string{c07oP, c07oQ, "missing"} {
			for _, g := range seen[ring] {
				ok = ok || bytes.Equal(g, res.snap)
			}
		}
		if !ok {
			rep.Violate("v2-open-handle-shows-unsigned-content", fmt.Sprintf("[%s] step %d %s: the handle holds key ring content that the key store never stored (DER %x)", label, si, s, res.snap), replay(""))
		}
	}
	// (3) writes equal those of the untouched run (minus the updates that must fail)
	if fired != nil {
		rep.OracleChecks++
		var want []c07oPut
		for _, p := range c07oPuts(baseRun) {
			if p.ring == firedRing && p.ev >= fired.atEvent {
				continue
			}
			want = append(want, p)
		}
		var got []c07oPut
		for _, p := range puts {
			if p.ring == firedRing && p.ev >= fired.atEvent {
				continue // reported above
			}
			got = append(got, p)
		}
		same := len(want) == len(got)
		for i := 0; same && i < len(want); i++ {
			same = want[i].ring == got[i].ring && bytes.Equal(want[i].der, got[i].der)
		}
		if !same {
			rep.Violate("v2-open-tamper-write-differs", fmt.Sprintf("[%s] the key rings written differ from those of the untouched run (%d vs %d writes outside the changed ring's failed updates)", label, len(got), len(want)), replay(""))
		}
		// (4) a fresh key store must not load the changed ring
		rep.OracleChecks++
		fresh := backend.NewInMemory()
		paths, _ := run.mem.ListAll()
		for _, p := range paths {
			d, _ := run.mem.Get(p)
			fresh.Put(p, c07oCp(d))
		}
		suite, _ := cryptoV2.NewSCellSuite(env.encKey, env.sigKey)
		ks, _ := fsV2.CustomKeyStore(fresh, suite)
		var ring apiV2.KeyRing
		var err error
		o := vh.Guard(func() vh.Outcome { ring, err = ks.OpenKeyRing(firedRing); return vh.Ok() })
		if o.Kind == "ok" && err == nil {
			der, _ := encasn1.Marshal(*fsV2.VerifRingData(ring))
			was := false
			for _, g := range genuine[firedRing] {
				was = was || bytes.Equal(g, der)
			}
			now, _ := run.mem.Get(fired.path)
			rep.Violate("v2-open-tamper-loads-as-genuine", fmt.Sprintf("[%s] after the history a fresh key store loads key ring %q; its content was stored by the key store before the change: %v; ring DER now %x", label, firedRing, was, der), replay(fmt.Sprintf("stored file at the end: %x", now)))
		}
		ks.Close()
		if failingStep < 0 {
			rep.Count("tamper-never-read-again")
		}
	}
}

// Coq term of a byte string: short ones as one literal, long ones chunked
func c07oH(b []byte) string {
	if len(b) <= 48 {
		return vh.H(b)
	}
	var parts []string
	for i := 0; i < len(b); i += 32 {
		j := i + 32
		if j > len(b) {
			j = len(b)
		}
		parts = append(parts, fmt.Sprintf("0x1%x", b[i:j]))
	}
	return "(hbs [" + strings.Join(parts, "; ") + "])"
}

func c07oZ(n int) string {
	if n < 0 {
		return fmt.Sprintf("(%d)", n)
	}
	return fmt.Sprintf("%d", n)
}

func c07oKeysCoq(ks [][3]int) (string, bool) {
	parts := make([]string, len(ks))
	for i, k := range ks {
		if k[1] < 0 || k[1] > 255 || k[2] < 0 || k[2] > 255 {
			return "", false
		}
		parts[i] = fmt.Sprintf("mk_vkey %s %d %d", c07oZ(k[0]), k[1], k[2])
	}
	return "[" + strings.Join(parts, "; ") + "]", true
}

type c07oTab struct {
	idx  map[string]int
	list [][]byte
}

func (t *c07oTab) of(payload []byte) int {
	if i, ok := t.idx[string(payload)]; ok {
		return i
	}
	t.idx[string(payload)] = len(t.list)
	t.list = append(t.list, c07oCp(payload))
	return len(t.list) - 1
}

func c07oSigPairs(sigs []asn1.Signature) [][2][]byte {
	var out [][2][]byte
	for _, sg := range sigs {
		out = append(out, [2][]byte{[]byte(sg.Algorithm.String()), sg.Signature})
	}
	return out
}

func c07oSigVals(ps [][2][]byte) [][]byte {
	out := [][]byte{vhks.U64(len(ps))}
	for _, p := range ps {
		out = append(out, p[0], p[1])
	}
	return out
}

// model term + expected observation of one run
func c07oEmit(rep *vh.Report, env *c07oEnv, steps []c07oStep, run *c07oRun, label string) {
	suffix := fsV2.VerifKeyringSuffix()
	tab := &c07oTab{idx: map[string]int{}}
	idxB := func(payload []byte) []byte { return vhks.U64(tab.of(payload)) }
	var exp [][]byte
	var enc []string
	var ops []string
	bad := false
	for si, s := range steps {
		res := run.res[si]
		if f := run.be.fired; f != nil && run.be.armAt >= res.g0 && run.be.armAt < res.g1 {
			ring := c07oRingOf(f.path)
			if cont, err := asn1.UnmarshalVerifiedContainer(f.after); err == nil {
				ops = append(ops, fmt.Sprintf("HArm %d %s %d %s", run.be.armAt-res.g0, vh.H([]byte(ring)), tab.of(cont.Payload.RawContent), vhks.CoqPairs(c07oSigPairs(cont.Signatures))))
			} else {
				ops = append(ops, fmt.Sprintf("HArmGarbage %d %s", run.be.armAt-res.g0, vh.H([]byte(ring))))
			}
			exp = append(exp, []byte{0}, vhks.U64(0), vhks.U64(0))
		}
		p := vh.H([]byte(s.path))
		switch s.kind {
		case "openrw":
			ops = append(ops, fmt.Sprintf("HOp (ROpenRW %d %s)", s.h, p))
		case "openro":
			ops = append(ops, fmt.Sprintf("HOp (ROpenRO %d %s)", s.h, p))
		case "export":
			ops = append(ops, fmt.Sprintf("HOp (RExport %s)", p))
		case "observe":
			ops = append(ops, fmt.Sprintf("HOp (RObserve %d)", s.h))
		case "addkey":
			nd := 1
			if s.desc == 4 {
				nd = 0
			}
			ops = append(ops, fmt.Sprintf("HOp (RAddKey %d %s %d)", s.h, vhks.CoqBool(s.desc != 3), nd))
		case "setcurrent":
			ops = append(ops, fmt.Sprintf("HOp (RSetCurrent %d %s)", s.h, c07oZ(s.seq)))
		case "setstate":
			ops = append(ops, fmt.Sprintf("HOp (RSetState %d %s %d)", s.h, c07oZ(s.seq), s.state))
		case "destroy":
			ops = append(ops, fmt.Sprintf("HOp (RDestroy %d %s)", s.h, c07oZ(s.seq)))
		case "import":
			b := env.bundles[s.bundle]
			ks, _ := c07oKeysCoq(b.keys)
			ops = append(ops, fmt.Sprintf("HOp (RImport %s %s %s %d)", vh.H([]byte(b.path)), ks, c07oZ(b.cur), s.decision))
		}
		switch res.kind {
		case "ok":
			exp = append(exp, []byte{0}, vhks.U64(len(res.vals)))
			exp = append(exp, res.vals...)
		case "err":
			exp = append(exp, []byte{1})
		default:
			exp = append(exp, []byte{2})
		}
		var evv [][]byte
		nev := 0
		evs := run.log.evs[res.e0:res.e1]
		for i := 0; i < len(evs); i++ {
			e := evs[i]
			switch e.kind {
			case "get":
				ring := []byte(strings.TrimSuffix(e.path, suffix))
				if !strings.HasSuffix(e.path, suffix) {
					bad = true
				}
				nev++
				if e.notExist {
					evv = append(evv, []byte{0x10}, ring, []byte{0})
				} else if cont, err := asn1.UnmarshalVerifiedContainer(e.data); err != nil {
					evv = append(evv, []byte{0x10}, ring, []byte{1})
				} else {
					evv = append(evv, []byte{0x10}, ring, []byte{2}, idxB(cont.Payload.RawContent))
					evv = append(evv, c07oSigVals(c07oSigPairs(cont.Signatures))...)
				}
			case "check":
				nev++
				fl := byte(0)
				if e.ok {
					fl = 1
				}
				evv = append(evv, []byte{0x11}, e.ctx, idxB(e.data), e.sig, []byte{fl})
			case "sign":
				nev++
				enc = append(enc, fmt.Sprintf("%d", tab.of(e.data)))
				evv = append(evv, []byte{0x12}, e.ctx, idxB(e.data), e.sig)
			case "put":
				// Put(<ring>.keyring.new) immediately renamed to <ring>.keyring = one EPut
				ring := c07oRingOf(e.path)
				cont, err := asn1.UnmarshalVerifiedContainer(e.data)
				if e.failed || err != nil || i+1 >= len(evs) || evs[i+1].kind != "rename" || evs[i+1].failed ||
					e.path != ring+suffix+fsV2.VerifNewSuffix || evs[i+1].path != e.path || evs[i+1].to != ring+suffix {
					bad = true
					continue
				}
				i++
				nev++
				evv = append(evv, []byte{0x13}, []byte(ring), idxB(cont.Payload.RawContent))
				evv = append(evv, c07oSigVals(c07oSigPairs(cont.Signatures))...)
			default:
				bad = true
			}
		}
		exp = append(exp, vhks.U64(nev))
		exp = append(exp, evv...)
	}
	if bad {
		// a back-end call pattern the model does not know: make the replay disagree visibly
		exp = append(exp, []byte("unmodelled back-end call"))
	}
	var tabS []string
	for _, pl := range tab.list {
		view := "None"
		if ring, ok := c07oParsePayload(pl); ok {
			ks, cur := c07oRingView(ring)
			if s, ok := c07oKeysCoq(ks); ok {
				view = fmt.Sprintf("(Some (mk_ringv %s %s))", s, c07oZ(cur))
			}
		}
		tabS = append(tabS, "("+c07oH(pl)+", "+view+")")
	}
	term := fmt.Sprintf("RingHist %s [%s] [%s] [%s]", vh.H(env.sigKey), strings.Join(tabS, "; "), strings.Join(enc, "; "), strings.Join(ops, "; "))
	rep.Add(fmt.Sprintf("%s (%d steps)", label, len(steps)), term, vh.Ok(exp...))
}

func c07oScenario(rep *vh.Report, r *vh.Rng, steps []c07oStep, kind string, thorough bool) {
	env := c07oNewEnv(r)
	if len(env.bundles) != 3 {
		rep.Violate("harness", "donor bundles could not be built", "")
		return
	}
	rep.Count("scenario:" + kind)
	base := c07oRunHistory(r, env, steps, nil, -1, nil)
	c07oOracle(rep, env, steps, base, base, nil, kind+" untouched")
	c07oEmit(rep, env, steps, base, kind+" untouched")
	suffix := fsV2.VerifKeyringSuffix()
	// the Gets of the untouched run that return a ring file, with the step they belong to
	type getAt struct {
		k, step int
		path    string
		data    []byte
	}
	var gets []getAt
	k := 0
	for si := range steps {
		for _, e := range base.log.evs[base.res[si].e0:base.res[si].e1] {
			if e.kind == "get" {
				if !e.failed && strings.HasSuffix(e.path, suffix) {
					gets = append(gets, getAt{k, si, e.path, e.data})
				}
				k++
			}
		}
	}
	script := make([][][]byte, len(steps))
	for si := range steps {
		script[si] = base.res[si].draws
	}
	emitted := 7
	for _, g := range gets {
		other := c07oQ
		if c07oRingOf(g.path) == c07oQ {
			other = c07oP
		}
		var run *c07oRun
		otherRing := func() []byte {
			d, err := run.mem.Get(other + suffix)
			if err != nil {
				return nil
			}
			return c07oCp(d)
		}
		tams := c07oTampers(r, g.data, otherRing, thorough)
		for ti := range tams {
			tam := tams[ti]
			run = c07oRunHistory(r, env, steps, script, g.k, func(path string, cur []byte) []byte { return tam.f(cur) })
			if run.be.fired == nil {
				rep.Count("tamper-noop")
				continue
			}
			rep.Count("tamper:" + tam.class)
			rep.Count("tamper-at:" + steps[g.step].kind)
			label := fmt.Sprintf("%s changed at Get#%d in step %d %s: %s", kind, g.k, g.step, steps[g.step], tam.what)
			c07oOracle(rep, env, steps, run, base, &tam, label)
			// a rotating sample of the changed runs is replayed on the model (all classes over the Gets)
			every := 61
			if thorough {
				every = 17
			}
			if emitted%every == 0 {
				// the prefix up to the change equals the untouched run (replayed in full above): the
				// changed run is replayed up to a few steps after the operation that read the change
				cut := g.step + 5
				if cut > len(steps) || thorough {
					cut = len(steps)
				}
				c07oEmit(rep, env, steps[:cut], run, label)
			}
			emitted++
		}
	}
	_ = emitted
}

// ---------- keystore v1: a key file changed / swapped underneath an OPEN key store ----------

type c07oV1Kind struct{ coq, hook, get string }

var c07oV1Kinds = []c07oV1Kind{{"KStorageSym", "storage_sym", "GetSym"}, {"KHmac", "hmac", "GetHmac"}, {"KStoragePriv", "storage", "GetPriv"}}

// one scenario = one open key store (recording storage + recording cache), keys of two clients,
// optionally warmed cache, ONE adversary write to a stored private key file, then reads of that key
// through the same store with the cache as it is, after Reset, and through a second store object.
func c07oV1(rep *vh.Report, r *vh.Rng, thorough bool) {
	ids := []string{goodIDs[0], goodIDs[1]}
	type tamper struct {
		class string
		f     func(cur []byte, m *vhks.MemFS, kind c07oV1Kind, id string) []byte
	}
	flipAt := func(class string, pos func(n int) int) tamper {
		return tamper{class, func(cur []byte, m *vhks.MemFS, kind c07oV1Kind, id string) []byte {
			d := c07oCp(cur)
			d[pos(len(d))] ^= 1 << uint(r.Intn(8))
			return d
		}}
	}
	tampers := []tamper{
		flipAt("flip-header", func(n int) int { return r.Intn(16) }),
		flipAt("flip-nonce-tag", func(n int) int { return 16 + r.Intn(28) }),
		flipAt("flip-ciphertext", func(n int) int { return 44 + r.Intn(n-44) }),
		flipAt("flip-last", func(n int) int { return n - 1 }),
		{"truncate", func(cur []byte, m *vhks.MemFS, kind c07oV1Kind, id string) []byte { return c07oCp(cur[:len(cur)-1]) }},
		{"swap-other-owner", func(cur []byte, m *vhks.MemFS, kind c07oV1Kind, id string) []byte {
			other := ids[0]
			if id == other {
				other = ids[1]
			}
			return c07oCp(m.Peek(v1Dir + "/" + filesystem.VerifFilename(kind.hook, []byte(other))))
		}},
		{"swap-other-purpose", func(cur []byte, m *vhks.MemFS, kind c07oV1Kind, id string) []byte {
			k2 := c07oV1Kinds[0]
			if kind.hook == k2.hook {
				k2 = c07oV1Kinds[1]
			}
			return c07oCp(m.Peek(v1Dir + "/" + filesystem.VerifFilename(k2.hook, []byte(id))))
		}},
	}
	for _, tam := range tampers {
		for _, warm := range []bool{false, true} {
			if !thorough && r.Intn(3) == 0 {
				continue
			}
			kind := c07oV1Kinds[r.Intn(len(c07oV1Kinds))]
			id := ids[r.Intn(2)]
			c07oV1Run(rep, r, ids, kind, id, warm, tam.class, tam.f)
		}
	}
}

func c07oV1Run(rep *vh.Report, r *vh.Rng, ids []string, kind c07oV1Kind, id string, warm bool, class string,
	tf func(cur []byte, m *vhks.MemFS, kind c07oV1Kind, id string) []byte) {
	master := r.Bytes(32)
	m := vhks.NewMemFS()
	rig, err := newV1Rig(r, master, m, 1000)
	if err != nil {
		return
	}
	defer vh.StopTape()
	cacheKey := rig.tape.Chunks[0]
	orig := map[string][]byte{} // kind/id -> key value
	var coqOps, hist []string
	var vals [][]byte
	writesAfter := 0
	poked := false
	var secrets [][2][]byte // id, value
	do := func(coq string, f func() ([]byte, error)) vh.Outcome {
		e0, c0 := len(m.Events), len(rig.cache.Adds)
		o := vh.Guard(func() vh.Outcome {
			v, err := f()
			if err != nil {
				return vh.ErrO(err)
			}
			return vh.Ok(c07oCp(v))
		})
		coqOps = append(coqOps, "(K1 ("+coq+"))")
		hist = append(hist, coq+" => "+o.Kind)
		st, val := byte(0), []byte{}
		if o.Kind == "err" {
			st = 1
		} else if o.Kind == "panic" {
			st = 2
			rep.Violate("panic", "v1 key store operation panicked: "+o.Msg, strings.Join(hist, "; "))
		} else if len(o.Vals) > 0 {
			val = o.Vals[0]
		}
		var evs [][]byte
		nev := 0
		for _, e := range m.Events[e0:] {
			if e.Op == "write" {
				evs = append(evs, []byte{0}, []byte(vhks.FinalPath(e.Path)), e.Data)
				nev++
				if poked {
					writesAfter++
					// nothing derived from the changed bytes is written back: a file written after the change
					// is a seal, under the master key and its owner, of a key this store generated
					rep.OracleChecks++
					okSealed := strings.HasSuffix(vhks.FinalPath(e.Path), ".pub")
					for _, s := range secrets {
						if pt, ok := core.SealDec(master, s[0], e.Data); ok && bytes.Equal(pt, s[1]) {
							okSealed = true
						}
					}
					if !okSealed {
						rep.Violate("v1-open-tamper-written-back", fmt.Sprintf("after a stored key file was changed the key store wrote %s with content that is not a seal of one of its own keys", e.Path), strings.Join(hist, "; "))
					}
				}
			}
		}
		for _, c := range rig.cache.Adds[c0:] {
			evs = append(evs, []byte{1}, []byte(c.Name), c.Data)
			nev++
		}
		vals = append(vals, []byte{st}, val, vhks.U64(nev))
		vals = append(vals, evs...)
		return o
	}
	gen := func(k c07oV1Kind, id string) {
		t0 := len(rig.tape.Chunks)
		idb := []byte(id)
		var o vh.Outcome
		switch k.hook {
		case "storage_sym":
			o = do("GenSym "+vh.H(idb), func() ([]byte, error) { return nil, rig.ks.GenerateClientIDSymmetricKey(idb) })
		case "hmac":
			o = do("GenHmac "+vh.H(idb), func() ([]byte, error) { return nil, rig.ks.GenerateHmacKey(idb) })
		default:
			o = do("GenPair "+vh.H(idb), func() ([]byte, error) { return nil, rig.ks.GenerateDataEncryptionKeys(idb) })
		}
		if o.Kind == "ok" && len(rig.tape.Chunks) > t0 {
			v := rig.tape.Chunks[t0]
			if k.hook == "storage" {
				v, _ = core.KeyPair(v)
			}
			orig[k.hook+"/"+id] = v
			secrets = append(secrets, [2][]byte{idb, v})
		}
	}
	get := func(ks *filesystem.KeyStore, k c07oV1Kind, id string, record bool) ([]byte, error) {
		idb := []byte(id)
		f := func() ([]byte, error) { return v1Load(ks, k.hook, idb) }
		if !record {
			return f()
		}
		var out []byte
		var err error
		o := do(k.get+" "+vh.H(idb), func() ([]byte, error) { out, err = f(); return out, err })
		if o.Kind == "panic" {
			return nil, fmt.Errorf("panic")
		}
		return out, err
	}
	for _, i := range ids {
		for _, k := range c07oV1Kinds {
			gen(k, i)
		}
	}
	if warm {
		for _, k := range c07oV1Kinds {
			get(rig.ks, k, id, true)
		}
	}
	// the adversary's write
	path := v1Dir + "/" + filesystem.VerifFilename(kind.hook, []byte(id))
	cur := m.Peek(path)
	if cur == nil || len(cur) < 48 {
		return
	}
	nw := tf(c07oCp(cur), m, kind, id)
	if nw == nil || bytes.Equal(nw, cur) {
		return
	}
	m.Poke(path, nw)
	poked = true
	coqOps = append(coqOps, fmt.Sprintf("(K1Poke %s %s %s)", kind.coq, vh.H([]byte(id)), c07oH(nw)))
	hist = append(hist, fmt.Sprintf("file %s changed (%s): %x -> %x", path, class, cur, nw))
	vals = append(vals, []byte{0}, []byte{}, vhks.U64(0))
	rep.Count("v1-open-tamper:" + class)
	want := orig[kind.hook+"/"+id]
	check := func(where string, v []byte, err error, cold bool) {
		rep.OracleChecks++
		if err != nil {
			return
		}
		switch {
		case bytes.Equal(v, want) && !cold:
			rep.Count("v1-open-served-from-cache")
		case class == "swap-other-purpose":
			rep.Violate("v1-purpose-not-bound", fmt.Sprintf("%s of %q returns the key of another purpose of the same client after the files were swapped under the open store (%s)", kind.get, id, where), strings.Join(hist, "; "))
		default:
			rep.Violate("v1-open-tamper-served", fmt.Sprintf("%s of %q (%s) returned %x after its stored file was changed (%s); the key generated was %x", kind.get, id, where, v, class, want), strings.Join(hist, "; "))
		}
	}
	v, err := get(rig.ks, kind, id, true)
	check("open store, cache as it was", v, err, false)
	for _, k := range c07oV1Kinds { // the other keys of the client are untouched
		if k.hook != kind.hook {
			get(rig.ks, k, id, true)
		}
	}
	do("ResetCache", func() ([]byte, error) { rig.ks.Reset(); return nil, nil })
	v, err = get(rig.ks, kind, id, true)
	check("open store after Reset", v, err, true)
	v, err = get(rig.ks, kind, id, true)
	check("open store, second read after Reset", v, err, true)
	vh.StopTape()
	tape := rig.tape.Chunks[1:]
	op := fmt.Sprintf("V1Open %s %s %s %s [%s]", vh.H(master), vh.H(cacheKey), vh.H([]byte(v1Dir)), vh.HL(tape), strings.Join(coqOps, "; "))
	rep.Add("v1open "+class+" "+kind.hook, op, vh.Ok(vals...))
	// a second key store object over the same storage (another process): cold by construction
	rig2, err2 := newV1Rig(r, master, m, 1000)
	if err2 == nil {
		v, err = get(rig2.ks, kind, id, false)
		vh.StopTape()
		check("second key store object", v, err, true)
	}
}
