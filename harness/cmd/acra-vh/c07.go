package main

// Domain c07: keys at rest are encrypted, bound to their owner, tamper-evident and confined.
// Real code under test: path/filepath (model validation), DirectoryBackend.osPath and the directory
// backend on a deep sandbox, keystore v1 on a recording in-memory Storage + recording cache,
// keystore v2 on a recording in-memory backend.

import (
	"bytes"
	"fmt"
	"os"
	"path/filepath"
	"strings"

	"acra-vh/vh"
	"acra-vh/vhks"

	"github.com/cossacklabs/acra/keystore"
	"github.com/cossacklabs/acra/keystore/filesystem"
	keystoreV2 "github.com/cossacklabs/acra/keystore/v2/keystore"
	"github.com/cossacklabs/acra/keystore/v2/keystore/asn1"
	cryptoV2 "github.com/cossacklabs/acra/keystore/v2/keystore/crypto"
	fsV2 "github.com/cossacklabs/acra/keystore/v2/keystore/filesystem"
	"github.com/cossacklabs/acra/keystore/v2/keystore/filesystem/backend"
	"github.com/cossacklabs/acra/keystore/v2/keystore/signature"
	"github.com/cossacklabs/themis/gothemis/core"
)

func init() { register("c07", "Model.RunKeystore", runC07) }

const v1Dir = "/ks/private"

var pathComps = []string{"", ".", "..", "a", "b1", "ks", "x.y", "...", "..a", "c\\d", "client", "storage"}
var hostileIDs = []string{"../../outside", "..", "a/b/../../../x", "../x", "../../etc/cron.d/x", "aaaaa/../../b", "", "abc", "x\\..\\y", "/etc/passwd", "ok/../..", "idé-unicode", ".....", "a..b.", "clie/nt"}
var goodIDs = []string{"client_1", "client-two", "Client 3", "zzzzz", "client_1x"}

func genPath(r *vh.Rng) string {
	n := r.Intn(6)
	parts := make([]string, n)
	for i := range parts {
		parts[i] = pathComps[r.Intn(len(pathComps))]
	}
	p := strings.Join(parts, "/")
	if r.Intn(3) == 0 {
		p = "/" + p
	}
	return p
}

func genID(rep *vh.Report, r *vh.Rng) string {
	if r.Intn(4) == 0 {
		rep.Count("id:hostile")
		return hostileIDs[r.Intn(len(hostileIDs))]
	}
	rep.Count("id:valid")
	return goodIDs[r.Intn(len(goodIDs))]
}

func under(root, full string) bool {
	root = filepath.Clean(root)
	rel, err := filepath.Rel(root, full)
	return err == nil && rel != "." && rel != ".." && !strings.HasPrefix(rel, "../")
}

func runC07(rep *vh.Report, r *vh.Rng, n int, thorough bool) {
	c07Paths(rep, r, n*4)
	c07Sandbox(rep, r, 6+n/20)
	for i := 0; i < n; i++ {
		c07V1History(rep, r, thorough)
	}
	for i := 0; i < 1+n/10; i++ {
		c07V2(rep, r, thorough)
	}
}

// ---------- lexical path model vs. path/filepath; osPath; ValidateID; v1 name builders ----------
func c07Paths(rep *vh.Report, r *vh.Rng, n int) {
	roots := []string{"/ks", "/", "/a/b/ks", "/ks/", "/ks/../k2", "ks", ".", "", "../rel", "/ks//x/."}
	kinds := []struct{ coq, hook string }{{"KStoragePriv", "storage"}, {"KStoragePub", "storage_pub"}, {"KStorageSym", "storage_sym"}, {"KHmac", "hmac"}}
	for i := 0; i < n; i++ {
		p, q := genPath(r), genPath(r)
		switch r.Intn(6) {
		case 0:
			rep.Add("clean "+p, "PClean "+vh.H([]byte(p)), vh.Ok([]byte(filepath.Clean(p))))
			// oracle (of the validation itself): Clean is idempotent and a rooted result has no ".."
			c := filepath.Clean(p)
			rep.OracleChecks++
			if filepath.Clean(c) != c || (strings.HasPrefix(c, "/") && strings.Contains(c+"/", "/../")) {
				rep.Violate("filepath-clean", "filepath.Clean not idempotent or leaves ..", p)
			}
		case 1:
			rep.Add("join "+p+" "+q, fmt.Sprintf("PJoin %s %s", vh.H([]byte(p)), vh.H([]byte(q))), vh.Ok([]byte(filepath.Join(p, q))))
		case 2:
			rep.Add("dir "+p, "PDir "+vh.H([]byte(p)), vh.Ok([]byte(filepath.Dir(p))))
		case 3, 4:
			root := roots[r.Intn(len(roots))]
			kp := q
			if r.Bool() {
				kp = strings.TrimPrefix(q, "/")
			}
			o := vh.Guard(func() vh.Outcome {
				full, err := backend.VerifOsPath(root, kp)
				if err != nil {
					return vh.ErrO(err)
				}
				return vh.Ok([]byte(full))
			})
			rep.Add("ospath "+root+" "+kp, fmt.Sprintf("POsPath %s %s", vh.H([]byte(root)), vh.H([]byte(kp))), o)
			rep.Count("ospath:" + o.Kind)
			rep.OracleChecks++
			if o.Kind == "ok" && root != "" && !under(root, string(o.Vals[0])) {
				rep.Violate("v2-ospath-escape", fmt.Sprintf("osPath(root=%q, path=%q) = %q is not strictly below the root", root, kp, o.Vals[0]), fmt.Sprintf("backend.VerifOsPath(%q,%q)", root, kp))
			}
			if o.Kind == "panic" {
				rep.Violate("panic", "osPath panicked: "+o.Msg, kp)
			}
		case 5:
			id := genID(rep, r)
			if r.Intn(3) == 0 {
				id = string(r.Bytes(1+r.Intn(8))) + id
			}
			ok := keystore.ValidateID([]byte(id))
			fl := []byte{0}
			if ok {
				fl[0] = 1
			}
			rep.Add("validate "+id, "PValidate "+vh.H([]byte(id)), vh.Ok(fl))
			k := kinds[r.Intn(len(kinds))]
			name := filesystem.VerifFilename(k.hook, []byte(id))
			raw := v1Dir + string(os.PathSeparator) + name
			rep.Add("v1path "+id, fmt.Sprintf("PV1Path %s %s %s", vh.H([]byte(v1Dir)), k.coq, vh.H([]byte(id))), vh.Ok([]byte(raw)))
			rep.OracleChecks++
			if ok && !under(v1Dir, filepath.Clean(raw)) {
				rep.Violate("v1-validated-id-escapes", "a validated id builds a path outside the key directory", raw)
			}
		}
	}
}

// ---------- real directory backend in a deep sandbox whose parents are scanned ----------
func c07Sandbox(rep *vh.Report, r *vh.Rng, n int) {
	top, err := os.MkdirTemp("", "vhsb")
	if err != nil {
		return
	}
	defer os.RemoveAll(top)
	for i := 0; i < n; i++ {
		base := filepath.Join(top, fmt.Sprintf("s%d", i))
		root := filepath.Join(base, "a", "b", "c", "d", "ks")
		os.MkdirAll(filepath.Dir(root), 0o700)
		be, err := backend.CreateDirectoryBackend(root)
		if err != nil {
			continue
		}
		hist := []string{}
		for j := 0; j < 8; j++ {
			p := strings.TrimPrefix(genPath(r), "/")
			if r.Intn(3) == 0 {
				p = []string{"../escaped", "..\\escaped", "a/../../escaped", "../../../x/y", "client/../../..", ".."}[r.Intn(6)]
			}
			switch r.Intn(4) {
			case 0, 1:
				e := be.Put(p, []byte("DATA"))
				hist = append(hist, fmt.Sprintf("Put(%q)=%v", p, e))
			case 2:
				_, e := be.Get(p)
				hist = append(hist, fmt.Sprintf("Get(%q)=%v", p, e))
			case 3:
				q := strings.TrimPrefix(genPath(r), "/")
				be.Put("inside", []byte("DATA"))
				e := be.Rename("inside", q)
				hist = append(hist, fmt.Sprintf("Rename(inside,%q)=%v", q, e))
			}
		}
		// through the real v2 keystore with hostile client ids
		suite, _ := cryptoV2.NewSCellSuite(bytes.Repeat([]byte{7}, 32), bytes.Repeat([]byte{8}, 32))
		if ks, err := fsV2.CustomKeyStore(be, suite); err == nil {
			s := keystoreV2.NewServerKeyStore(ks)
			for _, id := range []string{"../..", "../../../../up", "client_1"} {
				e := s.GenerateClientIDSymmetricKey([]byte(id))
				hist = append(hist, fmt.Sprintf("v2.GenerateClientIDSymmetricKey(%q)=%v", id, e))
			}
		}
		be.Close()
		rep.Count("sandbox")
		rep.OracleChecks++
		filepath.Walk(base, func(p string, info os.FileInfo, err error) error {
			if err != nil || p == base {
				return nil
			}
			if !(p == root || strings.HasPrefix(p, root+"/") || strings.HasPrefix(root, p+"/")) {
				rel, _ := filepath.Rel(base, p)
				rep.Violate("v2-dir-escape", "directory backend rooted at a/b/c/d/ks created "+rel+" outside its root", strings.Join(hist, "; "))
				return filepath.SkipDir
			}
			return nil
		})
	}
}

// ---------- keystore v1 histories on the recording in-memory storage ----------
type v1rig struct {
	fs    *vhks.MemFS
	cache *vhks.RecCache
	ks    *filesystem.KeyStore
	tape  *vh.Tape
}

func newV1Rig(r *vh.Rng, master []byte, m *vhks.MemFS, cacheSize int) (*v1rig, error) {
	rig := &v1rig{fs: m}
	rig.tape = vh.StartTape(r)
	enc, _ := keystore.NewSCellKeyEncryptor(master)
	ks, err := filesystem.NewCustomFilesystemKeyStore().KeyDirectory(v1Dir).Encryptor(enc).Storage(m).CacheSize(cacheSize).Build()
	if err != nil {
		vh.StopTape()
		return nil, err
	}
	filesystem.VerifSetCache(ks, func(c keystore.Cache) keystore.Cache { rig.cache = &vhks.RecCache{Inner: c}; return rig.cache })
	rig.ks = ks
	return rig, nil
}

type v1secret struct {
	kind, id string
	val      []byte
}

func c07V1History(rep *vh.Report, r *vh.Rng, thorough bool) {
	master := r.Bytes(32)
	m := vhks.NewMemFS()
	rig, err := newV1Rig(r, master, m, 1000)
	if err != nil {
		return
	}
	defer vh.StopTape()
	cacheKey := rig.tape.Chunks[0]
	ids := []string{genID(rep, r), genID(rep, r), goodIDs[r.Intn(2)]}
	nops := 4 + r.Intn(8)
	var coqOps []string
	var vals [][]byte
	var secrets []v1secret
	var hist []string
	kindNames := []struct{ coq, hook string }{{"KStoragePriv", "storage"}, {"KStorageSym", "storage_sym"}, {"KHmac", "hmac"}, {"KStoragePub", "storage_pub"}}
	for i := 0; i < nops; i++ {
		id := ids[r.Intn(len(ids))]
		idb := []byte(id)
		e0, c0, t0 := len(m.Events), len(rig.cache.Adds), len(rig.tape.Chunks)
		var o vh.Outcome
		var coq string
		switch r.Intn(10) {
		case 0:
			coq = "GenSym " + vh.H(idb)
			o = vh.Guard(func() vh.Outcome {
				if err := rig.ks.GenerateClientIDSymmetricKey(idb); err != nil {
					return vh.ErrO(err)
				}
				return vh.Ok(nil)
			})
			if o.Kind == "ok" {
				secrets = append(secrets, v1secret{"storage_sym", id, rig.tape.Chunks[t0]})
			}
		case 1:
			coq = "GenHmac " + vh.H(idb)
			o = vh.Guard(func() vh.Outcome {
				if err := rig.ks.GenerateHmacKey(idb); err != nil {
					return vh.ErrO(err)
				}
				return vh.Ok(nil)
			})
			if o.Kind == "ok" {
				secrets = append(secrets, v1secret{"hmac", id, rig.tape.Chunks[t0]})
			}
		case 2:
			coq = "GenPair " + vh.H(idb)
			o = vh.Guard(func() vh.Outcome {
				if err := rig.ks.GenerateDataEncryptionKeys(idb); err != nil {
					return vh.ErrO(err)
				}
				return vh.Ok(nil)
			})
			if o.Kind == "ok" {
				priv, _ := core.KeyPair(rig.tape.Chunks[t0])
				secrets = append(secrets, v1secret{"storage", id, priv}, v1secret{"seed", id, rig.tape.Chunks[t0]})
			}
		case 3:
			coq = "GetSym " + vh.H(idb)
			o = vh.Guard(func() vh.Outcome {
				k, err := rig.ks.GetClientIDSymmetricKey(idb)
				if err != nil {
					return vh.ErrO(err)
				}
				return vh.Ok(append([]byte{}, k...))
			})
		case 4:
			coq = "GetHmac " + vh.H(idb)
			o = vh.Guard(func() vh.Outcome {
				k, err := rig.ks.GetHMACSecretKey(idb)
				if err != nil {
					return vh.ErrO(err)
				}
				return vh.Ok(append([]byte{}, k...))
			})
		case 5:
			coq = "GetPriv " + vh.H(idb)
			o = vh.Guard(func() vh.Outcome {
				k, err := rig.ks.GetServerDecryptionPrivateKey(idb)
				if err != nil {
					return vh.ErrO(err)
				}
				return vh.Ok(append([]byte{}, k.Value...))
			})
		case 6:
			coq = "GetPub " + vh.H(idb)
			o = vh.Guard(func() vh.Outcome {
				k, err := rig.ks.GetClientIDEncryptionPublicKey(idb)
				if err != nil {
					return vh.ErrO(err)
				}
				return vh.Ok(append([]byte{}, k.Value...))
			})
		case 7, 8:
			// outside the keystore: one stored key file copied over another name
			k1, k2 := kindNames[r.Intn(3)], kindNames[r.Intn(3)]
			id2 := goodIDs[r.Intn(len(goodIDs))]
			id1 := goodIDs[r.Intn(len(goodIDs))]
			if r.Bool() {
				id1, id2 = ids[2], ids[2]
			}
			src := v1Dir + "/" + filesystem.VerifFilename(k1.hook, []byte(id1))
			dst := v1Dir + "/" + filesystem.VerifFilename(k2.hook, []byte(id2))
			coq = fmt.Sprintf("CopyFile %s %s %s %s", k1.coq, vh.H([]byte(id1)), k2.coq, vh.H([]byte(id2)))
			if data := m.Peek(src); data != nil {
				m.Poke(dst, data)
				o = vh.Ok(nil)
			} else {
				o = vh.Outcome{Kind: "err", Msg: "no such file"}
			}
		case 9:
			coq = "ResetCache"
			rig.ks.Reset()
			o = vh.Ok(nil)
		}
		rep.Count("v1op:" + strings.SplitN(coq, " ", 2)[0] + ":" + o.Kind)
		hist = append(hist, coq+" => "+o.Kind)
		if o.Kind == "panic" {
			rep.Violate("panic", "v1 keystore operation panicked: "+o.Msg, strings.Join(hist, "; "))
			return
		}
		coqOps = append(coqOps, "("+coq+")")
		// observation: status, value, events (file writes in order, then cache adds; the model orders the same way)
		st, val := byte(0), []byte{}
		if o.Kind == "err" {
			st = 1
		} else if len(o.Vals) > 0 {
			val = o.Vals[0]
		}
		var evs [][]byte
		nev := 0
		type we struct {
			file bool
			name string
			data []byte
		}
		var all []we
		for _, e := range m.Events[e0:] {
			if e.Op == "write" {
				all = append(all, we{true, vhks.FinalPath(e.Path), e.Data})
			}
			// ---- oracle: confinement of every path the operation touched ----
			for _, p := range []string{e.Path, e.Path2} {
				if p == "" {
					continue
				}
				rep.OracleChecks++
				if c := filepath.Clean(p); !(c == v1Dir || under(v1Dir, c)) {
					rep.Violate("v1-path-escape", fmt.Sprintf("v1 %s touched %q (= %s), outside %s", e.Op, p, c, v1Dir), strings.Join(hist, "; "))
				}
			}
		}
		for _, c := range rig.cache.Adds[c0:] {
			all = append(all, we{false, c.Name, c.Data})
		}
		for _, w := range all {
			tag := byte(1)
			if w.file {
				tag = 0
			}
			evs = append(evs, []byte{tag}, []byte(w.name), w.data)
			nev++
			// ---- oracle: nothing secret in clear; private sinks sealed under the owner ----
			rep.OracleChecks++
			for _, s := range secrets {
				if bytes.Contains(w.data, s.val) {
					rep.Violate("secret-in-clear", fmt.Sprintf("key material of %s/%s appears in clear in bytes written to %s", s.kind, s.id, w.name), strings.Join(hist, "; "))
				}
			}
			if !strings.HasSuffix(w.name, ".pub") {
				key := cacheKey
				if w.file {
					key = master
				}
				okSealed := false
				for _, s := range secrets {
					if pt, ok := core.SealDec(key, []byte(s.id), w.data); ok && bytes.Equal(pt, s.val) {
						okSealed = true
					}
				}
				if !okSealed {
					rep.Violate("not-sealed-under-owner", fmt.Sprintf("bytes written to private sink %s do not open under the expected key with the owner id as context", w.name), strings.Join(hist, "; "))
				}
			}
		}
		vals = append(vals, []byte{st}, val, vhks.U64(nev))
		vals = append(vals, evs...)
		_ = t0
	}
	vh.StopTape()
	tape := rig.tape.Chunks[1:]
	op := fmt.Sprintf("V1Hist %s %s %s %s [%s]", vh.H(master), vh.H(cacheKey), vh.H([]byte(v1Dir)), vh.HL(tape), strings.Join(coqOps, "; "))
	rep.Add("v1hist "+strings.Join(hist, "; "), op, vh.Ok(vals...))
	c07V1SwapFlip(rep, r, master, m, strings.Join(hist, "; "), thorough)
}

type v1file struct{ kind, id, path string }

func v1Load(ks *filesystem.KeyStore, kind string, id []byte) ([]byte, error) {
	switch kind {
	case "storage":
		k, err := ks.GetServerDecryptionPrivateKey(id)
		if err != nil {
			return nil, err
		}
		return k.Value, nil
	case "storage_sym":
		return ks.GetClientIDSymmetricKey(id)
	}
	return ks.GetHMACSecretKey(id)
}

// every pair swap/copy of stored private files and byte flips: load must fail
func c07V1SwapFlip(rep *vh.Report, r *vh.Rng, master []byte, m *vhks.MemFS, hist string, thorough bool) {
	var files []v1file
	for _, p := range m.Files() {
		name := strings.TrimPrefix(p, v1Dir+"/")
		if strings.Contains(name, "/") || strings.HasSuffix(name, ".pub") {
			continue
		}
		for _, k := range []struct{ kind, suf string }{{"storage_sym", "_storage_sym"}, {"hmac", "_hmac"}, {"storage", "_storage"}} {
			if strings.HasSuffix(name, k.suf) {
				files = append(files, v1file{k.kind, strings.TrimSuffix(name, k.suf), p})
				break
			}
		}
	}
	load := func(fs *vhks.MemFS, f v1file) ([]byte, error) {
		rig, err := newV1Rig(r, master, fs, 1000)
		if err != nil {
			return nil, err
		}
		defer vh.StopTape()
		var out []byte
		o := vh.Guard(func() vh.Outcome {
			out, err = v1Load(rig.ks, f.kind, []byte(f.id))
			return vh.Ok(nil)
		})
		if o.Kind == "panic" {
			return nil, fmt.Errorf("panic %s", o.Msg)
		}
		return out, err
	}
	for _, a := range files {
		orig, err := load(m.Clone(), a)
		if err != nil {
			continue // content is itself a copied foreign file already
		}
		for _, b := range files {
			if a.path == b.path {
				continue
			}
			c := m.Clone()
			c.Poke(b.path, m.Peek(a.path))
			got, err := load(c, b)
			rep.OracleChecks++
			rep.Count("v1swap")
			if err == nil {
				class := "v1-swap-loads"
				if a.id == b.id {
					class = "v1-purpose-not-bound"
				}
				rep.Violate(class, fmt.Sprintf("key file %s_%s copied to %s_%s loads (%d bytes, equal to the source key: %v)", a.id, a.kind, b.id, b.kind, len(got), bytes.Equal(got, orig)),
					fmt.Sprintf("history: %s; then copy %s over %s and load %s of %q", hist, a.path, b.path, b.kind, b.id))
			}
		}
		data := m.Peek(a.path)
		step := 7
		if thorough {
			step = 1
		}
		for i := r.Intn(step); i < len(data); i += step {
			c := m.Clone()
			d := append([]byte{}, data...)
			d[i] ^= byte(1 << uint(r.Intn(8)))
			c.Poke(a.path, d)
			_, err := load(c, a)
			rep.OracleChecks++
			rep.Count("v1flip")
			if err == nil {
				rep.Violate("v1-flip-loads", fmt.Sprintf("key file %s with byte %d modified still loads", a.path, i), hist)
			}
		}
	}
}

// ---------- keystore v2 on a recording in-memory backend ----------
func c07V2(rep *vh.Report, r *vh.Rng, thorough bool) {
	encKey, sigKey := r.Bytes(32), r.Bytes(32)
	suite, _ := cryptoV2.NewSCellSuite(encKey, sigKey)
	mem := backend.NewInMemory()
	rec := &vhks.RecBackend{Backend: mem}
	ksfs, err := fsV2.CustomKeyStore(rec, suite)
	if err != nil {
		return
	}
	s := keystoreV2.NewServerKeyStore(ksfs)
	tape := vh.StartTape(r)
	defer vh.StopTape()
	var secrets [][]byte
	var hist []string
	ids := []string{goodIDs[r.Intn(len(goodIDs))], goodIDs[r.Intn(len(goodIDs))]}
	for i := 0; i < 5+r.Intn(4); i++ {
		id := []byte(ids[r.Intn(2)])
		t0 := len(tape.Chunks)
		var err error
		what := ""
		switch r.Intn(3) {
		case 0:
			what = "sym"
			err = s.GenerateClientIDSymmetricKey(id)
		case 1:
			what = "hmac"
			err = s.GenerateHmacKey(id)
		case 2:
			what = "pair"
			err = s.GenerateDataEncryptionKeys(id)
		}
		hist = append(hist, fmt.Sprintf("%s(%s)=%v", what, id, err))
		rep.Count("v2op:" + what)
		if err == nil && len(tape.Chunks) > t0 {
			sec := tape.Chunks[t0]
			if what == "pair" {
				p, _ := core.KeyPair(sec)
				secrets = append(secrets, p)
			}
			secrets = append(secrets, sec)
		}
	}
	vh.StopTape()
	h := strings.Join(hist, "; ")
	// every byte string handed to Backend.Put
	for _, e := range rec.Events {
		if e.Op != "put" {
			continue
		}
		rep.OracleChecks++
		for _, sct := range secrets {
			if bytes.Contains(e.Data, sct) {
				rep.Violate("secret-in-clear", "v2: key material appears in clear in bytes handed to Backend.Put("+e.Path+")", h)
			}
		}
	}
	notary, _ := signature.NewNotary(suite.SignatureAlgorithms)
	paths, _ := mem.ListAll()
	suffix := fsV2.VerifKeyringSuffix()
	type ringFile struct {
		path string
		data []byte
	}
	var rings []ringFile
	for _, p := range paths {
		if !strings.HasSuffix(p, suffix) {
			continue
		}
		data, _ := mem.Get(p)
		ringPath := strings.TrimSuffix(p, suffix)
		rings = append(rings, ringFile{ringPath, data})
		cont, err := asn1.UnmarshalVerifiedContainer(data)
		if err != nil {
			rep.Violate("v2-ring-unreadable", "stored ring does not parse: "+p, h)
			continue
		}
		payload := []byte(cont.Payload.RawContent)
		var sigs [][2][]byte
		var sigVals [][]byte
		for _, sg := range cont.Signatures {
			sigs = append(sigs, [2][]byte{[]byte(sg.Algorithm.String()), sg.Signature})
			sigVals = append(sigVals, sg.Signature)
		}
		rep.Add("nsign "+ringPath, fmt.Sprintf("NSign %s %s %s", vh.H(sigKey), vh.H([]byte(ringPath)), vh.H(payload)), vh.Ok(sigVals...))
		rep.Add("nverify "+ringPath, fmt.Sprintf("NVerify %s %s %s %s", vh.H(sigKey), vh.H([]byte(ringPath)), vh.H(payload), vhks.CoqPairs(sigs)), vh.Ok())
		// encrypted key data inside the ring: context = store prefix, ring path, kind, seqnum
		ring, err := asn1.UnmarshalKeyRing(cont.Payload.Data.FullBytes)
		if err != nil {
			continue
		}
		for _, k := range ring.Keys {
			for _, d := range k.Data {
				for _, x := range []struct {
					priv bool
					ct   []byte
				}{{true, d.PrivateKey}, {false, d.SymmetricKey}} {
					if len(x.ct) == 0 {
						continue
					}
					ctx := fsV2.VerifKeyContext(ringPath, x.priv, k.Seqnum)
					rep.Add("v2ctx "+ringPath, fmt.Sprintf("V2KeyCtx %s %s %d", vh.H([]byte(ringPath)), vhks.CoqBool(x.priv), k.Seqnum), vh.Ok(ctx))
					pt, ok := core.SealDec(encKey, ctx, x.ct)
					rep.OracleChecks++
					known := false
					for _, sct := range secrets {
						known = known || bytes.Equal(sct, pt)
					}
					if !ok || !known {
						rep.Violate("not-sealed-under-owner", fmt.Sprintf("v2: key %d of ring %s is not sealed under the master key with context %q", k.Seqnum, ringPath, ctx), h)
						continue
					}
					rep.Add("v2enc "+ringPath, fmt.Sprintf("V2EncKey %s %s %s %d %s %s", vh.H(encKey), vh.H([]byte(ringPath)), vhks.CoqBool(x.priv), k.Seqnum, vh.H(x.ct[16:28]), vh.H(pt)), vh.Ok(x.ct))
					// same ciphertext under another ring path / seqnum must not open
					for _, alt := range [][]byte{fsV2.VerifKeyContext(ringPath+"x", x.priv, k.Seqnum), fsV2.VerifKeyContext(ringPath, x.priv, k.Seqnum+1), fsV2.VerifKeyContext(ringPath, !x.priv, k.Seqnum)} {
						rep.OracleChecks++
						if _, ok := core.SealDec(encKey, alt, x.ct); ok {
							rep.Violate("v2-key-context-not-bound", "v2 key opens under a different ring path / seqnum / kind", h)
						}
					}
				}
			}
		}
	}
	open := func(files map[string][]byte, ringPath string) error {
		b := backend.NewInMemory()
		for p, d := range files {
			b.Put(p, d)
		}
		ks, err := fsV2.CustomKeyStore(b, suite)
		if err != nil {
			return err
		}
		var e error
		o := vh.Guard(func() vh.Outcome { _, e = ks.OpenKeyRing(ringPath); return vh.Ok(nil) })
		if o.Kind == "panic" {
			rep.Violate("panic", "OpenKeyRing panicked: "+o.Msg, h)
			return fmt.Errorf("panic")
		}
		return e
	}
	for _, a := range rings {
		// swap: ring file copied under another ring's path
		for _, b := range rings {
			if a.path == b.path {
				continue
			}
			rep.OracleChecks++
			rep.Count("v2swap")
			if open(map[string][]byte{b.path + suffix: a.data}, b.path) == nil {
				rep.Violate("v2-ring-swap-accepted", "ring file of "+a.path+" stored as "+b.path+" opens", h)
			}
		}
		step := 11
		if thorough {
			step = 1
		}
		ctx := fsV2.VerifSignatureContext(a.path)
		for i := r.Intn(step); i < len(a.data); i += step {
			d := append([]byte{}, a.data...)
			d[i] ^= byte(1 << uint(r.Intn(8)))
			rep.OracleChecks++
			rep.Count("v2flip")
			if open(map[string][]byte{a.path + suffix: d}, a.path) == nil {
				rep.Violate("v2-ring-flip-accepted", fmt.Sprintf("ring %s with byte %d modified opens", a.path, i), h)
			}
			// flipped containers that still parse are replayed on the signature model
			if cont, err := asn1.UnmarshalVerifiedContainer(d); err == nil && i%5 == 0 {
				var sigs [][2][]byte
				for _, sg := range cont.Signatures {
					sigs = append(sigs, [2][]byte{[]byte(sg.Algorithm.String()), sg.Signature})
				}
				_, verr := notary.Verify(d, ctx)
				o := vh.Ok()
				if verr != nil {
					o = vh.ErrO(verr)
				}
				rep.Add("nverify-flipped "+a.path, fmt.Sprintf("NVerify %s %s %s %s", vh.H(sigKey), vh.H([]byte(a.path)), vh.H([]byte(cont.Payload.RawContent)), vhks.CoqPairs(sigs)), o)
			}
		}
	}
}
