package main

// Domain c07: keys at rest are encrypted, bound to their owner, tamper-evident and confined.
// Real code under test: path/filepath (model validation), DirectoryBackend.osPath and the directory
// backend on a deep sandbox, keystore v1 on a recording in-memory Storage + recording cache,
// keystore v2 on a recording in-memory backend.
// Confinement oracle: EVERY path the real osPath / backend accepts must start with the cleaned root
// followed by a separator (func under). Boundary tables (c07SiblingPaths/IDs, c07V1SiblingIDs) derive,
// from the root's own base name, the ".." shapes that re-enter a SIBLING directory whose name starts
// with the root's name (<root>-old, <root>.bak, <root>2; '/' and '\\'); they go through osPath, the
// sandboxed directory backend (whose parent and sibling directories hold decoys and are compared with
// a snapshot after every operation) and the v2/v1 key store entry points (generate/read/export/destroy).

import (
	"bytes"
	"fmt"
	"os"
	"path/filepath"
	"sort"
	"strings"
	"time"

	"acra-vh/vh"
	"acra-vh/vhks"

	"github.com/cossacklabs/acra/keystore"
	"github.com/cossacklabs/acra/keystore/filesystem"
	keystoreV2 "github.com/cossacklabs/acra/keystore/v2/keystore"
	apiV2 "github.com/cossacklabs/acra/keystore/v2/keystore/api"
	"github.com/cossacklabs/acra/keystore/v2/keystore/asn1"
	cryptoV2 "github.com/cossacklabs/acra/keystore/v2/keystore/crypto"
	fsV2 "github.com/cossacklabs/acra/keystore/v2/keystore/filesystem"
	"github.com/cossacklabs/acra/keystore/v2/keystore/filesystem/backend"
	backendAPI "github.com/cossacklabs/acra/keystore/v2/keystore/filesystem/backend/api"
	"github.com/cossacklabs/acra/keystore/v2/keystore/signature"
	"github.com/cossacklabs/themis/gothemis/core"
)

func init() { register("c07", "Model.RunKeystore", runC07) }

const v1Dir = "/ks/private"

var pathComps = []string{"", ".", "..", "a", "b1", "ks", "x.y", "...", "..a", "c\\d", "client", "storage"}
var hostileIDs = []string{"../../outside", "..", "a/b/../../../x", "../x", "../../etc/cron.d/x", "aaaaa/../../b", "", "abc", "x\\..\\y", "/etc/passwd", "ok/../..", "idé-unicode", ".....", "a..b.", "clie/nt",
	"../private-old/x", "../private.bak", "../private2/y", "..\\private-old\\x", "../private"}
var goodIDs = []string{"client_1", "client-two", "Client 3", "zzzzz", "client_1x"}

// valid ids that CONTAIN a key-kind suffix of the v1 file names (in the middle / at the end), each with the
// shorter valid id a name parser cutting at the wrong occurrence would confuse it with (domain c07imp
// enumerates the whole universe and exercises KeyBackuper.Import; here they run through Generate*/Get*,
// the copy matrix and the byte flips)
var c07SuffixIDs = [][2]string{{"north_storage_eu1", "north"}, {"north_storage", "north"}, {"app01_hmac_x", "app01"}, {"client_1_storage_sym", "client_1"},
	{"app01_storage_symx", "app01_storage"}, {"zzzzz_server_1", "zzzzz"}, {"zzzzz_translator", "zzzzz"}, {"north_sym_zone", "north_sym"}}

func genPath(r *vh.Rng) string {
	n := r.Intn(6)
	parts := make([]string, n)
	for i := range parts {
		parts[i] = pathComps[r.Intn(len(pathComps))]
	}
	p := strings.Join(parts, "/")
	if r.Intn(3) == 0 {
		p = "/" + p
	}
	return p
}

func genID(rep *vh.Report, r *vh.Rng) string {
	if r.Intn(4) == 0 {
		rep.Count("id:hostile")
		return hostileIDs[r.Intn(len(hostileIDs))]
	}
	if r.Intn(3) == 0 {
		rep.Count("id:valid-with-suffix")
		return c07SuffixIDs[r.Intn(len(c07SuffixIDs))][0]
	}
	rep.Count("id:valid")
	return goodIDs[r.Intn(len(goodIDs))]
}

// c07Abs resolves a path lexically against a deep virtual working directory (relative roots of the
// path tables stay comparable; the directory is deeper than any ".." run the generators produce).
const c07Cwd = "/c01/c02/c03/c04/c05/c06/c07/c08/c09/c10/c11/c12/c13/c14/c15/c16"

func c07Abs(p string) string {
	if filepath.IsAbs(p) {
		return filepath.Clean(p)
	}
	return filepath.Join(c07Cwd, p)
}

// under: the OS path `full` lies STRICTLY below the directory `root`: after cleaning it starts with
// the cleaned root followed by a path separator (a sibling "<root>-old" shares the string prefix
// "<root>" but not "<root>/") and names something more than the root itself.
func under(root, full string) bool {
	sep := string(os.PathSeparator)
	r, f := c07Abs(root), c07Abs(full)
	if r == sep {
		return f != sep && strings.HasPrefix(f, sep)
	}
	return strings.HasPrefix(f, r+sep) && len(f) > len(r)+1
}

// ---------- boundary tables: sibling directories whose name starts with the root's name ----------
// A containment test written as a string-prefix test without the trailing separator accepts exactly
// these: ".." components that leave the root and re-enter "<root><suffix>".
var c07SiblingSuffixes = []string{"-old", ".bak", "2"}

// key paths (relative to a root directory named rootName)
func c07SiblingPaths(rootName string) []string {
	var out []string
	for _, sfx := range c07SiblingSuffixes {
		s := rootName + sfx
		for _, p := range []string{"../" + s + "/x", "../" + s, "../" + s + "/y", "../" + s + "/decoy", "a/../../" + s + "/x", "client/../../" + s + "/storage.keyring", "./..//" + s + "/decoy"} {
			out = append(out, p, strings.ReplaceAll(p, "/", "\\"))
		}
		out = append(out, "..\\"+s+"/x")
	}
	// controls: the root itself, re-entering the root, a shorter / unrelated sibling, plain escapes
	out = append(out, "../"+rootName, "../"+rootName+"/x", "..\\"+rootName+"\\x", "../other/x", "..", "../..", "../../escaped", "a/../../escaped", "x", "client/x/storage.keyring")
	if len(rootName) > 1 {
		out = append(out, "../"+rootName[:len(rootName)-1]+"/x")
	}
	return out
}

// client ids for the v2 key store (ring path = client/<id>/<purpose>: two levels to leave the root)
func c07SiblingIDs(rootName string) []string {
	var out []string
	for _, sfx := range c07SiblingSuffixes {
		s := rootName + sfx
		out = append(out, "../../"+s, "../../"+s+"/c", "..\\..\\"+s, "x/../../../"+s)
	}
	return append(out, "../../"+rootName, "../..", "..", "../../../../up", "../../other", "client_1")
}

// client ids for the v1 key store (file = <dir>/<id>_<purpose>: one level to leave the directory)
func c07V1SiblingIDs() []string {
	d := filepath.Base(v1Dir)
	var out []string
	for _, sfx := range c07SiblingSuffixes {
		s := d + sfx
		out = append(out, "../"+s+"/x", "../"+s, "../"+s+"/y", "..\\"+s+"\\x", "a/../../"+s+"/k")
	}
	return append(out, "../"+d, "../"+d+"/x", "../x")
}

func runC07(rep *vh.Report, r *vh.Rng, n int, thorough bool) {
	c07Paths(rep, r, n*4)
	c07PathTables(rep, r, thorough)
	c07Sandbox(rep, r, 6+n/20, thorough)
	c07V1Tables(rep, r, thorough)
	for i := 0; i < n; i++ {
		c07V1History(rep, r, thorough, nil)
	}
	for i := 0; i < 1+n/10; i++ {
		c07V2(rep, r, thorough)
	}
}

// ---------- lexical path model vs. path/filepath; osPath; ValidateID; v1 name builders ----------
func c07Paths(rep *vh.Report, r *vh.Rng, n int) {
	roots := []string{"/ks", "/", "/a/b/ks", "/ks/", "/ks/../k2", "ks", ".", "", "../rel", "/ks//x/."}
	kinds := []struct{ coq, hook string }{{"KStoragePriv", "storage"}, {"KStoragePub", "storage_pub"}, {"KStorageSym", "storage_sym"}, {"KHmac", "hmac"}}
	for i := 0; i < n; i++ {
		p, q := genPath(r), genPath(r)
		switch r.Intn(6) {
		case 0:
			rep.Add("clean "+p, "PClean "+vh.H([]byte(p)), vh.Ok([]byte(filepath.Clean(p))))
			// oracle (of the validation itself): Clean is idempotent and a rooted result has no ".."
			c := filepath.Clean(p)
			rep.OracleChecks++
			if filepath.Clean(c) != c || (strings.HasPrefix(c, "/") && strings.Contains(c+"/", "/../")) {
				rep.Violate("filepath-clean", "filepath.Clean not idempotent or leaves ..", p)
			}
		case 1:
			rep.Add("join "+p+" "+q, fmt.Sprintf("PJoin %s %s", vh.H([]byte(p)), vh.H([]byte(q))), vh.Ok([]byte(filepath.Join(p, q))))
		case 2:
			rep.Add("dir "+p, "PDir "+vh.H([]byte(p)), vh.Ok([]byte(filepath.Dir(p))))
		case 3, 4:
			root := roots[r.Intn(len(roots))]
			kp := q
			if r.Bool() {
				kp = strings.TrimPrefix(q, "/")
			}
			c07OsPathCase(rep, root, kp)
		case 5:
			id := genID(rep, r)
			if r.Intn(3) == 0 {
				id = string(r.Bytes(1+r.Intn(8))) + id
			}
			ok := keystore.ValidateID([]byte(id))
			fl := []byte{0}
			if ok {
				fl[0] = 1
			}
			rep.Add("validate "+id, "PValidate "+vh.H([]byte(id)), vh.Ok(fl))
			k := kinds[r.Intn(len(kinds))]
			name := filesystem.VerifFilename(k.hook, []byte(id))
			raw := v1Dir + string(os.PathSeparator) + name
			rep.Add("v1path "+id, fmt.Sprintf("PV1Path %s %s %s", vh.H([]byte(v1Dir)), k.coq, vh.H([]byte(id))), vh.Ok([]byte(raw)))
			rep.OracleChecks++
			if ok && !under(v1Dir, filepath.Clean(raw)) {
				rep.Violate("v1-validated-id-escapes", "a validated id builds a path outside the key directory", raw)
			}
		}
	}
}

// one real osPath evaluation: replayed on the model, and the oracle on the implementation alone:
// EVERY accepted key path maps strictly below the root (root + separator prefix after cleaning).
func c07OsPathCase(rep *vh.Report, root, kp string) vh.Outcome {
	o := vh.Guard(func() vh.Outcome {
		full, err := backend.VerifOsPath(root, kp)
		if err != nil {
			return vh.ErrO(err)
		}
		return vh.Ok([]byte(full))
	})
	rep.Add("ospath "+root+" "+kp, fmt.Sprintf("POsPath %s %s", vh.H([]byte(root)), vh.H([]byte(kp))), o)
	rep.Count("ospath:" + o.Kind)
	rep.OracleChecks++
	// (root "" is not a configuration: Create/OpenDirectoryBackend("") fail, Join ignores the empty root)
	if o.Kind == "ok" && root != "" {
		full := string(o.Vals[0])
		if full != filepath.Clean(full) || !under(root, full) {
			rep.Violate("v2-ospath-escape", fmt.Sprintf("osPath(root=%q, path=%q) = %q is not strictly below the root (no %q prefix)", root, kp, full, strings.TrimSuffix(c07Abs(root), "/")+"/"), fmt.Sprintf("backend.VerifOsPath(%q,%q)", root, kp))
		}
	}
	if o.Kind == "panic" {
		rep.Violate("panic", "osPath panicked: "+o.Msg, kp)
	}
	return o
}

// boundary tables through the real osPath: for several roots, every sibling-prefix shape derived
// from the root's own base name (quick: two roots in full, a sample for the others)
func c07PathTables(rep *vh.Report, r *vh.Rng, thorough bool) {
	for i, root := range []string{"/x/keys", "/a/b/ks", "/ks", "/ks/", "/ks/../k2", "/ks//x/.", "/srv/.acrakeys", "rel/keys", "/"} {
		name := filepath.Base(c07Abs(root))
		if name == "/" {
			name = "root"
		}
		for _, kp := range c07SiblingPaths(name) {
			if !thorough && i >= 2 && r.Intn(6) != 0 {
				continue
			}
			rep.Count("ospath-table")
			c07OsPathCase(rep, root, kp)
		}
	}
}

// ---------- real directory backend in a deep sandbox whose parent and sibling directories are scanned ----------
// c07RecBackend records every key path the key store hands to the (real) backend, with the result.
type c07BackendEvent struct {
	op, path, path2 string
	err             error
	data            []byte // bytes returned by Get
}

type c07RecBackend struct {
	backendAPI.Backend
	events []c07BackendEvent
}

func (b *c07RecBackend) Get(path string) ([]byte, error) {
	d, err := b.Backend.Get(path)
	b.events = append(b.events, c07BackendEvent{"Get", path, "", err, append([]byte{}, d...)})
	return d, err
}
func (b *c07RecBackend) Put(path string, data []byte) error {
	err := b.Backend.Put(path, data)
	b.events = append(b.events, c07BackendEvent{"Put", path, "", err, nil})
	return err
}
func (b *c07RecBackend) Remove(path string) error {
	err := b.Backend.Remove(path)
	b.events = append(b.events, c07BackendEvent{"Remove", path, "", err, nil})
	return err
}
func (b *c07RecBackend) Rename(o, n string) error {
	err := b.Backend.Rename(o, n)
	b.events = append(b.events, c07BackendEvent{"Rename", o, n, err, nil})
	return err
}
func (b *c07RecBackend) RenameNX(o, n string) error {
	err := b.Backend.RenameNX(o, n)
	b.events = append(b.events, c07BackendEvent{"RenameNX", o, n, err, nil})
	return err
}

const c07Foreign = "FOREIGN-KEY-RING:"

// sandbox: <base>/a/b/c/d/<name> is the root; its parent also holds the sibling directories
// <name>-old, <name>.bak, <name>2 and "other", each with a foreign file "decoy", and a file "decoy".
type c07Sb struct {
	base, root, name, vroot string
	rec                     *c07RecBackend
	seen                    int
	snap                    map[string]string
	hist                    []string
	emitted                 map[string]bool // key paths already replayed on the model
	emit                    int             // 0: do not replay, 1: replay every new key path, k: one in k
	r                       *vh.Rng
	dead                    bool
}

// everything below base that is not the root or below it: path -> kind+content
func (sb *c07Sb) outside() map[string]string {
	m := map[string]string{}
	filepath.Walk(sb.base, func(p string, info os.FileInfo, err error) error {
		if err != nil || p == sb.base {
			return nil
		}
		if p == sb.root {
			return filepath.SkipDir
		}
		rel, _ := filepath.Rel(sb.base, p)
		if info.IsDir() {
			m[rel] = "dir"
		} else if info.Mode().IsRegular() {
			d, _ := os.ReadFile(p)
			m[rel] = fmt.Sprintf("file %d %x", info.Size(), d)
		} else {
			m[rel] = "special " + info.Mode().String()
		}
		return nil
	})
	return m
}

func (sb *c07Sb) restart() { sb.dead, sb.hist, sb.snap = false, nil, sb.outside() }

func (sb *c07Sb) rel(s string) string { return strings.ReplaceAll(s, sb.base, "<sandbox>") }

// check evaluates the confinement oracle after one operation; false once the sandbox is spoiled.
func (sb *c07Sb) check(rep *vh.Report, what string) bool {
	if sb.dead {
		return false
	}
	sb.hist = append(sb.hist, what)
	if len(sb.hist) > 12 {
		sb.hist = sb.hist[len(sb.hist)-12:]
	}
	replay := func() string {
		return fmt.Sprintf("directory backend rooted at <sandbox>/a/b/c/d/%s (siblings %s-old, %s.bak, %s2, other); last operations: %s", sb.name, sb.name, sb.name, sb.name, sb.rel(strings.Join(sb.hist, "; ")))
	}
	// (1) every key path handed to the backend by this operation
	for _, ev := range sb.rec.events[sb.seen:] {
		if sb.dead {
			break // the first escaping backend call of the operation is the finding
		}
		refused := ev.err == backendAPI.ErrInvalidPath
		evPaths := []string{ev.path}
		if ev.op == "Rename" || ev.op == "RenameNX" {
			evPaths = append(evPaths, ev.path2)
		}
		for _, p := range evPaths {
			rep.OracleChecks++
			full, err := backend.VerifOsPath(sb.root, p)
			if err == nil && (full != filepath.Clean(full) || !under(sb.root, full)) {
				rep.Violate("v2-ospath-escape", fmt.Sprintf("%s: key path %q handed to the backend is accepted by osPath and maps to %s, not strictly below the root", sb.rel(what), p, sb.rel(full)), replay())
				sb.dead = true
			}
			// independent of osPath: the backend did not refuse a path that resolves outside the root
			lex := filepath.Join(sb.root, strings.NewReplacer("\\", "/").Replace(p))
			if !refused && !under(sb.root, lex) {
				rep.Violate("v2-dir-op-outside-root", fmt.Sprintf("%s: backend.%s(%q) = %v was not refused although it resolves to %s", sb.rel(what), ev.op, p, ev.err, sb.rel(lex)), replay())
				sb.dead = true
			}
			// replay on the model with a fixed virtual root of the same name
			if k := sb.name + "\x00" + p; sb.emit > 0 && !sb.emitted[k] && (sb.emit == 1 || sb.r.Intn(sb.emit) == 0) {
				sb.emitted[k] = true
				rep.Count("ospath-sandbox")
				c07OsPathCase(rep, sb.vroot, p)
			}
		}
		if ev.op == "Get" && ev.err == nil && bytes.Contains(ev.data, []byte(c07Foreign)) {
			rep.Violate("v2-dir-read-outside-root", fmt.Sprintf("%s: backend.Get(%q) returned the content of a file outside the root: %q", sb.rel(what), ev.path, ev.data), replay())
			sb.dead = true
		}
	}
	sb.seen = len(sb.rec.events)
	// (2) parent and sibling directories: nothing created, changed or removed
	rep.OracleChecks++
	now := sb.outside()
	var diff []string
	for p, v := range now {
		if old, ok := sb.snap[p]; !ok {
			diff = append(diff, "created "+p)
		} else if old != v {
			diff = append(diff, "modified "+p)
		}
	}
	for p := range sb.snap {
		if _, ok := now[p]; !ok {
			diff = append(diff, "removed "+p)
		}
	}
	if len(diff) > 0 {
		sort.Strings(diff)
		rep.Violate("v2-dir-escape", fmt.Sprintf("%s changed the file system outside the root a/b/c/d/%s: %s", sb.rel(what), sb.name, strings.Join(diff, ", ")), replay())
		sb.dead = true
	}
	return !sb.dead
}

func c07Sandbox(rep *vh.Report, r *vh.Rng, n int, thorough bool) {
	top, err := os.MkdirTemp("", "vhsb")
	if err != nil {
		return
	}
	defer os.RemoveAll(top)
	names := []string{"ks", "keys", ".acrakeys", "k"}
	emitted := map[string]bool{}
	for i := 0; i < n; i++ {
		name := names[i%len(names)]
		base := filepath.Join(top, fmt.Sprintf("s%d", i))
		parent := filepath.Join(base, "a", "b", "c", "d")
		root := filepath.Join(parent, name)
		os.MkdirAll(parent, 0o700)
		os.WriteFile(filepath.Join(parent, "decoy"), []byte(c07Foreign+"decoy"), 0o600)
		for _, sfx := range append([]string{}, c07SiblingSuffixes...) {
			os.MkdirAll(filepath.Join(parent, name+sfx), 0o700)
			os.WriteFile(filepath.Join(parent, name+sfx, "decoy"), []byte(c07Foreign+name+sfx+"/decoy"), 0o600)
		}
		os.MkdirAll(filepath.Join(parent, "other"), 0o700)
		os.WriteFile(filepath.Join(parent, "other", "decoy"), []byte(c07Foreign+"other/decoy"), 0o600)
		be, err := backend.CreateDirectoryBackend(root)
		if err != nil {
			continue
		}
		sb := &c07Sb{base: base, root: root, name: name, vroot: "/sb/a/b/c/d/" + name, rec: &c07RecBackend{Backend: be}, emitted: emitted, r: r}
		sb.snap = sb.outside()
		rep.Count("sandbox")

		// --- key paths straight into the backend: sibling table (first sandbox of each name in full) + random paths
		var paths []string
		for _, p := range c07SiblingPaths(name) {
			if thorough || i < len(names) || r.Intn(4) == 0 {
				paths = append(paths, p)
			}
		}
		for j := 0; j < 8; j++ {
			p := strings.TrimPrefix(genPath(r), "/")
			if r.Intn(3) == 0 {
				p = []string{"../escaped", "..\\escaped", "a/../../escaped", "../../../x/y", "client/../../..", ".."}[r.Intn(6)]
			}
			paths = append(paths, p)
		}
		inside := func() {
			if _, e := os.Stat(filepath.Join(root, "inside")); e != nil {
				be.Put("inside", []byte("DATA"))
			}
		}
		for _, p := range paths {
			rep.Count("sandbox:path")
			e := sb.rec.Put(p, []byte("DATA"))
			if !sb.check(rep, fmt.Sprintf("Put(%q)=%v", p, e)) {
				break
			}
			_, e = sb.rec.Get(p)
			if !sb.check(rep, fmt.Sprintf("Get(%q)=%v", p, e)) {
				break
			}
			inside()
			e = sb.rec.Rename("inside", p)
			if !sb.check(rep, fmt.Sprintf("Rename(inside,%q)=%v", p, e)) {
				break
			}
			inside()
			e = sb.rec.RenameNX("inside", p)
			if !sb.check(rep, fmt.Sprintf("RenameNX(inside,%q)=%v", p, e)) {
				break
			}
			e = sb.rec.Rename(p, "moved-in")
			if !sb.check(rep, fmt.Sprintf("Rename(%q,moved-in)=%v", p, e)) {
				break
			}
			e = sb.rec.Remove(p)
			if !sb.check(rep, fmt.Sprintf("Remove(%q)=%v", p, e)) {
				break
			}
		}

		// --- through the real v2 key store: key-ring paths and client ids into every kind of entry point
		suite, _ := cryptoV2.NewSCellSuite(bytes.Repeat([]byte{7}, 32), bytes.Repeat([]byte{8}, 32))
		ks, err := fsV2.CustomKeyStore(sb.rec, suite)
		if err == nil {
			// (a sandbox spoiled by the backend phase starts over: the key store phase reports its own first escape)
			sb.restart()
			// key paths the key store derives from ring paths / client ids are replayed on the model
			sb.emit = 6
			if thorough || i == 0 {
				sb.emit = 1
			}
			vh.StartTape(r)
			c07SandboxKeyStore(rep, r, sb, ks, suite, thorough || i < len(names))
			vh.StopTape()
		}
		be.Close()
	}
}

func c07Err(f func() error) (res string) {
	defer func() {
		if x := recover(); x != nil {
			res = fmt.Sprintf("PANIC %v", x)
		}
	}()
	if err := f(); err != nil {
		return "error(" + err.Error() + ")"
	}
	return "ok"
}

func c07SandboxKeyStore(rep *vh.Report, r *vh.Rng, sb *c07Sb, ks apiV2.MutableKeyStore, suite *cryptoV2.KeyStoreSuite, full bool) {
	s := keystoreV2.NewServerKeyStore(ks)
	bk, _ := keystoreV2.NewKeyBackuper("", "", s)
	step := func(what string, f func() error) bool {
		res := c07Err(f)
		if strings.HasPrefix(res, "PANIC") {
			rep.Violate("panic", "v2 key store operation panicked: "+what+" "+res, what)
		}
		return sb.check(rep, what+"="+res)
	}
	// key-ring paths: open for writing (creates), open, export
	for _, p := range c07SiblingPaths(sb.name) {
		if strings.HasSuffix(p, ".keyring") || (!full && r.Intn(4) != 0) {
			continue
		}
		rep.Count("sandbox:ringpath")
		ok := step(fmt.Sprintf("v2.OpenKeyRingRW(%q).AddKey", p), func() error {
			ring, err := ks.OpenKeyRingRW(p)
			if err != nil {
				return err
			}
			_, err = ring.AddKey(apiV2.KeyDescription{ValidSince: time.Unix(0, 0), ValidUntil: time.Unix(4000000000, 0), Data: []apiV2.KeyData{{Format: apiV2.ThemisSymmetricKeyFormat, SymmetricKey: bytes.Repeat([]byte{9}, 32)}}})
			return err
		}) &&
			step(fmt.Sprintf("v2.OpenKeyRing(%q)", p), func() error { _, err := ks.OpenKeyRing(p); return err }) &&
			step(fmt.Sprintf("v2.ExportKeyRings([%q])", p), func() error {
				_, err := ks.ExportKeyRings([]string{p}, suite, keystore.ExportPrivateKeys)
				return err
			})
		if !ok {
			break
		}
	}
	// client ids: generate / read / export / destroy
	sb.restart()
	for _, ids := range c07SiblingIDs(sb.name) {
		if !full && r.Intn(3) != 0 {
			continue
		}
		rep.Count("sandbox:clientid")
		id := []byte(ids)
		ok := step(fmt.Sprintf("v2.GenerateClientIDSymmetricKey(%q)", ids), func() error { return s.GenerateClientIDSymmetricKey(id) }) &&
			step(fmt.Sprintf("v2.GenerateHmacKey(%q)", ids), func() error { return s.GenerateHmacKey(id) }) &&
			step(fmt.Sprintf("v2.GenerateDataEncryptionKeys(%q)", ids), func() error { return s.GenerateDataEncryptionKeys(id) }) &&
			step(fmt.Sprintf("v2.GetClientIDSymmetricKey(%q)", ids), func() error { _, err := s.GetClientIDSymmetricKey(id); return err }) &&
			step(fmt.Sprintf("v2.GetHMACSecretKey(%q)", ids), func() error { _, err := s.GetHMACSecretKey(id); return err }) &&
			step(fmt.Sprintf("v2.GetServerDecryptionPrivateKey(%q)", ids), func() error { _, err := s.GetServerDecryptionPrivateKey(id); return err }) &&
			step(fmt.Sprintf("v2.GetClientIDEncryptionPublicKey(%q)", ids), func() error { _, err := s.GetClientIDEncryptionPublicKey(id); return err }) &&
			step(fmt.Sprintf("v2.KeyBackuper.Export(symmetric+search+storage of %q)", ids), func() error {
				var firstErr error
				for _, kind := range []string{keystore.KeySymmetric, keystore.KeySearch, keystore.KeyStoragePrivate} {
					if _, err := bk.Export([]keystore.ExportID{{KeyKind: kind, ContextID: id}}, keystore.ExportPrivateKeys); err != nil && firstErr == nil {
						firstErr = err
					}
				}
				return firstErr
			}) &&
			step(fmt.Sprintf("v2.DestroyClientIDSymmetricKey(%q)", ids), func() error { return s.DestroyClientIDSymmetricKey(id) }) &&
			step(fmt.Sprintf("v2.DestroyHmacSecretKey(%q)", ids), func() error { return s.DestroyHmacSecretKey(id) }) &&
			step(fmt.Sprintf("v2.DestroyClientIDEncryptionKeyPair(%q)", ids), func() error { return s.DestroyClientIDEncryptionKeyPair(id) })
		if !ok {
			return
		}
	}
}

// ---------- keystore v1 histories on the recording in-memory storage ----------
type v1rig struct {
	fs    *vhks.MemFS
	cache *vhks.RecCache
	ks    *filesystem.KeyStore
	tape  *vh.Tape
}

func newV1Rig(r *vh.Rng, master []byte, m *vhks.MemFS, cacheSize int) (*v1rig, error) {
	rig := &v1rig{fs: m}
	rig.tape = vh.StartTape(r)
	enc, _ := keystore.NewSCellKeyEncryptor(master)
	ks, err := filesystem.NewCustomFilesystemKeyStore().KeyDirectory(v1Dir).Encryptor(enc).Storage(m).CacheSize(cacheSize).Build()
	if err != nil {
		vh.StopTape()
		return nil, err
	}
	filesystem.VerifSetCache(ks, func(c keystore.Cache) keystore.Cache { rig.cache = &vhks.RecCache{Inner: c}; return rig.cache })
	rig.ks = ks
	return rig, nil
}

type v1secret struct {
	kind, id string
	val      []byte
}

// one step of a scripted v1 history (op codes as in the random choice below)
type c07V1Step struct {
	op int
	id string
}

// v1 boundary table: every sibling-prefix id of the key directory into every id-taking entry point.
// generate/read are replayed on the model (V1Hist); destroy/export run under the confinement oracle.
func c07V1Tables(rep *vh.Report, r *vh.Rng, thorough bool) {
	ids := c07V1SiblingIDs()
	for i, id := range ids {
		if !thorough && i%5 > 2 && r.Intn(2) == 0 {
			continue
		}
		rep.Count("v1-table-id")
		var script []c07V1Step
		script = append(script, c07V1Step{0, goodIDs[0]})
		for _, op := range []int{0, 1, 2, 3, 4, 5, 6} {
			script = append(script, c07V1Step{op, id})
		}
		c07V1History(rep, r, false, script)
	}
	// destroy / export (not part of the replayed history language): every path handed to Storage is confined
	m := vhks.NewMemFS()
	master := r.Bytes(32)
	rig, err := newV1Rig(r, master, m, 1000)
	if err != nil {
		return
	}
	defer vh.StopTape()
	rig.ks.GenerateClientIDSymmetricKey([]byte(goodIDs[0]))
	enc, _ := keystore.NewSCellKeyEncryptor(master)
	bk, _ := filesystem.NewKeyBackuper(v1Dir, "", m, enc, rig.ks)
	for _, id := range append(ids, hostileIDs...) {
		idb := []byte(id)
		steps := []struct {
			what string
			f    func() error
		}{
			{"DestroyClientIDSymmetricKey", func() error { return rig.ks.DestroyClientIDSymmetricKey(idb) }},
			{"DestroyHmacSecretKey", func() error { return rig.ks.DestroyHmacSecretKey(idb) }},
			{"DestroyClientIDEncryptionKeyPair", func() error { return rig.ks.DestroyClientIDEncryptionKeyPair(idb) }},
			{"DestroyRotatedClientIDSymmetricKey", func() error { return rig.ks.DestroyRotatedClientIDSymmetricKey(idb, 1) }},
			{"KeyBackuper.Export", func() error {
				var first error
				for _, kind := range []string{keystore.KeySymmetric, keystore.KeySearch, keystore.KeyStoragePrivate, keystore.KeyStoragePublic} {
					if _, err := bk.Export([]keystore.ExportID{{KeyKind: kind, ContextID: idb}}, keystore.ExportPrivateKeys); err != nil && first == nil {
						first = err
					}
				}
				return first
			}},
		}
		for _, st := range steps {
			e0 := len(m.Events)
			res := c07Err(st.f)
			what := fmt.Sprintf("v1.%s(%q)=%s", st.what, id, res)
			rep.Count("v1-table-op")
			if strings.HasPrefix(res, "PANIC") {
				rep.Violate("panic", "v1 key store operation panicked: "+what, what)
			}
			for _, e := range m.Events[e0:] {
				for _, p := range []string{e.Path, e.Path2} {
					if p == "" {
						continue
					}
					rep.OracleChecks++
					if c := filepath.Clean(p); !(c == v1Dir || under(v1Dir, c)) {
						rep.Violate("v1-path-escape", fmt.Sprintf("%s: v1 %s touched %q (= %s), outside %s", what, e.Op, p, c, v1Dir), what)
					}
				}
			}
		}
	}
}

func c07V1History(rep *vh.Report, r *vh.Rng, thorough bool, script []c07V1Step) {
	master := r.Bytes(32)
	m := vhks.NewMemFS()
	rig, err := newV1Rig(r, master, m, 1000)
	if err != nil {
		return
	}
	defer vh.StopTape()
	cacheKey := rig.tape.Chunks[0]
	ids := []string{genID(rep, r), genID(rep, r), goodIDs[r.Intn(2)]}
	for _, p := range c07SuffixIDs {
		if p[0] == ids[0] {
			ids[1] = p[1] // the pair: an id with a suffix inside and the shorter id before that suffix
			rep.Count("id:suffix-pair")
		}
	}
	nops := 4 + r.Intn(8)
	if script != nil {
		nops = len(script)
	}
	var coqOps []string
	var vals [][]byte
	var secrets []v1secret
	var hist []string
	kindNames := []struct{ coq, hook string }{{"KStoragePriv", "storage"}, {"KStorageSym", "storage_sym"}, {"KHmac", "hmac"}, {"KStoragePub", "storage_pub"}}
	for i := 0; i < nops; i++ {
		id := ids[r.Intn(len(ids))]
		opc := r.Intn(10)
		if script != nil {
			id, opc = script[i].id, script[i].op
		}
		idb := []byte(id)
		e0, c0, t0 := len(m.Events), len(rig.cache.Adds), len(rig.tape.Chunks)
		var o vh.Outcome
		var coq string
		switch opc {
		case 0:
			coq = "GenSym " + vh.H(idb)
			o = vh.Guard(func() vh.Outcome {
				if err := rig.ks.GenerateClientIDSymmetricKey(idb); err != nil {
					return vh.ErrO(err)
				}
				return vh.Ok(nil)
			})
			if o.Kind == "ok" {
				secrets = append(secrets, v1secret{"storage_sym", id, rig.tape.Chunks[t0]})
			}
		case 1:
			coq = "GenHmac " + vh.H(idb)
			o = vh.Guard(func() vh.Outcome {
				if err := rig.ks.GenerateHmacKey(idb); err != nil {
					return vh.ErrO(err)
				}
				return vh.Ok(nil)
			})
			if o.Kind == "ok" {
				secrets = append(secrets, v1secret{"hmac", id, rig.tape.Chunks[t0]})
			}
		case 2:
			coq = "GenPair " + vh.H(idb)
			o = vh.Guard(func() vh.Outcome {
				if err := rig.ks.GenerateDataEncryptionKeys(idb); err != nil {
					return vh.ErrO(err)
				}
				return vh.Ok(nil)
			})
			if o.Kind == "ok" {
				priv, _ := core.KeyPair(rig.tape.Chunks[t0])
				secrets = append(secrets, v1secret{"storage", id, priv}, v1secret{"seed", id, rig.tape.Chunks[t0]})
			}
		case 3:
			coq = "GetSym " + vh.H(idb)
			o = vh.Guard(func() vh.Outcome {
				k, err := rig.ks.GetClientIDSymmetricKey(idb)
				if err != nil {
					return vh.ErrO(err)
				}
				return vh.Ok(append([]byte{}, k...))
			})
		case 4:
			coq = "GetHmac " + vh.H(idb)
			o = vh.Guard(func() vh.Outcome {
				k, err := rig.ks.GetHMACSecretKey(idb)
				if err != nil {
					return vh.ErrO(err)
				}
				return vh.Ok(append([]byte{}, k...))
			})
		case 5:
			coq = "GetPriv " + vh.H(idb)
			o = vh.Guard(func() vh.Outcome {
				k, err := rig.ks.GetServerDecryptionPrivateKey(idb)
				if err != nil {
					return vh.ErrO(err)
				}
				return vh.Ok(append([]byte{}, k.Value...))
			})
		case 6:
			coq = "GetPub " + vh.H(idb)
			o = vh.Guard(func() vh.Outcome {
				k, err := rig.ks.GetClientIDEncryptionPublicKey(idb)
				if err != nil {
					return vh.ErrO(err)
				}
				return vh.Ok(append([]byte{}, k.Value...))
			})
		case 7, 8:
			// outside the keystore: one stored key file copied over another name
			k1, k2 := kindNames[r.Intn(3)], kindNames[r.Intn(3)]
			id2 := goodIDs[r.Intn(len(goodIDs))]
			id1 := goodIDs[r.Intn(len(goodIDs))]
			if r.Bool() {
				id1, id2 = ids[2], ids[2]
			}
			src := v1Dir + "/" + filesystem.VerifFilename(k1.hook, []byte(id1))
			dst := v1Dir + "/" + filesystem.VerifFilename(k2.hook, []byte(id2))
			coq = fmt.Sprintf("CopyFile %s %s %s %s", k1.coq, vh.H([]byte(id1)), k2.coq, vh.H([]byte(id2)))
			if data := m.Peek(src); data != nil {
				m.Poke(dst, data)
				o = vh.Ok(nil)
			} else {
				o = vh.Outcome{Kind: "err", Msg: "no such file"}
			}
		case 9:
			coq = "ResetCache"
			rig.ks.Reset()
			o = vh.Ok(nil)
		}
		rep.Count("v1op:" + strings.SplitN(coq, " ", 2)[0] + ":" + o.Kind)
		hist = append(hist, coq+" => "+o.Kind)
		if o.Kind == "panic" {
			rep.Violate("panic", "v1 keystore operation panicked: "+o.Msg, strings.Join(hist, "; "))
			return
		}
		coqOps = append(coqOps, "("+coq+")")
		// observation: status, value, events (file writes in order, then cache adds; the model orders the same way)
		st, val := byte(0), []byte{}
		if o.Kind == "err" {
			st = 1
		} else if len(o.Vals) > 0 {
			val = o.Vals[0]
		}
		var evs [][]byte
		nev := 0
		type we struct {
			file bool
			name string
			data []byte
		}
		var all []we
		for _, e := range m.Events[e0:] {
			if e.Op == "write" {
				all = append(all, we{true, vhks.FinalPath(e.Path), e.Data})
			}
			// ---- oracle: confinement of every path the operation touched ----
			for _, p := range []string{e.Path, e.Path2} {
				if p == "" {
					continue
				}
				rep.OracleChecks++
				if c := filepath.Clean(p); !(c == v1Dir || under(v1Dir, c)) {
					rep.Violate("v1-path-escape", fmt.Sprintf("v1 %s touched %q (= %s), outside %s", e.Op, p, c, v1Dir), strings.Join(hist, "; "))
				}
			}
		}
		for _, c := range rig.cache.Adds[c0:] {
			all = append(all, we{false, c.Name, c.Data})
		}
		for _, w := range all {
			tag := byte(1)
			if w.file {
				tag = 0
			}
			evs = append(evs, []byte{tag}, []byte(w.name), w.data)
			nev++
			// ---- oracle: nothing secret in clear; private sinks sealed under the owner ----
			rep.OracleChecks++
			for _, s := range secrets {
				if bytes.Contains(w.data, s.val) {
					rep.Violate("secret-in-clear", fmt.Sprintf("key material of %s/%s appears in clear in bytes written to %s", s.kind, s.id, w.name), strings.Join(hist, "; "))
				}
			}
			if !strings.HasSuffix(w.name, ".pub") {
				key := cacheKey
				if w.file {
					key = master
				}
				okSealed := false
				for _, s := range secrets {
					if pt, ok := core.SealDec(key, []byte(s.id), w.data); ok && bytes.Equal(pt, s.val) {
						okSealed = true
					}
				}
				if !okSealed {
					rep.Violate("not-sealed-under-owner", fmt.Sprintf("bytes written to private sink %s do not open under the expected key with the owner id as context", w.name), strings.Join(hist, "; "))
				}
			}
		}
		vals = append(vals, []byte{st}, val, vhks.U64(nev))
		vals = append(vals, evs...)
		_ = t0
	}
	vh.StopTape()
	tape := rig.tape.Chunks[1:]
	op := fmt.Sprintf("V1Hist %s %s %s %s [%s]", vh.H(master), vh.H(cacheKey), vh.H([]byte(v1Dir)), vh.HL(tape), strings.Join(coqOps, "; "))
	rep.Add("v1hist "+strings.Join(hist, "; "), op, vh.Ok(vals...))
	c07V1SwapFlip(rep, r, master, m, strings.Join(hist, "; "), thorough)
}

type v1file struct{ kind, id, path string }

func v1Load(ks *filesystem.KeyStore, kind string, id []byte) ([]byte, error) {
	switch kind {
	case "storage":
		k, err := ks.GetServerDecryptionPrivateKey(id)
		if err != nil {
			return nil, err
		}
		return k.Value, nil
	case "storage_sym":
		return ks.GetClientIDSymmetricKey(id)
	}
	return ks.GetHMACSecretKey(id)
}

// every pair swap/copy of stored private files and byte flips: load must fail
func c07V1SwapFlip(rep *vh.Report, r *vh.Rng, master []byte, m *vhks.MemFS, hist string, thorough bool) {
	var files []v1file
	for _, p := range m.Files() {
		name := strings.TrimPrefix(p, v1Dir+"/")
		if strings.Contains(name, "/") || strings.HasSuffix(name, ".pub") {
			continue
		}
		for _, k := range []struct{ kind, suf string }{{"storage_sym", "_storage_sym"}, {"hmac", "_hmac"}, {"storage", "_storage"}} {
			if strings.HasSuffix(name, k.suf) {
				files = append(files, v1file{k.kind, strings.TrimSuffix(name, k.suf), p})
				break
			}
		}
	}
	load := func(fs *vhks.MemFS, f v1file) ([]byte, error) {
		rig, err := newV1Rig(r, master, fs, 1000)
		if err != nil {
			return nil, err
		}
		defer vh.StopTape()
		var out []byte
		o := vh.Guard(func() vh.Outcome {
			out, err = v1Load(rig.ks, f.kind, []byte(f.id))
			return vh.Ok(nil)
		})
		if o.Kind == "panic" {
			return nil, fmt.Errorf("panic %s", o.Msg)
		}
		return out, err
	}
	for _, a := range files {
		orig, err := load(m.Clone(), a)
		if err != nil {
			continue // content is itself a copied foreign file already
		}
		for _, b := range files {
			if a.path == b.path {
				continue
			}
			c := m.Clone()
			c.Poke(b.path, m.Peek(a.path))
			got, err := load(c, b)
			rep.OracleChecks++
			rep.Count("v1swap")
			if err == nil {
				class := "v1-swap-loads"
				if a.id == b.id {
					class = "v1-purpose-not-bound"
				}
				rep.Violate(class, fmt.Sprintf("key file %s_%s copied to %s_%s loads (%d bytes, equal to the source key: %v)", a.id, a.kind, b.id, b.kind, len(got), bytes.Equal(got, orig)),
					fmt.Sprintf("history: %s; then copy %s over %s and load %s of %q", hist, a.path, b.path, b.kind, b.id))
			}
		}
		data := m.Peek(a.path)
		step := 7
		if thorough {
			step = 1
		}
		for i := r.Intn(step); i < len(data); i += step {
			c := m.Clone()
			d := append([]byte{}, data...)
			d[i] ^= byte(1 << uint(r.Intn(8)))
			c.Poke(a.path, d)
			_, err := load(c, a)
			rep.OracleChecks++
			rep.Count("v1flip")
			if err == nil {
				rep.Violate("v1-flip-loads", fmt.Sprintf("key file %s with byte %d modified still loads", a.path, i), hist)
			}
		}
	}
}

// ---------- keystore v2 on a recording in-memory backend ----------
func c07V2(rep *vh.Report, r *vh.Rng, thorough bool) {
	encKey, sigKey := r.Bytes(32), r.Bytes(32)
	suite, _ := cryptoV2.NewSCellSuite(encKey, sigKey)
	mem := backend.NewInMemory()
	rec := &vhks.RecBackend{Backend: mem}
	ksfs, err := fsV2.CustomKeyStore(rec, suite)
	if err != nil {
		return
	}
	s := keystoreV2.NewServerKeyStore(ksfs)
	tape := vh.StartTape(r)
	defer vh.StopTape()
	var secrets [][]byte
	var hist []string
	ids := []string{goodIDs[r.Intn(len(goodIDs))], goodIDs[r.Intn(len(goodIDs))]}
	for i := 0; i < 5+r.Intn(4); i++ {
		id := []byte(ids[r.Intn(2)])
		t0 := len(tape.Chunks)
		var err error
		what := ""
		switch r.Intn(3) {
		case 0:
			what = "sym"
			err = s.GenerateClientIDSymmetricKey(id)
		case 1:
			what = "hmac"
			err = s.GenerateHmacKey(id)
		case 2:
			what = "pair"
			err = s.GenerateDataEncryptionKeys(id)
		}
		hist = append(hist, fmt.Sprintf("%s(%s)=%v", what, id, err))
		rep.Count("v2op:" + what)
		if err == nil && len(tape.Chunks) > t0 {
			sec := tape.Chunks[t0]
			if what == "pair" {
				p, _ := core.KeyPair(sec)
				secrets = append(secrets, p)
			}
			secrets = append(secrets, sec)
		}
	}
	vh.StopTape()
	h := strings.Join(hist, "; ")
	// every byte string handed to Backend.Put
	for _, e := range rec.Events {
		if e.Op != "put" {
			continue
		}
		rep.OracleChecks++
		for _, sct := range secrets {
			if bytes.Contains(e.Data, sct) {
				rep.Violate("secret-in-clear", "v2: key material appears in clear in bytes handed to Backend.Put("+e.Path+")", h)
			}
		}
	}
	notary, _ := signature.NewNotary(suite.SignatureAlgorithms)
	paths, _ := mem.ListAll()
	suffix := fsV2.VerifKeyringSuffix()
	type ringFile struct {
		path string
		data []byte
	}
	var rings []ringFile
	for _, p := range paths {
		if !strings.HasSuffix(p, suffix) {
			continue
		}
		data, _ := mem.Get(p)
		ringPath := strings.TrimSuffix(p, suffix)
		rings = append(rings, ringFile{ringPath, data})
		cont, err := asn1.UnmarshalVerifiedContainer(data)
		if err != nil {
			rep.Violate("v2-ring-unreadable", "stored ring does not parse: "+p, h)
			continue
		}
		payload := []byte(cont.Payload.RawContent)
		var sigs [][2][]byte
		var sigVals [][]byte
		for _, sg := range cont.Signatures {
			sigs = append(sigs, [2][]byte{[]byte(sg.Algorithm.String()), sg.Signature})
			sigVals = append(sigVals, sg.Signature)
		}
		rep.Add("nsign "+ringPath, fmt.Sprintf("NSign %s %s %s", vh.H(sigKey), vh.H([]byte(ringPath)), vh.H(payload)), vh.Ok(sigVals...))
		rep.Add("nverify "+ringPath, fmt.Sprintf("NVerify %s %s %s %s", vh.H(sigKey), vh.H([]byte(ringPath)), vh.H(payload), vhks.CoqPairs(sigs)), vh.Ok())
		// encrypted key data inside the ring: context = store prefix, ring path, kind, seqnum
		ring, err := asn1.UnmarshalKeyRing(cont.Payload.Data.FullBytes)
		if err != nil {
			continue
		}
		for _, k := range ring.Keys {
			for _, d := range k.Data {
				for _, x := range []struct {
					priv bool
					ct   []byte
				}{{true, d.PrivateKey}, {false, d.SymmetricKey}} {
					if len(x.ct) == 0 {
						continue
					}
					ctx := fsV2.VerifKeyContext(ringPath, x.priv, k.Seqnum)
					rep.Add("v2ctx "+ringPath, fmt.Sprintf("V2KeyCtx %s %s %d", vh.H([]byte(ringPath)), vhks.CoqBool(x.priv), k.Seqnum), vh.Ok(ctx))
					pt, ok := core.SealDec(encKey, ctx, x.ct)
					rep.OracleChecks++
					known := false
					for _, sct := range secrets {
						known = known || bytes.Equal(sct, pt)
					}
					if !ok || !known {
						rep.Violate("not-sealed-under-owner", fmt.Sprintf("v2: key %d of ring %s is not sealed under the master key with context %q", k.Seqnum, ringPath, ctx), h)
						continue
					}
					rep.Add("v2enc "+ringPath, fmt.Sprintf("V2EncKey %s %s %s %d %s %s", vh.H(encKey), vh.H([]byte(ringPath)), vhks.CoqBool(x.priv), k.Seqnum, vh.H(x.ct[16:28]), vh.H(pt)), vh.Ok(x.ct))
					// same ciphertext under another ring path / seqnum must not open
					for _, alt := range [][]byte{fsV2.VerifKeyContext(ringPath+"x", x.priv, k.Seqnum), fsV2.VerifKeyContext(ringPath, x.priv, k.Seqnum+1), fsV2.VerifKeyContext(ringPath, !x.priv, k.Seqnum)} {
						rep.OracleChecks++
						if _, ok := core.SealDec(encKey, alt, x.ct); ok {
							rep.Violate("v2-key-context-not-bound", "v2 key opens under a different ring path / seqnum / kind", h)
						}
					}
				}
			}
		}
	}
	open := func(files map[string][]byte, ringPath string) error {
		b := backend.NewInMemory()
		for p, d := range files {
			b.Put(p, d)
		}
		ks, err := fsV2.CustomKeyStore(b, suite)
		if err != nil {
			return err
		}
		var e error
		o := vh.Guard(func() vh.Outcome { _, e = ks.OpenKeyRing(ringPath); return vh.Ok(nil) })
		if o.Kind == "panic" {
			rep.Violate("panic", "OpenKeyRing panicked: "+o.Msg, h)
			return fmt.Errorf("panic")
		}
		return e
	}
	for _, a := range rings {
		// swap: ring file copied under another ring's path
		for _, b := range rings {
			if a.path == b.path {
				continue
			}
			rep.OracleChecks++
			rep.Count("v2swap")
			if open(map[string][]byte{b.path + suffix: a.data}, b.path) == nil {
				rep.Violate("v2-ring-swap-accepted", "ring file of "+a.path+" stored as "+b.path+" opens", h)
			}
		}
		step := 11
		if thorough {
			step = 1
		}
		ctx := fsV2.VerifSignatureContext(a.path)
		for i := r.Intn(step); i < len(a.data); i += step {
			d := append([]byte{}, a.data...)
			d[i] ^= byte(1 << uint(r.Intn(8)))
			rep.OracleChecks++
			rep.Count("v2flip")
			if open(map[string][]byte{a.path + suffix: d}, a.path) == nil {
				rep.Violate("v2-ring-flip-accepted", fmt.Sprintf("ring %s with byte %d modified opens", a.path, i), h)
			}
			// flipped containers that still parse are replayed on the signature model
			if cont, err := asn1.UnmarshalVerifiedContainer(d); err == nil && i%5 == 0 {
				var sigs [][2][]byte
				for _, sg := range cont.Signatures {
					sigs = append(sigs, [2][]byte{[]byte(sg.Algorithm.String()), sg.Signature})
				}
				_, verr := notary.Verify(d, ctx)
				o := vh.Ok()
				if verr != nil {
					o = vh.ErrO(verr)
				}
				rep.Add("nverify-flipped "+a.path, fmt.Sprintf("NVerify %s %s %s %s", vh.H(sigKey), vh.H([]byte(a.path)), vh.H([]byte(cont.Payload.RawContent)), vhks.CoqPairs(sigs)), o)
			}
		}
	}
}
