package main

// C17, serializability (Properties/C17_serial.v): readers as handles of the model, the serial
// re-execution oracle, schedule families with readers.
//
//   - the alphabet xop of Model/KeystoreSerial.v: every kop of c08.go/c17.go as `XHop (...)`, plus the
//     readers OpenKeyRing (`XOpenRO rid`) and ListKeys (`XListKeys`), run by the same scheduled goroutines
//     (every back-end call waits for the scheduler, every granted step carries its call tag and is
//     replayed on the generic machine: `SchedX`);
//   - the oracle of the serializability theorem ON THE IMPLEMENTATION: the locked sections of the
//     concurrent run, in the order in which they released the lock, are re-executed one whole section
//     after the other by fresh real handles on a fresh copy of the initial storage; final storage,
//     every operation's result, every key ring object and everything the readers saw must be the
//     same (class c17-not-serializable).

import (
	"fmt"
	"sort"
	"strings"

	"acra-vh/vh"

	"github.com/cossacklabs/acra/keystore/v2/keystore/api"
)

// reader operations (kop.kind beyond the kinds of c08.go)
const (
	c17sOpenRO   = 100
	c17sListKeys = 101
)

// c17sPeek: the back-end call handle i is waiting to make (set by c17Exec before every choice)
var c17sPeek func(i int) string

// c17sDo runs one operation of a handle: the readers here, everything else by kproc.do.
func c17sDo(w *c17Writer, o kop, op *c17Op) (int, int) {
	switch o.kind {
	case c17sOpenRO:
		r, err := w.p.h.FS.OpenKeyRing(vh.KswRingPath(o.rid))
		if err != nil {
			return 1, 0
		}
		w.ro = r
		return 0, 0
	case c17sListKeys:
		descs, err := w.p.h.SK.ListKeys()
		if err != nil {
			return 1, 0
		}
		for _, d := range descs {
			var rid int
			fmt.Sscanf(d.ClientID, "c%03d", &rid)
			op.rids = append(op.rids, rid)
		}
		sort.Ints(op.rids)
		return 0, 0
	}
	return w.p.do(o)
}

// c17sObject: the key ring object of the handle (Model: xh_loc): the read-only one if the handle is
// a reader, else the one of OpenKeyRingRW.
func c17sObject(w *c17Writer) api.KeyRing {
	if w.ro != nil {
		return w.ro
	}
	if w.p.slots[0] != nil {
		return w.p.slots[0]
	}
	return nil
}

func c17sExtended(progs [][]kop) bool {
	for _, p := range progs {
		for _, o := range p {
			if o.kind >= c17sOpenRO {
				return true
			}
		}
	}
	return false
}

func c17sCoqXop(o kop) string {
	switch o.kind {
	case c17sOpenRO:
		return fmt.Sprintf("XOpenRO %d", o.rid)
	case c17sListKeys:
		return "XListKeys"
	}
	return "XHop (" + coqHop(o) + ")"
}

func c17sProgString(progs [][]kop) string {
	var ps []string
	for _, p := range progs {
		var os []string
		for _, o := range p {
			os = append(os, c17sCoqXop(o))
		}
		ps = append(ps, "["+strings.Join(os, "; ")+"]")
	}
	return "[" + strings.Join(ps, "; ") + "]"
}

// ---------- the serial re-execution ----------

// c17sCommitOrder: the handles in the order in which their sections released the lock
// (= Model.KeystoreSerial.xcommits).
func c17sCommitOrder(tr *c17Trace) []int {
	var out []int
	for _, s := range tr.steps {
		if s.call == "Unlock" || s.call == "RUnlock" {
			out = append(out, s.h)
		}
	}
	return out
}

// c17sSerialChoose: run whole sections, one after the other, in the given order; what is left when
// the order is used up (nothing, if the serial run goes as the concurrent one) runs to its end.
func c17sSerialChoose(order []int, fail *string) func(int, []int) int {
	pos := 0
	return func(k int, enabled []int) int {
		for pos < len(order) {
			want := order[pos]
			ok := false
			for _, i := range enabled {
				ok = ok || i == want
			}
			if !ok {
				if *fail == "" {
					*fail = fmt.Sprintf("section %d of the commit order (handle %d) cannot run in the serial execution", pos, want)
				}
				pos = len(order)
				break
			}
			if c := c17sPeek(want); c == "Unlock" || c == "RUnlock" {
				pos++
			}
			return want
		}
		return enabled[0]
	}
}

// c17sSummary: everything the theorem equates: final storage, results, objects, what readers saw.
func c17sSummary(tr *c17Trace, post []vh.KswFile) []string {
	out := []string{fmt.Sprintf("storage %x", vh.KswEncodeFiles(post))}
	for wi, w := range tr.ws {
		var rs []string
		for _, op := range w.ops {
			switch {
			case op.res != 0:
				rs = append(rs, "err")
			case op.o.kind == c17sListKeys:
				rs = append(rs, fmt.Sprintf("ok%v", op.rids))
			default:
				rs = append(rs, fmt.Sprintf("ok(%d)", op.val))
			}
		}
		view := "no object"
		if obj := c17sObject(w); obj != nil {
			cur, keys := vh.KswView(obj)
			view = fmt.Sprintf("object current=%d keys=%v", cur, keys)
		}
		out = append(out, fmt.Sprintf("handle %d: %d of %d operations, results %v, %s", wi, len(w.ops), len(w.prog), rs, view))
	}
	if tr.rd != nil {
		var rs []string
		for i, o := range tr.rd.obs {
			switch {
			case o == nil && tr.rd.miss[i]:
				rs = append(rs, "not-exist")
			case o == nil:
				rs = append(rs, "err")
			default:
				rs = append(rs, fmt.Sprintf("current=%d keys=%v", o.Cur, o.Keys))
			}
		}
		out = append(out, fmt.Sprintf("reader: %v", rs))
	}
	return out
}

func c17sSerialOracle(rep *vh.Report, violate func(class, what, replay string), hist []histStep, progs [][]kop, tr *c17Trace, post []vh.KswFile, replay string) {
	if tr.stuck {
		return
	}
	rep.OracleChecks++
	order := c17sCommitOrder(tr)
	reads := 0
	if tr.rd != nil {
		reads = tr.rd.reads
	}
	fail := ""
	inner, _ := replayHist(hist)
	ser := c17Exec(inner, 1, progs, reads, c17sSerialChoose(order, &fail))
	rep.Count("serial-reexecution:sections-" + fmt.Sprint(min(len(order), 12)))
	serReplay := func() string {
		var sch []string
		for _, s := range ser.steps {
			sch = append(sch, fmt.Sprintf("%d:%s", s.h, s.call))
		}
		return fmt.Sprintf("%s\n  commit order (handles, by release of the lock): %v\n  serial re-execution: %s", replay, order, strings.Join(sch, " "))
	}
	if fail != "" {
		violate("c17-not-serializable", fail, serReplay())
		return
	}
	clean := vh.NewKswHandle(inner)
	spost, err := vh.KswAbstract(inner, clean)
	if err != nil {
		violate("c17-not-serializable", "the storage after the serial re-execution is unreadable: "+err.Error(), serReplay())
		return
	}
	a, b := c17sSummary(tr, post), c17sSummary(ser, spost)
	for i := range a {
		if i >= len(b) || a[i] != b[i] {
			other := "(missing)"
			if i < len(b) {
				other = b[i]
			}
			violate("c17-not-serializable", fmt.Sprintf("the concurrent run differs from the serial execution of its %d locked sections in commit order:\n    concurrent: %s\n    serial:     %s", len(order), a[i], other), serReplay())
			return
		}
	}
	if len(ser.steps) != len(tr.steps) {
		violate("c17-not-serializable", fmt.Sprintf("the serial execution makes %d back-end calls, the concurrent run %d", len(ser.steps), len(tr.steps)), serReplay())
	}
}

// ---------- schedule families with readers as model handles ----------

func c17sReaderPrograms() [][]kop {
	return [][]kop{
		{{kind: c17sOpenRO, rid: 1}},
		{{kind: c17sOpenRO, rid: 1}, {kind: c17sOpenRO, rid: 1}},
		{{kind: c17sListKeys}},
		{{kind: c17sOpenRO, rid: 1}, {kind: c17sListKeys}, {kind: c17sOpenRO, rid: 1}},
		{{kind: c17sOpenRO, rid: 2}, {kind: c17sOpenRO, rid: 1}},
	}
}

// c17sFamilies: (C1) one writer and one reader, EVERY schedule (or every single-preemption schedule);
// (C2) two writers (creation race or operations on an existing ring: AddKey, SetCurrent = rotation,
// SetState, DestroyKey, generate, destroy-current) and one or two readers, sampled schedules.
func c17sFamilies(rep *vh.Report, r *vh.Rng, n int, thorough bool, sc *int, ord *int, explore func(sc int, family string, hist []histStep, progs [][]kop)) {
	readers := c17sReaderPrograms()
	base := c17CreationPrograms(ord, false)
	hists := [][]histStep{nil, {{o: kop{kind: opGen, rid: 2, ord: 900}}}, {{o: kop{kind: opGen, rid: 1, ord: 901}}, {o: kop{kind: opGen, rid: 2, ord: 902}}}}
	// (C1)
	nex := 4
	if thorough {
		nex = 12
	}
	for k := 0; k < nex; k++ {
		progs := [][]kop{c17Fresh(base[1+k%3], ord), readers[k%len(readers)]}
		explore(*sc, "ser-readers", hists[k%len(hists)], progs)
		*sc++
	}
	// (C2)
	for k := 0; k < n; k++ {
		hist := hists[k%len(hists)]
		nkeys := 0
		if k%len(hists) == 2 {
			nkeys = 1
		}
		progs := make([][]kop, 2)
		for w := range progs {
			if nkeys == 0 || r.Intn(3) == 0 {
				progs[w] = c17Fresh(base[r.Intn(len(base))], ord)
				continue
			}
			progs[w] = []kop{{kind: opOpen, rid: 1}}
			for j, pl := 0, 1+r.Intn(2); j < pl; j++ {
				o := genKop(r, ord, nkeys+1)
				for o.kind == opOpen {
					o = genKop(r, ord, nkeys+1)
				}
				o.slot = 0
				if o.kind == opGen || o.kind == opDestroyCur {
					o.rid = 1
				}
				progs[w] = append(progs[w], o)
			}
		}
		nrd := 1 + r.Intn(2)
		for j := 0; j < nrd; j++ {
			progs = append(progs, readers[r.Intn(len(readers))])
		}
		ns := 3
		if thorough {
			ns = 24
		}
		for q := 0; q < ns; q++ {
			var wish []int
			for j, sl := 0, 6+r.Intn(40); j < sl; j++ {
				wish = append(wish, r.Intn(len(progs)))
			}
			inner, _ := replayHist(hist)
			c17Case(rep, *sc, "ser-readers-sampled", hist, progs, c17Exec(inner, 1, progs, 0, c17Wish(wish)))
		}
		*sc++
	}
}
