package main

// Domain c12, structured malformed stream of the extended-query messages (used by C14): every
// length-like field of Bind / Parse / Execute / RowDescription / ParameterDescription / Query is set to
// each value of an edge table, every string terminator is removed, and the message is cut at every field
// boundary.  Each variant goes
//   (a) through the decoder itself (NewBindPacket / NewParsePacket / NewExecutePacket) and through the
//       PacketHandler path the proxy uses (ReadClientPacket -> GetBindData -> ReplaceBind -> send, ReplaceQuery on
//       a Parse message, GetSimpleQuery): replayed on the Coq model (ops PgBind, PgBindRewrite, PgParse,
//       PgParseReplace, PgExecute, PgSimpleQuery);
//   (b) through PgProxy.handleClientPacket / handleDatabasePacket of one proxy state (hook VerifS14Proxy):
//       implementation oracle only (no panic; whatever is forwarded is the message that came in).
// A panic is a violation of class panic:<decoder>, the replay is the message in hex.
// The table is enumerated on every run (it does not depend on -n); random composition is added by c12Malformed.

import (
	"bytes"
	"context"
	"encoding/binary"
	"encoding/hex"
	"fmt"
	"net"

	"acra-vh/vh"

	acracensor "github.com/cossacklabs/acra/acra-censor"
	"github.com/cossacklabs/acra/decryptor/postgresql"
	encryptor "github.com/cossacklabs/acra/encryptor/base"
	"github.com/cossacklabs/acra/encryptor/base/config"
	"github.com/cossacklabs/acra/sqlparser"
)

const (
	c12Opaque = iota // bytes that are not interpreted as a size
	c12Count         // a count / length field (2 or 4 bytes, big endian)
	c12Term          // a string terminator
)

type c12Field struct {
	name  string
	b     []byte
	kind  int
	exact uint64 // the right value of a c12Count field
}

type c12Msg struct {
	shape  string
	fields []c12Field
}

func (m c12Msg) bytes() []byte {
	var o []byte
	for _, f := range m.fields {
		o = append(o, f.b...)
	}
	if o == nil {
		o = []byte{}
	}
	return o
}

type c12Variant struct {
	what string
	b    []byte
}

// c12Edges: 0 / 1 / exact-1 / exact / exact+1 / 0x7f.. / 0x80..0 / 0x80..4 / 0xff..fe / 0xff..ff at the field's width
func c12Edges(width int, exact uint64) []uint64 {
	var top uint64 = 1<<(8*uint(width)) - 1
	sign := (top + 1) / 2
	vals := []uint64{0, 1, (exact - 1) & top, exact, (exact + 1) & top, sign - 1, sign, sign + 4, top - 1, top}
	seen := map[uint64]bool{}
	var out []uint64
	for _, v := range vals {
		if !seen[v] {
			seen[v] = true
			out = append(out, v)
		}
	}
	return out
}

func c12Enc(width int, v uint64) []byte {
	if width == 2 {
		return be2(uint16(v))
	}
	return be4(uint32(v))
}

// c12Variants enumerates the malformed versions of a message (the well-formed one included once).
func c12Variants(m c12Msg, thorough bool) []c12Variant {
	var out []c12Variant
	seen := map[string]bool{}
	add := func(what string, b []byte) {
		if b == nil {
			b = []byte{}
		}
		k := string(b)
		if seen[k] {
			return
		}
		seen[k] = true
		out = append(out, c12Variant{m.shape + " " + what, b})
	}
	whole := wireClip(m.bytes())
	add("well-formed", whole)
	for i, f := range m.fields {
		if f.kind != c12Count {
			continue
		}
		for _, v := range c12Edges(len(f.b), f.exact) {
			var o []byte
			for j, g := range m.fields {
				if j == i {
					o = append(o, c12Enc(len(f.b), v)...)
				} else {
					o = append(o, g.b...)
				}
			}
			add(fmt.Sprintf("%s=0x%x(exact %d)", f.name, v, f.exact), o)
		}
	}
	// cut at every field boundary (and one byte before it / after it)
	pos := 0
	for _, f := range m.fields {
		add("cut-before:"+f.name, whole[:pos])
		if pos > 0 {
			add("cut-before:"+f.name+"-1", whole[:pos-1])
		}
		if (thorough || f.kind == c12Count) && pos+1 <= len(whole) {
			add("cut-before:"+f.name+"+1", whole[:pos+1])
		}
		pos += len(f.b)
	}
	if len(whole) > 0 {
		add("cut-last-byte", whole[:len(whole)-1])
	}
	// string terminators removed
	for i, f := range m.fields {
		if f.kind != c12Term {
			continue
		}
		var o, nz []byte
		for j, g := range m.fields {
			if j == i {
				continue
			}
			o = append(o, g.b...)
			if j < i {
				nz = append(nz, g.b...)
			} else {
				nz = append(nz, bytes.ReplaceAll(g.b, []byte{0}, []byte{1})...) // no later zero byte can stand in
			}
		}
		add("no-terminator:"+f.name, o)
		add("no-terminator-at-all:"+f.name, nz)
	}
	return out
}

func c12BindMsg(shape string, portal, stmt string, fmts []uint16, params [][]byte, rfs []uint16) c12Msg {
	m := c12Msg{shape: shape}
	f := func(name string, b []byte, kind int, exact uint64) {
		m.fields = append(m.fields, c12Field{name, b, kind, exact})
	}
	f("portal", []byte(portal), c12Opaque, 0)
	f("portal-terminator", []byte{0}, c12Term, 0)
	f("statement", []byte(stmt), c12Opaque, 0)
	f("statement-terminator", []byte{0}, c12Term, 0)
	f("format-count", be2(uint16(len(fmts))), c12Count, uint64(len(fmts)))
	f("formats", u16s(fmts), c12Opaque, 0)
	f("parameter-count", be2(uint16(len(params))), c12Count, uint64(len(params)))
	for i, p := range params {
		if p == nil {
			f(fmt.Sprintf("parameter%d-length", i), be4(0xffffffff), c12Count, 0xffffffff)
			continue
		}
		f(fmt.Sprintf("parameter%d-length", i), be4(uint32(len(p))), c12Count, uint64(len(p)))
		f(fmt.Sprintf("parameter%d-value", i), p, c12Opaque, 0)
	}
	f("result-format-count", be2(uint16(len(rfs))), c12Count, uint64(len(rfs)))
	f("result-formats", u16s(rfs), c12Opaque, 0)
	return m
}

func c12ParseMsg(shape, name, query string, oids []uint32) c12Msg {
	m := c12Msg{shape: shape}
	f := func(name string, b []byte, kind int, exact uint64) {
		m.fields = append(m.fields, c12Field{name, b, kind, exact})
	}
	f("name", []byte(name), c12Opaque, 0)
	f("name-terminator", []byte{0}, c12Term, 0)
	f("query", []byte(query), c12Opaque, 0)
	f("query-terminator", []byte{0}, c12Term, 0)
	f("oid-count", be2(uint16(len(oids))), c12Count, uint64(len(oids)))
	for i, o := range oids {
		f(fmt.Sprintf("oid%d", i), be4(o), c12Opaque, 0)
	}
	return m
}

func c12ExecuteMsg(shape, portal string, maxRows uint32) c12Msg {
	return c12Msg{shape, []c12Field{{"portal", []byte(portal), c12Opaque, 0}, {"portal-terminator", []byte{0}, c12Term, 0},
		{"max-rows", be4(maxRows), c12Count, uint64(maxRows)}}}
}

func c12RowDescriptionMsg(shape string, names []string, oid uint32) c12Msg {
	m := c12Msg{shape: shape}
	m.fields = append(m.fields, c12Field{"field-count", be2(uint16(len(names))), c12Count, uint64(len(names))})
	for i, n := range names {
		m.fields = append(m.fields,
			c12Field{fmt.Sprintf("field%d-name", i), []byte(n), c12Opaque, 0},
			c12Field{fmt.Sprintf("field%d-name-terminator", i), []byte{0}, c12Term, 0},
			c12Field{fmt.Sprintf("field%d-table", i), cat(be4(16384), be2(uint16(i+1))), c12Opaque, 0},
			c12Field{fmt.Sprintf("field%d-type", i), be4(oid), c12Opaque, 0},
			c12Field{fmt.Sprintf("field%d-typlen", i), be2(0xffff), c12Count, 0xffff},
			c12Field{fmt.Sprintf("field%d-typmod", i), be4(0xffffffff), c12Count, 0xffffffff},
			c12Field{fmt.Sprintf("field%d-format", i), be2(0), c12Opaque, 0})
	}
	return m
}

func c12ParameterDescriptionMsg(shape string, oids []uint32) c12Msg {
	m := c12Msg{shape: shape}
	m.fields = append(m.fields, c12Field{"parameter-count", be2(uint16(len(oids))), c12Count, uint64(len(oids))})
	for i, o := range oids {
		m.fields = append(m.fields, c12Field{fmt.Sprintf("oid%d", i), be4(o), c12Opaque, 0})
	}
	return m
}

// ---------- independent reference decoder of Bind (written from the protocol text) ----------

type c12RefBind struct {
	portal, stmt []byte
	pf, rf       []uint16
	params       [][]byte
}

// c12RefDecodeBind: String String Int16 Int16[n] Int16 (Int32 Byte[n])* Int16 Int16[n]; a length is a signed
// Int32, -1 = NULL, any other negative value is invalid; bytes after the last field are ignored.
func c12RefDecodeBind(b []byte) (*c12RefBind, bool) {
	pos := 0
	str := func() ([]byte, bool) {
		for i := pos; i < len(b); i++ {
			if b[i] == 0 {
				s := b[pos:i]
				pos = i + 1
				return s, true
			}
		}
		return nil, false
	}
	u16 := func() (uint16, bool) {
		if len(b)-pos < 2 {
			return 0, false
		}
		v := binary.BigEndian.Uint16(b[pos:])
		pos += 2
		return v, true
	}
	arr := func() ([]uint16, bool) {
		n, ok := u16()
		if !ok || (len(b)-pos)/2 < int(n) {
			return nil, false
		}
		out := make([]uint16, n)
		for i := range out {
			out[i], _ = u16()
		}
		return out, true
	}
	var r c12RefBind
	var ok bool
	if r.portal, ok = str(); !ok {
		return nil, false
	}
	if r.stmt, ok = str(); !ok {
		return nil, false
	}
	if r.pf, ok = arr(); !ok {
		return nil, false
	}
	n, ok := u16()
	if !ok {
		return nil, false
	}
	for i := 0; i < int(n); i++ {
		if len(b)-pos < 4 {
			return nil, false
		}
		l := int64(int32(binary.BigEndian.Uint32(b[pos:])))
		pos += 4
		if l == -1 {
			r.params = append(r.params, nil)
			continue
		}
		if l < 0 || int64(len(b)-pos) < l {
			return nil, false
		}
		r.params = append(r.params, b[pos:pos+int(l)])
		pos += int(l)
	}
	if r.rf, ok = arr(); !ok {
		return nil, false
	}
	return &r, true
}

// c12BindVerdict compares NewBindPacket's answer with the reference decoder.
func c12BindVerdict(rep *vh.Report, lab string, in []byte, o vh.Outcome) {
	rep.OracleChecks++
	if o.Kind == "panic" {
		return // reported by noPanic
	}
	ref, ok := c12RefDecodeBind(in)
	switch {
	case ok && o.Kind != "ok":
		rep.Violate("pg-bind-wellformed-rejected", "NewBindPacket rejects a Bind message every field of which lies inside the message: "+o.String(), lab+" input="+hex.EncodeToString(in))
	case !ok && o.Kind == "ok":
		rep.Violate("pg-bind-malformed-accepted", "NewBindPacket accepts a Bind message with a field that does not fit into the message", lab+" input="+hex.EncodeToString(in))
	case ok:
		good := len(o.Vals) == 4+2*len(ref.params) && bytes.Equal(o.Vals[0], ref.portal) && bytes.Equal(o.Vals[1], ref.stmt) &&
			bytes.Equal(o.Vals[2], u16s(ref.pf)) && bytes.Equal(o.Vals[3], u16s(ref.rf))
		for i := 0; good && i < len(ref.params); i++ {
			good = (o.Vals[4+2*i][0] == 1) == (ref.params[i] == nil) && bytes.Equal(o.Vals[5+2*i], ref.params[i])
		}
		if !good {
			rep.Violate("pg-bind-parse", "NewBindPacket reads other fields than the protocol defines", lab+" input="+hex.EncodeToString(in))
		}
	}
}

// ---------- one proxy state driven packet by packet (oracle only) ----------

type c12MemSession struct {
	data  map[string]interface{}
	state interface{}
}

func (m *c12MemSession) Context() context.Context             { return context.Background() }
func (m *c12MemSession) ClientConnection() net.Conn           { return nil }
func (m *c12MemSession) DatabaseConnection() net.Conn         { return nil }
func (m *c12MemSession) ProtocolState() interface{}           { return m.state }
func (m *c12MemSession) SetProtocolState(s interface{})       { m.state = s }
func (m *c12MemSession) GetData(k string) (interface{}, bool) { v, ok := m.data[k]; return v, ok }
func (m *c12MemSession) SetData(k string, v interface{})      { m.data[k] = v }
func (m *c12MemSession) DeleteData(k string)                  { delete(m.data, k) }
func (m *c12MemSession) HasData(k string) bool                { _, ok := m.data[k]; return ok }

type c12Proxy struct {
	rep   *vh.Report
	sess  *c12MemSession
	proxy *postgresql.VerifS14Proxy
}

func c12NewProxy(rep *vh.Report) *c12Proxy {
	sess := &c12MemSession{data: map[string]interface{}{}}
	p, err := postgresql.NewVerifS14Proxy(sess, sqlparser.New(sqlparser.ModeStrict), acracensor.NewAcraCensor())
	if err != nil {
		panic("c12: cannot build the proxy state: " + err.Error())
	}
	return &c12Proxy{rep, sess, p}
}

// typed: the session remembers type-aware settings for result column 0.. and placeholder 0.. (what a
// previous query leaves behind), so that RowDescription / ParameterDescription / Parse are rewritten.
func (p *c12Proxy) typed(columns int) {
	set := &config.BasicColumnEncryptionSetting{Name: "c", DataType: "int32", DataTypeID: 23}
	items := make([]*encryptor.QueryDataItem, columns)
	for i := range items {
		items[i] = encryptor.NewQueryDataItem(set, "t", "c", "")
	}
	encryptor.SaveQueryDataItemsToClientSession(p.sess, items)
	ph := encryptor.PlaceholderSettingsFromClientSession(p.sess)
	for i := 0; i < columns; i++ {
		ph[i] = set
	}
}

// client feeds one client message through ReadClientPacket + handleClientPacket + sendPacket.
// sameLength: the handler may rewrite the payload but must forward the same number of bytes.
func (p *c12Proxy) client(lab string, tag byte, payload []byte, identical bool) vh.Outcome {
	rep := p.rep
	in := frame(tag, payload)
	o := vh.Guard(func() vh.Outcome {
		h, out := newHandler(true, in)
		if err := readOne(h, true); err != nil {
			return vh.Outcome{Kind: "panic", Msg: "harness: framing failed: " + err.Error()}
		}
		censored, err := p.proxy.HandleClientPacket(h)
		if err != nil {
			return vh.ErrO(err)
		}
		if censored {
			return vh.Ok([]byte("censored"))
		}
		if err := h.VerifSendPacket(); err != nil {
			return vh.ErrO(err)
		}
		return vh.Ok([]byte("sent"), out.Bytes())
	})
	rep.Count("oracle-only:client-handler:" + string(tag) + ":" + o.Kind)
	if o.Kind == "ok" && len(o.Vals) == 2 && !bytes.Equal(o.Vals[1], in) {
		rep.Count("oracle-only:client-handler:" + string(tag) + ":rewritten")
	}
	noPanic(rep, "PgProxy.handleClientPacket("+string(tag)+")", o, lab, in)
	rep.OracleChecks++
	if o.Kind == "ok" && len(o.Vals) == 2 {
		sent := o.Vals[1]
		switch {
		case len(sent) < 5 || sent[0] != tag || int(binary.BigEndian.Uint32(sent[1:5])) != len(sent)-1:
			rep.Violate("pg-client-handler-frame", "the forwarded client message is not a well-framed message of the same type", lab+" input="+hex.EncodeToString(in)+" sent="+hex.EncodeToString(sent))
		case identical && !bytes.Equal(sent, in):
			rep.Violate("pg-client-handler-relay", "no observer is registered, yet the forwarded client message differs from the one received", lab+" input="+hex.EncodeToString(in)+" sent="+hex.EncodeToString(sent))
		}
	}
	return o
}

// database feeds one database message through ReadPacket + handleDatabasePacket + sendPacket.
func (p *c12Proxy) database(lab string, tag byte, payload []byte) vh.Outcome {
	rep := p.rep
	in := frame(tag, payload)
	o := vh.Guard(func() vh.Outcome {
		h, out := newHandler(false, in)
		if err := h.ReadPacket(); err != nil {
			return vh.Outcome{Kind: "panic", Msg: "harness: framing failed: " + err.Error()}
		}
		if err := p.proxy.HandleDatabasePacket(h); err != nil {
			return vh.ErrO(err)
		}
		if err := h.VerifSendPacket(); err != nil {
			return vh.ErrO(err)
		}
		return vh.Ok(out.Bytes())
	})
	rep.Count("oracle-only:database-handler:" + string(tag) + ":" + o.Kind)
	if o.Kind == "ok" && !bytes.Equal(o.Vals[0], in) {
		rep.Count("oracle-only:database-handler:" + string(tag) + ":rewritten")
		if s := o.Vals[0]; len(s) >= 5 && int(binary.BigEndian.Uint32(s[1:5])) != len(s)-1 {
			// not a violation: only a description with bytes after its last field is affected (the input is not well-formed)
			rep.Count("oracle-only:database-handler:" + string(tag) + ":rewritten-with-stale-length")
		}
	}
	noPanic(rep, "PgProxy.handleDatabasePacket("+string(tag)+")", o, lab, in)
	return o
}

// ---------- the tables ----------

func c12ExtendedTables(w *WireOps, thorough bool) {
	rep := w.rep
	px := c12NewProxy(rep)
	// statements the Bind / Execute variants refer to
	for _, st := range []c12Msg{c12ParseMsg("setup", "s1", "SELECT $1, $2", nil), c12ParseMsg("setup", "", "SELECT $1", nil)} {
		o := px.client("table setup Parse", 'P', st.bytes(), true)
		if o.Kind != "ok" {
			rep.Violate("pg-client-handler-relay", "a well-formed Parse message is not accepted: "+o.String(), "table setup Parse input="+hex.EncodeToString(st.bytes()))
		}
	}

	// Bind
	binds := []c12Msg{
		c12BindMsg("bind/full", "p1", "s1", []uint16{0, 1, 0, 1}, [][]byte{[]byte("abc"), nil, {}, []byte("vwxyz")}, []uint16{1}),
		c12BindMsg("bind/one-parameter", "", "", nil, [][]byte{[]byte("wxyz")}, nil),
		c12BindMsg("bind/no-parameters", "p", "s1", []uint16{1}, nil, []uint16{0, 1}),
	}
	for _, m := range binds {
		for _, v := range c12Variants(m, thorough) {
			lab := "table " + v.what
			rep.Count("table:" + m.shape)
			o := w.PgBind(lab+" NewBindPacket", v.b)
			noPanic(rep, "NewBindPacket", o, lab, v.b)
			c12BindVerdict(rep, lab, v.b, o)
			full := frame('B', v.b)
			noPanic(rep, "PacketHandler.bind-path", w.PgBindRewrite(lab+" bind path", full, [][]byte{{1, 2, 3}}), lab, full)
			px.client(lab, 'B', v.b, true)
		}
	}

	// Parse
	parses := []c12Msg{
		c12ParseMsg("parse/one-oid", "s2", "SELECT $1", []uint32{23}),
		c12ParseMsg("parse/no-oids", "", "select 1", nil),
		c12ParseMsg("parse/three-oids", "s3", "SELECT $1, $2, $3", []uint32{23, 25, 17}),
	}
	for _, m := range parses {
		for _, v := range c12Variants(m, thorough) {
			lab := "table " + v.what
			rep.Count("table:" + m.shape)
			noPanic(rep, "NewParsePacket", w.PgParse(lab+" NewParsePacket", v.b), lab, v.b)
			full := frame('P', v.b)
			noPanic(rep, "PacketHandler.ReplaceQuery(Parse)", w.PgParseReplace(lab+" ReplaceQuery", full, []byte("select 2")), lab, full)
			px.client(lab, 'P', v.b, true)
		}
	}
	// with type-aware placeholder settings the parameter type ids of a Parse message are rewritten in place
	px.typed(2)
	for _, m := range parses {
		for _, v := range c12Variants(m, thorough) {
			rep.Count("table:" + m.shape + "/typed")
			px.client("table typed-placeholders "+v.what, 'P', v.b, false)
		}
	}

	// Execute, Query, and the messages the handlers only look at
	for _, m := range []c12Msg{c12ExecuteMsg("execute/named", "p1", 0), c12ExecuteMsg("execute/unnamed", "", 100)} {
		for _, v := range c12Variants(m, thorough) {
			lab := "table " + v.what
			rep.Count("table:" + m.shape)
			noPanic(rep, "NewExecutePacket", w.PgExecute(lab+" NewExecutePacket", v.b), lab, v.b)
			px.client(lab, 'E', v.b, true)
		}
	}
	for _, q := range [][]byte{{}, {0}, []byte("select 1\x00"), []byte("select 1"), []byte("select 1\x00\x00"), {0, 0}} {
		lab := fmt.Sprintf("table query payload=%x", q)
		rep.Count("table:query")
		full := frame('Q', q)
		noPanic(rep, "PacketHandler.GetSimpleQuery", w.PgSimpleQuery(lab+" GetSimpleQuery", full), lab, full)
		px.client(lab, 'Q', q, true)
	}
	for _, d := range [][]byte{{}, {'S'}, {'P'}, []byte("Ss1\x00"), []byte("Pp1\x00"), []byte("Ss1"), {'S', 0, 0}} {
		for _, tag := range []byte{'D', 'C'} { // Describe, Close
			rep.Count("table:describe-close")
			px.client(fmt.Sprintf("table %c payload=%x", tag, d), tag, d, true)
		}
	}

	// database side: RowDescription / ParameterDescription with and without remembered settings
	rds := []c12Msg{c12RowDescriptionMsg("rowdescription/two-fields", []string{"id", "c"}, 17), c12RowDescriptionMsg("rowdescription/no-fields", nil, 17)}
	pds := []c12Msg{c12ParameterDescriptionMsg("parameterdescription/two", []uint32{17, 17}), c12ParameterDescriptionMsg("parameterdescription/none", nil)}
	for pass := 0; pass < 2; pass++ {
		py := c12NewProxy(rep)
		mode := "plain"
		if pass == 1 {
			py.typed(2)
			mode = "typed"
		}
		for _, m := range rds {
			for _, v := range c12Variants(m, thorough) {
				rep.Count("table:" + m.shape + "/" + mode)
				py.database("table "+mode+" "+v.what, 'T', v.b)
			}
		}
		for _, m := range pds {
			for _, v := range c12Variants(m, thorough) {
				rep.Count("table:" + m.shape + "/" + mode)
				py.database("table "+mode+" "+v.what, 't', v.b)
			}
		}
		for _, tag := range []byte{'1', '2', 'C', 'I', 's', 'E', 'Z', 'n', 'S', 'K'} {
			py.database(fmt.Sprintf("table %s tag=%c", mode, tag), tag, []byte("x\x00"))
		}
	}
}

// c12RandomExtended: random composition on top of the tables (part of the malformed stream): a random
// Bind / Parse / Execute shape, one random field set to a random edge or cut at a random place.
func c12RandomExtended(w *WireOps, r *vh.Rng, lab string) {
	rep := w.rep
	pick := func(vs []c12Variant) c12Variant { return vs[r.Intn(len(vs))] }
	switch r.Intn(3) {
	case 0:
		k := r.Intn(5)
		params := make([][]byte, k)
		for i := range params {
			if r.Intn(4) != 0 {
				params[i] = genValue(r, r.Intn(12))
			}
		}
		m := c12BindMsg("bind/random", string(bytes.ReplaceAll(r.Bytes(r.Intn(4)), []byte{0}, []byte{'p'})),
			string(bytes.ReplaceAll(r.Bytes(r.Intn(4)), []byte{0}, []byte{'s'})), genFormats(r, k), params, genFormats(r, r.Intn(3)))
		v := pick(c12Variants(m, true))
		rep.Count("malformed:pg-bind:structured")
		lab += " malformed " + v.what
		o := w.PgBind(lab+" NewBindPacket", v.b)
		noPanic(rep, "NewBindPacket", o, lab, v.b)
		c12BindVerdict(rep, lab, v.b, o)
		full := frame('B', v.b)
		noPanic(rep, "PacketHandler.bind-path", w.PgBindRewrite(lab+" bind path", full, [][]byte{nil, {9}}), lab, full)
	case 1:
		oids := make([]uint32, r.Intn(4))
		for i := range oids {
			oids[i] = uint32(r.U64())
		}
		m := c12ParseMsg("parse/random", string(bytes.ReplaceAll(r.Bytes(r.Intn(4)), []byte{0}, []byte{'n'})),
			string(bytes.ReplaceAll(r.Bytes(r.Intn(12)), []byte{0}, []byte{'q'})), oids)
		v := pick(c12Variants(m, true))
		rep.Count("malformed:pg-parse:structured")
		lab += " malformed " + v.what
		noPanic(rep, "NewParsePacket", w.PgParse(lab+" NewParsePacket", v.b), lab, v.b)
		full := frame('P', v.b)
		noPanic(rep, "PacketHandler.ReplaceQuery(Parse)", w.PgParseReplace(lab+" ReplaceQuery", full, genValue(r, r.Intn(9))), lab, full)
	default:
		m := c12ExecuteMsg("execute/random", string(bytes.ReplaceAll(r.Bytes(r.Intn(5)), []byte{0}, []byte{'p'})), uint32(r.U64()))
		v := pick(c12Variants(m, true))
		rep.Count("malformed:pg-execute:structured")
		lab += " malformed " + v.what
		noPanic(rep, "NewExecutePacket", w.PgExecute(lab+" NewExecutePacket", v.b), lab, v.b)
		q := frame('Q', v.b)
		noPanic(rep, "PacketHandler.GetSimpleQuery", w.PgSimpleQuery(lab+" GetSimpleQuery", q), lab, q)
	}
}
