package main

// C04, domain c04portal: extended-protocol sessions with PORTALS through the REAL in-process PostgreSQL proxy
// (vh.PgRig.OpenPortal: message-level scripted client, portal-capable fake back end, vh/pgportal.go).
//
// What is generated (one encryptor config + one fake database + a seeding session + one portal session per scenario):
//   - row-limited Execute (max_rows > 0) answered by PortalSuspended, repeated Execute on the same portal until
//     CommandComplete, the limit exactly at the end of the result (PortalSuspended, then an Execute with 0 rows),
//     limits larger than the result, portals abandoned while suspended with and without Close;
//   - unnamed and named statements / portals, named statements bound again with other result formats, two or three
//     portals open at once and fetched from in turn;
//   - statements whose column settings DIFFER from their neighbours: covered table (acrablock / acrastruct bytea columns,
//     a str-typed column with a default value) vs. uncovered table, different select lists and column positions,
//     result formats text / binary / per column, INSERT .. RETURNING, statements without rows (SET), the empty query
//     (EmptyQueryResponse), NoData, WHERE without a match;
//   - ErrorResponse: Parse of an unknown relation, Execute that fails before the first row or after some rows (scripted
//     fault of the back end), Execute of a portal that died at Sync; the back end then skips to Sync;
//   - pipelining: several Parse/Bind/Execute before one Sync, Sync after every Execute, several batches sent without
//     waiting for ReadyForQuery; simple queries in between; with and without a transaction block.
// Every scenario starts with a structured opening (c04pOpening: scenario number mod 8) so that each of these classes
// occurs for every seed in the quick tier.
//
// Own oracle (on what the CLIENT received, against what the back end sent for the same Execute):
//   "read-back"          the owner gets the original value of a protected column (bytea text/binary, typed str)
//   "uncovered-changed"  cells of uncovered columns / tables arrive byte-identical
//   "protocol-desync"    the client receives exactly the rows + terminators the back end sent, in order
//   "stale-pending-entry" nothing in flight => pendingQueryPackets empty (hook VerifPendingEntries)
//   "plaintext-to-db", "session-dropped", "proxy-panic", "harness-error" as in c04.
// Model replay (Model/RunProxyPortal.v): the client messages, the database messages, the head of
// pendingQueryPackets at the moment the back end starts to answer each Execute / Query and the whole queue whenever
// nothing is in flight.

import (
	"bytes"
	"encoding/hex"
	"fmt"
	"os"
	"strconv"
	"strings"

	"acra-vh/vh"

	"github.com/jackc/pgx/v5/pgproto3"
)

func init() { register("c04portal", "Model.RunProxyPortal", runC04Portal) }

type c04pCol struct {
	name string
	kind string // id | plain | ab | as | tstr
	oid  uint32
	dflt string
}

func (c c04pCol) protected() bool { return c.kind == "ab" || c.kind == "as" || c.kind == "tstr" }

type c04pTable struct {
	name    string
	cols    []c04pCol
	covered bool
}

func (t *c04pTable) col(name string) *c04pCol {
	for i := range t.cols {
		if t.cols[i].name == name {
			return &t.cols[i]
		}
	}
	return nil
}

type c04pStmt struct {
	sql   string
	kind  string // sel-t | sel-u | sel-one | sel-none | other | empty | bad | ins-u
	table *c04pTable
	ncols int // result columns (0 = no row data)
	nrows int // rows expected at generation time (for the row-limit patterns)
}

type c04pUse struct {
	st          *c04pStmt
	stmtName    string
	portal      string
	parse       bool
	rfmt        []int16
	describe    byte
	limits      []uint32
	closePortal bool
	closeStmt   bool
	faultExec   int // -1: none
	faultAfter  int
}

type c04pFault struct {
	portal      string
	skip, after int
}

type c04pMsg struct {
	m     pgproto3.FrontendMessage
	ev    string // Coq event
	text  string
	ender bool // Sync / Query: answered with ReadyForQuery
	drain bool // wait for all outstanding ReadyForQuery after this message
	fault *c04pFault
}

type c04pScenario struct {
	id     int
	t, u   *c04pTable
	yaml   string
	ref    map[string]map[int]map[string][]byte
	nextID int
	sids   map[string]int
	fids   map[string]int
	nStmt  int
	nPort  int
	named  []*c04pUse // named statements parsed so far (candidates for re-use)
	prog   []c04pMsg
}

func c04pValue(r *vh.Rng) []byte {
	n := 12 + r.Intn(9)
	b := make([]byte, n)
	for i := range b {
		b[i] = alnum[r.Intn(len(alnum))]
	}
	return b
}

func c04pGenTables(r *vh.Rng, rep *vh.Report) (*c04pTable, *c04pTable) {
	t := &c04pTable{name: "t" + fmt.Sprint(r.Intn(3)), covered: true}
	t.cols = append(t.cols, c04pCol{name: "id", kind: "id", oid: vh.OidInt4})
	n := 2 + r.Intn(3)
	hasT, hasB := false, false
	for i := 0; i < n; i++ {
		c := c04pCol{name: fmt.Sprintf("c%d", i), oid: vh.OidBytea}
		switch k := r.Intn(10); {
		case k < 2:
			c.kind, c.oid = "plain", vh.OidText
		case k < 4:
			c.kind = "ab"
		case k < 6:
			c.kind = "as"
		default:
			c.kind = "tstr"
		}
		// at least one typed column (position varies) and one untyped protected column
		if i == n-1 && !hasT {
			c.kind, c.oid = "tstr", vh.OidBytea
		}
		if i == n-2 && !hasB {
			c.kind, c.oid = "ab", vh.OidBytea
		}
		if c.kind == "tstr" {
			hasT = true
			c.dflt = fmt.Sprintf("hidden%d", i)
		}
		if c.kind == "ab" || c.kind == "as" {
			hasB = true
		}
		rep.Count("col:" + c.kind)
		t.cols = append(t.cols, c)
	}
	u := &c04pTable{name: "u" + fmt.Sprint(r.Intn(3))}
	u.cols = []c04pCol{{name: "id", kind: "id", oid: vh.OidInt4}, {name: "v", kind: "plain", oid: vh.OidText}, {name: "w", kind: "plain", oid: vh.OidBytea}}
	if r.Bool() { // the uncovered table may be as wide as the covered one
		u.cols = append(u.cols, c04pCol{name: "x", kind: "plain", oid: vh.OidText})
	}
	return t, u
}

func c04pYAML(t *c04pTable) string {
	var sb strings.Builder
	sb.WriteString("schemas:\n  - table: " + t.name + "\n    columns:\n")
	for _, c := range t.cols {
		sb.WriteString("      - " + c.name + "\n")
	}
	sb.WriteString("    encrypted:\n")
	for _, c := range t.cols {
		switch c.kind {
		case "ab":
			sb.WriteString("      - column: " + c.name + "\n        crypto_envelope: acrablock\n")
		case "as":
			sb.WriteString("      - column: " + c.name + "\n        crypto_envelope: acrastruct\n")
		case "tstr":
			sb.WriteString("      - column: " + c.name + "\n        crypto_envelope: acrablock\n        data_type: str\n        response_on_fail: default_value\n        default_data_value: " + c.dflt + "\n")
		}
	}
	return sb.String()
}

func c04pName(s string) int {
	if s == "" {
		return 0
	}
	n, _ := strconv.Atoi(s[1:])
	return n
}

func c04pFmtKey(f []int16) string {
	var p []string
	for _, x := range f {
		p = append(p, fmt.Sprint(x))
	}
	return strings.Join(p, ",")
}

func (sc *c04pScenario) sid(sql string) int {
	if id, ok := sc.sids[sql]; ok {
		return id
	}
	id := len(sc.sids) + 1
	sc.sids[sql] = id
	return id
}

func (sc *c04pScenario) fid(f []int16) int {
	k := c04pFmtKey(f)
	if k == "" {
		return 0
	}
	if id, ok := sc.fids[k]; ok {
		return id
	}
	id := len(sc.fids) + 1
	sc.fids[k] = id
	return id
}

func (sc *c04pScenario) ids(table string) []int {
	var out []int
	for id := 1; id <= sc.nextID; id++ {
		if _, ok := sc.ref[table][id]; ok {
			out = append(out, id)
		}
	}
	return out
}

// ---------- statements ----------

func (sc *c04pScenario) selectList(r *vh.Rng, t *c04pTable, all bool) (string, int) {
	var names []string
	for _, c := range t.cols {
		if c.name == "id" || all || r.Intn(4) != 0 {
			names = append(names, c.name)
		}
	}
	if len(names) < 2 {
		names = append(names, t.cols[len(t.cols)-1].name)
	}
	switch r.Intn(3) {
	case 0: // reversed: other column positions
		for i, j := 0, len(names)-1; i < j; i, j = i+1, j-1 {
			names[i], names[j] = names[j], names[i]
		}
	case 1: // rotated
		names = append(names[1:], names[0])
	}
	return strings.Join(names, ", "), len(names)
}

func (sc *c04pScenario) genStmt(r *vh.Rng, rep *vh.Report, kind string) *c04pStmt {
	st := &c04pStmt{kind: kind}
	switch kind {
	case "sel-t", "sel-u":
		st.table = sc.t
		if kind == "sel-u" {
			st.table = sc.u
		}
		list, n := sc.selectList(r, st.table, r.Intn(3) == 0)
		st.sql, st.ncols, st.nrows = "SELECT "+list+" FROM "+st.table.name, n, len(sc.ref[st.table.name])
	case "sel-one":
		st.table = sc.t
		if r.Intn(3) == 0 {
			st.table = sc.u
		}
		ids := sc.ids(st.table.name)
		list, n := sc.selectList(r, st.table, false)
		st.sql, st.ncols, st.nrows = fmt.Sprintf("SELECT %s FROM %s WHERE id = %d", list, st.table.name, ids[r.Intn(len(ids))]), n, 1
	case "sel-none":
		st.table = sc.t
		list, n := sc.selectList(r, st.table, false)
		st.sql, st.ncols = fmt.Sprintf("SELECT %s FROM %s WHERE id = 9999", list, st.table.name), n
	case "other":
		st.sql = otherStmts[2+r.Intn(2)]
	case "empty":
		st.sql = ""
	case "bad":
		st.sql = "SELECT id FROM nosuch" + fmt.Sprint(r.Intn(3))
	case "ins-u":
		st.table = sc.u
		var names, rows []string
		for _, c := range sc.u.cols {
			names = append(names, c.name)
		}
		nr := 2 + r.Intn(2)
		for i := 0; i < nr; i++ {
			sc.nextID++
			vals := []string{fmt.Sprint(sc.nextID)}
			row := map[string][]byte{}
			for _, c := range sc.u.cols[1:] {
				v := c04pValue(r)
				row[c.name] = v
				vals = append(vals, vh.QuoteLiteral(string(v)))
			}
			sc.ref[sc.u.name][sc.nextID] = row // uncovered: only the row count matters
			rows = append(rows, "("+strings.Join(vals, ", ")+")")
		}
		st.sql = "INSERT INTO " + sc.u.name + " (" + strings.Join(names, ", ") + ") VALUES " + strings.Join(rows, ", ") + " RETURNING " + strings.Join(names, ", ")
		st.ncols, st.nrows = len(names), nr
	}
	rep.Count("stmt:" + kind)
	return st
}

var c04pKinds = []string{"sel-t", "sel-t", "sel-t", "sel-t", "sel-u", "sel-u", "sel-u", "sel-one", "sel-none", "other", "empty", "bad", "ins-u"}

func (sc *c04pScenario) genRfmt(r *vh.Rng, rep *vh.Report, ncols int) []int16 {
	switch k := r.Intn(10); {
	case k < 3:
		rep.Count("result-format:none")
		return nil
	case k < 6:
		rep.Count("result-format:all-binary")
		return []int16{1}
	case k < 7:
		rep.Count("result-format:all-text")
		return []int16{0}
	}
	if ncols < 2 {
		return []int16{1}
	}
	f := make([]int16, ncols)
	for i := range f {
		f[i] = int16(r.Intn(2))
	}
	rep.Count("result-format:per-column")
	return f
}

// limits: the max_rows values of the successive Execute messages of one portal over a result of n rows
func c04pLimits(r *vh.Rng, rep *vh.Report, n int, pattern string) []uint32 {
	if pattern == "" {
		pattern = []string{"all", "all", "one-by-one", "exact", "two-then-rest", "abandon", "over", "one-then-rest", "twice-all"}[r.Intn(9)]
	}
	if n == 0 && (pattern == "exact" || pattern == "one-by-one") {
		pattern = "one-then-rest"
	}
	rep.Count("limits:" + pattern)
	switch pattern {
	case "one-by-one":
		var l []uint32
		for i := 0; i <= n; i++ {
			l = append(l, 1)
		}
		return l
	case "exact": // PortalSuspended exactly at the end, then an Execute that returns no row
		return []uint32{uint32(n), 1}
	case "two-then-rest":
		return []uint32{2, 0}
	case "one-then-rest":
		return []uint32{1, 0}
	case "abandon":
		return []uint32{1}
	case "over":
		return []uint32{uint32(n + 3)}
	case "twice-all": // a second Execute of a completed portal
		return []uint32{0, 0}
	}
	return []uint32{0}
}

func (sc *c04pScenario) genUse(r *vh.Rng, rep *vh.Report, kind, pattern string, namedPortal bool) *c04pUse {
	u := &c04pUse{faultExec: -1, parse: true}
	if kind == "" && len(sc.named) > 0 && r.Intn(8) == 0 {
		// a named statement parsed before, bound again (other result formats)
		old := sc.named[r.Intn(len(sc.named))]
		u.st, u.stmtName, u.parse = old.st, old.stmtName, false
		rep.Count("use:named-statement-again")
	} else {
		if kind == "" {
			kind = c04pKinds[r.Intn(len(c04pKinds))]
		}
		u.st = sc.genStmt(r, rep, kind)
		if namedPortal || r.Bool() {
			sc.nStmt++
			u.stmtName = fmt.Sprintf("s%d", sc.nStmt)
		}
	}
	if namedPortal || (u.stmtName != "" && r.Bool()) {
		sc.nPort++
		u.portal = fmt.Sprintf("p%d", sc.nPort)
	}
	if u.stmtName == "" {
		rep.Count("use:unnamed-statement")
	} else {
		rep.Count("use:named-statement")
	}
	if u.portal == "" {
		rep.Count("use:unnamed-portal")
	} else {
		rep.Count("use:named-portal")
	}
	u.rfmt = sc.genRfmt(r, rep, u.st.ncols)
	switch r.Intn(5) {
	case 0, 1:
		u.describe = 'P'
	case 2:
		u.describe = 'S'
	}
	u.limits = c04pLimits(r, rep, u.st.nrows, pattern)
	if u.st.ncols == 0 || u.st.kind == "bad" {
		u.limits = u.limits[:1]
	}
	u.closePortal = r.Intn(3) == 0
	if u.stmtName != "" && u.parse {
		if r.Intn(8) == 0 {
			u.closeStmt = true
		} else if u.st.kind != "bad" {
			sc.named = append(sc.named, u)
		}
	}
	if u.portal != "" && u.st.nrows > 0 && r.Intn(8) == 0 {
		u.faultExec = r.Intn(len(u.limits))
		u.faultAfter = r.Intn(2)
		rep.Count(fmt.Sprintf("fault:execute-%d-after-%d-rows", u.faultExec, u.faultAfter))
	}
	return u
}

// ---------- program ----------

func (sc *c04pScenario) add(m c04pMsg) { sc.prog = append(sc.prog, m) }

func (sc *c04pScenario) mParse(u *c04pUse) {
	sc.add(c04pMsg{m: &pgproto3.Parse{Name: u.stmtName, Query: u.st.sql}, ev: fmt.Sprintf("PParse %d %d", c04pName(u.stmtName), sc.sid(u.st.sql)),
		text: fmt.Sprintf("Parse(statement=%q, %q)", u.stmtName, u.st.sql)})
}
func (sc *c04pScenario) mBind(u *c04pUse) {
	sc.add(c04pMsg{m: &pgproto3.Bind{DestinationPortal: u.portal, PreparedStatement: u.stmtName, ResultFormatCodes: u.rfmt},
		ev:   fmt.Sprintf("PBind %d %d %d", c04pName(u.portal), c04pName(u.stmtName), sc.fid(u.rfmt)),
		text: fmt.Sprintf("Bind(portal=%q, statement=%q, result formats=%v)", u.portal, u.stmtName, u.rfmt)})
}
func (sc *c04pScenario) mDescribe(u *c04pUse) {
	if u.describe == 'S' {
		sc.add(c04pMsg{m: &pgproto3.Describe{ObjectType: 'S', Name: u.stmtName}, ev: "POther", text: fmt.Sprintf("Describe(statement=%q)", u.stmtName)})
	} else if u.describe == 'P' {
		sc.add(c04pMsg{m: &pgproto3.Describe{ObjectType: 'P', Name: u.portal}, ev: "POther", text: fmt.Sprintf("Describe(portal=%q)", u.portal)})
	}
}
func (sc *c04pScenario) mExec(u *c04pUse, i int) {
	m := c04pMsg{m: &pgproto3.Execute{Portal: u.portal, MaxRows: u.limits[i]}, ev: fmt.Sprintf("PExec %d", c04pName(u.portal)),
		text: fmt.Sprintf("Execute(portal=%q, max_rows=%d)", u.portal, u.limits[i])}
	if i == 0 && u.faultExec >= 0 {
		m.fault = &c04pFault{u.portal, u.faultExec, u.faultAfter}
		m.text += fmt.Sprintf("   -- the back end fails Execute #%d of this portal after %d row(s)", u.faultExec+1, u.faultAfter)
	}
	sc.add(m)
}
func (sc *c04pScenario) mClose(u *c04pUse) {
	if u.closePortal {
		sc.add(c04pMsg{m: &pgproto3.Close{ObjectType: 'P', Name: u.portal}, ev: "POther", text: fmt.Sprintf("Close(portal=%q)", u.portal)})
	}
	if u.closeStmt {
		sc.add(c04pMsg{m: &pgproto3.Close{ObjectType: 'S', Name: u.stmtName}, ev: "POther", text: fmt.Sprintf("Close(statement=%q)", u.stmtName)})
	}
}
func (sc *c04pScenario) mSync(drain bool) {
	if n := len(sc.prog); n > 0 && sc.prog[n-1].ender {
		sc.prog[n-1].drain = sc.prog[n-1].drain || drain
		return
	}
	sc.add(c04pMsg{m: &pgproto3.Sync{}, ev: "PSync", text: "Sync", ender: true, drain: drain})
}
func (sc *c04pScenario) mQuery(sql string, drain bool) {
	sc.mSync(false) // a simple Query only after Sync
	sc.add(c04pMsg{m: &pgproto3.Query{String: sql}, ev: fmt.Sprintf("PQuery %d", sc.sid(sql)), text: fmt.Sprintf("Query(%q)", sql), ender: true, drain: drain})
}

// group: the messages of some uses; interleaved = all Parse/Bind first, then the Executes in turn.
// sync: "end" one Sync after the group, "exec" after every Execute, "use" after every use, "random".
func (sc *c04pScenario) group(r *vh.Rng, rep *vh.Report, uses []*c04pUse, interleaved bool, sync string, drainP int) {
	rep.Count("group:sync-" + sync)
	if interleaved {
		rep.Count("group:interleaved-portals")
	}
	maybeSync := func(after string) {
		switch {
		case sync == "exec" && after == "exec", sync == "use" && after == "use", sync == "random" && r.Intn(3) == 0:
			sc.mSync(r.Intn(100) < drainP)
		}
	}
	if interleaved {
		for _, u := range uses {
			if u.parse {
				sc.mParse(u)
			}
			sc.mBind(u)
			sc.mDescribe(u)
			maybeSync("bind")
		}
		for i := 0; ; i++ {
			any := false
			for _, u := range uses {
				if i < len(u.limits) {
					sc.mExec(u, i)
					any = true
					maybeSync("exec")
				}
			}
			if !any {
				break
			}
		}
		for _, u := range uses {
			sc.mClose(u)
		}
		maybeSync("use")
	} else {
		for _, u := range uses {
			if u.parse {
				sc.mParse(u)
			}
			sc.mBind(u)
			sc.mDescribe(u)
			for i := range u.limits {
				sc.mExec(u, i)
				maybeSync("exec")
			}
			sc.mClose(u)
			maybeSync("use")
		}
	}
	sc.mSync(r.Intn(100) < drainP)
}

// c04pOpening: the structured opening of scenario scn (every class for every seed).
func (sc *c04pScenario) opening(r *vh.Rng, rep *vh.Report, scn int) {
	k := scn % 8
	rep.Count(fmt.Sprintf("opening:%d", k))
	first, second := "sel-u", "sel-t"
	if (scn/8)%2 == 1 {
		first, second = second, first
	}
	switch k {
	case 0: // row-limited fetch + Close, each step waited for, then the other table (simple and extended)
		a := sc.genUse(r, rep, first, "abandon", true)
		a.closePortal, a.faultExec = true, -1
		sc.group(r, rep, []*c04pUse{a}, false, "exec", 100)
		sc.mQuery(sc.genStmt(r, rep, second).sql, true)
		b := sc.genUse(r, rep, second, "all", false)
		b.faultExec = -1
		sc.group(r, rep, []*c04pUse{b}, false, "end", 100)
	case 1: // ONE batch: row-limited Execute (suspended), then another statement with other settings, one Sync
		a := sc.genUse(r, rep, first, "abandon", true)
		b := sc.genUse(r, rep, second, "all", scn%16 >= 8)
		a.faultExec, b.faultExec = -1, -1
		sc.group(r, rep, []*c04pUse{a, b}, false, "end", 100)
	case 2: // two named portals over different tables fetched from in turn, one row at a time, one batch
		a := sc.genUse(r, rep, first, "one-by-one", true)
		b := sc.genUse(r, rep, second, "one-by-one", true)
		a.faultExec, b.faultExec = -1, -1
		sc.group(r, rep, []*c04pUse{a, b}, true, "end", 100)
	case 3: // the same, Sync after every Execute (needs the transaction block), nothing waited for until the end
		a := sc.genUse(r, rep, first, "one-by-one", true)
		b := sc.genUse(r, rep, second, "two-then-rest", true)
		a.faultExec, b.faultExec = -1, -1
		sc.group(r, rep, []*c04pUse{a, b}, true, "exec", 0)
	case 4: // error in the middle of a pipeline: the Executes after it are skipped; the next batch follows at once
		a := sc.genUse(r, rep, first, "one-then-rest", true)
		a.faultExec, a.faultAfter = 1, scn/8%2
		b := sc.genUse(r, rep, second, "all", true)
		c := sc.genUse(r, rep, first, "all", false)
		b.faultExec, c.faultExec = -1, -1
		sc.group(r, rep, []*c04pUse{a, b}, false, "end", 0)
		sc.group(r, rep, []*c04pUse{c}, false, "end", 100)
	case 5: // Parse error first, then statements that are skipped, then a batch with other settings
		a := sc.genUse(r, rep, "bad", "all", false)
		b := sc.genUse(r, rep, first, "all", false)
		c := sc.genUse(r, rep, second, "abandon", false)
		d := sc.genUse(r, rep, first, "all", false)
		a.faultExec, b.faultExec, c.faultExec, d.faultExec = -1, -1, -1, -1
		sc.group(r, rep, []*c04pUse{a, b}, false, "end", 0)
		sc.group(r, rep, []*c04pUse{c, d}, false, "end", 100)
	case 6: // empty query, statement without rows, no match, limit exactly at the end: between two different statements
		a := sc.genUse(r, rep, first, "exact", true)
		e := sc.genUse(r, rep, "empty", "all", false)
		o := sc.genUse(r, rep, "other", "all", false)
		n := sc.genUse(r, rep, "sel-none", "abandon", false)
		b := sc.genUse(r, rep, second, "all", false)
		for _, u := range []*c04pUse{a, e, o, n, b} {
			u.faultExec = -1
		}
		e.describe, o.describe = 'P', 'S'
		sc.group(r, rep, []*c04pUse{a, e, o, n, b}, false, []string{"end", "use"}[scn/8%2], 100)
	case 7: // unnamed statement and portal re-used in one pipeline over several Syncs, nothing waited for
		var us []*c04pUse
		for i := 0; i < 4; i++ {
			kind := first
			if i%2 == 1 {
				kind = second
			}
			u := sc.genUse(r, rep, kind, []string{"abandon", "all", "two-then-rest", "all"}[i], false)
			u.stmtName, u.portal, u.faultExec, u.closeStmt = "", "", -1, false
			us = append(us, u)
		}
		sc.group(r, rep, us[:2], false, "end", 0)
		sc.group(r, rep, us[2:], false, "use", 100)
	}
}

// ---------- the domain ----------

func runC04Portal(rep *vh.Report, r *vh.Rng, n int, thorough bool) {
	debug := os.Getenv("VERIF_C04_DEBUG") != ""
	for scn := 0; scn < n; scn++ {
		sc := &c04pScenario{id: scn, ref: map[string]map[int]map[string][]byte{}, sids: map[string]int{}, fids: map[string]int{}}
		sc.t, sc.u = c04pGenTables(r, rep)
		sc.yaml = c04pYAML(sc.t)
		ks := vh.NewMemKeystore()
		ks.Clients[connWriter] = vh.NewKeySet(r, 1, 1, true)
		db := vh.NewFakeDB()
		for _, t := range []*c04pTable{sc.t, sc.u} {
			pt := &vh.PgTable{Name: t.name}
			for _, c := range t.cols {
				pt.Cols = append(pt.Cols, vh.PgCol{Name: c.name, Oid: c.oid})
			}
			db.Tables[t.name] = pt
			sc.ref[t.name] = map[int]map[string][]byte{}
		}
		rig, err := vh.NewPgRig(ks, []byte(sc.yaml), db)
		if err != nil {
			rep.Violate("harness-error", "rig: "+err.Error(), sc.yaml)
			continue
		}
		head := fmt.Sprintf("scenario %d (seed %d), domain c04portal\nencryptor config:\n%s", scn, rep.Seed, sc.yaml)
		if !sc.seed(rep, r, rig, &head) {
			continue
		}
		sc.session(rep, r, rig, head, scn, thorough, debug)
	}
}

// seed: the owner writes some rows (simple protocol); not replayed on the model.
func (sc *c04pScenario) seed(rep *vh.Report, r *vh.Rng, rig *vh.PgRig, head *string) bool {
	tape := vh.StartTape(r)
	defer vh.StopTape()
	s, err := rig.OpenPortal([]byte(connWriter), tape)
	if err != nil {
		rep.Violate("harness-error", "open: "+err.Error(), *head)
		return false
	}
	var script []string
	var marks [][]byte
	ok := true
	for _, t := range []*c04pTable{sc.t, sc.u} {
		nr := 3 + r.Intn(3)
		for i := 0; i < nr && ok; i++ {
			sc.nextID++
			var names, vals []string
			row := map[string][]byte{}
			for _, c := range t.cols {
				names = append(names, c.name)
				if c.kind == "id" {
					vals = append(vals, fmt.Sprint(sc.nextID))
					continue
				}
				v := c04pValue(r)
				row[c.name] = v
				vals = append(vals, vh.QuoteLiteral(string(v)))
				if t.covered && c.protected() {
					marks = append(marks, v)
				}
			}
			sql := "INSERT INTO " + t.name + " (" + strings.Join(names, ", ") + ") VALUES (" + strings.Join(vals, ", ") + ")"
			script = append(script, sql)
			s.Send(&pgproto3.Query{String: sql})
			ms, closed := s.Collect(1)
			for _, m := range ms {
				if m.Type == 'E' {
					rep.Violate("harness-error", "seeding failed: "+m.Text, *head+"\n"+sql)
					ok = false
				}
			}
			if closed {
				rep.Violate("session-dropped", "the proxy closed the seeding session ("+s.ProxyErr+")", *head+"\n"+sql)
				ok = false
			}
			sc.ref[t.name][sc.nextID] = row
		}
	}
	dbBound, _, _, _, beErr := s.Close()
	*head += "\n-- seeding session as " + connWriter + "\n" + strings.Join(script, "\n")
	if s.Panic != "" {
		rep.Violate("proxy-panic", "the proxy panicked: "+s.Panic, *head)
		return false
	}
	if beErr != nil || s.Hung {
		rep.Violate("harness-error", fmt.Sprintf("seeding: back end error %v hung %v", beErr, s.Hung), *head)
		return false
	}
	for _, m := range marks {
		rep.OracleChecks++
		if found, form := containsMarker(dbBound, m); found {
			rep.Violate("plaintext-to-db", fmt.Sprintf("value %q written to a protected column reached the database in the clear (%s)", m, form), *head)
		}
	}
	return ok
}

func (sc *c04pScenario) session(rep *vh.Report, r *vh.Rng, rig *vh.PgRig, head string, scn int, thorough, debug bool) {
	// ---- program ----
	inTxn := scn%8 == 3 || r.Intn(3) != 0
	if inTxn {
		sc.mQuery("BEGIN", true)
		rep.Count("session:transaction-block")
	}
	sc.opening(r, rep, scn)
	ng := 2 + r.Intn(3)
	if thorough {
		ng += r.Intn(4)
	}
	for g := 0; g < ng; g++ {
		if r.Intn(4) == 0 {
			kind := []string{"sel-t", "sel-u", "other"}[r.Intn(3)]
			sc.mQuery(sc.genStmt(r, rep, kind).sql, r.Intn(3) != 0)
			rep.Count("group:simple-query")
			continue
		}
		nu := 1 + r.Intn(3)
		inter := nu > 1 && r.Intn(3) == 0
		var uses []*c04pUse
		for i := 0; i < nu; i++ {
			uses = append(uses, sc.genUse(r, rep, "", "", inter))
		}
		sc.group(r, rep, uses, inter, []string{"end", "end", "exec", "use", "random"}[r.Intn(5)], 60)
	}
	if inTxn {
		sc.mQuery("COMMIT", true)
	}
	sc.mSync(true)
	sc.prog[len(sc.prog)-1].drain = true

	// ---- run ----
	tape := vh.StartTape(r)
	defer vh.StopTape()
	s, err := rig.OpenPortal([]byte(connWriter), tape)
	if err != nil {
		rep.Violate("harness-error", "open: "+err.Error(), head)
		return
	}
	script := []string{"-- portal session as " + connWriter}
	var stream []vh.PortalMsg
	type mark struct {
		at    int      // position in stream
		upto  int      // client messages handled before this point
		queue []string // pending queue at the quiet point
	}
	var quiet []mark
	outstanding := 0
	var chunk []pgproto3.FrontendMessage
	closed := false
	for i, m := range sc.prog {
		script = append(script, m.text)
		if m.fault != nil {
			s.Fault(m.fault.portal, m.fault.skip, m.fault.after)
		}
		chunk = append(chunk, m.m)
		if m.ender {
			outstanding++
		}
		if !m.drain {
			continue
		}
		script = append(script, "  (wait for ReadyForQuery)")
		s.Send(chunk...)
		chunk = nil
		ms, cl := s.Collect(outstanding)
		outstanding = 0
		stream = append(stream, ms...)
		if cl {
			closed = true
			break
		}
		quiet = append(quiet, mark{at: len(stream), upto: i + 1, queue: s.Pending()})
	}
	terms := s.Terms()
	dbBound, _, execs, _, beErr := s.Close()
	_ = dbBound
	replay := head + "\n" + strings.Join(script, "\n")
	if debug {
		fmt.Fprintln(os.Stderr, replay)
	}
	if s.Panic != "" {
		rep.OracleChecks++
		rep.Violate("proxy-panic", "the proxy panicked: "+s.Panic, replay)
		return
	}
	if closed {
		rep.OracleChecks++
		if s.Hung {
			rep.Violate("harness-error", fmt.Sprintf("session hung (rig timeout, desync=%v)", s.Desync), replay)
		} else {
			rep.Violate("session-dropped", "the proxy closed the session ("+s.ProxyErr+")", replay)
		}
		return
	}
	if beErr != nil {
		rep.Violate("harness-error", "fake back end: "+beErr.Error(), replay)
		return
	}

	// ---- walk what the client received against what the back end sent ----
	var dbEvents [][]string // per quiet interval: Coq database events (with PHead)
	var obs [][]byte
	ti := 1 // terms[0] is the ReadyForQuery of the start-up phase
	var rows [][][]byte
	headDone := map[*vh.PxExec]bool{}
	qi := 0
	var cur []string
	desync := func(what string) {
		rep.OracleChecks++
		rep.Violate("protocol-desync", what, replay)
	}
	nextExec := func() *vh.PxExec { // the Execute the next rendezvous message belongs to
		if ti < len(terms) {
			return terms[ti].Exec
		}
		return nil
	}
	emitHead := func(x *vh.PxExec) {
		if x == nil || headDone[x] {
			return
		}
		headDone[x] = true
		cur = append(cur, "PHead")
		obs = append(obs, sc.encHead(x))
	}
	bad := false
	for pos := 0; pos <= len(stream) && !bad; pos++ {
		for qi < len(quiet) && quiet[qi].at == pos {
			cur = append(cur, "PQuiet")
			o := []byte{2}
			for _, e := range quiet[qi].queue {
				o = append(o, sc.encEntry(e)...)
			}
			obs = append(obs, o)
			rep.OracleChecks++
			if len(quiet[qi].queue) > 0 {
				rep.Violate("stale-pending-entry", fmt.Sprintf("nothing is in flight after message %d of the script, but pendingQueryPackets holds %q: the rows of the next statements are paired with these entries",
					quiet[qi].upto, quiet[qi].queue), replay)
			}
			dbEvents = append(dbEvents, cur)
			cur = nil
			qi++
		}
		if pos == len(stream) {
			break
		}
		m := stream[pos]
		switch m.Type {
		case 'D':
			emitHead(nextExec())
			cur = append(cur, "PRow")
			rows = append(rows, m.Row)
		case 'C', 's', 'I', 'E', 'Z':
			if ti >= len(terms) || terms[ti].Type != m.Type {
				desync(fmt.Sprintf("client received %q as rendezvous message %d, the back end sent %v", m.Type, ti, terms[min(ti, len(terms)-1)]))
				bad = true
				break
			}
			x := terms[ti].Exec
			ti++
			emitHead(x)
			cur = append(cur, map[byte]string{'C': "PTermC", 'I': "PTermC", 's': "PTermS", 'E': "PErr", 'Z': "PReady"}[m.Type])
			if x == nil {
				if len(rows) > 0 {
					desync(fmt.Sprintf("%d data rows before a %q that ends no Execute", len(rows), m.Type))
					bad = true
				}
			} else {
				sc.checkRows(rep, x, rows, replay)
			}
			rows = nil
		default:
			cur = append(cur, "PDbO")
		}
	}
	if bad {
		return
	}
	if ti != len(terms) {
		desync(fmt.Sprintf("the back end sent %d rendezvous messages, the client received %d", len(terms), ti))
		return
	}
	nExec, nSusp, nSkipped := 0, 0, 0
	for _, x := range execs {
		switch {
		case x.Skipped:
			nSkipped++
		case x.Term == 's':
			nSusp++
		}
		nExec++
		rep.Count("answer:" + map[byte]string{0: "skipped", 'C': "CommandComplete", 's': "PortalSuspended", 'I': "EmptyQueryResponse", 'E': "ErrorResponse"}[x.Term])
	}
	rep.Distribution["executes"] += nExec
	if nSusp > 0 {
		rep.Count("session:with-PortalSuspended")
	}
	if nSkipped > 0 {
		rep.Count("session:with-skipped-Execute")
	}

	// ---- model replay: per quiet interval the client events, then the database events ----
	var evs []string
	prev := 0
	for k, q := range quiet {
		for _, m := range sc.prog[prev:q.upto] {
			evs = append(evs, m.ev)
		}
		prev = q.upto
		evs = append(evs, dbEvents[k]...)
	}
	op := "(PSess [" + strings.Join(evs, "; ") + "])"
	rep.Add(fmt.Sprintf("scenario %d portal session: %s", sc.id, strings.Join(script, " ;; ")), op, vh.Ok(obs...))
}

// encEntry: a line of VerifPendingEntries as the model encodes a queue entry.
func (sc *c04pScenario) encEntry(e string) []byte {
	id := func(m map[string]int, k string) byte {
		if v, ok := m[k]; ok {
			return byte(v)
		}
		return 255
	}
	if strings.HasPrefix(e, "Q|") {
		return []byte{0, id(sc.sids, e[2:]), 0}
	}
	p := strings.SplitN(e, "|", 6)
	if len(p) != 6 {
		return []byte{254, 254, 254}
	}
	f := byte(0)
	if p[4] != "" {
		f = id(sc.fids, p[4])
	}
	return []byte{1, id(sc.sids, p[5]), f}
}

func (sc *c04pScenario) encHead(x *vh.PxExec) []byte {
	if x.QueueLen == 0 {
		return []byte{0}
	}
	return append([]byte{1}, sc.encEntry(x.Head)...)
}

// checkRows: the rows the client received for one Execute / Query against what the back end sent for it.
func (sc *c04pScenario) checkRows(rep *vh.Report, x *vh.PxExec, rows [][][]byte, replay string) {
	what := fmt.Sprintf("Execute(portal=%q, max_rows=%d) of %q", x.Portal, x.MaxRows, x.SQL)
	if x.Simple {
		what = fmt.Sprintf("Query(%q)", x.SQL)
	}
	rep.OracleChecks++
	if len(rows) != len(x.Sent) {
		rep.Violate("protocol-desync", fmt.Sprintf("the back end sent %d rows for %s, the client received %d", len(x.Sent), what, len(rows)), replay)
		return
	}
	var t *c04pTable
	switch x.Table {
	case sc.t.name:
		t = sc.t
	case sc.u.name:
		t = sc.u
	}
	idCol := -1
	for j, s := range x.Src {
		if s == "id" {
			idCol = j
		}
	}
	for i, row := range rows {
		if len(row) != len(x.Sent[i]) {
			rep.Violate("protocol-desync", fmt.Sprintf("row %d of %s has %d cells, the back end sent %d", i, what, len(row), len(x.Sent[i])), replay)
			continue
		}
		id := -1
		if idCol >= 0 {
			id, _ = strconv.Atoi(string(x.Stored[i][idCol]))
		}
		for j, cell := range row {
			rep.OracleChecks++
			var c *c04pCol
			if t != nil {
				c = t.col(x.Src[j])
			}
			binary := false
			switch len(x.Rfmt) {
			case 0:
			case 1:
				binary = x.Rfmt[0] == 1
			default:
				binary = j < len(x.Rfmt) && x.Rfmt[j] == 1
			}
			if c == nil || t == nil || !t.covered || !c.protected() {
				// uncovered: byte-identical to what the database sent
				if !bytes.Equal(cell, x.Sent[i][j]) || (cell == nil) != (x.Sent[i][j] == nil) {
					rep.Violate("uncovered-changed", fmt.Sprintf("uncovered column %s.%s (result column %d, row id %d) of %s: the database sent %q, the client received %q",
						x.Table, x.Src[j], j, id, what, x.Sent[i][j], cell), replay)
				}
				continue
			}
			want := sc.ref[t.name][id][c.name]
			got := cell
			if c.kind != "tstr" && !binary {
				if len(cell) < 2 || cell[0] != '\\' || cell[1] != 'x' {
					got = nil
				} else if d, err := hex.DecodeString(string(cell[2:])); err == nil {
					got = d
				} else {
					got = nil
				}
			}
			if !bytes.Equal(got, want) {
				rep.Violate("read-back", fmt.Sprintf("owner %s read %s.%s (result column %d, row id %d, format binary=%v) with %s: written %q, received %q",
					connWriter, t.name, c.name, j, id, binary, what, want, cell), replay)
			}
		}
	}
}
