package main

import (
	"context"
	"encoding/binary"
	"fmt"

	"acra-vh/vh"

	"github.com/cossacklabs/acra/acrablock"
	"github.com/cossacklabs/acra/acrastruct"
	"github.com/cossacklabs/acra/cmd/acra-translator/common"
	"github.com/cossacklabs/acra/crypto"
	"github.com/cossacklabs/acra/decryptor/base"
	"github.com/cossacklabs/acra/encryptor/base/config"
	"github.com/cossacklabs/themis/gothemis/keys"
)

// EnvOps executes envelope-layer operations on the real code and records them as model cases.
type EnvOps struct {
	rep *vh.Report
	r   *vh.Rng
}

const clientID = "client"

func init() {
	if err := crypto.InitRegistry(nil); err != nil {
		panic(err)
	}
}

func storeFor(ks *vh.KeySet) *vh.MemKeystore {
	m := vh.NewMemKeystore()
	if ks != nil {
		m.Clients[clientID] = ks
	}
	return m
}

func clientCtx() context.Context {
	return base.SetAccessContextToContext(context.Background(), base.NewAccessContext(base.WithClientID([]byte(clientID))))
}

func n8(n int) []byte { b := make([]byte, 8); binary.LittleEndian.PutUint64(b, uint64(n)); return b }

func handlerByID(id byte) crypto.ContainerHandler {
	h, err := crypto.GetHandlerByEnvelopeID(id)
	if err != nil {
		panic(err)
	}
	return h
}

func (e *EnvOps) withTape(f func() vh.Outcome) (vh.Outcome, [][]byte) {
	t := vh.StartTape(e.r)
	defer vh.StopTape()
	o := vh.Guard(f)
	return o, t.Chunks
}

func one(b []byte, err error) vh.Outcome {
	if err != nil {
		return vh.ErrO(err)
	}
	return vh.Ok(b)
}

func (e *EnvOps) AsCreate(label string, data, pub, ctx []byte) vh.Outcome {
	d := append([]byte{}, data...)
	o, tape := e.withTape(func() vh.Outcome {
		return one(acrastruct.CreateAcrastruct(d, &keys.PublicKey{Value: pub}, ctx))
	})
	e.rep.Add(label, fmt.Sprintf("AsCreate %s %s %s %s", vh.HL(tape), vh.H(data), vh.H(pub), vh.H(ctx)), o)
	return o
}

func (e *EnvOps) AsDecrypt(label string, data []byte, privs [][]byte, ctx []byte) vh.Outcome {
	var pk []*keys.PrivateKey
	for _, p := range privs {
		pk = append(pk, &keys.PrivateKey{Value: append([]byte{}, p...)})
	}
	d := append([]byte{}, data...)
	o := vh.Guard(func() vh.Outcome { return one(acrastruct.DecryptRotatedAcrastruct(d, pk, ctx)) })
	e.rep.Add(label, fmt.Sprintf("AsDecrypt %s %s %s", vh.H(data), vh.HL(privs), vh.H(ctx)), o)
	return o
}

func (e *EnvOps) AbCreate(label string, data, key, ctx []byte) vh.Outcome {
	d, k := append([]byte{}, data...), append([]byte{}, key...)
	o, tape := e.withTape(func() vh.Outcome { return one(acrablock.CreateAcraBlock(d, k, ctx)) })
	e.rep.Add(label, fmt.Sprintf("AbCreate %s %s %s %s", vh.HL(tape), vh.H(data), vh.H(key), vh.H(ctx)), o)
	return o
}

func (e *EnvOps) AbExtract(label string, data []byte) vh.Outcome {
	d := append([]byte{}, data...)
	o := vh.Guard(func() vh.Outcome {
		n, b, err := acrablock.ExtractAcraBlockFromData(d)
		if err != nil {
			return vh.ErrO(err)
		}
		return vh.Ok(n8(n), b)
	})
	e.rep.Add(label, "AbExtract "+vh.H(data), o)
	return o
}

func (e *EnvOps) AbDecrypt(label string, block []byte, ks [][]byte, ctx []byte) vh.Outcome {
	var kk [][]byte
	for _, k := range ks {
		kk = append(kk, append([]byte{}, k...))
	}
	b := append([]byte{}, block...)
	o := vh.Guard(func() vh.Outcome { return one(acrablock.AcraBlock(b).Decrypt(kk, ctx)) })
	e.rep.Add(label, fmt.Sprintf("AbDecrypt %s %s %s", vh.H(block), vh.HL(ks), vh.H(ctx)), o)
	return o
}

func (e *EnvOps) ScSerialize(label string, enc []byte, id byte) vh.Outcome {
	o := vh.Guard(func() vh.Outcome { return one(crypto.SerializeEncryptedData(append([]byte{}, enc...), id)) })
	e.rep.Add(label, fmt.Sprintf("ScSerialize %s %s", vh.H(enc), vh.H([]byte{id})), o)
	return o
}

func (e *EnvOps) ScDeserialize(label string, data []byte) vh.Outcome {
	o := vh.Guard(func() vh.Outcome {
		in, id, err := crypto.DeserializeEncryptedData(append([]byte{}, data...))
		if err != nil {
			return vh.ErrO(err)
		}
		return vh.Ok(in, []byte{id})
	})
	e.rep.Add(label, "ScDeserialize "+vh.H(data), o)
	return o
}

func (e *EnvOps) ScExtract(label string, data []byte) vh.Outcome {
	o := vh.Guard(func() vh.Outcome {
		n, c, err := crypto.ExtractSerializedContainer(append([]byte{}, data...))
		if err != nil {
			return vh.ErrO(err)
		}
		return vh.Ok(n8(n), c)
	})
	e.rep.Add(label, "ScExtract "+vh.H(data), o)
	return o
}

func (e *EnvOps) EncHandler(label string, id byte, ks *vh.KeySet, data []byte) vh.Outcome {
	rh := crypto.NewRegistryHandler(storeFor(ks))
	o, tape := e.withTape(func() vh.Outcome {
		return one(rh.EncryptWithHandler(handlerByID(id), []byte(clientID), append([]byte{}, data...)))
	})
	e.rep.Add(label, fmt.Sprintf("EncHandler %s %s %s %s", vh.H([]byte{id}), ks.Coq(), vh.HL(tape), vh.H(data)), o)
	return o
}

type envSetting struct {
	config.ColumnEncryptionSetting
	env config.CryptoEnvelopeType
}

func (s envSetting) GetCryptoEnvelope() config.CryptoEnvelopeType { return s.env }

// EncWithClientID goes through RegistryHandler.EncryptWithClientID (column encryptor entry); same model op.
func (e *EnvOps) EncWithClientID(label string, id byte, ks *vh.KeySet, data []byte) vh.Outcome {
	rh := crypto.NewRegistryHandler(storeFor(ks))
	env := config.CryptoEnvelopeTypeAcraStruct
	if id == crypto.AcraBlockEnvelopeID {
		env = config.CryptoEnvelopeTypeAcraBlock
	}
	o, tape := e.withTape(func() vh.Outcome {
		return one(rh.EncryptWithClientID([]byte(clientID), append([]byte{}, data...), envSetting{env: env}))
	})
	e.rep.Add(label, fmt.Sprintf("EncHandler %s %s %s %s", vh.H([]byte{id}), ks.Coq(), vh.HL(tape), vh.H(data)), o)
	return o
}

func (e *EnvOps) DecHandler(label string, id byte, ks *vh.KeySet, data []byte) vh.Outcome {
	st := storeFor(ks)
	rh := crypto.NewRegistryHandler(st)
	o := vh.Guard(func() vh.Outcome {
		return one(rh.DecryptWithHandler(handlerByID(id), append([]byte{}, data...), &base.DataProcessorContext{Keystore: st, Context: clientCtx()}))
	})
	e.rep.Add(label, fmt.Sprintf("DecHandler %s %s %s", vh.H([]byte{id}), ks.Coq(), vh.H(data)), o)
	return o
}

func (e *EnvOps) Process(label string, ks *vh.KeySet, data []byte) vh.Outcome {
	st := storeFor(ks)
	rh := crypto.NewRegistryHandler(st)
	o := vh.Guard(func() vh.Outcome {
		return one(rh.Process(append([]byte{}, data...), &base.DataProcessorContext{Keystore: st, Context: clientCtx()}))
	})
	e.rep.Add(label, fmt.Sprintf("Process %s %s", ks.Coq(), vh.H(data)), o)
	return o
}

func (e *EnvOps) OnColumn(label string, ks *vh.KeySet, data []byte) vh.Outcome {
	st := storeFor(ks)
	det := crypto.NewEnvelopeDetector()
	det.AddCallback(crypto.NewDecryptHandler(st, crypto.NewRegistryHandler(st)))
	o := vh.Guard(func() vh.Outcome {
		ctx, out, err := det.OnColumn(clientCtx(), append([]byte{}, data...))
		if err != nil {
			return vh.ErrO(err)
		}
		f := byte(0)
		if base.IsDecryptedFromContext(ctx) {
			f = 1
		}
		return vh.Ok(out, []byte{f})
	})
	e.rep.Add(label, fmt.Sprintf("OnColumn %s %s", ks.Coq(), vh.H(data)), o)
	return o
}

func translator(ks *vh.KeySet) *common.TranslatorService {
	svc, err := common.NewTranslatorService(&common.TranslatorData{Keystorage: storeFor(ks)})
	if err != nil {
		panic(err)
	}
	return svc
}

// TrEncrypt / TrDecrypt go through the translator service; model op = EncHandler / DecHandler.
func (e *EnvOps) TrEncrypt(label string, id byte, ks *vh.KeySet, data []byte) vh.Outcome {
	svc := translator(ks)
	o, tape := e.withTape(func() vh.Outcome {
		if id == crypto.AcraStructEnvelopeID {
			return one(svc.Encrypt(context.Background(), append([]byte{}, data...), []byte(clientID), nil))
		}
		return one(svc.EncryptSym(context.Background(), append([]byte{}, data...), []byte(clientID), nil))
	})
	e.rep.Add(label, fmt.Sprintf("EncHandler %s %s %s %s", vh.H([]byte{id}), ks.Coq(), vh.HL(tape), vh.H(data)), o)
	return o
}

func (e *EnvOps) TrDecrypt(label string, id byte, ks *vh.KeySet, data []byte) vh.Outcome {
	svc := translator(ks)
	o := vh.Guard(func() vh.Outcome {
		if id == crypto.AcraStructEnvelopeID {
			return one(svc.Decrypt(context.Background(), append([]byte{}, data...), []byte(clientID), nil))
		}
		return one(svc.DecryptSym(context.Background(), append([]byte{}, data...), []byte(clientID), nil))
	})
	e.rep.Add(label, fmt.Sprintf("DecHandler %s %s %s", vh.H([]byte{id}), ks.Coq(), vh.H(data)), o)
	return o
}

func (e *EnvOps) TrEncSearch(label string, id byte, ks *vh.KeySet, data []byte) vh.Outcome {
	svc := translator(ks)
	o, tape := e.withTape(func() vh.Outcome {
		var resp common.SearchableResponse
		var err error
		if id == crypto.AcraStructEnvelopeID {
			resp, err = svc.EncryptSearchable(context.Background(), append([]byte{}, data...), []byte(clientID), nil)
		} else {
			resp, err = svc.EncryptSymSearchable(context.Background(), append([]byte{}, data...), []byte(clientID), nil)
		}
		if err != nil {
			return vh.ErrO(err)
		}
		return vh.Ok(resp.EncryptedData, resp.Hash)
	})
	e.rep.Add(label, fmt.Sprintf("TrEncSearch %s %s %s %s", vh.H([]byte{id}), ks.Coq(), vh.HL(tape), vh.H(data)), o)
	return o
}

func (e *EnvOps) TrDecSearch(label string, id byte, ks *vh.KeySet, data, hash []byte) vh.Outcome {
	svc := translator(ks)
	o := vh.Guard(func() vh.Outcome {
		var h []byte
		if hash != nil {
			h = append([]byte{}, hash...)
		}
		if id == crypto.AcraStructEnvelopeID {
			return one(svc.DecryptSearchable(context.Background(), append([]byte{}, data...), h, []byte(clientID), nil))
		}
		return one(svc.DecryptSymSearchable(context.Background(), append([]byte{}, data...), h, []byte(clientID), nil))
	})
	e.rep.Add(label, fmt.Sprintf("TrDecSearch %s %s %s %s", vh.H([]byte{id}), ks.Coq(), vh.H(data), vh.HOpt(hash)), o)
	return o
}
