package main

// `acra-vh transgo`: Go -> Gallina translation (harness/xtr) of small pure attacker-facing functions of
// /repo, printed as coq/Gen/Trans.v on every run.  A construct outside the translator's subset, a callee
// that is not in the list, an error value without a class: the generator fails and ./check reports the
// broken tie.
import (
	"fmt"
	"os"

	"acra-vh/xtr"
)

func init() { generators["transgo"] = xtrEmitTrans }

// error classes: the ones of the hand-written models where they have one (Model/MysqlWire.v E_MALFORMED,
// E_EOF; Model/PgWire.v E_FORMAT), otherwise fresh numbers (the hand models collapse them to E_GENERIC)
var xtrTargets = []xtr.Target{
	{Pkg: "decryptor/mysql/base", Func: "LengthEncodedInt", Name: "LengthEncodedInt", Errs: map[string]uint64{"ErrMalformPacket": 20}},
	{Pkg: "decryptor/mysql/base", Func: "LengthEncodedString", Name: "LengthEncodedString", Errs: map[string]uint64{"io.EOF": 21}},
	{Pkg: "decryptor/mysql/base", Func: "SkipLengthEncodedString", Name: "SkipLengthEncodedString", Errs: map[string]uint64{"io.EOF": 21}},
	{Pkg: "decryptor/mysql/base", Func: "PutLengthEncodedInt", Name: "PutLengthEncodedInt"},
	{Pkg: "decryptor/mysql/base", Func: "Uint16ToBytes", Name: "Uint16ToBytes"},
	{Pkg: "decryptor/mysql/base", Func: "Uint32ToBytes", Name: "Uint32ToBytes"},
	{Pkg: "decryptor/mysql/base", Func: "Uint64ToBytes", Name: "Uint64ToBytes"},
	{Pkg: "acrastruct", Func: "GetMinAcraStructLength", Name: "GetMinAcraStructLength"},
	{Pkg: "acrastruct", Func: "GetDataLengthFromAcraStruct", Name: "GetDataLengthFromAcraStruct"},
	{Pkg: "acrastruct", Func: "ValidateAcraStructLength", Name: "ValidateAcraStructLength", Errs: map[string]uint64{
		"ErrIncorrectAcraStructLength": 40, "ErrIncorrectAcraStructTagBegin": 41, "ErrIncorrectAcraStructDataLength": 42}},
	{Pkg: "acrastruct", Func: "ExtractAcraStruct", Name: "ExtractAcraStruct", Errs: map[string]uint64{
		"ErrInvalidAcraStruct": 43, "ErrIncorrectAcraStructLength": 40}},
	{Pkg: "acrablock", Func: "AcraBlock.EncryptedDataEncryptionKeyLength", Name: "AcraBlock_EncryptedDataEncryptionKeyLength"},
	{Pkg: "acrablock", Func: "AcraBlock.getKeyEncryptionKeyID", Name: "AcraBlock_getKeyEncryptionKeyID", Errs: map[string]uint64{"ErrInvalidAcraBlock": 44}},
	{Pkg: "acrablock", Func: "ExtractAcraBlockFromData", Name: "ExtractAcraBlockFromData", Errs: map[string]uint64{"ErrInvalidAcraBlock": 44}},
	{Pkg: "crypto", Func: "getSerializedContainerLength", Name: "getSerializedContainerLength", Errs: map[string]uint64{"ErrIncorrectSerializedContainer": 45}},
	{Pkg: "decryptor/postgresql", Func: "GetParameterFormatByIndex", Name: "GetParameterFormatByIndex", Errs: map[string]uint64{"ErrNotEnoughFormats": 32, "ErrUnknownFormat": 32}},
	{Pkg: "keystore/v2/keystore/api", Func: "KeyStateTransitionValid", Name: "KeyStateTransitionValid"},
	// xtr2: append / make / nil-sensitive parameter / range loop
	{Pkg: "decryptor/mysql/base", Func: "PutLengthEncodedString", Name: "PutLengthEncodedString"},
	{Pkg: "utils", Func: "IsPrintableEscapeChar", Name: "IsPrintableEscapeChar"},
	{Pkg: "utils", Func: "EncodeToOctal", Name: "EncodeToOctal"},
	// xtr2: translator self-test (harness/xtr/selftest, NOT acra code): counted loop, fuelled scanner loop, make + copy
	{Pkg: xtr.SelftestPkg, Func: "SumWindow", Name: "Selftest_SumWindow"},
	{Pkg: xtr.SelftestPkg, Func: "ScanRecords", Name: "Selftest_ScanRecords", Errs: map[string]uint64{"ErrSelftestBad": 46}},
	{Pkg: xtr.SelftestPkg, Func: "PadCopy", Name: "Selftest_PadCopy"},
}

func xtrEmitTrans() {
	txt, err := xtr.Translate(repoDir(), xtrTargets)
	if err != nil {
		fmt.Fprintln(os.Stderr, "transgo: the Go source is outside the translated subset (the tie between code and Gen/Trans.v is broken):")
		fmt.Fprintln(os.Stderr, " ", err)
		os.Exit(1)
	}
	fmt.Print(txt)
}
