package main

// Domain c12, VALID stream, family "message rewritten in place" (round s32).
//
// The PacketHandler keeps ONE bytes.Buffer for the payload of every message of a connection: Reset() empties
// it, the capacity and the old bytes stay, and the parsed views of a message (ParsePacket fields, ...) may
// alias that buffer.  A rewrite therefore depends on (old length, new length, capacity, what the buffer held
// before), none of which the property allows to show.  This file generates, deterministically on every run:
//   * Parse ('P') messages with 0 / 1 / 3 parameter OIDs and statement names of 0 / 2 / 33 bytes whose query is
//     replaced by one that is shorter, equal, longer by 1, 2, 3, 23 bytes, and such that the new payload is
//     capacity-1 / capacity / capacity+1 / well beyond the capacity of the buffer;
//   * the same table for simple Query ('Q') messages, for Bind (parameter values growing / shrinking, NULL
//     parameters kept) and for DataRow;
//   * sessions: several messages through the SAME handler object (a longer / shorter message first, a Bind
//     rewrite first - ReplaceBind installs a new, smaller buffer - or another rewritten message first);
// each one through the REAL ReadClientPacket / ReadPacket -> ReplaceQuery / ReplaceBind / column path -> sendPacket
// AND (Parse, Query, Bind) through PgProxy.handleClientPacket with a registered query observer that does the
// rewriting (hooks VerifS14Proxy + VerifS32AddQueryObserver).
// Oracle (independent of the model): pgx's pgproto3 re-parses what was emitted: every field except the replaced
// one equals the original, declared length = actual length, and the bytes equal the protocol encoding written
// from the generator's own fields.  Replay: ops PgParseReplace / PgQuery / PgBindRewrite / PgRow / PgSession
// (the model compares the emitted bytes one by one).  c12InPlaceRandom adds seeded random sessions.

import (
	"bytes"
	"context"
	"encoding/binary"
	"encoding/hex"
	"fmt"
	"strings"

	"acra-vh/vh"

	acracensor "github.com/cossacklabs/acra/acra-censor"
	"github.com/cossacklabs/acra/decryptor/base"
	"github.com/cossacklabs/acra/decryptor/postgresql"
	encpg "github.com/cossacklabs/acra/encryptor/postgresql"
	"github.com/cossacklabs/acra/sqlparser"
	pg_query "github.com/cossacklabs/pg_query_go/v5"
	"github.com/jackc/pgx/v5/pgproto3"
)

// ---------- what is done to one message ----------

const (
	c12RwKeep  = iota // relayed as it is
	c12RwQuery        // ReplaceQuery(q)
	c12RwBind         // GetBindData, parameter values replaced by tr (nil = keep), ReplaceBind
	c12RwRow          // parseColumns(fmts), SetData on every non-NULL column (tr or its own bytes), updateDataFromColumns
)

type c12Rw struct {
	kind int
	q    []byte
	tr   [][]byte
	fmts []uint16
}

func (x c12Rw) coq() string {
	switch x.kind {
	case c12RwQuery:
		return "RwQuery " + vh.H(x.q)
	case c12RwBind:
		return "RwBind " + coqOptList(x.tr)
	case c12RwRow:
		return "RwRow " + coqNList(x.fmts) + " " + coqOptList(x.tr)
	}
	return "RwKeep"
}

func c12RwsCoq(rws []c12Rw) string {
	parts := make([]string, len(rws))
	for i, x := range rws {
		parts[i] = x.coq()
	}
	return "[" + strings.Join(parts, "; ") + "]"
}

// c12ApplyRw performs one rewrite on the message the handler read last, the way the proxy's handlers do.
func c12ApplyRw(h *postgresql.PacketHandler, x c12Rw) error {
	switch x.kind {
	case c12RwQuery:
		h.ReplaceQuery(string(x.q))
	case c12RwBind:
		b, err := h.GetBindData()
		if err != nil {
			return err
		}
		_, _, _, pv, _ := b.VerifFields()
		for i := range pv {
			if i < len(x.tr) && x.tr[i] != nil {
				b.VerifSetParamValue(i, x.tr[i])
			}
		}
		return h.ReplaceBind(b)
	case c12RwRow:
		if err := h.VerifParseColumns(x.fmts); err != nil {
			return err
		}
		if h.VerifColumnCount() != 0 {
			for i := 0; i < h.VerifColumnCount(); i++ {
				c := h.Columns[i]
				if c.IsNull() {
					continue
				}
				if i < len(x.tr) && x.tr[i] != nil {
					c.SetData(x.tr[i])
				} else {
					c.SetData(c.GetData())
				}
			}
			h.VerifUpdateDataFromColumns()
		}
	}
	return nil
}

// PgSession: len(rws) messages of the stream through ONE handler object: read, rewrite, send each.
// caps[i] = capacity of the packet buffer when message i had been read (before its rewrite).
func (w *WireOps) PgSession(label string, client bool, stream []byte, rws []c12Rw) (vh.Outcome, []int) {
	var caps []int // its length - 1 is also the message a failure happened at
	o := w.add(label, "(PgSession "+vh.H(stream)+" "+c12RwsCoq(rws)+")", vh.Guard(func() vh.Outcome {
		h, out := newHandler(client, stream)
		var outs [][]byte
		for _, x := range rws {
			caps = append(caps, -1)
			if err := readOne(h, client); err != nil {
				return vh.ErrO(err)
			}
			caps[len(caps)-1] = h.VerifS32BufferCap()
			if err := c12ApplyRw(h, x); err != nil {
				return vh.ErrO(err)
			}
			before := out.Len()
			if err := h.VerifSendPacket(); err != nil {
				return vh.ErrO(err)
			}
			outs = append(outs, append([]byte{}, out.Bytes()[before:]...))
		}
		return vh.Ok(outs...)
	}))
	return o, caps
}

// c12ProbeCap: capacity of a new handler's buffer after it has read the first message of the stream.
func c12ProbeCap(client bool, stream []byte) int {
	h, _ := newHandler(client, stream)
	if err := readOne(h, client); err != nil {
		return -1
	}
	return h.VerifS32BufferCap()
}

// ---------- the proxy with a query observer that rewrites ----------

// c12RewritingObserver answers the i-th OnQuery / OnBind call with the i-th planned rewrite.
type c12RewritingObserver struct {
	queries [][]byte   // nil = leave the query alone
	binds   [][][]byte // nil = leave the parameters alone; inner nil = keep that value
	nq, nb  int
}

func (o *c12RewritingObserver) ID() string { return "c12-rewriting-observer" }
func (o *c12RewritingObserver) OnQuery(ctx context.Context, data encpg.OnQueryObject) (encpg.OnQueryObject, bool, error) {
	i := o.nq
	o.nq++
	if i >= len(o.queries) || o.queries[i] == nil {
		return data, false, nil
	}
	return encpg.NewOnQueryObjectFromQuery(string(o.queries[i])), true, nil
}
func (o *c12RewritingObserver) OnBind(ctx context.Context, statement *pg_query.ParseResult, values []base.BoundValue) ([]base.BoundValue, bool, error) {
	i := o.nb
	o.nb++
	if i >= len(o.binds) || o.binds[i] == nil {
		return values, false, nil
	}
	for j := range values {
		if j < len(o.binds[i]) && o.binds[i][j] != nil {
			// a copy: the proxy zeroizes the values of a Bind packet when it is done with it
			if err := values[j].SetData(append([]byte{}, o.binds[i][j]...), nil); err != nil {
				return values, false, err
			}
		}
	}
	return values, true, nil
}

// c12ProxySession: the messages of a client stream through ONE client-side handler and ONE proxy state whose
// query observer performs the planned rewrites: ReadClientPacket -> handleClientPacket -> sendPacket.
func c12ProxySession(stream []byte, n int, obs *c12RewritingObserver) (vh.Outcome, int) {
	at := -1 // the message being handled
	o := vh.Guard(func() vh.Outcome {
		sess := &c12MemSession{data: map[string]interface{}{}}
		px, err := postgresql.NewVerifS14Proxy(sess, sqlparser.New(sqlparser.ModeStrict), acracensor.NewAcraCensor())
		if err != nil {
			return vh.Outcome{Kind: "panic", Msg: "harness: cannot build the proxy state: " + err.Error()}
		}
		// the statements Bind messages refer to ("s1" and the unnamed one) exist before the observer is registered
		for _, st := range []c12GenMsg{c12ParseGen("s1", []byte("select 1"), nil), c12ParseGen("", []byte("select 1"), nil)} {
			hs, _ := newHandler(true, st.bytes())
			if err := readOne(hs, true); err != nil {
				return vh.Outcome{Kind: "panic", Msg: "harness: set-up Parse not read: " + err.Error()}
			}
			if _, err := px.HandleClientPacket(hs); err != nil {
				return vh.Outcome{Kind: "panic", Msg: "harness: set-up Parse not accepted: " + err.Error()}
			}
		}
		px.VerifS32AddQueryObserver(obs)
		h, out := newHandler(true, stream)
		var outs [][]byte
		for i := 0; i < n; i++ {
			at = i
			if err := readOne(h, true); err != nil {
				return vh.ErrO(err)
			}
			censored, err := px.HandleClientPacket(h)
			if err != nil {
				return vh.ErrO(err)
			}
			if censored {
				return vh.Outcome{Kind: "err", Msg: "censored"}
			}
			before := out.Len()
			if err := h.VerifSendPacket(); err != nil {
				return vh.ErrO(err)
			}
			outs = append(outs, append([]byte{}, out.Bytes()[before:]...))
		}
		return vh.Ok(outs...)
	})
	return o, at
}

// c12SameObservation: two observations of the same operation are the same (kind and bytes)
func c12SameObservation(a, b vh.Outcome) bool {
	if a.Kind != b.Kind || len(a.Vals) != len(b.Vals) {
		return false
	}
	for i := range a.Vals {
		if !bytes.Equal(a.Vals[i], b.Vals[i]) {
			return false
		}
	}
	return true
}

// c12AddProxyObservation records what the proxy path emitted as the SAME model op as the handler path (the model
// of the handler path is the specification of the proxy path too).  When both paths gave the very same observation
// the pair (op, expected) is already in the case files, and replaying it twice would repeat the same computation.
func c12AddProxyObservation(w *WireOps, label, op string, handler, proxy vh.Outcome) {
	if c12SameObservation(handler, proxy) {
		w.rep.Count("inplace:proxy-observation:identical-to-the-replayed-handler-observation")
		return
	}
	w.rep.Count("inplace:proxy-observation:differs-from-handler-observation(replayed)")
	w.add(label, op, proxy)
}

// ---------- messages built from the generator's own fields (protocol text, independent of acra) ----------

type c12GenMsg struct {
	tag byte
	// Parse
	name  string
	query []byte
	oids  []uint32
	// Bind
	bind *pgproto3.Bind
	// DataRow
	cols [][]byte
	// anything else: opaque payload
	payload []byte
}

func c12EncOids(oids []uint32) []byte {
	o := be2(uint16(len(oids)))
	for _, v := range oids {
		o = append(o, be4(v)...)
	}
	return o
}

func (m c12GenMsg) bytes() []byte {
	switch m.tag {
	case 'P':
		return frame('P', cat([]byte(m.name), []byte{0}, m.query, []byte{0}, c12EncOids(m.oids)))
	case 'Q':
		return frame('Q', cat(m.query, []byte{0}))
	case 'B':
		b, err := m.bind.Encode(nil)
		if err != nil {
			panic("c12: pgproto3 cannot encode the generated Bind: " + err.Error())
		}
		return b
	case 'D':
		return refDataRow(m.cols)
	}
	return frame(m.tag, m.payload)
}

// c12Intended: the message the proxy must emit for (m, x): the original with exactly the replaced field changed.
func c12Intended(m c12GenMsg, x c12Rw) []byte {
	switch {
	case x.kind == c12RwQuery && (m.tag == 'P' || m.tag == 'Q'):
		n := m
		n.query = x.q
		return n.bytes()
	case x.kind == c12RwBind && m.tag == 'B':
		nb := *m.bind
		nb.Parameters = make([][]byte, len(m.bind.Parameters))
		for i, p := range m.bind.Parameters {
			nb.Parameters[i] = p
			if i < len(x.tr) && x.tr[i] != nil {
				nb.Parameters[i] = x.tr[i]
			}
		}
		n := m
		n.bind = &nb
		return n.bytes()
	case x.kind == c12RwRow && m.tag == 'D':
		n := m
		n.cols = make([][]byte, len(m.cols))
		for i, c := range m.cols {
			n.cols[i] = c
			if c != nil && i < len(x.tr) && x.tr[i] != nil {
				n.cols[i] = x.tr[i]
			}
		}
		return n.bytes()
	}
	return m.bytes()
}

func c12FormatAt(codes []int16, i int) int16 {
	switch len(codes) {
	case 0:
		return 0
	case 1:
		return codes[0]
	}
	if i < len(codes) {
		return codes[i]
	}
	return -1
}

// c12JudgeRewrite: the independent decoder (pgproto3) re-parses the emitted message; everything except the
// replaced field must be what the original message carried.  bindSemantic: (proxy path of Bind only) SetParameters
// re-encodes the parameter format codes, so those are compared by meaning (format of parameter i), not by bytes.
func c12JudgeRewrite(rep *vh.Report, class, lab string, m c12GenMsg, x c12Rw, emitted []byte, bindSemantic bool, replay string) bool {
	rep.OracleChecks++
	orig := m.bytes()
	want := c12Intended(m, x)
	bad := ""
	switch {
	case len(emitted) < 5 || emitted[0] != m.tag:
		bad = "not a framed message of the original type"
	case int(binary.BigEndian.Uint32(emitted[1:5])) != len(emitted)-1:
		bad = fmt.Sprintf("declared message length %d != actual %d", binary.BigEndian.Uint32(emitted[1:5]), len(emitted)-1)
	}
	if bad == "" {
		switch m.tag {
		case 'P':
			var o, e pgproto3.Parse
			if err := o.Decode(orig[5:]); err != nil {
				panic("c12: generated Parse does not decode: " + err.Error())
			}
			wantQ := string(m.query)
			if x.kind == c12RwQuery {
				wantQ = string(x.q)
			}
			if err := e.Decode(emitted[5:]); err != nil {
				bad = "pgproto3 cannot decode the emitted Parse: " + err.Error()
			} else if e.Name != o.Name {
				bad = fmt.Sprintf("statement name changed: %q -> %q", o.Name, e.Name)
			} else if len(e.ParameterOIDs) != len(o.ParameterOIDs) {
				bad = fmt.Sprintf("parameter count changed: %d -> %d", len(o.ParameterOIDs), len(e.ParameterOIDs))
			} else if fmt.Sprint(e.ParameterOIDs) != fmt.Sprint(o.ParameterOIDs) {
				bad = fmt.Sprintf("parameter type OIDs changed: %v -> %v", o.ParameterOIDs, e.ParameterOIDs)
			} else if e.Query != wantQ {
				bad = "query text is not the intended one"
			}
		case 'Q':
			var e pgproto3.Query
			wantQ := string(m.query)
			if x.kind == c12RwQuery {
				wantQ = string(x.q)
			}
			if err := e.Decode(emitted[5:]); err != nil {
				bad = "pgproto3 cannot decode the emitted Query: " + err.Error()
			} else if e.String != wantQ {
				bad = "query text is not the intended one"
			}
		case 'B':
			var e, wv pgproto3.Bind
			if err := wv.Decode(want[5:]); err != nil {
				panic("c12: intended Bind does not decode: " + err.Error())
			}
			if err := e.Decode(emitted[5:]); err != nil {
				bad = "pgproto3 cannot decode the emitted Bind: " + err.Error()
			} else if e.DestinationPortal != wv.DestinationPortal || e.PreparedStatement != wv.PreparedStatement {
				bad = "portal / statement name changed"
			} else if fmt.Sprint(e.ResultFormatCodes) != fmt.Sprint(wv.ResultFormatCodes) {
				bad = "result format codes changed"
			} else if !eqVals(e.Parameters, wv.Parameters) {
				bad = "parameter values / NULL markers differ from the intended ones"
			} else {
				for i := range wv.Parameters {
					if c12FormatAt(e.ParameterFormatCodes, i) != c12FormatAt(wv.ParameterFormatCodes, i) {
						bad = fmt.Sprintf("format of parameter %d changed", i)
					}
				}
				if !bindSemantic && fmt.Sprint(e.ParameterFormatCodes) != fmt.Sprint(wv.ParameterFormatCodes) {
					bad = "parameter format codes changed"
				}
			}
		case 'D':
			var e, wv pgproto3.DataRow
			if err := wv.Decode(want[5:]); err != nil {
				panic("c12: intended DataRow does not decode: " + err.Error())
			}
			if err := e.Decode(emitted[5:]); err != nil {
				bad = "pgproto3 cannot decode the emitted DataRow: " + err.Error()
			} else if len(e.Values) != len(wv.Values) {
				bad = fmt.Sprintf("column count %d != %d", len(e.Values), len(wv.Values))
			} else if !eqVals(e.Values, wv.Values) {
				bad = "column values / NULL markers differ from the intended ones"
			}
		}
	}
	if bad == "" && !(bindSemantic && m.tag == 'B') && !bytes.Equal(emitted, want) {
		bad = "bytes differ from the original message with only the replaced field changed"
	}
	if bad != "" {
		rep.Violate(class, "rewritten "+c12TagName(m.tag)+" message is not the original with only the replaced field changed: "+bad,
			lab+" "+replay+" emitted="+hex.EncodeToString(emitted)+" expected="+hex.EncodeToString(want))
		return false
	}
	return true
}

func c12TagName(tag byte) string {
	switch tag {
	case 'P':
		return "Parse"
	case 'Q':
		return "Query"
	case 'B':
		return "Bind"
	case 'D':
		return "DataRow"
	}
	return fmt.Sprintf("%q", tag)
}

func c12RwClass(tag byte) string {
	switch tag {
	case 'P':
		return "pg-parse-rewrite"
	case 'Q':
		return "pg-query-rewrite"
	case 'B':
		return "pg-bind-rewrite"
	case 'D':
		return "pg-datarow-rewrite"
	}
	return "pg-relay-identity"
}

func c12RwText(x c12Rw) string {
	switch x.kind {
	case c12RwQuery:
		return "new-query=" + hex.EncodeToString(x.q)
	case c12RwBind, c12RwRow:
		parts := make([]string, len(x.tr))
		for i, v := range x.tr {
			if v == nil {
				parts[i] = "keep"
			} else {
				parts[i] = hex.EncodeToString(v)
			}
		}
		return fmt.Sprintf("new-values=[%s] formats=%v", strings.Join(parts, ","), x.fmts)
	}
	return "keep"
}

// c12SessionReplay: the whole history in a replay line (which message of which stream got which rewrite).
func c12SessionReplay(msgs []c12GenMsg, rws []c12Rw, i int) string {
	var s []string
	for j := range msgs {
		s = append(s, fmt.Sprintf("message%d=%s %s", j, hex.EncodeToString(msgs[j].bytes()), c12RwText(rws[j])))
	}
	return fmt.Sprintf("failing-message=%d history: %s", i, strings.Join(s, " | "))
}

func c12Stream(msgs []c12GenMsg) []byte {
	var s []byte
	for _, m := range msgs {
		s = append(s, m.bytes()...)
	}
	return s
}

// c12JudgeSession: every message of a session against the intended one.
func c12JudgeSession(rep *vh.Report, lab, path string, msgs []c12GenMsg, rws []c12Rw, o vh.Outcome, caps []int, failedAt int, bindSemantic bool) {
	if o.Kind != "ok" || len(o.Vals) != len(msgs) {
		rep.OracleChecks++
		if failedAt < 0 || failedAt >= len(msgs) {
			failedAt = len(msgs) - 1
		}
		rep.Violate(c12RwClass(msgs[failedAt].tag), fmt.Sprintf("%s failed at message %d of a session of well-formed messages with valid rewrites: %s", path, failedAt, o.String()),
			lab+" "+c12SessionReplay(msgs, rws, failedAt))
		return
	}
	for i, m := range msgs {
		if i < len(caps) && rws[i].kind != c12RwKeep {
			if len(o.Vals[i])-5 <= caps[i] {
				rep.Count("inplace:" + c12TagName(m.tag) + ":new-payload-fits-capacity")
			} else {
				rep.Count("inplace:" + c12TagName(m.tag) + ":new-payload-exceeds-capacity")
			}
		}
		if !c12JudgeRewrite(rep, c12RwClass(m.tag), lab, m, rws[i], o.Vals[i], bindSemantic, path+" "+c12SessionReplay(msgs, rws, i)) {
			return
		}
	}
}

// c12HandlerSession runs a session through the handler path (replayed on the model) and judges it.
func c12HandlerSession(w *WireOps, lab string, client bool, msgs []c12GenMsg, rws []c12Rw) vh.Outcome {
	o, caps := w.PgSession(lab+" handler session", client, c12Stream(msgs), rws)
	c12JudgeSession(w.rep, lab, "handler-path", msgs, rws, o, caps, len(caps)-1, false)
	return o
}

// c12ProxySessionJudged runs a client session through PgProxy.handleClientPacket with the rewriting observer.
// The observation is recorded as the same PgSession op (the model of the handler path is also the specification
// of the proxy path) unless a Bind is rewritten there (SetParameters re-encodes the format codes: oracle only).
func c12ProxySessionJudged(w *WireOps, lab string, msgs []c12GenMsg, rws []c12Rw, handler vh.Outcome) {
	rep := w.rep
	obs := &c12RewritingObserver{}
	hasBind := false
	for i, m := range msgs {
		switch m.tag {
		case 'P', 'Q':
			if rws[i].kind == c12RwQuery {
				obs.queries = append(obs.queries, rws[i].q)
			} else {
				obs.queries = append(obs.queries, nil)
			}
		case 'B':
			if rws[i].kind == c12RwBind {
				obs.binds = append(obs.binds, rws[i].tr)
				hasBind = true
			} else {
				obs.binds = append(obs.binds, nil)
			}
		}
	}
	stream := c12Stream(msgs)
	o, at := c12ProxySession(stream, len(msgs), obs)
	noPanic(rep, "PgProxy.handleClientPacket(rewriting observer)", o, lab, stream)
	if hasBind {
		rep.Count("oracle-only:proxy-rewrite:bind")
	} else {
		c12AddProxyObservation(w, lab+" proxy session", "(PgSession "+vh.H(stream)+" "+c12RwsCoq(rws)+")", handler, o)
	}
	c12JudgeSession(rep, lab, "proxy-path(handleClientPacket+query observer)", msgs, rws, o, nil, at, hasBind)
}

// ---------- generators ----------

// c12Sql: a valid SQL text of exactly n bytes (n >= 8) that differs from the original queries everywhere
// it can: "select 1" followed by a comment of varying letters (spaces while there is no room for "--").
func c12Sql(n int, salt int) []byte {
	base := "select 1"
	if n <= len(base) {
		return []byte(base[:n])
	}
	b := []byte(base)
	if n < len(base)+3 {
		return append(b, bytes.Repeat([]byte{' '}, n-len(base))...)
	}
	b = append(b, '-', '-')
	for i := 0; len(b) < n; i++ {
		b = append(b, byte('a'+(i*7+salt)%26))
	}
	return b
}

var c12InPlaceDeltas = []int{-7, -1, 0, 1, 2, 3, 23}

const c12OldParseQuery = "SELECT $1, $2, $3 FROM t" // 24 bytes

func c12ParseGen(name string, query []byte, oids []uint32) c12GenMsg {
	return c12GenMsg{tag: 'P', name: name, query: query, oids: oids}
}

func c12BindGen(portal, stmt string, fmts []int16, params [][]byte, rfs []int16) c12GenMsg {
	return c12GenMsg{tag: 'B', bind: &pgproto3.Bind{DestinationPortal: portal, PreparedStatement: stmt, ParameterFormatCodes: fmts, Parameters: params, ResultFormatCodes: rfs}}
}

// c12Resize: a value of n bytes that differs from v
func c12Resize(n int, salt int) []byte {
	b := make([]byte, n)
	for i := range b {
		b[i] = byte(0xA0 + (i*5+salt)%80)
	}
	return b
}

type c12ValueCase struct {
	what, class string
	tr          [][]byte
}

// c12ValueCases: rewrite tables for a list of values (nil = NULL, which stays NULL).  The TARGET value - the first
// and, in a second pass, the last non-NULL one - gets the table's size change (the delta table; with capEdges also
// the sizes that make the whole payload capacity-1 / capacity / capacity+1 / capacity+77); the other non-NULL
// values are, in turn, KEPT (so the bytes emitted for them are the ones read from the message, after an earlier
// value changed its size), grown, or shrunk.
func c12ValueCases(vals [][]byte, capacity, payloadLen int, capEdges bool) []c12ValueCase {
	first, last := -1, -1
	for i, v := range vals {
		if v != nil {
			if first < 0 {
				first = i
			}
			last = i
		}
	}
	targets := []int{first}
	if last != first {
		targets = append(targets, last)
	}
	var out []c12ValueCase
	for ti, target := range targets {
		oldLen := len(vals[target])
		type lc struct {
			class string
			n     int
			exact bool
		}
		var lcs []lc
		for _, d := range c12InPlaceDeltas {
			lcs = append(lcs, lc{fmt.Sprintf("delta%+d", d), oldLen + d, false})
		}
		if capEdges {
			for _, e := range []int{-1, 0, 1, 77} {
				lcs = append(lcs, lc{fmt.Sprintf("capacity%+d", e), capacity + e - (payloadLen - oldLen), true})
			}
		}
		for ci, c := range lcs {
			tr := make([][]byte, len(vals))
			for i, v := range vals {
				switch {
				case v == nil:
				case i == target:
					tr[i] = c12Resize(c.n, ti+ci)
				case c.exact || (ci+ti)%2 == 1: // kept
				case (ci+ti)%4 == 0:
					tr[i] = c12Resize(len(v)+ci+1, ci)
				default:
					tr[i] = c12Resize(len(v)/2, ci)
				}
			}
			out = append(out, c12ValueCase{fmt.Sprintf("target=%d %s", target, c.class), c.class, tr})
		}
	}
	return out
}

// c12InPlaceTables: the deterministic part (every run, both tiers, independent of the seed and of -n).
func c12InPlaceTables(w *WireOps, thorough bool) {
	rep := w.rep
	names := []string{"", "s1", "statement_with_a_longer_name_0123"}
	oidSets := [][]uint32{nil, {23}, {23, 25, 17}}

	// --- Parse: name x OIDs x (delta | capacity edge), fresh handler, handler path and proxy path
	for ni, name := range names {
		for oi, oids := range oidSets {
			m := c12ParseGen(name, []byte(c12OldParseQuery), oids)
			full := m.bytes()
			capacity := c12ProbeCap(true, full)
			fixed := len(full) - 5 - len(m.query) // payload bytes that are not query text
			type tcase struct {
				what string
				n    int
			}
			var cases []tcase
			for _, d := range c12InPlaceDeltas {
				cases = append(cases, tcase{fmt.Sprintf("delta%+d", d), len(m.query) + d})
			}
			for _, e := range []int{-1, 0, 1, 77} {
				// all four edges for the 2-byte name; the last fitting and the first exceeding size for the others
				if ni == 1 || thorough || e == 0 || e == 1 {
					cases = append(cases, tcase{fmt.Sprintf("capacity%+d", e), capacity + e - fixed})
				}
			}
			for ci, c := range cases {
				q := c12Sql(c.n, ni+3*oi+ci)
				x := c12Rw{kind: c12RwQuery, q: q}
				lab := fmt.Sprintf("table in-place parse name=%d oids=%d %s", len(name), len(oids), c.what)
				rep.Count("inplace:table:parse:" + c.what)
				o := w.PgParseReplace(lab+" ReplaceQuery", full, q)
				if o.Kind != "ok" {
					rep.OracleChecks++
					rep.Violate("pg-parse-rewrite", "ReadClientPacket/ReplaceQuery/sendPacket failed on a well-formed Parse message: "+o.String(), lab+" message="+hex.EncodeToString(full)+" "+c12RwText(x))
				} else {
					c12JudgeRewrite(rep, "pg-parse-rewrite", lab, m, x, o.Vals[0], false, "handler-path message="+hex.EncodeToString(full)+" "+c12RwText(x))
				}
				if thorough || (strings.HasPrefix(c.what, "delta") && (ni < 2 || strings.HasPrefix(c.what, "delta+"))) || (ni == 1 && strings.HasPrefix(c.what, "capacity")) {
					// the proxy path: one message, recorded as the same op
					obs := &c12RewritingObserver{queries: [][]byte{q}}
					po, _ := c12ProxySession(full, 1, obs)
					noPanic(rep, "PgProxy.handleClientPacket(rewriting observer)", po, lab, full)
					c12AddProxyObservation(w, lab+" proxy", "(PgParseReplace "+vh.H(full)+" "+vh.H(q)+")", o, po)
					rep.Count("inplace:table:parse-proxy:" + c.what)
					if po.Kind != "ok" {
						rep.OracleChecks++
						rep.Violate("pg-parse-rewrite", "the proxy does not relay a well-formed Parse message whose query an observer rewrote: "+po.String(), lab+" proxy-path message="+hex.EncodeToString(full)+" "+c12RwText(x))
					} else {
						c12JudgeRewrite(rep, "pg-parse-rewrite", lab, m, x, po.Vals[0], false, "proxy-path(handleClientPacket+query observer) message="+hex.EncodeToString(full)+" "+c12RwText(x))
					}
				}
			}
		}
	}

	// --- simple Query: old length x (delta | capacity edge)
	for li, oldLen := range []int{0, 1, 8, 40} {
		old := c12Sql(oldLen, 11)
		m := c12GenMsg{tag: 'Q', query: old}
		full := m.bytes()
		capacity := c12ProbeCap(true, full)
		var lens []int
		var whats []string
		for _, d := range c12InPlaceDeltas {
			if oldLen+d >= 0 {
				lens, whats = append(lens, oldLen+d), append(whats, fmt.Sprintf("delta%+d", d))
			}
		}
		for _, e := range []int{-1, 0, 1, 77} {
			if li == 2 || (thorough && li > 0) || e == 1 {
				lens, whats = append(lens, capacity+e-1), append(whats, fmt.Sprintf("capacity%+d", e))
			}
		}
		for ci, n := range lens {
			q := c12Sql(n, li+ci)
			x := c12Rw{kind: c12RwQuery, q: q}
			lab := fmt.Sprintf("table in-place query old=%d %s", oldLen, whats[ci])
			rep.Count("inplace:table:query:" + whats[ci])
			o := w.PgQuery(lab+" ReplaceQuery", full, q)
			if o.Kind != "ok" {
				rep.OracleChecks++
				rep.Violate("pg-query-rewrite", "ReadClientPacket/ReplaceQuery/sendPacket failed on a well-formed Query message: "+o.String(), lab+" message="+hex.EncodeToString(full)+" "+c12RwText(x))
			} else {
				c12JudgeRewrite(rep, "pg-query-rewrite", lab, m, x, o.Vals[0], false, "handler-path message="+hex.EncodeToString(full)+" "+c12RwText(x))
			}
			if n > 0 { // an observer cannot hand back an empty query object
				po, _ := c12ProxySession(full, 1, &c12RewritingObserver{queries: [][]byte{q}})
				noPanic(rep, "PgProxy.handleClientPacket(rewriting observer)", po, lab, full)
				c12AddProxyObservation(w, lab+" proxy", "(PgQuery "+vh.H(full)+" "+vh.H(q)+")", o, po)
				if po.Kind != "ok" {
					rep.OracleChecks++
					rep.Violate("pg-query-rewrite", "the proxy does not relay a well-formed Query message whose text an observer rewrote: "+po.String(), lab+" proxy-path message="+hex.EncodeToString(full)+" "+c12RwText(x))
				} else {
					c12JudgeRewrite(rep, "pg-query-rewrite", lab, m, x, po.Vals[0], false, "proxy-path(handleClientPacket+query observer) message="+hex.EncodeToString(full)+" "+c12RwText(x))
				}
			}
		}
	}

	// --- Bind: parameter values growing / shrinking / kept, NULL parameters kept
	bindShapes := []c12GenMsg{
		c12BindGen("", "", nil, [][]byte{[]byte("0123456789abcdefghij")}, nil),
		c12BindGen("p1", "s1", []int16{0, 1, 0, 1}, [][]byte{[]byte("abcdefgh"), nil, {}, []byte("0123456789abcdefghij")}, []int16{1}),
		c12BindGen("portal", "", []int16{1}, [][]byte{nil, []byte("0123456789abcdefghij"), nil, []byte("klmnopqrstuvwxyz")}, []int16{0, 1}),
	}
	for si, m := range bindShapes {
		full := m.bytes()
		for _, c := range c12ValueCases(m.bind.Parameters, c12ProbeCap(true, full), len(full)-5, si == 1 || thorough) {
			x := c12Rw{kind: c12RwBind, tr: c.tr}
			lab := fmt.Sprintf("table in-place bind shape=%d %s", si, c.what)
			rep.Count("inplace:table:bind:" + c.class)
			o := w.PgBindRewrite(lab+" ReplaceBind", full, c.tr)
			if o.Kind != "ok" {
				rep.OracleChecks++
				rep.Violate("pg-bind-rewrite", "ReadClientPacket/GetBindData/ReplaceBind/sendPacket failed on a well-formed Bind message: "+o.String(), lab+" message="+hex.EncodeToString(full)+" "+c12RwText(x))
			} else {
				c12JudgeRewrite(rep, "pg-bind-rewrite", lab, m, x, o.Vals[0], false, "handler-path message="+hex.EncodeToString(full)+" "+c12RwText(x))
			}
		}
	}

	// --- DataRow, one row: column values growing / shrinking / kept, NULL columns kept
	rowShapes := [][][]byte{
		{[]byte("0123456789abcdefghij")},
		{[]byte("abcdefgh"), nil, {}, []byte("0123456789abcdefghij")},
		{nil, []byte("0123456789abcdefghij"), nil, []byte("klmnopqrstuvwxyz")},
	}
	for si, cols := range rowShapes {
		m := c12GenMsg{tag: 'D', cols: cols}
		full := m.bytes()
		for ci, c := range c12ValueCases(cols, c12ProbeCap(false, full), len(full)-5, si == 1 || thorough) {
			fmts := [][]uint16{nil, {1}, {0, 1, 0, 1}}[ci%3]
			if len(fmts) > 1 {
				fmts = fmts[:len(cols)]
			}
			x := c12Rw{kind: c12RwRow, tr: c.tr, fmts: fmts}
			lab := fmt.Sprintf("table in-place datarow shape=%d %s", si, c.what)
			rep.Count("inplace:table:datarow:" + c.class)
			o := w.PgRow(lab+" column path", fmts, c.tr, full)
			if o.Kind != "ok" {
				rep.OracleChecks++
				rep.Violate("pg-datarow-rewrite", "ReadPacket/parseColumns/SetData/updateDataFromColumns/sendPacket failed on a well-formed DataRow: "+o.String(), lab+" message="+hex.EncodeToString(full)+" "+c12RwText(x))
			} else {
				c12JudgeRewrite(rep, "pg-datarow-rewrite", lab, m, x, o.Vals[0], false, "handler-path message="+hex.EncodeToString(full)+" "+c12RwText(x))
			}
		}
	}

	// --- sessions: the SAME handler object sees an earlier message first (buffer reuse across messages)
	sync := c12GenMsg{tag: 'S', payload: []byte{}}
	bigQ := c12Sql(1100, 5) // grows the buffer beyond its initial capacity
	p0 := c12ParseGen("s1", []byte(c12OldParseQuery), []uint32{23, 17})
	pNone := c12ParseGen("", []byte(c12OldParseQuery), nil)
	pBig := c12ParseGen("big", bigQ, []uint32{25})
	q0 := c12GenMsg{tag: 'Q', query: []byte("SELECT id, data FROM t WHERE id = 17")}
	b0 := bindShapes[1]
	rq := func(n, salt int) c12Rw { return c12Rw{kind: c12RwQuery, q: c12Sql(n, salt)} }
	keep := c12Rw{kind: c12RwKeep}
	bindTr := func(n int) c12Rw {
		return c12Rw{kind: c12RwBind, tr: [][]byte{c12Resize(n, 1), nil, c12Resize(3, 2), c12Resize(n+5, 3)}}
	}
	bindFirst := func(n int) c12Rw { return c12Rw{kind: c12RwBind, tr: [][]byte{c12Resize(n, 4), nil, nil, nil}} }
	type sessionCase struct {
		what string
		msgs []c12GenMsg
		rws  []c12Rw
	}
	var clientSessions []sessionCase
	for _, d := range []int{-7, 0, 1, 2, 3, 23} {
		n := len(c12OldParseQuery) + d
		clientSessions = append(clientSessions,
			sessionCase{fmt.Sprintf("sync,parse%+d", d), []c12GenMsg{sync, p0}, []c12Rw{keep, rq(n, d)}},
			sessionCase{fmt.Sprintf("parse%+d,parse-no-oids%+d", d, d), []c12GenMsg{p0, pNone}, []c12Rw{rq(n, d+1), rq(n, d+2)}},
			sessionCase{fmt.Sprintf("big-parse-kept,parse%+d", d), []c12GenMsg{pBig, p0}, []c12Rw{keep, rq(n, d+3)}},
			sessionCase{fmt.Sprintf("query-rewritten,parse%+d,query%+d", d, d), []c12GenMsg{q0, p0, q0}, []c12Rw{rq(60, 4), rq(n, d+4), rq(len(q0.query)+d, d+5)}},
			sessionCase{fmt.Sprintf("bind-rewritten,parse%+d,bind-rewritten", d), []c12GenMsg{b0, p0, b0}, []c12Rw{bindTr(30), rq(n, d+6), bindTr(8 + d)}},
		)
	}
	clientSessions = append(clientSessions,
		sessionCase{"parse-to-1500,parse+1,parse-shrunk", []c12GenMsg{p0, p0, pBig}, []c12Rw{rq(1500, 1), rq(len(c12OldParseQuery)+1, 2), rq(40, 3)}},
		sessionCase{"big-parse-shrunk,parse+23", []c12GenMsg{pBig, p0}, []c12Rw{rq(9, 1), rq(len(c12OldParseQuery)+23, 2)}},
		sessionCase{"bind-grown,bind-shrunk,bind-kept", []c12GenMsg{b0, b0, b0}, []c12Rw{bindTr(300), bindTr(1), keep}},
		sessionCase{"parse+1,bind-first-value-grown-rest-kept,bind-first-value-shrunk-rest-kept", []c12GenMsg{p0, b0, b0}, []c12Rw{rq(len(c12OldParseQuery)+1, 9), bindFirst(31), bindFirst(2)}},
	)
	for _, s := range clientSessions {
		lab := "table in-place session " + s.what
		rep.Count("inplace:table:session:client")
		ho := c12HandlerSession(w, lab, true, s.msgs, s.rws)
		c12ProxySessionJudged(w, lab, s.msgs, s.rws, ho)
	}
	// database side: data rows after a longer / shorter row on the same handler
	long := c12GenMsg{tag: 'D', cols: [][]byte{c12Resize(200, 1), nil, c12Resize(40, 2), {}}}
	short := c12GenMsg{tag: 'D', cols: [][]byte{[]byte("ab"), nil, []byte("c"), []byte("de")}}
	huge := c12GenMsg{tag: 'D', cols: [][]byte{c12Resize(1500, 3)}}
	empty := c12GenMsg{tag: 'D', cols: nil}
	rr := func(fmts []uint16, vals ...[]byte) c12Rw { return c12Rw{kind: c12RwRow, fmts: fmts, tr: vals} }
	dbSessions := []sessionCase{
		{"long-kept,short-grown", []c12GenMsg{long, short}, []c12Rw{rr(nil), rr(nil, c12Resize(3, 1), nil, c12Resize(24, 2), nil)}},
		{"long-shrunk,short-grown,long-grown", []c12GenMsg{long, short, long}, []c12Rw{rr([]uint16{1}, c12Resize(2, 1), nil, []byte{}, nil),
			rr([]uint16{0, 1, 0, 1}, c12Resize(25, 2), nil, c12Resize(2, 3), c12Resize(2, 4)), rr(nil, c12Resize(201, 5), nil, c12Resize(63, 6), c12Resize(1, 7))}},
		{"short-grown,long-shrunk", []c12GenMsg{short, long}, []c12Rw{rr(nil, c12Resize(400, 1), nil, nil, c12Resize(3, 2)), rr(nil, c12Resize(1, 3), nil, c12Resize(39, 4), nil)}},
		{"huge-kept,short-equal-length,empty,short-grown", []c12GenMsg{huge, short, empty, short}, []c12Rw{keep, rr(nil, []byte("AB"), nil, []byte("C"), []byte("DE")), rr(nil), rr(nil, nil, nil, nil, c12Resize(1200, 1))}},
		{"short-grown-to-1500,long-kept,short-kept", []c12GenMsg{short, long, short}, []c12Rw{rr(nil, c12Resize(1500, 1)), keep, rr(nil)}},
	}
	for _, s := range dbSessions {
		lab := "table in-place session " + s.what
		rep.Count("inplace:table:session:database")
		c12HandlerSession(w, lab, false, s.msgs, s.rws)
	}
}

// c12InPlaceRandom: one seeded random session of 2..4 messages through one handler (client or database side);
// the size change of every rewrite is drawn from the delta table, the capacity edges or at random.
func c12InPlaceRandom(w *WireOps, r *vh.Rng, lab string) {
	rep := w.rep
	newLen := func(old int) int {
		var n int
		switch r.Intn(4) {
		case 0:
			n = old + c12InPlaceDeltas[r.Intn(len(c12InPlaceDeltas))]
		case 1:
			n = old + 1 + r.Intn(40)
		case 2:
			n = 1000 + r.Intn(60) // around the initial capacity of the buffer
		default:
			n = r.Intn(old + 1)
		}
		if n < 0 {
			n = 0
		}
		return n
	}
	k := 2 + r.Intn(3)
	var msgs []c12GenMsg
	var rws []c12Rw
	if r.Intn(3) == 0 { // database side: data rows
		for i := 0; i < k; i++ {
			cols := make([][]byte, r.Intn(5))
			tr := make([][]byte, len(cols))
			for j := range cols {
				if r.Intn(4) == 0 {
					continue
				}
				cols[j] = genValue(r, genLen(r, false))
				if r.Intn(3) != 0 {
					tr[j] = c12Resize(newLen(len(cols[j])), r.Intn(50))
				}
			}
			msgs = append(msgs, c12GenMsg{tag: 'D', cols: cols})
			if r.Intn(6) == 0 {
				rws = append(rws, c12Rw{kind: c12RwKeep})
			} else {
				rws = append(rws, c12Rw{kind: c12RwRow, tr: tr, fmts: genFormats(r, len(cols))})
			}
		}
		rep.Count("inplace:random:database-session")
		c12HandlerSession(w, lab+" in-place random database session", false, msgs, rws)
		return
	}
	for i := 0; i < k; i++ {
		switch r.Intn(4) {
		case 0, 1:
			oids := make([]uint32, r.Intn(5))
			for j := range oids {
				oids[j] = uint32(r.U64())
			}
			name := string(bytes.ReplaceAll(r.Bytes(r.Intn(40)), []byte{0}, []byte{'n'}))
			old := c12Sql(8+r.Intn(60), r.Intn(26))
			msgs = append(msgs, c12ParseGen(name, old, oids))
			n := newLen(len(old))
			if n < 8 {
				n = 8
			}
			rws = append(rws, c12Rw{kind: c12RwQuery, q: c12Sql(n, r.Intn(26))})
		case 2:
			old := c12Sql(8+r.Intn(60), r.Intn(26))
			msgs = append(msgs, c12GenMsg{tag: 'Q', query: old})
			n := newLen(len(old))
			if n < 8 {
				n = 8
			}
			rws = append(rws, c12Rw{kind: c12RwQuery, q: c12Sql(n, r.Intn(26))})
		default:
			np := r.Intn(5)
			params := make([][]byte, np)
			tr := make([][]byte, np)
			for j := range params {
				if r.Intn(4) == 0 {
					continue
				}
				params[j] = genValue(r, genLen(r, false))
				if r.Intn(3) != 0 {
					tr[j] = c12Resize(newLen(len(params[j])), r.Intn(50))
				}
			}
			var fm, rf []int16
			for _, f := range genFormats(r, np) {
				fm = append(fm, int16(f))
			}
			for j := r.Intn(3); j > 0; j-- {
				rf = append(rf, int16(r.Intn(2)))
			}
			msgs = append(msgs, c12BindGen(string(bytes.ReplaceAll(r.Bytes(r.Intn(6)), []byte{0}, []byte{'p'})), "", fm, params, rf))
			rws = append(rws, c12Rw{kind: c12RwBind, tr: tr})
		}
		if r.Intn(8) == 0 {
			rws[len(rws)-1] = c12Rw{kind: c12RwKeep}
		}
	}
	rep.Count("inplace:random:client-session")
	ho := c12HandlerSession(w, lab+" in-place random client session", true, msgs, rws)
	// the proxy path: Bind messages refer to the unnamed statement, which c12ProxySession registers first
	c12ProxySessionJudged(w, lab+" in-place random client session", msgs, rws, ho)
}
