package main

// c16fw — property C16, the firewall half: literal values of client statements never appear in a log entry of
// acra-censor nor in the query_capture file, for all firewall configurations and log levels.
//
// Implementation side: the REAL firewall (acracensor.LoadConfiguration on a YAML configuration + HandleQuery) with a
// logrus hook that keeps every entry (level, message, every field).  Configurations are swept systematically:
//   handler kind (query_ignore, allow, deny, allowall, denyall, query_capture)
//   x how the handler relates to the statement (listed verbatim / listed in another spelling, so that it matches by
//     its normalized form / matched by table / not matched)
//   x parseable / unparseable statement  x ignore_parse_error on / off  x log level (debug, info; thorough: all)
//   x position of the handler in a chain (alone, after query_capture, before allowall / denyall, after a
//     non-matching query_ignore, before query_capture + deny)  x parse_errors_log on / off  x dialect,
// over the statement templates of c16.go with fresh marker literals at every literal position, then random chains.
// Model side (Model.RunCensorLog): the handler chain with each handler's verdict on the statement (observed on the
// real handler objects one by one) is run through the table-driven model of HandleQuery; expected = the firewall's
// own log entries (level, which text of the statement the entry carries, message).
// Oracle (independent of the model): no marker literal in any captured entry (message or field) nor in the capture
// file; an unparsed statement appears in no entry (it may be in the parse_errors_log file only).

import (
	"fmt"
	"os"
	"path/filepath"
	"sort"
	"strconv"
	"strings"
	"sync"
	"time"

	"acra-vh/vh"

	acracensor "github.com/cossacklabs/acra/acra-censor"
	"github.com/cossacklabs/acra/acra-censor/common"
	"github.com/cossacklabs/acra/acra-censor/handlers"
	"github.com/cossacklabs/acra/sqlparser"
	"github.com/sirupsen/logrus"
)

func init() { register("c16fw", "Model.RunCensorLog", runC16fw) }

type c16fwEntry struct {
	level   logrus.Level
	msg     string
	service string
	all     string // level|message|k=v... : what the oracle searches
}

type c16fwHook struct {
	mu      sync.Mutex
	entries []c16fwEntry
}

func (h *c16fwHook) Levels() []logrus.Level { return logrus.AllLevels }
func (h *c16fwHook) Fire(e *logrus.Entry) error {
	var sb strings.Builder
	sb.WriteString(e.Level.String() + "|" + e.Message)
	keys := make([]string, 0, len(e.Data))
	for k := range e.Data {
		keys = append(keys, k)
	}
	sort.Strings(keys)
	for _, k := range keys {
		fmt.Fprintf(&sb, "|%s=%v", k, e.Data[k])
	}
	ent := c16fwEntry{level: e.Level, msg: e.Message, all: sb.String()}
	if s, ok := e.Data["service"]; ok {
		ent.service = fmt.Sprint(s)
	}
	h.mu.Lock()
	h.entries = append(h.entries, ent)
	h.mu.Unlock()
	return nil
}
func (h *c16fwHook) take() []c16fwEntry {
	h.mu.Lock()
	defer h.mu.Unlock()
	e := h.entries
	h.entries = nil
	return e
}

var c16fwKinds = []string{"query_ignore", "allow", "deny", "allowall", "denyall", "query_capture"}

// how the handler relates to the statement
var c16fwRelations = map[string][]string{
	"query_ignore":  {"listed-verbatim", "listed-other-spelling", "not-listed"},
	"allow":         {"listed-verbatim", "listed-other-spelling", "by-table", "not-listed"},
	"deny":          {"listed-verbatim", "listed-other-spelling", "by-table", "not-listed"},
	"allowall":      {"any"},
	"denyall":       {"any"},
	"query_capture": {"any"},
}

var c16fwChains = []string{"alone", "after-capture", "before-allowall", "before-denyall", "after-ignore-miss", "before-capture-deny"}

var c16fwKeywords = map[string]bool{"select": true, "from": true, "where": true, "and": true, "or": true, "insert": true, "into": true,
	"values": true, "update": true, "set": true, "delete": true, "in": true, "like": true, "between": true, "limit": true, "order": true,
	"by": true, "group": true, "having": true, "union": true, "as": true, "on": true, "join": true, "not": true, "is": true, "null": true,
	"exists": true, "case": true, "when": true, "then": true, "else": true, "end": true, "offset": true, "all": true}

// c16fwOtherSpelling: the same statement with upper-case keywords and doubled blanks outside of quoted text
func c16fwOtherSpelling(sql string) string {
	var sb strings.Builder
	i := 0
	for i < len(sql) {
		c := sql[i]
		switch {
		case c == '\'' || c == '"' || c == '`':
			j := i + 1
			for j < len(sql) {
				if sql[j] == '\\' && j+1 < len(sql) {
					j += 2
					continue
				}
				if sql[j] == c {
					if j+1 < len(sql) && sql[j+1] == c {
						j += 2
						continue
					}
					break
				}
				j++
			}
			if j < len(sql) {
				j++
			}
			sb.WriteString(sql[i:j])
			i = j
		case c == ' ':
			sb.WriteString("  ")
			i++
		case (c >= 'a' && c <= 'z') || (c >= 'A' && c <= 'Z') || c == '_':
			j := i
			for j < len(sql) && ((sql[j] >= 'a' && sql[j] <= 'z') || (sql[j] >= 'A' && sql[j] <= 'Z') || (sql[j] >= '0' && sql[j] <= '9') || sql[j] == '_') {
				j++
			}
			w := sql[i:j]
			// not a prefix of a literal (X'..', b'..', E'..') and not part of a number (1e3 is consumed with its digits below)
			if c16fwKeywords[w] && !(j < len(sql) && sql[j] == '\'') {
				w = strings.ToUpper(w)
			}
			sb.WriteString(w)
			i = j
		case c >= '0' && c <= '9':
			j := i
			for j < len(sql) && ((sql[j] >= '0' && sql[j] <= '9') || (sql[j] >= 'a' && sql[j] <= 'z') || (sql[j] >= 'A' && sql[j] <= 'Z') || sql[j] == '.') {
				j++
			}
			sb.WriteString(sql[i:j])
			i = j
		default:
			sb.WriteByte(c)
			i++
		}
	}
	return sb.String()
}

type c16fwScenario struct {
	kind, relation, chain string
	wantParsed            bool
	ignoreParseError      bool
	level                 logrus.Level
	writer                bool
	dialect               string
	ti                    int
}

type c16fwCfg struct {
	yaml     string
	captures []string
	unparsed string
}

func c16fwQuote(s string) string { return strconv.Quote(s) }

// c16fwHandlerYAML: one handler entry of the configuration
func c16fwHandlerYAML(kind, relation, sql, other string, dir string, id *int, cfg *c16fwCfg) string {
	var sb strings.Builder
	fmt.Fprintf(&sb, "  - handler: %s\n", kind)
	listed := ""
	switch relation {
	case "listed-verbatim":
		listed = sql
	case "listed-other-spelling":
		listed = other
	case "not-listed":
		listed = "select c16fw_other from c16fw_table where x = 'c16fw'"
	}
	switch kind {
	case "query_ignore":
		fmt.Fprintf(&sb, "    queries:\n      - %s\n", c16fwQuote(listed))
		if relation == "not-listed" {
			sb.WriteString("      - select 1\n")
		}
	case "allow", "deny":
		if relation == "by-table" {
			sb.WriteString("    tables:\n      - t1\n      - t2\n      - t9\n")
		} else {
			fmt.Fprintf(&sb, "    queries:\n      - %s\n", c16fwQuote(listed))
		}
	case "query_capture":
		*id++
		p := filepath.Join(dir, fmt.Sprintf("capture_%d.log", *id))
		cfg.captures = append(cfg.captures, p)
		fmt.Fprintf(&sb, "    filepath: %s\n", p)
	}
	return sb.String()
}

func c16fwBuildCfg(sc c16fwScenario, sql, other, dir string, id *int) c16fwCfg {
	cfg := c16fwCfg{}
	var sb strings.Builder
	sb.WriteString("version: 0.85.0\n")
	fmt.Fprintf(&sb, "ignore_parse_error: %v\n", sc.ignoreParseError)
	if sc.writer {
		*id++
		cfg.unparsed = filepath.Join(dir, fmt.Sprintf("unparsed_%d.log", *id))
		fmt.Fprintf(&sb, "parse_errors_log: %s\n", cfg.unparsed)
	}
	sb.WriteString("handlers:\n")
	main := func() string { return c16fwHandlerYAML(sc.kind, sc.relation, sql, other, dir, id, &cfg) }
	switch sc.chain {
	case "alone":
		sb.WriteString(main())
	case "after-capture":
		sb.WriteString(c16fwHandlerYAML("query_capture", "any", sql, other, dir, id, &cfg))
		sb.WriteString(main())
	case "before-allowall":
		sb.WriteString(main())
		sb.WriteString("  - handler: allowall\n")
	case "before-denyall":
		sb.WriteString(main())
		sb.WriteString("  - handler: denyall\n")
	case "after-ignore-miss":
		sb.WriteString(c16fwHandlerYAML("query_ignore", "not-listed", sql, other, dir, id, &cfg))
		sb.WriteString(main())
	case "before-capture-deny":
		sb.WriteString(main())
		sb.WriteString(c16fwHandlerYAML("query_capture", "any", sql, other, dir, id, &cfg))
		sb.WriteString(c16fwHandlerYAML("deny", "by-table", sql, other, dir, id, &cfg))
	}
	cfg.yaml = sb.String()
	return cfg
}

// c16fwMsgPrefixes: the constant head (up to the first format verb) of the message of every log call of the firewall
func c16fwMsgPrefixes() []string {
	t := c16fwLoadSites()
	seen := map[string]bool{}
	var out []string
	add := func(m string) {
		if i := strings.IndexByte(m, '%'); i >= 0 {
			m = m[:i]
		}
		if !seen[m] {
			seen[m] = true
			out = append(out, m)
		}
	}
	for _, c := range t.Calls {
		if c.Site != nil {
			add(c.Site.Msg)
		}
	}
	for _, h := range t.Helpers {
		for _, cl := range h.Clauses {
			for _, s := range cl.Sites {
				add(s.Msg)
			}
		}
	}
	sort.Slice(out, func(i, j int) bool { return len(out[i]) > len(out[j]) })
	return out
}

func c16fwLevelCode(l logrus.Level) int { return int(l) } // logrus: panic 0 ... trace 6

func runC16fw(rep *vh.Report, r *vh.Rng, n int, thorough bool) {
	type viol struct{ class, what, replay string }
	var viols []viol
	violate := func(class, what, replay string) { viols = append(viols, viol{class, what, replay}) }
	defer func() {
		sort.SliceStable(viols, func(i, j int) bool {
			return len(viols[i].what)+len(viols[i].replay) < len(viols[j].what)+len(viols[j].replay)
		})
		for _, v := range viols {
			rep.Violate(v.class, v.what, v.replay)
		}
	}()
	hook := &c16fwHook{}
	logrus.AddHook(hook)
	tmp, err := os.MkdirTemp("", "c16fw")
	if err != nil {
		panic(err)
	}
	defer os.RemoveAll(tmp)
	prefixes := c16fwMsgPrefixes()

	// templates: parseable ones (no plain-text-field literals: known finding of the parser) and unparseable ones
	var okT, badT []int
	for i, t := range c16Templates {
		switch {
		case strings.HasPrefix(t.pos, "text-field:"):
		case strings.HasPrefix(t.pos, "unparsed:"):
			badT = append(badT, i)
		default:
			okT = append(okT, i)
		}
	}
	levels := []logrus.Level{logrus.DebugLevel, logrus.InfoLevel}
	if thorough {
		levels = []logrus.Level{logrus.TraceLevel, logrus.DebugLevel, logrus.InfoLevel, logrus.WarnLevel, logrus.ErrorLevel}
	}

	// ---- the systematic sweep ----
	var base []c16fwScenario
	for _, kind := range c16fwKinds {
		for _, rel := range c16fwRelations[kind] {
			for _, parsed := range []bool{true, false} {
				if !parsed && (rel == "listed-other-spelling" || ((kind == "allow" || kind == "deny") && rel == "listed-verbatim")) {
					// an unparseable statement has no other spelling that matches; allow / deny reject an unparseable entry
					continue
				}
				for _, ign := range []bool{true, false} {
					for _, lv := range levels {
						base = append(base, c16fwScenario{kind: kind, relation: rel, wantParsed: parsed, ignoreParseError: ign, level: lv})
					}
				}
			}
		}
	}
	reps := n / len(base)
	if reps < 1 {
		reps = 1
	}
	if thorough {
		reps = len(c16fwChains) * 4
	}
	var scs []c16fwScenario
	k := 0
	for rp := 0; rp < reps; rp++ {
		for bi, sc := range base {
			sc.chain = c16fwChains[(rp+bi)%len(c16fwChains)]
			sc.writer = (rp+bi/2)%2 == 0
			sc.dialect = []string{"mysql", "pg"}[(rp+bi/3)%2]
			if sc.wantParsed {
				sc.ti = okT[k%len(okT)]
			} else {
				sc.ti = badT[k%len(badT)]
			}
			k += 5
			scs = append(scs, sc)
		}
	}
	// ---- random tail: any handler, any relation, any chain ----
	for len(scs) < n {
		kind := c16fwKinds[r.Intn(len(c16fwKinds))]
		rels := c16fwRelations[kind]
		sc := c16fwScenario{kind: kind, relation: rels[r.Intn(len(rels))], wantParsed: r.Intn(4) != 0, ignoreParseError: r.Bool(),
			level: levels[r.Intn(len(levels))], chain: c16fwChains[r.Intn(len(c16fwChains))], writer: r.Bool(),
			dialect: []string{"mysql", "pg"}[r.Intn(2)]}
		if sc.wantParsed {
			sc.ti = okT[r.Intn(len(okT))]
		} else {
			sc.ti = badT[r.Intn(len(badT))]
			if sc.relation == "listed-other-spelling" || ((kind == "allow" || kind == "deny") && sc.relation == "listed-verbatim") {
				sc.relation = "not-listed"
			}
		}
		scs = append(scs, sc)
	}

	fileID := 0
	strict := sqlparser.New(sqlparser.ModeStrict)
	for si, sc := range scs {
		setDialect(sc.dialect)
		g := genStatement(r, rep, sc.ti, sc.dialect, "")
		normalized, redacted, parsedStmt, perr := strict.HandleRawSQLQuery(g.sql)
		parsed := perr == nil
		other := g.sql
		relation := sc.relation
		if relation == "listed-other-spelling" {
			other = c16fwOtherSpelling(g.sql)
			on, _, _, oerr := strict.HandleRawSQLQuery(other)
			if oerr != nil || on != normalized || other == g.sql {
				rep.Count("other-spelling:not-equivalent")
				relation = "listed-verbatim"
			} else {
				rep.Count("other-spelling:ok")
			}
		}
		sc.relation = relation
		hook.take()
		cfg := c16fwBuildCfg(sc, g.sql, other, tmp, &fileID)
		known := ""
		if g.dialect == "mysql" && strings.Contains(strings.ToLower(g.sql), "substr(\"") {
			known = "dq-string-in-substr-parsed-as-column"
		}
		vclass := func(c string) string {
			if known != "" {
				return known
			}
			return c
		}
		lab := fmt.Sprintf("#%d %s/%s/%s parsed=%v ignore_parse_error=%v level=%s writer=%v %s %s", si, sc.kind, sc.relation, sc.chain,
			parsed, sc.ignoreParseError, sc.level, sc.writer, sc.dialect, g.pos)
		replay := fmt.Sprintf("dialect=%s level=%s sql=%q\nconfiguration:\n%s", sc.dialect, sc.level, g.sql, cfg.yaml)

		logrus.SetLevel(logrus.TraceLevel)
		censor := acracensor.NewAcraCensor()
		if err := censor.LoadConfiguration([]byte(cfg.yaml)); err != nil {
			// e.g. allow / deny with a listed statement the parser rejects: not a configuration
			rep.Count("config-rejected:" + sc.kind + "/" + sc.relation)
			censor.ReleaseAll()
			hook.take()
			continue
		}
		// entries of the configuration phase: the operator's own text, not a client statement; not searched
		hook.take()
		rep.Count(fmt.Sprintf("cfg:%s/%s parsed=%v", sc.kind, sc.relation, parsed))
		rep.Count("chain:" + sc.chain)
		rep.Count("level:" + sc.level.String())
		rep.Count(fmt.Sprintf("ignore_parse_error:%v", sc.ignoreParseError))
		rep.Count("dialect:" + sc.dialect)

		// each handler's verdict on the statement, asked of the real handler objects one by one
		var hs []string
		for _, h := range censor.VerifHandlers() {
			switch hv := h.(type) {
			case *handlers.QueryCaptureHandler:
				hs = append(hs, "HCapture")
			case *handlers.QueryIgnoreHandler:
				cont, _ := hv.CheckQuery(g.sql, parsedStmt)
				hs = append(hs, fmt.Sprintf("HIgnore %v", !cont))
				rep.Count(fmt.Sprintf("verdict:ignore-match=%v", !cont))
			default:
				cont, cerr := h.CheckQuery(normalized, parsedStmt)
				switch {
				case cerr != nil:
					hs = append(hs, "HCheck VDeny")
					rep.Count("verdict:deny")
				case !cont:
					hs = append(hs, "HCheck VAllowStop")
					rep.Count("verdict:allow-stop")
				default:
					hs = append(hs, "HCheck VContinue")
					rep.Count("verdict:continue")
				}
			}
		}
		hook.take()

		logrus.SetLevel(sc.level)
		var herr error
		o := vh.Guard(func() vh.Outcome {
			herr = censor.HandleQuery(g.sql)
			return vh.Ok()
		})
		entries := hook.take()
		logrus.SetLevel(logrus.TraceLevel)
		rep.OracleChecks++
		if o.Kind == "panic" {
			violate("censor-panic", "HandleQuery panicked: "+o.Msg, replay)
			continue
		}
		tr, tn, td := common.TrimStringToN(g.sql, common.LogQueryLength), common.TrimStringToN(normalized, common.LogQueryLength), common.TrimStringToN(redacted, common.LogQueryLength)
		var vals [][]byte
		for _, e := range entries {
			// --- oracle: no literal of the statement in any entry, message or field, whoever logged it ---
			rep.OracleChecks++
			if hit := findMarker(e.all, g.markers); hit != "" {
				cl := "literal-in-censor-log"
				if !parsed {
					cl = "unparsed-statement-in-censor-log"
				}
				violate(vclass(cl), fmt.Sprintf("%s/%s: censor log entry %q contains the literal %s", sc.kind, sc.relation, e.all, hit), replay)
			}
			if !parsed {
				rep.OracleChecks++
				if strings.Contains(e.all, tr) {
					violate(vclass("unparsed-statement-in-censor-log"), fmt.Sprintf("%s/%s: censor log entry %q carries the statement that did not parse", sc.kind, sc.relation, e.all), replay)
				}
			}
			if e.service != acracensor.ServiceName {
				rep.Count("entry:handler")
				continue
			}
			// --- the entry as the model sees it ---
			kind := 0
			switch {
			case tr != td && strings.Contains(e.all, tr):
				kind = 1
			case tn != td && tn != "" && strings.Contains(e.all, tn):
				kind = 2
			case td != "" && strings.Contains(e.all, td):
				kind = 3
			}
			rep.Count(fmt.Sprintf("entry:%s kind=%d", e.level, kind))
			msg := e.msg
			for _, p := range prefixes {
				if strings.HasPrefix(e.msg, p) {
					msg = p
					break
				}
			}
			vals = append(vals, append([]byte{byte(c16fwLevelCode(e.level)), byte(kind)}, []byte(msg)...))
		}
		den := byte(0)
		if herr != nil {
			den = 1
		}
		vals = append(vals, []byte{den})
		rep.Count(fmt.Sprintf("denied:%v", herr != nil))
		if parsed && tr == td {
			// no literal within the part of the statement a log line shows: which text an entry carries cannot be told
			// from the entry; the oracle above still ran
			rep.Count("replay-skip:no-literal-in-logged-part")
		} else {
			rep.Add(lab+" "+fmt.Sprintf("%q", g.sql), fmt.Sprintf("(Censor [%s] %v %v %v %d)", strings.Join(hs, "; "), censor.VerifIgnoreParseError(),
				censor.VerifHasUnparsedWriter(), parsed, c16fwLevelCode(sc.level)), vh.Ok(vals...))
		}

		// --- release: the writers flush; entries of the release are searched as well; the capture file ---
		vh.Guard(func() vh.Outcome { censor.ReleaseAll(); return vh.Ok() })
		if len(cfg.captures) > 0 {
			time.Sleep(12 * time.Millisecond)
		}
		for _, e := range hook.take() {
			rep.OracleChecks++
			if hit := findMarker(e.all, g.markers); hit != "" {
				violate(vclass("literal-in-censor-log"), fmt.Sprintf("censor log entry (release) %q contains the literal %s", e.all, hit), replay)
			}
		}
		for _, cp := range cfg.captures {
			rep.OracleChecks++
			if data, err := os.ReadFile(cp); err == nil {
				if hit := findMarker(string(data), g.markers); hit != "" {
					violate(vclass("literal-in-capture-file"), fmt.Sprintf("query_capture file holds the literal %s: %q", hit, string(data)), replay)
				}
				if !parsed && strings.Contains(string(data), tr) {
					violate(vclass("unparsed-statement-in-capture-file"), fmt.Sprintf("query_capture file holds the statement that did not parse: %q", string(data)), replay)
				}
			}
		}
	}
	setDialect("mysql")
}
