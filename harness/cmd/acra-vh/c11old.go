package main

// Domain c11old (property C11, legacy part): masked columns whose stored value is a RAW legacy AcraStruct /
// AcraBlock (or a serialized container) next to the clear window, read through the column path of a REAL
// PostgreSQL proxy built by postgresql.NewProxyFactory(...).New from an encryptor config (YAML: masking,
// plaintext_length, plaintext_side, crypto_envelope, client_id):
//   - OldContainerDetectorWrapper.OnColumn of the detector the factory built  (op LegacyColumn)
//   - PgProxy.onColumnDecryption: decoder ; wrapper ; encoder                 (op PgColumn)
//   - a whole DataRow of a SELECT through the in-process proxy (vh.PgRig)     (op PgRow)
// for the owner, a client with other keys and a client without keys (the ACCESSING client decides, never the
// client_id of the setting).  Every call is replayed on Model/RunLegacyChain.v.
// Oracle (independent of the model): owner gets the original; everybody else gets exactly window+pattern /
// pattern+window, no 8-byte run of the ciphertext or of the hidden plaintext.

import (
	"bytes"
	"encoding/binary"
	"encoding/hex"
	"fmt"
	"strings"

	"acra-vh/vh"
	"acra-vh/x11rig"

	"github.com/jackc/pgx/v5/pgproto3"

	"github.com/cossacklabs/acra/crypto"
	"github.com/cossacklabs/acra/decryptor/base"
	encryptor "github.com/cossacklabs/acra/encryptor/base"
	"github.com/cossacklabs/acra/encryptor/base/config"
	"github.com/cossacklabs/acra/masking"
)

func init() { register("c11old", "Model.RunLegacyChain", runC11Old) }

const (
	c11oldOwner  = "owner"
	c11oldOther  = "other"
	c11oldNoKeys = "nokeys"
)

var c11oldReaders = []string{c11oldOwner, c11oldNoKeys, c11oldOther}

// c11oldCol is one column of table t in the generated encryptor config.
type c11oldCol struct {
	name    string
	kind    string // mask | enc | none
	pattern string
	plen    int
	side    string // left | right
	envAB   bool
	// the stored value
	x, window, hidden, env, stored []byte
	form                           string // raw-as | raw-ab | container
	class                          string
}

func c11oldYAMLString(s string) string {
	return `"` + strings.NewReplacer(`\`, `\\`, `"`, `\"`).Replace(s) + `"`
}

func c11oldYAML(cols []*c11oldCol) string {
	var sb strings.Builder
	sb.WriteString("schemas:\n  - table: t\n    columns:\n      - id\n")
	for _, c := range cols {
		sb.WriteString("      - " + c.name + "\n")
	}
	sb.WriteString("    encrypted:\n")
	for _, c := range cols {
		if c.kind == "none" {
			continue
		}
		sb.WriteString("      - column: " + c.name + "\n        client_id: " + c11oldOwner + "\n")
		if c.envAB {
			sb.WriteString("        crypto_envelope: acrablock\n")
		} else {
			sb.WriteString("        crypto_envelope: acrastruct\n")
		}
		if c.kind == "mask" {
			sb.WriteString("        masking: " + c11oldYAMLString(c.pattern) + "\n")
			sb.WriteString(fmt.Sprintf("        plaintext_length: %d\n        plaintext_side: %s\n", c.plen, c.side))
		}
	}
	return sb.String()
}

func (c *c11oldCol) coq() string {
	switch c.kind {
	case "mask":
		return "(Some " + coqSetting(c.pattern, c.plen, c.side, 0) + ")"
	case "enc":
		return "(Some " + coqSetting("", 0, "", 0) + ")"
	}
	return "None"
}

func c11oldStoreCoq(m *vh.MemKeystore) string {
	var parts []string
	for _, id := range []string{c11oldOwner, c11oldOther} {
		if ks, ok := m.Clients[id]; ok {
			parts = append(parts, fmt.Sprintf("(%s, %s)", vh.H([]byte(id)), ks.Coq()))
		}
	}
	return "[" + strings.Join(parts, "; ") + "]"
}

var c11oldPatterns = []string{"xxxx", "***", "*", "%%%", "%", "masked value with spaces", "ж", "'", `"q"`, `\x`, "#", `""`, "0"}

var (
	c11oldTag4 = []byte(`""""`)
	c11oldTag8 = []byte(`""""""""`)
)

// no occurrence of tag starts inside pre (looking at pre+next)
func c11oldQuiet(pre, next, tag []byte) bool {
	s := append(append([]byte{}, pre...), next...)
	for j := 0; j < len(pre); j++ {
		if bytes.HasPrefix(s[j:], tag) {
			return false
		}
	}
	return true
}

func c11oldValue(r *vh.Rng) ([]byte, string) {
	n := 2 + r.Intn(40)
	switch r.Intn(7) {
	case 0:
		return []byte("4111-1111-1111-1111 John Doe jd@example.com")[:2+r.Intn(42)], "text"
	case 1:
		b := r.Bytes(n)
		for i := range b {
			if b[i] == '"' || b[i] == '%' {
				b[i] = 'a'
			}
		}
		return b, "binary-clean"
	case 2:
		b := r.Bytes(n)
		for i := 0; i+2 <= len(b); i += 2 + r.Intn(9) {
			copy(b[i:], `""`) // quote runs shorter than the AcraBlock tag
			if i+2 < len(b) && b[i+2] == '"' {
				b[i+2] = 'q'
			}
		}
		return b, "short-quote-runs"
	case 3:
		b := r.Bytes(n)
		for i := range b {
			if r.Intn(4) == 0 {
				b[i] = '%'
			}
		}
		return b, "percents"
	case 4:
		return bytes.Repeat([]byte{'\\'}, 1+r.Intn(6)), "backslashes"
	}
	return r.Bytes(n), "random"
}

type c11oldEnv struct {
	rep *vh.Report
	r   *vh.Rng
	e   *EnvOps // creation of envelopes (ops recorded elsewhere: C01)
}

// protect: the hidden part as a raw AcraStruct / raw AcraBlock / serialized container of the owner
func (o *c11oldEnv) protect(form string, envAB bool, owner *vh.KeySet, hidden []byte) ([]byte, bool) {
	var c vh.Outcome
	switch form {
	case "raw-as":
		c = o.e.AsCreate("", hidden, owner.Pub(0), nil)
	case "raw-ab":
		c = o.e.AbCreate("", hidden, owner.Syms[0], nil)
	default:
		id := byte(crypto.AcraStructEnvelopeID)
		if envAB {
			id = crypto.AcraBlockEnvelopeID
		}
		c = o.e.EncHandler("", id, owner, hidden)
	}
	o.rep.OracleChecks++
	if c.Kind != "ok" {
		o.rep.Violate("protect-error", "envelope creation failed: "+c.String(), form+" hidden="+hex.EncodeToString(hidden))
		return nil, false
	}
	return c.Vals[0], true
}

func (c *c11oldCol) build(o *c11oldEnv, owner *vh.KeySet) bool {
	c.window, c.hidden = nil, c.x
	if c.kind == "mask" && c.plen < len(c.x) {
		if c.side == "left" {
			c.window, c.hidden = c.x[:c.plen], c.x[c.plen:]
		} else {
			c.window, c.hidden = c.x[len(c.x)-c.plen:], c.x[:len(c.x)-c.plen]
		}
	}
	env, ok := o.protect(c.form, c.envAB, owner, c.hidden)
	if !ok {
		return false
	}
	c.env = env
	c.stored = c.join(env)
	return true
}

// join: clear window on the configured side of h
func (c *c11oldCol) join(h []byte) []byte {
	if c.kind != "mask" || c.side == "left" {
		return append(append([]byte{}, c.window...), h...)
	}
	return append(append([]byte{}, h...), c.window...)
}

// expect: what the reader must receive; decided=false when the oracle does not decide the value
func (c *c11oldCol) expect(reader string) []byte {
	switch {
	case c.kind == "none":
		return c.stored
	case reader == c11oldOwner:
		return c.x
	case c.kind == "mask":
		return c.join([]byte(c.pattern))
	}
	return c.stored // encrypted, not masked: the ciphertext stays
}

// decisive: the premises of the theorems, checked on the concrete value (tag runs, container headers)
func (c *c11oldCol) decisive(reader string) (bool, string) {
	if c.kind == "none" {
		return !hasCandidate(c.stored) && !bytes.Contains(c.stored, c11oldTag4), "plain-value-with-tags"
	}
	if c.form == "container" {
		if bytes.Contains(c.window, []byte("%%")) || bytes.HasSuffix(c.window, []byte("%")) {
			return false, "percent-run-next-to-container" // C11's own caveat (window_clear)
		}
		return true, "" // a matched container: the raw scans do not run
	}
	if hasCandidate(c.stored) {
		return false, "container-header-in-value"
	}
	if view := c.expect(reader); !bytes.Equal(view, c.stored) && bytes.Contains(view, c11oldTag4) {
		return false, "quote-run-in-view"
	}
	if c.form == "raw-ab" && bytes.Contains(c.stored, c11oldTag8) {
		return false, "long-quote-run"
	}
	if c.kind == "mask" && c.side == "left" && !c11oldQuiet(c.window, c.env, c11oldTag4) {
		return false, "quote-run-in-window"
	}
	return true, ""
}

func c11oldCell(b []byte, null bool) []byte {
	if null {
		return []byte{0}
	}
	return append([]byte{1}, b...)
}

type c11oldRun struct {
	rep   *vh.Report
	keys  *vh.MemKeystore
	rig   *x11rig.Rig
	pkCoq string
}

// legacyColumn: OldContainerDetectorWrapper.OnColumn of the detector the factory built, with the column's
// setting in the context (what onColumnDecryption puts there)
func (u *c11oldRun) legacyColumn(label string, p *x11rig.Proxy, reader string, setting config.ColumnEncryptionSetting, coqS string, col []byte) vh.Outcome {
	w := x11rig.Wrapper(p.PgSubscribers())
	in := append([]byte{}, col...)
	o := vh.Guard(func() vh.Outcome {
		ctx, out, err := w.OnColumn(p.ColumnCtx(setting), in)
		if err != nil {
			return vh.Ok(n8(0), []byte{1})
		}
		f := byte(0)
		if base.IsDecryptedFromContext(ctx) {
			f = 1
		}
		return vh.Ok(n8(0), []byte{0}, append([]byte{}, out...), []byte{f})
	})
	u.rep.Add(label, fmt.Sprintf("LegacyColumn false false %s %s %s %s", u.pkCoq, coqS, u.keys.Clients[reader].Coq(), vh.H(col)), o)
	return o
}

func (u *c11oldRun) pgColumn(label string, p *x11rig.Proxy, reader string, i int, setting config.ColumnEncryptionSetting, coqS string, binaryFmt bool, data []byte) vh.Outcome {
	in := append([]byte{}, data...)
	o := vh.Guard(func() vh.Outcome {
		out, err := p.Column(i, in, binaryFmt, setting)
		if err != nil {
			return vh.Ok(n8(0), []byte{1})
		}
		return vh.Ok(n8(0), []byte{0}, append([]byte{}, out...))
	})
	u.rep.Add(label, fmt.Sprintf("PgColumn false false %s %s %s %s %s %s", u.pkCoq, c11oldStoreCoq(u.keys), vh.H([]byte(reader)), coqS, coqBool(binaryFmt), vh.H(data)), o)
	return o
}

func c11oldHex(b []byte) []byte { return []byte(`\x` + hex.EncodeToString(b)) }

// judge evaluates the property's oracle on one delivered value
func (u *c11oldRun) judge(c *c11oldCol, reader, how string, got []byte, ok bool, replay string) {
	u.rep.OracleChecks++
	dec, why := c.decisive(reader)
	want := c.expect(reader)
	cls := func(s string) string {
		if !dec && why == "container-header-in-value" && c.form != "container" {
			return "legacy-raw-next-to-container"
		}
		return s
	}
	if !dec && !(why == "container-header-in-value" && c.form != "container") {
		u.rep.Count("undecided:" + why)
		return
	}
	if !ok {
		u.rep.Violate(cls("read-error"), how+" as "+reader+" failed", replay)
		return
	}
	if c.kind == "mask" && reader != c11oldOwner {
		if leaks(c.env, got, want, 8) {
			u.rep.Violate(cls("ciphertext-leak"), how+": "+reader+" received ciphertext bytes: "+hex.EncodeToString(got), replay)
			return
		}
		if len(c.hidden) >= 4 && leaks(c.hidden, got, want, min(8, len(c.hidden))) {
			u.rep.Violate(cls("plaintext-leak"), how+": "+reader+" received hidden plaintext bytes: "+hex.EncodeToString(got), replay)
			return
		}
	}
	if !bytes.Equal(got, want) {
		what := "non-owner-view"
		if reader == c11oldOwner {
			what = "owner-original"
		}
		u.rep.Violate(cls(what), fmt.Sprintf("%s: %s got %s want %s", how, reader, hex.EncodeToString(got), hex.EncodeToString(want)), replay)
	}
}

func runC11Old(rep *vh.Report, r *vh.Rng, n int, thorough bool) {
	env := &c11oldEnv{rep, r, &EnvOps{rep: vh.NewReport("scratch", 0), r: r}}
	for sc := 0; sc < n; sc++ {
		owner := vh.NewKeySet(r, 1+r.Intn(2), 1+r.Intn(2), false)
		other := vh.NewKeySet(r, 1, 1, false)
		keys := vh.NewMemKeystore()
		keys.Clients[c11oldOwner], keys.Clients[c11oldOther] = owner, other
		// ---- columns: two masked ones (different patterns / windows / sides), one encrypted only, one plain
		special := ""
		switch {
		case sc%5 == 1:
			special = "long-pattern" // pattern longer than the raw AcraBlock (fix_wrapper_acrablock_alias)
		case sc%5 == 3:
			special = "header-in-window" // known finding legacy-raw-next-to-container
		}
		var cols []*c11oldCol
		for i := 0; i < 4; i++ {
			c := &c11oldCol{name: fmt.Sprintf("c%d", i), kind: []string{"mask", "mask", "enc", "none"}[i], envAB: r.Bool()}
			c.x, c.class = c11oldValue(r)
			c.form = []string{"raw-as", "raw-ab", "container"}[r.Intn(3)]
			if r.Intn(4) != 0 && c.kind == "mask" {
				c.form = []string{"raw-as", "raw-ab"}[r.Intn(2)]
			}
			if c.kind == "mask" {
				c.pattern = c11oldPatterns[r.Intn(len(c11oldPatterns))]
				c.side = []string{"left", "right"}[(i+sc)%2]
				c.plen = r.Pick(0, 1, 2, len(c.x)/2, len(c.x)-2, len(c.x)-1, len(c.x), len(c.x)+1, r.Intn(len(c.x)+2))
				if c.plen < 0 {
					c.plen = 0
				}
			}
			if c.kind == "none" {
				c.form = "plain"
			}
			cols = append(cols, c)
		}
		switch special {
		case "long-pattern":
			c := cols[1]
			c.form, c.side = "raw-ab", "right"
			c.pattern = strings.Repeat("x", 150+r.Intn(120))
			c.x = []byte("4111-1111-1111-1111")
			c.plen = 10 + r.Intn(8)
			rep.Count("special:long-pattern")
		case "header-in-window":
			c := cols[0]
			c.side = "left"
			c.form = []string{"raw-as", "raw-ab"}[r.Intn(2)]
			h := binary.LittleEndian.AppendUint64([]byte("ab%%%"), uint64(13+r.Intn(4)))
			h = append(h, crypto.AcraBlockEnvelopeID, 'z', 'z', 'z', 'z')
			c.x = append(h, []byte("secret part")...)
			c.plen = len(h)
			c.class = "forged-header"
			rep.Count("special:header-in-window")
		}
		good := true
		for _, c := range cols {
			if c.kind == "none" {
				c.stored = c.x
				continue
			}
			if !c.build(env, owner) {
				good = false
			}
			rep.Count("form:" + c.form)
			rep.Count("value:" + c.class)
			if c.kind == "mask" {
				rep.Count("side:" + c.side)
				rep.Count(fmt.Sprintf("window:%s", map[bool]string{true: ">=len", false: "<len"}[c.plen >= len(c.x)]))
			}
		}
		if !good {
			continue
		}
		yaml := c11oldYAML(cols)
		rig, err := x11rig.New(keys, []byte(yaml), nil)
		if err != nil {
			rep.Violate("harness-error", "rig: "+err.Error(), yaml)
			continue
		}
		u := &c11oldRun{rep: rep, keys: keys, rig: rig, pkCoq: "(mk_pk [] [])"}
		head := fmt.Sprintf("scenario %d (seed %d)\nencryptor config:\n%s", sc, rep.Seed, yaml)
		tbl := rig.Schema.GetTableSchema("t")
		// ---- the chain the factories installed, in order
		for _, rd := range c11oldReaders {
			p, err := rig.OpenPg([]byte(rd))
			if err != nil {
				rep.Violate("harness-error", "proxyFactory.New: "+err.Error(), head)
				continue
			}
			rep.OracleChecks++
			subs := x11rig.IDs(p.PgSubscribers())
			w := x11rig.Wrapper(p.PgSubscribers())
			if strings.Join(subs, ";") != "PgSQLDataDecoderProcessor;OldContainerDetectorWrapper;PgSQLDataEncoderProcessor" || w == nil ||
				strings.Join(w.VerifX11CallbackIDs(), ";") != "OldContainerDetectorWrapper;DecryptHandler" {
				rep.Violate("chain-order", fmt.Sprintf("subscribers %v / detector callbacks differ from the modelled chain", subs), head)
				p.Close()
				continue
			}
			for i, c := range cols {
				var setting config.ColumnEncryptionSetting
				if s := tbl.GetColumnEncryptionSettings(c.name); s != nil {
					setting = s
				}
				rep.OracleChecks++
				if (setting != nil) != (c.kind != "none") || (setting != nil && (setting.GetMaskingPattern() != c.pattern ||
					(c.kind == "mask" && (setting.GetPartialPlaintextLen() != c.plen || setting.IsEndMasking() != (c.side == "left"))))) {
					rep.Violate("setting-wiring", "encryptor config did not yield the configured masking parameters for column "+c.name, head)
					continue
				}
				lab := fmt.Sprintf("sc%d %s %s %s/%s len=%d window=%d side=%s pattern=%q reader=%s", sc, c.name, c.kind, c.form, c.class, len(c.x), c.plen, c.side, c.pattern, rd)
				replay := head + lab + "\nx=" + hex.EncodeToString(c.x) + "\nstored=" + hex.EncodeToString(c.stored)
				rep.Count("reader:" + rd)
				// the wrapper alone
				if c.kind != "none" || sc%3 == 0 {
					o := u.legacyColumn(lab+" wrapper.OnColumn", p, rd, setting, c.coq(), c.stored)
					var got []byte
					if o.Kind == "ok" && len(o.Vals) == 4 {
						got = o.Vals[2]
					}
					u.judge(c, rd, "OldContainerDetectorWrapper.OnColumn", got, o.Kind == "ok" && len(o.Vals) == 4, replay)
				}
				// decoder ; wrapper ; encoder.  Text format = bytea hex as the database sends it
				if (sc+i)%2 == 0 || c.kind == "mask" && rd != c11oldOwner && sc%2 == 0 {
					binaryFmt := (sc+i)%4 == 1 || r.Intn(6) == 0
					data := c.stored
					if !binaryFmt {
						data = c11oldHex(c.stored)
					}
					rep.Count(fmt.Sprintf("format-binary:%v", binaryFmt))
					o := u.pgColumn(lab+" onColumnDecryption", p, rd, i+1, setting, c.coq(), binaryFmt, data)
					ok := o.Kind == "ok" && len(o.Vals) == 3
					var got []byte
					if ok {
						got = o.Vals[2]
						if !binaryFmt {
							if g, err := vh.ClientDecode(c11oldBytea, got); err == nil {
								got = g
							} else {
								ok = false
							}
						}
					}
					if binaryFmt && bytes.ContainsAny(c.stored, "\\") {
						rep.Count("undecided:binary-format-backslash") // the decoder reads escapes even in binary format (C12/C19)
					} else {
						u.judge(c, rd, "onColumnDecryption", got, ok, replay)
					}
				}
			}
			p.Close()
		}
		// mysql factory: same detector
		if sc%4 == 0 {
			if p, err := rig.OpenMy([]byte(c11oldOwner)); err == nil {
				rep.OracleChecks++
				w := x11rig.Wrapper(p.MySubscribers())
				if w == nil || strings.Join(w.VerifX11CallbackIDs(), ";") != "OldContainerDetectorWrapper;DecryptHandler" {
					rep.Violate("chain-order", "mysql proxy: detector callbacks differ from the modelled chain", head)
				}
				p.Close()
			}
		}
		// ---- a whole row through the in-process proxy: which column gets which setting
		c11oldRow(u, r, sc, cols, keys, yaml, head)
		// ---- the WRITE path for protected parts that only look like an envelope, then the read path
		c11oldWrite(u, env, r, sc, cols, keys, yaml, head, thorough)
	}
}

var c11oldBytea = pgproto3.FieldDescription{DataTypeOID: vh.OidBytea, Format: 0}

// c11oldRow: SELECT <columns in random order> FROM t through vh.PgRig (real proxy goroutines, fake back end)
func c11oldRow(u *c11oldRun, r *vh.Rng, sc int, cols []*c11oldCol, keys *vh.MemKeystore, yaml, head string) {
	rep := u.rep
	db := vh.NewFakeDB()
	pt := &vh.PgTable{Name: "t", Cols: []vh.PgCol{{Name: "id", Oid: vh.OidInt4}}}
	row := [][]byte{[]byte("1")}
	nullAt := -1
	if r.Intn(3) == 0 {
		nullAt = r.Intn(len(cols))
	}
	for i, c := range cols {
		pt.Cols = append(pt.Cols, vh.PgCol{Name: c.name, Oid: vh.OidBytea})
		if i == nullAt {
			row = append(row, nil)
		} else {
			row = append(row, c.stored)
		}
	}
	pt.Rows = [][][]byte{row}
	db.Tables["t"] = pt
	rig, err := vh.NewPgRig(keys, []byte(yaml), db)
	if err != nil {
		rep.Violate("harness-error", "pg rig: "+err.Error(), yaml)
		return
	}
	// column order of the SELECT
	order := r.Pick(0, 1, 2)
	var sel []int // index into cols, -1 = id
	switch order {
	case 0:
		sel = []int{-1, 0, 1, 2, 3}
	case 1:
		sel = []int{1, 0, 3, 2}
	default:
		sel = []int{2, -1, 1}
		if r.Bool() {
			sel = []int{0}
		}
	}
	var names, coqSettings, coqCols []string
	for _, j := range sel {
		if j < 0 {
			names = append(names, "id")
			coqSettings = append(coqSettings, "None")
			coqCols = append(coqCols, "(Some "+vh.H([]byte("1"))+")")
			continue
		}
		names = append(names, cols[j].name)
		coqSettings = append(coqSettings, cols[j].coq())
		if j == nullAt {
			coqCols = append(coqCols, "None")
		} else {
			coqCols = append(coqCols, "(Some "+vh.H(c11oldHex(cols[j].stored))+")")
		}
	}
	sql := "SELECT " + strings.Join(names, ", ") + " FROM t"
	rd := c11oldReaders[sc%3]
	s, err := rig.Open([]byte(rd), nil)
	if err != nil {
		rep.Violate("harness-error", "pg rig open: "+err.Error(), head)
		return
	}
	res := s.Simple(sql)
	s.Close()
	if s.Hung { // the rig's timeout under machine load, not an answer of the proxy
		rep.Count("row:hung(skipped)")
		return
	}
	rep.Count("row:reader:" + rd)
	rep.Count(fmt.Sprintf("row:columns:%d", len(sel)))
	var o vh.Outcome
	if res.Closed || res.Err != "" || len(res.Rows) != 1 || len(res.Rows[0]) != len(sel) {
		o = vh.Ok(n8(0), []byte{1})
	} else {
		vals := [][]byte{n8(0), {0}}
		for _, cell := range res.Rows[0] {
			vals = append(vals, c11oldCell(cell, cell == nil))
		}
		o = vh.Ok(vals...)
	}
	lab := fmt.Sprintf("sc%d row %q reader=%s", sc, sql, rd)
	rep.Add(lab, fmt.Sprintf("PgRow false false %s %s %s (Some [%s]) false [%s]", u.pkCoq, c11oldStoreCoq(keys), vh.H([]byte(rd)),
		strings.Join(coqSettings, "; "), strings.Join(coqCols, "; ")), o)
	if len(o.Vals) < 3 {
		rep.OracleChecks++
		rep.Violate("row-error", "the proxy did not deliver the row: closed="+fmt.Sprint(res.Closed)+" err="+res.Err, head+lab)
		return
	}
	for k, j := range sel {
		cell := res.Rows[0][k]
		if j < 0 {
			rep.OracleChecks++
			if string(cell) != "1" {
				rep.Violate("row-wiring", "id column changed", head+lab)
			}
			continue
		}
		if j == nullAt {
			rep.OracleChecks++
			if cell != nil {
				rep.Violate("row-wiring", "NULL column changed", head+lab)
			}
			continue
		}
		got, err := vh.ClientDecode(c11oldBytea, cell)
		u.judge(cols[j], rd, "row "+sql+" column "+cols[j].name, got, err == nil, head+lab+"\nx="+hex.EncodeToString(cols[j].x)+"\nstored="+hex.EncodeToString(cols[j].stored))
	}
}

// ---------- write path: protected parts that LOOK like an envelope ----------

// c11oldLookalike: a hidden part that carries (some of) the marks of a protected value without being one.
// legit = a complete valid container (of the client "other"): the one case the shortcut "already encrypted on
// the application side, store as is" is meant for; plain = its plaintext.
// c11oldLookalike = c11oldLookalike0 plus a 12-byte random marker at the END of the hidden part (look-alikes that are
// not complete containers only): the oracle looks for the marker in what is stored (envelopes share constant header
// bytes with look-alikes cut from envelopes, so runs of the look-alike itself prove nothing).
func c11oldLookalike(r *vh.Rng, env *c11oldEnv, owner, other *vh.KeySet, k int) (hidden []byte, class string, legit bool, plain, marker []byte) {
	hidden, class, legit, plain = c11oldLookalike0(r, env, owner, other, k)
	if legit {
		return hidden, class, legit, plain, nil
	}
	marker = r.Bytes(12)
	for i := range marker {
		if marker[i] == '"' || marker[i] == '%' || marker[i] == '\\' {
			marker[i] = 'm'
		}
	}
	switch class {
	case "header+fitting-length": // keep the declared length exact
		hidden = append(hidden, marker...)
		binary.LittleEndian.PutUint64(hidden[3:], uint64(len(hidden)))
	case "truncated-container", "container-wrong-length": // the tail is ciphertext of the container: random already
		if len(hidden) >= 24 {
			marker = append([]byte{}, hidden[len(hidden)-12:]...)
		} else {
			hidden = append(hidden, marker...)
		}
	default:
		hidden = append(hidden, marker...)
	}
	return hidden, class, legit, plain, marker
}

func c11oldLookalike0(r *vh.Rng, env *c11oldEnv, owner, other *vh.KeySet, k int) (hidden []byte, class string, legit bool, plain []byte) {
	ids := []byte{crypto.AcraStructEnvelopeID, crypto.AcraBlockEnvelopeID}
	le := func(v uint64) []byte { return binary.LittleEndian.AppendUint64(nil, v) }
	container := func(ks *vh.KeySet, x []byte) []byte {
		c := env.e.EncHandler("", ids[r.Intn(2)], ks, x)
		if c.Kind != "ok" {
			return nil
		}
		return c.Vals[0]
	}
	switch k % 8 {
	case 0: // '%%%' + 8 arbitrary bytes + a registered envelope id + >= 1 byte (text: "%%%12345678" + an emoji)
		if r.Bool() {
			return append([]byte("%%%12345678\xf0\x9f\x98\x80"), []byte(" cvv=737 exp=12/29")[:r.Intn(19)]...), "header+id(text)", false, nil
		}
		h := append([]byte("%%%"), r.Bytes(8)...)
		h = append(h, ids[r.Intn(2)])
		return append(h, r.Bytes(1+r.Intn(30))...), "header+id", false, nil
	case 1: // header whose declared length is exactly what follows, inner bytes are no envelope
		rest := r.Bytes(1 + r.Intn(40))
		h := append([]byte("%%%"), le(uint64(12+len(rest)))...)
		h = append(h, ids[r.Intn(2)])
		return append(h, rest...), "header+fitting-length", false, nil
	case 2: // a real container, truncated
		if c := container(owner, r.Bytes(1+r.Intn(20))); c != nil {
			return c[:len(c)-1-r.Intn(min(40, len(c)-14))], "truncated-container", false, nil
		}
	case 3: // a real container with a wrong declared length
		if c := container(owner, r.Bytes(1+r.Intn(20))); c != nil {
			real := uint64(len(c))
			v := []uint64{real + 1, real + 1000, 1 << 63, ^uint64(0), 13, 14, real - 1, 0, 12}[r.Intn(9)]
			copy(c[3:], le(v))
			return c, "container-wrong-length", false, nil
		}
	case 4: // raw legacy AcraStruct tag in front of bytes that are no AcraStruct
		return append([]byte(`""""""""`), r.Bytes(r.Pick(0, 1, 50, 137, 145, 200))...), "acrastruct-tag-prefix", false, nil
	case 5: // raw AcraBlock tag prefix
		return append([]byte(`""""`), r.Bytes(r.Pick(1, 14, 18, 60))...), "acrablock-tag-prefix", false, nil
	case 6: // a real container with one ciphertext bit flipped: still a complete container by its signature
		if c := container(owner, r.Bytes(1+r.Intn(20))); c != nil {
			c[len(c)-1-r.Intn(8)] ^= 1 << uint(r.Intn(8))
			return c, "container-bitflip(valid signature)", true, nil
		}
	default: // a complete valid container of another client: stored as it is
		x := c11oldValueClean(r)
		if c := container(other, x); c != nil {
			return c, "valid-foreign-container", true, x
		}
	}
	return append([]byte("%%%12345678"), ids[0], 'z'), "header+id", false, nil
}

func c11oldValueClean(r *vh.Rng) []byte {
	b := r.Bytes(3 + r.Intn(20))
	for i := range b {
		if b[i] == '"' || b[i] == '%' {
			b[i] = 'a'
		}
	}
	return b
}

// c11oldWrite: ChainDataEncryptor[EncryptHandler ; masking.DataEncryptor ; ReEncryptHandler] as proxyFactory.New
// builds it for a schema with masking, on values whose protected part is an envelope look-alike; then the read path.
// Oracle: what is stored contains no run of the hidden part in clear (unless it IS a complete container), the clear
// window is where the setting says, the owner reads the original, everybody else window+pattern / pattern+window.
func c11oldWrite(u *c11oldRun, env *c11oldEnv, r *vh.Rng, sc int, cols []*c11oldCol, keys *vh.MemKeystore, yaml, head string, thorough bool) {
	rep := u.rep
	owner, other := keys.Clients[c11oldOwner], keys.Clients[c11oldOther]
	tbl := u.rig.Schema.GetTableSchema("t")
	rh := crypto.NewRegistryHandler(keys)
	me, err := masking.NewMaskingDataEncryptor(keys, encryptor.NewChainDataEncryptor(rh))
	if err != nil {
		panic(err)
	}
	chain := encryptor.NewChainDataEncryptor(crypto.NewEncryptHandler(rh), me, crypto.NewReEncryptHandler(keys))
	nLook := 3
	if thorough {
		nLook = 8
	}
	for li := 0; li < nLook; li++ {
		col := cols[(sc+li)%2] // the two masked columns: one left, one right window
		if len(col.pattern) > 100 {
			col = cols[0]
		}
		setting := tbl.GetColumnEncryptionSettings(col.name)
		hidden, class, legit, plain, marker := c11oldLookalike(r, env, owner, other, sc*3+li)
		rep.Count("lookalike:" + class)
		// the schema fixes plaintext_length; the split is moved through the look-alike instead: shift 0 = the hidden
		// part IS the look-alike, shift > 0 = it is a tail of it, shift < 0 = clean bytes in front of it
		shifts := []int{0}
		if thorough {
			for sh := -8; sh < len(hidden); sh += 1 + len(hidden)/16 {
				if sh != 0 {
					shifts = append(shifts, sh)
				}
			}
		} else if li == 0 {
			shifts = append(shifts, r.Intn(len(hidden)+8)-8)
		}
		for pi, shift := range shifts {
			c := &c11oldCol{name: col.name, kind: "mask", pattern: col.pattern, plen: col.plen, side: col.side, envAB: col.envAB, form: "container", class: class}
			h := hidden
			if shift > 0 {
				h = hidden[shift:]
			} else if shift < 0 {
				h = append([]byte("zzzzzzzz")[:-shift], hidden...)
			}
			if len(h) == 0 {
				continue
			}
			w := []byte("4111-2222-3333-4444 John Doe 4111-2222-3333-4444")[:min(48, col.plen)]
			if col.plen > 48 {
				continue
			}
			c.x = append(append([]byte{}, w...), h...)
			if c.side == "right" {
				c.x = append(append([]byte{}, h...), w...)
			}
			c.window, c.hidden = w, h
			lab := fmt.Sprintf("sc%d write %s %s window=%d side=%s pattern=%q hidden=%s", sc, c.name, class, c.plen, c.side, c.pattern, hex.EncodeToString(h))
			id := byte(crypto.AcraStructEnvelopeID)
			if setting.GetCryptoEnvelope() == config.CryptoEnvelopeTypeAcraBlock {
				id = crypto.AcraBlockEnvelopeID
			}
			in := append(make([]byte, 0, len(c.x)), c.x...)
			t := vh.StartTape(r)
			o := vh.Guard(func() vh.Outcome { return one(chain.EncryptWithClientID([]byte(c11oldOwner), in, setting)) })
			vh.StopTape()
			if o.Kind == "ok" {
				o.Vals[0] = append([]byte{}, o.Vals[0]...)
			}
			rep.Add(lab, fmt.Sprintf("MaskWriteChain %s %s %s %s %s %s", vh.H([]byte{id}), owner.Coq(), vh.HL(t.Chunks),
				coqSetting(c.pattern, c.plen, c.side, 0), coqBool(setting.ShouldReEncryptAcraStructToAcraBlock()), vh.H(c.x)), o)
			replay := head + lab + "\nx=" + hex.EncodeToString(c.x)
			rep.OracleChecks++
			if o.Kind != "ok" {
				rep.Violate("mask-write", "encryptor chain failed: "+o.String(), replay)
				continue
			}
			stored := o.Vals[0]
			replay += "\nstored=" + hex.EncodeToString(stored)
			var cipher []byte
			rep.OracleChecks++
			if c.side == "left" {
				if !bytes.HasPrefix(stored, w) {
					rep.Violate("mask-write-shape", "stored value does not start with the clear window", replay)
					continue
				}
				cipher = stored[len(w):]
			} else {
				if !bytes.HasSuffix(stored, w) {
					rep.Violate("mask-write-shape", "stored value does not end with the clear window", replay)
					continue
				}
				cipher = stored[:len(stored)-len(w)]
			}
			isLegit := legit && shift == 0
			_ = pi
			rep.OracleChecks++
			switch {
			case isLegit && !bytes.Equal(cipher, h):
				rep.Violate("mask-write-double-wrap", "a complete valid container was not stored as it is", replay)
				continue
			case isLegit:
				rep.Count("lookalike:stored-as-is(legit)")
			case bytes.Equal(cipher, h) || (len(marker) > 0 && bytes.HasSuffix(h, marker) && bytes.Contains(cipher, marker)):
				rep.Violate("mask-write-leak", fmt.Sprintf("the protected part of the value (%s) is stored in clear: it only LOOKS like an envelope (%s)", hex.EncodeToString(h), class), replay)
				continue
			}
			c.env, c.stored = cipher, stored
			// ---- read path
			for _, rd := range c11oldReaders {
				if !isLegit && shift != 0 && rd == c11oldOther {
					continue
				}
				p, err := u.rig.OpenPg([]byte(rd))
				if err != nil {
					continue
				}
				ro := u.legacyColumn(lab+" read:"+rd, p, rd, setting, c.coq(), stored)
				p.Close()
				var got []byte
				if ro.Kind == "ok" && len(ro.Vals) == 4 {
					got = ro.Vals[2]
				}
				if isLegit {
					// a container only "other" can open (or nobody, when a bit is flipped)
					want := c.join([]byte(c.pattern))
					if rd == c11oldOther && plain != nil {
						want = c.join(plain)
					}
					rep.OracleChecks++
					if !bytes.Equal(got, want) {
						rep.Violate("non-owner-view", fmt.Sprintf("stored-as-is container: %s got %s want %s", rd, hex.EncodeToString(got), hex.EncodeToString(want)), replay)
					}
					continue
				}
				u.judge(c, rd, "write+read", got, ro.Kind == "ok" && len(ro.Vals) == 4, replay)
			}
		}
	}
	// ---- end to end: INSERT through the in-process proxy (the chain the factory really built), then SELECT
	if sc%2 == 0 {
		c11oldInsert(u, env, r, sc, cols, keys, yaml, head)
	}
}

// c11oldInsert: INSERT INTO t (id, <masked column>) VALUES (7, '\x..') as the owner through vh.PgRig, look at what the
// database got, SELECT it back as a client without keys.
func c11oldInsert(u *c11oldRun, env *c11oldEnv, r *vh.Rng, sc int, cols []*c11oldCol, keys *vh.MemKeystore, yaml, head string) {
	rep := u.rep
	col := cols[(sc/2)%2]
	if len(col.pattern) > 100 || col.plen > 28 {
		col = cols[((sc/2)+1)%2]
		if len(col.pattern) > 100 || col.plen > 28 {
			return
		}
	}
	hidden, class, legit, _, marker := c11oldLookalike(r, env, keys.Clients[c11oldOwner], keys.Clients[c11oldOther], sc/2)
	if legit {
		return
	}
	w := []byte("4111-2222-3333-4444 John Doe")[:col.plen]
	x := append(append([]byte{}, w...), hidden...)
	if col.side == "right" {
		x = append(append([]byte{}, hidden...), w...)
	}
	db := vh.NewFakeDB()
	pt := &vh.PgTable{Name: "t", Cols: []vh.PgCol{{Name: "id", Oid: vh.OidInt4}}}
	for _, c := range cols {
		pt.Cols = append(pt.Cols, vh.PgCol{Name: c.name, Oid: vh.OidBytea})
	}
	db.Tables["t"] = pt
	rig, err := vh.NewPgRig(keys, []byte(yaml), db)
	if err != nil {
		rep.Violate("harness-error", "pg rig: "+err.Error(), yaml)
		return
	}
	sql := fmt.Sprintf("INSERT INTO t (id, %s) VALUES (7, '\\x%s')", col.name, hex.EncodeToString(x))
	lab := fmt.Sprintf("sc%d end-to-end %s %s window=%d side=%s: %s", sc, col.name, class, col.plen, col.side, sql)
	s, err := rig.Open([]byte(c11oldOwner), nil)
	if err != nil {
		rep.Violate("harness-error", "pg rig open: "+err.Error(), head)
		return
	}
	res := s.Simple(sql)
	s.Close()
	if s.Hung {
		rep.Count("insert:hung(skipped)")
		return
	}
	rep.Count("insert:lookalike:" + class)
	rep.OracleChecks++
	if res.Closed || res.Err != "" || len(pt.Rows) != 1 {
		rep.Violate("insert-error", fmt.Sprintf("INSERT through the proxy failed: closed=%v err=%s rows=%d", res.Closed, res.Err, len(pt.Rows)), head+lab)
		return
	}
	var stored []byte
	for i, c := range pt.Cols {
		if c.Name == col.name {
			stored = pt.Rows[0][i]
		}
	}
	replay := head + lab + "\nstored=" + hex.EncodeToString(stored)
	rep.OracleChecks++
	cipher := stored
	if col.side == "left" && bytes.HasPrefix(stored, w) {
		cipher = stored[len(w):]
	} else if col.side == "right" && bytes.HasSuffix(stored, w) {
		cipher = stored[:len(stored)-len(w)]
	}
	if bytes.Equal(stored, x) || bytes.Contains(cipher, marker) {
		rep.Violate("mask-write-leak", fmt.Sprintf("INSERT through the proxy: the protected part of the value (%s) reached the database in clear: it only LOOKS like an envelope (%s)", hex.EncodeToString(hidden), class), replay)
		return
	}
	// read it back without keys
	s2, err := rig.Open([]byte(c11oldNoKeys), nil)
	if err != nil {
		return
	}
	res2 := s2.Simple("SELECT " + col.name + " FROM t")
	s2.Close()
	if s2.Hung {
		return
	}
	rep.OracleChecks++
	want := append(append([]byte{}, w...), col.pattern...)
	if col.side == "right" {
		want = append([]byte(col.pattern), w...)
	}
	if res2.Closed || res2.Err != "" || len(res2.Rows) != 1 || len(res2.Rows[0]) != 1 {
		rep.Violate("row-error", "SELECT after INSERT failed", replay)
		return
	}
	got, err := vh.ClientDecode(c11oldBytea, res2.Rows[0][0])
	if err != nil || !bytes.Equal(got, want) {
		rep.Violate("non-owner-view", fmt.Sprintf("INSERT+SELECT: nokeys got %s want %s", hex.EncodeToString(got), hex.EncodeToString(want)), replay)
	}
}
