package main

// C06 extension x06v1 — implementation-side oracle for the strengthened keystore v1 invariant of
// Proofs/RotationDataV1.v ([PubEq]): for a storage key PAIR the current <id>_storage.pub file holds the
// public half of the key in the current <id>_storage file, and the two history directories
// (<file>.old, <file>.pub.old) hold the same key versions in the same order.  The oracle reads the
// in-memory file tree directly (private files are decrypted with the keystore's own KeyEncryptor), so
// it is independent of the keystore getters, of the model and of the specification state.
// It also checks that the listing-independent facts the data theorems use hold on the files:
// current private label = specification's current version, history (newest first) = rotated versions.

import (
	"context"
	"encoding/hex"
	"fmt"

	"github.com/cossacklabs/acra/keystore"
)

// c6vLabels: labels of the private / public file at the given paths (0 = no such file, 254 = a
// private file that does not decrypt, 255 = key bytes the harness never saw generated).
func c6vPriv(h *c6dRun, d *c6v1, s c6slot, path string) int {
	data, err := d.fs.ReadFile(path)
	if err != nil {
		return 0
	}
	kc := keystore.NewClientIDKeyContext(keystore.PurposeStorageClientPrivateKey, s.id())
	pt, err := d.enc.Decrypt(context.Background(), data, kc)
	if err != nil {
		return 254
	}
	return h.ordOf(pt)
}

func c6vPub(h *c6dRun, d *c6v1, path string) int {
	data, err := d.fs.ReadFile(path)
	if err != nil {
		return 0
	}
	if o, ok := h.pubOrds[hex.EncodeToString(data)]; ok {
		return o
	}
	return 255
}

// c6vPairOracle runs after every mutating operation of a keystore v1 history.
func c6vPairOracle(h *c6dRun, s c6slot) {
	d, ok := h.drv.(*c6v1)
	if !ok || h.v2 || s.kind != kStoragePair {
		return
	}
	h.rep.OracleChecks++
	h.rep.Count("c06v1-pair-file-oracle")
	file := c6Root + "/" + d.file(s)
	curP, curU := c6vPriv(h, d, s, file), c6vPub(h, d, file+".pub")
	if curP != curU {
		h.violate("v1-pub-not-of-current-private",
			fmt.Sprintf("v1: %v: the current private file holds key %d, the current .pub file holds the public half of key %d", s, curP, curU))
	}
	var hp, hu []int
	for _, n := range d.fs.Names(file + ".old") {
		hp = append(hp, c6vPriv(h, d, s, file+".old/"+n))
	}
	for _, n := range d.fs.Names(file + ".pub.old") {
		hu = append(hu, c6vPub(h, d, file+".pub.old/"+n))
	}
	if !c6eq(hp, hu) {
		h.violate("v1-pub-history-differs",
			fmt.Sprintf("v1: %v: the history of the private file holds keys [%s] (oldest first), the history of the .pub file [%s]", s, c6ints(hp), c6ints(hu)))
	}
	e := h.spec.at(s)
	var newestFirst []int
	for i := len(hp) - 1; i >= 0; i-- {
		newestFirst = append(newestFirst, hp[i])
	}
	if curP != e.cur || !c6eq(newestFirst, e.rot) {
		h.violate("v1-files-not-spec",
			fmt.Sprintf("v1: %v: files hold current key %d and rotated keys [%s] (newest first), specification says %d and [%s]", s, curP, c6ints(newestFirst), e.cur, c6ints(e.rot)))
	}
}
