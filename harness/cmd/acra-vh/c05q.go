package main

// C05, domain c05q: the REAL PostgreSQL proxy of acra, in-process (censorrig.PgRig), with a scripted client
// and a scripted fake back end, against Model/PgSession.v.
//
// Statement identifiers are seq*8+class; the SQL text is `SELECT n<class> FROM q<class> WHERE id = <seq>`
// (unique per statement).  class 0: table without settings; 1..5: int32 column with
// response_on_fail: default_value, default 40+class; 6..7: int32 column with response_on_fail: error.
// A "bad" row carries the text `xyz` (not an int32): the value the client receives shows which
// settings the proxy applied.  The censor denies by table (`qN` in deny tables), by query or by
// denyall-after-allow; the verdict given to the model is the observed one (error to the client, or
// packet at the back end).
//
// Own oracle: (1) the back end receives exactly the accepted statements, in order, and never a
// rejected one; (2) a rejected statement is answered with ErrorResponse + ReadyForQuery; (3) every
// bad row is handled with the settings of the statement the back end is answering; (4) at the end
// pendingQueryPackets = statements sent to the back end and not yet completed.

import (
	"bytes"
	"encoding/binary"
	"fmt"
	"strings"
	"time"

	"acra-vh/censorrig"
	"acra-vh/vh"
)

func init() { register("c05q", "Model.RunPgSession", runC05q) }

func c5qSQL(id int) string {
	return fmt.Sprintf("SELECT n%d FROM q%d WHERE id = %d", id&7, id&7, id>>3)
}

func c5qEncryptorYAML() []byte {
	var b strings.Builder
	b.WriteString("schemas:\n")
	for c := 0; c < 8; c++ {
		fmt.Fprintf(&b, "  - table: q%d\n    columns: [id, n%d]\n", c, c)
		if c == 0 {
			continue
		}
		fmt.Fprintf(&b, "    encrypted:\n      - column: n%d\n        data_type: int32\n", c)
		if c <= 5 {
			fmt.Fprintf(&b, "        response_on_fail: default_value\n        default_data_value: \"%d\"\n", 40+c)
		} else {
			b.WriteString("        response_on_fail: error\n")
		}
	}
	return []byte(b.String())
}

type c5qEvent struct {
	kind byte // 'Q' client query, 'D' row, 'C' complete, 'Z' ready, 'O' other
	id   int
	bad  bool
}

func pgQ(s string) censorrig.PgMsg { return censorrig.PgMsg{Type: 'Q', Payload: append([]byte(s), 0)} }
func pgRow(v string) censorrig.PgMsg {
	p := []byte{0, 1, 0, 0, 0, byte(len(v))}
	return censorrig.PgMsg{Type: 'D', Payload: append(p, v...)}
}
func pgNotice() censorrig.PgMsg {
	return censorrig.PgMsg{Type: 'N', Payload: []byte("SNOTICE\x00Mhello\x00\x00")}
}

func c5n8(n int) []byte {
	var b [8]byte
	binary.LittleEndian.PutUint64(b[:], uint64(n))
	return b[:]
}

const c5qWait = 5 * time.Second

func runC05q(rep *vh.Report, r *vh.Rng, n int, thorough bool) {
	enc := c5qEncryptorYAML()
	for sc := 0; sc < n; sc++ {
		// ---- censor configuration ----
		denied := map[int]bool{} // classes denied by table
		var hs []c5handler
		mode := r.Intn(3)
		switch mode {
		case 0: // deny tables
			var ts []string
			for c := 0; c < 8; c++ {
				if r.Intn(3) == 0 {
					denied[c] = true
					ts = append(ts, fmt.Sprintf("q%d", c))
				}
			}
			if len(ts) == 0 {
				denied[1] = true
				ts = []string{"q1"}
			}
			hs = []c5handler{{kind: "deny", tables: ts}}
		case 1: // allow tables, then denyall
			var ts []string
			for c := 0; c < 8; c++ {
				if r.Intn(3) != 0 {
					ts = append(ts, fmt.Sprintf("q%d", c))
				} else {
					denied[c] = true
				}
			}
			if len(ts) == 0 {
				ts = []string{"q0"}
				delete(denied, 0)
			}
			hs = []c5handler{{kind: "allow", tables: ts}, {kind: "denyall"}}
		default: // deny pattern on some classes
			var ps []string
			for c := 0; c < 8; c++ {
				if r.Intn(3) == 0 {
					denied[c] = true
					ps = append(ps, fmt.Sprintf("SELECT n%d FROM q%d WHERE id = %%%%VALUE%%%%", c, c))
				}
			}
			hs = []c5handler{{kind: "deny", patterns: ps}}
			if len(ps) == 0 {
				hs = []c5handler{{kind: "allowall"}}
			}
		}
		rep.Count(fmt.Sprintf("censor-mode:%d", mode))
		cy := c5yaml(false, hs)

		// ---- script: client queries interleaved with the answers of an in-order back end ----
		var evs []c5qEvent
		var bq []int // ids the back end has to answer (by the generator's own expectation)
		owed := false
		window := false // after a bad row: only back-end events until ReadyForQuery + fence
		nq := 2 + r.Intn(6)
		seq := 0
		steps := 0
		for (seq < nq || len(bq) > 0 || owed) && steps < 80 {
			steps++
			canQ := seq < nq && !window
			canB := len(bq) > 0 || owed
			if canQ && (!canB || r.Intn(5) < 2) {
				seq++
				id := seq*8 + r.Intn(8)
				evs = append(evs, c5qEvent{kind: 'Q', id: id})
				if !denied[id&7] {
					bq = append(bq, id)
				}
				continue
			}
			if !canB {
				continue
			}
			if owed {
				evs = append(evs, c5qEvent{kind: 'Z'})
				owed = false
				if window {
					evs = append(evs, c5qEvent{kind: 'O'})
					window = false
				}
				continue
			}
			switch r.Intn(6) {
			case 0, 1:
				bad := r.Intn(3) != 0
				evs = append(evs, c5qEvent{kind: 'D', bad: bad})
				if bad {
					window = true
				}
			case 2:
				evs = append(evs, c5qEvent{kind: 'O'})
			default:
				evs = append(evs, c5qEvent{kind: 'C'})
				bq = bq[1:]
				owed = true
			}
		}
		if owed || window {
			evs = append(evs, c5qEvent{kind: 'Z'}, c5qEvent{kind: 'O'})
		}
		evs = append(evs, c5qEvent{kind: 'O'})
		runC05qSession(rep, sc, cy, enc, evs)
	}
}

func runC05qSession(rep *vh.Report, sc int, cy string, enc []byte, evs []c5qEvent) {
	var script []string
	for _, e := range evs {
		switch e.kind {
		case 'Q':
			script = append(script, fmt.Sprintf("Q%d", e.id))
		case 'D':
			script = append(script, fmt.Sprintf("D%v", e.bad))
		default:
			script = append(script, string(e.kind))
		}
	}
	replay := "censor:\n" + cy + "script: " + strings.Join(script, " ")
	rig, err := censorrig.NewPgRig([]byte(cy), enc)
	if err != nil {
		rep.Count("rig-config-rejected")
		return
	}
	defer rig.Close()
	if err := rig.Startup(); err != nil {
		rep.Violate("rig-startup", "start-up exchange failed: "+err.Error(), replay)
		return
	}
	var terms []string // Coq events
	var outs [][]byte  // observed outputs, encoded like RunPgSession.enc_out
	var sentToDB, accepted, outstanding []int
	cliSeen := rig.CliStarted() // client-side messages consumed so far (start-up exchange included)
	hang := func(what string) {
		rep.OracleChecks++
		rep.Violate("hang", "the proxy did not produce the expected message: "+what, replay)
	}
	recvCli := func() (censorrig.PgMsg, bool) {
		m, err := censorrig.Recv(rig.ToCli, c5qWait)
		if err != nil {
			return m, false
		}
		cliSeen++
		return m, true
	}
	for i, e := range evs {
		switch e.kind {
		case 'Q':
			sql := c5qSQL(e.id)
			if err := rig.ClientSend(pgQ(sql)); err != nil {
				hang("client write: " + err.Error())
				return
			}
			censored := false
			select {
			case m, ok := <-rig.ToDB:
				if !ok || m.Type != 'Q' {
					hang("back end connection closed")
					return
				}
				got := string(bytes.TrimRight(m.Payload, "\x00"))
				sentToDB = append(sentToDB, e.id)
				outstanding = append(outstanding, e.id)
				rep.OracleChecks++
				if got != sql {
					rep.Violate("forwarded-other", fmt.Sprintf("back end received %q for client statement %q", got, sql), replay)
				}
				outs = append(outs, append([]byte{1}, c5n8(e.id)...))
				accepted = append(accepted, e.id)
			case m, ok := <-rig.ToCli:
				cliSeen++
				m2, ok2 := recvCli()
				rep.OracleChecks++
				if !ok || !ok2 || m.Type != 'E' || m2.Type != 'Z' {
					rep.Violate("reject-reply", fmt.Sprintf("rejected statement answered with %c %c instead of ErrorResponse ReadyForQuery", m.Type, m2.Type), replay)
					return
				}
				censored = true
				outs = append(outs, []byte{2})
			case <-time.After(c5qWait):
				hang("neither forward nor error for " + sql)
				return
			}
			rep.Count(fmt.Sprintf("query-censored:%v", censored))
			terms = append(terms, fmt.Sprintf("CQ %d %s", e.id, cb(censored)))
		default:
			var msg censorrig.PgMsg
			switch e.kind {
			case 'D':
				if e.bad {
					msg = pgRow("xyz")
				} else {
					msg = pgRow("7")
				}
				terms = append(terms, "DR "+cb(e.bad))
			case 'C':
				msg = censorrig.PgMsg{Type: 'C', Payload: []byte("SELECT 1\x00")}
				terms = append(terms, "DC")
			case 'Z':
				msg = censorrig.PgMsg{Type: 'Z', Payload: []byte{'I'}}
				terms = append(terms, "DZ")
			default:
				msg = pgNotice()
				terms = append(terms, "DO")
			}
			if err := rig.BackendSendSync(msg); err != nil {
				hang(fmt.Sprintf("back-end message %c (event %d) not consumed: %v", e.kind, i, err))
				return
			}
			// the proxy is done with the message: everything it emitted has at least been started
			var got []censorrig.PgMsg
			for rig.CliStarted() > cliSeen {
				m, ok := recvCli()
				if !ok {
					hang("client message started but not completed")
					return
				}
				got = append(got, m)
			}
			// classify
			head := -1
			if len(outstanding) > 0 {
				head = outstanding[0]
			}
			switch {
			case len(got) == 0:
				outs = append(outs, []byte{6})
			case e.kind == 'D' && got[0].Type == 'D':
				val := string(got[0].Payload[6:])
				code := byte(0xee)
				if e.bad {
					switch {
					case val == "xyz":
						code = 0
					case len(val) == 2 && val[0] == '4':
						code = val[1] - '0'
					default:
						code = 0xfd
					}
					// (3) settings of the statement the back end is answering
					rep.OracleChecks++
					want := byte(0)
					if head >= 0 {
						want = byte(head & 7)
					}
					if head < 0 {
						rep.Count("row-without-statement")
					} else if code != want {
						rep.Violate("row-wrong-settings", fmt.Sprintf("row of %q came back as %q: handled with the settings of class %d", c5qSQL(head), val, code), replay)
					}
				} else if val != "7" {
					rep.Violate("row-changed", "decodable value 7 came back as "+val, replay)
				}
				outs = append(outs, []byte{3, code})
			case e.kind == 'D' && got[0].Type == 'E':
				code := byte(0xfd)
				txt := string(got[0].Payload)
				for c := 0; c < 8; c++ {
					if strings.Contains(txt, fmt.Sprintf("\"n%d\"", c)) {
						code = byte(c)
					}
				}
				rep.OracleChecks++
				if !e.bad || head < 0 || head&7 < 6 || int(code) != head&7 {
					rep.Violate("row-wrong-settings", fmt.Sprintf("row (bad=%v) of statement %d answered with %q", e.bad, head, txt), replay)
				}
				if len(got) != 2 || got[1].Type != 'Z' {
					rep.Violate("reject-reply", "encoding error not followed by ReadyForQuery", replay)
				}
				outs = append(outs, []byte{4, code})
			default:
				rep.OracleChecks++
				if got[0].Type != msg.Type || !bytes.Equal(got[0].Payload, msg.Payload) || len(got) != 1 {
					rep.Violate("passthrough-changed", fmt.Sprintf("back-end message %c reached the client as %c", msg.Type, got[0].Type), replay)
				}
				outs = append(outs, []byte{5})
			}
			if e.kind == 'C' && len(outstanding) > 0 {
				outstanding = outstanding[1:]
			}
		}
	}
	// (1) the back end saw exactly the accepted statements; nothing else is waiting on its connection
	rep.OracleChecks++
	select {
	case m := <-rig.ToDB:
		rep.Violate("forwarded-extra", fmt.Sprintf("back end received an unexpected packet %c %q", m.Type, m.Payload), replay)
	default:
	}
	if fmt.Sprint(sentToDB) != fmt.Sprint(accepted) {
		rep.Violate("forwarded-other", fmt.Sprintf("back end saw %v, accepted %v", sentToDB, accepted), replay)
	}
	// (4) pending queue = sent and not completed
	pend := rig.Pending()
	var want []string
	for _, id := range outstanding {
		want = append(want, c5qSQL(id))
	}
	rep.OracleChecks++
	if fmt.Sprint(pend) != fmt.Sprint(want) {
		rep.Violate("pending-misaligned", fmt.Sprintf("pendingQueryPackets = %v, statements the back end still has to answer = %v", pend, want), replay)
	}
	last := []byte{7}
	for _, p := range pend {
		var a, b, c int
		if _, err := fmt.Sscanf(p, "SELECT n%d FROM q%d WHERE id = %d", &a, &b, &c); err == nil {
			last = append(last, c5n8(c*8+a)...)
		} else {
			last = append(last, 0xff)
		}
	}
	outs = append(outs, last)
	rep.Count(fmt.Sprintf("events:%d", len(evs)/5*5))
	rep.Add(fmt.Sprintf("sc%d %s", sc, strings.Join(script, " ")), "(OpSession ["+strings.Join(func() []string {
		var xs []string
		for _, t := range terms {
			xs = append(xs, "("+t+")")
		}
		return xs
	}(), "; ")+"])", vh.Ok(outs...))
}
