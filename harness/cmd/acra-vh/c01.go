package main

import (
	"bytes"
	"crypto/sha256"
	"encoding/binary"
	"encoding/hex"
	"fmt"

	"acra-vh/vh"

	"github.com/cossacklabs/acra/acrablock"
	"github.com/cossacklabs/acra/acrastruct"
	"github.com/cossacklabs/acra/crypto"
)

func init() { register("c01", "Model.RunEnvelope", runC01) }

var boundaryLens = []int{0, 1, 2, 3, 7, 8, 11, 12, 13, 14, 17, 18, 19, 32, 33, 43, 44, 45, 46, 83, 84, 85, 136, 137, 138, 144, 145, 146, 200, 255, 256, 257}

// genPlain produces plaintexts aimed at the places the property names.
func genPlain(r *vh.Rng, pool [][]byte, big bool) ([]byte, string) {
	var n int
	switch r.Intn(4) {
	case 0:
		n = boundaryLens[r.Intn(len(boundaryLens))]
	case 1:
		n = 1 + r.Intn(64)
	default:
		n = 1 + r.Intn(300)
	}
	if big && r.Intn(8) == 0 {
		n = r.Pick(4096, 65535, 65536)
	}
	switch r.Intn(8) {
	case 0:
		return bytes.Repeat([]byte{'"'}, n), "quotes"
	case 1:
		return bytes.Repeat([]byte{'%'}, n), "percents"
	case 2: // tag bytes sprinkled in random data
		b := r.Bytes(n)
		for i := 0; i+8 <= len(b) && r.Intn(3) != 0; i += 1 + r.Intn(20) {
			if r.Bool() {
				copy(b[i:], `%%%`)
			} else {
				copy(b[i:], `""""""""`)
			}
		}
		return b, "tags-in-random"
	case 3: // a whole earlier envelope embedded in (or being) the plaintext
		if len(pool) > 0 {
			env := pool[r.Intn(len(pool))]
			switch r.Intn(3) {
			case 0:
				return append([]byte{}, env...), "whole-envelope"
			case 1:
				return append(r.Bytes(1+r.Intn(5)), env...), "envelope-with-prefix"
			default:
				return append(append([]byte{}, env...), r.Bytes(1+r.Intn(5))...), "envelope-with-suffix"
			}
		}
		fallthrough
	case 4:
		b := make([]byte, n)
		return b, "zeros"
	case 5:
		return []byte(string(bytes.Repeat([]byte("жλ\x00"), n/5+1))[:n]), "utf8-nul"
	}
	return r.Bytes(n), "random"
}

// ---- what "already is a protected value" means, decided by the harness itself (never by asking the code under test):
// a whole AcraStruct, an AcraBlock at offset 0, or a serialized container whose declared length fits the data and
// whose inner bytes are an envelope of the kind its id byte names. Everything else is a plaintext, however much
// its first bytes resemble a header, and has to be protected and come back.

func c01IsAcraStruct(x []byte) bool {
	min := acrastruct.GetMinAcraStructLength()
	if len(x) < min || !bytes.Equal(x[:len(acrastruct.TagBegin)], acrastruct.TagBegin) {
		return false
	}
	return binary.LittleEndian.Uint64(x[min-acrastruct.DataLengthSize:min]) == uint64(len(x)-min)
}

func c01IsAcraBlockAtStart(x []byte) bool {
	if len(x) < acrablock.AcraBlockMinSize {
		return false
	}
	if !bytes.Equal(x[:acrablock.TagBeginSize], acrastruct.TagBegin[:acrablock.TagBeginSize]) {
		return false
	}
	rest := binary.LittleEndian.Uint64(x[acrablock.RestAcraBlockLengthPosition : acrablock.RestAcraBlockLengthPosition+acrablock.RestAcraBlockLengthSize])
	if rest < uint64(acrablock.AcraBlockMinSize-acrablock.TagBeginSize) || rest > uint64(len(x)-acrablock.TagBeginSize) {
		return false
	}
	return x[acrablock.KeyEncryptionKeyTypePosition] == byte(acrablock.KeyEncryptionBackendTypeSecureCell) &&
		x[acrablock.DataEncryptionTypePosition] == byte(acrablock.DataEncryptionBackendTypeSecureCell)
}

func c01IsContainer(x []byte) bool {
	hdr := crypto.SerializedContainerMinSize
	if len(x) <= hdr || !bytes.Equal(x[:len(crypto.TagBegin)], crypto.TagBegin) {
		return false
	}
	total := binary.LittleEndian.Uint64(x[len(crypto.TagBegin) : len(crypto.TagBegin)+crypto.SerializedContainerLengthSize])
	if total < uint64(hdr) || total > uint64(len(x)) {
		return false
	}
	inner := x[hdr:int(total)]
	switch x[hdr-1] {
	case crypto.AcraStructEnvelopeID:
		return c01IsAcraStruct(inner)
	case crypto.AcraBlockEnvelopeID:
		return c01IsAcraBlockAtStart(inner)
	}
	return false
}

// c01IsProtectedValue: the pass-through clause of the property applies to x.
func c01IsProtectedValue(x []byte) bool {
	return c01IsAcraStruct(x) || c01IsAcraBlockAtStart(x) || c01IsContainer(x)
}

// ---- plaintexts that begin like a serialized container: tag + 8 length bytes + envelope id + tail
var c01LookIDs = []byte{crypto.AcraStructEnvelopeID, crypto.AcraBlockEnvelopeID}
var c01LookLens = []string{"len-exact", "len-random", "len-zero", "len-header", "len-short", "len-long", "len-huge"}
var c01LookTails = []string{"tail-random", "tail-one-byte", "tail-quotes", "tail-acrablock-like", "tail-container-truncated", "tail-container-corrupted", "tail-container-cut-length-fixed"}

// C01LookalikeCombos is the size of the systematic table walked by c01Lookalike.
var c01LookalikeCombos = len(c01LookIDs) * len(c01LookLens) * len(c01LookTails)

// c01Lookalike builds entry k of the table id x declared length x tail. real (may be nil) is a genuine serialized
// container used for the truncated / corrupted tails. The result is a PLAINTEXT unless c01IsProtectedValue says otherwise.
func c01Lookalike(r *vh.Rng, real []byte, k int) ([]byte, string) {
	k %= c01LookalikeCombos
	if k < 0 {
		k += c01LookalikeCombos
	}
	id := c01LookIDs[k%len(c01LookIDs)]
	lf := c01LookLens[(k/len(c01LookIDs))%len(c01LookLens)]
	tf := c01LookTails[(k/(len(c01LookIDs)*len(c01LookLens)))%len(c01LookTails)]
	hdr := crypto.SerializedContainerMinSize
	var tail []byte
	keepHeader := false
	switch tf {
	case "tail-one-byte":
		tail = r.Bytes(1)
	case "tail-quotes": // starts like an AcraStruct
		tail = append(bytes.Repeat([]byte{'"'}, 8), r.Bytes(r.Intn(200))...)
	case "tail-acrablock-like": // an AcraBlock header with known backend types whose rest length points past the data
		body := r.Bytes(r.Intn(60))
		tail = append([]byte{}, acrastruct.TagBegin[:acrablock.TagBeginSize]...)
		tail = append(tail, n8(acrablock.AcraBlockMinSize-acrablock.TagBeginSize+len(body)+1+r.Intn(5))...)
		tail = append(tail, byte(acrablock.KeyEncryptionBackendTypeSecureCell), byte(r.Intn(256)), byte(r.Intn(256)), byte(acrablock.DataEncryptionBackendTypeSecureCell), byte(len(body)), 0)
		tail = append(tail, body...)
	case "tail-container-truncated", "tail-container-corrupted", "tail-container-cut-length-fixed":
		if len(real) > hdr+8 {
			id = real[hdr-1]
			tail = append([]byte{}, real[hdr:]...)
			switch tf {
			case "tail-container-truncated": // header (with its length) kept, end missing
				tail = tail[:1+r.Intn(len(tail)-1)]
				keepHeader = true
			case "tail-container-corrupted": // header kept, inner tag damaged
				tail[r.Intn(4)] ^= byte(1 + r.Intn(255))
				keepHeader = true
			default: // cut and the declared length made to fit: the inner envelope's own length no longer does
				tail = tail[:len(tail)-1-r.Intn(min(8, len(tail)-8))]
				lf = "len-exact"
			}
			break
		}
		fallthrough
	default:
		tf = "tail-random"
		tail = r.Bytes(1 + r.Intn(120))
	}
	x := append(append([]byte{}, crypto.TagBegin...), make([]byte, crypto.SerializedContainerLengthSize)...)
	x = append(append(x, id), tail...)
	var l uint64
	switch lf {
	case "len-exact":
		l = uint64(len(x))
	case "len-zero":
		l = 0
	case "len-header":
		l = uint64(hdr)
	case "len-short":
		l = uint64(hdr + 1 + r.Intn(len(tail)))
	case "len-long":
		l = uint64(len(x) + 1 + r.Intn(300))
	case "len-huge":
		l = ^uint64(0) - uint64(r.Intn(20))
	default:
		l = uint64(r.Intn(1 << 16))
		if r.Bool() {
			l = binary.LittleEndian.Uint64(r.Bytes(8))
		}
	}
	if keepHeader {
		copy(x[:hdr], real[:hdr])
		lf = "len-of-the-real-container"
	} else {
		binary.LittleEndian.PutUint64(x[len(crypto.TagBegin):], l)
	}
	class := fmt.Sprintf("lookalike id=%02x %s %s", id, lf, tf)
	if r.Intn(7) == 0 { // the same bytes elsewhere than at offset 0
		x = append(r.Bytes(1+r.Intn(3)), x...)
		class += " at-offset"
	}
	return x, class
}

func genAffix(r *vh.Rng) []byte {
	switch r.Intn(6) {
	case 0:
		return nil
	case 1:
		return bytes.Repeat([]byte{'%'}, 1+r.Intn(4))
	case 2:
		return bytes.Repeat([]byte{'"'}, 1+r.Intn(9))
	case 3:
		return append(r.Bytes(r.Intn(10)), '%', '%')
	}
	return r.Bytes(r.Intn(24))
}

// collidingKey searches a fresh 32-byte key whose 2-byte AcraBlock key id (sha256(key||ctx)[:2]) equals
// that of key: a rotated key with a colliding id must not stop the search for the right key.
func collidingKey(r *vh.Rng, key, ctx []byte) []byte {
	want := sha256.Sum256(append(append([]byte{}, key...), ctx...))
	for i := 0; i < 4000000; i++ {
		k := r.Bytes(32)
		h := sha256.Sum256(append(append([]byte{}, k...), ctx...))
		if h[0] == want[0] && h[1] == want[1] {
			return k
		}
	}
	return r.Bytes(32)
}

func rotate(r *vh.Rng, ks *vh.KeySet) {
	if r.Bool() {
		ks.Seeds = append([][]byte{r.Bytes(32)}, ks.Seeds...)
	}
	switch r.Intn(4) {
	case 0, 1:
		ks.Syms = append([][]byte{r.Bytes(32)}, ks.Syms...)
	case 2: // the newer key has the SAME 2-byte key id as the key in use (handlers use an empty context)
		ks.Syms = append([][]byte{collidingKey(r, ks.Syms[0], nil)}, ks.Syms...)
	}
}

func hx(b []byte) string {
	if len(b) > 80 {
		return hex.EncodeToString(b[:80]) + fmt.Sprintf("…(%d bytes)", len(b))
	}
	return hex.EncodeToString(b)
}

// runC01: protect through every entry point, reveal through every entry point as the owner.
// Oracle (independent of the model): reveal(protect(x)) == x; protect(already protected) == input.
func runC01(rep *vh.Report, r *vh.Rng, n int, thorough bool) {
	e := &EnvOps{rep, r}
	var pool [][]byte
	// after the n ordinary scenarios: the header look-alike table (id x declared length x tail), each entry through a
	// systematically chosen entry point and envelope kind, always with the searchable operations as well
	nLook := n/3 + 6
	lookOff := r.Intn(c01LookalikeCombos)
	for sc := 0; sc < n+nLook; sc++ {
		ks := vh.NewKeySet(r, 1+r.Intn(2), 1+r.Intn(2), true)
		look := sc >= n
		var x []byte
		var class string
		id := byte(crypto.AcraStructEnvelopeID)
		entry := 0
		if look {
			k := sc - n
			var real []byte
			if len(pool) > 0 {
				real = pool[r.Intn(len(pool))]
			}
			// 5 is coprime to the table's factors 2 and 7: consecutive entries differ in id, length form and tail
			x, class = c01Lookalike(r, real, lookOff+5*k)
			rep.Count("plain:lookalike")
			rep.Count("look:" + class)
			if (k/3)%2 == 1 {
				id = crypto.AcraBlockEnvelopeID
			}
			entry = k % 3
		} else {
			x, class = genPlain(r, pool, thorough)
			rep.Count("plain:" + class)
			if r.Bool() {
				id = crypto.AcraBlockEnvelopeID
			}
			entry = r.Intn(3)
		}
		rep.Count(fmt.Sprintf("len:%d", bucket(len(x))))
		lab := fmt.Sprintf("sc%d %s id=%02x len=%d", sc, class, id, len(x))
		// what the property calls "already a protected value" is decided here, not by the code under test
		isProt := c01IsProtectedValue(x)
		if isProt {
			rep.Count("input-is-protected-value")
		}
		// protect through one of the entry points (all map to the same model op)
		var prot vh.Outcome
		switch entry {
		case 0:
			prot = e.EncHandler(lab+" EncryptWithHandler", id, ks, x)
		case 1:
			prot = e.EncWithClientID(lab+" EncryptWithClientID", id, ks, x)
		default:
			prot = e.TrEncrypt(lab+" translator.Encrypt", id, ks, x)
		}
		rep.Count(fmt.Sprintf("entry:%d", entry))
		looksProtected := false
		if prot.Kind == "ok" && bytes.Equal(prot.Vals[0], x) {
			looksProtected = true
			rep.Count("passthrough")
		}
		rep.OracleChecks++
		if looksProtected && !isProt && len(x) != 0 {
			// pass-through is for protected values only: this plaintext left the protect call in clear
			rep.Violate("plaintext-passed-through", fmt.Sprintf("entry %d returned a plaintext that is not a protected value unchanged (not encrypted)", entry), lab+" x="+hex.EncodeToString(x))
		}
		if isProt && prot.Kind == "ok" && !looksProtected {
			rep.Violate("double-wrap", fmt.Sprintf("entry %d wrapped a value that already is a protected value", entry), lab+" x="+hex.EncodeToString(x))
		}
		passedThrough := looksProtected
		looksProtected = isProt
		if prot.Kind == "panic" {
			rep.Violate("protect-panic", "protect panicked: "+prot.Msg, lab+" x="+hex.EncodeToString(x))
			continue
		}
		if prot.Kind == "err" {
			if len(x) != 0 {
				rep.Violate("protect-error", "protect failed on non-empty input: "+prot.Msg, lab+" x="+hex.EncodeToString(x))
			}
			continue
		}
		v := prot.Vals[0]
		if !looksProtected && !passedThrough {
			pool = append(pool, v)
			if len(pool) > 40 {
				pool = pool[1:]
			}
			// second protect of a protected value: must be the identity
			again := e.EncHandler(lab+" re-protect", id, ks, v)
			rep.OracleChecks++
			if again.Kind != "ok" || !bytes.Equal(again.Vals[0], v) {
				rep.Violate("double-wrap", "protected value was not passed through unchanged", lab+" v="+hex.EncodeToString(v))
			}
		}
		// keys may rotate between write and read
		rotate(r, ks)
		check := func(what string, o vh.Outcome, want []byte) {
			rep.OracleChecks++
			if looksProtected {
				return // the input already was a protected value of someone: nothing to reveal
			}
			if o.Kind != "ok" || !bytes.Equal(o.Vals[0], want) {
				rep.Violate("roundtrip", what+" did not return the original: "+o.String()[:min(200, len(o.String()))], lab+" x="+hex.EncodeToString(x)+" v="+hex.EncodeToString(v))
			}
		}
		check("DecryptWithHandler", e.DecHandler(lab+" DecryptWithHandler", id, ks, v), x)
		check("Process", e.Process(lab+" Process", ks, v), x)
		check("translator.Decrypt", e.TrDecrypt(lab+" translator.Decrypt", id, ks, v), x)
		// inside a column value
		pre, suf := genAffix(r), genAffix(r)
		col := append(append(append([]byte{}, pre...), v...), suf...)
		oc := e.OnColumn(lab+fmt.Sprintf(" OnColumn pre=%s suf=%s", hx(pre), hx(suf)), ks, col)
		rep.OracleChecks++
		if !looksProtected {
			// whatever surrounds the envelope: a false tag candidate in the prefix (e.g. a prefix ending in '%')
			// must cost one byte only, the envelope is revealed in place and the suffix copied
			want := append(append(append([]byte{}, pre...), x...), suf...)
			if oc.Kind != "ok" || !bytes.Equal(oc.Vals[0], want) {
				rep.Violate("column-roundtrip", "OnColumn did not reveal the envelope in place: "+oc.String()[:min(200, len(oc.String()))], lab+" pre="+hex.EncodeToString(pre)+" col="+hex.EncodeToString(col))
			}
		}
		// low-level pairs, byte exact with the tape
		if sc%3 == 0 {
			ctx := r.Bytes(r.Intn(6))
			c := e.AsCreate(lab+" CreateAcrastruct", x, ks.Pub(0), ctx)
			if c.Kind == "ok" {
				var privs [][]byte
				for i := range ks.Seeds {
					privs = append(privs, ks.Priv(i))
				}
				d := e.AsDecrypt(lab+" DecryptRotatedAcrastruct", c.Vals[0], privs, ctx)
				rep.OracleChecks++
				if d.Kind != "ok" || !bytes.Equal(d.Vals[0], x) {
					rep.Violate("roundtrip", "AcraStruct round trip failed", lab)
				}
			}
			b := e.AbCreate(lab+" CreateAcraBlock", x, ks.Syms[len(ks.Syms)-1], ctx)
			if b.Kind == "ok" {
				e.AbExtract(lab+" ExtractAcraBlockFromData", append(append([]byte{}, b.Vals[0]...), suf...))
				keys := ks.Syms
				if sc%2 == 0 {
					keys = append([][]byte{collidingKey(r, ks.Syms[len(ks.Syms)-1], ctx)}, ks.Syms...)
					rep.Count("colliding-key-id")
				}
				d := e.AbDecrypt(lab+" AcraBlock.Decrypt", b.Vals[0], keys, ctx)
				rep.OracleChecks++
				if d.Kind != "ok" || !bytes.Equal(d.Vals[0], x) {
					rep.Violate("roundtrip", "AcraBlock round trip failed", lab)
				}
				e.ScDeserialize(lab+" Deserialize", v)
				e.ScExtract(lab+" ExtractSerializedContainer", append(append([]byte{}, v...), suf...))
			}
		}
		// searchable variants
		if sc%4 == 1 || look {
			s := e.TrEncSearch(lab+" EncryptSearchable", id, ks, x)
			if s.Kind == "ok" {
				var d vh.Outcome
				if r.Bool() {
					d = e.TrDecSearch(lab+" DecryptSearchable(hash arg)", id, ks, s.Vals[0], s.Vals[1])
				} else {
					d = e.TrDecSearch(lab+" DecryptSearchable(joined)", id, ks, append(append([]byte{}, s.Vals[1]...), s.Vals[0]...), nil)
				}
				rep.OracleChecks++
				if !isProt && (d.Kind != "ok" || !bytes.Equal(d.Vals[0], x)) {
					rep.Violate("roundtrip", "searchable round trip failed: "+d.String()[:min(200, len(d.String()))], lab+" x="+hex.EncodeToString(x))
				}
			}
		}
	}
}

func bucket(n int) int {
	switch {
	case n <= 18:
		return n
	case n <= 64:
		return 64
	case n <= 160:
		return 160
	case n <= 512:
		return 512
	}
	return 65536
}
