package main

import (
	"context"
	"encoding/hex"
	"fmt"
	"net"
	"reflect"
	"sort"

	"acra-vh/vh"

	"github.com/cossacklabs/acra/cmd/acra-translator/grpc_api"
	"github.com/cossacklabs/acra/network"
	"google.golang.org/grpc/peer"
)

func init() { register("c02tls", "Model.RunTls", runC02tls) }

// spyService records the client id every RPC receives. RPCs it does not know fall through to the embedded
// Unimplemented servers and record nothing (reported by the oracle as "rpc-not-observed").
type spyService struct {
	grpc_api.UnimplementedReaderServer
	grpc_api.UnimplementedReaderSymServer
	grpc_api.UnimplementedTokenizatorServer
	grpc_api.UnimplementedSearchableEncryptionServer
	grpc_api.UnimplementedWriterServer
	grpc_api.UnimplementedWriterSymServer
	seen   [][]byte
	method []string
}

func (s *spyService) rec(m string, id []byte) {
	s.seen = append(s.seen, append([]byte{}, id...))
	s.method = append(s.method, m)
}
func (s *spyService) Encrypt(ctx context.Context, r *grpc_api.EncryptRequest) (*grpc_api.EncryptResponse, error) {
	s.rec("Encrypt", r.ClientId)
	return &grpc_api.EncryptResponse{}, nil
}
func (s *spyService) Decrypt(ctx context.Context, r *grpc_api.DecryptRequest) (*grpc_api.DecryptResponse, error) {
	s.rec("Decrypt", r.ClientId)
	return &grpc_api.DecryptResponse{}, nil
}
func (s *spyService) Tokenize(ctx context.Context, r *grpc_api.TokenizeRequest) (*grpc_api.TokenizeResponse, error) {
	s.rec("Tokenize", r.ClientId)
	return &grpc_api.TokenizeResponse{}, nil
}
func (s *spyService) Detokenize(ctx context.Context, r *grpc_api.TokenizeRequest) (*grpc_api.TokenizeResponse, error) {
	s.rec("Detokenize", r.ClientId)
	return &grpc_api.TokenizeResponse{}, nil
}
func (s *spyService) DecryptSym(ctx context.Context, r *grpc_api.DecryptSymRequest) (*grpc_api.DecryptSymResponse, error) {
	s.rec("DecryptSym", r.ClientId)
	return &grpc_api.DecryptSymResponse{}, nil
}
func (s *spyService) EncryptSym(ctx context.Context, r *grpc_api.EncryptSymRequest) (*grpc_api.EncryptSymResponse, error) {
	s.rec("EncryptSym", r.ClientId)
	return &grpc_api.EncryptSymResponse{}, nil
}
func (s *spyService) EncryptSearchable(ctx context.Context, r *grpc_api.SearchableEncryptionRequest) (*grpc_api.SearchableEncryptionResponse, error) {
	s.rec("EncryptSearchable", r.ClientId)
	return &grpc_api.SearchableEncryptionResponse{}, nil
}
func (s *spyService) DecryptSearchable(ctx context.Context, r *grpc_api.SearchableDecryptionRequest) (*grpc_api.SearchableDecryptionResponse, error) {
	s.rec("DecryptSearchable", r.ClientId)
	return &grpc_api.SearchableDecryptionResponse{}, nil
}
func (s *spyService) EncryptSymSearchable(ctx context.Context, r *grpc_api.SearchableSymEncryptionRequest) (*grpc_api.SearchableSymEncryptionResponse, error) {
	s.rec("EncryptSymSearchable", r.ClientId)
	return &grpc_api.SearchableSymEncryptionResponse{}, nil
}
func (s *spyService) DecryptSymSearchable(ctx context.Context, r *grpc_api.SearchableSymDecryptionRequest) (*grpc_api.SearchableSymDecryptionResponse, error) {
	s.rec("DecryptSymSearchable", r.ClientId)
	return &grpc_api.SearchableSymDecryptionResponse{}, nil
}
func (s *spyService) GenerateQueryHash(ctx context.Context, r *grpc_api.QueryHashRequest) (*grpc_api.QueryHashResponse, error) {
	s.rec("GenerateQueryHash", r.ClientId)
	return &grpc_api.QueryHashResponse{}, nil
}

// fakeAuthInfo is what acra's TLS credentials wrapper hands to gRPC: an AuthInfo giving access to the
// connection, which is wrapped by the client-id carrying connection built by network.wrapClientConnection.
type fakeAuthInfo struct{ conn net.Conn }

func (fakeAuthInfo) AuthType() string       { return "verif" }
func (f fakeAuthInfo) Connection() net.Conn { return f.conn }

type plainAuthInfo struct{}

func (plainAuthInfo) AuthType() string { return "plain" }

func rpcNames() []string {
	t := reflect.TypeOf((*grpc_api.DecryptService)(nil)).Elem()
	var out []string
	for i := 0; i < t.NumMethod(); i++ {
		if m := t.Method(i); m.PkgPath == "" {
			out = append(out, m.Name)
		}
	}
	sort.Strings(out)
	return out
}

// runC02tls: forged client_id fields through the REAL TLSDecryptServiceWrapper.
// Oracle: the wrapped service sees exactly the connection identity, never the request's; without a
// connection identity it is not reached at all.
func runC02tls(rep *vh.Report, r *vh.Rng, n int, thorough bool) {
	names := rpcNames()
	// cross-check the generator's RPC set against the compiled interface
	rows, err := analyseTLSWrapper()
	rep.OracleChecks++
	if err != nil {
		rep.Violate("tls-generator", "go/ast analysis failed: "+err.Error(), "")
	} else {
		var g []string
		for _, row := range rows {
			g = append(g, row.rpc)
		}
		if fmt.Sprint(g) != fmt.Sprint(names) {
			rep.Violate("tls-rpc-set", fmt.Sprintf("RPC set read by go/ast %v differs from the compiled DecryptService interface %v", g, names), "")
		}
	}
	ids := [][]byte{[]byte("client"), []byte("clientb"), []byte("a"), []byte("a_storage"), []byte("b"), {}, nil}
	for sc := 0; sc < n; sc++ {
		for _, name := range names {
			connID := ids[r.Intn(5)]
			var forged []byte
			switch r.Intn(6) {
			case 0:
				forged = nil
			case 1:
				forged = append([]byte{}, connID...)
			case 2:
				forged = r.Bytes(1 + r.Intn(20))
			default:
				forged = ids[r.Intn(len(ids))]
			}
			mode := r.Intn(8) // 0: no peer in context, 1: AuthInfo without connection access, 2: plain net.Conn (no identity)
			rep.Count(fmt.Sprintf("mode:%d", min(mode, 3)))
			spy := &spyService{}
			w, err := grpc_api.NewTLSDecryptServiceWrapper(spy, nil)
			if err != nil {
				panic(err)
			}
			c1, c2 := net.Pipe()
			ctx := context.Background()
			connTerm := "None"
			switch mode {
			case 0:
			case 1:
				ctx = peer.NewContext(ctx, &peer.Peer{AuthInfo: plainAuthInfo{}})
			case 2:
				ctx = peer.NewContext(ctx, &peer.Peer{AuthInfo: fakeAuthInfo{c1}})
			default:
				ctx = peer.NewContext(ctx, &peer.Peer{AuthInfo: fakeAuthInfo{network.VerifNewClientIDConnection(c1, connID)}})
				connTerm = "(Some " + vh.H(connID) + ")"
			}
			m := reflect.ValueOf(w).MethodByName(name)
			req := reflect.New(m.Type().In(1).Elem())
			f := req.Elem().FieldByName("ClientId")
			if !f.IsValid() {
				rep.OracleChecks++
				rep.Violate("tls-request-without-client-id", "request type of "+name+" has no ClientId field", name)
				continue
			}
			f.SetBytes(append([]byte{}, forged...))
			o := vh.Guard(func() vh.Outcome {
				res := m.Call([]reflect.Value{reflect.ValueOf(ctx), req})
				if !res[1].IsNil() {
					return vh.ErrO(res[1].Interface().(error))
				}
				if len(spy.seen) != 1 {
					return vh.Outcome{Kind: "err", Msg: "service not reached"}
				}
				return vh.Ok(spy.seen[0])
			})
			c1.Close()
			c2.Close()
			lab := fmt.Sprintf("sc%d %s conn=%s forged=%s mode=%d", sc, name, connTerm, hex.EncodeToString(forged), mode)
			rep.Add(lab, fmt.Sprintf("TlsCall %s %s %s", vh.H([]byte(name)), connTerm, vh.H(forged)), o)
			rep.OracleChecks++
			switch {
			case o.Kind == "panic":
				rep.Violate("tls-panic", name+" panicked: "+o.Msg, lab)
			case mode <= 2:
				if len(spy.seen) != 0 {
					rep.Violate("tls-no-identity-delegated", name+" reached the service although the connection carries no identity (service saw "+hex.EncodeToString(spy.seen[0])+")", lab)
				}
			case len(spy.seen) != 1 || spy.method[0] != name:
				rep.Violate("tls-rpc-not-observed", fmt.Sprintf("%s: service calls observed %v", name, spy.method), lab)
			case string(spy.seen[0]) != string(connID):
				cls := "tls-identity-not-overridden"
				rep.Violate(cls, fmt.Sprintf("%s delegated with client id %q, connection identity is %q, request said %q", name, spy.seen[0], connID, forged), lab)
			}
		}
	}
}
