package main

import (
	"fmt"
	"sort"
	"strings"

	"acra-vh/vh"

	"github.com/cossacklabs/acra/keystore/v2/keystore/api"
	"github.com/cossacklabs/acra/keystore/v2/keystore/asn1"
	"github.com/cossacklabs/acra/keystore/v2/keystore/filesystem/backend"
	backendAPI "github.com/cossacklabs/acra/keystore/v2/keystore/filesystem/backend/api"
)

func init() { register("c17", "Model.RunKeystoreWrite", runC17) }

// ---------- cooperative scheduler over REAL keystore handles sharing one backend ----------
//
// Every handle (writer or reader) is a goroutine around a real v2 key store over its own wrapper of
// the shared in-memory back end. Before EVERY back-end call the goroutine announces the call and
// waits for the scheduler, so a handle can be paused between any two of its back-end calls
// (including between an RUnlock and the following Lock). Handles start WITHOUT a key ring object:
// OpenKeyRingRW / the generate-key entry points are scheduled like everything else, so programs can
// start from a ring that does not exist yet.

type c17Op struct {
	o          kop
	res, val   int
	start, end int   // scheduler turn in which the operation started / returned
	rids       []int // ListKeys (c17ser.go): the rings listed
}

type c17Writer struct {
	p     *kproc
	prog  []kop
	req   chan string // the goroutine announces its next back-end call ("" = finished)
	grant chan bool
	ops   []c17Op
	pend  string
	done  bool
	turn  int         // set by the scheduler before every grant
	ro    api.KeyRing // the object of the last successful read-only OpenKeyRing (c17ser.go)
}

type c17Reader struct {
	h     *vh.KswHandle
	reads int
	req   chan string
	grant chan bool
	pend  string
	done  bool
	obs   []*vh.KswFile // what every OpenKeyRing saw (nil = failed)
	miss  []bool        // the failure was ErrNotExist
	errs  []string
}

// lock bookkeeping of the scheduler = Model.KeystoreWrite.lock_step
type c17Lock struct {
	excl   int // -1 none
	shared map[int]bool
}

func (l *c17Lock) grantable(i int, call string) bool {
	switch call {
	case "Lock":
		return l.excl < 0 && len(l.shared) == 0
	case "RLock":
		return l.excl < 0
	}
	return true
}
func (l *c17Lock) apply(i int, call string) {
	switch call {
	case "Lock":
		l.excl = i
	case "Unlock":
		l.excl = -1
	case "RLock":
		l.shared[i] = true
	case "RUnlock":
		delete(l.shared, i)
	}
}

// call tags = Model.RunKeystoreWrite.call_tag
var c17Tags = map[string]int{"Lock": 0, "Unlock": 1, "RLock": 2, "RUnlock": 3, "Get": 4, "Put": 5, "Remove": 6, "Rename": 7, "ListAll": 8}

func c17Tag(call string) int {
	if t, ok := c17Tags[call]; ok {
		return t
	}
	return 9
}

// one granted step: who, which back-end call, and who else could have been chosen
// (order = the handle that ran last first if it can go on, then the others ascending)
type c17Step struct {
	h          int
	call       string
	order      []int
	curEnabled bool
}

// what anyone reading the ring file at a moment when the exclusive lock is free would get
type c17Obs struct {
	turn int
	f    *vh.KswFile // nil = the ring file does not exist
}

type c17Trace struct {
	ws     []*c17Writer
	rd     *c17Reader
	steps  []c17Step
	obs    []c17Obs
	obsErr string
	stuck  bool
}

func (t *c17Trace) choices() []int {
	out := make([]int, len(t.steps))
	for i, s := range t.steps {
		out[i] = s.h
	}
	return out
}

// c17Exec runs the writers' programs (and a reader doing `reads` OpenKeyRing calls, if any) on ring
// rid; choose picks the next handle among the ones that can step.
func c17Exec(inner *backend.InMemory, rid int, progs [][]kop, reads int, choose func(k int, order []int) int) *c17Trace {
	tr := &c17Trace{}
	for _, prog := range progs {
		tr.ws = append(tr.ws, &c17Writer{p: newKproc(inner), prog: prog, req: make(chan string), grant: make(chan bool)})
	}
	nw := len(tr.ws)
	for _, w := range tr.ws {
		w := w
		w.p.h.B.Before = func(call string) { w.req <- strings.SplitN(call, " ", 2)[0]; <-w.grant }
		go func() {
			for _, o := range w.prog {
				op := c17Op{o: o, start: w.turn}
				op.res, op.val = c17sDo(w, o, &op)
				op.end = w.turn
				w.ops = append(w.ops, op)
			}
			w.req <- ""
		}()
	}
	nh := nw
	if reads > 0 {
		rd := &c17Reader{h: vh.NewKswHandle(inner), reads: reads, req: make(chan string), grant: make(chan bool)}
		tr.rd = rd
		nh = nw + 1
		rd.h.B.Before = func(call string) { rd.req <- strings.SplitN(call, " ", 2)[0]; <-rd.grant }
		go func() {
			for i := 0; i < rd.reads; i++ {
				r, err := rd.h.FS.OpenKeyRing(vh.KswRingPath(rid))
				if err != nil {
					rd.obs = append(rd.obs, nil)
					rd.miss = append(rd.miss, err == backendAPI.ErrNotExist)
					rd.errs = append(rd.errs, err.Error())
					continue
				}
				cur, keys := vh.KswView(r)
				rd.obs = append(rd.obs, &vh.KswFile{Rid: rid, Valid: true, Cur: cur, Keys: keys})
				rd.miss = append(rd.miss, false)
			}
			rd.req <- ""
		}()
	}
	clean := vh.NewKswHandle(inner)
	lock := &c17Lock{excl: -1, shared: map[int]bool{}}
	wait := func(i int) {
		if i < nw {
			tr.ws[i].pend = <-tr.ws[i].req
			tr.ws[i].done = tr.ws[i].pend == ""
		} else {
			tr.rd.pend = <-tr.rd.req
			tr.rd.done = tr.rd.pend == ""
		}
	}
	state := func(i int) (string, bool) {
		if i < nw {
			return tr.ws[i].pend, tr.ws[i].done
		}
		return tr.rd.pend, tr.rd.done
	}
	observe := func(turn int) {
		if lock.excl >= 0 {
			return
		}
		fs, err := vh.KswAbstract(inner, clean)
		if err != nil {
			tr.obsErr = err.Error()
			return
		}
		var f *vh.KswFile
		if p := ringOf(fs, 0, rid); p != nil {
			c := *p
			f = &c
		}
		tr.obs = append(tr.obs, c17Obs{turn, f})
	}
	for i := 0; i < nh; i++ {
		wait(i)
	}
	observe(0)
	cur := -1
	for k := 0; k < 4096; k++ {
		var order []int
		curEnabled := false
		if cur >= 0 {
			if pend, done := state(cur); !done && lock.grantable(cur, pend) {
				order = append(order, cur)
				curEnabled = true
			}
		}
		allDone := true
		for i := 0; i < nh; i++ {
			pend, done := state(i)
			allDone = allDone && done
			if i != cur && !done && lock.grantable(i, pend) {
				order = append(order, i)
			}
		}
		if len(order) == 0 {
			tr.stuck = !allDone
			break
		}
		c17sPeek = func(j int) string { p, _ := state(j); return p }
		i := choose(k, order)
		pend, _ := state(i)
		lock.apply(i, pend)
		tr.steps = append(tr.steps, c17Step{h: i, call: pend, order: order, curEnabled: curEnabled})
		if i < nw {
			tr.ws[i].turn = k + 1
			tr.ws[i].grant <- true
		} else {
			tr.rd.grant <- true
		}
		wait(i)
		cur = i
		observe(k + 1)
	}
	return tr
}

// c17Prefix: follow the given choices, then never preempt (go on with the handle that ran last
// while it can, else the lowest one that can step).
func c17Prefix(prefix []int) func(int, []int) int {
	return func(k int, order []int) int {
		if k < len(prefix) {
			for _, i := range order {
				if i == prefix[k] {
					return i
				}
			}
		}
		return order[0]
	}
}

// c17Wish: a requested sequence of handles; entries of handles that cannot step are skipped.
func c17Wish(wish []int) func(int, []int) int {
	pos := 0
	return func(k int, order []int) int {
		for pos < len(wish) {
			x := wish[pos]
			pos++
			for _, i := range order {
				if i == x {
					return i
				}
			}
		}
		return order[0]
	}
}

// c17Explore enumerates schedules depth first: at every step every handle that can step is an
// alternative. bound < 0: ALL schedules (at the granularity of back-end calls; steps of blocked
// handles do not exist). bound >= 0: all schedules with at most `bound` preemptions (a preemption =
// switching away from a handle that could go on). complete = the enumeration ended within budget.
func c17Explore(run func(prefix []int) *c17Trace, bound, budget int) (trs []*c17Trace, complete bool) {
	prefix := []int{}
	for {
		if len(trs) >= budget {
			return trs, false
		}
		tr := run(prefix)
		trs = append(trs, tr)
		pre := make([]int, len(tr.steps)+1) // preemptions before step k
		for k, s := range tr.steps {
			pre[k+1] = pre[k]
			if s.curEnabled && s.h != s.order[0] {
				pre[k+1]++
			}
		}
		found := false
		for k := len(tr.steps) - 1; k >= 0 && !found; k-- {
			s := tr.steps[k]
			idx := 0
			for j, x := range s.order {
				if x == s.h {
					idx = j
				}
			}
			for j := idx + 1; j < len(s.order); j++ {
				cost := 0
				if s.curEnabled {
					cost = 1
				}
				if bound >= 0 && pre[k]+cost > bound {
					continue
				}
				prefix = append(append([]int{}, tr.choices()[:k]...), s.order[j])
				found = true
				break
			}
		}
		if !found {
			return trs, true
		}
	}
}

func coqHop(o kop) string {
	switch o.kind {
	case opOpen:
		return fmt.Sprintf("HOpen %d", o.rid)
	case opGen:
		return fmt.Sprintf("HGen %d %d", o.rid, o.ord)
	case opDestroyCur:
		return fmt.Sprintf("HDestroyCur %d", o.rid)
	}
	s := o.Coq() // "KRing <slot> (<wop>)"
	return "HRing " + s[strings.Index(s, "("):]
}

func c17ProgString(progs [][]kop) string {
	var ps []string
	for _, p := range progs {
		var os []string
		for _, o := range p {
			os = append(os, coqHop(o))
		}
		ps = append(ps, "["+strings.Join(os, "; ")+"]")
	}
	return "[" + strings.Join(ps, "; ") + "]"
}

// ---------- generators ----------

// c17CreationPrograms: short programs of a handle that starts WITHOUT the ring: OpenKeyRingRW alone,
// followed by AddKey, by AddKey+SetCurrent, the generate-key entry point of the key store
// (open+AddKey+SetCurrent in one call), the destroy entry point (opens = creates, then fails).
func c17CreationPrograms(ord *int, thorough bool) [][]kop {
	next := func() int { *ord++; return *ord }
	ps := [][]kop{
		{{kind: opOpen, rid: 1}},
		{{kind: opOpen, rid: 1}, {kind: opAdd, ord: next()}},
		{{kind: opOpen, rid: 1}, {kind: opAdd, ord: next()}, {kind: opSetCur, seq: 1}},
		{{kind: opGen, rid: 1, ord: next()}},
		{{kind: opDestroyCur, rid: 1}},
	}
	if thorough {
		ps = append(ps,
			[]kop{{kind: opOpen, rid: 1}, {kind: opAdd, ord: next()}, {kind: opSetCur, seq: 2}, {kind: opAdd, ord: next()}},
			[]kop{{kind: opGen, rid: 1, ord: next()}, {kind: opGen, rid: 1, ord: next()}},
			[]kop{{kind: opOpen, rid: 1}, {kind: opAdd, ord: next()}, {kind: opDestroy, seq: 1}},
		)
	}
	return ps
}

// fresh copies of programs with new key ordinals (two handles never add the same key material)
func c17Fresh(p []kop, ord *int) []kop {
	out := append([]kop{}, p...)
	for i := range out {
		if out[i].kind == opAdd || out[i].kind == opGen {
			*ord++
			out[i].ord = *ord
		}
	}
	return out
}

// runC17: (A) creation races - two (thorough: also three) handles racing on a ring that does not
// exist yet, under EVERY schedule at the granularity of back-end calls (if the enumeration does not
// end within the budget: additionally every schedule with at most one preemption); (B) two or
// three writers on an existing ring with sampled schedules and a scheduled reader, plus every
// schedule (or every single-preemption schedule) of each scenario.
func runC17(rep *vh.Report, r *vh.Rng, n int, thorough bool) {
	c17Reported = map[string]int{}
	ord := 1000
	budget, budget1 := 40, 64
	if thorough {
		budget, budget1 = 1000, 400
	}
	explore := func(sc int, family string, hist []histStep, progs [][]kop) {
		budget, budget1 := budget, budget1
		if len(progs) > 2 { // three handles: far more schedules, smaller budgets
			budget, budget1 = 24, 40
			if thorough {
				budget, budget1 = 250, 400
			}
		}
		run := func(prefix []int) *c17Trace {
			inner, _ := replayHist(hist)
			return c17Exec(inner, 1, progs, 0, c17Prefix(prefix))
		}
		trs, complete := c17Explore(run, -1, budget)
		if complete {
			rep.Count(family + ":schedules-exhaustive")
		} else {
			rep.Count(family + ":schedules-exhaustive-capped")
			t1, c1 := c17Explore(run, 1, budget1)
			trs = append(trs[:8], t1...) // a few of the unfinished depth-first enumeration + the bounded one
			if c1 {
				rep.Count(family + ":schedules-all-single-preemption")
			} else {
				rep.Count(family + ":schedules-single-preemption-capped")
			}
		}
		for _, tr := range trs {
			c17Case(rep, sc, family, hist, progs, tr)
		}
	}

	// ---- (A) creation races ----
	base := c17CreationPrograms(&ord, thorough)
	hists := [][]histStep{nil, {{o: kop{kind: opGen, rid: 2, ord: 900}}}} // empty store / another ring exists
	sc := 0
	for i := range base {
		for j := i; j < len(base); j++ {
			progs := [][]kop{c17Fresh(base[i], &ord), c17Fresh(base[j], &ord)}
			explore(sc, "creation", hists[(i+j)%2], progs)
			sc++
		}
	}
	nthree := 2
	if thorough {
		nthree = 8
	}
	for k := 0; k < nthree; k++ { // three handles racing on the creation
		progs := [][]kop{c17Fresh(base[r.Intn(len(base))], &ord), c17Fresh(base[r.Intn(len(base))], &ord), c17Fresh(base[r.Intn(4)], &ord)}
		explore(sc, "creation3", hists[k%2], progs)
		sc++
	}
	// sampled schedules with a scheduled reader on a ring that does not exist yet
	for k := 0; k < n; k++ {
		progs := [][]kop{c17Fresh(base[1+r.Intn(3)], &ord), c17Fresh(base[r.Intn(len(base))], &ord)}
		var wish []int
		for j, sl := 0, 4+r.Intn(30); j < sl; j++ {
			wish = append(wish, r.Intn(3))
		}
		inner, _ := replayHist(hists[k%2])
		c17Case(rep, sc, "creation-reader", hists[k%2], progs, c17Exec(inner, 1, progs, 3, c17Wish(wish)))
		sc++
	}

	// ---- (B) existing ring ----
	for k := 0; k < n; k++ {
		hist := []histStep{{o: kop{kind: opGen, rid: 1, ord: ord + 1}}}
		nkeys := 1
		for i, hl := 0, r.Intn(3); i < hl; i++ {
			ord++
			hist = append(hist, histStep{o: kop{kind: opGen, rid: 1, ord: ord + 1}})
			nkeys++
		}
		ord += 2
		nwr := 2
		if r.Intn(4) == 0 {
			nwr = 3
		}
		progs := make([][]kop, nwr)
		var opens []int
		for w := range progs {
			progs[w] = []kop{{kind: opOpen, rid: 1}}
			opens = append(opens, w, w, w) // Lock, Get, Unlock: every writer opens the ring first
			for j, pl := 0, 1+r.Intn(2); j < pl; j++ {
				var o kop
				for {
					o = genKop(r, &ord, nkeys)
					if o.kind >= opAdd && o.kind <= opDestroy {
						break
					}
				}
				o.slot = 0
				progs[w] = append(progs[w], o)
			}
		}
		ns := 4
		if thorough {
			ns = 40
		}
		for q := 0; q < ns; q++ {
			wish := append([]int{}, opens...)
			if q%4 == 3 {
				wish = nil // the opens are interleaved with the operations as well
			}
			for j, sl := 0, 4+r.Intn(24); j < sl; j++ {
				wish = append(wish, r.Intn(nwr+1))
			}
			inner, _ := replayHist(hist)
			c17Case(rep, sc, "existing-sampled", hist, progs, c17Exec(inner, 1, progs, 3, c17Wish(wish)))
		}
		if nwr == 2 && len(progs[0])+len(progs[1]) <= 5 {
			explore(sc, "existing", hist, progs)
		}
		sc++
	}

	// ---- (C) writers AND readers as handles of the model (alphabet xop, c17ser.go) ----
	c17sFamilies(rep, r, n, thorough, &sc, &ord, explore)
}

// ---------- one executed schedule: record for the model replay + the property's oracle ----------

// at most c17MaxPerClass violations of one class are reported with their replay (one broken lock scope
// fails hundreds of schedules); the others are counted in the distribution
const c17MaxPerClass = 6

var c17Reported = map[string]int{}

func c17Case(rep *vh.Report, sc int, family string, hist []histStep, progs [][]kop, tr *c17Trace) {
	violate := func(class, what, replay string) {
		c17Reported[class]++
		if c17Reported[class] <= c17MaxPerClass {
			rep.Violate(class, what, replay)
		} else {
			rep.Count("violations-not-listed:" + class)
		}
	}
	// the storage before (replayed again: the run has consumed its own copy)
	inner0, _ := replayHist(hist)
	clean := vh.NewKswHandle(inner0)
	pre, _ := vh.KswAbstract(inner0, clean)
	inner := tr.ws[0].p.h.B.Inner
	post, err := vh.KswAbstract(inner, clean)

	var gs, sch []string
	for _, s := range tr.steps {
		sch = append(sch, fmt.Sprintf("%d:%s", s.h, s.call))
		if s.h < len(tr.ws) {
			gs = append(gs, fmt.Sprintf("(%d%%nat, %d)", s.h, c17Tag(s.call)))
		}
	}
	var opTerm string
	if c17sExtended(progs) { // readers among the handles: the generic machine over the alphabet xop
		opTerm = fmt.Sprintf("SchedX %s %s [%s]", coqHist(hist), c17sProgString(progs), strings.Join(gs, "; "))
	} else {
		opTerm = fmt.Sprintf("Sched %s %s [%s]", coqHist(hist), c17ProgString(progs), strings.Join(gs, "; "))
	}
	var outs []string
	for wi, w := range tr.ws {
		for _, op := range w.ops {
			res := "err"
			if op.res == 0 {
				res = fmt.Sprintf("ok(%d)", op.val)
			}
			if op.o.kind == c17sListKeys && op.res == 0 {
				res = fmt.Sprintf("ok%v", op.rids)
			}
			outs = append(outs, fmt.Sprintf("h%d %s -> %s", wi, c17sCoqXop(op.o), res))
		}
	}
	replay := fmt.Sprintf("%s\n  schedule (handle:back-end call, handle %d = reader): %s\n  results: %s", opTerm, len(tr.ws), strings.Join(sch, " "), strings.Join(outs, "; "))
	if err != nil {
		violate("c17-storage-unreadable", err.Error(), replay)
		return
	}
	vals := [][]byte{(&vh.KswEnc{}).N(0).Bytes(), vh.KswEncodeFiles(post)}
	for _, w := range tr.ws {
		e := &vh.KswEnc{}
		e.N(len(w.prog) - len(w.ops))
		for _, op := range w.ops {
			switch {
			case op.res != 0:
				e.N(1)
			case op.o.kind == c17sListKeys:
				e.N(0).N(len(op.rids))
				for _, x := range op.rids {
					e.N(x)
				}
			default:
				e.N(0).N(op.val)
			}
		}
		if obj := c17sObject(w); obj != nil {
			cur, keys := vh.KswView(obj)
			e.N(1).Ring(cur, keys)
		} else {
			e.N(0)
		}
		vals = append(vals, e.Bytes())
	}
	rep.Add(fmt.Sprintf("sc%d %s writers=%d steps=%d", sc, family, len(tr.ws), len(gs)), opTerm, vh.Ok(vals...))
	rep.Count(family + fmt.Sprintf(":writers-%d", len(tr.ws)))
	pauses := 0
	for k, s := range tr.steps {
		if k > 0 && s.curEnabled && s.h != s.order[0] {
			pauses++
			rep.Count("paused-after:" + tr.steps[k-1].call)
		}
	}
	rep.Count(fmt.Sprintf("preemptions:%d", min(pauses, 4)))

	// ---- oracle (on the implementation only) ----
	// serializability: the run equals the serial re-execution of its locked sections in commit order
	c17sSerialOracle(rep, violate, hist, progs, tr, post, replay)
	before, after := ringOf(pre, 0, 1), ringOf(post, 0, 1)
	var beforeKeys []vh.KswKey
	beforeCur := asn1.NoKey
	if before != nil {
		beforeKeys, beforeCur = before.Keys, before.Cur
	}
	// no writer is left behind
	rep.OracleChecks++
	if tr.stuck {
		violate("c17-writer-stuck", "the handles block each other for ever", replay)
	}
	anyOpen := false
	for wi, w := range tr.ws {
		rep.OracleChecks++
		if len(w.ops) != len(w.prog) {
			violate("c17-writer-stuck", fmt.Sprintf("handle %d finished %d of %d operations", wi, len(w.ops), len(w.prog)), replay)
		}
		for _, op := range w.ops {
			if op.res == 0 && (op.o.kind == opOpen || op.o.kind == opGen || op.o.kind == opDestroyCur) {
				anyOpen = true
			}
		}
	}
	rep.OracleChecks++
	if after == nil {
		if before != nil || anyOpen {
			violate("c17-ring-vanished", "the ring file does not exist after the run although it existed before or was opened successfully", replay)
		}
		return
	}
	if !after.Valid {
		violate("c17-ring-unverifiable", "the ring does not verify after the concurrent run", replay)
		return
	}
	// seqnums unique and increasing, earlier keys still there
	for i, k := range after.Keys {
		if i > 0 && after.Keys[i-1].Seq >= k.Seq {
			violate("c17-seqnums-not-increasing", fmt.Sprintf("seqnums %v", after.Keys), replay)
		}
		if i < len(beforeKeys) && beforeKeys[i].Seq != k.Seq {
			violate("c17-seqnum-changed", fmt.Sprintf("before %v after %v", beforeKeys, after.Keys), replay)
		}
	}
	// every successful operation is reflected exactly once, failed ring operations not at all
	type c17Set struct { // an operation that made a key current
		w, idx, start, end, seq int
		known             bool
	}
	var sets []c17Set
	known := map[int]bool{}
	for _, k := range beforeKeys {
		known[k.Ord] = true
	}
	okNew, failedGens, visibleFailedGens, missing := 0, 0, 0, 0
	issued := map[int]int{}
	destroyed := map[int]bool{}
	destroyedNew := 0
	for i, k := range after.Keys {
		if i >= len(beforeKeys) && k.State == int(api.KeyDestroyed) && k.Ord == 0 {
			destroyedNew++
		}
	}
	for wi, w := range tr.ws {
		for oi, op := range w.ops {
			o := op.o
			rep.OracleChecks++
			switch o.kind {
			case opAdd, opGen:
				known[o.ord] = true
				cnt, at := 0, 0
				for _, k := range after.Keys {
					if k.Ord == o.ord {
						cnt++
						at = k.Seq
					}
				}
				if cnt > 1 {
					violate("c17-update-duplicated", fmt.Sprintf("handle %d: key ordinal %d is %d times in the final ring %v", wi, o.ord, cnt, after.Keys), replay)
				}
				switch {
				case op.res == 0 && o.kind == opAdd:
					okNew++
					rep.Count("add:ok")
					if prev, dup := issued[op.val]; dup {
						violate("c17-seqnum-issued-twice", fmt.Sprintf("two successful AddKey calls (handles %d and %d) both returned seqnum %d", prev, wi, op.val), replay)
					}
					issued[op.val] = wi
					if cnt == 1 && at != op.val {
						violate("c17-update-misplaced", fmt.Sprintf("handle %d: AddKey returned seqnum %d but its key is at %d", wi, op.val, at), replay)
					}
					if cnt == 0 {
						gone := false // the only excuse: a later successful destroy of exactly this key
						for _, k := range after.Keys {
							if k.Seq == op.val && k.State == int(api.KeyDestroyed) && k.Ord == 0 {
								gone = true
							}
						}
						if !gone {
							violate("c17-update-lost", fmt.Sprintf("handle %d: successful AddKey -> seqnum %d (key ordinal %d) is not in the final ring %v", wi, op.val, o.ord, after.Keys), replay)
						} else {
							missing++
						}
					}
				case op.res == 0 && o.kind == opGen:
					okNew++
					rep.Count("gen:ok")
					if cnt == 0 {
						missing++
					}
					sets = append(sets, c17Set{wi, oi, op.start, op.end, at, cnt == 1})
				case o.kind == opAdd:
					rep.Count("add:err")
					if cnt != 0 {
						violate("c17-failed-update-visible", fmt.Sprintf("handle %d: failed AddKey(ordinal %d) is in the final ring", wi, o.ord), replay)
					}
				default: // failed generate: open+AddKey+SetCurrent is three updates, the key may have been added
					failedGens++
					rep.Count("gen:err")
					if cnt == 1 {
						visibleFailedGens++
						rep.Count("gen:err-key-added")
						// OBSERVATION, not a violation (Coq: C17_generate_atomic_refuted): generate = three locked
						// sections, a FAILED generate may leave its never-current key behind.  C17 speaks of
						// successful operations only, so this is counted in the evidence and nothing more.
					}
				}
			case opSetCur:
				if op.res == 0 {
					rep.Count("setcurrent:ok")
					sets = append(sets, c17Set{wi, oi, op.start, op.end, o.seq, true})
				} else {
					rep.Count("setcurrent:err")
				}
			case opDestroy:
				if op.res == 0 {
					destroyed[o.seq] = true
				}
			case opDestroyCur:
				if op.res == 0 {
					rep.Count("destroycur:ok")
				}
			}
		}
	}
	rep.OracleChecks++
	if missing > destroyedNew {
		violate("c17-update-lost", fmt.Sprintf("%d successful AddKey/generate calls have no key in the final ring %v (%d new keys are destroyed)", missing, after.Keys, destroyedNew), replay)
	}
	newKeys := len(after.Keys) - len(beforeKeys)
	rep.OracleChecks++
	if newKeys < okNew+visibleFailedGens || newKeys > okNew+failedGens {
		violate("c17-update-lost", fmt.Sprintf("%d keys before, %d successful AddKey/generate (+%d failed generate calls, %d of them left their key), %d keys after: %v", len(beforeKeys), okNew, failedGens, visibleFailedGens, len(after.Keys), after.Keys), replay)
	}
	for _, k := range after.Keys {
		rep.OracleChecks++
		if k.Ord != 0 && !known[k.Ord] {
			violate("c17-foreign-key", fmt.Sprintf("key %+v was added by nobody", k), replay)
		}
		if destroyed[k.Seq] && (k.State != int(api.KeyDestroyed) || k.Ord != 0) {
			violate("c17-update-lost", fmt.Sprintf("successful DestroyKey(%d) is not reflected: %+v", k.Seq, k), replay)
		}
	}
	// SetCurrent (explicit, or the last step of generate): the final current key is the one of a
	// successful SetCurrent that no other successful SetCurrent strictly follows in real time
	rep.OracleChecks++
	if len(sets) == 0 {
		if after.Cur != beforeCur {
			violate("c17-current-changed", fmt.Sprintf("nobody set the current key, it was %d and is %d", beforeCur, after.Cur), replay)
		}
	} else {
		var allowed []int
		okCur := false
		for _, x := range sets {
			last := true
			for _, y := range sets {
				if (y.w == x.w && y.idx > x.idx) || (y.w != x.w && x.end < y.start) {
					last = false
				}
			}
			if last {
				allowed = append(allowed, x.seq)
				if !x.known || x.seq == after.Cur {
					okCur = true
				}
			}
		}
		sort.Ints(allowed)
		if !okCur {
			violate("c17-setcurrent-lost", fmt.Sprintf("final current key %d; the successful SetCurrent calls that nothing follows set %v", after.Cur, allowed), replay)
		}
	}
	if after.Cur != asn1.NoKey {
		found := false
		for _, k := range after.Keys {
			found = found || k.Seq == after.Cur
		}
		if !found {
			violate("c17-current-dangling", fmt.Sprintf("current %d", after.Cur), replay)
		}
	}
	// what a reader would get whenever the exclusive lock is free: once there, the ring file stays,
	// always verifies, and what has been committed to it never disappears (in particular the file
	// is never replaced by an empty ring)
	rep.OracleChecks++
	if tr.obsErr != "" {
		violate("c17-storage-unreadable", tr.obsErr, replay)
	}
	var prev *vh.KswFile
	for _, ob := range tr.obs {
		rep.OracleChecks++
		f := ob.f
		if f == nil {
			if prev != nil {
				violate("c17-ring-vanished", fmt.Sprintf("after step %d the ring file is gone", ob.turn), replay)
			}
			continue
		}
		if !f.Valid {
			violate("c17-reader-saw-unverifiable-ring", fmt.Sprintf("after step %d the ring file does not verify", ob.turn), replay)
			continue
		}
		if prev != nil {
			bad := len(f.Keys) < len(prev.Keys)
			for j := 0; j < len(prev.Keys) && j < len(f.Keys); j++ {
				p, q := prev.Keys[j], f.Keys[j]
				if p.Seq != q.Seq || (p.Ord != q.Ord && !(q.Ord == 0 && q.State == int(api.KeyDestroyed))) {
					bad = true
				}
			}
			if bad {
				violate("c17-committed-update-vanished", fmt.Sprintf("step %d (%d:%s) replaced the stored ring %v current=%d by %v current=%d", ob.turn, tr.steps[ob.turn-1].h, tr.steps[ob.turn-1].call, prev.Keys, prev.Cur, f.Keys, f.Cur), replay)
			}
		}
		prev = f
	}
	// the scheduled reader: every OpenKeyRing returns a verified complete ring between the initial
	// and the final one (or "does not exist" as long as nobody has created it)
	if tr.rd != nil {
		last := len(beforeKeys)
		seen := before != nil
		for i, o := range tr.rd.obs {
			rep.OracleChecks++
			if o == nil {
				if tr.rd.miss[i] && !seen {
					rep.Count("reader:not-yet-created")
					continue
				}
				violate("c17-reader-saw-unverifiable-ring", fmt.Sprintf("read %d failed: %v", i, tr.rd.errs), replay)
				continue
			}
			seen = true
			rep.Count("reader:ok")
			if len(o.Keys) < last || len(o.Keys) > len(after.Keys) {
				violate("c17-reader-saw-partial-ring", fmt.Sprintf("read %d saw %d keys (previous %d, final %d)", i, len(o.Keys), last, len(after.Keys)), replay)
				last = len(o.Keys)
				continue
			}
			last = len(o.Keys)
			for j, k := range o.Keys {
				if k.Seq != after.Keys[j].Seq {
					violate("c17-reader-saw-partial-ring", fmt.Sprintf("read %d: seqnums differ from the final ring", i), replay)
					break
				}
			}
		}
		rep.OracleChecks++
		if len(tr.rd.obs) != tr.rd.reads {
			violate("c17-writer-stuck", "the reader did not finish", replay)
		}
	}
}
