package main

import (
	"fmt"
	"strings"

	"acra-vh/vh"

	"github.com/cossacklabs/acra/keystore/v2/keystore/api"
	"github.com/cossacklabs/acra/keystore/v2/keystore/asn1"
	"github.com/cossacklabs/acra/keystore/v2/keystore/filesystem/backend"
)

func init() { register("c17", "Model.RunKeystoreWrite", runC17) }

// ---------- cooperative scheduler over REAL keystore handles sharing one backend ----------

type c17Writer struct {
	p     *kproc
	prog  []kop
	req   chan string // the goroutine announces its next back-end call ("" = finished)
	grant chan bool
	outs  [][2]int
	pend  string
	done  bool
}

type c17Reader struct {
	h     *vh.KswHandle
	reads int
	req   chan string
	grant chan bool
	pend  string
	done  bool
	obs   []*vh.KswFile // what every OpenKeyRing saw (nil = failed)
	errs  []string
}

// lock bookkeeping of the scheduler = Model.KeystoreWrite.lock_step
type c17Lock struct {
	excl   int // -1 none
	shared map[int]bool
}

func (l *c17Lock) grantable(i int, call string) bool {
	switch call {
	case "Lock":
		return l.excl < 0 && len(l.shared) == 0
	case "RLock":
		return l.excl < 0
	}
	return true
}
func (l *c17Lock) apply(i int, call string) {
	switch call {
	case "Lock":
		l.excl = i
	case "Unlock":
		l.excl = -1
	case "RLock":
		l.shared[i] = true
	case "RUnlock":
		delete(l.shared, i)
	}
}

// c17Run runs the writers' programs (and one reader) under the requested schedule followed by a fair
// tail; returns the sequence of granted WRITER steps (what the model replays).
func c17Run(inner *backend.InMemory, rid int, progs [][]kop, reads int, sched []int) (ws []*c17Writer, rd *c17Reader, granted []int) {
	for _, prog := range progs {
		w := &c17Writer{p: newKproc(inner), prog: prog, req: make(chan string), grant: make(chan bool)}
		// every writer opens the ring first (serially, not scheduled)
		w.p.do(kop{kind: opOpen, slot: 0, rid: rid})
		ws = append(ws, w)
	}
	rd = &c17Reader{h: vh.NewKswHandle(inner), reads: reads, req: make(chan string), grant: make(chan bool)}
	for _, w := range ws {
		w := w
		w.p.h.B.Before = func(call string) { w.req <- strings.SplitN(call, " ", 2)[0]; <-w.grant }
		go func() {
			for _, o := range w.prog {
				res, val := w.p.do(o)
				w.outs = append(w.outs, [2]int{res, val})
			}
			w.req <- ""
		}()
	}
	rd.h.B.Before = func(call string) { rd.req <- strings.SplitN(call, " ", 2)[0]; <-rd.grant }
	clean := vh.NewKswHandle(inner)
	go func() {
		for i := 0; i < rd.reads; i++ {
			r, err := rd.h.FS.OpenKeyRing(vh.KswRingPath(rid))
			if err != nil {
				rd.obs = append(rd.obs, nil)
				rd.errs = append(rd.errs, err.Error())
				continue
			}
			cur, keys := vh.KswView(r)
			rd.obs = append(rd.obs, &vh.KswFile{Rid: rid, Valid: true, Cur: cur, Keys: keys})
		}
		rd.req <- ""
	}()
	_ = clean
	lock := &c17Lock{excl: -1, shared: map[int]bool{}}
	nw := len(ws)
	wait := func(i int) {
		if i < nw {
			ws[i].pend = <-ws[i].req
			ws[i].done = ws[i].pend == ""
		} else {
			rd.pend = <-rd.req
			rd.done = rd.pend == ""
		}
	}
	for i := 0; i <= nw; i++ {
		wait(i)
	}
	step := func(i int) {
		var pend string
		var done bool
		if i < nw {
			pend, done = ws[i].pend, ws[i].done
		} else {
			pend, done = rd.pend, rd.done
		}
		if done || !lock.grantable(i, pend) {
			return
		}
		lock.apply(i, pend)
		if i < nw {
			granted = append(granted, i)
			ws[i].grant <- true
		} else {
			rd.grant <- true
		}
		wait(i)
	}
	for _, i := range sched {
		step(i)
	}
	for round := 0; round < 64; round++ { // fair tail
		all := rd.done
		for _, w := range ws {
			all = all && w.done
		}
		if all {
			break
		}
		for i := 0; i <= nw; i++ {
			step(i)
		}
	}
	return
}

func coqWop(o kop) string {
	s := o.Coq() // "KRing <slot> (<wop>)"
	return s[strings.Index(s, "("):]
}

// all sequences with a zeros and b ones
func interleavings(a, b int) [][]int {
	if a == 0 && b == 0 {
		return [][]int{{}}
	}
	var out [][]int
	if a > 0 {
		for _, t := range interleavings(a-1, b) {
			out = append(out, append([]int{0}, t...))
		}
	}
	if b > 0 {
		for _, t := range interleavings(a, b-1) {
			out = append(out, append([]int{1}, t...))
		}
	}
	return out
}

// runC17: two (sometimes three) writers with their own handles and key ring objects on ONE ring of
// one shared backend, plus a reader, under schedules at the granularity of back-end calls.
func runC17(rep *vh.Report, r *vh.Rng, n int, thorough bool) {
	ord := 1000
	for sc := 0; sc < n; sc++ {
		// history: a ring with a few keys
		hist := []histStep{{o: kop{kind: opGen, rid: 1, ord: ord + 1}}}
		nkeys := 1
		for i, hl := 0, r.Intn(3); i < hl; i++ {
			ord++
			hist = append(hist, histStep{o: kop{kind: opGen, rid: 1, ord: ord + 1}})
			nkeys++
		}
		ord += 2
		nwr := 2
		if r.Intn(4) == 0 {
			nwr = 3
		}
		progs := make([][]kop, nwr)
		for w := range progs {
			for j, pl := 0, 1+r.Intn(2); j < pl; j++ {
				var o kop
				for {
					o = genKop(r, &ord, nkeys)
					if o.kind >= opAdd && o.kind <= opDestroy {
						break
					}
				}
				o.slot = 0
				progs[w] = append(progs[w], o)
			}
		}
		var scheds [][]int
		if thorough && nwr == 2 && len(progs[0]) == 1 && len(progs[1]) == 1 {
			scheds = interleavings(5, 5) // every interleaving of the two locked sections' calls
			rep.Count("schedules:exhaustive-2x1")
		} else {
			ns := 6
			if thorough {
				ns = 40
			}
			for k := 0; k < ns; k++ {
				var s []int
				for j, sl := 0, 4+r.Intn(24); j < sl; j++ {
					s = append(s, r.Intn(nwr+1))
				}
				scheds = append(scheds, s)
			}
			rep.Count("schedules:sampled")
		}
		for _, sched := range scheds {
			if thorough && len(scheds) > 100 { // sprinkle reader steps into the exhaustive schedules
				var s2 []int
				for _, i := range sched {
					s2 = append(s2, i)
					if r.Intn(3) == 0 {
						s2 = append(s2, nwr)
					}
				}
				sched = s2
			}
			c17Case(rep, sc, hist, progs, sched)
		}
	}
}

func c17Case(rep *vh.Report, sc int, hist []histStep, progs [][]kop, sched []int) {
	inner, _ := replayHist(hist)
	clean := vh.NewKswHandle(inner)
	pre, _ := vh.KswAbstract(inner, clean)
	ws, rd, granted := c17Run(inner, 1, progs, 3, sched)
	post, err := vh.KswAbstract(inner, clean)
	var ps, gs []string
	for _, p := range progs {
		var os []string
		for _, o := range p {
			os = append(os, coqWop(o))
		}
		ps = append(ps, "["+strings.Join(os, "; ")+"]")
	}
	for _, g := range granted {
		gs = append(gs, fmt.Sprintf("%d%%nat", g))
	}
	opTerm := fmt.Sprintf("Sched %s 1 [%s] [%s]", coqHist(hist), strings.Join(ps, "; "), strings.Join(gs, "; "))
	replay := fmt.Sprintf("%s requested schedule %v", opTerm, sched)
	if err != nil {
		rep.Violate("c17-storage-unreadable", err.Error(), replay)
		return
	}
	vals := [][]byte{vh.KswEncodeFiles(post)}
	for _, w := range ws {
		e := &vh.KswEnc{}
		e.N(len(w.prog) - len(w.outs))
		for _, o := range w.outs {
			if o[0] == 0 {
				e.N(0).N(o[1])
			} else {
				e.N(1)
			}
		}
		cur, keys := vh.KswView(w.p.slots[0])
		e.Ring(cur, keys)
		vals = append(vals, e.Bytes())
	}
	rep.Add(fmt.Sprintf("sc%d writers=%d steps=%d", sc, len(ws), len(granted)), opTerm, vh.Ok(vals...))
	rep.Count(fmt.Sprintf("writers:%d", len(ws)))

	// ---- oracle ----
	before, after := ringOf(pre, 0, 1), ringOf(post, 0, 1)
	rep.OracleChecks++
	if after == nil || !after.Valid || before == nil {
		rep.Violate("c17-ring-unverifiable", "the ring does not verify after the concurrent run", replay)
		return
	}
	// seqnums unique and increasing, earlier keys still there
	for i, k := range after.Keys {
		if i > 0 && after.Keys[i-1].Seq >= k.Seq {
			rep.Violate("c17-seqnums-not-increasing", fmt.Sprintf("seqnums %v", after.Keys), replay)
		}
		if i < len(before.Keys) && before.Keys[i].Seq != k.Seq {
			rep.Violate("c17-seqnum-changed", fmt.Sprintf("before %v after %v", before.Keys, after.Keys), replay)
		}
	}
	// every successful operation is reflected exactly once, failed ones not at all
	okAdds, destroyed := 0, map[int]bool{}
	for wi, w := range ws {
		for oi, out := range w.outs {
			o := w.prog[oi]
			rep.OracleChecks++
			switch o.kind {
			case opAdd:
				cnt := 0
				for _, k := range after.Keys {
					if k.Ord == o.ord {
						cnt++
						if out[0] == 0 && k.Seq != out[1] {
							rep.Violate("c17-update-misplaced", fmt.Sprintf("writer %d: AddKey returned seqnum %d but its key is at %d", wi, out[1], k.Seq), replay)
						}
					}
				}
				if out[0] == 0 {
					okAdds++
					rep.Count("add:ok")
					if cnt == 0 { // the new key may have been destroyed by a later successful DestroyKey of another writer
						for _, w2 := range ws {
							for oi2, out2 := range w2.outs {
								if w2.prog[oi2].kind == opDestroy && out2[0] == 0 && w2.prog[oi2].seq == out[1] {
									for _, k := range after.Keys {
										if k.Seq == out[1] && k.State == int(api.KeyDestroyed) {
											cnt = 1
										}
									}
								}
							}
						}
					}
					if cnt != 1 {
						rep.Violate("c17-update-lost", fmt.Sprintf("writer %d: successful AddKey(ordinal %d) is reflected %d times in the final ring %v", wi, o.ord, cnt, after.Keys), replay)
					}
				} else {
					rep.Count("add:err")
					if cnt != 0 {
						rep.Violate("c17-failed-update-visible", fmt.Sprintf("writer %d: failed AddKey(ordinal %d) is in the final ring", wi, o.ord), replay)
					}
				}
			case opDestroy:
				if out[0] == 0 {
					destroyed[o.seq] = true
				}
			}
		}
	}
	rep.OracleChecks++
	if len(after.Keys) != len(before.Keys)+okAdds {
		rep.Violate("c17-update-lost", fmt.Sprintf("%d keys before, %d successful AddKey, %d keys after", len(before.Keys), okAdds, len(after.Keys)), replay)
	}
	for _, k := range after.Keys {
		if destroyed[k.Seq] && (k.State != int(api.KeyDestroyed) || k.Ord != 0) {
			rep.Violate("c17-update-lost", fmt.Sprintf("successful DestroyKey(%d) is not reflected: %+v", k.Seq, k), replay)
		}
	}
	if after.Cur != asn1.NoKey {
		found := false
		for _, k := range after.Keys {
			found = found || k.Seq == after.Cur
		}
		if !found {
			rep.Violate("c17-current-dangling", fmt.Sprintf("current %d", after.Cur), replay)
		}
	}
	// readers: every observation verified and is a complete ring between the initial and the final one
	last := len(before.Keys)
	for i, o := range rd.obs {
		rep.OracleChecks++
		if o == nil {
			rep.Violate("c17-reader-saw-unverifiable-ring", fmt.Sprintf("read %d failed: %v", i, rd.errs), replay)
			continue
		}
		if len(o.Keys) < last || len(o.Keys) > len(after.Keys) {
			rep.Violate("c17-reader-saw-partial-ring", fmt.Sprintf("read %d saw %d keys (previous %d, final %d)", i, len(o.Keys), last, len(after.Keys)), replay)
			last = len(o.Keys)
			continue
		}
		last = len(o.Keys)
		for j, k := range o.Keys {
			if k.Seq != after.Keys[j].Seq {
				rep.Violate("c17-reader-saw-partial-ring", fmt.Sprintf("read %d: seqnums differ from the final ring", i), replay)
				break
			}
		}
	}
	// no writer is left with pending transactions
	for wi, w := range ws {
		rep.OracleChecks++
		if len(w.outs) != len(w.prog) {
			rep.Violate("c17-writer-stuck", fmt.Sprintf("writer %d finished %d of %d operations", wi, len(w.outs), len(w.prog)), replay)
		}
	}
}
