package main

// Domain c12: wire codecs (MySQL length-encoded values, PostgreSQL framing / DataRow / Query / Bind,
// bytea text codecs).  Valid stream: relayed messages must come out byte-identical, rewritten ones must
// re-parse (independent codec: pgx's pgproto3, and the MySQL spec written out below) to exactly the
// intended fields.  Malformed stream (also used by C14): no decoder may panic – class panic:<decoder>.

import (
	"bytes"
	"encoding/binary"
	"encoding/hex"
	"fmt"
	"os"

	"acra-vh/vh"

	"github.com/jackc/pgx/v5/pgproto3"
)

func init() { register("c12", "Model.RunWire", runC12) }

var lenBoundaries = []int{0, 1, 2, 3, 249, 250, 251, 252, 253, 254, 255, 256, 257}
var bigBoundaries = []int{65534, 65535, 65536, 65537}
var intBoundaries = []uint64{0, 1, 249, 250, 251, 252, 253, 254, 255, 256, 65534, 65535, 65536, 65537,
	1<<24 - 2, 1<<24 - 1, 1 << 24, 1<<24 + 1, 1<<32 - 1, 1 << 32, 1<<63 - 1, 1 << 63, 1<<63 + 1, 1<<64 - 2, 1<<64 - 1}

func genLen(r *vh.Rng, allowBig bool) int {
	switch r.Intn(10) {
	case 0, 1, 2:
		return lenBoundaries[r.Intn(len(lenBoundaries))]
	case 3:
		if allowBig {
			return bigBoundaries[r.Intn(len(bigBoundaries))]
		}
		return 300 + r.Intn(300)
	case 4:
		return 0
	}
	return 1 + r.Intn(40)
}

func genValue(r *vh.Rng, n int) []byte {
	switch r.Intn(5) {
	case 0:
		return bytes.Repeat([]byte{0xff}, n) // looks like NULL markers / length bytes
	case 1:
		return bytes.Repeat([]byte{0xfb}, n)
	case 2:
		return make([]byte, n)
	}
	b := r.Bytes(n)
	if b == nil {
		b = []byte{}
	}
	return b
}

// reference encoders written from the protocol documents (independent of acra)
func refLenencInt(n uint64) []byte {
	switch {
	case n < 251:
		return []byte{byte(n)}
	case n < 1<<16:
		return []byte{0xfc, byte(n), byte(n >> 8)}
	case n < 1<<24:
		return []byte{0xfd, byte(n), byte(n >> 8), byte(n >> 16)}
	}
	b := make([]byte, 9)
	b[0] = 0xfe
	binary.LittleEndian.PutUint64(b[1:], n)
	return b
}
func refLenencStr(v []byte) []byte {
	if v == nil {
		return []byte{0xfb}
	}
	return append(refLenencInt(uint64(len(v))), v...)
}
func refDataRow(cols [][]byte) []byte {
	body := be2(uint16(len(cols)))
	for _, c := range cols {
		if c == nil {
			body = append(body, 0xff, 0xff, 0xff, 0xff)
			continue
		}
		body = append(body, be4(uint32(len(c)))...)
		body = append(body, c...)
	}
	return cat([]byte{'D'}, be4(uint32(len(body)+4)), body)
}
func frame(tag byte, payload []byte) []byte {
	return cat([]byte{tag}, be4(uint32(len(payload)+4)), payload)
}

func short(b []byte) string {
	if len(b) > 96 {
		return hex.EncodeToString(b[:96]) + fmt.Sprintf("...(%d bytes)", len(b))
	}
	return hex.EncodeToString(b)
}

func eqVals(a, b [][]byte) bool {
	if len(a) != len(b) {
		return false
	}
	for i := range a {
		if (a[i] == nil) != (b[i] == nil) || !bytes.Equal(a[i], b[i]) {
			return false
		}
	}
	return true
}

func runC12(rep *vh.Report, r *vh.Rng, n int, thorough bool) {
	w := &WireOps{rep}
	for sc := 0; sc < n; sc++ {
		kind := r.Intn(12)
		lab := fmt.Sprintf("sc%d", sc)
		switch {
		case kind == 0:
			c12MysqlInt(w, r, lab)
		case kind == 1:
			c12MysqlStr(w, r, lab, thorough)
		case kind == 2:
			c12MysqlRow(w, r, lab, thorough)
		case kind == 3:
			c12PgRelay(w, r, lab)
		case kind == 4 || kind == 5:
			c12PgDataRow(w, r, lab, thorough)
		case kind == 6:
			c12PgQuery(w, r, lab)
		case kind == 7:
			c12PgBind(w, r, lab)
		case kind == 8:
			c12Bytea(w, r, lab, thorough)
		default:
			c12Malformed(w, r, lab)
		}
	}
	// boundary tables, every run
	for _, v := range intBoundaries {
		c12MysqlIntOne(w, r, fmt.Sprintf("table int=%d", v), v)
	}
	// structured malformed extended-query messages (Bind / Parse / Execute / descriptions), every run
	c12ExtendedTables(w, thorough)
	// valid stream, family "message rewritten in place": deterministic tables on every run + seeded random sessions
	// (C14 runs this domain for its malformed stream only: the valid-stream family belongs to C12's verdict and budget)
	if os.Getenv("VERIF_PROP") != "C14" {
		c12InPlaceTables(w, thorough)
		for i := 0; i < 6+n/10; i++ {
			c12InPlaceRandom(w, r, fmt.Sprintf("ip%d", i))
		}
	}
	if thorough {
		c12Huge(w, r)
	}
}

func c12MysqlIntOne(w *WireOps, r *vh.Rng, lab string, v uint64) {
	rep := w.rep
	enc := w.MyPutInt(lab+" PutLengthEncodedInt", v)
	rep.OracleChecks++
	if enc.Kind != "ok" || !bytes.Equal(enc.Vals[0], refLenencInt(v)) {
		rep.Violate("mysql-lenenc-int-encoding", "PutLengthEncodedInt differs from the protocol encoding: "+enc.String(), fmt.Sprintf("%s n=%d", lab, v))
		return
	}
	rest := r.Bytes(r.Intn(4))
	dec := w.MyInt(lab+" LengthEncodedInt", cat(enc.Vals[0], rest))
	rep.OracleChecks++
	if dec.Kind != "ok" || binary.LittleEndian.Uint64(dec.Vals[0]) != v || dec.Vals[1][0] != 0 || int(binary.LittleEndian.Uint64(dec.Vals[2])) != len(enc.Vals[0]) {
		rep.Violate("mysql-lenenc-int-roundtrip", "LengthEncodedInt(PutLengthEncodedInt(n)) is not (n, not NULL, len): "+dec.String(), fmt.Sprintf("%s n=%d rest=%x", lab, v, rest))
	}
}

func c12MysqlInt(w *WireOps, r *vh.Rng, lab string) {
	var v uint64
	switch r.Intn(3) {
	case 0:
		v = intBoundaries[r.Intn(len(intBoundaries))]
		w.rep.Count("myint:boundary")
	case 1:
		v = r.U64() >> uint(r.Intn(64))
		w.rep.Count("myint:random-width")
	default:
		v = uint64(r.Intn(70000))
		w.rep.Count("myint:small")
	}
	c12MysqlIntOne(w, r, lab+" mysql-int", v)
}

func c12MysqlStr(w *WireOps, r *vh.Rng, lab string, thorough bool) {
	rep := w.rep
	var v []byte
	if r.Intn(6) == 0 {
		v = nil
		rep.Count("mystr:null")
	} else {
		n := genLen(r, r.Intn(4) == 0)
		v = genValue(r, n)
		rep.Count(fmt.Sprintf("mystr:len%d", bucket(n)))
	}
	lab += fmt.Sprintf(" mysql-str len=%d null=%v", len(v), v == nil)
	enc := w.MyPutStr(lab+" PutLengthEncodedString", v)
	rep.OracleChecks++
	if enc.Kind != "ok" || !bytes.Equal(enc.Vals[0], refLenencStr(v)) {
		rep.Violate("mysql-lenenc-str-encoding", "PutLengthEncodedString differs from the protocol encoding", lab+" v="+short(v))
		return
	}
	rest := r.Bytes(r.Intn(4))
	dec := w.MyStr(lab+" LengthEncodedString", cat(enc.Vals[0], rest))
	rep.OracleChecks++
	if dec.Kind != "ok" || (dec.Vals[0][0] == 1) != (v == nil) || !bytes.Equal(dec.Vals[1], v) || int(binary.LittleEndian.Uint64(dec.Vals[2])) != len(enc.Vals[0]) {
		rep.Violate("mysql-lenenc-str-roundtrip", "LengthEncodedString(PutLengthEncodedString(v)) != v: "+dec.String()[:min(200, len(dec.String()))], lab+" v="+short(v))
	}
	sk := w.MySkip(lab+" SkipLengthEncodedString", cat(enc.Vals[0], rest))
	rep.OracleChecks++
	if sk.Kind != "ok" || int(binary.LittleEndian.Uint64(sk.Vals[0])) != len(enc.Vals[0]) {
		rep.Violate("mysql-lenenc-skip", "SkipLengthEncodedString does not skip exactly the encoded string: "+sk.String(), lab+" v="+short(v))
	}
}

// a text row: decode, rewrite a subset of the non-NULL fields (shrink/grow/keep), re-encode, decode again
func c12MysqlRow(w *WireOps, r *vh.Rng, lab string, thorough bool) {
	rep := w.rep
	k := 1 + r.Intn(6)
	var vals [][]byte
	var row []byte
	for i := 0; i < k; i++ {
		var v []byte
		if r.Intn(4) == 0 {
			v = nil
		} else {
			v = genValue(r, genLen(r, r.Intn(12) == 0))
		}
		vals = append(vals, v)
		row = append(row, refLenencStr(v)...)
	}
	rep.Count(fmt.Sprintf("myrow:fields%d", k))
	lab += fmt.Sprintf(" mysql-row fields=%d", k)
	rest := r.Bytes(r.Intn(3))
	dec, got := w.MyTextRow(lab+" split", k, cat(row, rest))
	rep.OracleChecks++
	if dec.Kind != "ok" || !eqVals(got, vals) {
		rep.Violate("mysql-row-split", "text row fields differ from what was encoded: "+dec.String()[:min(200, len(dec.String()))], lab+" row="+short(row))
		return
	}
	// rewrite
	var newVals [][]byte
	var newRow []byte
	for i, v := range got {
		nv := v
		if v != nil {
			switch r.Intn(4) {
			case 0:
				nv = genValue(r, genLen(r, false)) // any length
				rep.Count("myrow:replace")
			case 1:
				nv = v[:len(v)/2]
				rep.Count("myrow:shrink")
			case 2:
				nv = append(append([]byte{}, v...), genValue(r, 1+r.Intn(300))...)
				rep.Count("myrow:grow")
			default:
				rep.Count("myrow:keep")
			}
			enc := w.MyPutStr(fmt.Sprintf("%s field%d re-encode", lab, i), nv)
			if enc.Kind != "ok" {
				rep.Violate("mysql-row-rewrite", "PutLengthEncodedString failed", lab)
				return
			}
			newRow = append(newRow, enc.Vals[0]...)
		} else {
			newRow = append(newRow, 0xfb) // processTextDataRow copies the NULL marker
		}
		newVals = append(newVals, nv)
	}
	dec2, got2 := w.MyTextRow(lab+" re-split", k, newRow)
	rep.OracleChecks++
	var want []byte
	for _, v := range newVals {
		want = append(want, refLenencStr(v)...)
	}
	if dec2.Kind != "ok" || !eqVals(got2, newVals) || !bytes.Equal(newRow, want) || len(dec2.Vals[len(dec2.Vals)-1]) != 0 {
		rep.Violate("mysql-row-rewrite", "rewritten text row is not the protocol encoding of the new fields", lab+" row="+short(row)+" new="+short(newRow))
	}
}

var pgTags = []byte{'B', 'C', 'd', 'c', 'f', 'D', 'E', 'H', 'F', 'p', 'P', 'Q', 'S', 'X', '1', '2', 'Z', 'T', 't', 'I', 'n', 's', 'K', 'N', 'A', 'G', 'W', 'R', 'V', 'v', 0x7f, 0xff}

func c12PgRelay(w *WireOps, r *vh.Rng, lab string) {
	rep := w.rep
	client := r.Bool()
	k := 1 + r.Intn(6)
	var stream []byte
	for i := 0; i < k; i++ {
		tag := pgTags[r.Intn(len(pgTags))]
		var payload []byte
		switch r.Intn(4) {
		case 0:
			payload = nil
		case 1:
			payload = refDataRow([][]byte{genValue(r, r.Intn(20)), nil})[5:]
		default:
			payload = r.Bytes(r.Intn(60))
		}
		if tag == 'X' && r.Bool() {
			payload = nil // the real Terminate
		}
		stream = append(stream, frame(tag, payload)...)
	}
	trailing := []byte{}
	if r.Intn(3) == 0 {
		trailing = r.Bytes(r.Intn(5)) // an incomplete next message stays unread
	}
	side := map[bool]string{true: "client", false: "db"}[client]
	rep.Count("pgrelay:" + side)
	lab += fmt.Sprintf(" pg-relay side=%s msgs=%d", side, k)
	out := w.PgRelay(lab, client, cat(stream, trailing))
	rep.OracleChecks++
	if out.Kind != "ok" || !bytes.HasPrefix(out.Vals[0], stream) {
		rep.Violate("pg-relay-identity", "relayed messages are not byte-identical / in order", lab+" stream="+short(stream)+" out="+short(firstVal(out)))
	}
	one := w.PgRead(lab+" first message", client, cat(stream, trailing))
	rep.OracleChecks++
	if one.Kind != "ok" || !bytes.Equal(cat(one.Vals[0], one.Vals[1]), cat(stream, trailing)) {
		rep.Violate("pg-relay-identity", "Marshal(ReadPacket(m)) != m", lab+" stream="+short(stream))
	}
	if r.Intn(3) == 0 {
		// start-up messages
		var m []byte
		switch r.Intn(4) {
		case 0:
			params := cat([]byte("user\x00u\x00database\x00d\x00\x00"), r.Bytes(r.Intn(3)))
			m = cat(be4(uint32(8+len(params))), []byte{0, 3, 0, 0}, params)
		case 1:
			m = []byte{0, 0, 0, 8, 4, 210, 22, 47}
		case 2:
			m = cat([]byte{0, 0, 0, 16, 4, 210, 22, 46}, r.Bytes(8))
		default:
			m = []byte{0, 0, 0, 8, 4, 210, 22, 48}
		}
		rep.Count("pgstartup")
		st := w.PgStartup(lab+" startup", cat(m, trailing))
		rep.OracleChecks++
		if st.Kind != "ok" || !bytes.Equal(st.Vals[0], m) {
			rep.Violate("pg-relay-identity", "start-up message not relayed byte-identically", lab+" m="+short(m))
		}
	}
}

func firstVal(o vh.Outcome) []byte {
	if len(o.Vals) > 0 {
		return o.Vals[0]
	}
	return nil
}

func genFormats(r *vh.Rng, k int) []uint16 {
	switch r.Intn(4) {
	case 0:
		return nil
	case 1:
		return []uint16{uint16(r.Intn(2))}
	}
	f := make([]uint16, k)
	for i := range f {
		f[i] = uint16(r.Intn(2))
	}
	return f
}

func c12PgDataRow(w *WireOps, r *vh.Rng, lab string, thorough bool) {
	rep := w.rep
	k := r.Intn(7)
	if r.Intn(10) == 0 {
		k = 0
	}
	cols := make([][]byte, k)
	tr := make([][]byte, k)
	want := make([][]byte, k)
	anyNonNull := false
	for i := range cols {
		if r.Intn(4) == 0 {
			cols[i] = nil
			rep.Count("pgrow:null")
			if r.Intn(3) == 0 {
				tr[i] = genValue(r, 3) // a replacement offered for a NULL column must be ignored
			}
			continue
		}
		anyNonNull = true
		cols[i] = genValue(r, genLen(r, r.Intn(10) == 0))
		want[i] = cols[i]
		switch r.Intn(5) {
		case 0:
			tr[i] = genValue(r, genLen(r, r.Intn(10) == 0))
			rep.Count("pgrow:replace")
		case 1:
			tr[i] = append([]byte{}, cols[i][:len(cols[i])/2]...)
			rep.Count("pgrow:shrink")
		case 2:
			tr[i] = append(append([]byte{}, cols[i]...), genValue(r, 1+r.Intn(300))...)
			rep.Count("pgrow:grow")
		case 3:
			tr[i] = []byte{}
			rep.Count("pgrow:to-empty")
		default:
			rep.Count("pgrow:keep")
		}
		if tr[i] != nil {
			want[i] = tr[i]
		}
	}
	_ = anyNonNull
	fmts := genFormats(r, k)
	stream := refDataRow(cols)
	rep.Count(fmt.Sprintf("pgrow:cols%d", k))
	lab += fmt.Sprintf(" pg-datarow cols=%d fmts=%v", k, fmts)
	pc := w.PgParseCols(lab+" parseColumns", fmts, stream[5:])
	rep.OracleChecks++
	if pc.Kind != "ok" || len(pc.Vals) != 1+3*k {
		rep.Violate("pg-datarow-parse", "parseColumns failed on a well-formed row: "+pc.String()[:min(200, len(pc.String()))], lab+" row="+short(stream))
		return
	}
	for i := range cols {
		if (pc.Vals[3+3*i][0] == 1) != (cols[i] == nil) || !bytes.Equal(pc.Vals[2+3*i], cols[i]) {
			rep.Violate("pg-datarow-parse", fmt.Sprintf("column %d split wrongly", i), lab+" row="+short(stream))
			return
		}
	}
	out := w.PgRow(lab+" rewrite", fmts, tr, stream)
	rep.OracleChecks++
	if out.Kind != "ok" {
		rep.Violate("pg-datarow-rewrite", "data row path failed: "+out.String(), lab+" row="+short(stream))
		return
	}
	o := out.Vals[0]
	// independent re-parse
	var dr pgproto3.DataRow
	bad := ""
	switch {
	case len(o) < 5 || o[0] != 'D':
		bad = "not a DataRow frame"
	case int(binary.BigEndian.Uint32(o[1:5])) != len(o)-1:
		bad = fmt.Sprintf("declared message length %d != actual %d", binary.BigEndian.Uint32(o[1:5]), len(o)-1)
	default:
		if err := dr.Decode(o[5:]); err != nil {
			bad = "pgproto3 cannot decode: " + err.Error()
		} else if len(dr.Values) != k {
			bad = fmt.Sprintf("column count %d != %d", len(dr.Values), k)
		} else if !eqVals(dr.Values, want) {
			bad = "column values / NULL markers differ from the intended ones"
		} else if !bytes.Equal(o, refDataRow(want)) {
			bad = "bytes differ from the protocol encoding of the intended row"
		}
	}
	if bad != "" {
		rep.Violate("pg-datarow-rewrite", "rewritten DataRow malformed: "+bad, lab+" row="+short(stream)+" out="+short(o))
	}
}

func c12PgQuery(w *WireOps, r *vh.Rng, lab string) {
	rep := w.rep
	q0 := bytes.ReplaceAll(r.Bytes(r.Intn(40)), []byte{0}, []byte{'a'})
	q := bytes.ReplaceAll(genValue(r, genLen(r, false)), []byte{0}, []byte{'b'})
	tag := byte('Q')
	if r.Intn(5) == 0 {
		tag = pgTags[r.Intn(len(pgTags))] // other messages must stay untouched (Parse is not generated here)
		for tag == 'P' {
			tag = pgTags[r.Intn(len(pgTags))]
		}
	}
	stream := frame(tag, cat(q0, []byte{0}))
	rep.Count(fmt.Sprintf("pgquery:tag%c", tag))
	lab += fmt.Sprintf(" pg-query tag=%02x", tag)
	out := w.PgQuery(lab, stream, q)
	rep.OracleChecks++
	want := stream
	if tag == 'Q' {
		want = frame('Q', cat(q, []byte{0}))
	}
	if out.Kind != "ok" || !bytes.Equal(out.Vals[0], want) {
		rep.Violate("pg-query-rewrite", "ReplaceQuery output is not the protocol encoding of the new query", lab+" q="+short(q)+" out="+short(firstVal(out)))
		return
	}
	if tag == 'Q' {
		var qm pgproto3.Query
		rep.OracleChecks++
		if err := qm.Decode(out.Vals[0][5:]); err != nil || qm.String != string(q) {
			rep.Violate("pg-query-rewrite", "pgproto3 does not read the new query back", lab+" q="+short(q))
		}
	}
}

func c12PgBind(w *WireOps, r *vh.Rng, lab string) {
	rep := w.rep
	k := r.Intn(6)
	b := pgproto3.Bind{DestinationPortal: string(bytes.ReplaceAll(r.Bytes(r.Intn(6)), []byte{0}, []byte{'p'})),
		PreparedStatement: string(bytes.ReplaceAll(r.Bytes(r.Intn(6)), []byte{0}, []byte{'s'}))}
	for _, f := range genFormats(r, k) {
		b.ParameterFormatCodes = append(b.ParameterFormatCodes, int16(f))
	}
	tr := make([][]byte, k)
	want := make([][]byte, k)
	for i := 0; i < k; i++ {
		var v []byte
		if r.Intn(4) != 0 {
			v = genValue(r, genLen(r, r.Intn(12) == 0))
			switch r.Intn(4) {
			case 0:
				tr[i] = genValue(r, genLen(r, false))
			case 1:
				tr[i] = append(append([]byte{}, v...), genValue(r, 1+r.Intn(300))...)
			case 2:
				tr[i] = append([]byte{}, v[:len(v)/2]...)
			}
		}
		b.Parameters = append(b.Parameters, v)
		want[i] = v
		if tr[i] != nil {
			want[i] = tr[i]
		}
	}
	for i := r.Intn(4); i > 0; i-- {
		b.ResultFormatCodes = append(b.ResultFormatCodes, int16(r.Intn(2)))
	}
	stream, err := b.Encode(nil)
	if err != nil {
		return
	}
	rep.Count(fmt.Sprintf("pgbind:params%d", k))
	lab += fmt.Sprintf(" pg-bind params=%d", k)
	p := w.PgBind(lab+" NewBindPacket", stream[5:])
	rep.OracleChecks++
	if p.Kind != "ok" || string(p.Vals[0]) != b.DestinationPortal || string(p.Vals[1]) != b.PreparedStatement || len(p.Vals) != 4+2*k {
		rep.Violate("pg-bind-parse", "NewBindPacket misreads a well-formed Bind: "+p.String()[:min(200, len(p.String()))], lab+" bind="+short(stream))
		return
	}
	for i := 0; i < k; i++ {
		if (p.Vals[4+2*i][0] == 1) != (b.Parameters[i] == nil) || !bytes.Equal(p.Vals[5+2*i], b.Parameters[i]) {
			rep.Violate("pg-bind-parse", fmt.Sprintf("parameter %d misread", i), lab+" bind="+short(stream))
			return
		}
	}
	out := w.PgBindRewrite(lab+" ReplaceBind", stream, tr)
	rep.OracleChecks++
	nb := b
	nb.Parameters = want
	wantBytes, _ := nb.Encode(nil)
	var back pgproto3.Bind
	if out.Kind != "ok" || !bytes.Equal(out.Vals[0], wantBytes) || back.Decode(out.Vals[0][5:]) != nil || !eqVals(back.Parameters, want) {
		rep.Violate("pg-bind-rewrite", "rewritten Bind is not the protocol encoding of the intended parameters", lab+" bind="+short(stream)+" out="+short(firstVal(out)))
	}
}

func c12Bytea(w *WireOps, r *vh.Rng, lab string, thorough bool) {
	rep := w.rep
	var d []byte
	switch r.Intn(5) {
	case 0:
		d = make([]byte, 256)
		for i := range d {
			d[i] = byte(i)
		}
		rep.Count("bytea:all-bytes")
	case 1:
		d = bytes.Repeat([]byte{'\\'}, r.Intn(9))
		rep.Count("bytea:backslashes")
	case 2:
		d = []byte(`\x` + hex.EncodeToString(r.Bytes(r.Intn(6)))) // data that itself looks like a hex literal
		rep.Count("bytea:looks-like-hex")
	case 3:
		d = []byte(string([]rune{rune(r.Intn(0x800)), rune(0x800 + r.Intn(0xF000)), rune(0x10000 + r.Intn(0xFFFFF))}))
		rep.Count("bytea:utf8")
	default:
		d = genValue(r, genLen(r, false))
		rep.Count("bytea:random")
	}
	lab += fmt.Sprintf(" bytea len=%d", len(d))
	oct := w.BaEncOct(lab+" EncodeToOctal", d)
	hx := w.BaEncHex(lab+" PgEncodeToHex", d)
	if oct.Kind != "ok" || hx.Kind != "ok" {
		rep.Violate("bytea-encode", "encoder failed", lab+" d="+short(d))
		return
	}
	for _, c := range []struct {
		what string
		o    vh.Outcome
	}{
		{"DecodeOctal(EncodeToOctal)", w.BaDecOct(lab+" DecodeOctal", oct.Vals[0])},
		{"DecodeEscaped(EncodeToOctal)", w.BaDecEsc(lab+" DecodeEscaped(octal)", oct.Vals[0])},
		{"DecodeEscaped(PgEncodeToHex)", w.BaDecEsc(lab+" DecodeEscaped(hex)", hx.Vals[0])},
	} {
		rep.OracleChecks++
		if c.o.Kind != "ok" || !bytes.Equal(c.o.Vals[0], d) {
			rep.Violate("bytea-roundtrip", c.what+" != identity: "+c.o.String()[:min(200, len(c.o.String()))], lab+" d="+short(d))
		}
	}
	rep.OracleChecks++
	for _, ch := range oct.Vals[0] {
		if ch < 32 || ch > 126 {
			rep.Violate("bytea-encode", "EncodeToOctal emitted a non-printable byte", lab+" d="+short(d))
			break
		}
	}
}

// ---------- malformed stream (reused by C14): no decoder may panic ----------

func mutateLengths(r *vh.Rng, b []byte) []byte {
	b = append([]byte{}, b...)
	if len(b) == 0 {
		return b
	}
	special := [][]byte{{0, 0, 0, 0}, {0xff, 0xff, 0xff, 0xff}, {0x7f, 0xff, 0xff, 0xff}, {0x80, 0, 0, 0}, {0xff, 0xff, 0xff, 0xfe}, {0, 0, 0, 3}, {0, 0, 0, 4}, {0, 0, 0, 5}, {0, 1, 0, 0}}
	for k := 1 + r.Intn(2); k > 0; k-- {
		pos := r.Intn(len(b))
		s := special[r.Intn(len(special))]
		copy(b[pos:], s[r.Intn(3):])
	}
	return b
}

func malform(r *vh.Rng, valid []byte) ([]byte, string) {
	switch r.Intn(5) {
	case 0:
		return r.Bytes(r.Intn(24)), "random"
	case 1:
		if len(valid) > 0 {
			return append([]byte{}, valid[:r.Intn(len(valid))]...), "truncated"
		}
		return []byte{}, "empty"
	case 2:
		return mutateLengths(r, valid), "length-fields"
	case 3:
		b := append([]byte{}, valid...)
		if len(b) > 0 {
			b[r.Intn(len(b))] ^= byte(1 << uint(r.Intn(8)))
		}
		return b, "bitflip"
	}
	return append(append([]byte{}, valid...), r.Bytes(1+r.Intn(6))...), "trailing"
}

func noPanic(rep *vh.Report, decoder string, o vh.Outcome, lab string, input []byte) {
	rep.OracleChecks++
	if o.Kind == "panic" {
		rep.Violate("panic:"+decoder, decoder+" panicked on malformed input: "+o.Msg, lab+" input="+hex.EncodeToString(input))
	}
}

var lenencEdges = [][]byte{
	{}, {0xfb}, {0xfc}, {0xfc, 1}, {0xfd, 1, 2}, {0xfe, 1, 2, 3, 4, 5, 6, 7},
	{0xfe, 0xff, 0xff, 0xff, 0xff, 0xff, 0xff, 0xff, 0xff},
	{0xfe, 0, 0, 0, 0, 0, 0, 0, 0x80},
	{0xfe, 0xff, 0xff, 0xff, 0xff, 0xff, 0xff, 0xff, 0x7f},
	{0xfe, 1, 0, 0, 0, 0, 0, 0, 0x80, 'a'},
	{0xfe, 2, 0, 0, 0, 0, 0, 0, 0, 'a'},
	{0xfd, 0xff, 0xff, 0xff}, {0xfc, 0xff, 0xff, 1, 2, 3}, {5, 1, 2, 3, 4}, {5, 1, 2, 3, 4, 5}, {250}, {0xff}, {0xff, 1, 2, 3, 4, 5, 6, 7, 8, 9},
}

func c12Malformed(w *WireOps, r *vh.Rng, lab string) {
	rep := w.rep
	which := r.Intn(11)
	switch which {
	case 9, 10: // Bind / Parse / Execute: one field at an edge value, a missing terminator or a cut
		c12RandomExtended(w, r, lab)
	case 0, 1: // MySQL length-encoded values
		var in []byte
		class := "edge-table"
		if r.Bool() {
			in = append([]byte{}, lenencEdges[r.Intn(len(lenencEdges))]...)
			in = append(in, r.Bytes(r.Intn(3))...)
		} else {
			in, class = malform(r, refLenencStr(genValue(r, genLen(r, false))))
		}
		rep.Count("malformed:mysql-lenenc:" + class)
		lab += " malformed mysql-lenenc " + class
		noPanic(rep, "LengthEncodedInt", w.MyInt(lab+" LengthEncodedInt", in), lab, in)
		noPanic(rep, "LengthEncodedString", w.MyStr(lab+" LengthEncodedString", in), lab, in)
		noPanic(rep, "SkipLengthEncodedString", w.MySkip(lab+" SkipLengthEncodedString", in), lab, in)
		o, _ := w.MyTextRow(lab+" text row", 1+r.Intn(4), in)
		noPanic(rep, "processTextDataRow-split", o, lab, in)
	case 2, 3: // PostgreSQL framing
		valid := frame(pgTags[r.Intn(len(pgTags))], r.Bytes(r.Intn(20)))
		in, class := malform(r, valid)
		if r.Intn(3) == 0 && len(in) >= 5 {
			copy(in[1:5], [][]byte{{0, 0, 0, 0}, {0, 0, 0, 3}, {0xff, 0xff, 0xff, 0xff}, {0x7f, 0xff, 0xff, 0xff}, {0x80, 0, 0, 0}, {0, 0, 0, 4}}[r.Intn(6)])
			class = "frame-length"
		}
		rep.Count("malformed:pg-frame:" + class)
		lab += " malformed pg-frame " + class
		client := r.Bool()
		noPanic(rep, "PacketHandler.ReadPacket", w.PgRead(lab+" ReadPacket", client, in), lab, in)
		noPanic(rep, "PacketHandler.relay-loop", w.PgRelay(lab+" relay", client, in), lab, in)
		st := cat(be4(uint32(r.Pick(0, 3, 4, 7, 8, 9, 16, 1<<31, 1<<32-1))), [][]byte{{0, 3, 0, 0}, {4, 210, 22, 47}, {4, 210, 22, 46}, {4, 210, 22, 48}, {1, 2, 3, 4}}[r.Intn(5)], r.Bytes(r.Intn(10)))
		noPanic(rep, "PacketHandler.readStartupPacket", w.PgStartup(lab+" startup", st), lab, st)
	case 4, 5, 6: // DataRow
		k := r.Intn(4)
		cols := make([][]byte, k)
		for i := range cols {
			if r.Intn(3) != 0 {
				cols[i] = genValue(r, r.Intn(12))
			}
		}
		valid := refDataRow(cols)
		in, class := malform(r, valid[5:])
		rep.Count("malformed:pg-datarow:" + class)
		lab += " malformed pg-datarow " + class
		fm := genFormats(r, k)
		if r.Intn(4) == 0 {
			fm = []uint16{uint16(r.Intn(4)), uint16(r.Intn(70000))}
		}
		noPanic(rep, "PacketHandler.parseColumns", w.PgParseCols(lab+" parseColumns", fm, in), lab, in)
		tr := make([][]byte, k)
		for i := range tr {
			if r.Bool() {
				tr[i] = genValue(r, r.Intn(9))
			}
		}
		full := frame('D', in)
		noPanic(rep, "PacketHandler.datarow-path", w.PgRow(lab+" data row path", fm, tr, full), lab, full)
	case 7: // Bind
		b := pgproto3.Bind{DestinationPortal: "p", PreparedStatement: "s", ParameterFormatCodes: []int16{0, 1}, Parameters: [][]byte{genValue(r, r.Intn(9)), nil}, ResultFormatCodes: []int16{1}}
		valid, _ := b.Encode(nil)
		in, class := malform(r, valid[5:])
		rep.Count("malformed:pg-bind:" + class)
		lab += " malformed pg-bind " + class
		noPanic(rep, "NewBindPacket", w.PgBind(lab+" NewBindPacket", in), lab, in)
		full := frame('B', in)
		noPanic(rep, "PacketHandler.bind-path", w.PgBindRewrite(lab+" bind path", full, [][]byte{{1, 2, 3}}), lab, full)
	default: // bytea text (8)
		var in []byte
		class := ""
		switch r.Intn(4) {
		case 0:
			in, class = r.Bytes(r.Intn(16)), "random"
		case 1:
			in, class = []byte(`\x`+hex.EncodeToString(r.Bytes(r.Intn(5)))+string(rune('f'+r.Intn(3)))), "bad-hex"
		case 2:
			in, class = malform(r, []byte(`ab\\\001\377\400x`))
		default:
			in, class = append([]byte(`a\`), r.Bytes(r.Intn(4))...), "dangling-escape"
		}
		rep.Count("malformed:bytea:" + class)
		lab += " malformed bytea " + class
		noPanic(rep, "DecodeOctal", w.BaDecOct(lab+" DecodeOctal", in), lab, in)
		noPanic(rep, "DecodeEscaped", w.BaDecEsc(lab+" DecodeEscaped", in), lab, in)
	}
}

// c12Huge (thorough only): 16 MiB boundary values, oracle on the implementation only
// (a Coq literal of that size is not replayable in reasonable time).
func c12Huge(w *WireOps, r *vh.Rng) {
	rep := w.rep
	for _, n := range []int{1<<24 - 1, 1 << 24, 1<<24 + 1} {
		v := r.Bytes(n)
		rep.Count("huge:16MiB")
		o := vh.Guard(func() vh.Outcome {
			enc := refLenencStr(v)
			vals, rest, err := realTextRow(1, enc)
			if err != nil || len(rest) != 0 || !bytes.Equal(vals[0], v) {
				return vh.Outcome{Kind: "err", Msg: "round trip failed"}
			}
			return vh.Ok()
		})
		rep.OracleChecks++
		if o.Kind != "ok" {
			rep.Violate("mysql-lenenc-str-roundtrip", fmt.Sprintf("16 MiB boundary value (len %d): %s", n, o.String()), fmt.Sprintf("huge len=%d seed-derived", n))
		}
	}
}
