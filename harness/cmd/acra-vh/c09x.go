package main

// Extension of domain c09 (same domain, same replay module Model.RunSearch):
//
//   - condition TREES: AND / OR / NOT / parentheses over comparisons with either operand order and casts around
//     either operand, through the REAL PostgreSQL and MySQL HashQuery.OnQuery + OnBind (op QueryX);
//   - the REAL hmac.NewHMACProcessor subscribed around the real container detector exactly as
//     decryptor/postgresql/proxy.go and decryptor/mysql/proxy.go do, fed with histories of columns (op HmacCols).
//
// Oracles (independent of the Coq model): rows selected by the rewritten condition on the stored values = rows
// whose plaintext satisfies the condition as written; a column's delivery does not depend on the columns before
// it, an honest searchable value is delivered as its plaintext, a value whose index does not match its content is
// delivered as stored and not marked decrypted, nothing panics.

import (
	"bytes"
	"encoding/hex"
	"fmt"
	"strings"

	"acra-vh/vh"
	"acra-vh/x09sql"

	pg_query "github.com/cossacklabs/pg_query_go/v5"

	"github.com/cossacklabs/acra/crypto"
	"github.com/cossacklabs/acra/decryptor/base"
	mysqlproxy "github.com/cossacklabs/acra/decryptor/mysql"
	mysqlbase "github.com/cossacklabs/acra/decryptor/mysql/base"
	pgproxy "github.com/cossacklabs/acra/decryptor/postgresql"
	"github.com/cossacklabs/acra/encryptor/base/config"
	myenc "github.com/cossacklabs/acra/encryptor/mysql"
	"github.com/cossacklabs/acra/encryptor/postgresql"
	"github.com/cossacklabs/acra/hmac"
	myhash "github.com/cossacklabs/acra/hmac/decryptor/mysql"
	pghash "github.com/cossacklabs/acra/hmac/decryptor/postgresql"
	"github.com/cossacklabs/acra/sqlparser"
)

// ---------- condition trees ----------

type c09xCond struct {
	kind    string // cmp | and | or | not | paren
	neg     bool
	rev     bool // value on the left
	lcast   bool // cast around the column
	rcast   bool // cast around the value
	col     int  // 0 = data1 (searchable), 1 = plain, 2 = data2 (encrypted, not searchable; PostgreSQL table only)
	isParam bool
	param   int
	lit     []byte
	a, b    *c09xCond
}

func (c *c09xCond) walk(f func(*c09xCond)) {
	switch c.kind {
	case "and", "or":
		c.a.walk(f)
		c.b.walk(f)
	case "not", "paren":
		c.a.walk(f)
	default:
		f(c)
	}
}

func c09xOp(neg bool, my bool) string {
	if !neg {
		return "="
	}
	if my {
		return "!="
	}
	return "<>"
}

func (c *c09xCond) sqlPG(r *vh.Rng, strTyped bool) string {
	switch c.kind {
	case "and":
		return c.a.sqlPG(r, strTyped) + " AND " + c.b.sqlPG(r, strTyped)
	case "or":
		return c.a.sqlPG(r, strTyped) + " OR " + c.b.sqlPG(r, strTyped)
	case "not":
		return "NOT (" + c.a.sqlPG(r, strTyped) + ")"
	case "paren":
		return "(" + c.a.sqlPG(r, strTyped) + ")"
	}
	typ := "::bytea"
	if strTyped || c.col == 1 {
		typ = "::text"
	}
	var operand string
	if c.isParam {
		operand = fmt.Sprintf("$%d", c.param+1)
	} else {
		operand = sqlLiteral(r, c.lit, strTyped || c.col == 1)
	}
	if c.rcast {
		operand += typ
	}
	col := c09Cols[c.col]
	if c.lcast {
		col += typ
	}
	if c.rev {
		return operand + " " + c09xOp(c.neg, false) + " " + col
	}
	return col + " " + c09xOp(c.neg, false) + " " + operand
}

func (c *c09xCond) sqlMY(r *vh.Rng) string {
	switch c.kind {
	case "and":
		return c.a.sqlMY(r) + " AND " + c.b.sqlMY(r)
	case "or":
		return c.a.sqlMY(r) + " OR " + c.b.sqlMY(r)
	case "not":
		return "NOT (" + c.a.sqlMY(r) + ")"
	case "paren":
		return "(" + c.a.sqlMY(r) + ")"
	}
	var operand string
	switch {
	case c.isParam:
		operand = "?"
	case printable(c.lit) && (len(c.lit) == 0 || r.Intn(3) != 0):
		operand = "'" + string(c.lit) + "'"
	default:
		operand = "X'" + hex.EncodeToString(c.lit) + "'"
	}
	if c.rcast {
		operand = "CAST(" + operand + " AS BINARY)"
	}
	col := c09Cols[c.col]
	if c.lcast {
		col = "CAST(" + col + " AS BINARY)"
	}
	if c.rev {
		return operand + " " + c09xOp(c.neg, true) + " " + col
	}
	return col + " " + c09xOp(c.neg, true) + " " + operand
}

func (c *c09xCond) coq() string {
	switch c.kind {
	case "and":
		return "(WAnd " + c.a.coq() + " " + c.b.coq() + ")"
	case "or":
		return "(WOr " + c.a.coq() + " " + c.b.coq() + ")"
	case "not":
		return "(WNot " + c.a.coq() + ")"
	case "paren":
		return "(WParen " + c.a.coq() + ")"
	}
	o := "(OLit " + vh.H(c.lit) + ")"
	if c.isParam {
		o = fmt.Sprintf("(OParam %d)", c.param)
	}
	return fmt.Sprintf("(WCmp (mk_cmp %v %v %v %d %v %s))", c.neg, c.rev, c.lcast, c.col, c.rcast, o)
}

// class of the comparison shapes on the searchable column that the filters do not select / the rewrite does not
// complete (known findings); "" when every searchable comparison has the supported shape
func (c *c09xCond) unsupported(my bool) string {
	class := ""
	c.walk(func(l *c09xCond) {
		if l.col != 0 || class != "" {
			return
		}
		switch {
		case l.rev:
			class = "literal-on-left"
		case l.lcast:
			class = "cast-on-column"
		case !my && l.rcast && l.isParam:
			class = "cast-around-placeholder"
		case my && l.rcast:
			class = "cast-around-value-mysql"
		}
	})
	return class
}

func (c *c09xCond) ref(rw c09Row, binds [][]byte, rh crypto.RegistryHandler, store *vh.MemKeystore) bool {
	switch c.kind {
	case "and":
		return c.a.ref(rw, binds, rh, store) && c.b.ref(rw, binds, rh, store)
	case "or":
		return c.a.ref(rw, binds, rh, store) || c.b.ref(rw, binds, rh, store)
	case "not":
		return !c.a.ref(rw, binds, rh, store)
	case "paren":
		return c.a.ref(rw, binds, rh, store)
	}
	v := c.lit
	if c.isParam {
		v = binds[c.param]
	}
	var eq bool
	switch c.col {
	case 0:
		eq = bytes.Equal(rw.plain, c09Meaning(v, rh, store))
	case 1:
		eq = bytes.Equal(rw.tag, v)
	case 2:
		eq = bytes.Equal(rw.d2, v)
	}
	return eq != c.neg
}

// c09xGen builds a tree; at most one comparison of an unsupported shape per tree (odd = true asks for one).
type c09xGen struct {
	rep      *vh.Report
	r        *vh.Rng
	rows     []c09Row
	pool     [][]byte
	strTyped bool
	my       bool
	ncols    int
	odd      bool
	binds    [][]byte
	bindCol  []int
	envelope func([]byte) ([]byte, bool)
}

func (g *c09xGen) cmp(col int) *c09xCond {
	r := g.r
	c := &c09xCond{kind: "cmp", col: col, neg: r.Intn(3) == 0}
	var v []byte
	var class string
	switch col {
	case 0:
		v, class = c09Searched(r, g.rows, g.pool, g.strTyped)
		if class != "empty" && r.Intn(8) == 0 && g.envelope != nil {
			if e, ok := g.envelope(v); ok {
				v, class = e, class+"-as-envelope"
			}
		}
	case 1:
		v, class = []byte([]string{"x", "y", "q"}[r.Intn(3)]), "tag"
	default:
		v, class = g.rows[r.Intn(len(g.rows))].d2p, "nonsearchable"
		if g.strTyped && !printable(v) {
			v = []byte("k")
		}
	}
	if col == 0 && g.odd && r.Bool() { // aim the unsupported shape at a value that is there
		v, class, c.neg = g.rows[r.Intn(len(g.rows))].plain, "present-aimed", false
	}
	g.rep.Count("x-searched:" + class)
	param := r.Intn(3) == 0
	if !g.my && (g.strTyped || col == 1) && !printable(v) {
		param = true
	}
	if param {
		c.isParam = true
		reuse := -1
		if !g.my && col == 0 {
			for i := range g.binds {
				if g.bindCol[i] == 0 && r.Intn(4) == 0 {
					reuse = i
				}
			}
		}
		if reuse >= 0 {
			c.param = reuse
			g.rep.Count("x-form:placeholder-reused")
		} else {
			c.param = len(g.binds)
			g.binds = append(g.binds, v)
			g.bindCol = append(g.bindCol, col)
			g.rep.Count("x-form:placeholder")
		}
	} else {
		c.lit = v
		g.rep.Count("x-form:literal")
	}
	// casts the filters accept: PostgreSQL a cast around a literal; MySQL none
	if !g.my && !c.isParam && r.Intn(3) == 0 {
		c.rcast = true
		g.rep.Count("x-form:cast-literal")
	}
	if col != 0 && r.Intn(4) == 0 { // any shape is fine on columns that are not searchable
		switch r.Intn(3) {
		case 0:
			c.rev = true
		case 1:
			c.lcast = true
		default:
			c.rcast = true
		}
		g.rep.Count("x-form:free-shape-on-plain-column")
	}
	if col == 0 && g.odd {
		g.odd = false
		switch r.Intn(3) {
		case 0:
			c.rev = true
		case 1:
			c.lcast = true
		default:
			c.rcast = true // PostgreSQL: only unsupported around a placeholder; MySQL: always
			if !g.my && !c.isParam {
				c.isParam, c.param, c.lit = true, len(g.binds), nil
				g.binds = append(g.binds, v)
				g.bindCol = append(g.bindCol, col)
			}
		}
		g.rep.Count("x-form:unsupported:" + (&c09xCond{kind: "paren", a: c}).unsupported(g.my))
	}
	return c
}

func (g *c09xGen) tree(depth int) *c09xCond {
	r := g.r
	if depth == 0 || r.Intn(4) == 0 {
		col := 0
		if r.Intn(3) == 0 {
			col = 1 + r.Intn(g.ncols-1)
		}
		return g.cmp(col)
	}
	switch r.Intn(6) {
	case 0, 1:
		a := g.tree(depth - 1) // generated left to right: MySQL numbers '?' in order of appearance
		return &c09xCond{kind: "and", a: a, b: g.tree(depth - 1)}
	case 2, 3:
		a := g.tree(depth - 1)
		return &c09xCond{kind: "or", a: a, b: g.tree(depth - 1)}
	case 4:
		return &c09xCond{kind: "not", a: g.tree(depth - 1)}
	}
	return &c09xCond{kind: "paren", a: g.tree(depth - 1)}
}

// half of the trees that carry an unsupported shape are that single comparison (so the shape decides the result)
func c09xDepth(g *c09xGen) int {
	if g.odd && g.r.Bool() {
		return 0
	}
	return 3
}

// AND binds tighter than OR in SQL text: wrap OR children of AND (and everything below NOT is already wrapped)
func c09xFix(c *c09xCond) *c09xCond {
	switch c.kind {
	case "and":
		c.a, c.b = c09xFix(c.a), c09xFix(c.b)
		if c.a.kind == "or" {
			c.a = &c09xCond{kind: "paren", a: c.a}
		}
		if c.b.kind == "or" || c.b.kind == "and" {
			c.b = &c09xCond{kind: "paren", a: c.b}
		}
	case "or":
		c.a, c.b = c09xFix(c.a), c09xFix(c.b)
		if c.b.kind == "or" {
			c.b = &c09xCond{kind: "paren", a: c.b}
		}
	case "not", "paren":
		c.a = c09xFix(c.a)
	}
	return c
}

func c09xShape(c *c09xCond) string {
	n := map[string]int{}
	var f func(*c09xCond)
	f = func(x *c09xCond) {
		n[x.kind]++
		switch x.kind {
		case "and", "or":
			f(x.a)
			f(x.b)
		case "not", "paren":
			f(x.a)
		}
	}
	f(c)
	return fmt.Sprintf("cmp%d", n["cmp"])
}

func c09xCoqRows(rows []c09Row) string { return coqRows(rows) }

// ---------- PostgreSQL: trees through the real OnQuery + OnBind ----------

func c09xQueryPG(rep *vh.Report, r *vh.Rng, sc, q int, schema config.TableSchemaStore, yml string, ks *vh.KeySet,
	store *vh.MemKeystore, rh crypto.RegistryHandler, setting config.ColumnEncryptionSetting, rows []c09Row,
	pool [][]byte, strTyped bool) {
	g := &c09xGen{rep: rep, r: r, rows: rows, pool: pool, strTyped: strTyped, ncols: 3, odd: r.Intn(6) == 0}
	g.envelope = func(v []byte) ([]byte, bool) {
		vh.StartTape(r)
		e, err := rh.EncryptWithClientID([]byte(clientID), append([]byte{}, v...), setting)
		vh.StopTape()
		return e, err == nil
	}
	cond := c09xFix(g.tree(c09xDepth(g)))
	binds := g.binds
	rep.Count("x-pg-shape:" + c09xShape(cond))
	sql := "SELECT id FROM t WHERE " + cond.sqlPG(r, strTyped)
	binFormat := r.Bool()
	lab := fmt.Sprintf("sc%d xq%d pg %s binds=%d", sc, q, sql, len(binds))
	if len(lab) > 400 {
		lab = lab[:400] + "…"
	}
	hq := pghash.NewHashQuery(store, schema, rh)
	ctx := sessionCtx(clientID)
	var newBinds [][]byte
	var rewritten string
	o := vh.Guard(func() vh.Outcome {
		obj, _, err := hq.OnQuery(ctx, postgresql.NewOnQueryObjectFromQuery(sql))
		if err != nil {
			return vh.ErrO(err)
		}
		stmt, err := obj.Statement()
		if err != nil {
			return vh.ErrO(err)
		}
		rewritten, err = pg_query.Deparse(stmt)
		if err != nil {
			return vh.ErrO(err)
		}
		if len(binds) > 0 {
			vals := make([]base.BoundValue, len(binds))
			for i, b := range binds {
				if binFormat {
					vals[i] = pgproxy.NewPgBoundValue(append([]byte{}, b...), base.BinaryFormat)
				} else {
					vals[i] = pgproxy.NewPgBoundValue(c09TextParam(r, b), base.TextFormat)
				}
			}
			nv, _, err := hq.OnBind(ctx, stmt, vals)
			if err != nil {
				return vh.ErrO(err)
			}
			for _, v := range nv {
				d, err := v.GetData(nil)
				if err != nil {
					return vh.ErrO(err)
				}
				if !binFormat {
					dd, err := vh.PgDecodeLiteral(d)
					if err != nil {
						return vh.ErrO(err)
					}
					d = dd
				}
				newBinds = append(newBinds, d)
			}
		}
		return vh.Ok()
	})
	opTerm := fmt.Sprintf("QueryX PG %s %s %s %s", ks.Coq(), c09xCoqRows(rows), cond.coq(), vh.HL(binds))
	rep.OracleChecks++
	if o.Kind != "ok" {
		rep.Add(lab, opTerm, o)
		rep.Violate("rewrite-failed-tree", "query rewrite failed: "+o.String(), lab+"\n"+yml)
		return
	}
	res, err := pg_query.Parse(rewritten)
	if err != nil {
		rep.Violate("rewritten-unparsable", err.Error(), lab+"\nrewritten: "+rewritten)
		return
	}
	where, _, err := vh.PgWhere(res)
	got := make([]bool, len(rows))
	for i, rw := range rows {
		if err == nil {
			got[i], err = vh.PgEvalCond(where, vh.PgRow{"data1": rw.stored, "plain": rw.tag, "data2": rw.d2}, newBinds)
		}
	}
	if err != nil {
		rep.Violate("outside-evaluator", "rewritten condition has a shape the evaluator does not know: "+err.Error(), lab+"\nrewritten: "+rewritten)
		return
	}
	rep.Add(lab, opTerm, vh.Ok(flags(got)))
	want := make([]bool, len(rows))
	for i, rw := range rows {
		want[i] = cond.ref(rw, binds, rh, store)
	}
	rep.OracleChecks++
	if !bytes.Equal(flags(got), flags(want)) {
		class := cond.unsupported(false)
		if class == "" {
			class = "result-set-tree"
		}
		rep.Violate(class, fmt.Sprintf("rows selected through acra %v, rows whose plaintext satisfies the condition %v", flags(got), flags(want)),
			lab+"\nrewritten: "+rewritten+"\nbinds: "+c09xHexList(binds)+"\nplaintexts: "+c09Plains(rows)+"\n"+yml)
	}
}

func c09xHexList(l [][]byte) string {
	var s []string
	for _, b := range l {
		s = append(s, hx(b))
	}
	return "[" + strings.Join(s, ",") + "]"
}

// ---------- MySQL: trees through the real OnQuery + OnBind ----------

const c09xMyYml = "schemas:\n  - table: t\n    columns:\n      - id\n      - data1\n      - plain\n    encrypted:\n      - column: data1\n        searchable: true\n        crypto_envelope: acrablock\n"

func c09xMySQL(rep *vh.Report, r *vh.Rng, n int, thorough bool) {
	e := &EnvOps{rep, r}
	nq := 3
	if thorough {
		nq = 6
	}
	for sc := 0; sc < (n+1)/2; sc++ {
		ks := vh.NewKeySet(r, 1, 1, true)
		store := storeFor(ks)
		rh := crypto.NewRegistryHandler(store)
		schema, err := config.MapTableSchemaStoreFromConfig([]byte(c09xMyYml), config.UseMySQL)
		if err != nil {
			panic(err)
		}
		setting := schema.GetTableSchema("t").GetColumnEncryptionSettings("data1")
		senc, _ := hmac.NewSearchableEncryptor(store, rh, rh)
		base1 := c09Value(r, true)
		pool := [][]byte{base1, c09Value(r, false), append(append([]byte{}, base1...), 'z')}
		if len(base1) > 1 {
			pool = append(pool, base1[:len(base1)-1])
		}
		var rows []c09Row
		for i := 0; i < 1+r.Intn(5); i++ {
			p := pool[r.Intn(len(pool))]
			o, tape := e.withTape(func() vh.Outcome {
				return one(senc.EncryptWithClientID([]byte(clientID), append([]byte{}, p...), setting))
			})
			rep.Add(fmt.Sprintf("xmy%d insert row%d", sc, i), fmt.Sprintf("SearchEnc %s %s %s %s", vh.H([]byte{crypto.AcraBlockEnvelopeID}), ks.Coq(), vh.HL(tape), vh.H(p)), o)
			if o.Kind == "ok" {
				tag := []byte("x")
				if r.Bool() {
					tag = []byte("y")
				}
				rows = append(rows, c09Row{plain: p, stored: o.Vals[0], tag: tag})
			}
		}
		if len(rows) == 0 {
			continue
		}
		for q := 0; q < nq; q++ {
			c09xQueryMY(rep, r, sc, q, schema, ks, store, rh, setting, rows, pool)
		}
	}
}

func c09xQueryMY(rep *vh.Report, r *vh.Rng, sc, q int, schema config.TableSchemaStore, ks *vh.KeySet,
	store *vh.MemKeystore, rh crypto.RegistryHandler, setting config.ColumnEncryptionSetting, rows []c09Row, pool [][]byte) {
	g := &c09xGen{rep: rep, r: r, rows: rows, pool: pool, my: true, ncols: 2, odd: r.Intn(6) == 0}
	g.envelope = func(v []byte) ([]byte, bool) {
		vh.StartTape(r)
		e, err := rh.EncryptWithClientID([]byte(clientID), append([]byte{}, v...), setting)
		vh.StopTape()
		return e, err == nil
	}
	cond := c09xFix(g.tree(c09xDepth(g)))
	binds := g.binds
	// a literal must be expressible: 'text' or X'hex' always is; nothing to adjust
	rep.Count("x-my-shape:" + c09xShape(cond))
	sql := "SELECT id FROM t WHERE " + cond.sqlMY(r)
	lab := fmt.Sprintf("xmy%d q%d mysql %s binds=%d", sc, q, sql, len(binds))
	if len(lab) > 400 {
		lab = lab[:400] + "…"
	}
	var newBinds [][]byte
	var rewritten string
	var where sqlparser.Expr
	o := vh.Guard(func() vh.Outcome {
		hq := myhash.NewHashQuery(store, schema, rh)
		ctx := sessionCtx(clientID)
		parser := sqlparser.New(sqlparser.ModeDefault)
		obj, _, err := hq.OnQuery(ctx, myenc.NewOnQueryObjectFromQuery(sql, parser))
		if err != nil {
			return vh.ErrO(err)
		}
		rewritten = obj.Query()
		stmt, err := obj.Statement()
		if err != nil {
			return vh.ErrO(err)
		}
		if len(binds) > 0 {
			vals := make([]base.BoundValue, len(binds))
			for i, b := range binds {
				vals[i] = mysqlproxy.NewMysqlCopyTextBoundValue(b, base.BinaryFormat, mysqlbase.TypeVarString)
			}
			nv, _, err := hq.OnBind(ctx, stmt, vals)
			if err != nil {
				return vh.ErrO(err)
			}
			for _, v := range nv {
				d, err := v.GetData(nil)
				if err != nil {
					return vh.ErrO(err)
				}
				newBinds = append(newBinds, append([]byte{}, d...))
			}
		}
		// the database sees the printed statement: parse it again
		st2, err := parser.Parse(rewritten)
		if err != nil {
			return vh.ErrO(fmt.Errorf("rewritten statement does not parse: %v", err))
		}
		where, err = x09sql.X09Where(st2)
		if err != nil {
			return vh.ErrO(err)
		}
		return vh.Ok()
	})
	opTerm := fmt.Sprintf("QueryX MY %s %s %s %s", ks.Coq(), c09xCoqRows(rows), cond.coq(), vh.HL(binds))
	rep.OracleChecks++
	if o.Kind != "ok" {
		rep.Add(lab, opTerm, o)
		rep.Violate("mysql-rewrite-failed-tree", "MySQL query rewrite / bind failed: "+o.String(), lab)
		return
	}
	got := make([]bool, len(rows))
	var err error
	for i, rw := range rows {
		if err == nil {
			got[i], err = x09sql.X09Eval(where, x09sql.X09Row{"data1": rw.stored, "plain": rw.tag}, newBinds)
		}
	}
	if err != nil {
		rep.Violate("outside-evaluator-mysql", "rewritten condition has a shape the evaluator does not know: "+err.Error(), lab+"\nrewritten: "+rewritten)
		return
	}
	rep.Add(lab, opTerm, vh.Ok(flags(got)))
	want := make([]bool, len(rows))
	for i, rw := range rows {
		want[i] = cond.ref(rw, binds, rh, store)
	}
	rep.OracleChecks++
	if !bytes.Equal(flags(got), flags(want)) {
		class := cond.unsupported(true)
		if class == "" {
			class = "mysql-result-set-tree"
		}
		rep.Violate(class, fmt.Sprintf("rows selected through acra %v, rows whose plaintext satisfies the condition %v", flags(got), flags(want)),
			lab+"\nrewritten: "+rewritten+"\nbinds: "+c09xHexList(binds)+"\nplaintexts: "+c09Plains(rows))
	}
}

// ---------- hmac.Processor around the real detector, as the proxies subscribe it ----------

// c09xChain = decryptor/postgresql/proxy.go (and the MySQL twin) restricted to the subscribers between and
// including the two subscriptions of the hmac processor.
func c09xChain(store *vh.MemKeystore, rh crypto.RegistryHandler) *base.ColumnDecryptionObserver {
	obs := base.NewColumnDecryptionObserver()
	hmacProcessor := hmac.NewHMACProcessor(store)
	envelopeDetector := crypto.NewEnvelopeDetector()
	var containerDetector base.DecryptionSubscriber = envelopeDetector
	if base.OldContainerDetectionOn {
		containerDetector = crypto.NewOldContainerDetectorWrapper(envelopeDetector)
	}
	obs.SubscribeOnAllColumnsDecryption(hmacProcessor)
	envelopeDetector.AddCallback(crypto.NewDecryptHandler(store, rh))
	obs.SubscribeOnAllColumnsDecryption(containerDetector)
	obs.SubscribeOnAllColumnsDecryption(hmacProcessor.Verifier())
	return &obs
}

type c09xCol struct {
	kind   string
	data   []byte
	expect []byte // nil = no expectation beyond independence
	dec    bool
}

func c09xColumn(obs *base.ColumnDecryptionObserver, i int, data []byte) vh.Outcome {
	return vh.Guard(func() vh.Outcome {
		ctx, out, err := obs.OnColumnDecryption(clientCtx(), i, append([]byte{}, data...))
		if err != nil {
			return vh.ErrO(err)
		}
		f := byte(0)
		if base.IsDecryptedFromContext(ctx) {
			f = 1
		}
		return vh.Ok(append([]byte{}, out...), []byte{f})
	})
}

func c09xHmacCols(rep *vh.Report, r *vh.Rng, sc int, ks *vh.KeySet, store *vh.MemKeystore, rh crypto.RegistryHandler,
	senc *hmac.SearchableDataEncryptor, setting, setting2 config.ColumnEncryptionSetting, rows []c09Row) {
	insert := func(p []byte) []byte {
		vh.StartTape(r)
		defer vh.StopTape()
		s, err := senc.EncryptWithClientID([]byte(clientID), append([]byte{}, p...), setting)
		if err != nil {
			panic(err)
		}
		return s
	}
	plainEnvelope := func(p []byte) []byte {
		vh.StartTape(r)
		defer vh.StopTape()
		s, err := rh.EncryptWithClientID([]byte(clientID), append([]byte{}, p...), setting2)
		if err != nil {
			panic(err)
		}
		return s
	}
	hashLike := func(n int) []byte { return append([]byte{0x7f}, r.Bytes(n)...) }
	mk := func() c09xCol {
		rw := rows[r.Intn(len(rows))]
		idx, cont := rw.stored[:33], rw.stored[33:]
		switch r.Intn(14) {
		case 0, 1:
			return c09xCol{"honest", rw.stored, rw.plain, true}
		case 2:
			f := hmac.GenerateHMAC(append([]byte{}, ks.Hmac...), append(append([]byte{}, rw.plain...), '!'))
			return c09xCol{"index-of-other-value", append(f, cont...), nil, false}
		case 3:
			flip := append([]byte{}, idx...)
			flip[1+r.Intn(32)] ^= byte(1 << uint(r.Intn(8)))
			return c09xCol{"bit-flip-in-index", append(flip, cont...), nil, false}
		case 4:
			other := rows[r.Intn(len(rows))]
			d := append(append([]byte{}, idx...), other.stored[33:]...)
			if bytes.Equal(other.plain, rw.plain) {
				return c09xCol{"container-of-equal-row", d, rw.plain, true}
			}
			return c09xCol{"container-of-other-row", d, nil, false}
		case 5:
			return c09xCol{"unprotected", rw.tag, rw.tag, false}
		case 6:
			return c09xCol{"encrypted-not-searchable", rw.d2, rw.d2p, true}
		case 7: // searchable column whose PLAINTEXT starts like an index and is long enough
			p := hashLike(32 + r.Intn(20))
			return c09xCol{"plaintext-looks-like-index", insert(p), p, true}
		case 8: // searchable column whose plaintext is index-like bytes followed by an envelope
			p := append(hashLike(32), plainEnvelope(c09Value(r, true))...)
			return c09xCol{"plaintext-looks-like-searchable-value", insert(p), p, true}
		case 9: // an encrypted, non-searchable column with such a plaintext
			p := append(hashLike(32), plainEnvelope(c09Value(r, true))...)
			return c09xCol{"nonsearchable-plaintext-looks-like-searchable-value", plainEnvelope(p), p, true}
		case 10: // unprotected bytes that look like an index, with and without bytes behind
			d := hashLike(r.Pick(31, 32, 33, 40, 80))
			return c09xCol{"unprotected-looks-like-index", d, d, false}
		case 11: // honest value behind a function id the processor does not know
			d := append([]byte{}, rw.stored...)
			d[0] = byte(r.Intn(0x7f))
			// no index is recognised; the detector still opens the envelope in place
			return c09xCol{"unknown-function-id", d, append(append([]byte{}, d[:33]...), rw.plain...), true}
		case 12:
			return c09xCol{"empty", []byte{}, []byte{}, false}
		}
		// envelope that cannot be opened (another client's keys): index cannot be verified
		ks3 := vh.NewKeySet(r, 1, 1, true)
		st3 := storeFor(ks3)
		rh3 := crypto.NewRegistryHandler(st3)
		vh.StartTape(r)
		foreign, err := rh3.EncryptWithClientID([]byte(clientID), append([]byte{}, rw.plain...), setting2)
		vh.StopTape()
		if err != nil {
			panic(err)
		}
		return c09xCol{"index-then-foreign-envelope", append(append([]byte{}, idx...), foreign...), nil, false}
	}
	ncols := 2 + r.Intn(5)
	var cols []c09xCol
	for i := 0; i < ncols; i++ {
		c := mk()
		rep.Count("x-col:" + c.kind)
		cols = append(cols, c)
	}
	obs := c09xChain(store, rh)
	var all [][]byte
	var vals [][]byte
	final := vh.Ok()
	for i, c := range cols {
		all = append(all, c.data)
		o := c09xColumn(obs, i, c.data)
		lab := fmt.Sprintf("sc%d hmac-cols col%d %s", sc, i, c.kind)
		replay := lab + " column=" + hx(c.data) + " history=" + c09xHexList(all)
		rep.OracleChecks++
		if o.Kind == "panic" {
			rep.Violate("hmac-processor-panic", "column processing panicked: "+o.Msg, replay)
		}
		if o.Kind != "ok" {
			final = o
			break
		}
		vals = append(vals, o.Vals[0], o.Vals[1])
		// independence: the same column through a fresh chain
		fresh := c09xColumn(c09xChain(store, rh), 0, c.data)
		rep.OracleChecks++
		if fresh.Kind != "ok" || !bytes.Equal(fresh.Vals[0], o.Vals[0]) || !bytes.Equal(fresh.Vals[1], o.Vals[1]) {
			rep.Violate("hmac-processor-history", "a column is delivered differently after other columns than on its own: "+o.String()+" vs "+fresh.String(), replay)
		}
		rep.OracleChecks++
		switch {
		case c.expect != nil && (!bytes.Equal(o.Vals[0], c.expect) || (o.Vals[1][0] == 1) != c.dec):
			rep.Violate("hmac-processor-delivery", fmt.Sprintf("%s column delivered as %s, expected %s decrypted=%v", c.kind, o.String(), hx(c.expect), c.dec), replay)
		case c.expect == nil && (!bytes.Equal(o.Vals[0], c.data) || o.Vals[1][0] == 1):
			rep.Violate("hmac-processor-mismatch-delivered", fmt.Sprintf("%s column (index does not match content) delivered as %s, expected the stored bytes, not marked decrypted", c.kind, o.String()), replay)
		}
	}
	if final.Kind == "ok" {
		final = vh.Ok(vals...)
	}
	rep.Add(fmt.Sprintf("sc%d hmac-cols n=%d", sc, len(cols)), fmt.Sprintf("HmacCols %s %s", ks.Coq(), vh.HL(all)), final)
}
