// acra-vh: correspondence harness. Runs the real acra code (built from /repo's working tree
// with -tags verif and the gothemis stand-in) on generated cases, writes the observations as a
// Coq file for the model to replay, and evaluates each property's own oracle on the implementation.
package main

import (
	"flag"
	"fmt"
	"io"
	"os"

	"github.com/sirupsen/logrus"

	"acra-vh/vh"
)

type domain func(rep *vh.Report, r *vh.Rng, n int, thorough bool)

var domains = map[string]struct {
	f   domain
	mod string
}{}

// generators print a coq/Gen/*.v file to stdout (regenerated from /repo on every run)
var generators = map[string]func(){"consts": emitConsts}

func register(name, mod string, f domain) {
	domains[name] = struct {
		f   domain
		mod string
	}{f, mod}
}

func main() {
	if len(os.Args) < 2 {
		fmt.Fprintln(os.Stderr, "usage: acra-vh consts | <domain> -seed S -n N -out DIR [-thorough]")
		os.Exit(2)
	}
	cmd := os.Args[1]
	logrus.SetOutput(io.Discard)
	if g, ok := generators[cmd]; ok {
		g()
		return
	}
	d, ok := domains[cmd]
	if !ok {
		fmt.Fprintln(os.Stderr, "unknown domain", cmd)
		os.Exit(2)
	}
	fs := flag.NewFlagSet(cmd, flag.ExitOnError)
	seed := fs.Uint64("seed", 1, "PRNG seed")
	n := fs.Int("n", 100, "number of scenarios")
	out := fs.String("out", "", "output directory")
	thorough := fs.Bool("thorough", false, "thorough tier")
	fs.Parse(os.Args[2:])
	rep := vh.NewReport(cmd, *seed)
	d.f(rep, vh.NewRng(*seed), *n, *thorough)
	if err := rep.Write(*out, d.mod); err != nil {
		fmt.Fprintln(os.Stderr, err)
		os.Exit(2)
	}
	fmt.Printf("%s: %d evaluations, %d oracle checks, %d violations\n", cmd, rep.Evaluations, rep.OracleChecks, len(rep.Violations))
}
