package main

import (
	"fmt"
	"go/ast"
	"go/parser"
	"go/token"
	"os"
	"path/filepath"
	"sort"

	"acra-vh/vh"
)

func init() { generators["tlswrapper"] = emitTLSWrapper }

func repoDir() string {
	if d := os.Getenv("VERIF_REPO"); d != "" {
		return d
	}
	return "/repo"
}

type tlsRow struct {
	rpc, service string
	defined      bool // the wrapper declares the method itself (otherwise the embedded Unimplemented*Server answers: service not reached)
	idFromConn   bool // `X, err := getClientID(ctx, wrapper.tlsClientIDExtractor)` at the top level of the body
	errChecked   bool // followed by `if err != nil { return nil, err }` (no delegation when the connection has no identity)
	assigned     bool // `request.ClientId = X` at the top level, after both, request = the method's request parameter
	delegOK      bool // every call wrapper.decryptor.*(…) comes after the assignment, is the same-named method, passes the same request
	delegates    string
}

func (r tlsRow) overrides() bool {
	return r.defined && r.idFromConn && r.errChecked && r.assigned && r.delegOK
}

// analyseTLSWrapper reads tls_service.go / api_grpc.pb.go with go/ast.
func analyseTLSWrapper() ([]tlsRow, error) {
	dir := filepath.Join(repoDir(), "cmd/acra-translator/grpc_api")
	fset := token.NewFileSet()
	tlsFile, err := parser.ParseFile(fset, filepath.Join(dir, "tls_service.go"), nil, 0)
	if err != nil {
		return nil, err
	}
	pbFile, err := parser.ParseFile(fset, filepath.Join(dir, "api_grpc.pb.go"), nil, 0)
	if err != nil {
		return nil, err
	}
	ifaces := map[string]*ast.InterfaceType{}
	for _, f := range []*ast.File{tlsFile, pbFile} {
		for _, d := range f.Decls {
			gd, ok := d.(*ast.GenDecl)
			if !ok {
				continue
			}
			for _, s := range gd.Specs {
				if ts, ok := s.(*ast.TypeSpec); ok {
					if it, ok := ts.Type.(*ast.InterfaceType); ok {
						ifaces[ts.Name.Name] = it
					}
				}
			}
		}
	}
	ds, ok := ifaces["DecryptService"]
	if !ok {
		return nil, fmt.Errorf("DecryptService interface not found")
	}
	var rows []tlsRow
	var collect func(svc string, it *ast.InterfaceType) error
	collect = func(svc string, it *ast.InterfaceType) error {
		for _, m := range it.Methods.List {
			if len(m.Names) == 0 { // embedded interface
				id, ok := m.Type.(*ast.Ident)
				if !ok {
					return fmt.Errorf("unsupported embedded type in %s", svc)
				}
				sub, ok := ifaces[id.Name]
				if !ok {
					return fmt.Errorf("embedded interface %s not found", id.Name)
				}
				if err := collect(id.Name, sub); err != nil {
					return err
				}
				continue
			}
			for _, n := range m.Names {
				if !n.IsExported() {
					continue // mustEmbedUnimplemented…
				}
				rows = append(rows, tlsRow{rpc: n.Name, service: svc})
			}
		}
		return nil
	}
	if err := collect("DecryptService", ds); err != nil {
		return nil, err
	}
	methods := map[string]*ast.FuncDecl{}
	for _, d := range tlsFile.Decls {
		fd, ok := d.(*ast.FuncDecl)
		if !ok || fd.Recv == nil || len(fd.Recv.List) != 1 {
			continue
		}
		if st, ok := fd.Recv.List[0].Type.(*ast.StarExpr); ok {
			if id, ok := st.X.(*ast.Ident); ok && id.Name == "TLSDecryptServiceWrapper" {
				methods[fd.Name.Name] = fd
			}
		}
	}
	for i := range rows {
		fd, ok := methods[rows[i].rpc]
		if !ok {
			continue
		}
		rows[i].defined = true
		analyseTLSMethod(fd, &rows[i])
	}
	sort.SliceStable(rows, func(i, j int) bool { return rows[i].rpc < rows[j].rpc })
	return rows, nil
}

func isSel(e ast.Expr, x, sel string) bool {
	s, ok := e.(*ast.SelectorExpr)
	if !ok || s.Sel.Name != sel {
		return false
	}
	id, ok := s.X.(*ast.Ident)
	return ok && id.Name == x
}

func analyseTLSMethod(fd *ast.FuncDecl, row *tlsRow) {
	if len(fd.Recv.List[0].Names) != 1 || fd.Type.Params == nil {
		return
	}
	recv := fd.Recv.List[0].Names[0].Name
	var params []string
	for _, p := range fd.Type.Params.List {
		for _, n := range p.Names {
			params = append(params, n.Name)
		}
	}
	if len(params) != 2 {
		return
	}
	ctxName, reqName := params[0], params[1]
	idVar := ""
	var idPos, errPos, asgPos token.Pos
	for _, st := range fd.Body.List {
		switch s := st.(type) {
		case *ast.AssignStmt:
			// X, err := getClientID(ctx, wrapper.tlsClientIDExtractor)
			if len(s.Lhs) == 2 && len(s.Rhs) == 1 && idVar == "" {
				if call, ok := s.Rhs[0].(*ast.CallExpr); ok {
					if fn, ok := call.Fun.(*ast.Ident); ok && fn.Name == "getClientID" && len(call.Args) == 2 {
						a0, ok0 := call.Args[0].(*ast.Ident)
						l0, okl := s.Lhs[0].(*ast.Ident)
						l1, okl1 := s.Lhs[1].(*ast.Ident)
						if ok0 && a0.Name == ctxName && isSel(call.Args[1], recv, "tlsClientIDExtractor") && okl && okl1 && l1.Name == "err" && l0.Name != "_" {
							idVar, idPos, row.idFromConn = l0.Name, s.Pos(), true
						}
					}
				}
			}
			// request.ClientId = X
			if len(s.Lhs) == 1 && len(s.Rhs) == 1 && s.Tok == token.ASSIGN && isSel(s.Lhs[0], reqName, "ClientId") {
				if r, ok := s.Rhs[0].(*ast.Ident); ok && idVar != "" && r.Name == idVar && errPos.IsValid() && !asgPos.IsValid() {
					asgPos, row.assigned = s.Pos(), true
				} else {
					row.assigned = false // some other value is written into the request identity
					asgPos = s.Pos()
				}
			}
		case *ast.IfStmt:
			// if err != nil { return nil, err }
			if idVar != "" && !errPos.IsValid() && s.Init == nil && s.Else == nil {
				if be, ok := s.Cond.(*ast.BinaryExpr); ok && be.Op == token.NEQ {
					x, okx := be.X.(*ast.Ident)
					y, oky := be.Y.(*ast.Ident)
					if okx && oky && x.Name == "err" && y.Name == "nil" && len(s.Body.List) == 1 {
						if rs, ok := s.Body.List[0].(*ast.ReturnStmt); ok && len(rs.Results) == 2 {
							r0, ok0 := rs.Results[0].(*ast.Ident)
							r1, ok1 := rs.Results[1].(*ast.Ident)
							if ok0 && ok1 && r0.Name == "nil" && r1.Name == "err" {
								errPos, row.errChecked = s.Pos(), true
							}
						}
					}
				}
			}
		}
	}
	_ = idPos
	// delegations anywhere in the body
	row.delegOK = true
	n := 0
	ast.Inspect(fd.Body, func(nd ast.Node) bool {
		call, ok := nd.(*ast.CallExpr)
		if !ok {
			return true
		}
		sel, ok := call.Fun.(*ast.SelectorExpr)
		if !ok || !isSel(sel.X, recv, "decryptor") {
			return true
		}
		n++
		row.delegates = sel.Sel.Name
		good := sel.Sel.Name == fd.Name.Name && len(call.Args) == 2 && asgPos.IsValid() && call.Pos() > asgPos
		if good {
			a0, ok0 := call.Args[0].(*ast.Ident)
			a1, ok1 := call.Args[1].(*ast.Ident)
			good = ok0 && ok1 && a0.Name == ctxName && a1.Name == reqName
		}
		if !good {
			row.delegOK = false
		}
		return true
	})
	if n != 1 {
		row.delegOK = false
	}
	// the request parameter or the id variable must not be re-bound anywhere else
	ast.Inspect(fd.Body, func(nd ast.Node) bool {
		as, ok := nd.(*ast.AssignStmt)
		if !ok {
			return true
		}
		for _, l := range as.Lhs {
			if id, ok := l.(*ast.Ident); ok && (id.Name == reqName || (id.Name == idVar && as.Pos() != idPos)) {
				row.delegOK = false
			}
			if isSel(l, reqName, "ClientId") && as.Pos() != asgPos {
				row.delegOK = false
			}
		}
		return true
	})
}

func c02CoqBool(b bool) string {
	if b {
		return "true"
	}
	return "false"
}

// emitTLSWrapper prints coq/Gen/TlsWrapper.v
func emitTLSWrapper() {
	rows, err := analyseTLSWrapper()
	if err != nil {
		fmt.Fprintln(os.Stderr, "tlswrapper:", err)
		os.Exit(1)
	}
	fmt.Println("(* GENERATED by `acra-vh tlswrapper` (go/ast over cmd/acra-translator/grpc_api/tls_service.go and")
	fmt.Println("   api_grpc.pb.go of /repo) on every run. Do not edit. *)")
	fmt.Println("From Acra Require Import Lib.Bytes.")
	fmt.Println("Local Open Scope N_scope.")
	fmt.Println("(* one row per RPC of the service interfaces embedded in grpc_api.DecryptService:")
	fmt.Println("   defined     the wrapper declares the method (else the embedded Unimplemented*Server answers)")
	fmt.Println("   id_from_conn  `id, err := getClientID(ctx, wrapper.tlsClientIDExtractor)` at top level")
	fmt.Println("   err_checked   `if err != nil { return nil, err }` follows")
	fmt.Println("   assigned      `request.ClientId = id` follows at top level, nothing else is written to request.ClientId")
	fmt.Println("   deleg_ok      exactly one call wrapper.decryptor.<same method>(ctx, request), after the assignment *)")
	fmt.Println("Record tls_row := { rpc_name : bytes; rpc_service : bytes; rpc_defined : bool; rpc_id_from_conn : bool;")
	fmt.Println("  rpc_err_checked : bool; rpc_assigned : bool; rpc_deleg_ok : bool; rpc_delegates : bytes }.")
	fmt.Println("Definition tls_rpcs : list tls_row := [")
	for i, r := range rows {
		sep := ";"
		if i == len(rows)-1 {
			sep = ""
		}
		fmt.Printf("  (* %s.%s -> %s *)\n  Build_tls_row %s %s %s %s %s %s %s %s%s\n", r.service, r.rpc, r.delegates,
			vh.H([]byte(r.rpc)), vh.H([]byte(r.service)), c02CoqBool(r.defined), c02CoqBool(r.idFromConn), c02CoqBool(r.errChecked),
			c02CoqBool(r.assigned), c02CoqBool(r.delegOK), vh.H([]byte(r.delegates)), sep)
	}
	fmt.Println("].")
}
