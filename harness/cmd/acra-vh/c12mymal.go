package main

// Domain c12my, malformed stream (C14): messages are lists of named fields; every length / count / bitmap
// field is set to each value of an edge table (0 / 1 / exact-1 / exact+1 / the bytes 0xfb 0xfc 0xfd 0xfe 0xff /
// 2^16 / 2^24-1 / 2^63 / 2^64-1 in the field's own encoding) and the message is cut before every field (and one
// byte earlier / later).  Each variant goes through the decoder it belongs to AND through the packet reader
// (framed).  Oracles: no panic (class panic:<function>), no hang (hang:<function>), no allocation out of
// proportion (oom:<function>).  Every call is also replayed on the model, so Ok / Err / Panic agreement is
// checked for each malformed input.  The tables are enumerated on every run, independent of -n.

import (
	"bytes"
	"encoding/hex"
	"fmt"
	"strings"

	"acra-vh/vh"

	"github.com/cossacklabs/acra/decryptor/mysql"
)

const (
	c12myOpaque = iota // bytes that are not a size
	c12myLenenc        // length-encoded integer announcing the size of what follows
	c12myLE3           // 3-byte little-endian payload length of the packet header
	c12myByte          // one byte that is a count, a flag or a bitmap
)

type c12myField struct {
	name  string
	b     []byte
	kind  int
	exact uint64
}

type c12myMsg struct {
	shape  string
	fields []c12myField
}

func (m c12myMsg) bytes() []byte {
	o := []byte{}
	for _, f := range m.fields {
		o = append(o, f.b...)
	}
	return o
}

type c12myVariant struct {
	what string
	b    []byte
}

func c12myEdges(f c12myField) [][]byte {
	e := f.exact
	switch f.kind {
	case c12myLenenc:
		return [][]byte{{0}, {1}, refLenencInt(e - 1), refLenencInt(e + 1), {0xfb}, {0xfc}, {0xfd}, {0xfe}, {0xff},
			{0xfc, byte(e), byte(e >> 8)}, {0xfc, 0xff, 0xff}, {0xfd, 0, 0, 1}, {0xfd, 0xff, 0xff, 0xff},
			{0xfe, byte(e), 0, 0, 0, 0, 0, 0, 0}, {0xfe, 0, 0, 0, 0, 0, 0, 0, 0x80}, {0xfe, 0xff, 0xff, 0xff, 0xff, 0xff, 0xff, 0xff, 0x7f},
			{0xfe, 0xff, 0xff, 0xff, 0xff, 0xff, 0xff, 0xff, 0xff}, {0xfe, 0xf0, 0xff, 0xff, 0xff, 0xff, 0xff, 0xff, 0xff}}
	case c12myLE3:
		var o [][]byte
		for _, v := range []uint64{0, 1, e - 1, e + 1, 0xfb, 0xfc, 0xfd, 0xfe, 0xff, 1 << 16, 1<<24 - 2, 1<<24 - 1} {
			o = append(o, c12myLe(3, v))
		}
		return o
	case c12myByte:
		var o [][]byte
		for _, v := range []uint64{0, 1, e - 1, e + 1, 0x7f, 0x80, 0xfb, 0xfc, 0xfd, 0xfe, 0xff} {
			o = append(o, []byte{byte(v)})
		}
		return o
	}
	return nil
}

func c12myVariants(m c12myMsg) []c12myVariant {
	var out []c12myVariant
	seen := map[string]bool{}
	add := func(what string, b []byte) {
		if b == nil {
			b = []byte{}
		}
		if len(b) > 9000 { // keep literals replayable
			b = b[:9000]
		}
		if seen[string(b)] {
			return
		}
		seen[string(b)] = true
		out = append(out, c12myVariant{m.shape + " " + what, b})
	}
	whole := m.bytes()
	add("well-formed", whole)
	for i, f := range m.fields {
		for _, ev := range c12myEdges(f) {
			o := []byte{}
			for j, g := range m.fields {
				if j == i {
					o = append(o, ev...)
				} else {
					o = append(o, g.b...)
				}
			}
			add(fmt.Sprintf("%s=%x(exact %d)", f.name, ev, f.exact), o)
		}
	}
	pos := 0
	for _, f := range m.fields {
		for _, cut := range []int{pos - 1, pos, pos + 1} {
			if cut >= 0 && cut <= len(whole) {
				add(fmt.Sprintf("cut before %s%+d", f.name, cut-pos), whole[:cut])
			}
		}
		pos += len(f.b)
	}
	add("cut last byte", whole[:max(0, len(whole)-1)])
	add("one byte more", append(append([]byte{}, whole...), 0))
	return out
}

func c12myLstr(name string, v []byte) []c12myField {
	return []c12myField{{name + ".len", refLenencInt(uint64(len(v))), c12myLenenc, uint64(len(v))}, {name, v, c12myOpaque, 0}}
}

func c12myColDefShape(shape string, maria bool, ext []byte, def []byte) c12myMsg {
	var fs []c12myField
	fs = append(fs, c12myLstr("catalog", []byte("def"))...)
	fs = append(fs, c12myLstr("schema", []byte("sch"))...)
	fs = append(fs, c12myLstr("table", []byte("tbl"))...)
	fs = append(fs, c12myLstr("org_table", []byte("otbl"))...)
	fs = append(fs, c12myLstr("name", []byte("n"))...)
	fs = append(fs, c12myLstr("org_name", []byte{})...)
	if maria {
		if ext == nil {
			fs = append(fs, c12myField{"ext.len", []byte{0}, c12myLenenc, 0})
		} else {
			fs = append(fs, c12myField{"ext.len", []byte{byte(len(ext))}, c12myLenenc, uint64(len(ext))}, c12myField{"ext", ext, c12myOpaque, 0})
		}
	}
	fs = append(fs, c12myField{"fixed.len", []byte{0x0c}, c12myByte, 0x0c},
		c12myField{"charset", []byte{0x21, 0}, c12myOpaque, 0}, c12myField{"column_length", []byte{10, 0, 0, 0}, c12myOpaque, 0},
		c12myField{"type", []byte{0xfd}, c12myOpaque, 0}, c12myField{"flags", []byte{1, 0x10}, c12myOpaque, 0},
		c12myField{"decimals", []byte{0x1f}, c12myOpaque, 0}, c12myField{"filler", []byte{0, 0}, c12myOpaque, 0})
	if def != nil {
		fs = append(fs, c12myLstr("default", def)...)
	}
	return c12myMsg{shape, fs}
}

func c12myBinRowShape(shape string, cells []c12myCell) (c12myMsg, []byte) {
	row := c12myRefBinRow(cells)
	bl := (len(cells) + 9) / 8
	fs := []c12myField{{"header", row[:1], c12myByte, 0}}
	for i := 0; i < bl; i++ {
		fs = append(fs, c12myField{fmt.Sprintf("bitmap[%d]", i), row[1+i : 2+i], c12myByte, uint64(row[1+i])})
	}
	tys := make([]byte, len(cells))
	for i, c := range cells {
		tys[i] = c.typ
		if c.null {
			continue
		}
		if c12myWidth(c.typ) >= 0 {
			fs = append(fs, c12myField{fmt.Sprintf("col%d", i), c.val, c12myOpaque, 0})
		} else {
			fs = append(fs, c12myLstr(fmt.Sprintf("col%d", i), c.val)...)
		}
	}
	return c12myMsg{shape, fs}, tys
}

func c12myExecuteShape(shape string, ps []c12myParam) c12myMsg {
	d := c12myRefExecute(0x01020304, 0, 1, ps)
	bl := (len(ps) + 7) / 8
	fs := []c12myField{{"command", d[:1], c12myOpaque, 0}, {"stmt_id", d[1:5], c12myOpaque, 0}, {"flags", d[5:6], c12myOpaque, 0}, {"iterations", d[6:10], c12myOpaque, 0}}
	for i := 0; i < bl; i++ {
		fs = append(fs, c12myField{fmt.Sprintf("bitmap[%d]", i), d[10+i : 11+i], c12myByte, uint64(d[10+i])})
	}
	fs = append(fs, c12myField{"new_params_bound", []byte{1}, c12myByte, 1})
	for i, p := range ps {
		fs = append(fs, c12myField{fmt.Sprintf("type%d", i), []byte{p.typ}, c12myByte, uint64(p.typ)}, c12myField{fmt.Sprintf("unsigned%d", i), []byte{p.flag}, c12myOpaque, 0})
	}
	for i, p := range ps {
		if p.null || p.typ == 6 {
			continue
		}
		if c12myWidth(p.typ) >= 0 {
			fs = append(fs, c12myField{fmt.Sprintf("value%d", i), p.val, c12myOpaque, 0})
		} else {
			fs = append(fs, c12myLstr(fmt.Sprintf("value%d", i), p.val)...)
		}
	}
	return c12myMsg{shape, fs}
}

func c12myNoPanic(rep *vh.Report, fn string, o vh.Outcome, lab, replay string) {
	rep.OracleChecks++
	if o.Kind == "panic" {
		rep.Violate("panic:"+fn, fn+" panicked on "+lab+": "+o.Msg, replay)
	}
}

// c12myFeedFramed sends a payload as one packet through the reader and the classification helpers.
func c12myFeedFramed(w *c12myOps, lab string, payload []byte) {
	if len(payload) == 0 || len(payload) > 4000 {
		return
	}
	stream := c12myFrame(payload, 1)
	o := w.Read(lab+" framed", stream)
	c12myNoPanic(w.rep, "ReadPacket", o, lab, hex.EncodeToString(stream))
}

func c12myFeedColDef(w *c12myOps, v c12myVariant, framed bool, flavours ...bool) {
	if len(flavours) == 0 {
		flavours = []bool{false, true}
	}
	for _, maria := range flavours {
		lab := fmt.Sprintf("mal %s maria=%v", v.what, maria)
		h := c12myHdr(len(v.b), 2)
		o := w.ColDef(lab, maria, h, v.b, 0xfc)
		c12myNoPanic(w.rep, "ParseResultField", o, lab, fmt.Sprintf("maria=%v payload=%x", maria, v.b))
	}
	if framed {
		c12myFeedFramed(w, "mal "+v.what, v.b)
	}
	w.rep.Count("malformed:coldef")
}

func c12myFeedBinRow(w *c12myOps, v c12myVariant, tys []byte, framed bool) {
	trs := make([]c12myTr, len(tys))
	for i, t := range tys {
		if c12myWidth(t) < 0 {
			trs[i] = c12myTr{kind: c12myTrFrame}
		}
	}
	lab := "mal " + v.what
	o := w.BinRow(lab, tys, trs, v.b)
	c12myNoPanic(w.rep, "processBinaryDataRow", o, lab, fmt.Sprintf("types=%x row=%x", tys, v.b))
	if framed {
		c12myFeedFramed(w, lab, v.b)
	}
	w.rep.Count("malformed:binrow")
}

func c12myFeedExecute(w *c12myOps, v c12myVariant, pn int, framed bool) {
	counts := []int{pn, pn + 1, pn + 8, 0}
	if !framed { // quick tier
		counts = []int{pn, pn + 8}
	}
	for _, k := range counts {
		lab := fmt.Sprintf("mal %s paramNum=%d", v.what, k)
		o := w.GetParams(lab, v.b, k)
		c12myNoPanic(w.rep, "GetBindParameters", o, lab, fmt.Sprintf("paramNum=%d payload=%x", k, v.b))
		if k == 0 {
			continue
		}
		o, ran := w.SetParams(lab+" SetParameters", c12myHdr(len(v.b), 0), v.b, k, nil)
		if ran {
			c12myNoPanic(w.rep, "SetParameters", o, lab, fmt.Sprintf("paramNum=%d payload=%x", k, v.b))
		}
	}
	if framed {
		c12myFeedFramed(w, "mal "+v.what, v.b)
	}
	w.rep.Count("malformed:execute")
}

func c12myFeedStream(w *c12myOps, v c12myVariant, all bool) {
	lab := "mal " + v.what
	o := w.Read(lab, v.b)
	c12myNoPanic(w.rep, "ReadPacket", o, lab, hex.EncodeToString(v.b))
	if len(v.b) >= 4 && all {
		o = w.Classify(lab+" classify", v.b[:4], v.b[4:])
		// an empty payload never reaches the helpers (ReadPacket refuses it); everything else must classify
		if len(v.b) > 4 {
			c12myNoPanic(w.rep, "Packet.IsOK/IsEOF/IsErr", o, lab, hex.EncodeToString(v.b))
		}
		if len(v.b) > 4 {
			o = w.ReplaceQuery(lab+" replaceQuery", v.b[:4], v.b[4:], []byte("select 1"))
			c12myNoPanic(w.rep, "replaceQuery", o, lab, hex.EncodeToString(v.b))
		}
	}
	w.rep.Count("malformed:stream")
}

func c12myMalformedTables(w *c12myOps, thorough bool) {
	// packet streams: one packet, two packets, OK / EOF / ERR packets
	for _, m := range []c12myMsg{
		{"stream(query)", []c12myField{{"length", c12myLe(3, 9), c12myLE3, 9}, {"seq", []byte{0}, c12myByte, 0}, {"command", []byte{3}, c12myByte, 3}, {"query", []byte("select 1"), c12myOpaque, 0}}},
		{"stream(ok)", []c12myField{{"length", c12myLe(3, 7), c12myLE3, 7}, {"seq", []byte{1}, c12myByte, 1}, {"header", []byte{0}, c12myByte, 0}, {"affected_rows", []byte{0}, c12myLenenc, 0}, {"last_insert_id", []byte{0}, c12myLenenc, 0}, {"status", []byte{2, 0}, c12myOpaque, 0}, {"warnings", []byte{0, 0}, c12myOpaque, 0},
			{"length2", c12myLe(3, 1), c12myLE3, 1}, {"seq2", []byte{0}, c12myByte, 0}, {"command2", []byte{0x0e}, c12myByte, 0x0e}}},
		{"stream(eof)", []c12myField{{"length", c12myLe(3, 5), c12myLE3, 5}, {"seq", []byte{5}, c12myByte, 5}, {"header", []byte{0xfe}, c12myByte, 0xfe}, {"warnings", []byte{0, 0}, c12myOpaque, 0}, {"status", []byte{2, 0}, c12myOpaque, 0}}},
		{"stream(text-row)", []c12myField{{"length", c12myLe(3, 6), c12myLE3, 6}, {"seq", []byte{4}, c12myByte, 4}, {"col0.len", []byte{0}, c12myLenenc, 0}, {"col1.len", []byte{4}, c12myLenenc, 4}, {"col1", []byte("abcd"), c12myOpaque, 0}}},
	} {
		for i, v := range c12myVariants(m) {
			c12myFeedStream(w, v, thorough || i%4 == 0)
		}
	}
	// column definitions
	shapes := []c12myMsg{
		c12myColDefShape("coldef", false, nil, nil),
		c12myColDefShape("coldef(mariadb ext)", true, []byte{0, 4, 'j', 's', 'o', 'n'}, nil),
	}
	if thorough {
		shapes = append(shapes, c12myColDefShape("coldef(default)", false, nil, []byte("dflt")), c12myColDefShape("coldef(mariadb, no ext)", true, nil, []byte{}))
	}
	for i, m := range shapes {
		for _, v := range c12myVariants(m) {
			if thorough {
				c12myFeedColDef(w, v, true)
			} else { // quick tier: each shape in the flavour it was built for
				c12myFeedColDef(w, v, false, i == 1)
			}
		}
	}
	// the default-value length is compared with what is left: the edge table on it, every run
	for _, v := range c12myVariants(c12myColDefShape("coldef(default)", false, nil, []byte("dflt"))) {
		if strings.Contains(v.what, " default.") {
			c12myFeedColDef(w, v, false, false)
		}
	}
	// binary rows
	rows := [][]c12myCell{
		{{3, false, []byte{1, 2, 3, 4}}, {0xfd, false, []byte("abc")}, {8, true, nil}, {0xfc, false, []byte{}}},
	}
	if thorough {
		rows = append(rows, []c12myCell{{1, false, []byte{9}}, {2, false, []byte{1, 2}}, {5, false, []byte{1, 2, 3, 4, 5, 6, 7, 8}}, {6, false, []byte{}}, {0xfe, false, []byte("x")}, {4, true, nil}, {0xf6, false, []byte("1.5")}, {13, false, []byte{7, 7}}})
	}
	for i, cells := range rows {
		m, tys := c12myBinRowShape(fmt.Sprintf("binrow%d", i), cells)
		for _, v := range c12myVariants(m) {
			c12myFeedBinRow(w, v, tys, thorough)
		}
	}
	// COM_STMT_EXECUTE
	execs := [][]c12myParam{
		{{3, 0, false, []byte{5, 0, 0, 0}}, {0xfd, 0, false, []byte("hi")}, {0xfe, 0, true, nil}},
	}
	if thorough {
		execs = append(execs, []c12myParam{{8, 0x80, false, []byte{1, 2, 3, 4, 5, 6, 7, 8}}, {1, 0, false, []byte{0xff}}, {6, 0, false, nil}, {0xfc, 0, false, []byte{}}, {2, 0, true, nil}, {5, 0, false, []byte{0, 0, 0, 0, 0, 0, 0xf0, 0x3f}},
			{0xfd, 0, false, []byte("abcdef")}, {3, 0, false, []byte{0xff, 0xff, 0xff, 0xff}}, {0xfd, 0, false, []byte("z")}})
	}
	for i, ps := range execs {
		for _, v := range c12myVariants(c12myExecuteShape(fmt.Sprintf("execute%d", i), ps)) {
			c12myFeedExecute(w, v, len(ps), thorough)
		}
	}
}

// c12myMalformedRandom: random composition (one per scenario): a valid message with random bytes flipped,
// a random cut, or plain random bytes, through every decoder.
func c12myMalformedRandom(w *c12myOps, r *vh.Rng, lab string) {
	mut := func(b []byte) []byte {
		o := append([]byte{}, b...)
		switch r.Intn(4) {
		case 0:
			return r.Bytes(r.Intn(40))
		case 1:
			if len(o) > 0 {
				return o[:r.Intn(len(o))]
			}
		case 2:
			for k := 0; k < 1+r.Intn(3) && len(o) > 0; k++ {
				o[r.Intn(len(o))] = byte(r.Pick(0, 1, 0xfb, 0xfc, 0xfd, 0xfe, 0xff, r.Intn(256)))
			}
		default:
			if len(o) > 0 {
				o[r.Intn(len(o))] ^= 1 << uint(r.Intn(8))
			}
		}
		return o
	}
	switch r.Intn(4) {
	case 0:
		maria := r.Bool()
		d := mut(c12myRefColDef(c12myGenColDef(r, maria), maria, refLenencStr))
		c12myFeedColDef(w, c12myVariant{lab + " random coldef", d}, true)
	case 1:
		k := 1 + r.Intn(9)
		cells := make([]c12myCell, k)
		tys := make([]byte, k)
		for i := range cells {
			cells[i] = c12myGenCell(r, true)
			tys[i] = cells[i].typ
		}
		if r.Intn(5) == 0 {
			tys[r.Intn(k)] = byte(r.Intn(256)) // a type the row was not built for (possibly unknown)
		}
		c12myFeedBinRow(w, c12myVariant{lab + " random binrow", mut(c12myRefBinRow(cells))}, tys, true)
	case 2:
		pn := 1 + r.Intn(10)
		ps := make([]c12myParam, pn)
		for i := range ps {
			ps[i] = c12myGenParam(r)
		}
		c12myFeedExecute(w, c12myVariant{lab + " random execute", mut(c12myRefExecute(7, 0, 1, ps))}, pn, true)
	default:
		p := genValue(r, 1+r.Intn(30))
		c12myFeedStream(w, c12myVariant{lab + " random stream", mut(cat(c12myFrame(p, byte(r.Intn(256))), r.Bytes(r.Intn(8))))}, true)
	}
}

// c12myHandlerEdges (implementation oracle only, every run): the places around the decoders where the proxy
// loops index a packet directly — Handler.handleStatementExecute (statement id of COM_STMT_EXECUTE) and the
// capability accessors applied to the first packet of the client / of the database.
func c12myHandlerEdges(w *c12myOps) {
	rep := w.rep
	ps := []c12myParam{{3, 0, false, []byte{5, 0, 0, 0}}, {0xfd, 0, false, []byte("hi")}, {0xfe, 0, true, nil}}
	for _, v := range c12myVariants(c12myExecuteShape("execute-handler", ps)) {
		if len(v.b) == 0 {
			continue // ReadPacket refuses an empty payload
		}
		payload := c12myPin(v.b)
		o := w.c12myWatch("handleStatementExecute", hex.EncodeToString(payload), func() vh.Outcome {
			_, err := mysql.VerifX12HandleStatementExecute(c12myCtx(), payload, 0x01020304, uint16(len(ps)))
			if err != nil {
				return vh.ErrO(err)
			}
			return vh.Ok()
		})
		rep.Count("oracle-only:handleStatementExecute")
		c12myNoPanic(rep, "handleStatementExecute", o, "mal "+v.what, hex.EncodeToString(payload))
	}
	client := cat([]byte{0x8d, 0xa6, 0xff, 0x01}, []byte{0, 0, 0, 1}, []byte{0x21}, make([]byte, 19), []byte{0x1c, 0, 0, 0}, []byte("user\x00"), []byte{0})
	server := cat([]byte{0x0a}, []byte("5.5.5-10.6.4-MariaDB\x00"), []byte{9, 0, 0, 0}, []byte("abcdefgh"), []byte{0}, []byte{0xfe, 0xf7}, []byte{0x21}, []byte{2, 0}, []byte{0xff, 0x81},
		[]byte{21}, make([]byte, 6), []byte{0x1c, 0, 0, 0}, []byte("ijklmnopqrst\x00"), []byte("mysql_native_password\x00"))
	for _, c := range []struct {
		name       string
		b          []byte
		fromClient bool
	}{{"client", client, true}, {"server", server, false}} {
		for cut := 1; cut <= len(c.b); cut++ {
			payload := c12myPin(c.b[:cut])
			o := vh.Guard(func() vh.Outcome {
				mysql.VerifX12Capabilities(payload, c.fromClient)
				return vh.Ok()
			})
			rep.Count("oracle-only:capabilities")
			c12myNoPanic(rep, "Packet.capabilities("+c.name+")", o, fmt.Sprintf("first %s packet cut to %d bytes", c.name, cut), hex.EncodeToString(payload))
		}
		// the server version without its terminator
		if !c.fromClient {
			payload := bytes.ReplaceAll(c12myPin(c.b), []byte{0}, []byte{1})
			o := vh.Guard(func() vh.Outcome { mysql.VerifX12Capabilities(payload, false); return vh.Ok() })
			c12myNoPanic(rep, "Packet.capabilities(server)", o, "initial handshake without any 0 byte", hex.EncodeToString(payload))
		}
	}
}
