package main

import (
	"bytes"
	"context"
	"encoding/base64"
	"encoding/binary"
	"encoding/hex"
	"fmt"
	"net"
	"strconv"
	"unicode/utf8"

	"acra-vh/vh"

	"github.com/cossacklabs/acra/crypto"
	"github.com/cossacklabs/acra/decryptor/base"
	"github.com/cossacklabs/acra/decryptor/base/type_awareness"
	"github.com/cossacklabs/acra/decryptor/postgresql"
	encryptor "github.com/cossacklabs/acra/encryptor/base"
	"github.com/cossacklabs/acra/encryptor/base/config"
	"github.com/cossacklabs/acra/encryptor/base/config/common"
	"github.com/cossacklabs/acra/utils"
)

func init() { register("c19", "Model.RunTyped", runC19) }

// ---------- settings ----------

type c19Setting struct {
	s   *config.BasicColumnEncryptionSetting
	via string // "init" (validated by Init) or "literal" (struct literal as acra's unit tests build them)
}

func policyCode(p common.ResponseOnFail) int {
	for i, w := range policyWords {
		if string(p) == w && i < 4 {
			return i
		}
	}
	return 4
}

var coqPolicy = []string{"PEmpty", "PCiphertext", "PDefault", "PError", "PBad"}

func c19CoqBool(b bool) string {
	if b {
		return "true"
	}
	return "false"
}

func coqOptStr(p *string) string {
	if p == nil {
		return "None"
	}
	return "(Some " + vh.H([]byte(*p)) + ")"
}

func c19CoqSetting(s config.ColumnEncryptionSetting) string {
	return fmt.Sprintf("(mk_setting %d %s %s %s %s)", s.GetDBDataTypeID(), coqPolicy[policyCode(s.GetResponseOnFail())],
		coqOptStr(s.GetDefaultDataValue()), c19CoqBool(config.IsBinaryDataOperation(s)), c19CoqBool(config.HasTypeAwareSupport(s)))
}

func newSetting(dataType string, typeID uint32, pol string, def *string) *config.BasicColumnEncryptionSetting {
	env := config.CryptoEnvelopeTypeAcraBlock
	re := true
	return &config.BasicColumnEncryptionSetting{Name: "col", DataType: dataType, DataTypeID: typeID,
		ResponseOnFail: common.ResponseOnFail(pol), DefaultDataValue: def, CryptoEnvelope: &env, ReEncryptToAcraBlock: &re}
}

func u32le(v uint32) []byte { b := make([]byte, 4); binary.LittleEndian.PutUint32(b, v); return b }
func u32be(v uint32) []byte { b := make([]byte, 4); binary.BigEndian.PutUint32(b, v); return b }

func statusOf(err error) vh.Outcome {
	if _, ok := err.(*base.EncodingError); ok {
		return vh.Ok([]byte{1})
	}
	return vh.Ok([]byte{2})
}

func c19OptVals(p *string) [][]byte {
	if p == nil {
		return [][]byte{{0}}
	}
	return [][]byte{{1}, []byte(*p)}
}

// ---------- value tables aimed at what the property names ----------

var intLiterals = []string{"0", "1", "-1", "2147483647", "-2147483648", "2147483648", "-2147483649", "+7", "007", "-0",
	"9223372036854775807", "-9223372036854775808", "9223372036854775808", "-9223372036854775809", "4294967296",
	"99999999999999999999", "18446744073709551616", "abc", "12a", " 1", "1 ", "1_000", "0x1F", "-", "+", "+-1", "१२३", "1\x00", "1.0", "1e3",
	"-000000000000000000000000000002147483648", "00000000000000000000009223372036854775807"}

var textValues = []string{"hello", "жλ utf8", "\xff\xfe not utf8", `a\b`, `\x41`, "123", "nul\x00byte", "tab\tnl\n", "\xc2\x85", "\xed\xa0\x80",
	`back\\slash`, `\101\102`, "%%%", `""""""""`, "x"}

func genBytes(r *vh.Rng) []byte {
	switch r.Intn(5) {
	case 0:
		return []byte{0}
	case 1:
		return []byte(`\x`)
	case 2:
		return bytes.Repeat([]byte{0xff}, 1+r.Intn(9))
	}
	return r.Bytes(1 + r.Intn(40))
}

func kindOfID(id uint32) int {
	e, ok := type_awareness.GetPostgreSQLDataTypeIDEncoders()[id]
	if !ok {
		return 0
	}
	return encoderKind(e)
}

// genOriginal: a value a writer could have protected in a column of that kind
func genOriginal(r *vh.Rng, kind int) []byte {
	switch kind {
	case 1, 2:
		if r.Intn(6) == 0 {
			return []byte(strconv.FormatInt(int64(r.U64()), 10))
		}
		if r.Intn(6) == 0 {
			return []byte(strconv.FormatInt(int64(int32(r.U64())), 10))
		}
		return []byte(intLiterals[r.Intn(len(intLiterals))])
	case 3:
		return []byte(textValues[r.Intn(len(textValues))])
	}
	if r.Bool() {
		return []byte(textValues[r.Intn(len(textValues))])
	}
	return genBytes(r)
}

func genDefault(r *vh.Rng, kind int, valid bool) string {
	switch kind {
	case 1, 2:
		if valid {
			ok := []string{"0", "-1", "2147483647", "-2147483648", "+7", "007", "42"}
			if kind == 2 {
				ok = append(ok, "9223372036854775807", "-9223372036854775808", "4294967296")
			}
			return ok[r.Intn(len(ok))]
		}
		bad := []string{"abc", "", "99999999999999999999", "9223372036854775808", "1.5", " 1"}
		if kind == 1 {
			bad = append(bad, "2147483648", "-2147483649")
		}
		return bad[r.Intn(len(bad))]
	case 3:
		if valid {
			return []string{"default", "", "жλ", `\x41`, "0"}[r.Intn(5)]
		}
		return []string{"\xff", "ab\xc3", "\xed\xa0\x80"}[r.Intn(3)]
	default:
		if valid {
			switch r.Intn(4) {
			case 0:
				return ""
			case 1:
				return "aGVs\nbG8=\r\n"
			}
			return base64.StdEncoding.EncodeToString(genBytes(r))
		}
		return []string{"!!!", "QQ=", "QQ==Q", "Q", "QUJD=", "=QQQ", "QQ=\n="}[r.Intn(7)]
	}
}

// ---------- independent reference encodings used by the oracle ----------

func intBits(kind int) int {
	if kind == 1 {
		return 32
	}
	return 64
}

// refTyped: the value [v] encoded as the declared kind in the requested format; ok=false when v is not a value of the kind
func refTyped(kind int, binaryFmt bool, v []byte) ([]byte, bool) {
	switch kind {
	case 1, 2:
		n, err := strconv.ParseInt(string(v), 10, intBits(kind))
		if err != nil {
			return nil, false
		}
		if !binaryFmt {
			return v, true
		}
		if kind == 1 {
			return u32be(uint32(int32(n))), true
		}
		b := make([]byte, 8)
		binary.BigEndian.PutUint64(b, uint64(n))
		return b, true
	case 3:
		return v, true
	}
	if binaryFmt {
		return v, true
	}
	return []byte(`\x` + hex.EncodeToString(v)), true
}

// refDefault: the configured default encoded as the kind
func refDefault(kind int, binaryFmt bool, d string) ([]byte, bool) {
	if kind == 4 {
		raw, err := base64.StdEncoding.DecodeString(d)
		if err != nil {
			return nil, false
		}
		return refTyped(4, binaryFmt, raw)
	}
	if kind == 3 && !utf8.ValidString(d) {
		return nil, false
	}
	return refTyped(kind, binaryFmt, []byte(d))
}

// refCiphertext: how the stored bytes R come back under the ciphertext policy (bytes columns keep the bytea text form)
func refCiphertext(kind int, binaryFmt bool, raw []byte) []byte {
	if kind == 4 && !binaryFmt {
		return []byte(`\x` + hex.EncodeToString(raw))
	}
	return raw
}

// ---------- the real pipeline: decoder, reveal (EnvelopeDetector + DecryptHandler), encoder ----------

type tapSub struct {
	name string
	seen []byte
	dec  bool
	hit  bool
}

func (t *tapSub) ID() string { return t.name }
func (t *tapSub) OnColumn(ctx context.Context, data []byte) (context.Context, []byte, error) {
	t.seen = append([]byte{}, data...)
	t.dec = base.IsDecryptedFromContext(ctx)
	t.hit = true
	return ctx, data, nil
}

type revealSub struct {
	inner base.DecryptionSubscriber
	err   error
}

func (s *revealSub) ID() string { return "reveal" }
func (s *revealSub) OnColumn(ctx context.Context, data []byte) (context.Context, []byte, error) {
	c, d, err := s.inner.OnColumn(ctx, data)
	s.err = err
	return c, d, err
}

type cellResult struct {
	out       vh.Outcome
	seen      []byte
	revealed  []byte
	decrypted bool
	revealErr error
	delivered []byte
	err       error
}

func runCell(set config.ColumnEncryptionSetting, binaryFmt bool, reader *vh.KeySet, wire []byte) cellResult {
	var res cellResult
	st := storeFor(reader)
	det := crypto.NewEnvelopeDetector()
	det.AddCallback(crypto.NewDecryptHandler(st, crypto.NewRegistryHandler(st)))
	dec, _ := postgresql.NewPgSQLDataDecoderProcessor()
	enc, _ := postgresql.NewPgSQLDataEncoderProcessor()
	t1, t2 := &tapSub{name: "tap1"}, &tapSub{name: "tap2"}
	rv := &revealSub{inner: det}
	obs := base.NewColumnDecryptionObserver()
	for _, s := range []base.DecryptionSubscriber{dec, t1, rv, t2, enc} {
		obs.SubscribeOnAllColumnsDecryption(s)
	}
	// as PgProxy.onColumnDecryption builds the per-column context
	ac := base.NewAccessContext(base.WithClientID([]byte(clientID)))
	ac.SetColumnInfo(base.NewColumnInfo(0, "", binaryFmt, len(wire), 0, 0))
	ctx := base.SetAccessContextToContext(context.Background(), ac)
	ctx = encryptor.NewContextWithEncryptionSetting(ctx, set)
	res.out = vh.Guard(func() vh.Outcome {
		_, out, err := obs.OnColumnDecryption(ctx, 0, append([]byte{}, wire...))
		res.err = err
		res.revealErr = rv.err
		if t1.hit {
			res.seen = t1.seen
		}
		if t2.hit && t2.dec {
			res.decrypted = true
			res.revealed = t2.seen
		}
		if err != nil {
			o := statusOf(err)
			if t1.hit {
				o.Vals = append(o.Vals, t1.seen)
			}
			return o
		}
		res.delivered = out
		return vh.Ok([]byte{0}, t1.seen, out)
	})
	return res
}

type c19MemSession struct{ data map[string]interface{} }

func (m *c19MemSession) Context() context.Context             { return context.Background() }
func (m *c19MemSession) ClientConnection() net.Conn           { return nil }
func (m *c19MemSession) DatabaseConnection() net.Conn         { return nil }
func (m *c19MemSession) ProtocolState() interface{}           { return nil }
func (m *c19MemSession) SetProtocolState(interface{})         {}
func (m *c19MemSession) GetData(k string) (interface{}, bool) { v, ok := m.data[k]; return v, ok }
func (m *c19MemSession) SetData(k string, v interface{})      { m.data[k] = v }
func (m *c19MemSession) DeleteData(k string)                  { delete(m.data, k) }
func (m *c19MemSession) HasData(k string) bool                { _, ok := m.data[k]; return ok }

// rowDescription builds a one-field RowDescription body and reads the type id back from the rewritten one.
func describedOID(set config.ColumnEncryptionSetting, dbOID uint32) (uint32, error) {
	body := []byte{0, 1}
	body = append(body, 'c', 0)
	body = append(body, 0, 0, 0, 0, 0, 1) // table oid, attribute number
	body = append(body, u32be(dbOID)...)
	body = append(body, 0xff, 0xff, 0xff, 0xff, 0xff, 0xff, 0, 0) // type size -1, modifier -1, text format
	sess := &c19MemSession{data: map[string]interface{}{}}
	encryptor.SaveQueryDataItemsToClientSession(sess, []*encryptor.QueryDataItem{encryptor.NewQueryDataItem(set, "t", "c", "")})
	ctx := base.SetClientSessionToContext(context.Background(), sess)
	out, err := postgresql.VerifHandleRowDescription(ctx, body)
	if err != nil {
		return 0, err
	}
	if len(out) != len(body) || !bytes.Equal(out[:10], body[:10]) || !bytes.Equal(out[14:], body[14:]) {
		return 0, fmt.Errorf("row description changed outside the type id: %x", out)
	}
	return binary.BigEndian.Uint32(out[10:14]), nil
}

// ---------- domain ----------

type c19 struct {
	rep *vh.Report
	r   *vh.Rng
}

func (c *c19) micro(thorough bool) {
	rep, r := c.rep, c.r
	// strconv.ParseInt / FormatInt
	lits := append([]string{}, intLiterals...)
	for i := 0; i < 24; i++ {
		lits = append(lits, strconv.FormatInt(int64(r.U64())>>uint(r.Intn(64)), 10))
	}
	for _, l := range lits {
		for _, bits := range []int{32, 64} {
			o := vh.Ok([]byte{2})
			if v, err := strconv.ParseInt(l, 10, bits); err == nil {
				o = vh.Ok([]byte{0}, []byte(strconv.FormatInt(v, 10)))
			}
			rep.Add(fmt.Sprintf("ParseInt(%q,%d)", l, bits), fmt.Sprintf("PInt %d %s", bits, vh.H([]byte(l))), o)
		}
	}
	// utils.DecodeEscaped / PgEncodeToHex / base64 / utf8
	var esc [][]byte
	for _, t := range textValues {
		esc = append(esc, []byte(t))
	}
	esc = append(esc, []byte(`\xZZ`), []byte(`\x4`), []byte(`\x4a4B`), []byte(`\`), []byte(`\7`), []byte(`\777`), []byte(`\128`), []byte(`a\\`), []byte(`\\\`),
		[]byte("\xf0\x9f\x98\x80ok"), []byte("\xf4\x90\x80\x80"), []byte("\xe0\x9f\x80"), []byte("\x7f"), []byte("\xc2\x9f"), []byte("\xc2\xa0"), []byte("\xc0\x80"), []byte("\\1\xc3\xa900"), nil)
	for i := 0; i < 30; i++ {
		b := genBytes(r)
		switch r.Intn(4) {
		case 0:
			esc = append(esc, utils.PgEncodeToHex(b))
		case 1:
			esc = append(esc, utils.EncodeToOctal(b))
		case 2:
			m := utils.EncodeToOctal(b)
			if len(m) > 0 {
				m[r.Intn(len(m))] = byte(r.U64())
			}
			esc = append(esc, m)
		default:
			esc = append(esc, b)
		}
	}
	for _, e := range esc {
		in := append([]byte{}, e...)
		o := vh.Guard(func() vh.Outcome {
			d, err := utils.DecodeEscaped(in)
			if err == utils.ErrDecodeOctalString {
				return vh.Ok([]byte{1})
			} else if err != nil {
				return vh.Ok([]byte{2})
			}
			return vh.Ok([]byte{0}, d)
		})
		rep.Add(fmt.Sprintf("DecodeEscaped(%q)", e), "Esc "+vh.H(e), o)
		rep.Add(fmt.Sprintf("PgEncodeToHex(%q)", e), "Hex "+vh.H(e), vh.Ok(utils.PgEncodeToHex(e)))
		v := byte(0)
		if utf8.Valid(e) {
			v = 1
		}
		rep.Add(fmt.Sprintf("utf8.Valid(%q)", e), "Utf8 "+vh.H(e), vh.Ok([]byte{v}))
	}
	b64s := []string{"", "QQ==", "QQ=", "QQ", "Q", "QUI=", "QUJD", "QUJDRA==", "QR==", "QUJ=", "Q Q==", "QQ==\n", "Q\nQ=\r=\n", "QQ==Q", "QQ=Q", "=", "====", "QUJD=", "QUJDQUJDQUJDQUJD",
		"QUJDQUJDQUJDQUJ!", "+/+/", "-_-_", "QUJDQUJDQQ==", "QUJDQUJDQQ=\n=", "QUJDQUJD\nQUJD", "QUJDQUJDQUJDQUJDQUJDQUJDQUJDQUJDQUJDQUJDQ===", "QQ==\n\nQQ=="}
	for i := 0; i < 16; i++ {
		s := base64.StdEncoding.EncodeToString(genBytes(r))
		if r.Intn(3) == 0 && len(s) > 0 {
			bs := []byte(s)
			bs[r.Intn(len(bs))] = "=\n!A"[r.Intn(4)]
			s = string(bs)
		}
		b64s = append(b64s, s)
	}
	for _, s := range b64s {
		o := vh.Ok([]byte{2})
		if d, err := base64.StdEncoding.DecodeString(s); err == nil {
			o = vh.Ok([]byte{0}, d)
		}
		rep.Add(fmt.Sprintf("base64(%q)", s), "B64 "+vh.H([]byte(s)), o)
	}
}

// direct calls of the registered encoders (Encode / Decode / EncodeOnFail / ValidateDefaultValue)
func (c *c19) direct(set *config.BasicColumnEncryptionSetting, kind int, binaryFmt bool, data []byte, lab string) {
	rep := c.rep
	e := type_awareness.GetPostgreSQLDataTypeIDEncoders()[set.GetDBDataTypeID()]
	if e == nil {
		return
	}
	format := postgresql.NewDataTypeFormat(base.NewColumnInfo(0, "", binaryFmt, len(data), 0, 0), set)
	for _, decrypted := range []bool{false, true} {
		ctx := context.Background()
		if decrypted {
			ctx = base.MarkDecryptedContext(ctx)
		}
		in := append([]byte{}, data...)
		o := vh.Guard(func() vh.Outcome {
			_, out, err := e.Encode(ctx, in, format)
			if err != nil {
				return statusOf(err)
			}
			return vh.Ok([]byte{0}, out)
		})
		rep.Add(lab+" Encode", fmt.Sprintf("TEnc %s %s %s %s", c19CoqSetting(set), c19CoqBool(binaryFmt), c19CoqBool(decrypted), vh.H(data)), o)
	}
	in := append([]byte{}, data...)
	o := vh.Guard(func() vh.Outcome {
		ctx, out, err := e.Decode(context.Background(), in, format)
		if err != nil {
			return statusOf(err)
		}
		vals := [][]byte{{0}, out}
		if ev, ok := base.GetEncodedValueFromContext(ctx); ok {
			vals = append(vals, []byte{1}, ev)
		} else {
			vals = append(vals, []byte{0})
		}
		return vh.Ok(vals...)
	})
	rep.Add(lab+" Decode", fmt.Sprintf("TDec %s %s %s", c19CoqSetting(set), c19CoqBool(binaryFmt), vh.H(data)), o)
	o = vh.Guard(func() vh.Outcome {
		_, out, err := e.EncodeOnFail(context.Background(), format)
		if err != nil {
			return statusOf(err)
		}
		if out == nil {
			return vh.Ok([]byte{0}, []byte{0})
		}
		return vh.Ok([]byte{0}, []byte{1}, out)
	})
	rep.Add(lab+" EncodeOnFail", fmt.Sprintf("TFail %s %s", c19CoqSetting(set), c19CoqBool(binaryFmt)), o)
	str := string(data)
	v := byte(0)
	if e.ValidateDefaultValue(&str) == nil {
		v = 1
	}
	rep.Add(lab+" ValidateDefaultValue", fmt.Sprintf("TValid %d %s", set.GetDBDataTypeID(), vh.H(data)), vh.Ok([]byte{v}))
}

var dataTypeOfKind = []string{"", "int32", "int64", "str", "bytes"}

// initSetting runs the REAL Init and records it; returns nil when Init refused the configuration.
func (c *c19) initSetting(mysql bool, dtIdx int, typeID uint32, polIdx int, def *string, lab string) *config.BasicColumnEncryptionSetting {
	s := newSetting(dataTypeWords[dtIdx], typeID, policyWords[polIdx], def)
	var err error
	o := vh.Guard(func() vh.Outcome {
		err = s.Init(mysql)
		if err != nil {
			return vh.Ok([]byte{2})
		}
		vals := [][]byte{{0}, u32le(s.GetDBDataTypeID()), {byte(policyCode(s.GetResponseOnFail()))}}
		return vh.Ok(append(vals, c19OptVals(s.GetDefaultDataValue())...)...)
	})
	c.rep.Add(lab+" Init", fmt.Sprintf("Init %s (mk_init %d %d %d %s)", c19CoqBool(mysql), dtIdx, typeID, polIdx, coqOptStr(def)), o)
	if o.Kind != "ok" || err != nil {
		return nil
	}
	return s
}

type c19Case struct {
	kind      int // 1..4 encoder kind, 0 = no declared type
	polIdx    int
	binaryFmt bool
	hasKey    bool
	defMode   int // 0 none, 1 valid, 2 invalid
	viaInit   bool
	storedAs  int  // 0 envelope of the original, 1 garbage, 2 plain literal, 3 empty, 4 4/8-byte value, 5 truncated envelope
	wireAs    int  // text format only: 0 hex, 1 octal escape, 2 raw
	force8    bool // storedAs 4: an 8-byte cell outside the int32 range
}

func (c *c19) scenario(sc int, cs c19Case) {
	rep, r := c.rep, c.r
	lab := fmt.Sprintf("sc%d kind=%d pol=%s bin=%v key=%v def=%d init=%v stored=%d wire=%d", sc, cs.kind, policyWords[cs.polIdx], cs.binaryFmt, cs.hasKey, cs.defMode, cs.viaInit, cs.storedAs, cs.wireAs)
	rep.Count(fmt.Sprintf("kind:%d", cs.kind))
	rep.Count("policy:" + policyWords[cs.polIdx])
	rep.Count(fmt.Sprintf("binary:%v", cs.binaryFmt))
	rep.Count(fmt.Sprintf("reader-has-key:%v", cs.hasKey))
	rep.Count(fmt.Sprintf("default:%d", cs.defMode))
	rep.Count(fmt.Sprintf("stored:%d", cs.storedAs))
	var def *string
	if cs.defMode != 0 {
		d := genDefault(r, cs.kind, cs.defMode == 1)
		def = &d
	}
	// the setting: through the real Init, or a struct literal as acra's own unit tests build it
	var set *config.BasicColumnEncryptionSetting
	validated := false
	if cs.viaInit {
		useID := uint32(0)
		dt := cs.kind
		if cs.kind != 0 && r.Intn(3) == 0 { // data_type_db_identifier instead of data_type
			useID = common.PostgreSQLEncryptedTypeDataTypeIDs[common.EncryptedType(cs.kind)]
			dt = 0
		}
		set = c.initSetting(false, dt, useID, cs.polIdx, def, lab)
		validated = set != nil
		rep.Count(fmt.Sprintf("init-accepted:%v", validated))
		// the same configuration for MySQL (Init only)
		myID := uint32(0)
		if useID != 0 {
			myID = common.MySQLEncryptedTypeDataTypeIDs[common.EncryptedType(cs.kind)]
		}
		c.initSetting(true, dt, myID, cs.polIdx, def, lab+" mysql")
	}
	if set == nil {
		id := uint32(0)
		if cs.kind != 0 {
			id = common.PostgreSQLEncryptedTypeDataTypeIDs[common.EncryptedType(cs.kind)]
		}
		set = newSetting(dataTypeOfKind[cs.kind], id, policyWords[cs.polIdx], def)
	}
	// invalid_default_rejected_at_config_time, implementation side
	if validated && def != nil {
		rep.OracleChecks++
		if _, ok := refDefault(cs.kind, cs.binaryFmt, *def); !ok {
			rep.Violate("init-accepts-invalid-default", "Init accepted a default value that is not a value of the declared type",
				fmt.Sprintf("%s default=%q", lab, *def))
		}
	}
	// row description
	dbOID := uint32(17)
	got, err := describedOID(set, dbOID)
	if err == nil {
		rep.Add(lab+" RowDescription", fmt.Sprintf("RowDesc %s %d", c19CoqSetting(set), dbOID), vh.Ok(u32be(got)))
		if validated && cs.kind != 0 {
			rep.OracleChecks++
			if got != set.GetDBDataTypeID() || kindOfID(got) != cs.kind {
				rep.Violate("row-description-type", "row description does not name the declared type",
					fmt.Sprintf("%s described=%d declared=%d", lab, got, set.GetDBDataTypeID()))
			}
		}
	}
	// the stored value
	owner := vh.NewKeySet(r, 1, 1, true)
	orig := genOriginal(r, cs.kind)
	var raw []byte
	isEnvelope := false
	switch cs.storedAs {
	case 0, 5:
		id := byte(crypto.AcraBlockEnvelopeID)
		if r.Intn(3) == 0 {
			id = crypto.AcraStructEnvelopeID
		}
		t := vh.StartTape(r)
		env, err := crypto.NewRegistryHandler(storeFor(owner)).EncryptWithHandler(handlerByID(id), []byte(clientID), append([]byte{}, orig...))
		vh.StopTape()
		_ = t
		if err != nil {
			rep.Count("encrypt-error")
			return
		}
		raw = env
		isEnvelope = true
		if cs.storedAs == 5 {
			raw = env[:len(env)-1-r.Intn(len(env)/2)]
			isEnvelope = false
		}
	case 1:
		raw = genBytes(r)
	case 2:
		raw = append([]byte{}, orig...)
	case 3:
		raw = []byte{}
	case 4:
		raw = r.Bytes(r.Pick(4, 8))
		if cs.force8 {
			raw = r.Bytes(8)
			raw[0] |= 0x40 // outside the int32 range
		}
		if r.Bool() { // sign-extended small value
			for i := 0; i < len(raw)-2; i++ {
				raw[i] = 0xff * byte(r.Intn(2))
				if i > 0 {
					raw[i] = raw[0]
				}
			}
		}
	}
	wire := raw
	wireCanonical := true
	if !cs.binaryFmt {
		switch cs.wireAs {
		case 0:
			wire = utils.PgEncodeToHex(raw)
		case 1:
			wire = utils.EncodeToOctal(raw)
		default:
			wireCanonical = false
		}
	}
	var reader *vh.KeySet
	if cs.hasKey {
		reader = owner
	} else if r.Bool() {
		reader = vh.NewKeySet(r, 1, 1, true)
	}
	res := runCell(set, cs.binaryFmt, reader, wire)
	if res.revealErr != nil {
		rep.Count("reveal-step-error")
		return
	}
	revealed := "None"
	if res.decrypted {
		revealed = "(Some " + vh.H(res.revealed) + ")"
	}
	rep.Add(lab+" cell", fmt.Sprintf("Cell %s %s %s %s", c19CoqSetting(set), c19CoqBool(cs.binaryFmt), revealed, vh.H(wire)), res.out)
	rep.Count(fmt.Sprintf("decrypted:%v", res.decrypted))
	if r.Intn(4) == 0 {
		c.direct(set, cs.kind, cs.binaryFmt, wire, lab)
		c.direct(set, cs.kind, cs.binaryFmt, orig, lab)
	}

	// ---- the property's oracle, on the implementation only ----
	if !validated || cs.kind == 0 || res.out.Kind != "ok" {
		if res.out.Kind == "panic" {
			rep.OracleChecks++
			rep.Violate("panic", "column processing panicked: "+res.out.Msg, lab+" wire="+hx(wire))
		}
		return
	}
	replay := fmt.Sprintf("%s setting={type_id=%d policy=%q default=%v} original=%q stored=%s wire=%s delivered=%s err=%v",
		lab, set.GetDBDataTypeID(), set.GetResponseOnFail(), optQ(set.GetDefaultDataValue()), orig, hx(raw), hx(wire), hx(res.delivered), res.err)
	pol := policyCode(set.GetResponseOnFail())
	if len(raw) == 0 {
		// NULL never reaches the processors (handleQueryDataPacket skips it); an empty value stays empty
		rep.OracleChecks++
		if res.err != nil || len(res.delivered) != 0 {
			rep.Violate("empty-not-kept", "an empty cell did not stay empty", replay)
		}
		return
	}
	if !wireCanonical && !cs.binaryFmt {
		return // a text cell the database would not produce for a bytea column: model comparison only
	}
	if res.decrypted {
		rep.OracleChecks++
		if !isEnvelope || !cs.hasKey {
			rep.Violate("revealed-without-key", "value revealed although the reader has no key / it is no envelope", replay)
			return
		}
		if !bytes.Equal(res.revealed, orig) {
			rep.Violate("reveal-mismatch", "reveal step produced something else than the protected value", replay)
			return
		}
		want, ok := refTyped(cs.kind, cs.binaryFmt, orig)
		if !ok {
			// the writer protected something that is no value of the declared type
			if res.err == nil && !bytes.Equal(res.delivered, orig) {
				rep.Violate("owner-wrong-value", "a revealed value that is no integer of the declared width was delivered changed", replay)
			} else if res.err == nil {
				rep.Violate("int-column-plaintext-not-integer", "a revealed value that is not an integer of the declared width is delivered verbatim in a column described as integer", replay)
			}
			return
		}
		if res.err != nil || !bytes.Equal(res.delivered, want) {
			rep.Violate("owner-wrong-value", "owner did not receive the original encoded as the declared type", replay+" want="+hx(want))
		}
		return
	}
	// not revealed
	rep.OracleChecks++
	if isEnvelope && cs.hasKey {
		rep.Violate("owner-not-revealed", "the owning reader's envelope was not revealed", replay)
		return
	}
	if typed, ok := refTyped(cs.kind, cs.binaryFmt, raw); ok && cs.kind <= 2 {
		// an unprotected integer literal stored in the column: passes as the declared type
		if res.err != nil || !bytes.Equal(res.delivered, typed) {
			rep.Violate("plain-int-changed", "a stored plain integer literal was not delivered as the declared type", replay)
		}
		return
	}
	if cs.binaryFmt && cs.kind <= 2 && (len(raw) == 8 || len(raw) == 4) && (cs.kind == 2) == (len(raw) == 8) {
		// a binary integer of exactly the declared width passes unchanged
		if res.err != nil || !bytes.Equal(res.delivered, raw) {
			rep.Violate("binary-int-changed", "a stored binary integer of the declared width was changed", replay)
		}
		return
	}
	// an unrevealed 8-byte binary cell in a 32-bit integer column is re-read as a 64-bit integer (known finding)
	class8 := func(c string) string {
		if cs.kind == 1 && cs.binaryFmt && len(raw) == 8 {
			return "int4-binary-8-byte-cell-reinterpreted"
		}
		return c
	}
	switch pol {
	case 0, 1:
		if res.err != nil || !bytes.Equal(res.delivered, refCiphertext(cs.kind, cs.binaryFmt, raw)) {
			rep.Violate(class8("ciphertext-policy-not-ciphertext"), "policy ciphertext: delivered value is not the stored value", replay)
		}
	case 2:
		if set.GetDefaultDataValue() == nil {
			// policy default_value without a default (Init accepts it): nothing to deliver but the ciphertext
			rep.Count("default-policy-without-default")
			if res.err != nil || !bytes.Equal(res.delivered, refCiphertext(cs.kind, cs.binaryFmt, raw)) {
				rep.Violate(class8("default-policy-without-default"), "policy default_value without a configured default: neither ciphertext nor error", replay)
			}
			return
		}
		want, ok := refDefault(cs.kind, cs.binaryFmt, *set.GetDefaultDataValue())
		if !ok || res.err != nil || !bytes.Equal(res.delivered, want) {
			rep.Violate(class8("default-policy-not-default"), "policy default_value: delivered value is not the configured default encoded as the declared type", replay+" want="+hx(want))
		}
	case 3:
		if _, isEnc := res.err.(*base.EncodingError); !isEnc {
			rep.Violate(class8("error-policy-no-error"), "policy error: no encoding error was raised for an unrevealed value", replay)
		}
	}
}

func optQ(p *string) string {
	if p == nil {
		return "nil"
	}
	return fmt.Sprintf("%q", *p)
}

func runC19(rep *vh.Report, r *vh.Rng, n int, thorough bool) {
	// vh.NewRng(seed+1) is vh.NewRng(seed) advanced by one draw, so consecutive seeds re-synchronise after a
	// data-dependent number of draws; re-key from the (mixed) first output so that seeds are unrelated
	r = vh.NewRng(r.U64())
	c := &c19{rep, r}
	c.micro(thorough)
	sc := 0
	// the cross product type x policy x format x reader, each cell of the matrix at least once (thorough: x stored class x default)
	reps := 1
	if thorough {
		reps = 6
	}
	for rep0 := 0; rep0 < reps; rep0++ {
		for kind := 1; kind <= 4; kind++ {
			for pol := 0; pol < 4; pol++ {
				for _, bin := range []bool{false, true} {
					for _, key := range []bool{false, true} {
						cs := c19Case{kind: kind, polIdx: pol, binaryFmt: bin, hasKey: key, viaInit: true}
						if pol == 2 || (pol == 0 && rep0%2 == 1) {
							cs.defMode = 1
						}
						if rep0 > 0 {
							cs.storedAs = []int{0, 0, 1, 2, 4, 5}[rep0%6]
							cs.wireAs = rep0 % 2
						}
						c.scenario(sc, cs)
						sc++
					}
				}
			}
		}
	}
	// the boundary of known finding 2: 8-byte cells in an int32 column, binary format, every policy
	for pol := 0; pol < 4; pol++ {
		c.scenario(sc, c19Case{kind: 1, polIdx: pol, binaryFmt: true, viaInit: true, storedAs: 4, force8: true, defMode: map[bool]int{true: 1}[pol == 2]})
		sc++
	}
	// random scenarios: ~80 % well-formed, the rest malformed settings / cells
	for i := 0; i < n; i++ {
		cs := c19Case{kind: 1 + r.Intn(4), polIdx: r.Intn(4), binaryFmt: r.Bool(), hasKey: r.Intn(3) != 0, viaInit: r.Intn(5) != 0}
		if cs.polIdx == 2 || r.Intn(6) == 0 {
			cs.defMode = 1
		}
		if r.Intn(5) == 0 { // malformed stream
			switch r.Intn(5) {
			case 0:
				cs.kind = 0
			case 1:
				cs.polIdx = 4
				cs.viaInit = r.Bool()
			case 2:
				cs.defMode = 2
			case 3:
				cs.wireAs = 2
			default:
				cs.defMode = r.Intn(3)
			}
			rep.Count("stream:malformed")
		} else {
			rep.Count("stream:structured")
		}
		cs.storedAs = []int{0, 0, 0, 0, 0, 1, 2, 3, 4, 5}[r.Intn(10)]
		if cs.wireAs == 0 && r.Intn(4) == 0 {
			cs.wireAs = 1
		}
		c.scenario(sc, cs)
		sc++
	}
}
