package main

// Domain c18v2 (C18 extension): keystore v2 export -> import at key granularity.
// The REAL filesystem.KeyStore (in-memory back end) is driven through generated ring histories
// (AddKey / SetCurrent / SetState / DestroyKey), ExportKeyRings with fresh access keys, and
// ImportKeyRings into generated targets (empty, other rings, the same rings; default / overwrite /
// skip delegates).  Every step is replayed on Model/KeyRingV2Ext.v + Model/DerV2Ext.v, and the
// property's own oracle runs on the implementation: every getter of every imported ring reads the
// same in the target as in the source, rings outside the bundle are byte-identical, no plaintext
// secret in the bundle or in anything put to the target back end, modified bundles / wrong access
// keys rejected with the target unchanged.

import (
	"bytes"
	"fmt"
	"sort"
	"strings"
	"time"

	"acra-vh/vh"

	"github.com/cossacklabs/acra/keystore"
	"github.com/cossacklabs/acra/keystore/v2/keystore/api"
	"github.com/cossacklabs/acra/keystore/v2/keystore/asn1"
	cryptoV2 "github.com/cossacklabs/acra/keystore/v2/keystore/crypto"
	fsV2 "github.com/cossacklabs/acra/keystore/v2/keystore/filesystem"
	"github.com/cossacklabs/acra/keystore/v2/keystore/filesystem/backend"
	backendAPI "github.com/cossacklabs/acra/keystore/v2/keystore/filesystem/backend/api"
	"github.com/cossacklabs/themis/gothemis/core"
)

func init() { register("c18v2", "Model.RunKeyRingV2Ext", x18RunV2) }

// ---------- Coq emitters ----------

// x18H emits a byte string as chunked literals (Coq parses an N literal in quadratic time).
func x18H(b []byte) string {
	if len(b) <= 48 {
		return vh.H(b)
	}
	var parts []string
	for i := 0; i < len(b); i += 40 {
		j := i + 40
		if j > len(b) {
			j = len(b)
		}
		parts = append(parts, fmt.Sprintf("0x1%x", b[i:j]))
	}
	return "(xhb [" + strings.Join(parts, "; ") + "])"
}
func x18Z(n int) string { return fmt.Sprintf("(%d)%%Z", n) }
func x18HL(bs [][]byte) string {
	var p []string
	for _, b := range bs {
		p = append(p, x18H(b))
	}
	return "[" + strings.Join(p, "; ") + "]"
}
func x18Chunk(b []byte) [][]byte {
	var out [][]byte
	for i := 0; i < len(b); i += 64 {
		j := i + 64
		if j > len(b) {
			j = len(b)
		}
		out = append(out, b[i:j])
	}
	return out
}
func x18Z8(n int) []byte {
	out := make([]byte, 8)
	u := uint64(int64(n))
	for i := range out {
		out[i] = byte(u >> (8 * uint(i)))
	}
	return out
}
func x18UTC(t time.Time) []byte { return []byte(t.UTC().Format("060102150405Z")) }

// ---------- a real store with a recording back end ----------

type x18Rec struct {
	backendAPI.Backend
	puts []x18Put
}
type x18Put struct {
	path string
	data []byte
}

func (b *x18Rec) Put(path string, data []byte) error {
	b.puts = append(b.puts, x18Put{path, append([]byte{}, data...)})
	return b.Backend.Put(path, data)
}

type x18Store struct {
	enc, sig []byte
	rec      *x18Rec
	ks       api.MutableKeyStore
	ops      []string // Coq rop terms
	tape     [][]byte
	secrets  [][]byte
	paths    map[string]bool
}

func x18NewStore(r *vh.Rng) *x18Store {
	s := &x18Store{enc: r.Bytes(32), sig: r.Bytes(32), paths: map[string]bool{}}
	suite, _ := cryptoV2.NewSCellSuite(s.enc, s.sig)
	s.rec = &x18Rec{Backend: backend.NewInMemory()}
	s.ks, _ = fsV2.CustomKeyStore(s.rec, suite)
	return s
}

func (s *x18Store) snapshot() string {
	paths, _ := s.rec.ListAll()
	sort.Strings(paths)
	var sb strings.Builder
	for _, p := range paths {
		d, _ := s.rec.Get(p)
		fmt.Fprintf(&sb, "%s=%x;", p, d)
	}
	return sb.String()
}

// x18RingVals: the stored (encrypted) ring as the model's ring_vals; nil if the file does not exist
func x18DecodeRingFile(data []byte) (*asn1.KeyRing, error) {
	c, err := asn1.UnmarshalVerifiedContainer(data)
	if err != nil {
		return nil, err
	}
	return asn1.UnmarshalKeyRing(c.Payload.Data.FullBytes)
}
func x18RingVals(ring *asn1.KeyRing) [][]byte {
	out := [][]byte{ring.Purpose, x18Z8(ring.Current), x18Z8(len(ring.Keys))}
	for _, k := range ring.Keys {
		out = append(out, x18Z8(k.Seqnum), x18Z8(int(k.State)), x18UTC(k.ValidSince), x18UTC(k.ValidUntil), x18Z8(len(k.Data)))
		for _, d := range k.Data {
			out = append(out, x18Z8(int(d.Format)), d.PublicKey, d.PrivateKey, d.SymmetricKey)
		}
	}
	return out
}
func (s *x18Store) probe(path string) [][]byte {
	data, err := s.rec.Get(path + fsV2.VerifKeyringSuffix())
	if err != nil {
		return [][]byte{{0}}
	}
	ring, err := x18DecodeRingFile(data)
	if err != nil {
		return [][]byte{{9}}
	}
	return append([][]byte{{1}}, x18RingVals(ring)...)
}

// ---------- history generation ----------

var x18Paths = []string{"client/client_1/storage", "client/client_1/storage-sym", "client/client-two/hmac-sym", "poison-record", "audit-log", "zz/custom ring"}

type x18Data struct {
	format         int
	pub, priv, sym []byte
}

func x18DataCoq(ds []x18Data) string {
	var p []string
	for _, d := range ds {
		p = append(p, fmt.Sprintf("mk_kdata %s %s %s %s", x18Z(d.format), x18H(d.pub), x18H(d.priv), x18H(d.sym)))
	}
	return "[" + strings.Join(p, "; ") + "]"
}

func (s *x18Store) resVals(seq int, err error) [][]byte {
	if err != nil {
		return [][]byte{{1}, {}}
	}
	return [][]byte{{0}, x18Z8(seq)}
}

// step applies one generated ring operation to the real store; returns the result values
func (s *x18Store) step(rep *vh.Report, r *vh.Rng, paths []string, seqHint int) [][]byte {
	path := paths[r.Intn(len(paths))]
	s.paths[path] = true
	ring, err := s.ks.OpenKeyRingRW(path)
	if err != nil {
		panic("OpenKeyRingRW: " + err.Error())
	}
	seq := 1 + r.Intn(seqHint+1)
	if r.Intn(12) == 0 {
		seq = []int{0, -1, 99}[r.Intn(3)]
	}
	switch k := r.Intn(10); {
	case k < 5:
		rep.Count("rop:addkey")
		since := time.Date(2020+r.Intn(15), time.Month(1+r.Intn(12)), 1+r.Intn(28), r.Intn(24), r.Intn(60), r.Intn(60), 0, time.UTC)
		until := since.Add(time.Duration(1+r.Intn(1000)) * time.Hour)
		if r.Intn(15) == 0 {
			until = since.Add(-time.Duration(1+r.Intn(100)) * time.Second)
			rep.Count("rop:addkey:bad-period")
		}
		var ds []x18Data
		sym := func() x18Data { return x18Data{format: int(api.ThemisSymmetricKeyFormat), sym: r.Bytes(32)} }
		pair := func() x18Data {
			priv, pub := core.KeyPair(r.Bytes(32))
			return x18Data{format: int(api.ThemisKeyPairFormat), pub: pub, priv: priv}
		}
		switch v := r.Intn(20); {
		case v < 8:
			ds = []x18Data{sym()}
		case v < 14:
			ds = []x18Data{pair()}
		case v < 16:
			d := pair()
			d.priv = nil
			ds = []x18Data{d} // public-only key pair
			rep.Count("rop:addkey:public-only")
		case v < 17:
			ds = []x18Data{pair(), sym()}
			rep.Count("rop:addkey:two-formats")
		case v < 18:
			ds = []x18Data{sym(), pair()}
			rep.Count("rop:addkey:two-formats")
		case v < 19:
			ds = [][]x18Data{{}, {sym(), sym()}, {{format: 2, sym: r.Bytes(8)}}, {{format: 1, priv: r.Bytes(8)}}, {{format: 3, pub: r.Bytes(8)}}}[r.Intn(5)]
			rep.Count("rop:addkey:invalid")
		default:
			d := pair()
			d.sym = r.Bytes(16) // dropped by addKeyData
			ds = []x18Data{d}
			rep.Count("rop:addkey:extra-field")
		}
		desc := api.KeyDescription{ValidSince: since, ValidUntil: until}
		for _, d := range ds {
			desc.Data = append(desc.Data, api.KeyData{Format: api.KeyFormat(d.format), PublicKey: d.pub, PrivateKey: d.priv, SymmetricKey: d.sym})
			for _, sec := range [][]byte{d.priv, d.sym} {
				if len(sec) >= 16 {
					s.secrets = append(s.secrets, sec)
				}
			}
		}
		s.ops = append(s.ops, fmt.Sprintf("RAddKey %s %s %s %s", vh.H([]byte(path)), vh.H(x18UTC(since)), vh.H(x18UTC(until)), x18DataCoq(ds)))
		n, err := ring.AddKey(desc)
		return s.resVals(n, err)
	case k < 7:
		rep.Count("rop:setcurrent")
		s.ops = append(s.ops, fmt.Sprintf("RSetCurrent %s %s", vh.H([]byte(path)), x18Z(seq)))
		return s.resVals(seq, ring.SetCurrent(seq))
	case k < 9:
		rep.Count("rop:setstate")
		st := 1 + r.Intn(6)
		s.ops = append(s.ops, fmt.Sprintf("RSetState %s %s %s", vh.H([]byte(path)), x18Z(seq), x18Z(st)))
		return s.resVals(seq, ring.SetState(seq, api.KeyState(st)))
	default:
		rep.Count("rop:destroy")
		s.ops = append(s.ops, fmt.Sprintf("RDestroy %s %s", vh.H([]byte(path)), x18Z(seq)))
		return s.resVals(seq, ring.DestroyKey(seq))
	}
}

// history runs n generated operations under a tape; returns the per-op result values
func (s *x18Store) history(rep *vh.Report, r *vh.Rng, paths []string, n int) [][]byte {
	tape := vh.StartTape(r)
	defer vh.StopTape()
	var out [][]byte
	for i := 0; i < n; i++ {
		out = append(out, s.step(rep, r, paths, 1+i/2)...)
	}
	s.tape = append(s.tape, tape.Chunks...)
	return out
}

func (s *x18Store) coqHist() string {
	return fmt.Sprintf("%s %s [%s]", vh.H(s.enc), vh.HL(s.tape), strings.Join(s.ops, "; "))
}

// ---------- getters through api.KeyRing ----------

type x18Query struct {
	coq  string
	vals [][]byte
}

func x18ResB(b []byte, err error) [][]byte {
	if err != nil {
		return [][]byte{{1}, {}}
	}
	return [][]byte{{0}, b}
}

// x18View asks every getter of ring `path`; nil if the ring cannot be opened
func x18View(ks api.MutableKeyStore, path string) []x18Query {
	ring, err := ks.OpenKeyRing(path)
	if err != nil {
		return nil
	}
	var qs []x18Query
	cur, err := ring.CurrentKey()
	q := x18Query{coq: "QCurrent", vals: [][]byte{{0}, x18Z8(cur)}}
	if err != nil {
		q.vals = [][]byte{{1}, {}}
	}
	qs = append(qs, q)
	all, _ := ring.AllKeys()
	q = x18Query{coq: "QAll", vals: [][]byte{x18Z8(len(all))}}
	for _, s := range all {
		q.vals = append(q.vals, x18Z8(s))
	}
	qs = append(qs, q)
	seqs := append([]int{}, all...)
	seqs = append(seqs, 77)
	seen := map[int]bool{}
	for _, s := range seqs {
		if seen[s] {
			continue
		}
		seen[s] = true
		st, err := ring.State(s)
		if err != nil {
			qs = append(qs, x18Query{fmt.Sprintf("QState %s", x18Z(s)), [][]byte{{1}, {}}})
		} else {
			qs = append(qs, x18Query{fmt.Sprintf("QState %s", x18Z(s)), [][]byte{{0}, x18Z8(int(st))}})
		}
		t, err := ring.ValidSince(s)
		qs = append(qs, x18Query{fmt.Sprintf("QSince %s", x18Z(s)), x18ResB(x18UTC(t), err)})
		t, err = ring.ValidUntil(s)
		qs = append(qs, x18Query{fmt.Sprintf("QUntil %s", x18Z(s)), x18ResB(x18UTC(t), err)})
		fs, err := ring.Formats(s)
		if err != nil {
			qs = append(qs, x18Query{fmt.Sprintf("QFormats %s", x18Z(s)), [][]byte{{1}}})
		} else {
			v := [][]byte{{0}, x18Z8(len(fs))}
			for _, f := range fs {
				v = append(v, x18Z8(int(f)))
			}
			qs = append(qs, x18Query{fmt.Sprintf("QFormats %s", x18Z(s)), v})
		}
		for _, f := range []int{1, 3, 2} {
			b, err := ring.PublicKey(s, api.KeyFormat(f))
			qs = append(qs, x18Query{fmt.Sprintf("QPublic %s %s", x18Z(s), x18Z(f)), x18ResB(b, err)})
			b, err = ring.PrivateKey(s, api.KeyFormat(f))
			qs = append(qs, x18Query{fmt.Sprintf("QPrivate %s %s", x18Z(s), x18Z(f)), x18ResB(b, err)})
			b, err = ring.SymmetricKey(s, api.KeyFormat(f))
			qs = append(qs, x18Query{fmt.Sprintf("QSymmetric %s %s", x18Z(s), x18Z(f)), x18ResB(b, err)})
		}
	}
	return qs
}
func x18ViewCoq(qs []x18Query) (string, [][]byte) {
	var cs []string
	vals := [][]byte{{1}}
	for _, q := range qs {
		cs = append(cs, q.coq)
		vals = append(vals, q.vals...)
	}
	return "[" + strings.Join(cs, "; ") + "]", vals
}
func x18ViewString(qs []x18Query, publicOnly bool) string {
	var sb strings.Builder
	for _, q := range qs {
		if publicOnly && (strings.HasPrefix(q.coq, "QPrivate") || strings.HasPrefix(q.coq, "QSymmetric")) {
			continue
		}
		fmt.Fprintf(&sb, "%s=%x;", q.coq, q.vals)
	}
	return sb.String()
}

type x18Deleg struct{ d api.ImportDecision }

func (d x18Deleg) DecideKeyRingOverwrite(cur, nw *asn1.KeyRing) (api.ImportDecision, error) {
	if d.d == api.ImportAbort {
		return d.d, fsV2.ErrKeyRingExists
	}
	return d.d, nil
}

func x18Flip(r *vh.Rng, b []byte, i int) []byte {
	d := append([]byte{}, b...)
	d[i] ^= byte(1 << uint(r.Intn(8)))
	return d
}

// ---------- the domain ----------

func x18RunV2(rep *vh.Report, r *vh.Rng, n int, thorough bool) {
	time.Local = time.UTC
	for i := 0; i < n; i++ {
		x18Scenario(rep, r, thorough)
	}
}

func x18Scenario(rep *vh.Report, r *vh.Rng, thorough bool) {
	npaths := 2 + r.Intn(3)
	perm := append([]string{}, x18Paths...)
	for i := range perm {
		j := i + r.Intn(len(perm)-i)
		perm[i], perm[j] = perm[j], perm[i]
	}
	paths := perm[:npaths]
	src := x18NewStore(r)
	resVals := src.history(rep, r, paths, 4+r.Intn(9))
	hist := strings.Join(src.ops, "; ")
	var probes [][]byte
	var allPaths []string
	for p := range src.paths {
		allPaths = append(allPaths, p)
	}
	sort.Strings(allPaths)
	exp := append([][]byte{}, resVals...)
	for _, p := range allPaths {
		probes = append(probes, []byte(p))
		exp = append(exp, src.probe(p)...)
	}
	rep.Add("khist "+hist, fmt.Sprintf("KHist %s %s", src.coqHist(), vh.HL(probes)), vh.Ok(exp...))
	srcViews := map[string][]x18Query{}
	for _, p := range allPaths {
		v := x18View(src.ks, p)
		srcViews[p] = v
		qc, vals := x18ViewCoq(v)
		rep.Add("kview "+p, fmt.Sprintf("KView %s %s %s", src.coqHist(), vh.H([]byte(p)), qc), vh.Ok(vals...))
	}
	// at-rest confidentiality of the source itself (every Put)
	rep.OracleChecks++
	for _, put := range src.rec.puts {
		for _, sec := range src.secrets {
			if bytes.Contains(put.data, sec) {
				rep.Violate("secret-in-clear", "plaintext key material written to the source back end", hist)
			}
		}
	}

	// ---- export ----
	var sel []string
	for _, p := range allPaths {
		if r.Intn(4) != 0 {
			sel = append(sel, p)
		}
	}
	if r.Intn(10) == 0 {
		sel = append(sel, "no/such/ring")
		rep.Count("export:missing-ring")
	}
	for i := range sel {
		j := i + r.Intn(len(sel)-i)
		sel[i], sel[j] = sel[j], sel[i]
	}
	mode := []keystore.ExportMode{keystore.ExportPrivateKeys, keystore.ExportPrivateKeys, keystore.ExportPrivateKeys, keystore.ExportPublicOnly, keystore.ExportAllKeys, keystore.ExportPrivateKeys | keystore.ExportAllKeys}[r.Intn(6)]
	rep.Count(fmt.Sprintf("export:mode%d", int(mode)))
	private := mode&keystore.ExportPrivateKeys != 0
	accEnc, accSig := r.Bytes(32), r.Bytes(32)
	access, _ := cryptoV2.NewSCellSuite(accEnc, accSig)
	var selB [][]byte
	for _, p := range sel {
		selB = append(selB, []byte(p))
	}
	h := fmt.Sprintf("%s; Export(%q, mode=%d)", hist, sel, int(mode))
	etape := vh.StartTape(r)
	var bundle []byte
	o := vh.Guard(func() vh.Outcome {
		var err error
		bundle, err = src.ks.ExportKeyRings(sel, access, mode)
		if err != nil {
			return vh.ErrO(err)
		}
		return vh.Ok()
	})
	vh.StopTape()
	_ = etape
	exportOp := fmt.Sprintf("KExport %s %d %s", src.coqHist(), int(mode), vh.HL(selB))
	if o.Kind != "ok" {
		rep.Add("kexport "+h, exportOp, o)
		rep.OracleChecks++
		missing := false
		for _, p := range sel {
			if !src.paths[p] {
				missing = true
			}
		}
		if o.Kind == "panic" {
			rep.Violate("panic", "ExportKeyRings panicked: "+o.Msg, h)
		} else if !missing {
			rep.Violate("v2-export-fails", "export of existing rings failed: "+o.Msg, h)
		}
		return
	}
	// open the bundle with the access keys
	var ser []byte
	cont, err := asn1.UnmarshalVerifiedContainer(bundle)
	if err == nil {
		var encBytes []byte
		if _, err = encodingUnmarshalOctets(cont.Payload.Data.FullBytes, &encBytes); err == nil {
			var ok bool
			ser, ok = core.SealDec(accEnc, fsV2.VerifExportKeyContext(), encBytes)
			if !ok {
				err = fmt.Errorf("not a seal under the access key")
			}
		}
	}
	rep.OracleChecks++
	if err != nil {
		rep.Violate("v2-bundle-not-sealed", "bundle cannot be opened with its access keys: "+err.Error(), h)
		return
	}
	rep.Add("kexport "+h, exportOp, vh.Ok(x18Chunk(ser)...))
	// bundle confidentiality
	rep.OracleChecks++
	for _, sec := range src.secrets {
		if bytes.Contains(bundle, sec) {
			rep.Violate("secret-in-clear", "plaintext key material in the v2 bundle", h)
		}
	}
	keysDec, err := asn1.UnmarshalEncryptedKeys(ser)
	if err != nil {
		rep.Violate("v2-bundle-undecodable", err.Error(), h)
		return
	}
	rep.Add("kder", fmt.Sprintf("KDerRoundTrip %s", x18H(ser)), vh.Ok(append(x18Chunk(ser), x18Z8(len(keysDec.KeyRings)))...))
	inBundle := map[string]bool{}
	for _, kr := range keysDec.KeyRings {
		inBundle[string(kr.Purpose)] = true
	}
	rep.OracleChecks++
	if !private {
		for _, sec := range src.secrets {
			if bytes.Contains(ser, sec) {
				rep.Violate("v2-public-export-has-secret", "public-only export carries private/symmetric key material", h)
			}
		}
	}

	// ---- targets ----
	variants := []int{0, 1, 2, 3}
	for _, variant := range variants {
		dst := x18NewStore(r)
		deleg := api.ImportAbort
		dn := 0
		switch variant {
		case 0:
			rep.Count("target:empty")
		case 1:
			rep.Count("target:other-rings")
			var others []string
			for _, p := range x18Paths {
				if !inBundle[p] {
					others = append(others, p)
				}
			}
			if len(others) == 0 {
				continue
			}
			dst.history(rep, r, others[:1+r.Intn(len(others))], 2+r.Intn(5))
		case 2, 3:
			tp := append([]string{}, paths...)
			dst.history(rep, r, tp, 3+r.Intn(6))
			if variant == 2 {
				rep.Count("target:same-rings-overwrite")
				deleg, dn = api.ImportOverwrite, 1
			} else if r.Bool() {
				rep.Count("target:same-rings-skip")
				deleg, dn = api.ImportSkip, 2
			} else {
				rep.Count("target:same-rings-default")
			}
		}
		ht := h + fmt.Sprintf("; target[%s] deleg=%d", strings.Join(dst.ops, "; "), dn)
		before := map[string][]byte{}
		beforeViews := map[string]string{}
		tpaths := map[string]bool{}
		for p := range dst.paths {
			tpaths[p] = true
		}
		for p := range src.paths {
			tpaths[p] = true
		}
		var tprobe []string
		for p := range tpaths {
			tprobe = append(tprobe, p)
		}
		sort.Strings(tprobe)
		for _, p := range tprobe {
			d, _ := dst.rec.Get(p + fsV2.VerifKeyringSuffix())
			before[p] = d
			beforeViews[p] = x18ViewString(x18View(dst.ks, p), false)
		}
		// rejected imports: modified bundle, wrong access keys; the target must not change
		snap := dst.snapshot()
		step := 23
		if thorough {
			step = 3
		}
		reject := func(what string, data []byte, suite *cryptoV2.KeyStoreSuite) {
			var err error
			oo := vh.Guard(func() vh.Outcome { _, err = dst.ks.ImportKeyRings(data, suite, x18Deleg{api.ImportOverwrite}); return vh.Ok() })
			rep.OracleChecks++
			rep.Count("reject-try")
			if oo.Kind == "panic" {
				rep.Violate("panic", "ImportKeyRings panicked: "+oo.Msg, ht+"; "+what)
			} else if err == nil {
				rep.Violate("v2-modified-bundle-accepted", what+" was imported", ht)
			}
			if s2 := dst.snapshot(); s2 != snap {
				rep.Violate("v2-rejected-import-changed-target", what+": target changed by a rejected import", ht)
				snap = s2
			}
		}
		if variant == 0 || variant == 2 {
			for i := r.Intn(step); i < len(bundle); i += step {
				reject(fmt.Sprintf("bundle with byte %d modified", i), x18Flip(r, bundle, i), access)
			}
			for which := 0; which < 2; which++ {
				e2, s2 := accEnc, accSig
				if which == 0 {
					e2 = x18Flip(r, accEnc, r.Intn(32))
				} else {
					s2 = x18Flip(r, accSig, r.Intn(32))
				}
				bad, _ := cryptoV2.NewSCellSuite(e2, s2)
				reject(fmt.Sprintf("access key %d modified", which), bundle, bad)
			}
		}
		// the honest import
		nput := len(dst.rec.puts)
		itape := vh.StartTape(r)
		var ierr error
		oo := vh.Guard(func() vh.Outcome {
			if deleg == api.ImportAbort {
				// nil = acra's own defaultImportDelegate
				_, ierr = dst.ks.ImportKeyRings(bundle, access, nil)
			} else {
				_, ierr = dst.ks.ImportKeyRings(bundle, access, x18Deleg{deleg})
			}
			return vh.Ok()
		})
		vh.StopTape()
		if oo.Kind == "panic" {
			rep.Violate("panic", "ImportKeyRings panicked: "+oo.Msg, ht)
			continue
		}
		flag := byte(0)
		if ierr != nil {
			flag = 1
		}
		puts := dst.rec.puts[nput:]
		ivals := [][]byte{{flag}, x18Z8(len(puts))}
		for _, put := range puts {
			ring, err := x18DecodeRingFile(put.data)
			if err != nil {
				rep.Violate("v2-import-wrote-garbage", "a file put by import does not decode", ht)
				continue
			}
			name := strings.TrimSuffix(put.path, fsV2.VerifKeyringSuffix()+".new")
			ivals = append(ivals, []byte(name))
			ivals = append(ivals, x18RingVals(ring)...)
			rep.OracleChecks++
			for _, sec := range src.secrets {
				if bytes.Contains(put.data, sec) {
					rep.Violate("secret-in-clear", "import wrote plaintext key material to the target back end ("+put.path+")", ht)
				}
			}
		}
		var tprobeB [][]byte
		for _, p := range tprobe {
			tprobeB = append(tprobeB, []byte(p))
			ivals = append(ivals, dst.probe(p)...)
		}
		rep.Add("kimport "+ht, fmt.Sprintf("KImport %s %d %s %s %s", dst.coqHist(), dn, vh.HL(itape.Chunks), x18H(ser), vh.HL(tprobeB)), vh.Ok(ivals...))

		// ---- the property's oracle on the implementation ----
		conflict := false
		for p := range inBundle {
			if dst.paths[p] {
				conflict = true
			}
		}
		rep.OracleChecks++
		if ierr != nil && !(conflict && deleg == api.ImportAbort) {
			rep.Violate("v2-import-fails", fmt.Sprintf("import of an untouched bundle failed: %v", ierr), ht)
		}
		if ierr == nil && conflict && deleg == api.ImportAbort {
			rep.Violate("v2-import-overwrote-silently", "default delegate: an existing ring was replaced without error", ht)
		}
		for _, p := range tprobe {
			after, _ := dst.rec.Get(p + fsV2.VerifKeyringSuffix())
			imported := inBundle[p] && ierr == nil && !(dst.paths[p] && deleg == api.ImportSkip)
			rep.OracleChecks++
			switch {
			case imported:
				got := x18View(dst.ks, p)
				gs, ws := x18ViewString(got, !private), x18ViewString(srcViews[p], !private)
				if gs != ws {
					rep.Violate("v2-import-differs", fmt.Sprintf("ring %q reads differently after export/import: source %s target %s", p, ws, gs), ht)
				}
				if !private {
					for _, q := range got {
						if (strings.HasPrefix(q.coq, "QPrivate") || strings.HasPrefix(q.coq, "QSymmetric")) && q.vals[0][0] == 0 {
							rep.Violate("v2-public-export-has-secret", "a private getter succeeds after a public-only import", ht)
						}
					}
				}
				qc, vals := x18ViewCoq(got)
				rep.Add("kimportview "+p, fmt.Sprintf("KImportView %s %d %s %s %s %s", dst.coqHist(), dn, vh.HL(itape.Chunks), x18H(ser), vh.H([]byte(p)), qc), vh.Ok(vals...))
			case !inBundle[p] || (dst.paths[p] && deleg == api.ImportSkip):
				if !bytes.Equal(after, before[p]) {
					rep.Violate("v2-import-clobbers-unrelated", fmt.Sprintf("ring %q is not in the bundle (or was to be skipped) but its file changed", p), ht)
				}
				if x18ViewString(x18View(dst.ks, p), false) != beforeViews[p] {
					rep.Violate("v2-import-clobbers-unrelated", fmt.Sprintf("ring %q reads differently after an import that does not contain it", p), ht)
				}
			}
		}
	}
}
