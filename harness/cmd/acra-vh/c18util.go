package main

import encodingASN1 "encoding/asn1"

// encodingUnmarshalOctets decodes a DER OCTET STRING.
func encodingUnmarshalOctets(der []byte, out *[]byte) ([]byte, error) {
	return encodingASN1.Unmarshal(der, out)
}
