package main

// Domain c09: equality search over searchable (blind-index) columns.
//
// Real code under test: hmac.SearchableDataEncryptor.EncryptWithClientID (insert path, chained over the
// RegistryHandler exactly like decryptor/postgresql/proxy.go does), hmac/decryptor/postgresql HashQuery.OnQuery /
// OnBind (query rewrite, pg_query parse tree), the MySQL twin, hmac.NewHashProcessor, and the translator's
// DecryptSearchable / DecryptSymSearchable.
//
// Oracle (independent of the Coq model): the rows selected by evaluating the REWRITTEN condition on the STORED
// values equal the rows selected by evaluating the ORIGINAL condition on the PLAINTEXT values.

import (
	"bytes"
	"context"
	"encoding/hex"
	"fmt"
	"net"
	"regexp"
	"strings"

	"acra-vh/vh"

	pg_query "github.com/cossacklabs/pg_query_go/v5"

	"github.com/cossacklabs/acra/cmd/acra-translator/common"
	"github.com/cossacklabs/acra/crypto"
	"github.com/cossacklabs/acra/decryptor/base"
	pgproxy "github.com/cossacklabs/acra/decryptor/postgresql"
	"github.com/cossacklabs/acra/encryptor/base/config"
	myenc "github.com/cossacklabs/acra/encryptor/mysql"
	"github.com/cossacklabs/acra/encryptor/postgresql"
	"github.com/cossacklabs/acra/hmac"
	myhash "github.com/cossacklabs/acra/hmac/decryptor/mysql"
	pghash "github.com/cossacklabs/acra/hmac/decryptor/postgresql"
	"github.com/cossacklabs/acra/sqlparser"
)

func init() { register("c09", "Model.RunSearch", runC09) }

// ---------- a plain in-memory base.ClientSession ----------

type memSession struct{ data map[string]interface{} }

func newMemSession() *memSession                           { return &memSession{data: map[string]interface{}{}} }
func (s *memSession) Context() context.Context             { return context.Background() }
func (s *memSession) ClientConnection() net.Conn           { return nil }
func (s *memSession) DatabaseConnection() net.Conn         { return nil }
func (s *memSession) ProtocolState() interface{}           { return nil }
func (s *memSession) SetProtocolState(state interface{})   {}
func (s *memSession) GetData(k string) (interface{}, bool) { v, ok := s.data[k]; return v, ok }
func (s *memSession) SetData(k string, v interface{})      { s.data[k] = v }
func (s *memSession) DeleteData(k string)                  { delete(s.data, k) }
func (s *memSession) HasData(k string) bool                { _, ok := s.data[k]; return ok }

const otherID = "other"

func sessionCtx(id string) context.Context {
	ctx := base.SetAccessContextToContext(context.Background(), base.NewAccessContext(base.WithClientID([]byte(id))))
	return base.SetClientSessionToContext(ctx, newMemSession())
}

// ---------- scenario pieces ----------

type c09Row struct {
	plain  []byte // plaintext of data1
	stored []byte // what the insert path produced for data1
	tag    []byte // value of the unprotected column "plain"
	d2     []byte // stored value of the encrypted, non-searchable column data2
	d2p    []byte
}

// source condition tree
type c09Cond struct {
	kind     string // cmp | and | or
	neg      bool
	col      int // 0 = data1 (searchable), 1 = plain (unprotected), 2 = data2 (encrypted, not searchable)
	isParam  bool
	param    int
	lit      []byte
	cast     bool
	reversed bool
	a, b     *c09Cond
}

var c09Cols = []string{"data1", "plain", "data2"}

func printable(b []byte) bool {
	for _, c := range b {
		if c < 0x20 || c > 0x7e || c == '\'' || c == '\\' {
			return false
		}
	}
	return true
}

func sqlLiteral(r *vh.Rng, v []byte, mustPlain bool) string {
	if printable(v) && (mustPlain || r.Bool()) {
		return "'" + string(v) + "'"
	}
	return `'\x` + hex.EncodeToString(v) + "'"
}

func (c *c09Cond) sql(r *vh.Rng, strTyped bool) string {
	switch c.kind {
	case "and":
		return "(" + c.a.sql(r, strTyped) + " AND " + c.b.sql(r, strTyped) + ")"
	case "or":
		return "(" + c.a.sql(r, strTyped) + " OR " + c.b.sql(r, strTyped) + ")"
	}
	var operand string
	if c.isParam {
		operand = fmt.Sprintf("$%d", c.param+1)
	} else {
		operand = sqlLiteral(r, c.lit, strTyped || c.col == 1)
		if c.cast {
			if strTyped || c.col == 1 {
				operand += "::text"
			} else {
				operand += "::bytea"
			}
		}
	}
	op := "="
	if c.neg {
		op = "<>"
	}
	if c.reversed {
		return operand + " " + op + " " + c09Cols[c.col]
	}
	return c09Cols[c.col] + " " + op + " " + operand
}

func (c *c09Cond) coq() string {
	switch c.kind {
	case "and":
		return "(SAnd " + c.a.coq() + " " + c.b.coq() + ")"
	case "or":
		return "(SOr " + c.a.coq() + " " + c.b.coq() + ")"
	}
	o := "(OLit " + vh.H(c.lit) + ")"
	if c.isParam {
		o = fmt.Sprintf("(OParam %d)", c.param)
	}
	ctor := "SCmp"
	if c.reversed {
		ctor = "SRev"
	}
	return fmt.Sprintf("(%s %v %d %s)", ctor, c.neg, c.col, o)
}

func (c *c09Cond) hasReversedSearchable() bool {
	switch c.kind {
	case "and", "or":
		return c.a.hasReversedSearchable() || c.b.hasReversedSearchable()
	}
	return c.reversed && c.col == 0
}

func (c *c09Cond) paramUses(m map[int]int) {
	switch c.kind {
	case "and", "or":
		c.a.paramUses(m)
		c.b.paramUses(m)
		return
	}
	if c.isParam && c.col == 0 {
		m[c.param]++
	}
}

func flags(bs []bool) []byte {
	out := make([]byte, len(bs))
	for i, b := range bs {
		if b {
			out[i] = 1
		}
	}
	return out
}

func coqRows(rows []c09Row) string {
	parts := make([]string, len(rows))
	for i, rw := range rows {
		parts[i] = vh.HL([][]byte{rw.stored, rw.tag, rw.d2})
	}
	return "[" + strings.Join(parts, "; ") + "]"
}

func hmacKeyOf(ks *vh.KeySet) []byte {
	if ks == nil {
		return nil
	}
	return ks.Hmac
}

func runC09(rep *vh.Report, r *vh.Rng, n int, thorough bool) {
	e := &EnvOps{rep, r}
	for sc := 0; sc < n; sc++ {
		c09Scenario(rep, r, e, sc, thorough)
	}
	c09MySQL(rep, r, n, thorough)
	c09xMySQL(rep, r, n, thorough)
}

func c09Schema(env, dtype, owner string) (config.TableSchemaStore, string) {
	extra := ""
	if dtype != "" {
		extra += "\n        data_type: " + dtype
	}
	if owner != "" {
		extra += "\n        client_id: " + owner
	}
	y := `schemas:
  - table: t
    columns:
      - id
      - data1
      - plain
      - data2
    encrypted:
      - column: data1
        searchable: true
        crypto_envelope: ` + env + extra + `
      - column: data2
        crypto_envelope: acrablock
  - table: u
    columns:
      - id
      - s2
    encrypted:
      - column: s2
        searchable: true
        crypto_envelope: ` + env + `
`
	st, err := config.MapTableSchemaStoreFromConfig([]byte(y), config.UsePostgreSQL)
	if err != nil {
		panic(fmt.Sprintf("schema: %v\n%s", err, y))
	}
	return st, y
}

var c09Alphabet = []byte("abcdefghijklmnopqrstuvwxyzABCDEFGHIJKLMNOPQRSTUVWXYZ0123456789 _-.,:;@#%()[]{}*+/=")

func c09Value(r *vh.Rng, binaryOK bool) []byte {
	n := r.Pick(1, 2, 3, 5, 8, 16, 31, 32, 33, 34, 55, 56, 63, 64, 65, 100)
	if binaryOK && r.Intn(3) == 0 {
		return r.Bytes(n)
	}
	b := make([]byte, n)
	for i := range b {
		b[i] = c09Alphabet[r.Intn(len(c09Alphabet))]
	}
	return b
}

func c09Scenario(rep *vh.Report, r *vh.Rng, e *EnvOps, sc int, thorough bool) {
	env, id := "acrablock", byte(crypto.AcraBlockEnvelopeID)
	if r.Bool() {
		env, id = "acrastruct", crypto.AcraStructEnvelopeID
	}
	dtype := []string{"", "bytes", "str"}[r.Intn(3)]
	strTyped := dtype == "str"
	rep.Count("cfg:" + env + "/" + dtype)
	owner := ""
	if r.Intn(4) == 0 {
		owner = clientID
		rep.Count("cfg:column-client-id")
	}
	schema, yml := c09Schema(env, dtype, owner)
	ks := vh.NewKeySet(r, 1+r.Intn(2), 1+r.Intn(2), true)
	ks2 := vh.NewKeySet(r, 1, 1, true)
	store := storeFor(ks)
	store.Clients[otherID] = ks2
	rh := crypto.NewRegistryHandler(store)
	senc, err := hmac.NewSearchableEncryptor(store, rh, rh)
	if err != nil {
		panic(err)
	}
	setting := schema.GetTableSchema("t").GetColumnEncryptionSettings("data1")
	setting2 := schema.GetTableSchema("t").GetColumnEncryptionSettings("data2")

	// value pool with the relations the property names: equal, prefix, extension, unrelated
	base1 := c09Value(r, !strTyped)
	pool := [][]byte{base1, c09Value(r, !strTyped), c09Value(r, !strTyped)}
	if len(base1) > 1 {
		pool = append(pool, base1[:1+r.Intn(len(base1)-1)])
	}
	pool = append(pool, append(append([]byte{}, base1...), c09Value(r, !strTyped)[:1]...))
	if strTyped {
		for i := range pool {
			if !printable(pool[i]) {
				pool[i] = []byte("v")
			}
		}
	}

	// ---- insert path ----
	nrows := 1 + r.Intn(6)
	var rows []c09Row
	for i := 0; i < nrows; i++ {
		p := pool[r.Intn(len(pool))]
		in := p
		how := "plain"
		if r.Intn(4) == 0 { // application-side envelope: decrypt-then-hash branch
			t := vh.StartTape(r)
			envd, err := rh.EncryptWithClientID([]byte(clientID), append([]byte{}, p...), setting)
			vh.StopTape()
			_ = t
			if err == nil {
				in, how = envd, "envelope"
			}
		}
		rep.Count("insert:" + how)
		lab := fmt.Sprintf("sc%d insert row%d %s len=%d", sc, i, how, len(p))
		o, tape := e.withTape(func() vh.Outcome {
			return one(senc.EncryptWithClientID([]byte(clientID), append([]byte{}, in...), setting))
		})
		rep.Add(lab, fmt.Sprintf("SearchEnc %s %s %s %s", vh.H([]byte{id}), ks.Coq(), vh.HL(tape), vh.H(in)), o)
		if o.Kind != "ok" {
			rep.Violate("insert-failed", "searchable insert of a non-empty value failed: "+o.String(), lab+" value="+hx(in)+"\n"+yml)
			continue
		}
		st := o.Vals[0]
		// oracle: first 33 bytes = function id + HMAC-SHA256(owner key, plaintext), computed with Go's own crypto/hmac
		rep.OracleChecks++
		want := hmac.GenerateHMAC(append([]byte{}, ks.Hmac...), p)
		if len(st) < len(want) || !bytes.Equal(st[:len(want)], want) {
			rep.Violate("index-not-owner-hmac", "stored prefix is not HMAC(owner key, plaintext)", lab+" value="+hx(p)+" stored="+hx(st))
		}
		d2p := c09Value(r, true)
		d2, err := rh.EncryptWithClientID([]byte(clientID), append([]byte{}, d2p...), setting2)
		if err != nil {
			panic(err)
		}
		tag := []byte("x")
		if r.Bool() {
			tag = []byte("y")
		}
		rows = append(rows, c09Row{plain: p, stored: st, tag: tag, d2: d2, d2p: d2p})
	}
	if len(rows) == 0 {
		return
	}
	// oracle: determinism / distinctness of the index over the stored multiset
	for i := range rows {
		for j := i + 1; j < len(rows); j++ {
			rep.OracleChecks++
			same := bytes.Equal(rows[i].stored[:33], rows[j].stored[:33])
			if same != bytes.Equal(rows[i].plain, rows[j].plain) {
				rep.Violate("index-equality", "index equality differs from plaintext equality", fmt.Sprintf("sc%d rows %d,%d %s %s", sc, i, j, hx(rows[i].plain), hx(rows[j].plain)))
			}
		}
	}

	// ---- queries ----
	nq := 3
	if thorough {
		nq = 6
	}
	for q := 0; q < nq; q++ {
		c09Query(rep, r, e, sc, q, schema, yml, ks, ks2, store, rh, setting, id, rows, pool, strTyped)
	}

	// ---- re-verification on decrypt ----
	c09Reverify(rep, r, e, sc, ks, store, rh, id, rows)

	// ---- extension: condition trees (NOT / parentheses / casts / operand order), hmac.Processor as subscribed by the proxies ----
	nx := 2
	if thorough {
		nx = 5
	}
	for q := 0; q < nx; q++ {
		c09xQueryPG(rep, r, sc, q, schema, yml, ks, store, rh, setting, rows, pool, strTyped)
	}
	c09xHmacCols(rep, r, sc, ks, store, rh, senc, setting, setting2, rows)
}

// searched value classes
func c09Searched(r *vh.Rng, rows []c09Row, pool [][]byte, strTyped bool) ([]byte, string) {
	switch r.Intn(7) {
	case 0, 1:
		return rows[r.Intn(len(rows))].plain, "present"
	case 2:
		return pool[r.Intn(len(pool))], "pool"
	case 3:
		p := rows[r.Intn(len(rows))].plain
		if len(p) > 1 {
			return p[:len(p)-1], "prefix-of-stored"
		}
		return []byte{}, "empty"
	case 4:
		p := rows[r.Intn(len(rows))].plain
		return append(append([]byte{}, p...), 'z'), "extension-of-stored"
	case 5:
		return []byte{}, "empty"
	}
	return c09Value(r, !strTyped), "absent"
}

func c09Query(rep *vh.Report, r *vh.Rng, e *EnvOps, sc, q int, schema config.TableSchemaStore, yml string,
	ks, ks2 *vh.KeySet, store *vh.MemKeystore, rh crypto.RegistryHandler, setting config.ColumnEncryptionSetting,
	id byte, rows []c09Row, pool [][]byte, strTyped bool) {

	var binds [][]byte // raw searched values of the placeholders
	var bindCol []int  // the column each placeholder is compared with
	mkCmp := func(col int) *c09Cond {
		c := &c09Cond{kind: "cmp", col: col, neg: r.Intn(4) == 0}
		var v []byte
		var class string
		switch col {
		case 0:
			v, class = c09Searched(r, rows, pool, strTyped)
			if class != "empty" && r.Intn(6) == 0 { // the searched value is itself an envelope
				t := vh.StartTape(r)
				envd, err := rh.EncryptWithClientID([]byte(clientID), append([]byte{}, v...), setting)
				vh.StopTape()
				_ = t
				if err == nil {
					v, class = envd, class+"-as-envelope"
				}
			}
		case 1:
			v, class = []byte([]string{"x", "y", "q"}[r.Intn(3)]), "tag"
		case 2:
			v, class = rows[r.Intn(len(rows))].d2p, "nonsearchable"
			if strTyped && !printable(v) {
				v = []byte("k")
			}
		}
		rep.Count(fmt.Sprintf("searched:%s", class))
		form := r.Intn(8)
		if (strTyped || col == 1) && !printable(v) {
			form = 7 // only a bound parameter can carry these bytes into a text-typed comparison
		}
		switch {
		case form < 3 || col != 0 && form < 6:
			c.lit = v
			rep.Count("form:literal")
		case form == 3:
			c.lit, c.cast = v, true
			rep.Count("form:cast")
		case form == 4 && col == 0:
			c.lit, c.reversed = v, true
			rep.Count("form:literal-on-left")
		default:
			c.isParam = true
			reuse := -1
			for i := range binds {
				if bindCol[i] == 0 && col == 0 && r.Intn(3) == 0 {
					reuse = i
				}
			}
			if reuse >= 0 {
				c.param = reuse // the same placeholder in two protected comparisons
				rep.Count("form:placeholder-reused")
			} else {
				bindCol = append(bindCol, col)
				c.param = len(binds)
				binds = append(binds, v)
				rep.Count("form:placeholder")
			}
		}
		return c
	}
	var cond *c09Cond
	switch r.Intn(7) {
	case 6: // one placeholder carrying a stored value, used in two protected comparisons
		binds, bindCol = [][]byte{rows[r.Intn(len(rows))].plain}, []int{0}
		cond = &c09Cond{kind: "or", a: &c09Cond{kind: "cmp", isParam: true, neg: r.Intn(4) == 0}, b: &c09Cond{kind: "cmp", isParam: true}}
		rep.Count("shape:same-placeholder-twice")
	case 0, 1, 2:
		cond = mkCmp(0)
		rep.Count("shape:single")
	case 3:
		cond = &c09Cond{kind: "and", a: mkCmp(0), b: mkCmp(1)}
		rep.Count("shape:and-plain")
	case 4:
		cond = &c09Cond{kind: "or", a: mkCmp(0), b: mkCmp(r.Pick(0, 1))}
		rep.Count("shape:or")
	default:
		cond = &c09Cond{kind: "and", a: &c09Cond{kind: "or", a: mkCmp(1), b: mkCmp(0)}, b: mkCmp(r.Pick(0, 2))}
		rep.Count("shape:nested")
	}
	// placeholders bound to a non-searchable column inside the same statement make bind data ambiguous; keep binds for data1 only
	session, sessKs := clientID, ks
	if r.Intn(10) == 0 {
		session, sessKs = otherID, ks2
		rep.Count("session:other-client")
	}
	sql := "SELECT id FROM t WHERE " + cond.sql(r, strTyped)
	binFormat := r.Bool()
	lab := fmt.Sprintf("sc%d q%d session=%s %s binds=%d", sc, q, session, sql, len(binds))
	if len(lab) > 300 {
		lab = lab[:300] + "…"
	}

	hq := pghash.NewHashQuery(store, schema, rh)
	ctx := sessionCtx(session)
	var newBinds [][]byte
	var rewritten string
	o := vh.Guard(func() vh.Outcome {
		obj, _, err := hq.OnQuery(ctx, postgresql.NewOnQueryObjectFromQuery(sql))
		if err != nil {
			return vh.ErrO(err)
		}
		stmt, err := obj.Statement()
		if err != nil {
			return vh.ErrO(err)
		}
		rewritten, err = pg_query.Deparse(stmt)
		if err != nil {
			return vh.ErrO(err)
		}
		if len(binds) > 0 {
			vals := make([]base.BoundValue, len(binds))
			for i, b := range binds {
				if binFormat {
					vals[i] = pgproxy.NewPgBoundValue(b, base.BinaryFormat)
				} else {
					vals[i] = pgproxy.NewPgBoundValue(c09TextParam(r, b), base.TextFormat)
				}
			}
			nv, _, err := hq.OnBind(ctx, stmt, vals)
			if err != nil {
				return vh.ErrO(err)
			}
			for _, v := range nv {
				d, err := v.GetData(nil)
				if err != nil {
					return vh.ErrO(err)
				}
				if !binFormat { // text parameters reach the database in bytea input syntax
					dd, err := vh.PgDecodeLiteral(d)
					if err != nil {
						return vh.ErrO(err)
					}
					d = dd
				}
				newBinds = append(newBinds, d)
			}
		}
		return vh.Ok()
	})
	opTerm := fmt.Sprintf("Query %s %s %s %s", sessKs.Coq(), coqRows(rows), cond.coq(), vh.HL(binds))
	if o.Kind != "ok" {
		rep.Add(lab, opTerm, o)
		// a searched envelope that the session cannot decrypt legitimately fails; anything else must not
		rep.OracleChecks++
		if !(session == otherID && c09HasEnvelope(cond, binds, rh)) {
			rep.Violate("rewrite-failed", "query rewrite failed: "+o.String(), lab+"\n"+yml)
		}
		return
	}
	// the database: evaluate the rewritten text literally on the stored rows
	got := make([]bool, len(rows))
	res, err := pg_query.Parse(rewritten)
	if err != nil {
		rep.Violate("rewritten-unparsable", err.Error(), lab+"\nrewritten: "+rewritten)
		return
	}
	where, _, err := vh.PgWhere(res)
	orig, _ := pg_query.Parse(sql)
	owhere, _, _ := vh.PgWhere(orig)
	_ = owhere
	for i, rw := range rows {
		if err == nil {
			got[i], err = vh.PgEvalCond(where, vh.PgRow{"data1": rw.stored, "plain": rw.tag, "data2": rw.d2}, newBinds)
		}
	}
	if err != nil {
		rep.Violate("outside-evaluator", "rewritten condition has a shape the evaluator does not know: "+err.Error(), lab+"\nrewritten: "+rewritten)
		return
	}
	rep.Add(lab, opTerm, vh.Ok(flags(got)))
	// searched envelopes stand for their plaintext in the reference result
	want := c09Reference(cond, rows, binds, rh, store, sessKs == ks)
	rep.OracleChecks++
	if !bytes.Equal(flags(got), flags(want)) {
		class := "result-set"
		uses := map[int]int{}
		cond.paramUses(uses)
		for _, k := range uses {
			if k > 1 {
				class = "placeholder-reused"
			}
		}
		if cond.hasReversedSearchable() {
			class = "literal-on-left"
		}
		rep.Violate(class, fmt.Sprintf("rows selected through acra %v, rows whose plaintext satisfies the condition %v", flags(got), flags(want)),
			lab+"\nrewritten: "+rewritten+"\nplaintexts: "+c09Plains(rows)+"\n"+yml)
	}
	// comparisons on the non-searchable encrypted column and the unprotected column are left alone
	rep.OracleChecks++
	if msg := c09Untouched(owhere, where); msg != "" {
		rep.Violate("untouched-comparison-changed", msg, lab+"\nrewritten: "+rewritten)
	}
}

func c09Plains(rows []c09Row) string {
	var s []string
	for _, rw := range rows {
		s = append(s, hx(rw.plain))
	}
	return strings.Join(s, ",")
}

// a searched value that is an envelope (decrypt-then-hash branch) on the searchable column
func c09HasEnvelope(c *c09Cond, binds [][]byte, rh crypto.RegistryHandler) bool {
	switch c.kind {
	case "and", "or":
		return c09HasEnvelope(c.a, binds, rh) || c09HasEnvelope(c.b, binds, rh)
	}
	v := c.lit
	if c.isParam {
		v = binds[c.param]
	}
	return c.col == 0 && !c.reversed && rh.MatchDataSignature(v)
}

// plaintext a searched value stands for (an envelope of the owner stands for its content)
func c09Meaning(v []byte, rh crypto.RegistryHandler, store *vh.MemKeystore) []byte {
	if rh.MatchDataSignature(v) {
		d, err := rh.Process(append([]byte{}, v...), &base.DataProcessorContext{Keystore: store, Context: clientCtx()})
		if err == nil {
			return d
		}
	}
	return v
}

// c09Reference evaluates the source condition on the plaintext table. owner=false (a different client's session)
// means no protected comparison can be true for "=" (the other client owns nothing here).
func c09Reference(c *c09Cond, rows []c09Row, binds [][]byte, rh crypto.RegistryHandler, store *vh.MemKeystore, owner bool) []bool {
	out := make([]bool, len(rows))
	for i, rw := range rows {
		out[i] = c09RefRow(c, rw, binds, rh, store, owner)
	}
	return out
}

func c09RefRow(c *c09Cond, rw c09Row, binds [][]byte, rh crypto.RegistryHandler, store *vh.MemKeystore, owner bool) bool {
	switch c.kind {
	case "and":
		return c09RefRow(c.a, rw, binds, rh, store, owner) && c09RefRow(c.b, rw, binds, rh, store, owner)
	case "or":
		return c09RefRow(c.a, rw, binds, rh, store, owner) || c09RefRow(c.b, rw, binds, rh, store, owner)
	}
	v := c.lit
	if c.isParam {
		v = binds[c.param]
	}
	var eq bool
	switch c.col {
	case 0:
		eq = owner && bytes.Equal(rw.plain, c09Meaning(v, rh, store))
	case 1:
		eq = bytes.Equal(rw.tag, v)
	case 2:
		eq = bytes.Equal(rw.d2, v) // not searchable: the database compares the stored bytes
	}
	return eq != c.neg
}

// c09Untouched: every comparison whose left side is not the searchable column keeps operator and operand.
func c09Untouched(orig, rewritten *pg_query.Node) string {
	var collect func(n *pg_query.Node, out *[]string)
	collect = func(n *pg_query.Node, out *[]string) {
		if n == nil {
			return
		}
		if be := n.GetBoolExpr(); be != nil {
			for _, a := range be.GetArgs() {
				collect(a, out)
			}
			return
		}
		if e := n.GetAExpr(); e != nil {
			col := ""
			if cr := e.GetLexpr().GetColumnRef(); cr != nil {
				col = cr.GetFields()[len(cr.GetFields())-1].GetString_().GetSval()
			}
			if col == "plain" || col == "data2" {
				r := e.GetRexpr()
				if tc := r.GetTypeCast(); tc != nil {
					r = tc.GetArg()
				}
				*out = append(*out, fmt.Sprintf("%s %s %q $%d", col, e.GetName()[0].GetString_().GetSval(), r.GetAConst().GetSval().GetSval(), r.GetParamRef().GetNumber()))
			}
		}
	}
	var a, b []string
	collect(orig, &a)
	collect(rewritten, &b)
	if strings.Join(a, "|") != strings.Join(b, "|") {
		return "comparison on a non-searchable column was changed: " + strings.Join(a, "|") + " => " + strings.Join(b, "|")
	}
	return ""
}

func c09TextParam(r *vh.Rng, v []byte) []byte {
	if printable(v) && r.Bool() {
		return v
	}
	return []byte(`\x` + hex.EncodeToString(v))
}

// ---------- re-verification of the index on decrypt ----------

func c09Reverify(rep *vh.Report, r *vh.Rng, e *EnvOps, sc int, ks *vh.KeySet, store *vh.MemKeystore, rh crypto.RegistryHandler, id byte, rows []c09Row) {
	svc, err := common.NewTranslatorService(&common.TranslatorData{Keystorage: store})
	if err != nil {
		panic(err)
	}
	for k := 0; k < 2; k++ {
		i := r.Intn(len(rows))
		rw := rows[i]
		idx, cont := rw.stored[:33], rw.stored[33:]
		type variant struct {
			name      string
			idx, cont []byte
			honest    bool
		}
		vs := []variant{{"honest", idx, cont, true}}
		other := rows[r.Intn(len(rows))]
		foreign := hmac.GenerateHMAC(append([]byte{}, ks.Hmac...), append(append([]byte{}, rw.plain...), '!'))
		flip := append([]byte{}, idx...)
		flip[1+r.Intn(32)] ^= byte(1 << uint(r.Intn(8)))
		nofunc := append([]byte{}, idx...)
		nofunc[0] = byte(r.Intn(0x7f))
		vs = append(vs,
			variant{"index-of-other-value", foreign, cont, false},
			variant{"bit-flip-in-index", flip, cont, false},
			variant{"container-of-other-row", idx, other.stored[33:], bytes.Equal(other.plain, rw.plain)},
			variant{"unknown-function-id", nofunc, cont, false})
		v := vs[r.Intn(len(vs))]
		if k == 0 {
			v = vs[0]
		}
		rep.Count("reverify:" + v.name)
		data := append(append([]byte{}, v.idx...), v.cont...)
		lab := fmt.Sprintf("sc%d reverify row%d %s", sc, i, v.name)
		// column hash processor
		o := vh.Guard(func() vh.Outcome {
			return one(hmac.NewHashProcessor(rh, store).Process(append([]byte{}, data...), &base.DataProcessorContext{Keystore: store, Context: clientCtx()}))
		})
		rep.Add(lab+" NewHashProcessor", fmt.Sprintf("HashProc %s %s", ks.Coq(), vh.H(data)), o)
		rep.OracleChecks++
		if v.honest != (o.Kind == "ok") || o.Kind == "ok" && !bytes.Equal(o.Vals[0], rw.plain) {
			rep.Violate("reverify-hash-processor", "hash processor outcome "+o.String()+" for a "+v.name+" value", lab+" data="+hx(data)+" plaintext="+hx(rw.plain))
		}
		// translator
		o2 := vh.Guard(func() vh.Outcome {
			if id == crypto.AcraStructEnvelopeID {
				return one(svc.DecryptSearchable(context.Background(), append([]byte{}, v.cont...), append([]byte{}, v.idx...), []byte(clientID), nil))
			}
			return one(svc.DecryptSymSearchable(context.Background(), append([]byte{}, v.cont...), append([]byte{}, v.idx...), []byte(clientID), nil))
		})
		rep.Add(lab+" translator", fmt.Sprintf("TrDec %s %s %s %s", vh.H([]byte{id}), ks.Coq(), vh.H(v.cont), vh.HOpt(v.idx)), o2)
		rep.OracleChecks++
		if v.honest != (o2.Kind == "ok") || o2.Kind == "ok" && !bytes.Equal(o2.Vals[0], rw.plain) {
			rep.Violate("reverify-translator", "translator outcome "+o2.String()+" for a "+v.name+" value", lab+" data="+hx(data)+" plaintext="+hx(rw.plain))
		}
	}
}

// c09MySQL: MySQL twin of the rewrite, literal operands only (the rewritten text is matched against the one
// shape HashQuery.OnQuery produces: convert(substr(col, 1, 33), binary) <op> 0x<index>).
var c09MyRe = regexp.MustCompile(`(?i)where convert\(substr\(data1, 1, 33\), binary\) (=|!=|<>) 0x([0-9a-f]*)$`)

func c09MySQL(rep *vh.Report, r *vh.Rng, n int, thorough bool) {
	e := &EnvOps{rep, r}
	for sc := 0; sc < (n+3)/4; sc++ {
		ks := vh.NewKeySet(r, 1, 1, true)
		store := storeFor(ks)
		rh := crypto.NewRegistryHandler(store)
		y := "schemas:\n  - table: t\n    columns:\n      - id\n      - data1\n      - plain\n    encrypted:\n      - column: data1\n        searchable: true\n        crypto_envelope: acrablock\n"
		schema, err := config.MapTableSchemaStoreFromConfig([]byte(y), config.UseMySQL)
		if err != nil {
			panic(err)
		}
		setting := schema.GetTableSchema("t").GetColumnEncryptionSettings("data1")
		senc, _ := hmac.NewSearchableEncryptor(store, rh, rh)
		base1 := c09Value(r, false)
		pool := [][]byte{base1, c09Value(r, false), append(append([]byte{}, base1...), 'z')}
		if len(base1) > 1 {
			pool = append(pool, base1[:len(base1)-1])
		}
		var rows []c09Row
		for i := 0; i < 1+r.Intn(4); i++ {
			p := pool[r.Intn(len(pool))]
			o, tape := e.withTape(func() vh.Outcome {
				return one(senc.EncryptWithClientID([]byte(clientID), append([]byte{}, p...), setting))
			})
			rep.Add(fmt.Sprintf("my%d insert row%d", sc, i), fmt.Sprintf("SearchEnc %s %s %s %s", vh.H([]byte{crypto.AcraBlockEnvelopeID}), ks.Coq(), vh.HL(tape), vh.H(p)), o)
			if o.Kind == "ok" {
				rows = append(rows, c09Row{plain: p, stored: o.Vals[0]})
			}
		}
		for q := 0; q < 2; q++ {
			v := pool[r.Intn(len(pool))]
			if r.Intn(4) == 0 {
				v = []byte{}
			}
			neg := r.Intn(4) == 0
			op := "="
			if neg {
				op = "!="
			}
			sql := fmt.Sprintf("SELECT id FROM t WHERE data1 %s '%s'", op, v)
			rep.Count("mysql:query")
			lab := fmt.Sprintf("my%d q%d %s", sc, q, sql)
			var idx []byte
			var rewritten string
			o := vh.Guard(func() vh.Outcome {
				hq := myhash.NewHashQuery(store, schema, rh)
				obj, _, err := hq.OnQuery(sessionCtx(clientID), myenc.NewOnQueryObjectFromQuery(sql, sqlparser.New(sqlparser.ModeDefault)))
				if err != nil {
					return vh.ErrO(err)
				}
				rewritten = obj.Query()
				m := c09MyRe.FindStringSubmatch(rewritten)
				if m == nil {
					return vh.ErrO(fmt.Errorf("unexpected shape: %s", rewritten))
				}
				idx, err = hex.DecodeString(m[2])
				if err != nil {
					return vh.ErrO(err)
				}
				return vh.Ok(idx)
			})
			rep.Add(lab, fmt.Sprintf("CalcHmac %s %s", ks.Coq(), vh.H(v)), o)
			rep.OracleChecks++
			if o.Kind != "ok" {
				rep.Violate("mysql-rewrite", "MySQL rewrite failed or has an unknown shape: "+o.String(), lab)
				continue
			}
			for i, rw := range rows {
				rep.OracleChecks++
				sel := bytes.Equal(rw.stored[:33], idx) != neg
				if sel != (bytes.Equal(rw.plain, v) != neg) {
					rep.Violate("mysql-result-set", fmt.Sprintf("row %d selected=%v", i, sel), lab+"\nrewritten: "+rewritten+"\nplaintexts: "+c09Plains(rows))
				}
			}
		}
	}
}
